import IdspModel.Props.C07lock
import IdspModel.Lemmas.RpllRegion
import IdspModel.Lemmas.RpllRegionTable
/-!
# C07 (positive part, region) — a family of configurations on which the lock clause of C07 holds literally

`rpll_lock_at c` (`Props/C07lock.lean`) is the lock clause of C07 at configuration `c = ⟨d, P, off, sf, sp⟩`
(relative frequency error ≤ 1e-5, phase error ≤ 1e-3 turns from update `2^(sf−d+5) + 2^(sp−d+5)` on, for ever, both
profiles, no panic).  Two regions are given, each valid for EVERY edge offset `off`:

* `rpllRegion` — a table `rpllRegionTable` of 224 rows `(d, sf, sp, Plo, Phi)` (`Lemmas/RpllRegionTable.lean`): `c` is
  in the region iff its `(d, sf, sp)` has a row and `Plo ≤ P ≤ Phi`.  Each row is verified in the kernel by an
  adaptive bisection (`RpllCfg.rgCover`) whose leaves are a worst-case evaluation (`RpllCfg.rgChk`) of the four
  hypotheses of `rpll_lock_holds_where_envelope_small` over a whole sub-interval of `P` (monotonicity of
  `envF`, `envP`, `Lim`, `Nb`, `Qm` in `P` is proved once, `rpll_rgChk_sound`; `k` and `n0` are explicit functions of the
  sub-interval: `n0 = ⌈2^sp/Qlo⌉`, `k = ⌊(⌊32·2^sp/hi⌋ − 2)/n0⌋`).
* `rpllRegionClosed` — a closed-form sub-region of the table (containment checked row by row in the kernel).

Coverage of the property's admissible region (`d ∈ 2..11`, `2^d < P < 2^sf ≤ 2^30`, `P < 2^(sp+1)`,
`sp ∈ {sf−1, sf}`: 470 triples `(d, sf, sp)`; measure: uniform over triples, logarithmic in `P`):
table 17.8 % (224 triples non-empty, exactly those with `3 ≤ sp − d` and `sf − d ≤ 14`), closed form 12.9 % (210 triples).
What is out of reach and why:
* `sf − d ≥ 15` (246 triples): the frequency envelope `≈ (1 + 2P/Qm)·2^(sf−d−33)` exceeds 1e-5 — this is the class of
  finding F-C07-a' (dead band of the frequency loop), and together with small `P` the class F-C07-a (phase offset
  `2^(sf+sp−d−33)/P` turns; the proved envelope is 4…17 times that, so the table needs roughly
  `2^(sf+sp−d−33)/P ≤ 6e-5`);
* `P ≤ 3·2^d` and `2^sp < P < 2^(sp+1)`: outside `c.Good` (no contraction proved; contains the F-C07-b failures), and
  in practice `P ≳ 5·2^d` (enough halvings within the stated number of updates) and `P ≲ 0.88·2^sp`.
-/
namespace Idsp

/-- membership in the verified table -/
def rpllRegion (c : RpllCfg) : Prop :=
  rpllRegionTable.any (fun e => decide (e.1 = c.d ∧ e.2.1 = c.sf ∧ e.2.2.1 = c.sp ∧
    e.2.2.2.1 ≤ c.P ∧ c.P ≤ e.2.2.2.2)) = true

instance (c : RpllCfg) : Decidable (rpllRegion c) := by unfold rpllRegion; infer_instance

/-- **the lock clause of C07 holds literally on the table region, for every offset** (`c.off` is unconstrained) -/
theorem rpll_lock_region (c : RpllCfg) (h : rpllRegion c) : rpll_lock_at c := by
  unfold rpllRegion at h
  rw [List.any_eq_true] at h
  obtain ⟨e, he, hm⟩ := h
  rw [decide_eq_true_eq] at hm
  obtain ⟨h1, h2, h3, h4, h5⟩ := hm
  have hok := List.all_eq_true.mp rpllRegionTable_ok e he
  obtain ⟨g, k, n0, a1, a2, a3, a4⟩ :=
    rpll_rgCover_sound ⟨e.1, 0, 0, e.2.1, e.2.2.1⟩ 18 _ _ hok c h1.symm h2.symm h3.symm h4 h5
  exact rpll_lock_holds_where_envelope_small c g k n0 a1 a2 a3 a4

/-- lower end of the closed-form interval: `8·2^d` (if `sp − d ≥ 5` and `sf − d ≤ 10`) or `12·2^d`, and at least
    `2^(sf+sp−d−19)` (predicted dead-band phase offset `2^(sf+sp−d−33)/P ≤ 2^-14` turns) -/
def rpllCfLo (d : Nat) (sf sp : Int) : Int :=
  max (if 5 ≤ sp - d ∧ sf - d ≤ 10 then 8 * 2 ^ d else 12 * 2 ^ d) (2 ^ (sf + sp - d - 19).toNat)
/-- upper end: `(5/6)·2^sp` for `sf − d ≤ 11`, `2^sp/9` for `sf − d ∈ {12, 13, 14}` -/
def rpllCfHi (d : Nat) (sf sp : Int) : Int :=
  if sf - d ≤ 11 then 5 * 2 ^ sp.toNat / 6 else 2 ^ sp.toNat / 9

/-- **closed-form region**: `2 ≤ d ≤ 11`, `sp ∈ {sf−1, sf}`, `sp − d ≥ 4`, `sf − d ≤ 14`,
    `max(8 or 12 times 2^d, 2^(sf+sp−d−19)) ≤ P ≤ (5/6)·2^sp` (resp. `2^sp/9` for `sf − d ≥ 12`) -/
def rpllRegionClosed (c : RpllCfg) : Prop :=
  2 ≤ c.d ∧ c.d ≤ 11 ∧ (c.sp = c.sf - 1 ∨ c.sp = c.sf) ∧ 4 ≤ c.sp - c.d ∧ c.sf - c.d ≤ 14 ∧
  rpllCfLo c.d c.sf c.sp ≤ c.P ∧ c.P ≤ rpllCfHi c.d c.sf c.sp

private def rpllClosedRowOk (d : Nat) (sf sp : Int) : Bool :=
  decide (rpllCfHi d sf sp < rpllCfLo d sf sp) ||
  rpllRegionTable.any (fun e => decide (e.1 = d ∧ e.2.1 = sf ∧ e.2.2.1 = sp ∧
    e.2.2.2.1 ≤ rpllCfLo d sf sp ∧ rpllCfHi d sf sp ≤ e.2.2.2.2))

private theorem rpllClosed_all' : ((List.range 10).all fun i => (List.range 11).all fun a => (List.range 2).all fun t =>
    rpllClosedRowOk (i + 2) ((i + 2 : Nat) + (a : Int) + 4) ((i + 2 : Nat) + (a : Int) + 4 - (t : Int))) = true := by
  decide +kernel

private theorem rpllClosed_all : ∀ i : Nat, i < 10 → ∀ a : Nat, a < 11 → ∀ t : Nat, t < 2 →
    rpllClosedRowOk (i + 2) ((i + 2 : Nat) + (a : Int) + 4) ((i + 2 : Nat) + (a : Int) + 4 - (t : Int)) = true := by
  intro i hi a ha t ht
  have h := rpllClosed_all'
  rw [List.all_eq_true] at h
  have h1 := h i (List.mem_range.mpr hi)
  rw [List.all_eq_true] at h1
  have h2 := h1 a (List.mem_range.mpr ha)
  rw [List.all_eq_true] at h2
  exact h2 t (List.mem_range.mpr ht)

theorem rpllRegionClosed_sub (c : RpllCfg) (h : rpllRegionClosed c) : rpllRegion c := by
  obtain ⟨h1, h2, h3, h4, h5, h6, h7⟩ := h
  have key := rpllClosed_all (c.d - 2) (by omega) (c.sf - c.d - 4).toNat (by omega)
    (c.sf - c.sp).toNat (by omega)
  have e1 : c.d - 2 + 2 = c.d := by omega
  have e2 : ((c.d - 2 + 2 : Nat) : Int) + ((c.sf - c.d - 4).toNat : Int) + 4 = c.sf := by omega
  have e3 : ((c.d - 2 + 2 : Nat) : Int) + ((c.sf - c.d - 4).toNat : Int) + 4 - ((c.sf - c.sp).toNat : Int) = c.sp := by
    omega
  rw [e3, e2, e1] at key
  unfold rpllClosedRowOk at key
  rw [Bool.or_eq_true, decide_eq_true_eq, List.any_eq_true] at key
  rcases key with hlt | ⟨e, he, hm⟩
  · omega
  · rw [decide_eq_true_eq] at hm
    unfold rpllRegion
    rw [List.any_eq_true]
    exact ⟨e, he, by rw [decide_eq_true_eq]; exact ⟨hm.1, hm.2.1, hm.2.2.1, by omega, by omega⟩⟩

/-- **the lock clause of C07 holds literally on the closed-form region, for every offset** -/
theorem rpll_lock_region_closed (c : RpllCfg) (h : rpllRegionClosed c) : rpll_lock_at c :=
  rpll_lock_region c (rpllRegionClosed_sub c h)

/-! ### non-vacuity, and the crate's own test configurations -/

-- inside both regions (any offset): dt2 = 8 with P = 4000 (sf,sp) = (16,15); P = 40000, (20,19); P = 100000, (21,21)
example (off : Int) : rpllRegionClosed ⟨8, 4000, off, 16, 15⟩ ∧ rpllRegionClosed ⟨8, 40000, off, 20, 19⟩ ∧
    rpllRegionClosed ⟨8, 100000, off, 21, 21⟩ := by
  have h : rpllRegionClosed ⟨8, 4000, 0, 16, 15⟩ ∧ rpllRegionClosed ⟨8, 40000, 0, 20, 19⟩ ∧
      rpllRegionClosed ⟨8, 100000, 0, 21, 21⟩ := by
    refine ⟨?_, ?_, ?_⟩ <;> (unfold rpllRegionClosed rpllCfLo rpllCfHi; decide)
  exact h
-- inside the table but not the closed form: dt2 = 8, P = 1500, (16,15)
example (off : Int) : rpllRegion ⟨8, 1500, off, 16, 15⟩ ∧ ¬ rpllRegionClosed ⟨8, 1500, off, 16, 15⟩ := by
  have h : rpllRegion ⟨8, 1500, 0, 16, 15⟩ ∧ ¬ rpllRegionClosed ⟨8, 1500, 0, 16, 15⟩ := by
    constructor
    · unfold rpllRegion; decide
    · unfold rpllRegionClosed rpllCfLo rpllCfHi; decide
  exact h
-- the seven configurations of the crate's tests (`rpll.rs`) are ALL OUTSIDE the region:
-- default  (dt2 8, P 333, 9/8)          P ≤ 3·2^dt2
-- noisy    (dt2 8, P 333, 23/22)        P ≤ 3·2^dt2 and sf − dt2 = 15
-- narrow_fast (dt2 8, P 990, 23/22)     sf − dt2 = 15 (this is witness A of finding F-C07-a)
-- wide_fast   (dt2 8, P 990, 10/9)      P > 2^sp
-- narrow_slow (dt2 8, P 1818181, 23/22) sf − dt2 = 15
-- wide_slow   (dt2 8, P 1818181, 21/20) P > 2^sp
-- batch_fast_narrow (dt2 11, P 2431, 23/23)  P ≤ 3·2^dt2
example (off : Int) : ¬ rpllRegion ⟨8, 333, off, 9, 8⟩ ∧ ¬ rpllRegion ⟨8, 333, off, 23, 22⟩ ∧
    ¬ rpllRegion ⟨8, 990, off, 23, 22⟩ ∧ ¬ rpllRegion ⟨8, 990, off, 10, 9⟩ ∧
    ¬ rpllRegion ⟨8, 1818181, off, 23, 22⟩ ∧ ¬ rpllRegion ⟨8, 1818181, off, 21, 20⟩ ∧
    ¬ rpllRegion ⟨11, 2431, off, 23, 23⟩ := by
  have h : ¬ rpllRegion ⟨8, 333, 0, 9, 8⟩ ∧ ¬ rpllRegion ⟨8, 333, 0, 23, 22⟩ ∧
      ¬ rpllRegion ⟨8, 990, 0, 23, 22⟩ ∧ ¬ rpllRegion ⟨8, 990, 0, 10, 9⟩ ∧
      ¬ rpllRegion ⟨8, 1818181, 0, 23, 22⟩ ∧ ¬ rpllRegion ⟨8, 1818181, 0, 21, 20⟩ ∧
      ¬ rpllRegion ⟨11, 2431, 0, 23, 23⟩ := by
    refine ⟨?_, ?_, ?_, ?_, ?_, ?_, ?_⟩ <;> (unfold rpllRegion; decide)
  exact h

end Idsp
