import IdspModel.Lemmas.Basic
import IdspModel.Lemmas.LockinRecTone
import Mathlib.Analysis.SpecialFunctions.Trigonometric.Bounds
/-!
# Lock-in recovery: the reference phase ramp and the phasor at twice the reference frequency

Reference phases `p n = wrapI 32 (p0 + n·F)` (a wrapping `i32` accumulator), angle `φ n = p n·π/2^31`.  The doubled
angle satisfies `2·φ n + θ ≡ ψ0 + n·Ω (mod 2π)` with `ψ0 = p0·π/2^30 + θ`, `Ω = F·π/2^30`; for a frequency word with
`0.05 ≤ F/2^32 ≤ 0.45` the rotation `z = e^{jΩ}` stays away from `1`: `|z − 1| ≥ 0.6`.
-/
namespace Idsp
open Real

/-- rotation per sample of the component at twice the reference frequency -/
noncomputable def lkOmega (F : Int) : ℝ := (F : ℝ) * π / 2 ^ 30
noncomputable def lkZ (F : Int) : ℂ := Complex.exp ((lkOmega F : ℝ) * Complex.I)
/-- initial doubled phase -/
noncomputable def lkPsi0 (p0 : Int) (θ : ℝ) : ℝ := (p0 : ℝ) * π / 2 ^ 30 + θ

theorem lkZ_norm (F : Int) : ‖lkZ F‖ = 1 := Complex.norm_exp_ofReal_mul_I _

theorem lk_cos_pi_div_five_le : cos (π / 5) ≤ 0.82 := by
  have h0 := pi_gt_d2; have h1 := pi_lt_d2
  have hx0 : 0.628 ≤ π / 5 := by linarith
  have hx1 : π / 5 ≤ 0.63 := by linarith
  have hb := Real.cos_bound (x := π / 5) (by rw [abs_le]; constructor <;> linarith)
  have hpos : 0 ≤ π / 5 := by linarith
  rw [abs_of_nonneg hpos] at hb
  have := (abs_le.mp hb).2
  have e1 : (π / 5) ^ 2 ≥ 0.628 ^ 2 := pow_le_pow_left₀ (by norm_num) hx0 2
  have e2 : (π / 5) ^ 4 ≤ 0.63 ^ 4 := pow_le_pow_left₀ hpos hx1 4
  norm_num at e1 e2
  linarith

theorem lkZ_sub_one (F : Int) (hF0 : 214748365 ≤ F) (hF1 : F ≤ 1932735283) : 0.6 ≤ ‖lkZ F - 1‖ := by
  have hpi := pi_pos
  have hΩ0 : π / 5 ≤ lkOmega F := by
    unfold lkOmega
    have : (214748365 : ℝ) ≤ F := by exact_mod_cast hF0
    rw [le_div_iff₀ (by norm_num)]
    nlinarith
  have hΩ1 : lkOmega F ≤ 2 * π - π / 5 := by
    unfold lkOmega
    have : (F : ℝ) ≤ 1932735283 := by exact_mod_cast hF1
    rw [div_le_iff₀ (by norm_num)]
    nlinarith
  have hcos : cos (lkOmega F) ≤ 0.82 := by
    refine le_trans ?_ lk_cos_pi_div_five_le
    by_cases hc : lkOmega F ≤ π
    · exact cos_le_cos_of_nonneg_of_le_pi (by linarith) hc hΩ0
    · rw [← cos_two_pi_sub (lkOmega F)]
      exact cos_le_cos_of_nonneg_of_le_pi (by linarith) (by linarith) (by linarith)
  have hsq : ‖lkZ F - 1‖ ^ 2 = 2 - 2 * cos (lkOmega F) := by
    rw [Complex.sq_norm, Complex.normSq_apply]
    unfold lkZ
    simp only [Complex.sub_re, Complex.sub_im, Complex.one_re, Complex.one_im, Complex.exp_ofReal_mul_I_re,
      Complex.exp_ofReal_mul_I_im]
    have := sin_sq_add_cos_sq (lkOmega F)
    nlinarith
  by_contra hlt
  have hlt' := not_le.mp hlt
  have hnn := norm_nonneg (lkZ F - 1)
  nlinarith

/-- the phasor `R·e^{j(ψ0 + nΩ)}`: its real part is the tone `R·cos(ψ0 + n·Ω)` -/
theorem lkTc_eq (F : Int) (R ψ : ℝ) (n : ℕ) :
    lkTc (lkZ F) ((R : ℂ) * Complex.exp ((ψ : ℝ) * Complex.I)) n = R * cos (ψ + n * lkOmega F) := by
  unfold lkTc lkZ
  rw [← Complex.exp_nat_mul, mul_assoc, ← Complex.exp_add]
  have : (ψ : ℂ) * Complex.I + (n : ℂ) * ((lkOmega F : ℂ) * Complex.I)
      = ((ψ + n * lkOmega F : ℝ) : ℂ) * Complex.I := by push_cast; ring
  rw [this, Complex.re_ofReal_mul, Complex.exp_ofReal_mul_I_re]

theorem lk_w0_norm (R ψ : ℝ) (hR : 0 ≤ R) : ‖(R : ℂ) * Complex.exp ((ψ : ℝ) * Complex.I)‖ = R := by
  rw [norm_mul, Complex.norm_exp_ofReal_mul_I, mul_one, Complex.norm_real, Real.norm_eq_abs, abs_of_nonneg hR]

/-- the doubled reference angle of the wrapped accumulator agrees mod `2π` with the unwrapped ramp -/
theorem lk_phase_ramp (p0 F : Int) (θ : ℝ) (n : ℕ) :
    cos (2 * (((wrapI 32 (p0 + n * F) : Int) : ℝ) * π / 2 ^ 31) + θ) = cos (lkPsi0 p0 θ + n * lkOmega F) ∧
    sin (2 * (((wrapI 32 (p0 + n * F) : Int) : ℝ) * π / 2 ^ 31) + θ) = sin (lkPsi0 p0 θ + n * lkOmega F) := by
  obtain ⟨j, hj⟩ := wrapI_eq_sub 32 (p0 + n * F)
  rw [hj]
  have e : 2 * (((p0 + n * F - j * 2 ^ 32 : Int) : ℝ) * π / 2 ^ 31) + θ
      = (lkPsi0 p0 θ + n * lkOmega F) - ((2 * j : Int) : ℝ) * (2 * π) := by
    unfold lkPsi0 lkOmega; push_cast; ring
  rw [e]
  exact ⟨cos_sub_int_mul_two_pi _ _, sin_sub_int_mul_two_pi _ _⟩

end Idsp
