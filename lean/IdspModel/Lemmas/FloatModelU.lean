import IdspModel.Lemmas.FloatModelBiquad
/-!
  The standard model WITH UNDERFLOW (Higham (2.8)): `fl(a·b) = a·b·(1 + δ) + η`, `|δ| ≤ u`, `|η| ≤ eta`
  (`eta` = half the smallest positive subnormal: `2^-150` for binary32, `2^-1075` for binary64); with gradual underflow
  `+`/`−` keep the pure relative form (a subnormal sum is exact).  Valid for every finite result (no overflow).
  `eta = 0` is the model of `Lemmas/FloatModel.lean`.
-/
namespace Idsp

structure FlModelU (u eta : ℝ) where
  fadd : ℝ → ℝ → ℝ
  fsub : ℝ → ℝ → ℝ
  fmul : ℝ → ℝ → ℝ
  add_err : ∀ a b, ∃ δ, |δ| ≤ u ∧ fadd a b = (a + b) * (1 + δ)
  sub_err : ∀ a b, ∃ δ, |δ| ≤ u ∧ fsub a b = (a - b) * (1 + δ)
  mul_err : ∀ a b, ∃ δ η, |δ| ≤ u ∧ |η| ≤ eta ∧ fmul a b = (a * b) * (1 + δ) + η

/-- the underflow-free model is the case `eta = 0` -/
def FlModel.toU {u : ℝ} (M : FlModel u) : FlModelU u 0 where
  fadd := M.fadd
  fsub := M.fsub
  fmul := M.fmul
  add_err := M.add_err
  sub_err := M.sub_err
  mul_err a b := by
    obtain ⟨δ, h, e⟩ := M.mul_err a b
    exact ⟨δ, 0, h, by simp, by rw [e, add_zero]⟩

/-- rounding up every result and adding the full underflow error to every product -/
def FlModelU.roundUp (u eta : ℝ) (hu : 0 ≤ u) (he : 0 ≤ eta) : FlModelU u eta where
  fadd a b := (a + b) * (1 + u)
  fsub a b := (a - b) * (1 + u)
  fmul a b := (a * b) * (1 + u) + eta
  add_err _ _ := ⟨u, by rw [abs_of_nonneg hu], rfl⟩
  sub_err _ _ := ⟨u, by rw [abs_of_nonneg hu], rfl⟩
  mul_err _ _ := ⟨u, eta, by rw [abs_of_nonneg hu], by rw [abs_of_nonneg he], rfl⟩

/-- accumulated underflow contributions of one DF1 update (`× eta`) -/
noncomputable def df1UflowGain (u : ℝ) : ℝ := 2 * (1 + u) ^ 5 + (1 + u) ^ 4 + (1 + u) ^ 3 + (1 + u) ^ 2

/-- accumulated underflow contributions of the DF2T recurrence (`× eta`) -/
noncomputable def df2tUflowGain (u : ℝ) : ℝ := (1 + u) ^ 5 + (1 + u) ^ 4 + (1 + u) ^ 3 + (1 + u) ^ 2 + (1 + u)

namespace FlModelU

variable {u eta : ℝ} (M : FlModelU u eta)

noncomputable def ops : BOps ℝ := ⟨0, M.fadd, M.fsub, M.fmul, max, min⟩

include M in
theorem u_nonneg : 0 ≤ u := by
  obtain ⟨δ, h, _⟩ := M.add_err 0 0
  exact le_trans (abs_nonneg _) h

include M in
theorem eta_nonneg : 0 ≤ eta := by
  obtain ⟨δ, η, _, h, _⟩ := M.mul_err 0 0
  exact le_trans (abs_nonneg _) h

theorem near_mul (a b : ℝ) : Near (M.fmul a b) (a * b) (u * |a * b| + eta) |a * b| := by
  refine ⟨?_, le_rfl⟩
  obtain ⟨δ, η, hδ, hη, h⟩ := M.mul_err a b
  have e : a * b * (1 + δ) + η - a * b = δ * (a * b) + η := by ring
  rw [h, e]
  refine (abs_add_le _ _).trans (add_le_add ?_ hη)
  rw [abs_mul]
  exact mul_le_mul_of_nonneg_right hδ (abs_nonneg _)

theorem near_add {a' b' A B ea eb ma mb : ℝ} (ha : Near a' A ea ma) (hb : Near b' B eb mb) :
    Near (M.fadd a' b') (A + B) ((1 + u) * (ea + eb) + u * (ma + mb)) (ma + mb) := by
  obtain ⟨δ, hδ, h⟩ := M.add_err a' b'
  refine ⟨?_, (abs_add_le _ _).trans (add_le_add ha.2 hb.2)⟩
  rw [h]
  refine FlModel.round_near hδ ?_ ((abs_add_le _ _).trans (add_le_add ha.2 hb.2))
  have : a' + b' - (A + B) = (a' - A) + (b' - B) := by ring
  rw [this]
  exact (abs_add_le _ _).trans (add_le_add ha.1 hb.1)

theorem near_sub {a' b' A B ea eb ma mb : ℝ} (ha : Near a' A ea ma) (hb : Near b' B eb mb) :
    Near (M.fsub a' b') (A - B) ((1 + u) * (ea + eb) + u * (ma + mb)) (ma + mb) := by
  obtain ⟨δ, hδ, h⟩ := M.sub_err a' b'
  refine ⟨?_, (abs_sub _ _).trans (add_le_add ha.2 hb.2)⟩
  rw [h]
  refine FlModel.round_near hδ ?_ ((abs_sub _ _).trans (add_le_add ha.2 hb.2))
  have : a' - b' - (A - B) = (a' - A) - (b' - B) := by ring
  rw [this]
  exact (abs_sub _ _).trans (add_le_add ha.1 hb.1)

/-- the `macc` argument `u + s` with underflow: the relative bound of the underflow-free model plus
    `df1UflowGain · eta` -/
theorem fbiquadJunction_near (c : FBiquadCfg ℝ) (x0 x1 x2 y1 y2 : ℝ) :
    Near (M.fadd c.u (fbiquadSum M.ops c x0 x1 x2 y1 y2))
      (c.b0 * x0 + c.b1 * x1 + c.b2 * x2 - c.a1 * y1 - c.a2 * y2 + c.u)
      (df1Bound u c x0 x1 x2 y1 y2 + df1UflowGain u * eta)
      (|c.b0 * x0| + |c.b1 * x1| + |c.b2 * x2| + |c.a1 * y1| + |c.a2 * y2| + |c.u|) := by
  have h := M.near_add (near_exact c.u) (M.near_sub (M.near_sub (M.near_add (M.near_add (M.near_mul c.b0 x0)
    (M.near_mul c.b1 x1)) (M.near_mul c.b2 x2)) (M.near_mul c.a1 y1)) (M.near_mul c.a2 y2))
  exact (h.congr (by unfold df1Bound df1UflowGain gam; ring) (by ring)).congr_val (by ring)

theorem fbiquadUpdate4_eq (c : FBiquadCfg ℝ) (x1 x2 y1 y2 x0 : ℝ) :
    fbiquadUpdate4 M.ops c (x1, x2, y1, y2) x0 =
      ((x0, x1, rclip c.mn c.mx (M.fadd c.u (fbiquadSum M.ops c x0 x1 x2 y1 y2)), y1),
       rclip c.mn c.mx (M.fadd c.u (fbiquadSum M.ops c x0 x1 x2 y1 y2))) := rfl

theorem fbiquadUpdate5_eq (c : FBiquadCfg ℝ) (x1 x2 y1 y2 e1 x0 : ℝ) :
    fbiquadUpdate5 M.ops c (x1, x2, y1, y2, e1) x0 =
      ((x0, x1, rclip c.mn c.mx (M.fadd c.u (fbiquadSum M.ops c x0 x1 x2 y1 y2)), y1, 0),
       rclip c.mn c.mx (M.fadd c.u (fbiquadSum M.ops c x0 x1 x2 y1 y2))) := rfl

/-- pre-clamp value of the third of three consecutive DF2T updates from any state, with underflow -/
theorem df2t_third_near (c : FBiquadCfg ℝ) (st : ℝ × ℝ) (xa xb xc : ℝ) :
    let r1 := fbiquadUpdate2 M.ops c st xa
    let r2 := fbiquadUpdate2 M.ops c r1.1 xb
    let r3 := fbiquadUpdate2 M.ops c r2.1 xc
    r3.2 = rclip c.mn c.mx (M.fadd r2.1.1 (M.fmul c.b0 xc)) ∧
    Near (M.fadd r2.1.1 (M.fmul c.b0 xc)) (c.b0 * xc + c.b1 * xb + c.b2 * xa - c.a1 * r2.2 - c.a2 * r1.2 + c.u)
      (df2tBound u c xc xb xa r2.2 r1.2 + df2tUflowGain u * eta)
      (|c.u| + |c.b2 * xa| + |c.a2 * r1.2| + |c.b1 * xb| + |c.a1 * r2.2| + |c.b0 * xc|) := by
  obtain ⟨s0, s1⟩ := st
  intro r1 r2 r3
  have e1 : r1.1.2 = M.fsub (M.fadd c.u (M.fmul c.b2 xa)) (M.fmul c.a2 r1.2) := rfl
  have e2 : r2.1.1 = M.fsub (M.fadd r1.1.2 (M.fmul c.b1 xb)) (M.fmul c.a1 r2.2) := rfl
  refine ⟨rfl, ?_⟩
  have n1 := M.near_sub (M.near_add (near_exact c.u) (M.near_mul c.b2 xa)) (M.near_mul c.a2 r1.2)
  rw [← e1] at n1
  have n2 := M.near_sub (M.near_add n1 (M.near_mul c.b1 xb)) (M.near_mul c.a1 r2.2)
  rw [← e2] at n2
  have n3 := (M.near_add n2 (M.near_mul c.b0 xc)).congr_val
    (show c.u + c.b2 * xa - c.a2 * r1.2 + c.b1 * xb - c.a1 * r2.2 + c.b0 * xc =
      c.b0 * xc + c.b1 * xb + c.b2 * xa - c.a1 * r2.2 - c.a2 * r1.2 + c.u by ring)
  exact n3.congr (by unfold df2tBound df2tUflowGain gam; ring) rfl

end FlModelU

end Idsp
