import IdspModel.Lemmas.CossinCore
/-!
Helper lemmas for C01 (`cossin`), part 2: exact symmetries of the closed form `cossinVal`
(quarter turn, half turn, conjugation, in-quadrant mirror), its range, dependence on octant + 22-bit field only,
the XOR characterisation of the mirror, and the pairing lemma for the full-circle sum. Core Lean only.
-/
namespace Idsp

/-- flip the low 30 bits of a (signed) 32-bit phase and keep the top two: `p ^ 0x3fff_ffff` written arithmetically -/
def cossinMirror (p : Int) : Int := p - p % 2 ^ 30 + (2 ^ 30 - 1 - p % 2 ^ 30)

theorem cossin_nat_xor_mask_of_lt {y n : Nat} (h : y < 2 ^ n) : y ^^^ (2 ^ n - 1) = 2 ^ n - 1 - y := by
  apply Nat.eq_of_testBit_eq
  intro i
  rw [show 2 ^ n - 1 - y = 2 ^ n - (y + 1) by omega, Nat.testBit_two_pow_sub_succ h, Nat.testBit_xor,
    Nat.testBit_two_pow_sub_one]
  by_cases hi : i < n
  · simp [hi]
  · have : y < 2 ^ i := Nat.lt_of_lt_of_le h (Nat.pow_le_pow_right (by decide) (by omega))
    simp [hi, Nat.testBit_lt_two_pow this]

theorem cossin_nat_xor_mask (x n : Nat) : x ^^^ (2 ^ n - 1) = x - x % 2 ^ n + (2 ^ n - 1 - x % 2 ^ n) := by
  have hm : (2 ^ n - 1) / 2 ^ n = 0 := Nat.div_eq_of_lt (by have := Nat.two_pow_pos n; omega)
  have hm' : (2 ^ n - 1) % 2 ^ n = 2 ^ n - 1 := Nat.mod_eq_of_lt (by have := Nat.two_pow_pos n; omega)
  have h1 : (x ^^^ (2 ^ n - 1)) / 2 ^ n = x / 2 ^ n := by rw [Nat.xor_div_two_pow, hm, Nat.xor_zero]
  have h2 : (x ^^^ (2 ^ n - 1)) % 2 ^ n = 2 ^ n - 1 - x % 2 ^ n := by
    rw [Nat.xor_mod_two_pow, hm', cossin_nat_xor_mask_of_lt (Nat.mod_lt _ (Nat.two_pow_pos n))]
  have d1 := Nat.div_add_mod (x ^^^ (2 ^ n - 1)) (2 ^ n)
  have d2 := Nat.div_add_mod x (2 ^ n)
  rw [h1, h2] at d1
  omega

theorem cossinOct_range (p : Int) : 0 ≤ cossinOct p ∧ cossinOct p < 8 := by unfold cossinOct; omega

theorem cossinOct_cases (p : Int) : cossinOct p = 0 ∨ cossinOct p = 1 ∨ cossinOct p = 2 ∨ cossinOct p = 3 ∨
    cossinOct p = 4 ∨ cossinOct p = 5 ∨ cossinOct p = 6 ∨ cossinOct p = 7 := by
  have := cossinOct_range p; omega

theorem cossinVal_congr {p q : Int} (ho : cossinOct q = cossinOct p) (hf : cossinFld q = cossinFld p) :
    cossinVal q = cossinVal p := by unfold cossinVal; rw [ho, hf]

theorem cossinVal_quarter (p : Int) :
    cossinVal (wrapI 32 (p + 2 ^ 30)) = (-(cossinVal p).2, (cossinVal p).1) := by
  have ho : cossinOct (wrapI 32 (p + 2 ^ 30)) = (cossinOct p + 2) % 8 := by
    unfold cossinOct wrapI; omega
  have hf : cossinFld (wrapI 32 (p + 2 ^ 30)) = cossinFld p := by
    unfold cossinFld wrapI; omega
  have ha : cossinArg ((cossinOct p + 2) % 8) (cossinFld p) = cossinArg (cossinOct p) (cossinFld p) := by
    unfold cossinArg; have := cossinOct_range p; split <;> split <;> omega
  unfold cossinVal
  rw [ho, hf, ha]
  generalize cossinCoreVal _ = v
  rcases cossinOct_cases p with h | h | h | h | h | h | h | h <;> rw [h] <;> simp [cossinUnmap]

theorem cossinVal_conj (p : Int) :
    cossinVal (-p - 1) = ((cossinVal p).1, -(cossinVal p).2) := by
  have ho : cossinOct (-p - 1) = 7 - cossinOct p := by
    unfold cossinOct; omega
  have hf : cossinFld (-p - 1) = 2 ^ 22 - 1 - cossinFld p := by
    unfold cossinFld; omega
  have ha : cossinArg (7 - cossinOct p) (2 ^ 22 - 1 - cossinFld p) = cossinArg (cossinOct p) (cossinFld p) := by
    unfold cossinArg; have := cossinOct_range p; split <;> split <;> omega
  unfold cossinVal
  rw [ho, hf, ha]
  generalize cossinCoreVal _ = v
  rcases cossinOct_cases p with h | h | h | h | h | h | h | h <;> rw [h] <;> simp [cossinUnmap]

theorem cossinVal_mirror (p : Int) :
    cossinVal (cossinMirror p) =
      if cossinOct p / 2 % 2 = 0 then ((cossinVal p).2, (cossinVal p).1)
      else (-(cossinVal p).2, -(cossinVal p).1) := by
  have ho : cossinOct (cossinMirror p) = cossinOct p + 1 - 2 * (cossinOct p % 2) := by
    unfold cossinOct cossinMirror; omega
  have hf : cossinFld (cossinMirror p) = 2 ^ 22 - 1 - cossinFld p := by
    unfold cossinFld cossinMirror; omega
  have ha : cossinArg (cossinOct p + 1 - 2 * (cossinOct p % 2)) (2 ^ 22 - 1 - cossinFld p)
      = cossinArg (cossinOct p) (cossinFld p) := by
    unfold cossinArg; have := cossinOct_range p; split <;> split <;> omega
  unfold cossinVal
  rw [ho, hf, ha]
  generalize cossinCoreVal _ = v
  rcases cossinOct_cases p with h | h | h | h | h | h | h | h <;> rw [h] <;> simp [cossinUnmap]


theorem cossinMirror_in {p : Int} (hp : inI 32 p = true) : inI 32 (cossinMirror p) = true := by
  have := inI_iff.mp hp
  rw [inI_iff]; unfold cossinMirror; omega

/-- `cossinMirror` is the XOR with `0x3fff_ffff` on the `u32` image of the phase -/
theorem cossinMirror_eq_xor (p : Int) :
    wrapU 32 (cossinMirror p) = (((wrapU 32 p).toNat ^^^ (2 ^ 30 - 1) : Nat) : Int) := by
  rw [cossin_nat_xor_mask]
  unfold wrapU cossinMirror
  omega

/-- ... and, for an `i32` phase, it is that XOR cast back to `i32` -/
theorem cossinMirror_eq_xor_i32 {p : Int} (hp : inI 32 p = true) :
    cossinMirror p = wrapI 32 (((wrapU 32 p).toNat ^^^ (2 ^ 30 - 1) : Nat) : Int) := by
  have := inI_iff.mp hp
  rw [cossin_nat_xor_mask]
  unfold wrapU wrapI cossinMirror
  omega

theorem cossinVal_half (p : Int) :
    cossinVal (wrapI 32 (p + 2 ^ 31)) = (-(cossinVal p).1, -(cossinVal p).2) := by
  have h : wrapI 32 (p + 2 ^ 31) = wrapI 32 (wrapI 32 (p + 2 ^ 30) + 2 ^ 30) := by
    rw [wrapI_add_wrapI_left]; congr 1; omega
  rw [h, cossinVal_quarter, cossinVal_quarter]

theorem cossinVal_of_div {p q : Int} (h : p / 128 = q / 128) : cossinVal p = cossinVal q := by
  apply cossinVal_congr <;> simp only [cossinOct, cossinFld] <;> omega

theorem cossinArg_range (p : Int) :
    0 ≤ cossinArg (cossinOct p) (cossinFld p) ∧ cossinArg (cossinOct p) (cossinFld p) < 2 ^ 22 := by
  have hf : 0 ≤ cossinFld p ∧ cossinFld p < 2 ^ 22 := by unfold cossinFld; omega
  unfold cossinArg; split <;> omega

theorem cossinVal_range (p : Int) :
    -2147454703 ≤ (cossinVal p).1 ∧ (cossinVal p).1 ≤ 2147454703 ∧
    -2147454703 ≤ (cossinVal p).2 ∧ (cossinVal p).2 ≤ 2147454703 := by
  have ha := cossinArg_range p
  obtain ⟨c0, c1, s0, s1⟩ := cossinCoreVal_bounds ha.1 ha.2
  unfold cossinVal
  generalize cossinCoreVal _ = v at *
  rcases cossinOct_cases p with h | h | h | h | h | h | h | h <;> rw [h] <;> simp [cossinUnmap] <;> omega

theorem cossin_sq_le_sq {c M : Int} (h0 : -M ≤ c) (h1 : c ≤ M) : c * c ≤ M * M := by
  have hM : 0 ≤ M := by omega
  by_cases hc : 0 ≤ c
  · exact Int.le_trans (Int.mul_le_mul_of_nonneg_left h1 hc) (Int.mul_le_mul_of_nonneg_right h1 hM)
  · have hc' : 0 ≤ -c := by omega
    have h1' : -c ≤ M := by omega
    have := Int.le_trans (Int.mul_le_mul_of_nonneg_left h1' hc') (Int.mul_le_mul_of_nonneg_right h1' hM)
    rwa [Int.neg_mul_neg] at this

theorem cossinVal_norm (p : Int) :
    (cossinVal p).1 * (cossinVal p).1 + (cossinVal p).2 * (cossinVal p).2 < 2 ^ 63 := by
  obtain ⟨c0, c1, s0, s1⟩ := cossinVal_range p
  have a := cossin_sq_le_sq c0 c1
  have b := cossin_sq_le_sq s0 s1
  omega

/-! ### pairing lemma for the sum over a full period -/

theorem cossin_list_sum_map_neg (g h : Nat → Int) (l : List Nat) (H : ∀ k ∈ l, h k = -g k) :
    (l.map h).sum = -(l.map g).sum := by
  induction l with
  | nil => simp
  | cons a l ih =>
    simp only [List.map_cons, List.sum_cons]
    rw [ih (fun k hk => H k (List.mem_cons_of_mem _ hk)), H a (List.mem_cons_self ..)]
    omega

/-- if shifting the index by half the period negates the summand, the sum over the whole period vanishes -/
theorem cossin_list_sum_range_double (g : Nat → Int) (n : Nat) (H : ∀ k, k < n → g (n + k) = -g k) :
    ((List.range (n + n)).map g).sum = 0 := by
  rw [List.range_add, List.map_append, List.sum_append_int, List.map_map,
    cossin_list_sum_map_neg g (g ∘ fun x => n + x) (List.range n) (fun k hk => H k (List.mem_range.mp hk))]
  omega

/-- the summand of the full-circle sum: `u32` index `k`, phase `k as i32` -/
theorem cossinVal_shift_half (k : Nat) :
    cossinVal (wrapI 32 ((2 ^ 31 + k : Nat) : Int)) =
      (-(cossinVal (wrapI 32 (k : Int))).1, -(cossinVal (wrapI 32 (k : Int))).2) := by
  have h : ((2 ^ 31 + k : Nat) : Int) = (k : Int) + 2 ^ 31 := by omega
  rw [h, ← wrapI_add_wrapI_left 32 (k : Int) (2 ^ 31), cossinVal_half]

theorem cossinVal_sum_zero :
    ((List.range (2 ^ 32)).map fun k : Nat => (cossinVal (wrapI 32 (k : Int))).1).sum = 0 ∧
    ((List.range (2 ^ 32)).map fun k : Nat => (cossinVal (wrapI 32 (k : Int))).2).sum = 0 := by
  have e : (2 : Nat) ^ 31 + 2 ^ 31 = 2 ^ 32 := by omega
  have h1 := cossin_list_sum_range_double (fun k : Nat => (cossinVal (wrapI 32 (k : Int))).1) (2 ^ 31)
    (fun k _ => by simp only [cossinVal_shift_half])
  have h2 := cossin_list_sum_range_double (fun k : Nat => (cossinVal (wrapI 32 (k : Int))).2) (2 ^ 31)
    (fun k _ => by simp only [cossinVal_shift_half])
  rw [e] at h1 h2
  exact ⟨h1, h2⟩

end Idsp
