import IdspModel.Lemmas.Atan2Table
import IdspModel.Lemmas.Atan2Divi
import IdspModel.Lemmas.Atan2Xor
/-!
# Structure of `atan2`

`atan2 y x` = `unfoldOct` (three reflections, each to within one LSB) applied to the first-octant value
`oct0` = `atani (divi (min |y| |x|) (max |y| |x|))`, where `|·|` is the saturating absolute value.
Combines `divi_spec`, the complete `atani` table and the XOR lemma.  Core Lean only.
-/
namespace Idsp

/-- equality of results is decidable (used for `decide` witnesses) -/
instance atan2DecEqR : DecidableEq (R Int) := fun a b =>
  match a, b with
  | .ok x, .ok y => if h : x = y then isTrue (by rw [h]) else isFalse (fun e => h (Except.ok.inj e))
  | .error x, .error y =>
    if h : x = y then isTrue (by rw [h]) else isFalse (fun e => h (Except.error.inj e))
  | .ok _, .error _ => isFalse (fun e => by cases e)
  | .error _, .ok _ => isFalse (fun e => by cases e)

/-- `|v|` as `atan2` forms it: `saturating_neg` of a negative operand (`i32::MIN ↦ i32::MAX`) -/
def satAbs (v : Int) : Int := if v < 0 then satI 32 (-v) else v

theorem satAbs_of_in {v : Int} (h : inI 32 v = true) :
    satAbs v = if v < 0 then (if v = -2 ^ 31 then 2 ^ 31 - 1 else -v) else v := by
  have ⟨h0, h1⟩ := inI_iff.mp h
  simp only [Nat.reduceSub] at h0 h1
  unfold satAbs satI minI maxI
  simp only [Nat.reduceSub]
  split
  · split
    · omega
    · split <;> split <;> omega
  · rfl

/-- the first-octant computation on the sorted magnitudes -/
def oct0 (m : Mode) (y x : Int) : R Int := do
  let d ← divi m (min (satAbs y) (satAbs x)) (max (satAbs y) (satAbs x))
  atani m d

theorem atan2_swap_aux (m : Mode) (A B K0 K1 : Int) :
    (do
      let d ← divi m (if A > B then (B, A, K1) else (A, B, K0)).fst
        (if A > B then (B, A, K1) else (A, B, K0)).2.fst
      let r ← atani m d
      Except.ok (wrapI 32 (xorU32 r (if A > B then (B, A, K1) else (A, B, K0)).2.snd))) =
    (do
      let r ← (do
        let d ← divi m (min A B) (max A B)
        atani m d)
      Except.ok (wrapI 32 (xorU32 r (if decide (B < A) = true then K1 else K0))) : R Int) := by
  by_cases h : B < A
  · have hmin : min A B = B := by rw [Int.min_def]; split <;> omega
    have hmax : max A B = A := by rw [Int.max_def]; split <;> omega
    simp only [gt_iff_lt, h, if_true, decide_true, hmin, hmax, bind_assoc]
  · have hmin : min A B = A := by rw [Int.min_def]; split <;> omega
    have hmax : max A B = B := by rw [Int.max_def]; split <;> omega
    simp only [gt_iff_lt, h, if_false, decide_false, hmin, hmax, bind_assoc, Bool.false_eq_true]

/-- `atan2` = first-octant value of the sorted magnitudes, XORed with the mask of the three reflections -/
theorem atan2_eq (m : Mode) (y x : Int) :
    atan2 m y x = (do
      let r ← oct0 m y x
      .ok (wrapI 32 (xorU32 r
        (octMask (decide (y < 0)) (decide (x < 0)) (decide (satAbs x < satAbs y)))))) := by
  unfold atan2 oct0 octMask satAbs
  by_cases hy : y < 0 <;> by_cases hx : x < 0 <;>
    simp only [hy, hx, if_true, if_false, decide_true, decide_false, Bool.false_eq_true] <;>
    exact atan2_swap_aux ..

theorem satAbs_range {v : Int} (h : inI 32 v = true) : 0 ≤ satAbs v ∧ satAbs v < 2 ^ 31 := by
  have ⟨h0, h1⟩ := inI_iff.mp h
  simp only [Nat.reduceSub] at h0 h1
  rw [satAbs_of_in h]
  split
  · split <;> omega
  · omega

theorem satAbs_neg {v : Int} (h : inI 32 v = true) (h' : inI 32 (-v) = true) : satAbs (-v) = satAbs v := by
  have ⟨h0, h1⟩ := inI_iff.mp h
  have ⟨h0', h1'⟩ := inI_iff.mp h'
  simp only [Nat.reduceSub] at h0 h1 h0' h1'
  rw [satAbs_of_in h, satAbs_of_in h']
  split <;> split <;> (try split) <;> (try split) <;> omega

theorem oct0_neg_y (m : Mode) {y : Int} (x : Int) (h : inI 32 y = true) (h' : inI 32 (-y) = true) :
    oct0 m (-y) x = oct0 m y x := by
  unfold oct0; rw [satAbs_neg h h']

theorem oct0_neg_x (m : Mode) (y : Int) {x : Int} (h : inI 32 x = true) (h' : inI 32 (-x) = true) :
    oct0 m y (-x) = oct0 m y x := by
  unfold oct0; rw [satAbs_neg h h']

theorem oct0_swap (m : Mode) (y x : Int) : oct0 m x y = oct0 m y x := by
  unfold oct0; rw [Int.min_comm, Int.max_comm]

/-- The first-octant computation for sorted non-negative operands other than `(3,3)`: it succeeds, the value
    is in `[0, atanMax]`; `0` iff the larger operand is `≤ 1`, else `≥ 5215`; `= 5215` on the axis;
    `≤ 2^29 + 7807` off the diagonal. -/
theorem oct_ok {a b : Int} (ha : 0 ≤ a) (hab : a ≤ b) (hb : b < 2 ^ 31) (hbad : ¬(a = 3 ∧ b = 3)) :
    ∃ r, (do let d ← divi .checked a b; atani .checked d) = .ok r ∧ 0 ≤ r ∧ r ≤ atanMax ∧
      (b ≤ 1 → r = 0) ∧ (2 ≤ b → 5215 ≤ r) ∧ (a < b → r ≤ 536878719) ∧ (a = 0 → 2 ≤ b → r = 5215) := by
  rcases divi_spec ha hab hb with ⟨h1, hd⟩ | ⟨h2, q, hd, hq0, hqz, hq⟩
  · refine ⟨0, ?_, by omega, by unfold atanMax; omega, fun _ => rfl, by omega, by omega, by omega⟩
    rw [hd, R_ok_bind]; exact atani_zero
  · have hq81 : q ≤ 81920 := by
      rcases hq with h | ⟨rfl, hodd, h17, rfl⟩
      · omega
      · have h5 : 2 ≤ (a - 1) / 2 := by omega
        have := Int.ediv_le_of_le_mul (a := 2 ^ 15) (b := 2 ^ 14) (c := (a - 1) / 2) (by omega) (by omega)
        omega
    obtain ⟨n, rfl⟩ := Int.eq_ofNat_of_zero_le hq0
    obtain ⟨r, hr, r0, r1⟩ := atanQ_ok n (by omega)
    have h0 := atanQ_mono (q := 0) (q' := n) (by omega) (by omega) atanQ_0 hr
    refine ⟨r, ?_, r0, r1, by omega, fun _ => h0, ?_, ?_⟩
    · rw [hd, R_ok_bind]; exact hr
    · intro hlt
      have hn : n ≤ 65537 := by
        rcases hq with h | ⟨rfl, _⟩
        · omega
        · omega
      exact atanQ_mono hn (by omega) hr atanQ_65537
    · intro ha0 _
      have : n = 0 := by have := hqz ha0; omega
      subst this
      exact Except.ok.inj (hr.symm.trans atanQ_0)

/-- the exact set of operand pairs on which `atan2` panics (checked) / is wrong (release) -/
def atan2Bad (y x : Int) : Prop := satAbs y = 3 ∧ satAbs x = 3

theorem atan2Bad_iff {y x : Int} (hy : inI 32 y = true) (hx : inI 32 x = true) :
    atan2Bad y x ↔ (y = 3 ∨ y = -3) ∧ (x = 3 ∨ x = -3) := by
  unfold atan2Bad
  rw [satAbs_of_in hy, satAbs_of_in hx]
  constructor
  · intro ⟨h1, h2⟩
    constructor
    · split at h1
      · split at h1 <;> omega
      · omega
    · split at h2
      · split at h2 <;> omega
      · omega
  · intro ⟨h1, h2⟩
    constructor
    · rcases h1 with rfl | rfl <;> decide
    · rcases h2 with rfl | rfl <;> decide

theorem oct0_ok {y x : Int} (hy : inI 32 y = true) (hx : inI 32 x = true) (hbad : ¬ atan2Bad y x) :
    ∃ r0, oct0 .checked y x = .ok r0 ∧ 0 ≤ r0 ∧ r0 ≤ atanMax ∧
      (max (satAbs y) (satAbs x) ≤ 1 → r0 = 0) ∧ (2 ≤ max (satAbs y) (satAbs x) → 5215 ≤ r0) ∧
      (satAbs y ≠ satAbs x → r0 ≤ 536878719) ∧
      (min (satAbs y) (satAbs x) = 0 → 2 ≤ max (satAbs y) (satAbs x) → r0 = 5215) := by
  have ⟨y0, y1⟩ := satAbs_range hy
  have ⟨x0, x1⟩ := satAbs_range hx
  unfold atan2Bad at hbad
  have hmin := Int.min_def (satAbs y) (satAbs x)
  have hmax := Int.max_def (satAbs y) (satAbs x)
  obtain ⟨r, hr, h0, h1, h2, h3, h4, h5⟩ := oct_ok (a := min (satAbs y) (satAbs x))
    (b := max (satAbs y) (satAbs x)) (by split at hmin <;> omega)
    (by split at hmin <;> split at hmax <;> omega) (by split at hmax <;> omega)
    (by split at hmin <;> split at hmax <;> omega)
  refine ⟨r, hr, h0, h1, h2, h3, ?_, h5⟩
  intro hne
  exact h4 (by split at hmin <;> split at hmax <;> omega)

/-- `atan2` in checked mode on every in-range pair outside the bad set: no panic, and the value is the first
    octant value `r0` pushed through the three reflections. -/
theorem atan2_checked {y x : Int} (hy : inI 32 y = true) (hx : inI 32 x = true) (hbad : ¬ atan2Bad y x) :
    ∃ r0, oct0 .checked y x = .ok r0 ∧ 0 ≤ r0 ∧ r0 ≤ atanMax ∧
      (max (satAbs y) (satAbs x) ≤ 1 → r0 = 0) ∧ (2 ≤ max (satAbs y) (satAbs x) → 5215 ≤ r0) ∧
      (satAbs y ≠ satAbs x → r0 ≤ 536878719) ∧
      (min (satAbs y) (satAbs x) = 0 → 2 ≤ max (satAbs y) (satAbs x) → r0 = 5215) ∧
      atan2 .checked y x =
        .ok (unfoldOct (decide (y < 0)) (decide (x < 0)) (decide (satAbs x < satAbs y)) r0) := by
  obtain ⟨r0, hr, h0, h1, h2, h3, h4, h5⟩ := oct0_ok hy hx hbad
  refine ⟨r0, hr, h0, h1, h2, h3, h4, h5, ?_⟩
  rw [atan2_eq, hr]
  show Except.ok _ = _
  rw [xor_unfold h0 (by unfold atanMax at h1; omega)]

end Idsp
