import Mathlib.Analysis.Complex.Trigonometric
import Mathlib.Analysis.SpecialFunctions.Trigonometric.Basic
import Mathlib.Analysis.Real.Pi.Bounds
import Mathlib.Tactic.NormNum
import Mathlib.Tactic.Ring
import Mathlib.Tactic.Linarith
import Mathlib.Tactic.LinearCombination
/-!
Accuracy of `cossin` against the real cosine/sine, part 1 (pure real analysis, no model):
certified polynomial enclosures of `Real.cos` / `Real.sin` on `[0, 1]`.

`cossinAccCosP`, `cossinAccSinP` are the Taylor polynomials of degree 12 / 13; the remainder is bounded by
`13e-12` for `|x| ≤ 1` via `Complex.exp_bound` with 14 terms. Together with the monotonicity of cos and sin on
`[0, 1]` this gives two-sided bounds for `cos x`, `sin x` from rational enclosures `xl ≤ x ≤ xh`.
-/
namespace Idsp
open Complex Finset

theorem cossinAcc_expsum_cos (x : ℂ) :
    (∑ m ∈ range 14, (x * I) ^ m / m.factorial + ∑ m ∈ range 14, (-x * I) ^ m / m.factorial) / 2 =
      1 - x ^ 2 / 2 + x ^ 4 / 24 - x ^ 6 / 720 + x ^ 8 / 40320 - x ^ 10 / 3628800 + x ^ 12 / 479001600 := by
  have h2 : I ^ 2 = -1 := I_sq
  simp only [Finset.sum_range_succ, Finset.sum_range_zero, Nat.factorial]
  push_cast
  linear_combination (x ^ 2 / 2 * ((1) * I ^ 0) + x ^ 4 / 24 * ((-1) * I ^ 0 + (1) * I ^ 2) + x ^ 6 / 720 * ((1) * I ^ 0 + (-1) * I ^ 2 + (1) * I ^ 4) + x ^ 8 / 40320 * ((-1) * I ^ 0 + (1) * I ^ 2 + (-1) * I ^ 4 + (1) * I ^ 6) + x ^ 10 / 3628800 * ((1) * I ^ 0 + (-1) * I ^ 2 + (1) * I ^ 4 + (-1) * I ^ 6 + (1) * I ^ 8) + x ^ 12 / 479001600 * ((-1) * I ^ 0 + (1) * I ^ 2 + (-1) * I ^ 4 + (1) * I ^ 6 + (-1) * I ^ 8 + (1) * I ^ 10)) * h2

theorem cossinAcc_expsum_sin (x : ℂ) :
    (∑ m ∈ range 14, (-x * I) ^ m / m.factorial - ∑ m ∈ range 14, (x * I) ^ m / m.factorial) * I / 2 =
      x - x ^ 3 / 6 + x ^ 5 / 120 - x ^ 7 / 5040 + x ^ 9 / 362880 - x ^ 11 / 39916800 + x ^ 13 / 6227020800 := by
  have h2 : I ^ 2 = -1 := I_sq
  simp only [Finset.sum_range_succ, Finset.sum_range_zero, Nat.factorial]
  push_cast
  linear_combination (-(x ^ 1 / 1) * ((1) * I ^ 0) + -(x ^ 3 / 6) * ((-1) * I ^ 0 + (1) * I ^ 2) + -(x ^ 5 / 120) * ((1) * I ^ 0 + (-1) * I ^ 2 + (1) * I ^ 4) + -(x ^ 7 / 5040) * ((-1) * I ^ 0 + (1) * I ^ 2 + (-1) * I ^ 4 + (1) * I ^ 6) + -(x ^ 9 / 362880) * ((1) * I ^ 0 + (-1) * I ^ 2 + (1) * I ^ 4 + (-1) * I ^ 6 + (1) * I ^ 8) + -(x ^ 11 / 39916800) * ((-1) * I ^ 0 + (1) * I ^ 2 + (-1) * I ^ 4 + (1) * I ^ 6 + (-1) * I ^ 8 + (1) * I ^ 10) + -(x ^ 13 / 6227020800) * ((1) * I ^ 0 + (-1) * I ^ 2 + (1) * I ^ 4 + (-1) * I ^ 6 + (1) * I ^ 8 + (-1) * I ^ 10 + (1) * I ^ 12)) * h2

theorem cossinAcc_exp_tail {z : ℂ} (hz : ‖z‖ ≤ 1) :
    ‖exp z - ∑ m ∈ range 14, z ^ m / m.factorial‖ ≤ 13 / 1000000000000 := by
  have e1 := exp_bound (x := z) hz (n := 14) (by simp)
  have h1 : ‖z‖ ^ 14 ≤ 1 := pow_le_one₀ (norm_nonneg _) hz
  have h : ((Nat.succ 14 : ℝ) * ((Nat.factorial 14 : ℝ) * ((14 : ℕ) : ℝ))⁻¹) ≤ 13 / 1000000000000 := by
    norm_num [Nat.factorial]
  have hp : (0:ℝ) ≤ ((Nat.succ 14 : ℝ) * ((Nat.factorial 14 : ℝ) * ((14 : ℕ) : ℝ))⁻¹) := by positivity
  calc _ ≤ _ := e1
    _ ≤ 1 * ((Nat.succ 14 : ℝ) * ((Nat.factorial 14 : ℝ) * ((14 : ℕ) : ℝ))⁻¹) :=
        mul_le_mul_of_nonneg_right h1 hp
    _ ≤ _ := by rw [one_mul]; exact h

theorem cossinAcc_ccos_taylor {x : ℂ} (hx : ‖x‖ ≤ 1) :
    ‖cos x - (1 - x ^ 2 / 2 + x ^ 4 / 24 - x ^ 6 / 720 + x ^ 8 / 40320 - x ^ 10 / 3628800 + x ^ 12 / 479001600)‖
      ≤ 13 / 1000000000000 := by
  have e1 := cossinAcc_exp_tail (z := x * I) (by simpa)
  have e2 := cossinAcc_exp_tail (z := -x * I) (by simpa)
  rw [← cossinAcc_expsum_cos x]
  have : cos x - (∑ m ∈ range 14, (x * I) ^ m / m.factorial + ∑ m ∈ range 14, (-x * I) ^ m / m.factorial) / 2
      = (exp (x * I) - ∑ m ∈ range 14, (x * I) ^ m / m.factorial) / 2
        + (exp (-x * I) - ∑ m ∈ range 14, (-x * I) ^ m / m.factorial) / 2 := by
    rw [cos]; ring
  rw [this]
  calc _ ≤ ‖(exp (x * I) - ∑ m ∈ range 14, (x * I) ^ m / m.factorial) / 2‖
        + ‖(exp (-x * I) - ∑ m ∈ range 14, (-x * I) ^ m / m.factorial) / 2‖ := norm_add_le _ _
    _ ≤ _ := by
      rw [Complex.norm_div, Complex.norm_div]
      have : ‖(2:ℂ)‖ = 2 := by simp
      rw [this]
      linarith

theorem cossinAcc_csin_taylor {x : ℂ} (hx : ‖x‖ ≤ 1) :
    ‖sin x - (x - x ^ 3 / 6 + x ^ 5 / 120 - x ^ 7 / 5040 + x ^ 9 / 362880 - x ^ 11 / 39916800 + x ^ 13 / 6227020800)‖
      ≤ 13 / 1000000000000 := by
  have e1 := cossinAcc_exp_tail (z := x * I) (by simpa)
  have e2 := cossinAcc_exp_tail (z := -x * I) (by simpa)
  rw [← cossinAcc_expsum_sin x]
  have : sin x - (∑ m ∈ range 14, (-x * I) ^ m / m.factorial - ∑ m ∈ range 14, (x * I) ^ m / m.factorial) * I / 2
      = (exp (-x * I) - ∑ m ∈ range 14, (-x * I) ^ m / m.factorial) * I / 2
        - (exp (x * I) - ∑ m ∈ range 14, (x * I) ^ m / m.factorial) * I / 2 := by
    rw [sin]; ring
  rw [this]
  calc _ ≤ ‖(exp (-x * I) - ∑ m ∈ range 14, (-x * I) ^ m / m.factorial) * I / 2‖
        + ‖(exp (x * I) - ∑ m ∈ range 14, (x * I) ^ m / m.factorial) * I / 2‖ := norm_sub_le _ _
    _ ≤ _ := by
      rw [Complex.norm_div, Complex.norm_div, Complex.norm_mul, Complex.norm_mul]
      have : ‖(2:ℂ)‖ = 2 := by simp
      rw [this, norm_I, mul_one, mul_one]
      linarith

/-- Taylor polynomial of `cos`, degree 12 -/
noncomputable def cossinAccCosP (x : ℝ) : ℝ :=
  1 - x ^ 2 / 2 + x ^ 4 / 24 - x ^ 6 / 720 + x ^ 8 / 40320 - x ^ 10 / 3628800 + x ^ 12 / 479001600
/-- Taylor polynomial of `sin`, degree 13 -/
noncomputable def cossinAccSinP (x : ℝ) : ℝ :=
  x - x ^ 3 / 6 + x ^ 5 / 120 - x ^ 7 / 5040 + x ^ 9 / 362880 - x ^ 11 / 39916800 + x ^ 13 / 6227020800

theorem cossinAcc_cos_taylor {x : ℝ} (hx : |x| ≤ 1) : |Real.cos x - cossinAccCosP x| ≤ 13 / 1000000000000 := by
  have h := cossinAcc_ccos_taylor (x := (x : ℂ)) (by simpa using hx)
  have e : ((Real.cos x - cossinAccCosP x : ℝ) : ℂ) = cos (x : ℂ) - (1 - (x:ℂ) ^ 2 / 2 + (x:ℂ) ^ 4 / 24 - (x:ℂ) ^ 6 / 720
      + (x:ℂ) ^ 8 / 40320 - (x:ℂ) ^ 10 / 3628800 + (x:ℂ) ^ 12 / 479001600) := by
    unfold cossinAccCosP; push_cast; ring
  rw [← e, Complex.norm_real, Real.norm_eq_abs] at h
  exact h

theorem cossinAcc_sin_taylor {x : ℝ} (hx : |x| ≤ 1) : |Real.sin x - cossinAccSinP x| ≤ 13 / 1000000000000 := by
  have h := cossinAcc_csin_taylor (x := (x : ℂ)) (by simpa using hx)
  have e : ((Real.sin x - cossinAccSinP x : ℝ) : ℂ) = sin (x : ℂ) - ((x:ℂ) - (x:ℂ) ^ 3 / 6 + (x:ℂ) ^ 5 / 120 - (x:ℂ) ^ 7 / 5040
      + (x:ℂ) ^ 9 / 362880 - (x:ℂ) ^ 11 / 39916800 + (x:ℂ) ^ 13 / 6227020800) := by
    unfold cossinAccSinP; push_cast; ring
  rw [← e, Complex.norm_real, Real.norm_eq_abs] at h
  exact h

/-- enclosure of `cos x`, `sin x` from an enclosure `0 ≤ xl ≤ x ≤ xh ≤ 1` of the argument -/
theorem cossinAcc_enclosure {x xl xh : ℝ} (h0 : 0 ≤ xl) (h1 : xl ≤ x) (h2 : x ≤ xh) (h3 : xh ≤ 1) :
    cossinAccCosP xh - 13 / 1000000000000 ≤ Real.cos x ∧ Real.cos x ≤ cossinAccCosP xl + 13 / 1000000000000 ∧
    cossinAccSinP xl - 13 / 1000000000000 ≤ Real.sin x ∧ Real.sin x ≤ cossinAccSinP xh + 13 / 1000000000000 := by
  have hpi := Real.pi_gt_three
  have cl := abs_le.mp (cossinAcc_cos_taylor (x := xl) (by rw [abs_le]; constructor <;> linarith))
  have ch := abs_le.mp (cossinAcc_cos_taylor (x := xh) (by rw [abs_le]; constructor <;> linarith))
  have sl := abs_le.mp (cossinAcc_sin_taylor (x := xl) (by rw [abs_le]; constructor <;> linarith))
  have sh := abs_le.mp (cossinAcc_sin_taylor (x := xh) (by rw [abs_le]; constructor <;> linarith))
  have m1 : Real.cos xh ≤ Real.cos x := Real.cos_le_cos_of_nonneg_of_le_pi (by linarith) (by linarith) h2
  have m2 : Real.cos x ≤ Real.cos xl := Real.cos_le_cos_of_nonneg_of_le_pi h0 (by linarith) h1
  have m3 : Real.sin xl ≤ Real.sin x := Real.sin_le_sin_of_le_of_le_pi_div_two (by linarith) (by linarith) h1
  have m4 : Real.sin x ≤ Real.sin xh := Real.sin_le_sin_of_le_of_le_pi_div_two (by linarith) (by linarith) h2
  refine ⟨?_, ?_, ?_, ?_⟩ <;> linarith [cl.1, cl.2, ch.1, ch.2, sl.1, sl.2, sh.1, sh.2]

end Idsp
