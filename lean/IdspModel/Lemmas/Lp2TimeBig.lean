import IdspModel.Lemmas.Lp2BigModel
import IdspModel.Lemmas.Lp2TimeVel
/-!
# Large steps: the hand-off index is at most `7·(2^32/b) + 39`

As `lp2_big_abstract`, but the hand-off happens as soon as (after `N = ⌊2^32/b⌋` steps) the error is below `bgRH`;
by `lp2_large_error_ends` this takes at most `(2^32/b + 34) + (5·2^32/b + 5)` further steps.
-/
namespace Idsp
set_option linter.unusedVariables false

/-- numeric side conditions of `lp2_large_error_ends` for the window after step `N` -/
theorem bg_window {k a b : Int} (h : Lp2Butter k a b) :
    4294967296 * (4 * a ^ 2 * 1070000000) ≤ 2 * a * bgRH a - 2 * bgUC a b ∧
    4 * b * (a ^ 2 * 4294967296 * 1070000000 / b) ≤ 4294967296 * (4 * a ^ 2 * 1070000000) ∧
    0 ≤ a ^ 2 * 4294967296 * 1070000000 / b ∧
    2 * (a ^ 2 * 4294967296 * 1070000000 / b) + 2 * bgS0 a
      ≤ (4294967296 / b + 34) * (4 * a ^ 2 * 1070000000) ∧
    (2 * a * 4294967296 * 2148379782 + 1) - bgRH a + 1
      ≤ (5 * (4294967296 / b) + 5) * (2 * (a ^ 2 * 4294967296 * 1070000000 / b)) := by
  have ha := h.a_ge; have hbg := h.b_ge; have hbl := h.b_le; have hbsq := h.bsq_lt
  have hb0 : 0 < b := by omega
  obtain ⟨hUC, -⟩ := bg_UC_le h
  have hq0 : 0 ≤ 4294967296 / b := Int.ediv_nonneg (by norm_num) (le_of_lt hb0)
  have hMb1 : 4294967296 < (4294967296 / b + 1) * b := Int.lt_ediv_add_one_mul_self _ hb0
  have hMb0 : 4294967296 / b * b ≤ 4294967296 := Int.ediv_mul_le _ (by omega)
  have hP0 : 0 ≤ a ^ 2 * 4294967296 * 1070000000 := by positivity
  have hh0 : 0 ≤ a ^ 2 * 4294967296 * 1070000000 / b := Int.ediv_nonneg hP0 (le_of_lt hb0)
  have hh1 : a ^ 2 * 4294967296 * 1070000000 / b * b ≤ a ^ 2 * 4294967296 * 1070000000 := Int.ediv_mul_le _ (by omega)
  have hh2 : a ^ 2 * 4294967296 * 1070000000 < (a ^ 2 * 4294967296 * 1070000000 / b + 1) * b :=
    Int.lt_ediv_add_one_mul_self _ hb0
  generalize a ^ 2 * 4294967296 * 1070000000 / b = hv at *
  generalize 4294967296 / b = y at *
  have ha2 : 1 ≤ a ^ 2 := by nlinarith
  have haa : a ≤ a ^ 2 := by nlinarith
  refine ⟨?_, by nlinarith, hh0, ?_, ?_⟩
  · unfold bgRH; nlinarith
  · -- multiply by b
    have : b * (2 * hv + 2 * bgS0 a) ≤ b * ((y + 34) * (4 * a ^ 2 * 1070000000)) := by
      unfold bgS0
      have e1 : b * (2 * hv) ≤ 2 * (a ^ 2 * 4294967296 * 1070000000) := by nlinarith
      have e2 : (4 * a ^ 2 * 1070000000) * 4294967296 ≤ (4 * a ^ 2 * 1070000000) * ((y + 1) * b) :=
        mul_le_mul_of_nonneg_left (le_of_lt hMb1) (by positivity)
      have e3 : b * (2 * (16 * a * 4294967296)) ≤ b * (33 * (4 * a ^ 2 * 1070000000)) := by
        apply mul_le_mul_of_nonneg_left _ (le_of_lt hb0); nlinarith
      nlinarith
    exact le_of_mul_le_mul_left this hb0
  · have hy5 : 5 * 4294967296 ≤ (5 * y + 5) * b := by nlinarith
    have : b * b * ((2 * a * 4294967296 * 2148379782 + 1) - bgRH a + 1)
        ≤ b * b * ((5 * y + 5) * (2 * hv)) := by
      unfold bgRH
      -- lhs ≤ 4aM·(2aM·1074703497 + 2)
      have l1 : b * b * ((2 * a * 4294967296 * 2148379782 + 1) - 2 * a * 4294967296 * 1073676285 + 1)
          ≤ 4 * (a * 4294967296) * (2 * a * 4294967296 * 1074703497 + 2) := by
        have : b * b ≤ 4 * (a * 4294967296) := by nlinarith
        have hpos : (0 : Int) ≤ 2 * a * 4294967296 * 1074703497 + 2 := by positivity
        nlinarith
      -- rhs ≥ (5M)·2·(P − b)·… : b·b·(nc·2hv) = (nc·b)·2·(hv·b) ≥ 5M·2·(P − b)
      have r1 : a ^ 2 * 4294967296 * 1070000000 - b ≤ hv * b := by nlinarith
      have r0 : 0 ≤ a ^ 2 * 4294967296 * 1070000000 - b := by nlinarith
      have r2 : (5 * 4294967296) * (a ^ 2 * 4294967296 * 1070000000 - b) ≤ ((5 * y + 5) * b) * (hv * b) :=
        mul_le_mul hy5 r1 r0 (by positivity)
      nlinarith
    exact le_of_mul_le_mul_left this (by positivity)

theorem lp2_big_abstract_time {k a b : Int} (h : Lp2Butter k a b)
    (e s : Nat → Int)
    (he0 : 2 * a * 4294967296 * 804782080 ≤ e 0) (he1 : e 0 ≤ 2 * a * 4294967296 * 2148007936)
    (hs0 : -bgS0 a ≤ s 0) (hs1 : s 0 ≤ bgS0 a)
    (hrel : ∀ n, bgUC a b ≤ a * e n → e n ≤ bgEmax a b (e 0) →
      Lp2Rel a b (bgUC a b) (e n) (s n) (e (n + 1)) (s (n + 1))) :
    ∃ nh : Nat, (nh : Int) ≤ 7 * (4294967296 / b) + 39 ∧
      (∀ j, j < nh → bgThr a b ≤ e j ∧ e j ≤ bgEmax a b (e 0) ∧ -bgS0 a ≤ s j ∧ s j ≤ bgST a b (e 0)) ∧
      -bgRH a ≤ e nh ∧ e nh ≤ bgRH a ∧ -bgS0 a ≤ s nh ∧ s nh ≤ bgST a b (e 0) ∧
      lp2Q a b (e nh) (s nh) ≤ bgVH a b := by
  have ha := h.a_ge; have hbg := h.b_ge; have hbl := h.b_le
  have ha0 : 0 < a := by omega
  have hb0 : 0 < b := by omega
  have hA := h.adm
  obtain ⟨hUC0, hthr, hS00, hG0, hEmax, hST, hS0T, hg, -, -, -⟩ := bg_basic h he0
  have hbb : 4294967296 < 2 * b ^ 2 := by nlinarith
  -- N and J
  have hq0 : 0 ≤ 4294967296 / b := Int.ediv_nonneg (by norm_num) (le_of_lt hb0)
  have hqJ0 : 0 ≤ (4294967296 + b) / (2 * b) := Int.ediv_nonneg (by omega) (by omega)
  obtain ⟨N, hN⟩ : ∃ N : Nat, (N : Int) = 4294967296 / b := ⟨(4294967296 / b).toNat, by omega⟩
  obtain ⟨J, hJ⟩ : ∃ J : Nat, (J : Int) = (4294967296 + b) / (2 * b) := ⟨((4294967296 + b) / (2 * b)).toNat, by omega⟩
  have hbN : b * N ≤ 4294967296 := by
    rw [hN]; have := Int.ediv_mul_le 4294967296 (show b ≠ 0 by omega); linarith
  have hNb : 4294967296 < b * (N + 1) := by
    rw [hN]; have := Int.lt_ediv_add_one_mul_self 4294967296 hb0; linarith
  have hJ1 : 2 * b * J ≤ 4294967296 + b := by
    rw [hJ]; have := Int.ediv_mul_le (4294967296 + b) (show 2 * b ≠ 0 by omega); linarith
  have hJ2 : 4294967296 - b ≤ 2 * b * J := by
    rw [hJ]; have := Int.lt_ediv_add_one_mul_self (4294967296 + b) (show 0 < 2 * b by omega); linarith
  have hN2 : 2 ≤ N := by
    have : b * 2 < b * ((N : Int) + 1) := by nlinarith
    have := lt_of_mul_lt_mul_left this (le_of_lt hb0)
    omega
  have hJN : J ≤ N := by
    have : b * (2 * (J : Int)) < b * ((N : Int) + 2) := by nlinarith
    have := lt_of_mul_lt_mul_left this (le_of_lt hb0)
    omega
  have hNle : N ≤ 65536 := by
    by_contra hc
    have : (65537 : Int) ≤ N := by exact_mod_cast (by omega : 65537 ≤ N)
    have : b * 65537 ≤ b * N := mul_le_mul_of_nonneg_left this (le_of_lt hb0)
    omega
  have hlen := bg_len (N := (N : Int)) (J := (J : Int)) h he0 (by positivity) hbN (by positivity) hJ1 hJ2
    (by exact_mod_cast hJN)
  -- the phase ends
  obtain ⟨n1, hph, hend⟩ := lp2_exit ha0 hb0 hbl hUC0 e s (bgEmax a b (e 0)) hrel (bgS0 a) (bgST a b (e 0))
    (bgG a b (e 0)) (bgThr a b) hs0 hs1 hS00 hG0 hEmax hST hS0T hg hthr hbb
  obtain ⟨hNn1, hfacts, hlow, hsl, hsu⟩ := lp2_exit_facts ha0 hb0 hbl hUC0 e s (bgEmax a b (e 0)) hrel (bgS0 a)
    (bgST a b (e 0)) (bgG a b (e 0)) (bgThr a b) hs0 hs1 hS00 hG0 hEmax hST hS0T hg hthr J N hJN hlen n1 hph hend
  -- decay
  obtain ⟨hK0, hKs, -⟩ := bg_K_spec h
  obtain ⟨hBA, hLev⟩ := bg_level h
  have hKU : (32 * 4294967296) * (b + 32 * 4294967296) * (4 * 4294967296 * bgUC a b ^ 2)
      ≤ b * (32 * 4294967296) * 4294967296 ^ 2 * bgK a b := by
    have := mul_le_mul_of_nonneg_left hKs (show (0 : Int) ≤ 32 * 4294967296 * 4294967296 by norm_num)
    have e1 : 32 * 4294967296 * 4294967296 * (4 * (b + 32 * 4294967296) * bgUC a b ^ 2)
        = (32 * 4294967296) * (b + 32 * 4294967296) * (4 * 4294967296 * bgUC a b ^ 2) := by ring
    have e2 : 32 * 4294967296 * 4294967296 * (b * 4294967296 * bgK a b)
        = b * (32 * 4294967296) * 4294967296 ^ 2 * bgK a b := by ring
    linarith
  have hD0 : 0 ≤ lp2Disc a b := le_of_lt hA.hD
  have hrel' : ∀ j, j < n1 → Lp2Rel a b (bgUC a b) (e j) (s j) (e (j + 1)) (s (j + 1)) :=
    fun j hj => (hfacts j hj).2.2.2
  obtain ⟨hdec, hinv⟩ := lp2_exit_V ha0 hD0 hb0 hbl e s n1 hrel' b (32 * 4294967296) (bgK a b) hb0 (by norm_num) hK0
    hKU hBA
  obtain ⟨-, hinv'⟩ := lp2_exit_V ha0 hD0 hb0 hbl e s (n1 - 1) (fun j hj => hrel' j (by omega)) b (32 * 4294967296)
    (bgK a b) hb0 (by norm_num) hK0 hKU hBA
  -- V_N ≤ VH
  have hVN : lp2Q a b (e N) (s N) ≤ bgVH a b :=
    bg_cert (N := N) h hbN hNb he0 he1 hs0 hs1 (hdec N (by omega))
  have hVj : ∀ j, N ≤ j → j ≤ n1 → lp2Q a b (e j) (s j) ≤ bgVH a b := by
    intro j hj1 hj2
    obtain ⟨-, hinvj⟩ := lp2_exit_V ha0 hD0 hb0 hbl e s j (fun i hi => hrel' i (by omega)) b (32 * 4294967296)
      (bgK a b) hb0 (by norm_num) hK0 hKU hBA
    exact hinvj (bgVH a b) N hLev hj1 hVN
  obtain ⟨hSTRH, -, hST0, hEmaxle, hthr0, hthrRH⟩ := bg_ST_le h he0 he1
  obtain ⟨hRV, -⟩ := bg_VH_spec' h
  -- lower bound at n1 by the sector lemma (as in `lp2_big_model`)
  have hen1lo : -bgRH a ≤ e n1 := by
    obtain ⟨hp1, hp2, hp3, hprel⟩ := hfacts (n1 - 1) (by omega)
    have hsum := hprel.sum
    rw [show n1 - 1 + 1 = n1 by omega] at hsum
    have hsec := lp2_sector_lower' (a := a) (b := b) (E := e (n1 - 1)) (s := s (n1 - 1)) (E' := e n1) (s' := s n1)
      (R := bgRH a) (SB := bgST a b (e 0)) (Vmax := bgVH a b) ha0 (by have := h.two_a_lt; omega) (by omega)
      (by unfold bgRH; positivity) hSTRH hp3 hRV (hVj (n1 - 1) (by omega) (by omega)) (hVj n1 (by omega) (le_refl _)) hsum
    rcases hsec with h1 | h1
    · exact h1
    · have := hph (n1 - 1) (by omega); omega
  -- the first index ≥ N with e ≤ RH
  classical
  have hex : ∃ j, N ≤ j ∧ e j ≤ bgRH a := ⟨n1, by omega, by omega⟩
  obtain ⟨nh, ⟨hnhN, hnhE⟩, hmin⟩ : ∃ nh, (N ≤ nh ∧ e nh ≤ bgRH a) ∧ ∀ j, j < nh → ¬(N ≤ j ∧ e j ≤ bgRH a) :=
    ⟨Nat.find hex, Nat.find_spec hex, fun j hj => Nat.find_min hex hj⟩
  have hnhn1 : nh ≤ n1 := by
    by_contra hc
    exact hmin n1 (by omega) ⟨by omega, by omega⟩
  -- time bound
  obtain ⟨w1, w2, w3, w4, w5⟩ := bg_window h
  have hq0' : 0 ≤ 4294967296 / b := hq0
  obtain ⟨na, hna⟩ : ∃ na : Nat, (na : Int) = 4294967296 / b + 34 := ⟨(4294967296 / b + 34).toNat, by omega⟩
  obtain ⟨nc, hnc⟩ : ∃ nc : Nat, (nc : Int) = 5 * (4294967296 / b) + 5 := ⟨(5 * (4294967296 / b) + 5).toNat, by omega⟩
  have hbound : nh ≤ N + na + nc := by
    by_contra hc
    have hlong : N + na + nc < nh := by omega
    -- window starting at N
    refine lp2_large_error_ends ha0 hb0 hbl hUC0 (fun i => e (N + i)) (fun i => s (N + i)) (bgRH a)
      (2 * a * 4294967296 * 2148379782 + 1) (4 * a ^ 2 * 1070000000) (a ^ 2 * 4294967296 * 1070000000 / b)
      (bgS0 a) na nc ?_ ?_ ?_ (by positivity) w1 w3 w2 ?_ (by rw [hna]; exact w4) (by rw [hnc]; exact w5)
    · intro i hi
      have := hrel' (N + i) (by omega)
      simpa [Nat.add_assoc] using this
    · intro i hi
      have := hmin (N + i) (by omega)
      have h2 : ¬ (e (N + i) ≤ bgRH a) := fun hh => this ⟨by omega, hh⟩
      exact le_of_lt (not_le.mp h2)
    · intro i hi
      have := (hfacts (N + i) (by omega)).1
      linarith
    · simpa using (hfacts N (by omega)).2.1
  refine ⟨nh, ?_, fun j hj => ?_, ?_, hnhE, ?_, ?_, hVj nh hnhN hnhn1⟩
  · have h1 : ((nh : Nat) : Int) ≤ (N : Int) + na + nc := by exact_mod_cast hbound
    rw [hna, hnc, hN] at h1
    linarith
  · obtain ⟨f1, f2, f3, f4⟩ := hfacts j (by omega)
    exact ⟨hph j (by omega), f1, f2, f3⟩
  · rcases Nat.lt_or_ge nh n1 with hlt | hge
    · have := hph nh hlt; linarith
    · have : nh = n1 := by omega
      rw [this]; exact hen1lo
  · rcases Nat.lt_or_ge nh n1 with hlt | hge
    · exact (hfacts nh hlt).2.1
    · have : nh = n1 := by omega
      rw [this]; exact hsl
  · rcases Nat.lt_or_ge nh n1 with hlt | hge
    · exact (hfacts nh hlt).2.2.1
    · have : nh = n1 := by omega
      rw [this]; exact hsu

end Idsp
