import IdspModel.Model.Pll
import IdspModel.Lemmas.Basic
import Mathlib.Tactic.Linarith
import Mathlib.Tactic.Ring
/-!
# PLL (C06): integer arithmetic of the loop maps

Both integrators of `PLL.update` run the same map `pllT k : v ↦ v - 2k·hi v` (in wrapping 64-bit arithmetic,
`hi v = v >> 32` reduced to `i32`).  The frequency residue obeys `g' = pllT k g`, the phase residue (with the
frequency locked at `0 ≤ g < 2^32`) obeys `u' = pllPhi k g u = pllT k u + g`.  This file analyses these maps on
`Int`; no reference to the model.
-/
namespace Idsp

/-- the loop map common to both integrators: `v ↦ v + 2·k·wrap32(-(v >> 32))`, wrapping at 64 bit -/
def pllT (k v : Int) : Int := wrapI 64 (v + 2 * (wrapI 32 (-(v / 2 ^ 32)) * k))

/-- the phase-integrator map under a constant drive `g` -/
def pllPhi (k g u : Int) : Int := wrapI 64 (pllT k u + g)

theorem kmul_env {k : Int} (hk0 : 2 ^ 8 ≤ k) (hk1 : k < 2 ^ 31) (G : Int) :
    (0 ≤ G → 2 ^ 8 * G ≤ k * G ∧ k * G ≤ (2 ^ 31 - 1) * G) ∧
    (G ≤ 0 → (2 ^ 31 - 1) * G ≤ k * G ∧ k * G ≤ 2 ^ 8 * G) := by
  constructor <;> intro hG <;> constructor <;> nlinarith

theorem pllT_eq {k v : Int} (hk0 : 2 ^ 8 ≤ k) (hk1 : k < 2 ^ 31)
    (hv0 : -2 ^ 63 + 2 ^ 32 ≤ v) (hv1 : v < 2 ^ 63) :
    pllT k v = v - 2 * (k * (v / 2 ^ 32)) := by
  have ⟨hp, hn⟩ := kmul_env hk0 hk1 (v / 2 ^ 32)
  have h1 : wrapI 32 (-(v / 2 ^ 32)) = -(v / 2 ^ 32) := by unfold wrapI; omega
  unfold pllT
  rw [h1, show -(v / 2 ^ 32) * k = -(k * (v / 2 ^ 32)) by ring]
  generalize k * (v / 2 ^ 32) = p at *
  unfold wrapI
  by_cases hG : 0 ≤ v / 2 ^ 32
  · have := hp hG; omega
  · have := hn (by omega); omega

/-- quotient `c = g / (2k)` through the product atom `k * c` -/
theorem c_spec {k g : Int} (hk0 : 2 ^ 8 ≤ k) (hg0 : 0 ≤ g) :
    0 ≤ g / (2 * k) ∧ 2 * (k * (g / (2 * k))) ≤ g ∧ g < 2 * (k * (g / (2 * k))) + 2 * k := by
  have h2k : (0 : Int) < 2 * k := by omega
  have h1 := Int.emod_add_mul_ediv g (2 * k)
  have h2 := Int.emod_nonneg g (Int.ne_of_gt h2k)
  have h3 := Int.emod_lt_of_pos g h2k
  have h4 : 2 * k * (g / (2 * k)) = 2 * (k * (g / (2 * k))) := by ring
  refine ⟨Int.ediv_nonneg hg0 (by omega), by omega, by omega⟩

section
variable {k g : Int} (hk0 : 2 ^ 8 ≤ k) (hk1 : k < 2 ^ 31) (hg0 : 0 ≤ g) (hg1 : g < 2 ^ 32)
include hk0 hk1 hg0 hg1

/-- above the band: strict descent without undershoot, by at least `2k·t` when `t` levels above -/
theorem phi_pos {u : Int} (hu1 : u < 2 ^ 63) (hm : g / (2 * k) + 2 ≤ u / 2 ^ 32) :
    g / (2 * k) * 2 ^ 32 ≤ pllPhi k g u ∧ pllPhi k g u < u ∧
    ∀ t : Int, 0 ≤ t → (g / (2 * k) + 1 + t) * 2 ^ 32 ≤ u → pllPhi k g u ≤ u - 2 * (k * t) := by
  have ⟨hc0, hc1, hc2⟩ := c_spec hk0 hg0 (g := g)
  have hT := pllT_eq hk0 hk1 (v := u) (by omega) hu1
  unfold pllPhi; rw [hT]
  have hkm : k * (u / 2 ^ 32) = k * (g / (2 * k)) + 2 * k + k * (u / 2 ^ 32 - g / (2 * k) - 2) := by ring
  have ⟨he, _⟩ := kmul_env hk0 hk1 (u / 2 ^ 32 - g / (2 * k) - 2)
  have he := he (by omega)
  have hcc := (kmul_env hk0 hk1 (g / (2 * k))).1 hc0
  have h5 : k * (u / 2 ^ 32 - g / (2 * k) - 1) = k * (u / 2 ^ 32 - g / (2 * k) - 2) + k := by ring
  rw [hkm]
  generalize k * (u / 2 ^ 32 - g / (2 * k) - 2) = kd at *
  generalize hkc : k * (g / (2 * k)) = kc at *
  have hw : wrapI 64 (u - 2 * (kc + 2 * k + kd) + g) = u - 2 * (kc + 2 * k + kd) + g := by
    unfold wrapI; omega
  rw [hw]
  refine ⟨by omega, by omega, ?_⟩
  intro t ht hL
  have : k * t ≤ k * (u / 2 ^ 32 - g / (2 * k) - 1) := by
    apply Int.mul_le_mul_of_nonneg_left _ (by omega); omega
  rw [h5] at this
  omega

/-- below the band (high word not the wrapping one): strict ascent without overshoot -/
theorem phi_neg {u : Int} (hu0 : -2 ^ 63 + 2 ^ 32 ≤ u) (hm : u / 2 ^ 32 ≤ g / (2 * k) - 1) :
    u ≤ pllPhi k g u ∧ pllPhi k g u < (g / (2 * k) + 2) * 2 ^ 32 ∧
    ∀ t : Int, 0 ≤ t → u < (g / (2 * k) + 1 - t) * 2 ^ 32 → u + 2 * (k * t) ≤ pllPhi k g u := by
  have ⟨hc0, hc1, hc2⟩ := c_spec hk0 hg0 (g := g)
  have hcc := (kmul_env hk0 hk1 (g / (2 * k))).1 hc0
  have hcb : g / (2 * k) < 2 ^ 23 := by omega
  have hT := pllT_eq hk0 hk1 (v := u) hu0 (by omega)
  unfold pllPhi; rw [hT]
  have hkm : k * (u / 2 ^ 32) = k * (g / (2 * k)) - k * (g / (2 * k) - u / 2 ^ 32) := by ring
  have ⟨he, _⟩ := kmul_env hk0 hk1 (g / (2 * k) - u / 2 ^ 32)
  have he := he (by omega)
  rw [hkm]
  generalize hkd : k * (g / (2 * k) - u / 2 ^ 32) = kd at *
  generalize hkc : k * (g / (2 * k)) = kc at *
  have hw : wrapI 64 (u - 2 * (kc - kd) + g) = u - 2 * (kc - kd) + g := by
    unfold wrapI; omega
  rw [hw]
  refine ⟨by omega, by omega, ?_⟩
  intro t ht hL
  have : k * t ≤ k * (g / (2 * k) - u / 2 ^ 32) := by
    apply Int.mul_le_mul_of_nonneg_left _ (by omega); omega
  rw [hkd] at this
  omega

/-- the band `hi u ∈ {c, c+1}` is invariant -/
theorem phi_mid {u : Int} (hm0 : g / (2 * k) * 2 ^ 32 ≤ u) (hm1 : u < (g / (2 * k) + 2) * 2 ^ 32) :
    g / (2 * k) * 2 ^ 32 ≤ pllPhi k g u ∧ pllPhi k g u < (g / (2 * k) + 2) * 2 ^ 32 := by
  have ⟨hc0, hc1, hc2⟩ := c_spec hk0 hg0 (g := g)
  have hcc := (kmul_env hk0 hk1 (g / (2 * k))).1 hc0
  have hcb : g / (2 * k) < 2 ^ 23 := by omega
  have hT := pllT_eq hk0 hk1 (v := u) (by omega) (by omega)
  unfold pllPhi; rw [hT]
  have hm : u / 2 ^ 32 = g / (2 * k) ∨ u / 2 ^ 32 = g / (2 * k) + 1 := by omega
  have hkm : k * (g / (2 * k) + 1) = k * (g / (2 * k)) + k := by ring
  rcases hm with hm | hm <;> rw [hm] <;> try rw [hkm]
  all_goals
    generalize hkc : k * (g / (2 * k)) = kc at *
    unfold wrapI; omega

/-- the wrapping high word `-2^31`: one step leads to a non-negative value -/
theorem phi_min {u : Int} (hu0 : -2 ^ 63 ≤ u) (hu1 : u < -2 ^ 63 + 2 ^ 32) :
    0 ≤ pllPhi k g u ∧ pllPhi k g u < 2 ^ 63 := by
  have h1 : wrapI 32 (-(u / 2 ^ 32)) = -2 ^ 31 := by unfold wrapI; omega
  unfold pllPhi pllT
  rw [h1]
  unfold wrapI; omega
end

theorem pllPhi_zero (k u : Int) : pllPhi k 0 u = pllT k u := by
  unfold pllPhi pllT
  rw [Int.add_zero, wrapI_wrapI (by decide)]

/-- `hi v = 0` is a fixed point -/
theorem pllT_fix {k v : Int} (hv0 : 0 ≤ v) (hv1 : v < 2 ^ 32) : pllT k v = v := by
  have h0 : v / 2 ^ 32 = 0 := by omega
  unfold pllT
  rw [h0]
  simp only [Int.neg_zero]
  rw [show wrapI 32 0 = 0 by decide]
  unfold wrapI; omega

/-- `hi v = 1`: plain subtraction of `2k` -/
theorem pllT_one {k v : Int} (hv0 : 2 ^ 32 ≤ v) (hv1 : v < 2 ^ 33) : pllT k v = wrapI 64 (v - 2 * k) := by
  have h0 : v / 2 ^ 32 = 1 := by omega
  unfold pllT
  rw [h0, show wrapI 32 (-1) = -1 by decide]
  congr 1; omega
end Idsp
