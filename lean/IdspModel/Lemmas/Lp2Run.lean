import IdspModel.Lemmas.Lp2Lyap
/-!
# Second-order lowpass: the Lyapunov sublevel sets along a run with constant input

Gains `k0 = a`, `k1 = -b`.  Centred, scaled error coordinates
`Ē = 2a·(x·2^32 − s0) + (a+b)·2^32`, `s̄ = 2a·s1` (the centre is the rest point of the recursion when both floor
remainders sit at one half); `lp2V = Q(Ē, s̄)`.  `lp2_V_step`: inside a safe sublevel set one model update returns
`.ok`, stays inside, strictly decreases `V` outside the equilibrium level and keeps the equilibrium level set
invariant.  `lp2_seq_*`: the consequences along a whole run.
-/
namespace Idsp
set_option linter.unusedVariables false
set_option linter.unusedSimpArgs false

def lp2Eb (a b x s0 : Int) : Int := 2 * a * (x * 4294967296 - s0) + (a + b) * 4294967296
def lp2V (a b x : Int) (st : Int × Int) : Int := lp2Q a b (lp2Eb a b x st.1) (2 * a * st.2)
/-- bound of the centred disturbance -/
def lp2U (a b : Int) : Int := a * (a + b) * 4294967296

/-- admissible gain pair `(k0, k1) = (a, -b)`: positive, damped (`2a < b`), complex characteristic roots -/
structure Lp2Adm (a b : Int) : Prop where
  ha0 : 1 ≤ a
  ha1 : a ≤ 2147483647
  hba : 2 * a < b
  hb1 : b ≤ 2147483648
  hD : 0 < lp2Disc a b

/-- `Vmax` is a safe level for input `x`: the sublevel set `V ≤ Vmax` lies in the overflow-free box and contains
    the equilibrium level set.  (`EB`, `SB`: extents of the sublevel set, `G`: resulting bound of `|get − x|`.) -/
def Lp2Safe (a b x Vmax : Int) : Prop :=
  ∃ EB SB G : Int, 0 ≤ EB ∧ 0 ≤ SB ∧ 0 ≤ G ∧ -2147483647 + G ≤ x ∧ x + G ≤ 2147483647 ∧
    4 * (4294967296 - b) * Vmax ≤ lp2Disc a b * EB ^ 2 ∧ 4 * a * Vmax ≤ lp2Disc a b * SB ^ 2 ∧
    EB + (a + b) * 4294967296 ≤ 2 * a * G * 4294967296 ∧ SB ≤ 2 * a * 4611686018427387904 ∧
    4 * (4294967296 - b) * lp2U a b ^ 2 ≤ b * (b - 2 * a) * Vmax

theorem lp2_centered_rec (x a b : Int) (st : Int × Int) (ha : 0 < a) (hb : 0 < b) :
    ∃ u : Int, u ^ 2 ≤ lp2U a b ^ 2 ∧
      4294967296 * lp2Eb a b x (lp2Next x a (-b) st).1
        = (4294967296 - 2 * a) * lp2Eb a b x st.1 - (2 * 4294967296 - 2 * b) * (2 * a * st.2) - 2 * u ∧
      4294967296 * (2 * a * (lp2Next x a (-b) st).2)
        = 2 * a * lp2Eb a b x st.1 + (4294967296 - 2 * b) * (2 * a * st.2) + 2 * u := by
  obtain ⟨r00, r01, r10, r11, h5, h6, -⟩ := lp2_err_rec x a (-b) st
  refine ⟨2 * a * (a * (st.1 % 4294967296) + b * (st.2 % 4294967296)) - lp2U a b, ?_, ?_, ?_⟩
  · apply sq_le_sq'
    · unfold lp2U
      nlinarith [mul_nonneg (le_of_lt ha) r00, mul_nonneg (le_of_lt hb) r10, mul_pos ha ha, mul_pos ha hb]
    · unfold lp2U
      have h1 : a * (st.1 % 4294967296) ≤ a * 4294967295 := mul_le_mul_of_nonneg_left (by omega) (le_of_lt ha)
      have h2 : b * (st.2 % 4294967296) ≤ b * 4294967295 := mul_le_mul_of_nonneg_left (by omega) (le_of_lt hb)
      have h3 : a * (a * (st.1 % 4294967296) + b * (st.2 % 4294967296)) ≤ a * (a * 4294967295 + b * 4294967295) :=
        mul_le_mul_of_nonneg_left (by linarith) (le_of_lt ha)
      nlinarith [mul_pos ha ha, mul_pos ha hb]
  · unfold lp2Eb lp2U
    linear_combination (2 * a) * h5
  · unfold lp2Eb lp2U
    linear_combination (2 * a) * h6

theorem lp2_box_of_V {a b x : Int} (st : Int × Int) (EB SB G Vmax : Int) (ha : 0 < a)
    (hD : 0 < lp2Disc a b) (hb : 0 < b) (hbM : b < 4294967296) (hEB0 : 0 ≤ EB) (hSB0 : 0 ≤ SB) (hG : 0 ≤ G)
    (hx0 : -2147483647 + G ≤ x) (hx1 : x + G ≤ 2147483647)
    (hE : 4 * (4294967296 - b) * Vmax ≤ lp2Disc a b * EB ^ 2) (hS : 4 * a * Vmax ≤ lp2Disc a b * SB ^ 2)
    (hEG : EB + (a + b) * 4294967296 ≤ 2 * a * G * 4294967296) (hSG : SB ≤ 2 * a * 4611686018427387904)
    (hV : lp2V a b x st ≤ Vmax) : Lp2Box x st := by
  obtain ⟨s0, s1⟩ := st
  unfold lp2V at hV
  simp only at hV
  have e1 := lp2Q_extent_E a b (lp2Eb a b x s0) (2 * a * s1)
  have e2 := lp2Q_extent_s a b (lp2Eb a b x s0) (2 * a * s1)
  have hE2 : lp2Eb a b x s0 ^ 2 ≤ EB ^ 2 := by
    have : 4 * (4294967296 - b) * lp2Q a b (lp2Eb a b x s0) (2 * a * s1) ≤ 4 * (4294967296 - b) * Vmax :=
      mul_le_mul_of_nonneg_left hV (by omega)
    exact le_of_mul_le_mul_left (by linarith) hD
  have hS2 : (2 * a * s1) ^ 2 ≤ SB ^ 2 := by
    have : 4 * a * lp2Q a b (lp2Eb a b x s0) (2 * a * s1) ≤ 4 * a * Vmax :=
      mul_le_mul_of_nonneg_left hV (by omega)
    exact le_of_mul_le_mul_left (by linarith) hD
  obtain ⟨hE3, hE4⟩ := abs_le_of_sq_le_sq' hE2 hEB0
  obtain ⟨hS3, hS4⟩ := abs_le_of_sq_le_sq' hS2 hSB0
  unfold lp2Eb at hE3 hE4
  -- |x·2^32 − s0| ≤ G·2^32 and |s1| ≤ 2^62
  have h1 : 2 * a * (x * 4294967296 - s0) ≤ 2 * a * (G * 4294967296) := by nlinarith
  have h2 : 2 * a * (-(G * 4294967296)) ≤ 2 * a * (x * 4294967296 - s0) := by nlinarith
  have h3 : 2 * a * s1 ≤ 2 * a * 4611686018427387904 := by linarith
  have h4 : 2 * a * (-4611686018427387904) ≤ 2 * a * s1 := by linarith
  have ha2 : (0 : Int) < 2 * a := by omega
  have g1 := le_of_mul_le_mul_left h1 ha2
  have g2 := le_of_mul_le_mul_left h2 ha2
  have g3 := le_of_mul_le_mul_left h3 ha2
  have g4 := le_of_mul_le_mul_left h4 ha2
  unfold Lp2Box
  simp only
  refine ⟨by omega, by omega, by omega, by omega, by omega, by omega⟩

/-- **one update inside a safe sublevel set**: returns `.ok` in both build profiles, stays in the set, strictly
    decreases `V` outside the equilibrium level set, and keeps the equilibrium level set invariant. -/
theorem lp2_V_step (m : Mode) {a b x Vmax : Int} (st : Int × Int) (hA : Lp2Adm a b) (hS : Lp2Safe a b x Vmax)
    (hV : lp2V a b x st ≤ Vmax) :
    lp2Update m st.1 st.2 x a (-b)
      = .ok ((lp2Next x a (-b) st).1, (lp2Next x a (-b) st).2, lp2Mid x a (-b) st / 4294967296) ∧
    Lp2Box x st ∧
    lp2V a b x (lp2Next x a (-b) st) ≤ Vmax ∧
    (4 * (4294967296 - b) * lp2U a b ^ 2 < b * (b - 2 * a) * lp2V a b x st →
      lp2V a b x (lp2Next x a (-b) st) < lp2V a b x st) ∧
    (b * (b - 2 * a) * lp2V a b x st ≤ 4 * (4294967296 - b) * lp2U a b ^ 2 →
      b * (b - 2 * a) * lp2V a b x (lp2Next x a (-b) st) ≤ 4 * (4294967296 - b) * lp2U a b ^ 2) := by
  obtain ⟨ha0, ha1, hba, hb1, hD⟩ := hA
  obtain ⟨EB, SB, G, hEB0, hSB0, hG, hx0, hx1, hE, hSs, hEG, hSG, hLs⟩ := hS
  have ha : 0 < a := by omega
  have hb : 0 < b := by omega
  obtain ⟨u, hu, hrE, hrs⟩ := lp2_centered_rec x a b st ha hb
  have hdesc := lp2Q_descent_star ha (le_of_lt hD) hb hb1 hba _ _ _ _ u (lp2U a b) hrE hrs hu
  have hinv := lp2Q_invariant_star ha (le_of_lt hD) hb hb1 hba _ _ _ _ u (lp2U a b) hrE hrs hu
  have hbb : 0 < b * (b - 2 * a) := by apply mul_pos <;> omega
  have hV' : lp2V a b x (lp2Next x a (-b) st) ≤ Vmax := by
    unfold lp2V
    by_cases hc : 4 * (4294967296 - b) * lp2U a b ^ 2 < b * (b - 2 * a) * lp2V a b x st
    · have := hdesc hc
      unfold lp2V at hV
      linarith
    · have h1 := hinv (not_lt.mp hc)
      have h2 : b * (b - 2 * a) * lp2Q a b (lp2Eb a b x (lp2Next x a (-b) st).1) (2 * a * (lp2Next x a (-b) st).2)
          ≤ b * (b - 2 * a) * Vmax := by linarith
      exact le_of_mul_le_mul_left h2 hbb
  have hbox := lp2_box_of_V st EB SB G Vmax ha hD hb (by omega) hEB0 hSB0 hG hx0 hx1 hE hSs hEG hSG hV
  have hbox' := lp2_box_of_V (lp2Next x a (-b) st) EB SB G Vmax ha hD hb (by omega) hEB0 hSB0 hG hx0 hx1 hE hSs hEG hSG hV'
  refine ⟨?_, hbox, hV', hdesc, hinv⟩
  exact lp2_step_box m x a (-b) st (by omega) (by omega) (by omega) (by omega) hbox hbox'

/-- the state after `n` plain updates -/
def lp2Seq (x k0 k1 : Int) : Nat → Int × Int → Int × Int
  | 0, st => st
  | n + 1, st => lp2Seq x k0 k1 n (lp2Next x k0 k1 st)

theorem lp2Seq_add (x k0 k1 : Int) (i j : Nat) (st : Int × Int) :
    lp2Seq x k0 k1 (i + j) st = lp2Seq x k0 k1 j (lp2Seq x k0 k1 i st) := by
  induction i generalizing st with
  | zero => simp [lp2Seq]
  | succ i ih => rw [show i + 1 + j = (i + j) + 1 by omega]; simp only [lp2Seq]; exact ih _

theorem lp2Seq_succ (x k0 k1 : Int) (n : Nat) (st : Int × Int) :
    lp2Seq x k0 k1 (n + 1) st = lp2Next x k0 k1 (lp2Seq x k0 k1 n st) := by
  rw [lp2Seq_add]; rfl

theorem lp2_lpGet_eq {s : Int} (h0 : -9223372036854775808 ≤ s) (h1 : s < 9223372036854775808) :
    lpGet s = s / 4294967296 := by
  unfold lpGet shr
  rw [wrapI32_id (by omega) (by omega)]; rfl

/-- along a run started inside a safe sublevel set, every state stays inside -/
theorem lp2_seq_V {a b x Vmax : Int} (hA : Lp2Adm a b) (hS : Lp2Safe a b x Vmax) (n : Nat) (st : Int × Int)
    (hV : lp2V a b x st ≤ Vmax) : lp2V a b x (lp2Seq x a (-b) n st) ≤ Vmax := by
  induction n generalizing st with
  | zero => exact hV
  | succ n ih => exact ih _ (lp2_V_step .release st hA hS hV).2.2.1

/-- the model run (`lp2Iter`, either build profile) never panics or wraps inside a safe sublevel set and follows the
    plain map -/
theorem lp2_seq_run (m : Mode) {a b x Vmax : Int} (hA : Lp2Adm a b) (hS : Lp2Safe a b x Vmax) (n : Nat)
    (st : Int × Int) (hV : lp2V a b x st ≤ Vmax) :
    lp2Iter m x a (-b) n st
      = .ok ((lp2Seq x a (-b) n st).1, (lp2Seq x a (-b) n st).2, (lp2Seq x a (-b) n st).1 / 4294967296) := by
  induction n generalizing st with
  | zero =>
    obtain ⟨hbx, -⟩ := (lp2_V_step m st hA hS hV).2
    obtain ⟨s0, s1⟩ := st
    simp only [lp2Iter, lp2Seq]
    rw [lp2_lpGet_eq hbx.1 hbx.2.1]
  | succ n ih =>
    obtain ⟨hstep, -, hV', -⟩ := lp2_V_step m st hA hS hV
    have := ih _ hV'
    obtain ⟨s0, s1⟩ := st
    simp only [lp2Iter, lp2Seq]
    simp only at hstep
    rw [hstep]
    simp only [bind_ok']
    exact this

/-- the equilibrium level set is reached after finitely many updates and never left -/
theorem lp2_seq_eventually {a b x Vmax : Int} (hA : Lp2Adm a b) (hS : Lp2Safe a b x Vmax)
    (st : Int × Int) (hV : lp2V a b x st ≤ Vmax) :
    ∃ N : Nat, ∀ n, N ≤ n →
      b * (b - 2 * a) * lp2V a b x (lp2Seq x a (-b) n st) ≤ 4 * (4294967296 - b) * lp2U a b ^ 2 := by
  have hnn : ∀ st, 0 ≤ lp2V a b x st := fun st =>
    lp2Q_nonneg (by have := hA.ha0; omega) (le_of_lt hA.hD) _ _
  -- reach
  have reach : ∀ (μ : Nat) (st : Int × Int), lp2V a b x st ≤ Vmax → lp2V a b x st ≤ (μ : Int) →
      ∃ N : Nat, b * (b - 2 * a) * lp2V a b x (lp2Seq x a (-b) N st) ≤ 4 * (4294967296 - b) * lp2U a b ^ 2 := by
    intro μ
    induction μ using Nat.strongRecOn with
    | _ μ ih =>
      intro st hV hμ
      by_cases hc : b * (b - 2 * a) * lp2V a b x st ≤ 4 * (4294967296 - b) * lp2U a b ^ 2
      · exact ⟨0, hc⟩
      · obtain ⟨-, -, hV', hdesc, -⟩ := lp2_V_step .release st hA hS hV
        have hlt := hdesc (not_le.mp hc)
        have h0 := hnn (lp2Next x a (-b) st)
        have hμ0 : 0 < μ := by omega
        obtain ⟨N, hN⟩ := ih (μ - 1) (by omega) _ hV' (by omega)
        exact ⟨N + 1, by simpa [lp2Seq] using hN⟩
  obtain ⟨N, hN⟩ := reach (lp2V a b x st).toNat st hV (by have := hnn st; omega)
  refine ⟨N, fun n hn => ?_⟩
  obtain ⟨j, rfl⟩ : ∃ j, n = N + j := ⟨n - N, by omega⟩
  rw [lp2Seq_add]
  have hVN := lp2_seq_V hA hS N st hV
  generalize lp2Seq x a (-b) N st = st' at hN hVN
  clear hn
  induction j generalizing st' with
  | zero => exact hN
  | succ j ih =>
    obtain ⟨-, -, hV', -, hinv⟩ := lp2_V_step .release st' hA hS hVN
    exact ih _ (hinv hN) hV'

end Idsp
