import IdspModel.Rust
/-! Model of `src/unwrap.rs` and `src/accu.rs`. -/
namespace Idsp

/-- `overflowing_sub::<T>(y, x)` for a signed `w`-bit `T`. -/
def overflowingSub (w : Nat) (y x : Int) : Int × Int :=
  let delta := wrapI w (y - x)
  (delta, b2i (decide (delta ≥ 0)) - b2i (decide (y ≥ x)))

/-- `saturating_scale(lo, hi, shift)`; `shift` is a `u32`. -/
def saturatingScale (m : Mode) (lo hi shift : Int) : R Int := do
  dbgAssert m "unwrap.rs:38 debug_assert!(shift > 0)" (decide (shift > 0))
  dbgAssert m "unwrap.rs:39 debug_assert!(shift <= 32)" (decide (shift ≤ 32))
  let sm1 ← arithU m 32 "unwrap.rs:40 shift - 1" (shift - 1)
  let hiRange ← shlI m 32 "unwrap.rs:40 -1 << (shift - 1)" (-1) sm1
  if hi ≤ hiRange then
    arithI m 32 "unwrap.rs:42 i32::MIN - hi_range" (minI 32 - hiRange)
  else
    let nhi ← arithI m 32 "unwrap.rs:43 -hi" (-hi)
    if nhi ≤ hiRange then
      arithI m 32 "unwrap.rs:44 hi_range - i32::MIN" (hiRange - minI 32)
    else
      -- `(lo as i64 >> shift) as i32` (widened since the `fix:` commit, so shift = 32 is a legal amount)
      let a64 ← shrC m 64 "unwrap.rs:47 lo as i64 >> shift" lo shift
      let a := wrapI 32 a64
      let k ← arithU m 32 "unwrap.rs:46 32 - shift" (32 - shift)
      let b ← shlI m 32 "unwrap.rs:46 hi << (32 - shift)" hi k
      arithI m 32 "unwrap.rs:46 (lo >> shift) + (hi << (32 - shift))" (a + b)

/-- `Unwrapper<Q>` with `Q` a signed `wq`-bit type; samples are signed `wp`-bit. State is `y`. -/
def unwrapperUpdate (wq wp : Nat) (y x : Int) : Int × Int :=
  let dx := wrapI wp (x - wrapI wp y)
  (wrapI wq (y + wrapI wq dx), dx)

/-- `Unwrapper::wraps::<P, S>()` -/
def unwrapperWraps (wp : Nat) (s : Nat) (y : Int) : Int :=
  wrapI wp (wrapI wp (shr y s) + (wrapI wp (shr y (s - 1))) % 2)

def unwrapperPhase (wp : Nat) (y : Int) : Int := wrapI wp y

/-- `Accu<T>::next` on a signed `w`-bit `T`: returns (new state, item). -/
def accuNext (w : Nat) (state step : Int) : Int × Int :=
  (wrapI w (state + step), state)

end Idsp
