import IdspModel.Lemmas.LockinRecWitA
import IdspModel.Lemmas.LockinRecWitB
import IdspModel.Lemmas.LockinRecWitC
import IdspModel.Lemmas.LockinRecWitD
import IdspModel.Lemmas.LockinRecWitE
import IdspModel.Lemmas.LockinRecWitF
import IdspModel.Lemmas.LockinRecAsm
import Mathlib.Analysis.Real.Sqrt
/-!
# Lock-in recovery: a concrete run that violates the angle part of the full clause

Witness: `k = 2^20` (`[a, -b] = [256, -1482910]`), `A = 2^23`, `θ = π/4`, `p0 = 0`, frequency word `F = 2^30` (a quarter of
the sample rate), samples `x n = ±5931642` (the nearest integers to `2^23·cos(φ_n + π/4) = ±2^22.5`).
The reference phases cycle through `0, 2^30, -2^31, -2^30`; the mixer outputs are the 4-periodic sequences `wCI`, `wCQ`.
The run is evaluated by the kernel in 41 chunks of 4096 updates (`LockinRecWitA..F`, generated literal states):
over the window of `L = 4096` outputs starting at `n0 = 163840 = 40·2^32/k` the output sums are
`ΣI = 12159431768`, `ΣQ = -12135711562`, i.e. mean `(2968611.3, -2962820.2)` — angle `-π/4 + 9.76e-4` rad.
-/
namespace Idsp
open Real
set_option linter.unusedVariables false

/-! ### the chain of literal states (generated) -/

theorem wit_spec_0 : wSpec 256 1482910 wCI wCQ 0 = ((0, 0), (0, 0), 0, 0) := by
  simp [wSpec, lkSeq]

theorem wit_spec_1 : wSpec 256 1482910 wCI wCQ 4096
    = ((9207600402228932, 1056215283436), ((-9187545327378756), (-1055986637812)), 3889389604, (-3879653900)) :=
  wFrom_chunk 256 1482910 wCI wCQ 0 4096 _ _ wit_spec_0 wit_chunk_0

theorem wit_spec_2 : wSpec 256 1482910 wCI wCQ 8192
    = ((13235482915652524, 79211921468), ((-13209443329135284), (-80688133404)), 15240951187, (-15208135616)) :=
  wFrom_chunk 256 1482910 wCI wCQ 4096 4096 _ _ wit_spec_1 wit_chunk_1

theorem wit_spec_3 : wSpec 256 1482910 wCI wCQ 12288
    = ((12996689249467424, (-57069620408)), ((-12971396897256012), 55473771140), 27828130035, (-27770795897)) :=
  wFrom_chunk 256 1482910 wCI wCQ 8192 4096 _ _ wit_spec_2 wit_chunk_2

theorem wit_spec_4 : wSpec 256 1482910 wCI wCQ 16384
    = ((12740386818043612, (-9780567268)), ((-12715524911625772), 8243500332), 40068158764, (-39986955777)) :=
  wFrom_chunk 256 1482910 wCI wCQ 12288 4096 _ _ wit_spec_3 wit_chunk_3

theorem wit_spec_5 : wSpec 256 1482910 wCI wCQ 20480
    = ((12734227743267420, 1956399428), ((-12709398034281668), (-3469001740)), 52208388211, (-52103509941)) :=
  wFrom_chunk 256 1482910 wCI wCQ 16384 4096 _ _ wit_spec_4 wit_chunk_4

theorem wit_spec_6 : wSpec 256 1482910 wCI wCQ 24576
    = ((12750396524551308, (-2658428)), ((-12725515698988524), (-1518101700)), 64362174764, (-64233592199)) :=
  wFrom_chunk 256 1482910 wCI wCQ 20480 4096 _ _ wit_spec_5 wit_chunk_5

theorem wit_spec_7 : wSpec 256 1482910 wCI wCQ 28672
    = ((12753167813065868, (-1082981500)), ((-12728325912400876), (-442298052)), 76523975047, (-76371683753)) :=
  wFrom_chunk 256 1482910 wCI wCQ 24576 4096 _ _ wit_spec_6 wit_chunk_6

theorem wit_spec_8 : wSpec 256 1482910 wCI wCQ 32768
    = ((12747989381212300, (-1248775292)), ((-12723148022009836), (-265956036)), 88683988252, (-88508017593)) :=
  wFrom_chunk 256 1482910 wCI wCQ 28672 4096 _ _ wit_spec_7 wit_chunk_7

theorem wit_spec_9 : wSpec 256 1482910 wCI wCQ 36864
    = ((12749527742562956, (-29914748)), ((-12724646944371692), (-1489087172)), 100841297807, (-100641618860)) :=
  wFrom_chunk 256 1482910 wCI wCQ 32768 4096 _ _ wit_spec_8 wit_chunk_8

theorem wit_spec_10 : wSpec 256 1482910 wCI wCQ 40960
    = ((12753428049805964, (-878706300)), ((-12728579486978540), (-647257284)), 113002646046, (-112779253536)) :=
  wFrom_chunk 256 1482910 wCI wCQ 36864 4096 _ _ wit_spec_9 wit_chunk_9

theorem wit_spec_11 : wSpec 256 1482910 wCI wCQ 45056
    = ((12748641999598220, (-1391571580)), ((-12723806001180140), (-124362948)), 125163337123, (-124916264298)) :=
  wFrom_chunk 256 1482910 wCI wCQ 40960 4096 _ _ wit_spec_10 wit_chunk_10

theorem wit_spec_12 : wSpec 256 1482910 wCI wCQ 49152
    = ((12748724140056716, (-115395708)), ((-12723845548960748), (-1401916100)), 137320534575, (-137049759116)) :=
  wFrom_chunk 256 1482910 wCI wCQ 45056 4096 _ _ wit_spec_11 wit_chunk_11

theorem wit_spec_13 : wSpec 256 1482910 wCI wCQ 53248
    = ((12753444153152140, (-664707708)), ((-12728588455552492), (-861491396)), 149481297958, (-149186805234)) :=
  wFrom_chunk 256 1482910 wCI wCQ 49152 4096 _ _ wit_spec_12 wit_chunk_12

theorem wit_spec_14 : wSpec 256 1482910 wCI wCQ 57344
    = ((12749432509746828, (-1484192380)), ((-12724600453203436), (-33216708)), 161642588026, (-161324412531)) :=
  wFrom_chunk 256 1482910 wCI wCQ 53248 4096 _ _ wit_spec_13 wit_chunk_13

theorem wit_spec_15 : wSpec 256 1482910 wCI wCQ 61440
    = ((12748049853740172, (-252409980)), ((-12723175138965996), (-1263426756)), 173799871986, (-173457999635)) :=
  wFrom_chunk 256 1482910 wCI wCQ 57344 4096 _ _ wit_spec_14 wit_chunk_14

theorem wit_spec_16 : wSpec 256 1482910 wCI wCQ 65536
    = ((12753214505560204, (-457958524)), ((-12728351594886636), (-1067984068)), 185959964044, (-185594371961)) :=
  wFrom_chunk 256 1482910 wCI wCQ 61440 4096 _ _ wit_spec_15 wit_chunk_15

theorem wit_spec_17 : wSpec 256 1482910 wCI wCQ 69632
    = ((12750298436776076, (-1519241340)), ((-12725468626995616), (-2846720)), 198121726487, (-197732447790)) :=
  wFrom_chunk 256 1482910 wCI wCQ 65536 4096 _ _ wit_spec_16 wit_chunk_16

theorem wit_spec_18 : wSpec 256 1482910 wCI wCQ 73728
    = ((12747558854589580, (-430081148)), ((-12722700572405152), (-1083297792)), 210279288882, (-209866327243)) :=
  wFrom_chunk 256 1482910 wCI wCQ 69632 4096 _ _ wit_spec_17 wit_chunk_17

theorem wit_spec_19 : wSpec 256 1482910 wCI wCQ 77824
    = ((12752756995401868, (-275001468)), ((-12727878180077472), (-1248324096)), 222438676533, (-222001995548)) :=
  wFrom_chunk 256 1482910 wCI wCQ 73728 4096 _ _ wit_spec_18 wit_chunk_18

theorem wit_spec_20 : wSpec 256 1482910 wCI wCQ 81920
    = ((12751170416478860, (-1493785212)), ((-12726337169565600), (-29955584)), 234600746758, (-234140365014)) :=
  wFrom_chunk 256 1482910 wCI wCQ 77824 4096 _ _ wit_spec_19 wit_chunk_19

theorem wit_spec_21 : wSpec 256 1482910 wCI wCQ 86016
    = ((12747290582551180, (-634301052)), ((-12722439950231968), (-879156224)), 246758757579, (-246274696014)) :=
  wFrom_chunk 256 1482910 wCI wCQ 81920 4096 _ _ wit_spec_20 wit_chunk_20

theorem wit_spec_22 : wSpec 256 1482910 wCI wCQ 90112
    = ((12752100839080088, (-132851128)), ((-12727226190268832), (-1391152128)), 258917462942, (-258409686629)) :=
  wFrom_chunk 256 1482910 wCI wCQ 86016 4096 _ _ wit_spec_21 wit_chunk_21

theorem wit_spec_23 : wSpec 256 1482910 wCI wCQ 94208
    = ((12751973204706968, (-1407242168)), ((-12727140781979040), (-115303424)), 271079641958, (-270548168544)) :=
  wFrom_chunk 256 1482910 wCI wCQ 90112 4096 _ _ wit_spec_22 wit_chunk_22

theorem wit_spec_24 : wSpec 256 1482910 wCI wCQ 98304
    = ((12747278765953688, (-848574392)), ((-12722423281698720), (-665187840)), 283238240254, (-282683084020)) :=
  wFrom_chunk 256 1482910 wCI wCQ 94208 4096 _ _ wit_spec_23 wit_chunk_23

theorem wit_spec_25 : wSpec 256 1482910 wCI wCQ 102400
    = ((12751314544659608, (-38653368)), ((-12726436003168160), (-1483887104)), 295396348820, (-294817475496)) :=
  wFrom_chunk 256 1482910 wCI wCQ 98304 4096 _ _ wit_spec_24 wit_chunk_24

theorem wit_spec_26 : wSpec 256 1482910 wCI wCQ 106496
    = ((12752651503040664, (-1271842232)), ((-12727815207360416), (-252166656)), 307558447478, (-306955871386)) :=
  wFrom_chunk 256 1482910 wCI wCQ 102400 4096 _ _ wit_spec_25 wit_chunk_25

theorem wit_spec_27 : wSpec 256 1482910 wCI wCQ 110592
    = ((12747500701537944, (-1055544248)), ((-12722652349357472), (-458485760)), 319717714348, (-319091457869)) :=
  wFrom_chunk 256 1482910 wCI wCQ 106496 4096 _ _ wit_spec_26 wit_chunk_26

theorem wit_spec_28 : wSpec 256 1482910 wCI wCQ 114688
    = ((12750451186124440, (-1804216)), ((-12725570627888544), (-1519042560)), 331875346591, (-331225376851)) :=
  wFrom_chunk 256 1482910 wCI wCQ 110592 4096 _ _ wit_spec_27 wit_chunk_27

theorem wit_spec_29 : wSpec 256 1482910 wCI wCQ 118784
    = ((12753148237958808, (-1095476152)), ((-12728306560081824), (-429708800)), 344037172943, (-343363494812)) :=
  wFrom_chunk 256 1482910 wCI wCQ 114688 4096 _ _ wit_spec_28 wit_chunk_28

theorem wit_spec_30 : wSpec 256 1482910 wCI wCQ 122880
    = ((12747950972520088, (-1239229368)), ((-12723109184847776), (-275496448)), 356197143092, (-355499785435)) :=
  wFrom_chunk 256 1482910 wCI wCQ 118784 4096 _ _ wit_spec_29 wit_chunk_29

theorem wit_spec_31 : wSpec 256 1482910 wCI wCQ 126976
    = ((12749579300956312, (-25353656)), ((-12724698637925280), (-1493745152)), 368354462422, (-367633396258)) :=
  wFrom_chunk 256 1482910 wCI wCQ 122880 4096 _ _ wit_spec_30 wit_chunk_30

theorem wit_spec_32 : wSpec 256 1482910 wCI wCQ 131072
    = ((12753423572603032, (-892048824)), ((-12728575319392160), (-633843200)), 380515845626, (-379771066222)) :=
  wFrom_chunk 256 1482910 wCI wCQ 126976 4096 _ _ wit_spec_31 wit_chunk_31

theorem wit_spec_33 : wSpec 256 1482910 wCI wCQ 135168
    = ((12748594165802648, (-1385018296)), ((-12723764762280740), (-133293884)), 392676497857, (-391908039122)) :=
  wFrom_chunk 256 1482910 wCI wCQ 131072 4096 _ _ wit_spec_32 wit_chunk_32

theorem wit_spec_34 : wSpec 256 1482910 wCI wCQ 139264
    = ((12748768457460376, (-107504568)), ((-12723895958321956), (-1407355708)), 404833692684, (-404041540758)) :=
  wFrom_chunk 256 1482910 wCI wCQ 135168 4096 _ _ wit_spec_33 wit_chunk_33

theorem wit_spec_35 : wSpec 256 1482910 wCI wCQ 143360
    = ((12753455098644120, (-677833656)), ((-12728587704188196), (-848033084)), 416994497097, (-416178623753)) :=
  wFrom_chunk 256 1482910 wCI wCQ 139264 4096 _ _ wit_spec_34 wit_chunk_34

theorem wit_spec_36 : wSpec 256 1482910 wCI wCQ 147456
    = ((12749379073216152, (-1481158584)), ((-12724550542110500), (-38993724)), 429155755606, (-428316193480)) :=
  wFrom_chunk 256 1482910 wCI wCQ 143360 4096 _ _ wit_spec_35 wit_chunk_35

theorem wit_spec_37 : wSpec 256 1482910 wCI wCQ 151552
    = ((12748083465750168, (-241787832)), ((-12723217506644772), (-1272109884)), 441313024765, (-440449774966)) :=
  wFrom_chunk 256 1482910 wCI wCQ 147456 4096 _ _ wit_spec_36 wit_chunk_36

theorem wit_spec_38 : wSpec 256 1482910 wCI wCQ 155648
    = ((12753228739891684, (-470908660)), ((-12728366345474852), (-1054968636)), 453473157067, (-452586189717)) :=
  wFrom_chunk 256 1482910 wCI wCQ 151552 4096 _ _ wit_spec_37 wit_chunk_37

theorem wit_spec_39 : wSpec 256 1482910 wCI wCQ 159744
    = ((12750244193987044, (-1517012724)), ((-12725413667514660), (-2024764)), 465634889879, (-464724235931)) :=
  wFrom_chunk 256 1482910 wCI wCQ 155648 4096 _ _ wit_spec_38 wit_chunk_38

theorem wit_spec_40 : wSpec 256 1482910 wCI wCQ 163840
    = ((12747589706742756, (-418971892)), ((-12722720373634340), (-1095838012)), 477792434950, (-476858089278)) :=
  wFrom_chunk 256 1482910 wCI wCQ 159744 4096 _ _ wit_spec_39 wit_chunk_39

theorem wit_spec_41 : wSpec 256 1482910 wCI wCQ 167936
    = ((12752785554045412, (-286478068)), ((-12727916618804004), (-1238705980)), 489951866718, (-488993800840)) :=
  wFrom_chunk 256 1482910 wCI wCQ 163840 4096 _ _ wit_spec_40 wit_chunk_40

/-! ### the witness setting -/

def wX (n : ℕ) : Int := match n % 4 with | 0 => 5931642 | 1 => -5931642 | 2 => -5931642 | _ => 5931642
def wP (n : ℕ) : Int := wrapI 32 (0 + n * 1073741824)
def wPhase (r : ℕ) : Int := match r with | 0 => 0 | 1 => 1073741824 | 2 => -2147483648 | _ => -1073741824

theorem wP_eq (n : ℕ) : wP n = wPhase (n % 4) := by
  have hn : (n : Int) = 4 * ((n / 4 : ℕ) : Int) + ((n % 4 : ℕ) : Int) := by
    have := Nat.div_add_mod n 4
    exact_mod_cast this.symm
  have hr : n % 4 < 4 := Nat.mod_lt n (by norm_num)
  unfold wP
  rw [hn]
  generalize ((n / 4 : ℕ) : Int) = q
  generalize n % 4 = r at hr ⊢
  have key : ∀ v : Int, wrapI 32 (0 + (4 * q + v) * 1073741824) = wrapI 32 (v * 1073741824) := by
    intro v
    have e : (0 : Int) + (4 * q + v) * 1073741824 = v * 1073741824 + q * 2 ^ 32 := by ring
    rw [e, wrapI_add_mul]
  rw [key]
  interval_cases r <;> decide

theorem wit_cossin :
    cossinVal 0 = (2147454703, -1898) ∧ cossinVal 1073741824 = (1898, 2147454703) ∧
    cossinVal (-2147483648) = (-2147454703, 1898) ∧ cossinVal (-1073741824) = (-1898, -2147454703) := by
  decide +kernel

theorem wit_mixI : lkMixI wX wP = wCI := by
  funext n
  obtain ⟨c0, c1, c2, c3⟩ := wit_cossin
  unfold lkMixI wCI wX
  rw [wP_eq]
  have hr : n % 4 < 4 := Nat.mod_lt n (by norm_num)
  generalize n % 4 = r at hr ⊢
  interval_cases r <;> simp only [wPhase, c0, c1, c2, c3] <;> decide

theorem wit_mixQ : lkMixQ wX wP = wCQ := by
  funext n
  obtain ⟨c0, c1, c2, c3⟩ := wit_cossin
  unfold lkMixQ wCQ wX
  rw [wP_eq]
  have hr : n % 4 < 4 := Nat.mod_lt n (by norm_num)
  generalize n % 4 = r at hr ⊢
  interval_cases r <;> simp only [wPhase, c0, c1, c2, c3] <;> decide

theorem wit_butter : Lp2Butter 1048576 256 1482910 := by constructor <;> norm_num

theorem wit_sqrt2 : (5931641 : ℝ) ≤ 2 ^ 23 * (√2 / 2) ∧ (2 : ℝ) ^ 23 * (√2 / 2) ≤ 5931642 := by
  have h1 : (1.4142135 : ℝ) ≤ √2 := by
    have : (1.4142135 : ℝ) = √(1.4142135 ^ 2) := by rw [sqrt_sq (by norm_num)]
    rw [this]; exact sqrt_le_sqrt (by norm_num)
  have h2 : √2 ≤ (1.4142136 : ℝ) := by
    have : (1.4142136 : ℝ) = √(1.4142136 ^ 2) := by rw [sqrt_sq (by norm_num)]
    rw [this]; exact sqrt_le_sqrt (by norm_num)
  constructor <;> nlinarith

theorem wit_setup : LkSetup (2 ^ 23) (π / 4) 0 (2 ^ 30) wX wP := by
  refine ⟨by norm_num, by norm_num, fun n => by unfold wP; norm_num, fun n => ?_⟩
  obtain ⟨s1, s2⟩ := wit_sqrt2
  rw [wP_eq]
  unfold wX
  have hr : n % 4 < 4 := Nat.mod_lt n (by norm_num)
  generalize n % 4 = r at hr ⊢
  interval_cases r
  · have e : ((wPhase 0 : Int) : ℝ) * π / 2 ^ 31 + π / 4 = π / 4 := by simp [wPhase]
    rw [e, cos_pi_div_four, abs_le]; push_cast; constructor <;> linarith
  · have e : ((wPhase 1 : Int) : ℝ) * π / 2 ^ 31 + π / 4 = π / 4 + π / 2 := by
      simp only [wPhase]; push_cast; ring
    rw [e, cos_add_pi_div_two, sin_pi_div_four, abs_le]; push_cast; constructor <;> linarith
  · have e : ((wPhase 2 : Int) : ℝ) * π / 2 ^ 31 + π / 4 = π / 4 - π := by
      simp only [wPhase]; push_cast; ring
    rw [e, cos_sub_pi, cos_pi_div_four, abs_le]; push_cast; constructor <;> linarith
  · have e : ((wPhase 3 : Int) : ℝ) * π / 2 ^ 31 + π / 4 = π / 4 - π / 2 := by
      simp only [wPhase]; push_cast; ring
    rw [e, cos_sub_pi_div_two, sin_pi_div_four, abs_le]; push_cast; constructor <;> linarith

/-! ### the window sums of ANY run of the model on the witness inputs -/

theorem wit_sums (m : Mode) (st : ℕ → Int × Int × Int × Int) (yI yQ : ℕ → Int) (h0 : st 0 = (0, 0, 0, 0))
    (hrun : ∀ n, lockinUpdate m (st n) (wX n) (wP n) 256 (-1482910) = .ok (st (n + 1), yI n, yQ n)) :
    (∑ i ∈ Finset.range 4096, (yI (163840 + i) : ℝ)) = 12159431768 ∧
    (∑ i ∈ Finset.range 4096, (yQ (163840 + i) : ℝ)) = -12135711562 := by
  obtain ⟨g0, grun, -⟩ := lk_assemble m wit_butter (by norm_num) (by norm_num) (A := 2 ^ 23) (by norm_num)
    (by norm_num) wit_setup
  -- determinism
  have hst : ∀ n, st n = lkState 256 1482910 wX wP n := by
    intro n
    induction n with
    | zero => rw [h0, g0]
    | succ n ih =>
      have a := hrun n
      rw [ih, grun n] at a
      have := Except.ok.inj a
      exact (congrArg Prod.fst this).symm
  have hy : ∀ n, yI n = lkOutI 256 1482910 wX wP n ∧ yQ n = lkOutQ 256 1482910 wX wP n := by
    intro n
    have a := hrun n
    rw [hst n, grun n] at a
    have := Except.ok.inj a
    have h2 := congrArg Prod.snd this
    exact ⟨(congrArg Prod.fst h2).symm, (congrArg Prod.snd h2).symm⟩
  have e40 := wit_spec_40
  have e41 := wit_spec_41
  simp only [wSpec, Prod.mk.injEq] at e40 e41
  obtain ⟨-, -, sI40, sQ40⟩ := e40
  obtain ⟨-, -, sI41, sQ41⟩ := e41
  rw [show (167936 : ℕ) = 163840 + 4096 by norm_num] at sI41 sQ41
  rw [Finset.sum_range_add, sI40] at sI41
  rw [Finset.sum_range_add, sQ40] at sQ41
  have wI : ∑ i ∈ Finset.range 4096, lkOut 256 1482910 wCI (163840 + i) = 12159431768 := by omega
  have wQ : ∑ i ∈ Finset.range 4096, lkOut 256 1482910 wCQ (163840 + i) = -12135711562 := by omega
  constructor
  · have : ∀ i, yI (163840 + i) = lkOut 256 1482910 wCI (163840 + i) := by
      intro i; rw [(hy _).1, lkOutI, wit_mixI]
    simp only [this]
    rw [← Int.cast_sum, wI]; norm_num
  · have : ∀ i, yQ (163840 + i) = lkOut 256 1482910 wCQ (163840 + i) := by
      intro i; rw [(hy _).2, lkOutQ, wit_mixQ]
    simp only [this]
    rw [← Int.cast_sum, wQ]; norm_num

end Idsp
