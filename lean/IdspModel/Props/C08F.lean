import IdspModel.Lemmas.FloatModelPidBuild
import IdspModel.Props.C08
import IdspModel.Props.C05q
/-!
# C08 (floating point clause) — `PidBuilder::build` evaluated in rounded arithmetic against the exact formula

Model: `pidGl` / `pidBuild` of `IdspModel/Model/Coeff.lean` (`src/iir/pid.rs`), instantiated over `ℝ` with the STANDARD
MODEL of floating point arithmetic extended by division, `FlModelD u` (`Lemmas/FloatModelPid.lean`): every `+ × /`
returns the exact result times `(1 + δ)`, `|δ| ≤ u` (`u = 2^-24` binary32, `2^-53` binary64, round to nearest, no
overflow/underflow); operations `FlModelD.fpidOps`.  The exact reference is the same model over `fieldOps ℝ`, for which
`Props/C08.lean` proves the transfer function.  The model evaluates `period.powi(-order)` as `1/((1·p)·p)`
(`order` multiplications and one division); the libm/compiler `powi` itself is not modelled.

Relative errors are tracked multiplicatively: `fpidRel u n v x` means `v = x·ρ` with `(1−u)^n ≤ ρ ≤ (1−u)^-n`
("`v` is `x` up to `n` roundings"; closed under products, quotients, sums of non-negative terms).  It implies
`|v − x| ≤ gamD u n·|x|` with `gamD u n = (1−u)^-n − 1 ≤ n·u/(1 − n·u)`, the classical `γ_n` (`fpid_rel_to_gamma`).

Rounding counts (`z` chain: `pw = (1·p)·…`, `z2 = 1/pw`, `z1 = z2·p`, `z0 = z1·p`; slot `j` uses `z_j`):
`z_j`: `order + 3 − j`;  `g_j = gain·z_j`: `order + 4 − j` (`≤ 6`);  `l_j = g_j/limit`: `order + 5 − j` (`≤ 6`; the P slot
`l = 1` and unset limits `l = 0` are exact);  `lsum = fl(fl(fl(0 + l0) + l1) + l2)`: `8, 9, 8` for order P, I, I2, and
`a0i = fl(1/lsum)`: `9, 10, 9`;  the six values handed to `quantize`, `g_j·a0i` and `l_j·a0i`: at most `17` (reached by
`l0·a0i` at order I; the gains `g_j·a0i` need at most `16`);  float coefficients (kernel product and
three accumulating additions in the float type): `21`.
-/
namespace Idsp

variable {u : ℝ} (M : FlModelD u)

/-- `fpidRel` gives the usual relative bound, and `gamD` is below the classical `γ_n` and, for small `u`, `(n+1)·u` -/
theorem fpid_rel_to_gamma (hu : 0 ≤ u) (hu1 : u < 1) {n : ℕ} {v x : ℝ} (h : fpidRel u n v x) :
    |v - x| ≤ gamD u n * |x| ∧ ((n : ℝ) * u < 1 → gamD u n ≤ (n : ℝ) * u / (1 - (n : ℝ) * u)) ∧
    ((n : ℝ) * ((n : ℝ) + 1) * u ≤ 1 → gamD u n ≤ ((n : ℝ) + 1) * u) :=
  ⟨h.abs_sub_le hu hu1, gamD_le_classical hu1 n, gamD_le_succ_mul hu hu1 n⟩

/-! ## 1. The period-scaled gains and normalised limits -/

/-- **`fpid_gl_error`** — order `≤ 2`, five gains, five limits, any period: the rounded `pidGl` and the exact one
    return three pairs each, and `g_j' = g_j` up to `order + 4 − j`, `l_j' = l_j` up to `order + 5 − j` roundings. -/
theorem fpid_gl_error (hu1 : u < 1) (period : ℝ) (order : ℕ) (ho : order ≤ 2) (k0 k1 k2 k3 k4 : ℝ)
    (m0 m1 m2 m3 m4 : Option ℝ) :
    ∃ g0' l0' g1' l1' g2' l2' g0 l0 g1 l1 g2 l2,
      pidGl M.fpidOps period order [k0, k1, k2, k3, k4] [m0, m1, m2, m3, m4] =
        [(g0', l0'), (g1', l1'), (g2', l2')] ∧
      pidGl (fieldOps ℝ) period order [k0, k1, k2, k3, k4] [m0, m1, m2, m3, m4] =
        [(g0, l0), (g1, l1), (g2, l2)] ∧
      fpidRel u (order + 4) g0' g0 ∧ fpidRel u (order + 3) g1' g1 ∧ fpidRel u (order + 2) g2' g2 ∧
      fpidRel u (order + 5) l0' l0 ∧ fpidRel u (order + 4) l1' l1 ∧ fpidRel u (order + 3) l2' l2 := by
  have hu := M.u_nonneg
  obtain rfl | rfl | rfl : order = 0 ∨ order = 1 ∨ order = 2 := by omega
  · obtain ⟨_, _, _, _, _, _, _, _, _, _, _, _, e', e, a0, a1, a2, b0, b1, b2⟩ :=
      (M.glRel_order0 hu1 period k0 k1 k2 k3 k4 m0 m1 m2 m3 m4).ex
    exact ⟨_, _, _, _, _, _, _, _, _, _, _, _, e', e, a0, a1, a2, b0, b1, b2.mono hu hu1 (by norm_num)⟩
  · obtain ⟨_, _, _, _, _, _, _, _, _, _, _, _, e', e, a0, a1, a2, b0, b1, b2⟩ :=
      (M.glRel_order1 hu1 period k0 k1 k2 k3 k4 m0 m1 m2 m3 m4).ex
    exact ⟨_, _, _, _, _, _, _, _, _, _, _, _, e', e, a0, a1, a2, b0, b1.mono hu hu1 (by norm_num), b2⟩
  · obtain ⟨_, _, _, _, _, _, _, _, _, _, _, _, e', e, a0, a1, a2, b0, b1, b2⟩ :=
      (M.glRel_order2 hu1 period k0 k1 k2 k3 k4 m0 m1 m2 m3 m4).ex
    exact ⟨_, _, _, _, _, _, _, _, _, _, _, _, e', e, a0, a1, a2, b0.mono hu hu1 (by norm_num), b1, b2⟩

/-- the proportional slot has `l = 1` exactly in both arithmetics, and an unset limit gives `l = 0` exactly -/
theorem fpid_gl_exact_slots (period : ℝ) (k0 k1 k2 k3 k4 : ℝ) (m0 m1 m2 m3 m4 : Option ℝ) :
    ((pidGl M.fpidOps period 2 [k0, k1, k2, k3, k4] [m0, m1, m2, m3, m4]).getD 0 (0, 0)).2 = 1 ∧
    ((pidGl M.fpidOps period 1 [k0, k1, k2, k3, k4] [m0, m1, m2, m3, m4]).getD 1 (0, 0)).2 = 1 ∧
    ((pidGl M.fpidOps period 0 [k0, k1, k2, k3, k4] [m0, m1, m2, m3, m4]).getD 2 (0, 0)).2 = 1 ∧
    ∀ g : ℝ, fpidLim M.fpidOps g none = 0 := by
  rw [fpidGl_order2, fpidGl_order1, fpidGl_order0]
  simp [FlModelD.fpidOps, fpidLim]

/-! ## 2.–3. The normalisation and the values handed to `quantize` -/

/-- **`fpid_a0i_error`** and **`fpid_gain_error`** — order `≤ 2`, any period, gains and limits such that the exact
    normalised limits are non-negative (matching gain/limit signs, `signOK` of `Props/C08.lean`): with `(g_j, l_j)` the
    exact and `(g_j', l_j')` the rounded entries of `pidGl`,
    * the rounded normalisation `a0i' = fl(1/fl(fl(fl(0+l0')+l1')+l2'))` equals the exact `a0i = 1/(0+l0+l1+l2)` up to
      10 roundings;
    * `pidBuild` (any coefficient type) is `fpidComb` of the six values `fl(g_j'·a0i')`, `fl(l_j'·a0i')` handed to
      `quantize`, and each of them equals its exact counterpart `g_j·a0i`, `l_j·a0i` up to 17 roundings (`16` for the
      three gains). -/
theorem fpid_gain_error (hu1 : u < 1) (period : ℝ) (order : ℕ) (ho : order ≤ 2) (k0 k1 k2 k3 k4 : ℝ)
    (m0 m1 m2 m3 m4 : Option ℝ) (g0 l0 g1 l1 g2 l2 : ℝ)
    (hgl : pidGl (fieldOps ℝ) period order [k0, k1, k2, k3, k4] [m0, m1, m2, m3, m4] =
      [(g0, l0), (g1, l1), (g2, l2)])
    (p0 : 0 ≤ l0) (p1 : 0 ≤ l1) (p2 : 0 ≤ l2) :
    ∃ g0' l0' g1' l1' g2' l2',
      pidGl M.fpidOps period order [k0, k1, k2, k3, k4] [m0, m1, m2, m3, m4] =
        [(g0', l0'), (g1', l1'), (g2', l2')] ∧
      let a' := M.fdiv 1 (M.fadd (M.fadd (M.fadd 0 l0') l1') l2')
      let a := 1 / (0 + l0 + l1 + l2)
      fpidRel u 10 a' a ∧
      fpidRel u 16 (M.fmul g0' a') (g0 * a) ∧ fpidRel u 16 (M.fmul g1' a') (g1 * a) ∧
      fpidRel u 16 (M.fmul g2' a') (g2 * a) ∧ fpidRel u 17 (M.fmul l0' a') (l0 * a) ∧
      fpidRel u 17 (M.fmul l1' a') (l1 * a) ∧ fpidRel u 17 (M.fmul l2' a') (l2 * a) ∧
      ∀ {γ : Type} (quantize : ℝ → γ) (gzero : γ) (gadd : γ → γ → γ) (gmulInt : Int → γ → γ),
        pidBuild M.fpidOps quantize gzero gadd gmulInt period order [k0, k1, k2, k3, k4] [m0, m1, m2, m3, m4] =
          fpidComb quantize gzero gadd gmulInt (M.fmul g0' a') (M.fmul g1' a') (M.fmul g2' a')
            (M.fmul l0' a') (M.fmul l1' a') (M.fmul l2' a') ∧
        pidBuild (fieldOps ℝ) quantize gzero gadd gmulInt period order [k0, k1, k2, k3, k4]
            [m0, m1, m2, m3, m4] =
          fpidComb quantize gzero gadd gmulInt (g0 * a) (g1 * a) (g2 * a) (l0 * a) (l1 * a) (l2 * a) := by
  have hu := M.u_nonneg
  -- per-order rounding counts
  have key : ∃ a0 a1 a2 b0 b1 b2 : ℕ, FlModelD.GlRel (u := u) a0 a1 a2 b0 b1 b2
      (pidGl M.fpidOps period order [k0, k1, k2, k3, k4] [m0, m1, m2, m3, m4])
      (pidGl (fieldOps ℝ) period order [k0, k1, k2, k3, k4] [m0, m1, m2, m3, m4]) ∧
      0 + (max (max (max 0 b0 + 1) b1 + 1) b2 + 1) + 1 ≤ 10 ∧
      (∀ n ∈ [a0, a1, a2], n + (0 + (max (max (max 0 b0 + 1) b1 + 1) b2 + 1) + 1) + 1 ≤ 16) ∧
      (∀ n ∈ [b0, b1, b2], n + (0 + (max (max (max 0 b0 + 1) b1 + 1) b2 + 1) + 1) + 1 ≤ 17) := by
    obtain rfl | rfl | rfl : order = 0 ∨ order = 1 ∨ order = 2 := by omega
    · exact ⟨4, 3, 2, 5, 4, 0, M.glRel_order0 hu1 period k0 k1 k2 k3 k4 m0 m1 m2 m3 m4, by decide, by decide,
        by decide⟩
    · exact ⟨5, 4, 3, 6, 0, 4, M.glRel_order1 hu1 period k0 k1 k2 k3 k4 m0 m1 m2 m3 m4, by decide, by decide,
        by decide⟩
    · exact ⟨6, 5, 4, 0, 6, 5, M.glRel_order2 hu1 period k0 k1 k2 k3 k4 m0 m1 m2 m3 m4, by decide, by decide,
        by decide⟩
  obtain ⟨a0, a1, a2, b0, b1, b2, ⟨g0', l0', g1', l1', g2', l2', G0, L0, G1, L1, G2, L2, e', e, hg0, hg1, hg2,
    hl0, hl1, hl2⟩, hA, hG, hL⟩ := key
  rw [hgl] at e
  simp only [List.cons.injEq, Prod.mk.injEq, and_true] at e
  obtain ⟨⟨rfl, rfl⟩, ⟨rfl, rfl⟩, rfl, rfl⟩ := e
  refine ⟨g0', l0', g1', l1', g2', l2', e', ?_⟩
  intro a' a
  have ha := M.rel_a0i hu1 hl0 hl1 hl2 p0 p1 p2
  simp only [Nat.cast_one, Nat.cast_zero] at ha
  simp only [List.mem_cons, List.not_mem_nil, or_false, forall_eq_or_imp, forall_eq] at hG hL
  refine ⟨ha.mono hu hu1 hA, (M.rel_fmul hu1 hg0 ha).mono hu hu1 hG.1, (M.rel_fmul hu1 hg1 ha).mono hu hu1 hG.2.1,
    (M.rel_fmul hu1 hg2 ha).mono hu hu1 hG.2.2, (M.rel_fmul hu1 hl0 ha).mono hu hu1 hL.1,
    (M.rel_fmul hu1 hl1 ha).mono hu hu1 hL.2.1, (M.rel_fmul hu1 hl2 ha).mono hu hu1 hL.2.2, ?_⟩
  intro γ quantize gzero gadd gmulInt
  constructor
  · rw [fpidBuild_eq_comb M.fpidOps quantize gzero gadd gmulInt period order _ _ _ _ _ _ _ _ e']
    simp only [FlModelD.fpidOps, Nat.cast_one, Nat.cast_zero]
    rfl
  · rw [fpidBuild_eq_comb (fieldOps ℝ) quantize gzero gadd gmulInt period order _ _ _ _ _ _ _ _ hgl]
    simp only [fieldOps, Nat.cast_one, Nat.cast_zero]
    rfl

/-- **float coefficients** (`C = T`: `quantize = id`, coefficient operations performed in the same rounded arithmetic:
    `kij * g` is a float product, `+` a float addition).  Every built coefficient is within `γ_21·Σ|k_i·(value_i)|` of the
    exact coefficient of `Props/C08.lean`: `17` roundings of the value, one for the kernel product, three accumulating
    additions.  (`b0 = G0+G1+G2`, `b1 = −G1−2G2`, `b2 = G2`, `a1 = −L1−2L2`, `a2 = L2`, `G_j = g_j·a0i`, `L_j = l_j·a0i`.) -/
theorem fpid_float_coeff_error (hu1 : u < 1) (period : ℝ) (order : ℕ) (ho : order ≤ 2) (k0 k1 k2 k3 k4 : ℝ)
    (m0 m1 m2 m3 m4 : Option ℝ) (g0 l0 g1 l1 g2 l2 : ℝ)
    (hgl : pidGl (fieldOps ℝ) period order [k0, k1, k2, k3, k4] [m0, m1, m2, m3, m4] =
      [(g0, l0), (g1, l1), (g2, l2)])
    (p0 : 0 ≤ l0) (p1 : 0 ≤ l1) (p2 : 0 ≤ l2) :
    let r := pidBuild M.fpidOps id 0 M.fadd (fun k x => M.fmul (k : ℝ) x) period order [k0, k1, k2, k3, k4]
      [m0, m1, m2, m3, m4]
    let e := pidBuild (fieldOps ℝ) id 0 (· + ·) (fun k x => (k : ℝ) * x) period order [k0, k1, k2, k3, k4]
      [m0, m1, m2, m3, m4]
    let a := 1 / (0 + l0 + l1 + l2)
    |r.1 - e.1| ≤ gamD u 21 * (|g0 * a| + |g1 * a| + |g2 * a|) ∧
    |r.2.1 - e.2.1| ≤ gamD u 21 * (|g1 * a| + 2 * |g2 * a|) ∧
    |r.2.2.1 - e.2.2.1| ≤ gamD u 21 * |g2 * a| ∧
    |r.2.2.2.1 - e.2.2.2.1| ≤ gamD u 21 * (|l1 * a| + 2 * |l2 * a|) ∧
    |r.2.2.2.2 - e.2.2.2.2| ≤ gamD u 21 * |l2 * a| := by
  intro r e a
  have hu := M.u_nonneg
  obtain ⟨g0', l0', g1', l1', g2', l2', -, hrel⟩ :=
    fpid_gain_error M hu1 period order ho k0 k1 k2 k3 k4 m0 m1 m2 m3 m4 g0 l0 g1 l1 g2 l2 hgl p0 p1 p2
  obtain ⟨-, hG0, hG1, hG2, hL0, hL1, hL2, hb⟩ := hrel
  obtain ⟨hr, he⟩ := hb (γ := ℝ) id 0 M.fadd (fun k x => M.fmul (k : ℝ) x)
  obtain ⟨-, he'⟩ := hb (γ := ℝ) id 0 (· + ·) (fun k x => (k : ℝ) * x)
  have m17 : ∀ {v x : ℝ}, fpidRel u 16 v x → fpidRel u 17 v x := fun h => h.mono hu hu1 (by norm_num)
  have t : ∀ (k : ℤ) {v x : ℝ}, fpidRel u 17 v x → fpidRel u 18 (M.fmul (k : ℝ) v) ((k : ℝ) * x) :=
    fun k _ _ h => M.rel_fmul hu1 (fpidRel.refl hu hu1 0 (k : ℝ)) h
  have hr' : r = _ := hr
  have he'' : e = _ := he'
  rw [hr', he'']
  simp only [fpidComb, id]
  have s := fun (k0 k1 k2 : ℤ) {v0 v1 v2 x0 x1 x2 : ℝ} (h0 : fpidRel u 17 v0 x0) (h1 : fpidRel u 17 v1 x1)
    (h2 : fpidRel u 17 v2 x2) => M.sum3_abs hu1 (t k0 h0) (t k1 h1) (t k2 h2)
  refine ⟨(s 1 1 1 (m17 hG0) (m17 hG1) (m17 hG2)).trans (le_of_eq ?_),
    (s 0 (-1) (-2) (m17 hG0) (m17 hG1) (m17 hG2)).trans (le_of_eq ?_),
    (s 0 0 1 (m17 hG0) (m17 hG1) (m17 hG2)).trans (le_of_eq ?_),
    (s 0 (-1) (-2) hL0 hL1 hL2).trans (le_of_eq ?_), (s 0 0 1 hL0 hL1 hL2).trans (le_of_eq ?_)⟩ <;>
  · simp only [Int.cast_one, Int.cast_zero, Int.cast_neg, Int.cast_ofNat, one_mul, zero_mul, abs_zero, neg_mul,
      abs_neg, abs_mul, abs_two, zero_add, add_zero, a, Nat.reduceAdd]

/-! ## 4. Fixed-point coefficients -/

/-- **fixed point** (`quantize = quantizeR w q` of `Props/C05q.lean`: scale by `2^q`, round half away from zero,
    saturate to `w` bits): each of the six quantised values differs from the quantisation of the EXACT value by at most
    `1 + γ_17·|exact|·2^q` LSB (`quantizeR` is monotone and 1-Lipschitz up to one LSB). -/
theorem fpid_fixed_gain_error (hu1 : u < 1) (w q : ℕ) (period : ℝ) (order : ℕ) (ho : order ≤ 2)
    (k0 k1 k2 k3 k4 : ℝ) (m0 m1 m2 m3 m4 : Option ℝ) (g0 l0 g1 l1 g2 l2 : ℝ)
    (hgl : pidGl (fieldOps ℝ) period order [k0, k1, k2, k3, k4] [m0, m1, m2, m3, m4] =
      [(g0, l0), (g1, l1), (g2, l2)])
    (p0 : 0 ≤ l0) (p1 : 0 ≤ l1) (p2 : 0 ≤ l2) :
    ∃ G0' G1' G2' L0' L1' L2' : ℝ,
      let a := 1 / (0 + l0 + l1 + l2)
      (∀ (gzero : ℤ) (gadd : ℤ → ℤ → ℤ) (gmulInt : Int → ℤ → ℤ),
        pidBuild M.fpidOps (quantizeR w q) gzero gadd gmulInt period order [k0, k1, k2, k3, k4]
            [m0, m1, m2, m3, m4] = fpidComb (quantizeR w q) gzero gadd gmulInt G0' G1' G2' L0' L1' L2' ∧
        pidBuild (fieldOps ℝ) (quantizeR w q) gzero gadd gmulInt period order [k0, k1, k2, k3, k4]
            [m0, m1, m2, m3, m4] =
          fpidComb (quantizeR w q) gzero gadd gmulInt (g0 * a) (g1 * a) (g2 * a) (l0 * a) (l1 * a) (l2 * a)) ∧
      ((|quantizeR w q G0' - quantizeR w q (g0 * a)| : ℤ) : ℝ) ≤ gamD u 17 * |g0 * a| * 2 ^ q + 1 ∧
      ((|quantizeR w q G1' - quantizeR w q (g1 * a)| : ℤ) : ℝ) ≤ gamD u 17 * |g1 * a| * 2 ^ q + 1 ∧
      ((|quantizeR w q G2' - quantizeR w q (g2 * a)| : ℤ) : ℝ) ≤ gamD u 17 * |g2 * a| * 2 ^ q + 1 ∧
      ((|quantizeR w q L0' - quantizeR w q (l0 * a)| : ℤ) : ℝ) ≤ gamD u 17 * |l0 * a| * 2 ^ q + 1 ∧
      ((|quantizeR w q L1' - quantizeR w q (l1 * a)| : ℤ) : ℝ) ≤ gamD u 17 * |l1 * a| * 2 ^ q + 1 ∧
      ((|quantizeR w q L2' - quantizeR w q (l2 * a)| : ℤ) : ℝ) ≤ gamD u 17 * |l2 * a| * 2 ^ q + 1 := by
  have hu := M.u_nonneg
  obtain ⟨g0', l0', g1', l1', g2', l2', -, hrel⟩ :=
    fpid_gain_error M hu1 period order ho k0 k1 k2 k3 k4 m0 m1 m2 m3 m4 g0 l0 g1 l1 g2 l2 hgl p0 p1 p2
  obtain ⟨-, hG0, hG1, hG2, hL0, hL1, hL2, hb⟩ := hrel
  have m17 : ∀ {v x : ℝ}, fpidRel u 16 v x → fpidRel u 17 v x := fun h => h.mono hu hu1 (by norm_num)
  have lip : ∀ {v x : ℝ}, fpidRel u 17 v x →
      ((|quantizeR w q v - quantizeR w q x| : ℤ) : ℝ) ≤ gamD u 17 * |x| * 2 ^ q + 1 := by
    intro v x h
    refine (fpid_quantizeR_lipschitz w q v x).trans ?_
    have := h.abs_sub_le hu hu1
    have h2 : (0 : ℝ) < 2 ^ q := by positivity
    nlinarith
  exact ⟨_, _, _, _, _, _, fun gzero gadd gmulInt => hb (quantizeR w q) gzero gadd gmulInt, lip (m17 hG0),
    lip (m17 hG1), lip (m17 hG2), lip hL0, lip hL1, lip hL2⟩

/-- **no gain limits: the exact integrator kernel survives rounding** — under the IEEE exactness law (`FlModelDX`:
    `0`, `1` representable, an operation whose exact result is representable returns it; this makes `0 + 1`, `1 + 0`,
    `1/1`, `1·1`, `0·1` exact) the rounded builder returns the same feedback pair as the exact one for EVERY coefficient
    type, quantiser, gains and period: `(0, 0)`, `(−ONE, 0)`, `(−2·ONE, ONE)`.  No hypothesis on the period is needed
    (the `l` values do not involve it). -/
theorem fpid_exact_kernel_rounded (X : FlModelDX u) {γ : Type} {quantize : ℝ → γ} {gzero : γ}
    {gadd : γ → γ → γ} {gmulInt : Int → γ → γ} (laws : PidCoeffLaws gzero gadd gmulInt)
    (hq0 : quantize 0 = gzero) (period : ℝ) (k0 k1 k2 k3 k4 : ℝ) :
    (pidBuild X.fpidOps quantize gzero gadd gmulInt period 2 [k0, k1, k2, k3, k4]
        [none, none, none, none, none]).2.2.2 = (gzero, gzero) ∧
    (pidBuild X.fpidOps quantize gzero gadd gmulInt period 1 [k0, k1, k2, k3, k4]
        [none, none, none, none, none]).2.2.2 = (gmulInt (-1) (quantize 1), gzero) ∧
    (pidBuild X.fpidOps quantize gzero gadd gmulInt period 0 [k0, k1, k2, k3, k4]
        [none, none, none, none, none]).2.2.2 = (gmulInt (-2) (quantize 1), quantize 1) := by
  have h2 := X.a0i_one_of_kernel 1 0 0 (Or.inl ⟨rfl, rfl, rfl⟩)
  have h1 := X.a0i_one_of_kernel 0 1 0 (Or.inr (Or.inl ⟨rfl, rfl, rfl⟩))
  have h0 := X.a0i_one_of_kernel 0 0 1 (Or.inr (Or.inr ⟨rfl, rfl, rfl⟩))
  refine ⟨?_, ?_, ?_⟩
  · rw [fpidBuild_eq_comb _ _ _ _ _ _ _ _ _ _ _ _ _ _ _ (fpidGl_order2 X.fpidOps period k0 k1 k2 k3 k4 none none
      none none none)]
    simp only [fpidLim, FlModelD.fpidOps, Nat.cast_one, Nat.cast_zero, fpidComb, h2.1, h2.2.1, h2.2.2.1, hq0,
      laws.zero_mul, laws.mul_zero, laws.zero_add]
  · rw [fpidBuild_eq_comb _ _ _ _ _ _ _ _ _ _ _ _ _ _ _ (fpidGl_order1 X.fpidOps period k0 k1 k2 k3 k4 none none
      none none none)]
    simp only [fpidLim, FlModelD.fpidOps, Nat.cast_one, Nat.cast_zero, fpidComb, h1.1, h1.2.1, h1.2.2.1, hq0,
      laws.zero_mul, laws.mul_zero, laws.zero_add, laws.add_zero]
  · rw [fpidBuild_eq_comb _ _ _ _ _ _ _ _ _ _ _ _ _ _ _ (fpidGl_order0 X.fpidOps period k0 k1 k2 k3 k4 none none
      none none none)]
    simp only [fpidLim, FlModelD.fpidOps, Nat.cast_one, Nat.cast_zero, fpidComb, h0.1, h0.2.1, h0.2.2.2, hq0,
      laws.zero_mul, laws.mul_zero, laws.zero_add, laws.one_mul]

/-- **the bare standard model does NOT imply the exact kernel**: in the instance where every addition rounds up by
    `1 + u` (`FlModelD.addUp`, `u = 1/2`) the order-I builder without limits returns `a1 = −4/9 ≠ −1`.  The exactness
    of `0 + 1`, `1 + 0` (true in IEEE arithmetic) is a genuine extra assumption of `fpid_exact_kernel_rounded`. -/
theorem fpid_exact_kernel_needs_exactness :
    (pidBuild (FlModelD.addUp (1 / 2) (by norm_num)).fpidOps id 0 (· + ·) (fun k x => (k : ℝ) * x) 1 1
      [0, 0, 1, 0, 0] [none, none, none, none, none]).2.2.2.1 = -4 / 9 := by
  rw [fpidBuild_eq_comb _ _ _ _ _ _ _ _ _ _ _ _ _ _ _ (fpidGl_order1 _ 1 0 0 1 0 0 none none none none none)]
  simp only [fpidLim, FlModelD.fpidOps, FlModelD.addUp, fpidComb, id]
  norm_num

/-! ## 5. Numbers for binary32 and binary64 -/

/-- `γ_10 ≤ 11u`, `γ_17 ≤ 18u`, `γ_21 ≤ 22u` for `u = 2^-24` and `u = 2^-53`: the normalisation is accurate to `11` ulp-halves,
    every value handed to `quantize` to `18·u` (`1.07e-6` in binary32, `2.0e-15` in binary64), every float coefficient to
    `22·u` relative to the sum of the magnitudes of its terms -/
theorem fpid_gamma_numbers :
    (gamD (1 / 2 ^ 24) 10 ≤ 11 / 2 ^ 24 ∧ gamD (1 / 2 ^ 24) 17 ≤ 18 / 2 ^ 24 ∧ gamD (1 / 2 ^ 24) 21 ≤ 22 / 2 ^ 24) ∧
    (gamD (1 / 2 ^ 53) 10 ≤ 11 / 2 ^ 53 ∧ gamD (1 / 2 ^ 53) 17 ≤ 18 / 2 ^ 53 ∧ gamD (1 / 2 ^ 53) 21 ≤ 22 / 2 ^ 53) := by
  have h : ∀ (v : ℝ) (n : ℕ), 0 ≤ v → v < 1 → (n : ℝ) * ((n : ℝ) + 1) * v ≤ 1 → gamD v n ≤ ((n : ℝ) + 1) * v :=
    fun v n h0 h1 h2 => gamD_le_succ_mul h0 h1 n h2
  refine ⟨⟨?_, ?_, ?_⟩, ?_, ?_, ?_⟩
  · have := h (1 / 2 ^ 24) 10 (by positivity) (by norm_num) (by norm_num); norm_num at this ⊢; linarith
  · have := h (1 / 2 ^ 24) 17 (by positivity) (by norm_num) (by norm_num); norm_num at this ⊢; linarith
  · have := h (1 / 2 ^ 24) 21 (by positivity) (by norm_num) (by norm_num); norm_num at this ⊢; linarith
  · have := h (1 / 2 ^ 53) 10 (by positivity) (by norm_num) (by norm_num); norm_num at this ⊢; linarith
  · have := h (1 / 2 ^ 53) 17 (by positivity) (by norm_num) (by norm_num); norm_num at this ⊢; linarith
  · have := h (1 / 2 ^ 53) 21 (by positivity) (by norm_num) (by norm_num); norm_num at this ⊢; linarith

/-! ## 6. Non-vacuity -/

/-- instances of the models -/
noncomputable example : FlModelD (1 / 2 ^ 24) := FlModelD.exact _ (by positivity)
noncomputable example : FlModelD (1 / 2 ^ 53) := FlModelD.roundUp _ (by positivity)
noncomputable example : FlModelDX (1 / 2 ^ 24) := FlModelDX.roundOutside01 _ (by positivity)

/-- the hypotheses of `fpid_gain_error` hold for the crate's unit test `pid` (period 1, order I, gains
    `I = 1e-3, P = 1, D = 1e2`, limits `I: 1e3, D: 1e1`): the exact normalised limits are `1e-6, 1, 10`, all `≥ 0` -/
example : pidGl (fieldOps ℝ) 1 1 [0, 1 / 1000, 1, 100, 0] [none, some 1000, none, some 10, none] =
      [(1 / 1000, 1 / 1000000), (1, 1), (100, 10)] ∧ (0 : ℝ) ≤ 1 / 1000000 ∧ (0 : ℝ) ≤ 1 ∧ (0 : ℝ) ≤ 10 := by
  rw [fpidGl_order1]
  simp only [fieldOps, fpidLim]
  norm_num

/-- in the exact instance the rounded builder is the exact builder -/
example (hu : 0 ≤ u) (period : ℝ) (order : ℕ) (gain : List ℝ) (limit : List (Option ℝ)) :
    pidGl (FlModelD.exact u hu).fpidOps period order gain limit = pidGl (fieldOps ℝ) period order gain limit := rfl

end Idsp
