import IdspModel.Lemmas.FloatModelHbfFirRun
import IdspModel.Lemmas.HbfSpecTime
/-!
  Transport of the half-band model along a homomorphism of the operations (`FhbfHom`), in particular along
  `Rat.cast : ℚ → ℝ` from the rational cascades `hbfDecCascadeQ` / `hbfIntCascadeQ` of `Lemmas/HbfSpecTime.lean` to
  the exact real cascades `fhbfDecCascade fhbfExactOps` / `fhbfIntCascade fhbfExactOps`.
-/
namespace Idsp

/-- `f` commutes with the five operations -/
structure FhbfHom {α β : Type} (o : Ops α) (o' : Ops β) (f : α → β) : Prop where
  zero : f o.zero = o'.zero
  add : ∀ a b, f (o.add a b) = o'.add (f a) (f b)
  mul : ∀ a b, f (o.mul a b) = o'.mul (f a) (f b)
  sum : ∀ l, f (o.sum l) = o'.sum (l.map f)
  half : ∀ a, f (o.half a) = o'.half (f a)

variable {α β : Type} {o : Ops α} {o' : Ops β} {f : α → β}

theorem fhbf_windows_map (f : α → β) (n : Nat) (l : List α) :
    windows n (l.map f) = (windows n l).map (List.map f) := by
  induction l with
  | nil => rfl
  | cons x xs ih =>
    simp only [List.map_cons, windows, List.length_cons, List.length_map]
    split
    · rfl
    · rw [List.map_cons, ih, ← List.map_cons, List.map_take]

theorem fhbf_evens_map (f : α → β) : ∀ l : List α, evens (l.map f) = (evens l).map f
  | [] => rfl
  | [_] => rfl
  | a :: b :: t => by simp [evens, fhbf_evens_map f t]

theorem fhbf_odds_map (f : α → β) : ∀ l : List α, odds (l.map f) = (odds l).map f
  | [] => rfl
  | [_] => rfl
  | a :: b :: t => by simp [odds, fhbf_odds_map f t]

theorem fhbf_interleave_map (f : α → β) : ∀ a b : List α,
    interleave (a.map f) (b.map f) = (interleave a b).map f
  | [], _ => by simp [interleave]
  | _ :: _, [] => by simp [interleave]
  | a :: as, b :: bs => by simp [interleave, fhbf_interleave_map f as bs]

theorem fhbf_firTap_map (h : FhbfHom o o' f) (taps win : List α) :
    firTap o' (taps.map f) (win.map f) = f (firTap o taps win) := by
  simp only [firTap, h.sum, List.length_map, ← List.map_take, ← List.map_drop, ← List.map_reverse,
    List.zip_map, List.map_map]
  congr 1
  apply List.map_congr_left
  rintro ⟨⟨xo, xn⟩, t⟩ _
  simp [h.mul, h.add]

theorem fhbf_decSpec_map (h : FhbfHom o o' f) (taps he ho x : List α) :
    hbfDecSpec o' (taps.map f) (he.map f) (ho.map f) (x.map f) = (hbfDecSpec o taps he ho x).map f := by
  simp only [hbfDecSpec, fhbf_evens_map, fhbf_odds_map, ← List.map_append, List.length_map, ← List.map_take,
    fhbf_windows_map, List.map_map, List.zip_map]
  have e : (firTap o' (taps.map f)) ∘ (List.map f) = f ∘ firTap o taps := by
    funext win; exact fhbf_firTap_map h taps win
  rw [e, List.zip_map_right, List.map_map]
  apply List.map_congr_left
  rintro ⟨a, b⟩ _
  simp [hbfDecComb, h.half, h.add]

theorem fhbf_intSpec_map (h : FhbfHom o o' f) (taps hh x : List α) :
    hbfIntSpec o' (taps.map f) (hh.map f) (x.map f) = (hbfIntSpec o taps hh x).map f := by
  simp only [hbfIntSpec, ← List.map_append, List.length_map, ← List.map_take, ← List.map_drop, fhbf_windows_map,
    List.map_map]
  have e : (firTap o' (taps.map f)) ∘ (List.map f) = f ∘ firTap o taps := by
    funext win; exact fhbf_firTap_map h taps win
  rw [e, ← List.map_map (g := f) (f := firTap o taps), fhbf_interleave_map]

theorem fhbf_decChainSpec_map (h : FhbfHom o o' f) (L : List (List α × List α × List α)) (x : List α) :
    decChainSpec o' (L.map fun p => (p.1.map f, p.2.1.map f, p.2.2.map f)) (x.map f) =
      (decChainSpec o L x).map f := by
  induction L generalizing x with
  | nil => rfl
  | cons p L ih =>
    obtain ⟨t, he, ho⟩ := p
    simp only [List.map_cons, decChainSpec, fhbf_decSpec_map h, ih]

theorem fhbf_intChainSpec_map (h : FhbfHom o o' f) (L : List (List α × List α)) (x : List α) :
    intChainSpec o' (L.map fun p => (p.1.map f, p.2.map f)) (x.map f) = (intChainSpec o L x).map f := by
  induction L generalizing x with
  | nil => rfl
  | cons p L ih =>
    obtain ⟨t, hh⟩ := p
    simp only [List.map_cons, intChainSpec, fhbf_intSpec_map h, ih]

/-- `Rat.cast` is a homomorphism from the rational operations of `C15spec` to the exact real operations -/
theorem fhbf_cast_hom : FhbfHom hbfQOps fhbfExactOps (Rat.cast : ℚ → ℝ) where
  zero := by simp [hbfQOps, fhbfExactOps, ringOps]
  add a b := by simp [hbfQOps, fhbfExactOps, ringOps]
  mul a b := by simp [hbfQOps, fhbfExactOps, ringOps]
  sum l := by
    simp only [hbfQOps, fhbfExactOps, ringOps]
    induction l with
    | nil => simp
    | cons a l ih => simp [ih]
  half a := by
    simp only [hbfQOps, fhbfExactOps, ringOps]
    push_cast
    ring

/-- (taps, zero histories) of a fresh rational stage -/
def fhbfDecAbsQ (j : ℕ) : List ℚ × List ℚ × List ℚ :=
  (hbfTapsQ j, List.replicate ((hbfTapsQ j).length - 1) 0, List.replicate (2 * (hbfTapsQ j).length - 1) 0)

def fhbfIntAbsQ (j : ℕ) : List ℚ × List ℚ :=
  (hbfTapsQ j, List.replicate (2 * (hbfTapsQ j).length - 1) 0)

theorem fhbfDecAbs_cast (j : ℕ) :
    fhbfDecAbs j = ((fhbfDecAbsQ j).1.map (Rat.cast : ℚ → ℝ), (fhbfDecAbsQ j).2.1.map (Rat.cast : ℚ → ℝ),
      (fhbfDecAbsQ j).2.2.map (Rat.cast : ℚ → ℝ)) := by
  simp [fhbfDecAbs, fhbfDecAbsQ, fhbfTapsR]

theorem fhbfIntAbs_cast (j : ℕ) :
    fhbfIntAbs j = ((fhbfIntAbsQ j).1.map (Rat.cast : ℚ → ℝ), (fhbfIntAbsQ j).2.map (Rat.cast : ℚ → ℝ)) := by
  simp [fhbfIntAbs, fhbfIntAbsQ, fhbfTapsR]

theorem hbfDecCascadeQ_active (d : ℕ) (hd : d ≤ 4) :
    (hbfDecCascadeQ d).active.map HbfDec.absT = (List.range d).reverse.map fhbfDecAbsQ := by
  obtain ⟨l0, l1, l2, l3⟩ := hbfTapsQ_lengths
  have a : ∀ n j, 2 * (hbfTapsQ j).length ≤ n → (HbfDec.new hbfQOps n (hbfTapsQ j)).absT = fhbfDecAbsQ j := by
    intro n j hn
    simp only [HbfDec.absT, HbfDec.new_abs hbfQOps n _ hn, fhbfDecAbsQ]
    rfl
  have a0 := a (2 * 23 - 1 + 64) 0 (by omega)
  have a1 := a (2 * 9 - 1 + 64 * 2) 1 (by omega)
  have a2 := a (2 * 5 - 1 + 64 * 4) 2 (by omega)
  have a3 := a (2 * 4 - 1 + 64 * 8) 3 (by omega)
  have : d = 0 ∨ d = 1 ∨ d = 2 ∨ d = 3 ∨ d = 4 := by omega
  rcases this with rfl | rfl | rfl | rfl | rfl <;>
    simp [HbfDecCascade.active, hbfDecCascadeQ, a0, a1, a2, a3, List.range, List.range.loop]

theorem hbfIntCascadeQ_active (d : ℕ) (hd : d ≤ 4) :
    (hbfIntCascadeQ d).active.map HbfInt.absT = (List.range d).map fhbfIntAbsQ := by
  obtain ⟨l0, l1, l2, l3⟩ := hbfTapsQ_lengths
  have a : ∀ n j, 2 * (hbfTapsQ j).length ≤ n → (HbfInt.new hbfQOps n (hbfTapsQ j)).absT = fhbfIntAbsQ j := by
    intro n j hn
    simp only [HbfInt.absT, HbfInt.new_abs hbfQOps n _ hn, fhbfIntAbsQ]
    rfl
  have a0 := a (2 * 23 - 1 + 64) 0 (by omega)
  have a1 := a (2 * 9 - 1 + 64 * 2) 1 (by omega)
  have a2 := a (2 * 5 - 1 + 64 * 4) 2 (by omega)
  have a3 := a (2 * 4 - 1 + 64 * 8) 3 (by omega)
  have : d = 0 ∨ d = 1 ∨ d = 2 ∨ d = 3 ∨ d = 4 := by omega
  rcases this with rfl | rfl | rfl | rfl | rfl <;>
    simp [HbfIntCascade.active, hbfIntCascadeQ, a0, a1, a2, a3, List.range, List.range.loop]

/-- admissibility for the rational cascade and for the real cascade on the cast blocks coincide -/
theorem fhbf_decCascade_adm_cast (o : Ops ℝ) (d : ℕ) (x : List ℚ) :
    (hbfDecCascadeQ d).Adm x ↔ (fhbfDecCascade o d).Adm (x.map (Rat.cast : ℚ → ℝ)) := by
  have h1 := hbfDecCascadeQ_blockMax d
  have h2 := fhbfDecCascade_blockMax o d
  have d1 : (hbfDecCascadeQ d).depth = d := rfl
  have d2 : (fhbfDecCascade o d).depth = d := rfl
  simp only [HbfDecCascade.Adm, HbfDecCascade.active, List.map_reverse, List.map_take, h1, h2, d1, d2,
    List.length_map]

theorem fhbf_intCascade_adm_cast (o : Ops ℝ) (d : ℕ) (x : List ℚ) :
    (hbfIntCascadeQ d).Adm x ↔ (fhbfIntCascade o d).Adm (x.map (Rat.cast : ℚ → ℝ)) := by
  have h1 := hbfIntCascadeQ_blockMax d
  have h2 := fhbfIntCascade_blockMax o d
  have d1 : (hbfIntCascadeQ d).depth = d := rfl
  have d2 : (fhbfIntCascade o d).depth = d := rfl
  simp only [HbfIntCascade.Adm, HbfIntCascade.active, List.map_take, h1, h2, d1, d2, List.length_map]

end Idsp
