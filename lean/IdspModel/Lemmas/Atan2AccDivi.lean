import IdspModel.Lemmas.Atan2Divi
import Mathlib.Tactic.Ring
import Mathlib.Tactic.Linarith
/-!
Accuracy of `atan2` against the real angle, part 4: how close the quotient field of `divi` is to the true ratio.

For first-octant operands `0 ≤ y ≤ x`, `2 ≤ x < 2^31`, `divi` returns `q·2^15 + 2^14` with
`q = min ⌊y·2^z / D⌋ 2^16`, `z = min (clz y) 15`, `D = ⌊(x + 2^(15-z) - 1) / 2^(16-z)⌋`.  In integer form:
* `y < 2^17` (`z = 15`, `D = ⌊x/2⌋`): `q·(x - x%2) ≤ y·2^16`, and `q = 2^16` or `y·2^16 < (q+1)·x`;
* `y ≥ 2^17` (`D·2^(16-z)` is `x` rounded to a multiple of `2^(16-z) ≤ x/2^15`):
  `q·65535·x ≤ y·2^32`, and `q = 2^16` or `y·2^32 < (q+1)·65537·x`.
-/
namespace Idsp

/-- quotient facts shared by both cases: `q = min (Y / D) 2^16` with `D > 0`, `Y ≥ 0` -/
theorem atan2Acc_quot {Y D : Int} (hY : 0 ≤ Y) (hD : 0 < D) :
    0 ≤ min (Y / D) (2 ^ 16) ∧ min (Y / D) (2 ^ 16) ≤ 2 ^ 16 ∧ min (Y / D) (2 ^ 16) * D ≤ Y ∧
      (min (Y / D) (2 ^ 16) = 2 ^ 16 ∨ Y < (min (Y / D) (2 ^ 16) + 1) * D) := by
  have h0 : 0 ≤ Y / D := Int.ediv_nonneg hY hD.le
  have h1 : Y / D * D ≤ Y := Int.ediv_mul_le Y (by omega)
  have h2 : Y < (Y / D + 1) * D := Int.lt_ediv_add_one_mul_self Y hD
  rcases Int.le_total (Y / D) (2 ^ 16) with h | h
  · rw [Int.min_eq_left h]
    exact ⟨h0, h, h1, Or.inr h2⟩
  · rw [Int.min_eq_right h]
    refine ⟨by omega, by omega, ?_, Or.inl rfl⟩
    exact le_trans (Int.mul_le_mul_of_nonneg_right h hD.le) h1

/-- large numerators: the arithmetic core, with `c = 2^(16-z) = 2·hh`, `e = 2^z` -/
theorem atan2Acc_big_core {y x D q c e hh : Int} (hce : c * e = 65536) (hch : c = 2 * hh) (hh0 : 0 < hh)
    (hD1 : x - hh ≤ D * c) (hD2 : D * c ≤ x + hh - 1) (hx : 65536 * hh ≤ x) (hq0 : 0 ≤ q)
    (hqD : q * D ≤ y * e) (hq1 : q = 2 ^ 16 ∨ y * e < (q + 1) * D) :
    q * (65535 * x) ≤ y * 2 ^ 32 ∧ (q = 2 ^ 16 ∨ y * 2 ^ 32 < (q + 1) * (65537 * x)) := by
  have hc0 : 0 < c := by omega
  constructor
  · have a1 : 65535 * x ≤ 65536 * (D * c) := by omega
    have a2 : q * (65535 * x) ≤ q * (65536 * (D * c)) := Int.mul_le_mul_of_nonneg_left a1 hq0
    have a3 : q * (65536 * (D * c)) = 65536 * c * (q * D) := by ring
    have a4 : 65536 * c * (q * D) ≤ 65536 * c * (y * e) :=
      Int.mul_le_mul_of_nonneg_left hqD (by omega)
    have a5 : 65536 * c * (y * e) = y * 2 ^ 32 := by
      have : 65536 * c * (y * e) = 65536 * y * (c * e) := by ring
      rw [this, hce]; ring
    omega
  · rcases hq1 with h | h
    · exact Or.inl h
    · right
      have b1 : y * e + 1 ≤ (q + 1) * D := by omega
      have b2 : 65536 * c * (y * e + 1) ≤ 65536 * c * ((q + 1) * D) :=
        Int.mul_le_mul_of_nonneg_left b1 (by omega)
      have b3 : 65536 * c * (y * e + 1) = y * 2 ^ 32 + 65536 * c := by
        have : 65536 * c * (y * e + 1) = 65536 * y * (c * e) + 65536 * c := by ring
        rw [this, hce]; ring
      have b4 : 65536 * (D * c) ≤ 65537 * x - 65536 := by omega
      have b5 : (q + 1) * (65536 * (D * c)) ≤ (q + 1) * (65537 * x - 65536) :=
        Int.mul_le_mul_of_nonneg_left b4 (by omega)
      have b6 : 65536 * c * ((q + 1) * D) = (q + 1) * (65536 * (D * c)) := by ring
      have b7 : (q + 1) * (65537 * x - 65536) = (q + 1) * (65537 * x) - 65536 * (q + 1) := by ring
      omega

/-- large numerators (`2^17 ≤ y`) for a given shift `z = clz y ∈ [1, 14]` -/
theorem atan2Acc_divi_big_z (z : Nat) (hz1 : 1 ≤ z) (hz2 : z ≤ 14) {y x : Int}
    (h0 : (2:Int) ^ (31 - z) ≤ y) (h1 : y < 2 ^ (32 - z)) (hyx : y ≤ x) (hx : x < 2 ^ 31) :
    ∃ q : Int, (∀ m, divi m y x = .ok (q * 2 ^ 15 + 2 ^ 14)) ∧ 0 ≤ q ∧ q ≤ 2 ^ 16 ∧
      q * (65535 * x) ≤ y * 2 ^ 32 ∧ (q = 2 ^ 16 ∨ y * 2 ^ 32 < (q + 1) * (65537 * x)) := by
  have hz : min ((clz 32 y : Nat) : Int) 15 = (z : Nat) := by
    have := clz32_min_big (y := y) (L := 31 - z) (by omega) h0
      (by rwa [show 31 - z + 1 = 32 - z by omega])
    rwa [show 31 - (31 - z) = z by omega] at this
  have hy : 0 ≤ y := Int.le_trans (Int.le_of_lt (two_pow_pos _)) h0
  have hcases : z = 1 ∨ z = 2 ∨ z = 3 ∨ z = 4 ∨ z = 5 ∨ z = 6 ∨ z = 7 ∨ z = 8 ∨ z = 9 ∨ z = 10 ∨
      z = 11 ∨ z = 12 ∨ z = 13 ∨ z = 14 := by omega
  rcases hcases with h | h | h | h | h | h | h | h | h | h | h | h | h | h <;>
  · have a1 : y * 2 ^ z < 2 ^ 32 := by subst h; simp only [Nat.reduceSub] at h1; omega
    have a2 : x + (2 ^ (15 - z) - 1) < 2 ^ 32 := by subst h; simp only [Nat.reduceSub]; omega
    have a3 : (2:Int) ^ 15 ≤ (x + (2 ^ (15 - z) - 1)) / 2 ^ (16 - z) := by
      subst h; simp only [Nat.reduceSub] at *; omega
    have hd : ∀ m, divi m y x = .ok (min (y * 2 ^ z / ((x + (2 ^ (15 - z) - 1)) / 2 ^ (16 - z))) (2 ^ 16)
        * 2 ^ 15 + 2 ^ 14) := fun m => by
      rw [divi_of_z m hz (by omega) hy hyx a1 a2, if_neg (by omega)]
    have hY : 0 ≤ y * 2 ^ z := Int.mul_nonneg hy (Int.le_of_lt (two_pow_pos z))
    obtain ⟨q0, q1, q2, q3⟩ := atan2Acc_quot (Y := y * 2 ^ z)
      (D := (x + (2 ^ (15 - z) - 1)) / 2 ^ (16 - z)) hY (by omega)
    refine ⟨_, hd, q0, q1, ?_⟩
    refine atan2Acc_big_core (c := 2 ^ (16 - z)) (e := 2 ^ z) (hh := 2 ^ (15 - z)) ?_ ?_ ?_ ?_ ?_ ?_ q0 q2 q3
    · subst h; decide
    · subst h; decide
    · subst h; decide
    · subst h; simp only [Nat.reduceSub] at *; omega
    · subst h; simp only [Nat.reduceSub] at *; omega
    · subst h; simp only [Nat.reduceSub] at *; omega

/-- The quotient field of `divi` against the true ratio, for every first-octant operand pair with `2 ≤ x`. -/
theorem atan2Acc_divi {y x : Int} (hy : 0 ≤ y) (hyx : y ≤ x) (hx2 : 2 ≤ x) (hx : x < 2 ^ 31) :
    ∃ q : Int, (∀ m, divi m y x = .ok (q * 2 ^ 15 + 2 ^ 14)) ∧ 0 ≤ q ∧ q ≤ 2 ^ 16 ∧
      ((y < 2 ^ 17 ∧ q * (x - x % 2) ≤ y * 2 ^ 16 ∧ (q = 2 ^ 16 ∨ y * 2 ^ 16 < (q + 1) * x)) ∨
       (2 ^ 17 ≤ y ∧ q * (65535 * x) ≤ y * 2 ^ 32 ∧ (q = 2 ^ 16 ∨ y * 2 ^ 32 < (q + 1) * (65537 * x)))) := by
  by_cases hy17 : y < 2 ^ 17
  · have h0 : x / 2 ≠ 0 := by omega
    have hd : ∀ m, divi m y x = .ok (min (y * 2 ^ 15 / (x / 2)) (2 ^ 16) * 2 ^ 15 + 2 ^ 14) :=
      fun m => by rw [divi_small m hy hyx hy17 hx, if_neg h0]
    obtain ⟨q0, q1, q2, q3⟩ := atan2Acc_quot (Y := y * 2 ^ 15) (D := x / 2) (by omega) (by omega)
    refine ⟨_, hd, q0, q1, Or.inl ⟨hy17, ?_, ?_⟩⟩
    · generalize min (y * 2 ^ 15 / (x / 2)) (2 ^ 16) = q at *
      have e : x - x % 2 = 2 * (x / 2) := by omega
      rw [e]
      have : q * (2 * (x / 2)) = 2 * (q * (x / 2)) := by ring
      omega
    · generalize min (y * 2 ^ 15 / (x / 2)) (2 ^ 16) = q at *
      rcases q3 with h | h
      · exact Or.inl h
      · right
        have b1 : (q + 1) * (2 * (x / 2)) ≤ (q + 1) * x :=
          Int.mul_le_mul_of_nonneg_left (by omega) (by omega)
        have b2 : (q + 1) * (2 * (x / 2)) = 2 * ((q + 1) * (x / 2)) := by ring
        omega
  · obtain ⟨L, hc, hl, hu⟩ := clz32_pos (y := y) (by omega)
    have hL17 : 17 ≤ L := by
      rcases Nat.lt_or_ge L 17 with h | h
      · have := two_pow_mono (a := L + 1) (b := 17) h; omega
      · exact h
    have hL30 : L ≤ 30 := by
      rcases Nat.lt_or_ge 30 L with h | h
      · have := two_pow_mono (a := 31) (b := L) h; omega
      · exact h
    obtain ⟨q, hq, q0, q1, q2, q3⟩ := atan2Acc_divi_big_z (31 - L) (by omega) (by omega) (y := y) (x := x)
      (by rwa [show 31 - (31 - L) = L by omega]) (by rwa [show 32 - (31 - L) = L + 1 by omega]) hyx hx
    exact ⟨q, hq, q0, q1, Or.inr ⟨by omega, q2, q3⟩⟩

end Idsp
