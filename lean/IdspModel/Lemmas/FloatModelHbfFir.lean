import IdspModel.Lemmas.HbfSpecDefs
import Mathlib.Algebra.BigOperators.Ring.Finset
import Mathlib.Algebra.Order.Ring.Abs
import Mathlib.Data.Rat.Cast.Order
import Mathlib.Data.Real.Basic
import Mathlib.Tactic.Ring
import Mathlib.Tactic.Linarith
/-!
  Convolution calculus for two-sided real sequences `w : ℤ → ℝ` and rational coefficient lists:
  `fhbfStride K l w n = Σ_j l[j]·w(n − K·j)` is the FIR `l(z^K)` applied to `w` (`K = 1`: plain convolution),
  `fhbfUp K` inserts `K−1` zeros between samples, `fhbfDn v i = v(2i+1)` is the decimator's sampling.
  Noble identities, commutation, and the link to the list operations of `Lemmas/HbfSpecDefs.lean`
  (`laddQ`, `hbfSpecLconv`, `lupsample`, `hbfCascadeFir`).
-/
namespace Idsp
open Finset

/-- `l(z^K)` applied to `w` at position `n` -/
def fhbfStride (K : ℕ) (l : List ℚ) (w : ℤ → ℝ) (n : ℤ) : ℝ :=
  ∑ j ∈ range l.length, ((l.getD j 0 : ℚ) : ℝ) * w (n - (K : ℤ) * (j : ℤ))

/-- zero-stuffing by `K` -/
def fhbfUp (K : ℕ) (w : ℤ → ℝ) (n : ℤ) : ℝ := if (K : ℤ) ∣ n then w (n / (K : ℤ)) else 0

/-- the decimator keeps the positions `2i+1` -/
def fhbfDn (v : ℤ → ℝ) (i : ℤ) : ℝ := v (2 * i + 1)

/-- a chain of strided FIRs, head applied last -/
def fhbfChain (P : List (ℕ × List ℚ)) (w : ℤ → ℝ) : ℤ → ℝ :=
  P.foldr (fun p v => fhbfStride p.1 p.2 v) w

@[simp] theorem fhbfStride_nil (K : ℕ) (w : ℤ → ℝ) (n : ℤ) : fhbfStride K [] w n = 0 := by
  simp [fhbfStride]

theorem fhbfStride_cons (K : ℕ) (a : ℚ) (l : List ℚ) (w : ℤ → ℝ) (n : ℤ) :
    fhbfStride K (a :: l) w n = (a : ℝ) * w n + fhbfStride K l w (n - K) := by
  unfold fhbfStride
  rw [List.length_cons, Finset.sum_range_succ']
  simp only [List.getD_cons_succ, List.getD_cons_zero, Nat.cast_zero, mul_zero, sub_zero]
  rw [add_comm]
  congr 1
  refine Finset.sum_congr rfl fun j _ => ?_
  congr 2
  push_cast
  ring

theorem fhbfStride_congr_le (K : ℕ) (l : List ℚ) (w w' : ℤ → ℝ) (n : ℤ) (h : ∀ m, m ≤ n → w m = w' m) :
    fhbfStride K l w n = fhbfStride K l w' n := by
  unfold fhbfStride
  refine Finset.sum_congr rfl fun j _ => ?_
  rw [h _ (by have : (0 : ℤ) ≤ (K : ℤ) * (j : ℤ) := by positivity
              linarith)]

theorem fhbfStride_causal (K : ℕ) (l : List ℚ) (w : ℤ → ℝ) (hw : ∀ m, m < 0 → w m = 0) (n : ℤ) (hn : n < 0) :
    fhbfStride K l w n = 0 := by
  unfold fhbfStride
  refine Finset.sum_eq_zero fun j _ => ?_
  rw [hw _ (by have : (0 : ℤ) ≤ (K : ℤ) * (j : ℤ) := by positivity
               linarith), mul_zero]

theorem fhbfStride_smul (K : ℕ) (l : List ℚ) (c : ℝ) (w : ℤ → ℝ) (n : ℤ) :
    fhbfStride K l (fun m => c * w m) n = c * fhbfStride K l w n := by
  unfold fhbfStride
  rw [Finset.mul_sum]
  refine Finset.sum_congr rfl fun j _ => ?_
  ring

theorem fhbfStride_comm (K K' : ℕ) (a b : List ℚ) (w : ℤ → ℝ) (n : ℤ) :
    fhbfStride K a (fhbfStride K' b w) n = fhbfStride K' b (fhbfStride K a w) n := by
  unfold fhbfStride
  simp only [Finset.mul_sum]
  rw [Finset.sum_comm]
  refine Finset.sum_congr rfl fun j _ => Finset.sum_congr rfl fun i _ => ?_
  have : n - (K : ℤ) * (i : ℤ) - (K' : ℤ) * (j : ℤ) = n - (K' : ℤ) * (j : ℤ) - (K : ℤ) * (i : ℤ) := by ring
  rw [this]
  ring

/-- noble identity, interpolation side: `↑K (l(z^K') v) = l(z^(K·K')) (↑K v)` -/
theorem fhbfUp_stride (K K' : ℕ) (hK : 1 ≤ K) (l : List ℚ) (v : ℤ → ℝ) (n : ℤ) :
    fhbfUp K (fhbfStride K' l v) n = fhbfStride (K * K') l (fhbfUp K v) n := by
  have hK0 : (K : ℤ) ≠ 0 := by exact_mod_cast (by omega : K ≠ 0)
  unfold fhbfUp fhbfStride
  by_cases hd : (K : ℤ) ∣ n
  · rw [if_pos hd]
    refine Finset.sum_congr rfl fun j _ => ?_
    obtain ⟨q, rfl⟩ := hd
    have e : (K : ℤ) * q - ((K * K' : ℕ) : ℤ) * (j : ℤ) = (K : ℤ) * (q - (K' : ℤ) * (j : ℤ)) := by
      push_cast; ring
    beta_reduce
    rw [e, if_pos (dvd_mul_right _ _), Int.mul_ediv_cancel_left _ hK0, Int.mul_ediv_cancel_left _ hK0]
  · rw [if_neg hd]
    symm
    refine Finset.sum_eq_zero fun j _ => ?_
    have : ¬ (K : ℤ) ∣ n - ((K * K' : ℕ) : ℤ) * (j : ℤ) := by
      intro h
      apply hd
      have h2 : (K : ℤ) ∣ ((K * K' : ℕ) : ℤ) * (j : ℤ) := by
        push_cast
        exact Dvd.intro _ (by ring : (K : ℤ) * ((K' : ℤ) * (j : ℤ)) = (K : ℤ) * (K' : ℤ) * (j : ℤ))
      have := dvd_add h h2
      simpa using this
    beta_reduce
    rw [if_neg this, mul_zero]

theorem fhbfUp_up (K K' : ℕ) (hK : 1 ≤ K) (w : ℤ → ℝ) (n : ℤ) :
    fhbfUp K (fhbfUp K' w) n = fhbfUp (K * K') w n := by
  have hK0 : (K : ℤ) ≠ 0 := by exact_mod_cast (by omega : K ≠ 0)
  unfold fhbfUp
  by_cases hd : (K : ℤ) ∣ n
  · rw [if_pos hd]
    obtain ⟨q, rfl⟩ := hd
    rw [Int.mul_ediv_cancel_left _ hK0]
    by_cases hq : (K' : ℤ) ∣ q
    · obtain ⟨r, rfl⟩ := hq
      have hd2 : (((K * K' : ℕ)) : ℤ) ∣ (K : ℤ) * ((K' : ℤ) * r) := by
        push_cast; exact Dvd.intro r (by ring)
      rw [if_pos (dvd_mul_right _ _), if_pos hd2]
      by_cases hK'0 : (K' : ℤ) = 0
      · simp [hK'0]
      · have hKK : (((K * K' : ℕ)) : ℤ) ≠ 0 := by push_cast; exact mul_ne_zero hK0 hK'0
        have e : (K : ℤ) * ((K' : ℤ) * r) = (((K * K' : ℕ)) : ℤ) * r := by push_cast; ring
        rw [Int.mul_ediv_cancel_left _ hK'0, e, Int.mul_ediv_cancel_left _ hKK]
    · have : ¬ (((K * K' : ℕ)) : ℤ) ∣ (K : ℤ) * q := by
        intro h
        apply hq
        push_cast at h
        exact (Int.mul_dvd_mul_iff_left hK0).mp h
      rw [if_neg hq, if_neg this]
  · have : ¬ (((K * K' : ℕ)) : ℤ) ∣ n := by
      intro h
      apply hd
      push_cast at h
      exact dvd_trans (dvd_mul_right _ _) h
    rw [if_neg hd, if_neg this]

theorem fhbfUp_one (w : ℤ → ℝ) (n : ℤ) : fhbfUp 1 w n = w n := by
  simp [fhbfUp]

theorem fhbfUp_congr (K : ℕ) (w w' : ℤ → ℝ) (n : ℤ) (h : w (n / (K : ℤ)) = w' (n / (K : ℤ))) :
    fhbfUp K w n = fhbfUp K w' n := by
  unfold fhbfUp
  split
  · exact h
  · rfl

/-- noble identity, decimation side: `l(z^K) (↓ v) = ↓ (l(z^(2K)) v)` -/
theorem fhbfStride_dn (K : ℕ) (l : List ℚ) (v : ℤ → ℝ) (n : ℤ) :
    fhbfStride K l (fhbfDn v) n = fhbfDn (fhbfStride (2 * K) l v) n := by
  unfold fhbfStride fhbfDn
  refine Finset.sum_congr rfl fun j _ => ?_
  congr 2
  push_cast
  ring

/-! ### chains -/

@[simp] theorem fhbfChain_nil (w : ℤ → ℝ) : fhbfChain [] w = w := rfl

theorem fhbfChain_cons (p : ℕ × List ℚ) (P : List (ℕ × List ℚ)) (w : ℤ → ℝ) :
    fhbfChain (p :: P) w = fhbfStride p.1 p.2 (fhbfChain P w) := rfl

theorem fhbfChain_append (P Q : List (ℕ × List ℚ)) (w : ℤ → ℝ) :
    fhbfChain (P ++ Q) w = fhbfChain P (fhbfChain Q w) := by
  simp [fhbfChain, List.foldr_append]

theorem fhbfStride_congr_fun (K : ℕ) (l : List ℚ) {w w' : ℤ → ℝ} (h : ∀ m, w m = w' m) (n : ℤ) :
    fhbfStride K l w n = fhbfStride K l w' n :=
  fhbfStride_congr_le K l w w' n fun m _ => h m

theorem fhbfChain_congr_fun (P : List (ℕ × List ℚ)) {w w' : ℤ → ℝ} (h : ∀ m, w m = w' m) (n : ℤ) :
    fhbfChain P w n = fhbfChain P w' n := by
  induction P generalizing n with
  | nil => exact h n
  | cons p P ih => exact fhbfStride_congr_fun _ _ ih n

theorem fhbfChain_congr_le (P : List (ℕ × List ℚ)) (w w' : ℤ → ℝ) (n : ℤ) (h : ∀ m, m ≤ n → w m = w' m) :
    fhbfChain P w n = fhbfChain P w' n := by
  induction P generalizing n with
  | nil => exact h n le_rfl
  | cons p P ih =>
    rw [fhbfChain_cons, fhbfChain_cons]
    exact fhbfStride_congr_le _ _ _ _ n fun m hm => ih m fun k hk => h k (hk.trans hm)

theorem fhbfChain_causal (P : List (ℕ × List ℚ)) (w : ℤ → ℝ) (hw : ∀ m, m < 0 → w m = 0) (n : ℤ) (hn : n < 0) :
    fhbfChain P w n = 0 := by
  induction P generalizing n with
  | nil => exact hw n hn
  | cons p P ih =>
    rw [fhbfChain_cons]
    exact fhbfStride_causal _ _ _ (fun m hm => ih m hm) n hn

theorem fhbfChain_smul (P : List (ℕ × List ℚ)) (c : ℝ) (w : ℤ → ℝ) (n : ℤ) :
    fhbfChain P (fun m => c * w m) n = c * fhbfChain P w n := by
  induction P generalizing n with
  | nil => rfl
  | cons p P ih =>
    rw [fhbfChain_cons, fhbfChain_cons, ← fhbfStride_smul]
    exact fhbfStride_congr_fun _ _ ih n

/-- a strided FIR commutes with a chain -/
theorem fhbfChain_stride_comm (P : List (ℕ × List ℚ)) (K : ℕ) (l : List ℚ) (w : ℤ → ℝ) (n : ℤ) :
    fhbfChain P (fhbfStride K l w) n = fhbfStride K l (fhbfChain P w) n := by
  induction P generalizing n with
  | nil => rfl
  | cons p P ih =>
    rw [fhbfChain_cons, fhbfChain_cons, fhbfStride_comm]
    exact fhbfStride_congr_fun _ _ ih n

theorem fhbfChain_reverse (P : List (ℕ × List ℚ)) (w : ℤ → ℝ) (n : ℤ) :
    fhbfChain P.reverse w n = fhbfChain P w n := by
  induction P generalizing w n with
  | nil => rfl
  | cons p P ih =>
    rw [List.reverse_cons, fhbfChain_append, fhbfChain_cons, fhbfChain_cons, fhbfChain_nil, ih,
      fhbfChain_stride_comm]

theorem fhbfChain_up (K : ℕ) (hK : 1 ≤ K) (P : List (ℕ × List ℚ)) (v : ℤ → ℝ) (n : ℤ) :
    fhbfUp K (fhbfChain P v) n = fhbfChain (P.map fun p => (K * p.1, p.2)) (fhbfUp K v) n := by
  induction P generalizing n with
  | nil => rfl
  | cons p P ih =>
    rw [fhbfChain_cons, List.map_cons, fhbfChain_cons, fhbfUp_stride K p.1 hK]
    exact fhbfStride_congr_fun _ _ ih n

theorem fhbfChain_dn (P : List (ℕ × List ℚ)) (v : ℤ → ℝ) (n : ℤ) :
    fhbfChain P (fhbfDn v) n = fhbfDn (fhbfChain (P.map fun p => (2 * p.1, p.2)) v) n := by
  induction P generalizing n with
  | nil => rfl
  | cons p P ih =>
    rw [fhbfChain_cons, List.map_cons, fhbfChain_cons, ← fhbfStride_dn]
    exact fhbfStride_congr_fun _ _ ih n

/-! ### the list operations of `HbfSpecDefs` -/

theorem fhbfStride_laddQ (p q : List ℚ) (w : ℤ → ℝ) (n : ℤ) :
    fhbfStride 1 (laddQ p q) w n = fhbfStride 1 p w n + fhbfStride 1 q w n := by
  induction p generalizing q n with
  | nil => simp [laddQ]
  | cons a p ih =>
    cases q with
    | nil => simp [laddQ]
    | cons b q =>
      simp only [laddQ, fhbfStride_cons, ih]
      push_cast
      ring

theorem fhbfStride_map_mul (a : ℚ) (b : List ℚ) (w : ℤ → ℝ) (n : ℤ) :
    fhbfStride 1 (b.map (a * ·)) w n = (a : ℝ) * fhbfStride 1 b w n := by
  induction b generalizing n with
  | nil => simp
  | cons x b ih =>
    simp only [List.map_cons, fhbfStride_cons, ih]
    push_cast
    ring

theorem fhbfStride_lconv (a b : List ℚ) (w : ℤ → ℝ) (n : ℤ) :
    fhbfStride 1 (hbfSpecLconv a b) w n = fhbfStride 1 a (fhbfStride 1 b w) n := by
  induction a generalizing n with
  | nil => simp [hbfSpecLconv]
  | cons x a ih =>
    simp only [hbfSpecLconv, fhbfStride_laddQ, fhbfStride_map_mul, fhbfStride_cons, ih]
    push_cast
    ring

theorem fhbfStride_replicate_zero_append (k : ℕ) (l : List ℚ) (w : ℤ → ℝ) (n : ℤ) :
    fhbfStride 1 (List.replicate k 0 ++ l) w n = fhbfStride 1 l w (n - k) := by
  induction k generalizing n with
  | zero => simp
  | succ k ih =>
    simp only [List.replicate_succ, List.cons_append, fhbfStride_cons, ih]
    push_cast
    ring_nf

theorem fhbfStride_lupsample (K : ℕ) (hK : 1 ≤ K) (l : List ℚ) (w : ℤ → ℝ) (n : ℤ) :
    fhbfStride 1 (lupsample K l) w n = fhbfStride K l w n := by
  induction l generalizing n with
  | nil => simp [lupsample]
  | cons a l ih =>
    cases l with
    | nil => simp [lupsample, fhbfStride_cons]
    | cons b l =>
      show fhbfStride 1 (a :: (List.replicate (K - 1) 0 ++ lupsample K (b :: l))) w n = _
      rw [fhbfStride_cons, fhbfStride_replicate_zero_append, ih, fhbfStride_cons K a]
      congr 2
      have : ((K - 1 : ℕ) : ℤ) = (K : ℤ) - 1 := by omega
      rw [this]
      push_cast
      ring

theorem fhbfStride_foldl_lconv {ι : Type} (g : ι → List ℚ) (L : List ι) (acc : List ℚ) (w : ℤ → ℝ) (n : ℤ) :
    fhbfStride 1 (L.foldl (fun acc j => hbfSpecLconv acc (g j)) acc) w n =
      fhbfStride 1 acc (fhbfChain (L.map fun j => (1, g j)) w) n := by
  induction L generalizing acc n with
  | nil => rfl
  | cons j L ih =>
    rw [List.foldl_cons, ih, fhbfStride_lconv, List.map_cons, fhbfChain_cons]

/-- **the published overall FIR as a chain**: convolution with `hbfCascadeFir d` is the chain of the stage FIRs
    `hbfFir (hbfTapsQ j)(z^(2^(d−1−j)))`, `j = 0..d−1` -/
theorem fhbfStride_hbfCascadeFir (d : ℕ) (w : ℤ → ℝ) (n : ℤ) :
    fhbfStride 1 (hbfCascadeFir d) w n =
      fhbfChain ((List.range d).map fun j => (2 ^ (d - 1 - j), hbfFir (hbfTapsQ j))) w n := by
  rw [hbfCascadeFir, fhbfStride_foldl_lconv]
  have h1 : ∀ (v : ℤ → ℝ) (m : ℤ), fhbfStride 1 [1] v m = v m := by
    intro v m; simp [fhbfStride_cons]
  rw [h1]
  -- replace each `1, lupsample K l` by `K, l`
  have key : ∀ (L : List ℕ) (m : ℤ),
      fhbfChain (L.map fun j => (1, lupsample (2 ^ (d - 1 - j)) (hbfFir (hbfTapsQ j)))) w m =
        fhbfChain (L.map fun j => (2 ^ (d - 1 - j), hbfFir (hbfTapsQ j))) w m := by
    intro L
    induction L with
    | nil => intro m; rfl
    | cons j L ih =>
      intro m
      simp only [List.map_cons, fhbfChain_cons]
      rw [fhbfStride_lupsample _ Nat.one_le_two_pow]
      exact fhbfStride_congr_fun _ _ ih m
  exact key _ n

end Idsp
