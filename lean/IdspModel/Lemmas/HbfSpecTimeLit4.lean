import IdspModel.Lemmas.HbfSpecTimeLit
/-! The depth-4 literal is the depth-4 impulse response (the longest kernel computation, kept in its own file). -/
namespace Idsp

theorem hbfCascadeFir_eq_lit4 : hbfCascadeFir 4 = hbfCascadeFirLit 4 := by decide +kernel

end Idsp
