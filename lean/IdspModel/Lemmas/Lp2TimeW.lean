import IdspModel.Lemmas.Lp2TimeCore
import IdspModel.Lemmas.Lp2BigSafe
/-!
# Size bounds of the two sector-safe regions used by the explicit-time theorems
-/
namespace Idsp
set_option linter.unusedVariables false
set_option exponentiation.threshold 300

theorem lp2_Rk_lower {k a b : Int} (h : Lp2Butter k a b) : 3 * a * 4294967296 ^ 2 < lp2Rk k a * k := by
  have hk := h.hk0
  unfold lp2Rk; exact Int.lt_ediv_add_one_mul_self _ (by omega)

/-- any radius up to `2a·2^32·2^30` is at most `2^28·Rk` -/
theorem lp2_R_le_Rk {k a b R : Int} (h : Lp2Butter k a b) (hR : R ≤ 2 * a * 4294967296 * 1073741824) :
    R ≤ 2 ^ 28 * lp2Rk k a := by
  have ha := h.a_ge; have hk := h.hk0; have hkl := h.k_le
  have h1 := lp2_Rk_lower h
  have hk0 : 0 < k := by omega
  have : k * R ≤ k * (2 ^ 28 * lp2Rk k a) := by
    have e1 : k * R ≤ k * (2 * a * 4294967296 * 1073741824) := mul_le_mul_of_nonneg_left hR (le_of_lt hk0)
    have e2 : k * (2 * a * 4294967296 * 1073741824) ≤ 1518500249 * (2 * a * 4294967296 * 1073741824) :=
      mul_le_mul_of_nonneg_right hkl (by positivity)
    nlinarith
  exact le_of_mul_le_mul_left this hk0

theorem lp2_VmaxW_lt {k a b : Int} (h : Lp2Butter k a b) : b * (b - 2 * a) * lp2VmaxW a < 2 ^ 275 := by
  have ha := h.a_ge; have hal := h.a_le; have hbl := h.b_le; have hb0 := h.hb0; have hba := h.two_a_lt
  have h1 : b * (b - 2 * a) ≤ 2147483648 * 2147483648 := by nlinarith
  have h2 : lp2VmaxW a ≤ 80 * 536870912 ^ 3 * 4294967296 ^ 2 * 201326592 ^ 2 := by
    unfold lp2VmaxW
    have : a ^ 3 ≤ 536870912 ^ 3 := pow_le_pow_left₀ (by omega) hal 3
    nlinarith
  have h3 : 0 ≤ lp2VmaxW a := by unfold lp2VmaxW; positivity
  calc b * (b - 2 * a) * lp2VmaxW a ≤ (2147483648 * 2147483648) * lp2VmaxW a :=
        mul_le_mul_of_nonneg_right h1 h3
    _ ≤ (2147483648 * 2147483648) * (80 * 536870912 ^ 3 * 4294967296 ^ 2 * 201326592 ^ 2) :=
        mul_le_mul_of_nonneg_left h2 (by norm_num)
    _ < 2 ^ 275 := by norm_num

theorem lp2_bgVH_lt {k a b : Int} (h : Lp2Butter k a b) : b * (b - 2 * a) * bgVH a b < 2 ^ 275 := by
  have ha := h.a_ge; have hal := h.a_le; have hbl := h.b_le; have hb0 := h.hb0; have hba := h.two_a_lt
  have h1 : b * (b - 2 * a) ≤ 2147483648 * 2147483648 := by nlinarith
  obtain ⟨hRV, hlow⟩ := bg_VH_spec' h
  have hVH0 : 0 ≤ bgVH a b := le_trans (by positivity) hlow
  have h2 : bgVH a b ≤ a * bgRH a ^ 2 := by
    have hc : (0 : Int) < 4294967296 - b + a := by omega
    have : (4294967296 - b + a) * bgVH a b ≤ (4294967296 - b + a) * (a * bgRH a ^ 2) := by
      have h0 : 0 ≤ a * bgRH a ^ 2 := by positivity
      nlinarith
    exact le_of_mul_le_mul_left this hc
  have h3 : a * bgRH a ^ 2 ≤ 536870912 ^ 3 * 4294967296 ^ 2 * 4611123059885604900 := by
    have e : a * bgRH a ^ 2 = a ^ 3 * 4294967296 ^ 2 * 4611123059885604900 := by unfold bgRH; ring
    rw [e]
    have : a ^ 3 ≤ 536870912 ^ 3 := pow_le_pow_left₀ (by omega) hal 3
    nlinarith
  calc b * (b - 2 * a) * bgVH a b ≤ (2147483648 * 2147483648) * bgVH a b :=
        mul_le_mul_of_nonneg_right h1 hVH0
    _ ≤ (2147483648 * 2147483648) * (536870912 ^ 3 * 4294967296 ^ 2 * 4611123059885604900) :=
        mul_le_mul_of_nonneg_left (le_trans h2 h3) (by norm_num)
    _ < 2 ^ 275 := by norm_num

end Idsp
