import IdspModel.Lemmas.FloatModelBiquad
import Mathlib.Algebra.Order.Ring.Pow
import IdspModel.Model.Coeff
import Mathlib.Algebra.Order.Field.Basic
import Mathlib.Tactic.FieldSimp
import Mathlib.Tactic.NormNum
/-!
  Standard model of floating point arithmetic WITH DIVISION (`FlModelD u extends FlModel u`:
  `fdiv x y = (x / y)·(1 + δ)`, `|δ| ≤ u`) and a multiplicative relative-error calculus that is closed under
  products, quotients and sums of non-negative terms:

  `fpidRel u n v x`  :=  `v = x·ρ` with `(1−u)^n ≤ ρ ≤ (1−u)^-n`   ("`v` is `x` up to `n` roundings").

  Every rounding factor `1 + δ` lies in `[1−u, 1/(1−u)]`, this interval family is closed under multiplication and
  inversion, hence `n` simply counts roundings.  `gamD u n = (1−u)^-n − 1 ≤ n·u/(1 − n·u)` is the classical `γ_n`.
-/
namespace Idsp

/-- the standard model with division -/
structure FlModelD (u : ℝ) extends FlModel u where
  fdiv : ℝ → ℝ → ℝ
  div_err : ∀ a b, ∃ δ, |δ| ≤ u ∧ fdiv a b = (a / b) * (1 + δ)

/-- exact arithmetic -/
noncomputable def FlModelD.exact (u : ℝ) (hu : 0 ≤ u) : FlModelD u where
  toFlModel := FlModel.exact u hu
  fdiv := (· / ·)
  div_err a b := ⟨0, by simpa using hu, by simp⟩

/-- every operation rounds by the full factor `1 + u` -/
noncomputable def FlModelD.roundUp (u : ℝ) (hu : 0 ≤ u) : FlModelD u where
  toFlModel := FlModel.roundUp u hu
  fdiv a b := (a / b) * (1 + u)
  div_err _ _ := ⟨u, by rw [abs_of_nonneg hu], rfl⟩

/-- only the additions round (by `1 + u`): a legitimate instance of the standard model in which `0 + 1 ≠ 1` -/
noncomputable def FlModelD.addUp (u : ℝ) (hu : 0 ≤ u) : FlModelD u where
  fadd a b := (a + b) * (1 + u)
  fsub := (· - ·)
  fmul := (· * ·)
  add_err _ _ := ⟨u, by rw [abs_of_nonneg hu], rfl⟩
  sub_err a b := ⟨0, by simpa using hu, by simp⟩
  mul_err a b := ⟨0, by simpa using hu, by simp⟩
  fdiv := (· / ·)
  div_err a b := ⟨0, by simpa using hu, by simp⟩

/-- the operations of `Model/Coeff.lean` under the rounding model; `pidGl`/`pidBuild` use `add mul div ofNat` only,
    the remaining entries are the same dummies as in `fieldOps` -/
noncomputable def FlModelD.fpidOps {u : ℝ} (M : FlModelD u) : FOps ℝ where
  add := M.fadd
  sub := M.fsub
  mul := M.fmul
  div := M.fdiv
  neg := (- ·)
  ofNat := fun n => (n : ℝ)
  half := 1 / 2
  ln2 := 0
  sqrt := fun _ => 0
  sin := fun _ => 0
  cos := fun _ => 0
  sinh := fun _ => 0

/-- `(1−u)^-n − 1`, the relative error bound of `n` roundings (products AND quotients) -/
noncomputable def gamD (u : ℝ) (n : ℕ) : ℝ := ((1 - u) ^ n)⁻¹ - 1

/-- `v` equals `x` up to `n` roundings -/
def fpidRel (u : ℝ) (n : ℕ) (v x : ℝ) : Prop := ∃ ρ, v = x * ρ ∧ (1 - u) ^ n ≤ ρ ∧ ρ ≤ ((1 - u) ^ n)⁻¹

section
variable {u : ℝ}

theorem fpid_pow_pos (hu1 : u < 1) (n : ℕ) : 0 < (1 - u) ^ n := pow_pos (by linarith) n

theorem fpid_pow_le_one (hu : 0 ≤ u) (hu1 : u < 1) (n : ℕ) : (1 - u) ^ n ≤ 1 :=
  pow_le_one₀ (by linarith) (by linarith)

theorem fpid_one_le_inv (hu : 0 ≤ u) (hu1 : u < 1) (n : ℕ) : 1 ≤ ((1 - u) ^ n)⁻¹ :=
  (one_le_inv₀ (fpid_pow_pos hu1 n)).mpr (fpid_pow_le_one hu hu1 n)

theorem fpidRel.refl (hu : 0 ≤ u) (hu1 : u < 1) (n : ℕ) (x : ℝ) : fpidRel u n x x :=
  ⟨1, by ring, fpid_pow_le_one hu hu1 n, fpid_one_le_inv hu hu1 n⟩

theorem fpidRel.mono (hu : 0 ≤ u) (hu1 : u < 1) {n m : ℕ} (h : n ≤ m) {v x : ℝ} (hv : fpidRel u n v x) :
    fpidRel u m v x := by
  obtain ⟨ρ, e, a, b⟩ := hv
  have hp : (1 - u) ^ m ≤ (1 - u) ^ n := pow_le_pow_of_le_one (by linarith) (by linarith) h
  refine ⟨ρ, e, hp.trans a, b.trans ?_⟩
  exact inv_anti₀ (fpid_pow_pos hu1 m) hp

theorem fpidRel.mul (hu1 : u < 1) {a b : ℕ} {v w x y : ℝ} (hv : fpidRel u a v x) (hw : fpidRel u b w y) :
    fpidRel u (a + b) (v * w) (x * y) := by
  obtain ⟨ρ, e, l, r⟩ := hv
  obtain ⟨σ, e', l', r'⟩ := hw
  have pa := fpid_pow_pos hu1 a
  have pb := fpid_pow_pos hu1 b
  refine ⟨ρ * σ, by rw [e, e']; ring, ?_, ?_⟩
  · rw [pow_add]
    exact mul_le_mul l l' pb.le (pa.le.trans l)
  · rw [pow_add, mul_inv]
    exact mul_le_mul r r' (pb.le.trans l') (inv_nonneg.mpr pa.le)

theorem fpidRel.inv (hu1 : u < 1) {b : ℕ} {w y : ℝ} (hw : fpidRel u b w y) : fpidRel u b w⁻¹ y⁻¹ := by
  obtain ⟨σ, e', l', r'⟩ := hw
  have pb := fpid_pow_pos hu1 b
  have hσ : 0 < σ := pb.trans_le l'
  refine ⟨σ⁻¹, by rw [e', mul_inv], ?_, ?_⟩
  · rw [← inv_inv ((1 - u) ^ b)]
    exact inv_anti₀ hσ r'
  · exact inv_anti₀ pb l'

theorem fpidRel.div (hu1 : u < 1) {a b : ℕ} {v w x y : ℝ} (hv : fpidRel u a v x) (hw : fpidRel u b w y) :
    fpidRel u (a + b) (v / w) (x / y) := by
  rw [div_eq_mul_inv, div_eq_mul_inv]
  exact hv.mul hu1 (hw.inv hu1)

/-- one rounding -/
theorem fpidRel.round (hu : 0 ≤ u) (hu1 : u < 1) {n : ℕ} {s x δ : ℝ} (hs : fpidRel u n s x) (hδ : |δ| ≤ u) :
    fpidRel u (n + 1) (s * (1 + δ)) x := by
  have h1 : fpidRel u 1 (1 + δ) 1 := by
    obtain ⟨a, b⟩ := abs_le.mp hδ
    refine ⟨1 + δ, by ring, by rw [pow_one]; linarith, ?_⟩
    rw [pow_one, le_inv_comm₀ (by linarith) (by linarith)]
    have : (1 + δ) * (1 - u) ≤ 1 := by nlinarith
    rw [inv_eq_one_div, le_div_iff₀ (by linarith)]
    linarith
  have := hs.mul hu1 h1
  rwa [mul_one] at this

/-- a non-negative combination keeps the larger count -/
theorem fpidRel.add_nonneg (hu : 0 ≤ u) (hu1 : u < 1) {a b : ℕ} {v w x y : ℝ} (hv : fpidRel u a v x)
    (hw : fpidRel u b w y) (hx : 0 ≤ x) (hy : 0 ≤ y) : fpidRel u (max a b) (v + w) (x + y) := by
  obtain ⟨ρ, e, l, r⟩ := hv.mono hu hu1 (le_max_left a b)
  obtain ⟨σ, e', l', r'⟩ := hw.mono hu hu1 (le_max_right a b)
  by_cases h0 : x + y = 0
  · have hx0 : x = 0 := by linarith
    have hy0 : y = 0 := by linarith
    refine ⟨1, by rw [e, e', hx0, hy0]; ring, fpid_pow_le_one hu hu1 _, fpid_one_le_inv hu hu1 _⟩
  · have hpos : 0 < x + y := lt_of_le_of_ne (by linarith) (Ne.symm h0)
    refine ⟨(x * ρ + y * σ) / (x + y), by rw [e, e']; field_simp, ?_, ?_⟩
    · rw [le_div_iff₀ hpos]; nlinarith
    · rw [div_le_iff₀ hpos]; nlinarith

/-- from the multiplicative form to the usual relative bound -/
theorem fpidRel.abs_sub_le (hu : 0 ≤ u) (hu1 : u < 1) {n : ℕ} {v x : ℝ} (h : fpidRel u n v x) :
    |v - x| ≤ gamD u n * |x| := by
  obtain ⟨ρ, e, l, r⟩ := h
  have pn := fpid_pow_pos hu1 n
  have p1 := fpid_pow_le_one hu hu1 n
  have hg : 1 - (1 - u) ^ n ≤ ((1 - u) ^ n)⁻¹ - 1 := by
    have : 1 ≤ ((1 - u) ^ n)⁻¹ := fpid_one_le_inv hu hu1 n
    have h2 : (1 - u) ^ n * ((1 - u) ^ n)⁻¹ = 1 := mul_inv_cancel₀ pn.ne'
    nlinarith
  have : |ρ - 1| ≤ gamD u n := by
    unfold gamD
    rw [abs_le]
    constructor <;> linarith
  rw [e, show x * ρ - x = (ρ - 1) * x by ring, abs_mul]
  exact mul_le_mul_of_nonneg_right this (abs_nonneg _)

theorem gamD_nonneg (hu : 0 ≤ u) (hu1 : u < 1) (n : ℕ) : 0 ≤ gamD u n := by
  unfold gamD
  linarith [fpid_one_le_inv hu hu1 n]

theorem gamD_mono (hu : 0 ≤ u) (hu1 : u < 1) {n m : ℕ} (h : n ≤ m) : gamD u n ≤ gamD u m := by
  unfold gamD
  have hp : (1 - u) ^ m ≤ (1 - u) ^ n := pow_le_pow_of_le_one (by linarith) (by linarith) h
  linarith [inv_anti₀ (fpid_pow_pos hu1 m) hp]

/-- the classical bound `γ_n ≤ n·u/(1 − n·u)` -/
theorem gamD_le_classical (hu1 : u < 1) (n : ℕ) (h : (n : ℝ) * u < 1) :
    gamD u n ≤ (n : ℝ) * u / (1 - (n : ℝ) * u) := by
  have hb : 1 - (n : ℝ) * u ≤ (1 - u) ^ n := by
    have := one_add_mul_le_pow (show (-2 : ℝ) ≤ -u by linarith) n
    have e : (1 : ℝ) + (n : ℝ) * -u = 1 - (n : ℝ) * u := by ring
    have e2 : (1 : ℝ) + -u = 1 - u := by ring
    rwa [e, e2] at this
  have hd : 0 < 1 - (n : ℝ) * u := by linarith
  unfold gamD
  have : ((1 - u) ^ n)⁻¹ ≤ (1 - (n : ℝ) * u)⁻¹ := inv_anti₀ hd hb
  have e : (n : ℝ) * u / (1 - (n : ℝ) * u) = (1 - (n : ℝ) * u)⁻¹ - 1 := by
    field_simp
    ring
  rw [e]
  linarith

/-- `γ_n ≤ (n+1)·u` as soon as `n·(n+1)·u ≤ 1` -/
theorem gamD_le_succ_mul (hu : 0 ≤ u) (hu1 : u < 1) (n : ℕ) (h : (n : ℝ) * ((n : ℝ) + 1) * u ≤ 1) :
    gamD u n ≤ ((n : ℝ) + 1) * u := by
  have hK : (0 : ℝ) ≤ n := Nat.cast_nonneg n
  have hku : (n : ℝ) * u < 1 := by nlinarith
  refine (gamD_le_classical hu1 n hku).trans ?_
  rw [div_le_iff₀ (by linarith)]
  nlinarith

end

namespace FlModelD

variable {u : ℝ} (M : FlModelD u)

theorem rel_fmul (hu1 : u < 1) {a b : ℕ} {v w x y : ℝ} (hv : fpidRel u a v x) (hw : fpidRel u b w y) :
    fpidRel u (a + b + 1) (M.fmul v w) (x * y) := by
  obtain ⟨δ, hδ, e⟩ := M.mul_err v w
  rw [e]
  exact (hv.mul hu1 hw).round M.u_nonneg hu1 hδ

theorem rel_fdiv (hu1 : u < 1) {a b : ℕ} {v w x y : ℝ} (hv : fpidRel u a v x) (hw : fpidRel u b w y) :
    fpidRel u (a + b + 1) (M.fdiv v w) (x / y) := by
  obtain ⟨δ, hδ, e⟩ := M.div_err v w
  rw [e]
  exact (hv.div hu1 hw).round M.u_nonneg hu1 hδ

theorem rel_fadd_nonneg (hu1 : u < 1) {a b : ℕ} {v w x y : ℝ} (hv : fpidRel u a v x) (hw : fpidRel u b w y)
    (hx : 0 ≤ x) (hy : 0 ≤ y) : fpidRel u (max a b + 1) (M.fadd v w) (x + y) := by
  obtain ⟨δ, hδ, e⟩ := M.add_err v w
  rw [e]
  exact (hv.add_nonneg M.u_nonneg hu1 hw hx hy).round M.u_nonneg hu1 hδ

end FlModelD

end Idsp
