import IdspModel.Lemmas.Lp2Run
/-!
# Second-order lowpass: from the equilibrium level set to an output error bound in LSB

Pure integer arithmetic.  `lp2_level_abs`: inside the equilibrium level set the centred error satisfies
`|Ē|·λd·b ≤ 4·λn·a·2^64` as soon as `λ = λn/λd` satisfies `λ²·(b−2a)·Δ ≥ b³`.  `lp2_out_abs`: the resulting bound on
`|x − s0 >> 32|`.  `lp2_final`: comparison with `4·2^32/k + 4`.  `lp2_regime_S`, `lp2_regime_L`: the two parameter
regimes (`b ≤ 2^24` with `b² ≤ 3·a·2^32`, and `b ≥ 2^24`) in which a suitable rational `λ` is exhibited.
-/
namespace Idsp
set_option linter.unusedVariables false

theorem lp2_level_abs {a b ln ld Eb Q : Int} (ha : 0 < a) (hb : 0 < b) (hbM : b < 4294967296)
    (hln : 0 < ln) (hld : 0 < ld) (hba : 2 * a < b) (haM : a * 4294967296 ≤ b ^ 2)
    (hR : ld ^ 2 * b ^ 3 ≤ ln ^ 2 * ((b - 2 * a) * lp2Disc a b))
    (hext : lp2Disc a b * Eb ^ 2 ≤ 4 * (4294967296 - b) * Q)
    (hlev : b * (b - 2 * a) * Q ≤ 4 * (4294967296 - b) * lp2U a b ^ 2) :
    |Eb| * (ld * b) ≤ 4 * ln * a * 4294967296 ^ 2 := by
  have hMb : (0 : Int) < 4294967296 - b := by omega
  have hbb : 0 < b * (b - 2 * a) := by apply mul_pos <;> omega
  -- (M-b)(a+b) ≤ M b
  have h1 : (4294967296 - b) * (a + b) ≤ 4294967296 * b := by nlinarith
  have h1' : ((4294967296 - b) * (a + b)) ^ 2 ≤ (4294967296 * b) ^ 2 :=
    pow_le_pow_left₀ (by apply mul_nonneg <;> omega) h1 2
  -- b(b-2a) Δ Ē² ≤ 16 (M-b)² U²
  have h2 : b * (b - 2 * a) * (lp2Disc a b * Eb ^ 2) ≤ 16 * (4294967296 - b) ^ 2 * lp2U a b ^ 2 := by
    have e1 := mul_le_mul_of_nonneg_left hext (le_of_lt hbb)
    have e2 := mul_le_mul_of_nonneg_left hlev (show (0 : Int) ≤ 4 * (4294967296 - b) by omega)
    nlinarith
  have h3 : 16 * (4294967296 - b) ^ 2 * lp2U a b ^ 2 ≤ 16 * a ^ 2 * 4294967296 ^ 4 * b ^ 2 := by
    unfold lp2U
    have : 16 * (4294967296 - b) ^ 2 * (a * (a + b) * 4294967296) ^ 2
        = (16 * a ^ 2 * 4294967296 ^ 2) * ((4294967296 - b) * (a + b)) ^ 2 := by ring
    rw [this]
    have : 16 * a ^ 2 * 4294967296 ^ 4 * b ^ 2 = (16 * a ^ 2 * 4294967296 ^ 2) * (4294967296 * b) ^ 2 := by ring
    rw [this]
    exact mul_le_mul_of_nonneg_left h1' (by positivity)
  -- cancel b
  have h4 : (b - 2 * a) * lp2Disc a b * Eb ^ 2 ≤ 16 * a ^ 2 * 4294967296 ^ 4 * b := by
    have : b * ((b - 2 * a) * lp2Disc a b * Eb ^ 2) ≤ b * (16 * a ^ 2 * 4294967296 ^ 4 * b) := by
      calc b * ((b - 2 * a) * lp2Disc a b * Eb ^ 2) = b * (b - 2 * a) * (lp2Disc a b * Eb ^ 2) := by ring
        _ ≤ 16 * (4294967296 - b) ^ 2 * lp2U a b ^ 2 := h2
        _ ≤ 16 * a ^ 2 * 4294967296 ^ 4 * b ^ 2 := h3
        _ = b * (16 * a ^ 2 * 4294967296 ^ 4 * b) := by ring
    exact le_of_mul_le_mul_left this hb
  have h5 : ld ^ 2 * b ^ 3 * Eb ^ 2 ≤ ln ^ 2 * (16 * a ^ 2 * 4294967296 ^ 4 * b) := by
    calc ld ^ 2 * b ^ 3 * Eb ^ 2 ≤ ln ^ 2 * ((b - 2 * a) * lp2Disc a b) * Eb ^ 2 :=
          mul_le_mul_of_nonneg_right hR (sq_nonneg _)
      _ = ln ^ 2 * ((b - 2 * a) * lp2Disc a b * Eb ^ 2) := by ring
      _ ≤ ln ^ 2 * (16 * a ^ 2 * 4294967296 ^ 4 * b) := mul_le_mul_of_nonneg_left h4 (sq_nonneg _)
  have h6 : (Eb * (ld * b)) ^ 2 ≤ (4 * ln * a * 4294967296 ^ 2) ^ 2 := by
    have : b * (Eb * (ld * b)) ^ 2 ≤ b * (4 * ln * a * 4294967296 ^ 2) ^ 2 := by
      calc b * (Eb * (ld * b)) ^ 2 = ld ^ 2 * b ^ 3 * Eb ^ 2 := by ring
        _ ≤ ln ^ 2 * (16 * a ^ 2 * 4294967296 ^ 4 * b) := h5
        _ = b * (4 * ln * a * 4294967296 ^ 2) ^ 2 := by ring
    exact le_of_mul_le_mul_left this hb
  have h7 := abs_le_of_sq_le_sq h6 (by positivity)
  rwa [abs_mul, abs_of_pos (mul_pos hld hb)] at h7

/-- from a bound on the centred error to a bound on `|x − s >> 32|` -/
theorem lp2_out_abs {a b x s c R : Int} (ha : 0 < a) (hb : 0 < b) (hc : 0 < c)
    (hE : |lp2Eb a b x s| * c ≤ R) :
    2 * a * 4294967296 * c * |x - s / 4294967296| ≤ R + (a + b) * 4294967296 * c := by
  have h0 := Int.mul_ediv_add_emod s 4294967296
  have r0 : 0 ≤ s % 4294967296 := by omega
  have r1 : s % 4294967296 < 4294967296 := by omega
  have hEq : lp2Eb a b x s = 2 * a * 4294967296 * (x - s / 4294967296) - 2 * a * (s % 4294967296)
      + (a + b) * 4294967296 := by
    unfold lp2Eb; linear_combination (2 * a) * h0
  have hup : lp2Eb a b x s * c ≤ R := le_trans (mul_le_mul_of_nonneg_right (le_abs_self _) (le_of_lt hc)) hE
  have hdn : -(lp2Eb a b x s) * c ≤ R := le_trans (mul_le_mul_of_nonneg_right (neg_le_abs _) (le_of_lt hc)) hE
  have hac : 0 < a * c := mul_pos ha hc
  have hbc : 0 < b * c := mul_pos hb hc
  have hr : 0 ≤ a * c * (s % 4294967296) := mul_nonneg (le_of_lt hac) r0
  have hr' : a * c * (s % 4294967296) ≤ a * c * 4294967296 := mul_le_mul_of_nonneg_left (le_of_lt r1) (le_of_lt hac)
  rw [hEq] at hup hdn
  rcases abs_cases (x - s / 4294967296) with ⟨h, _⟩ | ⟨h, _⟩ <;> rw [h] <;> nlinarith

/-- comparison with `4·2^32/k + 4` -/
theorem lp2_final {a b k ln ld cn cd Y : Int} (ha : 0 < a) (hb : 0 < b) (hk : 0 < k)
    (hln : 0 < ln) (hld : 0 < ld) (hcn : 0 < cn) (hcd : 0 < cd)
    (hc : cd * b ^ 2 ≤ cn * (a * 4294967296))
    (hlin : (4 * ln * cd + cn * ld) * k ≤ 8 * ld * cd * b)
    (hY : 2 * a * 4294967296 * (ld * b) * Y ≤ 4 * ln * a * 4294967296 ^ 2 + (a + b) * 4294967296 * (ld * b)) :
    k * (Y - 4) ≤ 4 * 4294967296 := by
  have hpos : 0 < 2 * a * 4294967296 * (ld * b) * cd := by positivity
  have h1 : 2 * a * 4294967296 * (ld * b) * Y * (k * cd)
      ≤ (4 * ln * a * 4294967296 ^ 2 + (a + b) * 4294967296 * (ld * b)) * (k * cd) :=
    mul_le_mul_of_nonneg_right hY (by positivity)
  have h2 : ld * k * (cd * b ^ 2) ≤ ld * k * (cn * (a * 4294967296)) :=
    mul_le_mul_of_nonneg_left hc (by positivity)
  have h3 : a * 4294967296 * ((4 * ln * cd + cn * ld) * k) ≤ a * 4294967296 * (8 * ld * cd * b) :=
    mul_le_mul_of_nonneg_left hlin (by positivity)
  have h4 : (2 * a * 4294967296 * (ld * b) * cd) * (k * (Y - 4))
      ≤ (2 * a * 4294967296 * (ld * b) * cd) * (4 * 4294967296) := by
    have hpk : 0 ≤ a * ld * b * cd * k := by positivity
    nlinarith
  exact le_of_mul_le_mul_left h4 hpos

/-- the small-gain regime: `a ≪ b` and damping ratio `ζ² = b²/(4·a·2^32) ≤ 3/4`: `λ = 7/4` -/
theorem lp2_regime_S {a b : Int} (ha : 0 < a) (hb : 0 < b) (hab : 500 * a ≤ b)
    (hc : b ^ 2 ≤ 3 * (a * 4294967296)) :
    4 ^ 2 * b ^ 3 ≤ 7 ^ 2 * ((b - 2 * a) * lp2Disc a b) := by
  have h1 : 750000 * lp2Disc a b ≥ 246997 * b ^ 2 := by
    unfold lp2Disc
    have : (500 * (a + b)) ^ 2 ≤ (501 * b) ^ 2 := pow_le_pow_left₀ (by omega) (by omega) 2
    nlinarith
  have h2 : 125 * (b - 2 * a) ≥ 124 * b := by omega
  have hb2 : 0 ≤ b ^ 2 := sq_nonneg b
  have h3 : (124 * b) * (246997 * b ^ 2) ≤ (125 * (b - 2 * a)) * (750000 * lp2Disc a b) :=
    mul_le_mul h2 h1 (by positivity) (by omega)
  nlinarith [pow_pos hb 3]

/-- the regime `b ≥ 2^24`: here `2·a·2^32` and `b²` agree to within `2^-14` and `λ = 43/20` -/
theorem lp2_regime_L {a b : Int} (ha : 0 < a) (hb : 16777216 ≤ b) (hab : 4 * a ≤ b + 2)
    (hc : b ^ 2 < 2 * (a + 1) * 4294967296) :
    20 ^ 2 * b ^ 3 ≤ 43 ^ 2 * ((b - 2 * a) * lp2Disc a b) := by
  have h1 : 16000 * lp2Disc a b ≥ 6998 * b ^ 2 := by
    unfold lp2Disc
    have h5 : (4 * (a + b)) ^ 2 ≤ (5 * b + 2) ^ 2 := pow_le_pow_left₀ (by omega) (by omega) 2
    have hbb : 16777216 * b ≤ b * b := mul_le_mul_of_nonneg_right hb (by omega)
    nlinarith
  have h2 : 2000 * (b - 2 * a) ≥ 999 * b := by omega
  have h3 : (999 * b) * (6998 * b ^ 2) ≤ (2000 * (b - 2 * a)) * (16000 * lp2Disc a b) :=
    mul_le_mul h2 h1 (by positivity) (by omega)
  nlinarith [pow_pos (show (0 : Int) < b by omega) 3]

end Idsp
