import IdspModel.Model.Atan2
import IdspModel.Lemmas.Basic
/-!
# The XOR re-expansion of `atan2`

`atan2` computes a first-octant value `r ∈ [0, 2^30)` and XORs it with a mask `k` assembled from the three
reflections it applied to the operands.  XOR with an all-ones low mask is subtraction, so each of the eight masks
acts as a composition of "reflections to within one LSB": `r ↦ 2^30-1-r`, `r ↦ 2^31-1-r`, `r ↦ -1-r`.
Core Lean only.
-/
namespace Idsp

theorem nat_xor_low30 {n : Nat} (hn : n < 2 ^ 30) : n ^^^ (2 ^ 30 - 1) = 2 ^ 30 - 1 - n := by
  apply Nat.eq_of_testBit_eq
  intro i
  rw [Nat.testBit_xor, Nat.testBit_two_pow_sub_one, show 2 ^ 30 - 1 - n = 2 ^ 30 - (n + 1) by omega,
    Nat.testBit_two_pow_sub_succ hn]
  by_cases hi : i < 30
  · simp [hi]
  · have : n.testBit i = false :=
      Nat.testBit_lt_two_pow (Nat.lt_of_lt_of_le hn (Nat.pow_le_pow_right (by decide) (by omega)))
    simp [hi, this]

theorem nat_xor_split30 {n : Nat} (hn : n < 2 ^ 30) (k : Nat) :
    n ^^^ k = 2 ^ 30 * (k / 2 ^ 30) + (n ^^^ (k % 2 ^ 30)) := by
  have h := Nat.div_add_mod (n ^^^ k) (2 ^ 30)
  rw [Nat.xor_div_two_pow, Nat.xor_mod_two_pow, Nat.div_eq_of_lt hn, Nat.zero_xor, Nat.mod_eq_of_lt hn] at h
  exact h.symm

/-- the mask `k` that `atan2` accumulates: `ny` = "y was negative", `nx` = "x was negative", `sw` = "swapped" -/
def octMask (ny nx sw : Bool) : Int :=
  let k := if ny then xorU32 0 (2 ^ 32 - 1) else 0
  let k := if nx then xorU32 k (2 ^ 31 - 1) else k
  if sw then xorU32 k (2 ^ 30 - 1) else k

/-- the three reflections undone in sequence: diagonal, y axis, x axis (each "to within one LSB") -/
def unfoldOct (ny nx sw : Bool) (r : Int) : Int :=
  let r := if sw then 2 ^ 30 - 1 - r else r
  let r := if nx then 2 ^ 31 - 1 - r else r
  if ny then -1 - r else r

theorem xorU32_natCast {n : Nat} (hn : n < 2 ^ 30) (K : Nat) (hK : K < 2 ^ 32) :
    xorU32 (n : Int) (K : Int) = ((2 ^ 30 * (K / 2 ^ 30) + (n ^^^ (K % 2 ^ 30)) : Nat) : Int) := by
  unfold xorU32 wrapU
  have h1 : ((n : Int) % 2 ^ 32).toNat = n := by omega
  have h2 : ((K : Int) % 2 ^ 32).toNat = K := by omega
  rw [h1, h2, nat_xor_split30 hn]; rfl

theorem xor_unfold {r : Int} (h0 : 0 ≤ r) (h1 : r < 2 ^ 30) (ny nx sw : Bool) :
    wrapI 32 (xorU32 r (octMask ny nx sw)) = unfoldOct ny nx sw r := by
  obtain ⟨n, rfl⟩ := Int.eq_ofNat_of_zero_le h0
  have hn : n < 2 ^ 30 := by exact_mod_cast h1
  have hl := nat_xor_low30 hn
  have m0 : octMask false false false = (0 : Nat) := by decide
  have m1 : octMask false false true = (1073741823 : Nat) := by decide
  have m2 : octMask false true false = (2147483647 : Nat) := by decide
  have m3 : octMask false true true = (1073741824 : Nat) := by decide
  have m4 : octMask true false false = (4294967295 : Nat) := by decide
  have m5 : octMask true false true = (3221225472 : Nat) := by decide
  have m6 : octMask true true false = (2147483648 : Nat) := by decide
  have m7 : octMask true true true = (3221225471 : Nat) := by decide
  cases ny <;> cases nx <;> cases sw <;>
    simp only [m0, m1, m2, m3, m4, m5, m6, m7] <;>
    rw [xorU32_natCast hn _ (by decide)] <;>
    simp only [Nat.reducePow, Nat.reduceDiv, Nat.reduceMod, Nat.xor_zero, Nat.reduceMul, Nat.reduceSub] at hl ⊢ <;>
    (try rw [hl]) <;>
    simp only [unfoldOct, wrapI, Bool.false_eq_true, if_false, if_true] <;>
    omega

end Idsp
