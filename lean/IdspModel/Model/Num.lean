import IdspModel.Rust
/-! Model of `src/num.rs`: `impl_int!(T, U, A, Q)` for a signed `w`-bit `T`, accumulator `2w` bits,
    `q` fractional bits.  Instances: (8,6) (16,14) (32,30) (64,62). -/
namespace Idsp

def lorU (a b : Int) : Int := Int.ofNat (a.toNat ||| b.toNat)

/-- `macc(self = u, s, min, max, e1)` returns `(y0, e0)`. -/
def macc (m : Mode) (w q : Nat) (u s mn mx e1 : Int) : R (Int × Int) := do
  let g := w - q
  -- (((u >> G) as A) << S) | (((u << Q) | e1) as U as A)
  let hi := wrapI (2 * w) (shr u g * 2 ^ w)
  let lo := lorU (wrapU w (u * 2 ^ q)) (wrapU w e1)
  let off := wrapI (2 * w) (lorU (wrapU (2 * w) hi) lo)
  let s ← arithI m (2 * w) "num.rs:104 s +=" (s + off)
  dbgAssert m "num.rs:107 debug_assert_eq!(min & ((1 << G) - 1), 0)" (decide (mn % 2 ^ g = 0))
  dbgAssert m "num.rs:108 debug_assert_eq!(max & ((1 << G) - 1), (1 << G) - 1)" (decide (mx % 2 ^ g = 2 ^ g - 1))
  let t := wrapI w (shr s w)
  let y0 := if t < shr mn g then mn else if t > shr mx g then mx else wrapI w (shr s q)
  let e0 := s % 2 ^ q
  .ok (y0, e0)

def clip (x mn mx : Int) : Int := if x < mn then mn else if x > mx then mx else x

/-- `div_scaled`: panics on a zero divisor in every profile. -/
def divScaled (w q : Nat) (a b : Int) : R Int :=
  if b = 0 then .error ⟨"num.rs:131 division by zero"⟩
  else .ok (wrapI w (Int.tdiv (wrapI (2 * w) (a * 2 ^ q)) b))

def mulScaled (m : Mode) (w q : Nat) (a b : Int) : R Int := do
  let p ← arithI m (2 * w) "num.rs:136 self * other" (a * b)
  let s ← arithI m (2 * w) "num.rs:136 (1 << (Q-1)) + .." (2 ^ (q - 1) + p)
  .ok (wrapI w (shr s q))

def oneQ (q : Nat) : Int := 2 ^ q
def negOneQ (q : Nat) : Int := -(2 ^ q)

end Idsp
