import IdspModel.Lemmas.HbfSpecTime
/-! Impulse response of the MODEL decimating cascade of depth 4 over `ℚ`, input phases 0 … 3
    (kernel computation). -/
namespace Idsp

theorem hbfDecImpulseOK_4_0 : ∀ q < 4, hbfDecImpulseOK 4 (0 + q) := by decide +kernel

end Idsp
