import IdspModel.Lemmas.CoeffResp
/-!
# Stability of the coefficient sets: Jury conditions, poles inside the unit disc
-/
namespace Idsp
open Real Complex

/-- Jury stability conditions of the real quadratic `a0 z² + a1 z + a2`, `a0 > 0` -/
def Jury (a : ℝ × ℝ × ℝ) : Prop := 0 < a.1 ∧ |a.2.2| < a.1 ∧ |a.2.1| < a.1 + a.2.2

/-- Jury's criterion (sufficiency): under `a0 > 0`, `|a2| < a0`, `|a1| < a0 + a2` every complex root of
    `a0 z² + a1 z + a2` lies strictly inside the unit circle. -/
theorem jury_roots_in_disc (a0 a1 a2 : ℝ) (h0 : 0 < a0) (h2 : |a2| < a0) (h1 : |a1| < a0 + a2) (z : ℂ)
    (hz : (a0 : ℂ) * z ^ 2 + (a1 : ℂ) * z + (a2 : ℂ) = 0) : ‖z‖ < 1 := by
  have hre := congrArg Complex.re hz
  have him := congrArg Complex.im hz
  simp [pow_two] at hre him
  obtain ⟨h2l, h2u⟩ := abs_lt.mp h2
  obtain ⟨h1l, h1u⟩ := abs_lt.mp h1
  have hn : z.re * z.re + z.im * z.im < 1 := by
    by_cases hy : z.im = 0
    · rw [hy] at hre ⊢
      simp at hre ⊢
      by_contra hge
      rw [not_lt] at hge
      rcases le_or_gt 1 z.re with hx | hx
      · nlinarith [mul_nonneg (sub_nonneg.mpr hx) (show 0 ≤ a0 * (z.re + 1) + a1 by nlinarith)]
      · have hx' : z.re ≤ -1 := by nlinarith
        nlinarith [mul_nonneg (show 0 ≤ -1 - z.re by linarith) (show 0 ≤ a0 * (1 - z.re) - a1 by nlinarith)]
    · have h : 2 * a0 * z.re + a1 = 0 := by
        have : z.im * (2 * a0 * z.re + a1) = 0 := by linarith
        rcases mul_eq_zero.mp this with h | h
        · exact absurd h hy
        · exact h
      have : a0 * (z.re * z.re + z.im * z.im) = a2 := by nlinarith
      nlinarith
  have hsq : ‖z‖ ^ 2 < 1 := by rw [Complex.sq_norm, Complex.normSq_apply]; exact hn
  nlinarith [norm_nonneg z]

theorem Jury.roots {a : ℝ × ℝ × ℝ} (h : Jury a) (z : ℂ)
    (hz : (a.1 : ℂ) * z ^ 2 + (a.2.1 : ℂ) * z + (a.2.2 : ℂ) = 0) : ‖z‖ < 1 :=
  jury_roots_in_disc a.1 a.2.1 a.2.2 h.1 h.2.1 h.2.2 z hz

/-- a Jury-stable denominator does not vanish on or outside the unit circle -/
theorem Jury.den_ne_zero {a : ℝ × ℝ × ℝ} (h : Jury a) (z : ℂ) (hz : 1 ≤ ‖z‖) : polyZi a z⁻¹ ≠ 0 := by
  intro h0
  have hz0 : z ≠ 0 := by
    intro h; rw [h, norm_zero] at hz; linarith
  have : (a.1 : ℂ) * z ^ 2 + (a.2.1 : ℂ) * z + (a.2.2 : ℂ) = polyZi a z⁻¹ * z ^ 2 := by
    simp only [polyZi]; field_simp
  rw [h0, zero_mul] at this
  have := h.roots z this
  linarith

/-- the cookbook denominator `(1+β, −2c, 1−β)` with `β > 0`, `|c| < 1` -/
theorem jury_std (c β : ℝ) (hβ : 0 < β) (hc1 : -1 < c) (hc2 : c < 1) : Jury (1 + β, -2 * c, 1 - β) := by
  refine ⟨by linarith, ?_, ?_⟩ <;> simp only <;> rw [abs_lt] <;> constructor <;> linarith

section
variable (f : FilterCfg ℝ) (h0 : 0 < f.frequency) (hp : f.frequency < π) (hq : 0 < f.qi realOps)
include h0 hp hq

theorem jury_lowpass : Jury (f.lowpass realOps).2 := by
  rw [lowpass_eq]
  exact jury_std _ _ (alphaR_pos f h0 hp hq) (neg_one_lt_cos_of_mem h0 hp) (cos_lt_one_of_mem h0 hp)

theorem jury_highpass : Jury (f.highpass realOps).2 := by
  rw [highpass_eq]
  exact jury_std _ _ (alphaR_pos f h0 hp hq) (neg_one_lt_cos_of_mem h0 hp) (cos_lt_one_of_mem h0 hp)

theorem jury_bandpass : Jury (f.bandpass realOps).2 := by
  rw [bandpass_eq]
  exact jury_std _ _ (alphaR_pos f h0 hp hq) (neg_one_lt_cos_of_mem h0 hp) (cos_lt_one_of_mem h0 hp)

theorem jury_notch : Jury (f.notch realOps).2 := by
  rw [notch_eq]
  exact jury_std _ _ (alphaR_pos f h0 hp hq) (neg_one_lt_cos_of_mem h0 hp) (cos_lt_one_of_mem h0 hp)

theorem jury_allpass : Jury (f.allpass realOps).2 := by
  rw [allpass_eq]
  exact jury_std _ _ (alphaR_pos f h0 hp hq) (neg_one_lt_cos_of_mem h0 hp) (cos_lt_one_of_mem h0 hp)

theorem jury_peaking (hsh : 0 < f.shelf) : Jury (f.peaking realOps).2 := by
  rw [peaking_eq]
  exact jury_std _ _ (div_pos (alphaR_pos f h0 hp hq) (Real.sqrt_pos.mpr hsh)) (neg_one_lt_cos_of_mem h0 hp)
    (cos_lt_one_of_mem h0 hp)

theorem jury_lowshelf (hsh : 0 < f.shelf) : Jury (f.lowshelf realOps).2 := by
  rw [lowshelf_eq]
  have hα := alphaR_pos f h0 hp hq
  have hA := Real.sqrt_pos.mpr hsh
  have hAA := Real.sqrt_pos.mpr hA
  have hc1 := neg_one_lt_cos_of_mem h0 hp
  have hc2 := cos_lt_one_of_mem h0 hp
  have ht : 0 < 2 * √√f.shelf * f.alphaR := by positivity
  have hu : 0 < √f.shelf + 1 + (√f.shelf - 1) * f.cosR := by
    have : √f.shelf + 1 + (√f.shelf - 1) * f.cosR = √f.shelf * (1 + f.cosR) + (1 - f.cosR) := by ring
    rw [this]
    have h1 : 0 < 1 + f.cosR := by unfold FilterCfg.cosR; linarith
    have h2 : 0 < 1 - f.cosR := by unfold FilterCfg.cosR; linarith
    positivity
  have hAc : 0 < √f.shelf * (1 + f.cosR) := by
    have h1 : 0 < 1 + f.cosR := by unfold FilterCfg.cosR; linarith
    positivity
  have hc2' : f.cosR < 1 := hc2
  refine ⟨by linarith, ?_, ?_⟩ <;> simp only <;> rw [abs_lt] <;> constructor <;> nlinarith

theorem jury_highshelf (hsh : 0 < f.shelf) : Jury (f.highshelf realOps).2 := by
  rw [highshelf_eq]
  have hα := alphaR_pos f h0 hp hq
  have hA := Real.sqrt_pos.mpr hsh
  have hAA := Real.sqrt_pos.mpr hA
  have hc1 := neg_one_lt_cos_of_mem h0 hp
  have hc2 := cos_lt_one_of_mem h0 hp
  have ht : 0 < 2 * √√f.shelf * f.alphaR := by positivity
  have hu : 0 < √f.shelf + 1 - (√f.shelf - 1) * f.cosR := by
    have : √f.shelf + 1 - (√f.shelf - 1) * f.cosR = √f.shelf * (1 - f.cosR) + (1 + f.cosR) := by ring
    rw [this]
    have h1 : 0 < 1 + f.cosR := by unfold FilterCfg.cosR; linarith
    have h2 : 0 < 1 - f.cosR := by unfold FilterCfg.cosR; linarith
    positivity
  have hAc : 0 < √f.shelf * (1 - f.cosR) := by
    have h1 : 0 < 1 - f.cosR := by unfold FilterCfg.cosR; linarith
    positivity
  have hc1' : -1 < f.cosR := hc1
  refine ⟨by linarith, ?_, ?_⟩ <;> simp only <;> rw [abs_lt] <;> constructor <;> nlinarith

end

/-! ### allpass: `|H| = |gain|` on the whole unit circle -/

/-- `|N(z⁻¹)| = |g|·|D(z⁻¹)|` for every `z⁻¹` on the unit circle: `N(zi) = g · zi² · conj D(zi)` -/
theorem allpass_poly_norm (c α g : ℝ) (zi : ℂ) (hz : ‖zi‖ = 1) :
    ‖polyZi ((1 - α) * g, -2 * c * g, (1 + α) * g) zi‖ = |g| * ‖polyZi (1 + α, -2 * c, 1 - α) zi‖ := by
  have hw : zi * (starRingEnd ℂ) zi = 1 := by
    rw [Complex.mul_conj, Complex.normSq_eq_norm_sq, hz]; simp
  have key : polyZi ((1 - α) * g, -2 * c * g, (1 + α) * g) zi
      = (g : ℂ) * zi ^ 2 * (starRingEnd ℂ) (polyZi (1 + α, -2 * c, 1 - α) zi) := by
    simp only [polyZi, map_add, map_mul, map_pow, Complex.conj_ofReal]
    push_cast
    linear_combination (-(g : ℂ) * ((1 - (α : ℂ)) * (1 + zi * (starRingEnd ℂ) zi) - 2 * (c : ℂ) * zi)) * hw
  rw [key, norm_mul, norm_mul, norm_pow, hz, RCLike.norm_conj, Complex.norm_real, Real.norm_eq_abs]
  ring

/-- the allpass has `|H(e^{jw})| = |gain|` at EVERY frequency `w` -/
theorem allpass_norm_all (f : FilterCfg ℝ) (h0 : 0 < f.frequency) (hp : f.frequency < π) (hq : 0 < f.qi realOps)
    (w : ℝ) : ‖tf (f.allpass realOps) (ejw w)‖ = |f.gain| := by
  have hD := (jury_allpass f h0 hp hq).den_ne_zero (ejw w) (norm_ejw w).ge
  rw [allpass_eq] at hD
  simp only [tf, norm_div, allpass_eq]
  rw [allpass_poly_norm _ _ _ _ (norm_ejw_inv w)]
  exact mul_div_cancel_right₀ _ (norm_ne_zero_iff.mpr hD)

/-! ### I/HO: one pole at `z = 1`, the other strictly inside -/

/-- the denominator of I/HO factors as `(z − 1)(a0 z − a2)`, `a0 > 0`, `|a2| < a0`: the poles are `1` and
    `a2/a0 ∈ (−1, 1)` -/
theorem iho_poles (f : FilterCfg ℝ) (h0 : 0 < f.frequency) (hp : f.frequency < π) (hsh : 0 < f.shelf) (z : ℂ)
    (hz : (((f.iho realOps).2.1 : ℝ) : ℂ) * z ^ 2 + (((f.iho realOps).2.2.1 : ℝ) : ℂ) * z
      + (((f.iho realOps).2.2.2 : ℝ) : ℂ) = 0) :
    0 < (f.iho realOps).2.1 ∧ |(f.iho realOps).2.2.2| < (f.iho realOps).2.1 ∧
    (z = 1 ∨ (z = (((f.iho realOps).2.2.2 / (f.iho realOps).2.1 : ℝ) : ℂ) ∧ ‖z‖ < 1)) := by
  have hs := sin_pos_of_mem h0 hp
  have hc := neg_one_lt_cos_of_mem h0 hp
  rw [iho_eq] at hz ⊢
  simp only at hz ⊢
  have ha : 0 < (1 + f.cosR) / (2 * f.shelf) := by
    have : 0 < 1 + f.cosR := by unfold FilterCfg.cosR; linarith
    positivity
  set a := (1 + f.cosR) / (2 * f.shelf) with ha_def
  set fs := 1 / 2 * Real.sin f.frequency with hfs
  have hfs0 : 0 < fs := by rw [hfs]; positivity
  have ha0 : 0 < a + fs := by linarith
  have habs : |a - fs| < a + fs := by rw [abs_lt]; constructor <;> linarith
  refine ⟨ha0, habs, ?_⟩
  have hfac : (z - 1) * (((a + fs : ℝ) : ℂ) * z - ((a - fs : ℝ) : ℂ)) = 0 := by
    rw [← hz]; push_cast; ring
  rcases mul_eq_zero.mp hfac with h | h
  · left; exact sub_eq_zero.mp h
  · right
    have hne : (a : ℂ) + (fs : ℂ) ≠ 0 := by exact_mod_cast ha0.ne'
    have hzv : z = (((a - fs) / (a + fs) : ℝ) : ℂ) := by
      push_cast at h ⊢
      rw [eq_div_iff hne]
      linear_combination h
    refine ⟨hzv, ?_⟩
    rw [hzv, Complex.norm_real, Real.norm_eq_abs, abs_div, abs_of_pos ha0, div_lt_one ha0]
    exact habs

end Idsp
