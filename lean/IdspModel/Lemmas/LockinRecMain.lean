import IdspModel.Lemmas.LockinRecInt
import IdspModel.Lemmas.LockinRecButter
/-!
# Lock-in recovery: one lowpass channel of the model, fed `DC + tone + bounded error`

`lk_channel`: for a documented Butterworth pair with `2^20 ≤ k ≤ 2^25`, started from the zero state and fed an integer
sequence `xs n = D + Re(w0·z^n) + e_n` (`|e_n| ≤ ε ≤ 9800`, `|w0| = R ≤ 2^29`, `|D| ≤ R`, `|z| = 1`, `|z−1| ≥ 0.6`):
(1) every model update `lp2Update` returns `.ok` in both build profiles and performs the plain integer map, and
(2) the sum of the returned outputs over ANY window of `L` samples that starts after `40·2^32/k` samples differs from
    `L·D` by at most `L·(2.04·ε + 2.1888·2^32/k + 1.53) + R/400`.
-/
namespace Idsp
set_option linter.unusedVariables false

theorem lk_channel (m : Mode) {k a b : Int} (hB : Lp2Butter k a b) (hk0 : 1048576 ≤ k) (hk1 : k ≤ 33554432)
    (xs : ℕ → Int) (D ε R : ℝ) (z w0 : ℂ)
    (hi : LkInput (fun n => (xs n : ℝ)) D ε z w0) (hw : ‖w0‖ = R) (hR : R ≤ 536870912) (hD : |D| ≤ R)
    (hε : ε ≤ 9800) :
    (∀ n, lp2Update m (lkSeq a b xs n).1 (lkSeq a b xs n).2 (xs n) a (-b)
        = .ok ((lkSeq a b xs (n + 1)).1, (lkSeq a b xs (n + 1)).2, lkOut a b xs n)) ∧
    (∀ n0 L : ℕ, 40 * 4294967296 ≤ k * n0 →
      |(∑ i ∈ Finset.range L, (lkOut a b xs (n0 + i) : ℝ)) - L * D|
        ≤ L * (2.04 * ε + 2.1888 * 4294967296 / k + 1.53) + R / 400) := by
  obtain ⟨a0, a1, b0, b1, -, -, -⟩ := lk_butter_int hB hk0 hk1
  have hg := lk_butter_gain hB hk0 hk1
  obtain ⟨off1, off0, off2⟩ := lk_butter_off hB hk0 hk1
  have hr := lkSeq_run a b (by omega) hB.hb0 xs
  set α := (a : ℝ) / 4294967296 with hα
  set β := (b : ℝ) / 4294967296 with hβ
  set off := lkOff α β with hoff
  have hR0 : 0 ≤ R := by rw [← hw]; exact norm_nonneg _
  have hε0 : 0 ≤ ε := le_trans (abs_nonneg _) (hi.hx 0)
  have hα1 := hg.hα1; have hα0 := hg.hα
  set B := 1.001 * R + off with hBdef
  have h12 : 12 * α * ‖w0‖ ≤ 0.00075 * R := by
    rw [hw]
    have : α * R ≤ (1 / 16000) * R := mul_le_mul_of_nonneg_right hα1 hR0
    nlinarith
  have hB0 : |D| + off + 12 * α * ‖w0‖ ≤ B := by rw [hBdef]; linarith
  have hB1 : ‖w0‖ ≤ B := by rw [hBdef, hw]; linarith
  have hBle : B ≤ 537410740 := by rw [hBdef]; linarith
  have hall := fun n => lk_chan_all hg hr hi hB0 hB1 n
  -- the input stays within R + ε of D
  have hxD : ∀ n, |(xs n : ℝ) - D| ≤ R + ε := by
    intro n
    have h1 := hi.hx n
    have h2 := lkTc_abs_le z w0 hi.hz n
    rw [hw] at h2
    rw [abs_le] at h1 h2 ⊢
    constructor <;> linarith
  -- the box at every time, relative to any input sample
  have hbox : ∀ n j, Lp2Box (xs j) (lkSeq a b xs n) := by
    intro n j
    obtain ⟨s1, s2⟩ := hall n
    apply lkSeq_box (xs j) (lkSeq a b xs n) D (2.54 * B + 2.04 * (ε + off)) (R + ε) s1 (hxD j)
    · have := abs_nonneg D; linarith
    · linarith
    · have : |lkT a b xs n| ≤ 1073741824 := by linarith
      exact this
  constructor
  · intro n
    have e := lp2_step_box m (xs n) a (-b) (lkSeq a b xs n) (by omega) (by omega) (by omega) (by omega)
      (hbox n n) (hbox (n + 1) n)
    exact e
  · intro n0 L hn
    have hn' := lk_butter_settle hB hk0 hk1 n0 hn
    have hwin := lk_chan_window hg hr hi hB0 hB1 n0 L hn'
    have hLn : (0 : ℝ) ≤ L := Nat.cast_nonneg L
    -- sums
    set mid : ℕ → ℝ := fun i => (lkS a b xs (n0 + i) + lkS a b xs (n0 + i + 1)) / 2 with hmid
    have hy1 : ∑ i ∈ Finset.range L, (lkOut a b xs (n0 + i) : ℝ) ≤ ∑ i ∈ Finset.range L, mid i :=
      Finset.sum_le_sum (fun i _ => (lkOut_real a b xs (n0 + i)).1)
    have hy2 : ∑ i ∈ Finset.range L, mid i ≤ ∑ i ∈ Finset.range L, ((lkOut a b xs (n0 + i) : ℝ) + 1) :=
      Finset.sum_le_sum (fun i _ => (lkOut_real a b xs (n0 + i)).2.le)
    rw [Finset.sum_add_distrib, Finset.sum_const, Finset.card_range, nsmul_eq_mul, mul_one] at hy2
    have hP : ∑ i ∈ Finset.range L, (mid i - D - off) = ∑ i ∈ Finset.range L, mid i - L * D - L * off := by
      rw [Finset.sum_sub_distrib, Finset.sum_sub_distrib, Finset.sum_const, Finset.sum_const, Finset.card_range,
        nsmul_eq_mul, nsmul_eq_mul]
    rw [hP] at hwin
    have hw40 : 40 * α * ‖w0‖ ≤ R / 400 := by
      rw [hw]
      have : α * R ≤ (1 / 16000) * R := mul_le_mul_of_nonneg_right hα1 hR0
      linarith
    have hB38 : B / 2 ^ 38 ≤ 0.002 := by
      rw [div_le_iff₀ (by norm_num)]; norm_num; linarith
    have hkR : (0 : ℝ) < k := by
      have : (1048576 : ℝ) ≤ k := by exact_mod_cast hk0
      linarith
    have hoffk : 3.04 * off ≤ 2.1888 * 4294967296 / k + 1.52 := by
      have e : 2.1888 * 4294967296 / (k : ℝ) = 3.04 * (0.72 * 4294967296 / k) := by ring
      rw [e]; linarith
    -- per-sample constant
    have hc : B / 2 ^ 38 + 2.04 * (ε + off) + off ≤ 2.04 * ε + 2.1888 * 4294967296 / k + 1.53 := by linarith
    have hcL := mul_le_mul_of_nonneg_left hc hLn
    have hoffL : (L : ℝ) * (1 / 2) ≤ L * off := mul_le_mul_of_nonneg_left off0 hLn
    rw [abs_le] at hwin ⊢
    constructor <;> nlinarith

end Idsp
