import IdspModel.Lemmas.Lp2Wide
import IdspModel.Lemmas.Lp2BigNum2
/-!
# Second-order lowpass, large steps: start states with small velocity; the hand-off region is sector-safe
-/
namespace Idsp
set_option linter.unusedVariables false

/-- start state with small velocity: `Lp2Start` and `|2a·s1| ≤ 16·a·2^32` (i.e. `|s1| ≤ 8·2^32`) -/
def Lp2Start2 (a b xo : Int) (st : Int × Int) : Prop :=
  Lp2Start a b xo st ∧ -(bgS0 a) ≤ 2 * a * st.2 ∧ 2 * a * st.2 ≤ bgS0 a

theorem lp2_start2_of_set {k a b : Int} (h : Lp2Butter k a b) (x : Int) : Lp2Start2 a b x (x * 4294967296, 0) := by
  have ha := h.a_ge
  refine ⟨lp2_start_of_set h x, ?_, ?_⟩ <;> (unfold bgS0; simp only; nlinarith)

/-- every state of the tight settled region has small velocity -/
theorem lp2_start2_of_tight {k a b x : Int} (h : Lp2Butter k a b) (st : Int × Int)
    (ht : Lp2Tight a b x (lp2Rk k a) st) : Lp2Start2 a b x st := by
  have ha := h.a_ge; have hk := h.hk0; have hbl := h.b_le; have hbu := h.b_upper; have hb0 := h.hb0
  have hba := h.two_a_lt
  refine ⟨lp2_start_of_tight h st ht, ?_⟩
  obtain ⟨hs, hE0, hE1⟩ := ht
  have hV := lp2_settled_V_le h x st hs
  unfold lp2V lp2Q at hV
  generalize lp2Eb a b x st.1 = E at *
  generalize 2 * a * st.2 = s at *
  -- b·Rk ≤ 4.25·a·M² + 1.5·k, in the form 1000·b·Rk·… use k·Rk ≤ 3aM² + k
  have hRk : lp2Rk k a * k ≤ 3 * a * 4294967296 ^ 2 + k := by
    unfold lp2Rk
    have := Int.ediv_mul_le (3 * a * 4294967296 ^ 2) (show k ≠ 0 by omega)
    nlinarith
  have hR0 : 0 ≤ lp2Rk k a := by
    unfold lp2Rk
    have : 0 ≤ 3 * a * 4294967296 ^ 2 / k := Int.ediv_nonneg (by positivity) (by omega)
    omega
  have hbRk : 1000 * (b * lp2Rk k a) ≤ 1415 * (3 * a * 4294967296 ^ 2 + k) := by
    have h1 : 1000 * b * lp2Rk k a ≤ 1415 * k * lp2Rk k a := mul_le_mul_of_nonneg_right hbu hR0
    nlinarith
  -- |E·s| ≤ Rk·|s|
  have hsq : s ^ 2 ≤ bgS0 a ^ 2 := by
    by_contra hc
    have hc' : bgS0 a ^ 2 < s ^ 2 := not_le.mp hc
    -- t := |s| > 16aM
    have ht : bgS0 a < |s| := by
      have h0 : 0 ≤ bgS0 a := by unfold bgS0; positivity
      have : bgS0 a ^ 2 < |s| ^ 2 := by rwa [sq_abs]
      exact lt_of_pow_lt_pow_left₀ 2 (abs_nonneg s) this
    have hEs : (b - a) * E * s ≤ b * lp2Rk k a * |s| := by
      have h1 : E * s ≤ |E| * |s| := by rw [← abs_mul]; exact le_abs_self _
      have h2 : |E| ≤ lp2Rk k a := abs_le.mpr ⟨hE0, hE1⟩
      have h3 : |E| * |s| ≤ lp2Rk k a * |s| := mul_le_mul_of_nonneg_right h2 (abs_nonneg s)
      have h4 : (b - a) * (E * s) ≤ (b - a) * (lp2Rk k a * |s|) :=
        mul_le_mul_of_nonneg_left (by linarith) (by omega)
      have h5 : 0 ≤ a * (lp2Rk k a * |s|) := by positivity
      nlinarith
    have hs2 : s ^ 2 = |s| ^ 2 := (sq_abs s).symm
    have hE2 : 0 ≤ a * E ^ 2 := by positivity
    rw [hs2] at hV
    generalize |s| = t at *
    -- (M-b)t² ≤ 16a²M³ + b·Rk·t
    have h6 : (4294967296 - b) * t ^ 2 ≤ 16 * a ^ 2 * 4294967296 ^ 3 + b * lp2Rk k a * t := by nlinarith
    unfold bgS0 at ht
    have ht0 : 0 ≤ t := by nlinarith
    have h7 : 2147483648 * t ^ 2 ≤ (4294967296 - b) * t ^ 2 :=
      mul_le_mul_of_nonneg_right (by omega) (sq_nonneg t)
    have h8 : 1000 * (b * lp2Rk k a * t) ≤ 1415 * (3 * a * 4294967296 ^ 2 + k) * t := by
      have := mul_le_mul_of_nonneg_right hbRk ht0; nlinarith
    have hk2 : k ≤ a * 4294967296 := by
      have := h.k_le; nlinarith
    nlinarith
  have h0 : 0 ≤ bgS0 a := by unfold bgS0; positivity
  exact abs_le_of_sq_le_sq' hsq h0

def bgSB (a : Int) : Int := 2 * a * 4294967296 * 966308657

/-- the hand-off region `V ≤ bgVH`, `|Ē| ≤ bgRH` is sector-safe for every input within `±2^30` -/
theorem bg_safe2 {k a b x : Int} (h : Lp2Butter k a b)
    (hx0 : -1073741824 ≤ x) (hx1 : x ≤ 1073741824) : Lp2Safe2 a b x (bgVH a b) (bgRH a) := by
  have ha := h.a_ge; have hbg := h.b_ge; have hba := lp2_b_le_a h; have hbl0 := h.b_le
  have hA := h.adm
  obtain ⟨hD5, -⟩ := lp2_disc_ge h
  obtain ⟨hRV, hVHlow⟩ := bg_VH_spec' h
  have hVH0 : 0 ≤ bgVH a b := le_trans (by positivity) hVHlow
  refine ⟨bgSB a, 1073741822, by unfold bgRH; positivity, by unfold bgSB; positivity, by norm_num,
    by omega, by omega, hRV, ?_, ?_, ?_, ?_, ?_⟩
  · -- 4a·VH ≤ 4a²·RH² ≤ Δ·SB²
    have h1 : bgVH a b ≤ a * bgRH a ^ 2 := by
      have hc : (0 : Int) < 4294967296 - b + a := by omega
      have : (4294967296 - b + a) * bgVH a b ≤ (4294967296 - b + a) * (a * bgRH a ^ 2) := by
        have h0 : 0 ≤ a * bgRH a ^ 2 := by positivity
        nlinarith
      exact le_of_mul_le_mul_left this hc
    have h2 : 4 * a * (a * bgRH a ^ 2) ≤ 5 * a ^ 2 * bgSB a ^ 2 := by
      unfold bgRH bgSB
      have e1 : 4 * a * (a * (2 * a * 4294967296 * 1073676285) ^ 2)
          = a ^ 4 * 4294967296 ^ 2 * (16 * 1073676285 ^ 2) := by ring
      have e2 : 5 * a ^ 2 * (2 * a * 4294967296 * 966308657) ^ 2
          = a ^ 4 * 4294967296 ^ 2 * (20 * 966308657 ^ 2) := by ring
      rw [e1, e2]
      exact mul_le_mul_of_nonneg_left (by norm_num) (by positivity)
    have h3 : 5 * a ^ 2 * bgSB a ^ 2 ≤ lp2Disc a b * bgSB a ^ 2 := mul_le_mul_of_nonneg_right hD5 (sq_nonneg _)
    nlinarith
  · unfold bgSB bgRH; nlinarith
  · unfold bgRH; nlinarith
  · unfold bgSB; nlinarith
  · have h4 := h.four_a_le; have hbl := h.b_le
    have hbb : 0 < b * (b - 2 * a) := by apply mul_pos <;> omega
    have h16 : 16 * a ^ 2 * 4294967296 ^ 3 ≤ bgVH a b := by
      have ha3 : a ^ 2 ≤ a ^ 3 := by nlinarith
      nlinarith
    have h1 : (a + b) ^ 2 ≤ 4 * (b * (b - 2 * a)) := by
      have h5 : (4 * (a + b)) ^ 2 ≤ (5 * b + 2) ^ 2 := pow_le_pow_left₀ (by omega) (by omega) 2
      have : 2 * (b * (b - 2 * a)) ≥ b * (b - 2) := by nlinarith
      nlinarith
    unfold lp2U
    have e1 : 4 * (4294967296 - b) * (a * (a + b) * 4294967296) ^ 2
        = (4 * a ^ 2 * 4294967296 ^ 2 * (4294967296 - b)) * (a + b) ^ 2 := by ring
    have e2 : (4 * a ^ 2 * 4294967296 ^ 2 * (4294967296 - b)) * (a + b) ^ 2
        ≤ (4 * a ^ 2 * 4294967296 ^ 2 * (4294967296 - b)) * (4 * (b * (b - 2 * a))) :=
      mul_le_mul_of_nonneg_left h1 (by have : (0 : Int) ≤ 4294967296 - b := by omega
                                       positivity)
    have e3 : (4 * a ^ 2 * 4294967296 ^ 2 * (4294967296 - b)) * (4 * (b * (b - 2 * a)))
        ≤ (4 * a ^ 2 * 4294967296 ^ 2 * 4294967296) * (4 * (b * (b - 2 * a))) :=
      mul_le_mul_of_nonneg_right (mul_le_mul_of_nonneg_left (by omega) (by positivity)) (by positivity)
    have e4 : b * (b - 2 * a) * (16 * a ^ 2 * 4294967296 ^ 3) ≤ b * (b - 2 * a) * bgVH a b :=
      mul_le_mul_of_nonneg_left h16 (le_of_lt hbb)
    rw [e1]
    calc _ ≤ _ := e2
      _ ≤ _ := e3
      _ = b * (b - 2 * a) * (16 * a ^ 2 * 4294967296 ^ 3) := by ring
      _ ≤ _ := e4

end Idsp
