import IdspModel.Lemmas.RpllStep
/-! The rounding dead band of the RPLL frequency loop. Core Lean only. -/
namespace Idsp

/-- `ff +w (pRef −w q) = ff` iff `q = pRef`, for `u32` values -/
theorem rpll_ff_fixed_iff {ff pRef q : Int} (hff0 : 0 ≤ ff) (hff1 : ff < 2 ^ 32)
    (hr0 : 0 ≤ pRef) (hr1 : pRef < 2 ^ 32) (hq0 : 0 ≤ q) (hq1 : q < 2 ^ 32) :
    wrapU 32 (ff + wrapU 32 (pRef - wrapU 32 q)) = ff ↔ q = pRef := by
  simp only [Int.reducePow] at *
  unfold wrapU
  simp only [Int.reducePow]
  omega

/-- `pRef · 2^sf = 2^(32+dt2)` -/
theorem rpll_pref_mul (dt2 sf : Int) (hd0 : 0 ≤ dt2) (hsf0 : 0 ≤ sf) (hsf1 : sf ≤ 32 + dt2) :
    (2 : Int) ^ (32 + dt2 - sf).toNat * 2 ^ sf.toNat = 2 ^ (32 + dt2).toNat := by
  rw [← two_pow_add]; congr 1; omega

/-- the half-up rounded quotient equals `pRef` exactly on a window of width `2^sf` of the product -/
theorem rpll_quot_eq_iff (p dt2 sf : Int) (hd0 : 0 ≤ dt2) (hsf0 : 1 ≤ sf) (hsf1 : sf ≤ 32 + dt2) :
    (p + 2 ^ (sf - 1).toNat) / 2 ^ sf.toNat = 2 ^ (32 + dt2 - sf).toNat ↔
      2 ^ (32 + dt2).toNat - 2 ^ (sf - 1).toNat ≤ p ∧ p < 2 ^ (32 + dt2).toNat + 2 ^ (sf - 1).toNat := by
  rw [Int.ediv_eq_iff_of_pos (two_pow_pos _), rpll_pref_mul dt2 sf hd0 (by omega) hsf1]
  have h2 : (2 : Int) ^ sf.toNat = 2 * 2 ^ (sf - 1).toNat := by
    have := two_pow_succ_pred (w := sf.toNat) (by omega)
    rw [this]; congr 2; omega
  omega

end Idsp
