import IdspModel.Lemmas.CoeffBasic
/-!
# Coefficient builders over `ℝ`: the gain is a pure output scale; the original `Shape::Slope` defect
-/
namespace Idsp
open Real

/-- scale the feed-forward triple of a coefficient set -/
def scaleB (k : ℝ) (ba : BA ℝ) : BA ℝ := ((k * ba.1.1, k * ba.1.2.1, k * ba.1.2.2), ba.2)

theorem build_gain_scale_aux (f : FilterCfg ℝ) (k : ℝ) (typ : Nat) :
    FilterCfg.build realOps { f with gain := k * f.gain } typ = scaleB k (f.build realOps typ) := by
  unfold FilterCfg.build scaleB
  split <;>
    simp only [lowpass_eq, highpass_eq, bandpass_eq, allpass_eq, notch_eq, peaking_eq, lowshelf_eq, highshelf_eq,
      iho_eq, alphaR_gain, FilterCfg.cosR] <;>
    refine Prod.ext (Prod.ext ?_ (Prod.ext ?_ ?_)) rfl <;> ring

/-! ### the original (pre-repair) `Shape::Slope` formula -/

/-- the ORIGINAL Rust formula of `qi()` for `Shape::Slope(s)`: it uses the pass-band `gain` where the cookbook has
    the shelf amplitude `A = √shelf` -/
noncomputable def qi_slope_original (gain s : ℝ) : ℝ := √((gain + 1 / gain) * (1 / s - 1) + 2)

/-- `qi()` of the original code for all three shapes -/
noncomputable def FilterCfg.qiOriginal (f : FilterCfg ℝ) : ℝ :=
  match f.shape with
  | .q v => 1 / v
  | .bandwidth bw => 2 * Real.sinh (Real.log 2 / 2 * bw * f.frequency / Real.sin f.frequency)
  | .slope s => qi_slope_original f.gain s

/-- the original code differs from the model only for `Shape::Slope` -/
theorem qiOriginal_eq_qi_of_not_slope (f : FilterCfg ℝ) (h : ∀ s, f.shape ≠ .slope s) :
    f.qiOriginal = f.qi realOps := by
  cases f with
  | mk w g sh shape =>
    cases shape with
    | q v => simp [FilterCfg.qiOriginal, FilterCfg.qi]
    | bandwidth v => simp [FilterCfg.qiOriginal, FilterCfg.qi]
    | slope s => exact absurd rfl (h s)

/-- the two formulas agree when the gain equals the shelf amplitude -/
theorem qiOriginal_eq_qi_of_gain (w sh s : ℝ) :
    (FilterCfg.mk w (√sh) sh (.slope s)).qiOriginal = (FilterCfg.mk w (√sh) sh (.slope s)).qi realOps := by
  simp [FilterCfg.qiOriginal, FilterCfg.qi, qi_slope_original]

/-- the low-shelf coefficient set as a function of `(cos w0, alpha, A = √shelf, gain)` -/
noncomputable def lowshelfOf (c α A g : ℝ) : BA ℝ :=
  ((A * g * (A + 1 - (A - 1) * c + 2 * √A * α),
    2 * A * g * (A - 1 - (A + 1) * c),
    A * g * (A + 1 - (A - 1) * c - 2 * √A * α)),
   (A + 1 + (A - 1) * c + 2 * √A * α, -2 * (A - 1 + (A + 1) * c), A + 1 + (A - 1) * c - 2 * √A * α))

theorem lowshelf_eq_of (f : FilterCfg ℝ) :
    f.lowshelf realOps = lowshelfOf (Real.cos f.frequency) (1 / 2 * Real.sin f.frequency * f.qi realOps)
      (√f.shelf) f.gain := by
  rw [lowshelf_eq]; rfl

/-- low shelf of the ORIGINAL code: the same formulas with `qi` replaced by `qiOriginal` -/
noncomputable def FilterCfg.lowshelfOriginal (f : FilterCfg ℝ) : BA ℝ :=
  lowshelfOf (Real.cos f.frequency) (1 / 2 * Real.sin f.frequency * f.qiOriginal) (√f.shelf) f.gain

/-- with the original formula the poles DO move with the gain: `shelf = 4`, slope `1/2`, `w0 = π/2`,
    gain `1` versus gain `2` give different normalised `a1/a0` (`−2/(3+2√2)` versus `−1/3`) -/
theorem qi_slope_original_poles_move :
    let r1 := (FilterCfg.mk (π / 2) 1 4 (.slope (1 / 2))).lowshelfOriginal
    let r2 := (FilterCfg.mk (π / 2) 2 4 (.slope (1 / 2))).lowshelfOriginal
    r1.2.2.1 / r1.2.1 ≠ r2.2.2.1 / r2.2.1 := by
  have h4 : √(4 : ℝ) = 2 := by
    rw [show (4 : ℝ) = 2 ^ 2 by norm_num, Real.sqrt_sq (by norm_num)]
  have hq1 : qi_slope_original 1 (1 / 2) = √4 := by
    unfold qi_slope_original; norm_num
  have hq2 : qi_slope_original 2 (1 / 2) = √(9 / 2) := by
    unfold qi_slope_original; norm_num
  simp only [FilterCfg.lowshelfOriginal, lowshelfOf, FilterCfg.qiOriginal, Real.cos_pi_div_two, Real.sin_pi_div_two,
    hq1, hq2, h4]
  have h2 : 0 < √(2 : ℝ) := Real.sqrt_pos.mpr (by norm_num)
  have h92 : 0 ≤ √(9 / 2 : ℝ) := Real.sqrt_nonneg _
  intro h
  rw [div_eq_div_iff (by positivity) (by positivity)] at h
  have hα : √(9 / 2 : ℝ) = 2 := by
    have : √(2 : ℝ) * (√(9 / 2 : ℝ) - 2) = 0 := by nlinarith
    rcases mul_eq_zero.mp this with h' | h'
    · exact absurd h' h2.ne'
    · linarith
  have := Real.sq_sqrt (show (0 : ℝ) ≤ 9 / 2 by norm_num)
  rw [hα] at this
  norm_num at this

/-- in the repaired model the same two configurations have identical denominators -/
example :
    ((FilterCfg.mk (π / 2) 1 4 (.slope (1 / 2))).lowshelf realOps).2 =
    ((FilterCfg.mk (π / 2) 2 4 (.slope (1 / 2))).lowshelf realOps).2 := by
  have := build_gain_scale_aux (FilterCfg.mk (π / 2) 1 4 (.slope (1 / 2))) 2 6
  simp only [FilterCfg.build, mul_one, scaleB] at this
  rw [this]

/-- original formula: for a negative gain and slope `s < 1/2` the radicand is negative (NaN in floating point) -/
theorem qi_slope_original_radicand_neg (g s : ℝ) (hg : g < 0) (hs : 0 < s) (hs2 : s < 1 / 2) :
    (g + 1 / g) * (1 / s - 1) + 2 < 0 := by
  have h1 : g + 1 / g ≤ -2 := by
    have hg0 : g ≠ 0 := hg.ne
    have : g + 1 / g + 2 = (g + 1) ^ 2 / g := by field_simp; ring
    have h2 : (g + 1) ^ 2 / g ≤ 0 := div_nonpos_of_nonneg_of_nonpos (sq_nonneg _) hg.le
    linarith
  have h3 : 2 < 1 / s := by
    rw [lt_div_iff₀ hs]; linarith
  nlinarith

end Idsp
