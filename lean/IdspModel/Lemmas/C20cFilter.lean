import IdspModel.Props.C20
import IdspModel.Model.Filter
/-!
# Helper lemmas for `Props/C20c.lean`, `filter.rs` glue types

`Lowpass<1>` as a stage (its output is an `i32` again), and the induction over the stages of `Repeat<N, Lowpass<1>>`.
-/
namespace Idsp

theorem c20c_lpGet_in (s : Int) : inI 32 (lpGet s) = true := wrapI_in (by decide) _

/-- one `Lowpass<1>` stage, either profile: every `i64` state, every `i32` sample, every gain `1 ≤ k ≤ 2^31 − 1`:
    returns, the new state is an `i64`, the output is an `i32` between the previous output and the input -/
theorem c20c_lp1_stage (m : Mode) (s x k : Int) (hs : inI 64 s = true) (hx : inI 32 x = true)
    (hk0 : 1 ≤ k) (hk1 : k ≤ 2 ^ 31 - 1) :
    ∃ s' y, lp1Update m s x k = .ok (s', y) ∧ inI 64 s' = true ∧ inI 32 y = true ∧
      min (lpGet s) x ≤ y ∧ y ≤ max (lpGet s) x := by
  obtain ⟨s', y, h, hs', h1, h2, -, -⟩ := lp1_between m s x k hs hx hk0 hk1
  refine ⟨s', y, h, hs', ?_, h1, h2⟩
  have hg := inI_iff.mp (c20c_lpGet_in s)
  have hx' := inI_iff.mp hx
  rw [inI_iff]
  simp only [Int.min_def, Int.max_def] at h1 h2
  constructor
  · split at h1 <;> omega
  · split at h2 <;> omega

/-- `Repeat<N, Lowpass<1>>`, any number of stages -/
theorem c20c_repeat_lp1 (m : Mode) (ss : List Int) (x k : Int) (hss : ∀ s ∈ ss, inI 64 s = true)
    (hx : inI 32 x = true) (hk0 : 1 ≤ k) (hk1 : k ≤ 2 ^ 31 - 1) :
    ∃ ss' y, repeatLp1Update m ss x k = .ok (ss', y) ∧ ss'.length = ss.length ∧
      (∀ s ∈ ss', inI 64 s = true) ∧ inI 32 y = true := by
  induction ss generalizing x with
  | nil =>
    refine ⟨[], x, rfl, rfl, ?_, hx⟩
    intro s hs; cases hs
  | cons s ss ih =>
    obtain ⟨s', y, h, hs', hy, -, -⟩ :=
      c20c_lp1_stage m s x k (hss s (List.mem_cons_self ..)) hx hk0 hk1
    obtain ⟨ss', z, h2, hl, hss', hz⟩ := ih y (fun t ht => hss t (List.mem_cons_of_mem _ ht)) hy
    refine ⟨s' :: ss', z, ?_, by simp [hl], ?_, hz⟩
    · simp only [repeatLp1Update, h, h2, bind_ok']
    · intro t ht
      simp only [List.mem_cons] at ht
      rcases ht with rfl | ht
      · exact hs'
      · exact hss' t ht

end Idsp
