import IdspModel.Model.Rpll
import IdspModel.Lemmas.Basic
import IdspModel.Lemmas.Eval
/-! Closed form of one `RPLL::update` (model `RPLL.update`) under the exact no-panic side conditions. Core Lean only. -/
namespace Idsp

theorem two_pow_lt {a b : Nat} (h : a < b) : (2 : Int) ^ a < 2 ^ b := by
  have := Nat.pow_lt_pow_right (by decide : 1 < 2) h
  exact_mod_cast this

theorem two_pow_dvd {a b : Nat} (h : a ≤ b) : (2 : Int) ^ a ∣ 2 ^ b := by
  have := Nat.pow_dvd_pow 2 h
  exact_mod_cast this

theorem two_pow_add (a b : Nat) : (2 : Int) ^ (a + b) = 2 ^ a * 2 ^ b := Int.pow_add 2 a b

/-- `n & (2^k − 1) = n mod 2^k` transported to the `Int`/`toNat` form used by the model -/
theorem land_mask (a : Int) (n : Nat) (ha : 0 ≤ a) :
    Int.ofNat (a.toNat &&& ((2 : Int) ^ n - 1).toNat) = a % 2 ^ n := by
  have h1 : ((2 : Int) ^ n - 1).toNat = 2 ^ n - 1 := by
    have := Int.toNat_sub (2 ^ n) 1
    rw [← this]; simp
  rw [h1, Nat.and_two_pow_sub_one_eq_mod]
  have : (a.toNat : Int) = a := Int.toNat_of_nonneg ha
  simp only [Int.ofNat_eq_natCast, Int.natCast_emod, this, Int.natCast_pow]
  rfl

theorem wrapU_of_in {w : Nat} {z : Int} (h0 : 0 ≤ z) (h1 : z < 2 ^ w) : wrapU w z = z :=
  Int.emod_eq_of_lt h0 h1

theorem wrapU_bounds (w : Nat) (z : Int) : 0 ≤ wrapU w z ∧ wrapU w z < 2 ^ w :=
  ⟨Int.emod_nonneg _ (Int.ne_of_gt (two_pow_pos w)), Int.emod_lt_of_pos _ (two_pow_pos w)⟩

theorem wrapU_in (w : Nat) (z : Int) : inU w (wrapU w z) = true :=
  inU_iff.mpr (wrapU_bounds w z)

theorem emod_pow_emod (a : Int) {n k : Nat} (h : n ≤ k) : a % 2 ^ k % 2 ^ n = a % 2 ^ n :=
  Int.emod_emod_of_dvd a (two_pow_dvd h)

theorem mul_bounds_nonneg {a b A B : Int} (ha0 : 0 ≤ a) (ha : a ≤ A) (hb0 : 0 ≤ b) (hb : b ≤ B) :
    0 ≤ a * b ∧ a * b ≤ A * B :=
  ⟨Int.mul_nonneg ha0 hb0, Int.mul_le_mul ha hb hb0 (by omega)⟩

/-- The state after one `update(Some(x), sf, sp)`, given the exact value `p` of the 64-bit product
    `self.ff as u64 * dx as u64` (all shifts are floor divisions by powers of two, all other operations wrap). -/
def RPLL.nextP (s : RPLL) (p : Int) (x sf sp : Int) : RPLL :=
  let y := wrapI 32 (s.y + wrapI 32 s.f)
  let pSig := wrapU 32 ((p + 2 ^ (sf - 1).toNat) / 2 ^ sf.toNat)
  let pRef := 2 ^ (32 + s.dt2 - sf).toNat
  let ff := wrapU 32 (s.ff + wrapU 32 (pRef - pSig))
  let dt := (-x) % 2 ^ s.dt2.toNat
  let yRef := wrapI 32 (s.f / 2 ^ s.dt2.toNat * dt)
  let dy := wrapI 32 (yRef - y) / 2 ^ (sp - s.dt2).toNat
  { s with x := x, ff := ff, f := wrapU 32 (ff + wrapU 32 dy), y := y }

/-- The state after one `update(Some(x), sf, sp)` when the timestamp difference `dx` is non-negative:
    `dx = x −w self.x`, `p_sig = ((ff·dx + 2^(sf−1)) >> sf) as u32`, `p_ref = 2^(32+dt2−sf)`,
    `ff' = ff +w (p_ref −w p_sig)`, `dt = (−x) mod 2^dt2`, `y_ref = (f >> dt2) ·w dt`,
    `dy = (y_ref −w y') >> (sp − dt2)`, `f' = ff' +w dy`, `y' = y +w f`. -/
def RPLL.next (s : RPLL) (x sf sp : Int) : RPLL := s.nextP (s.ff * wrapI 32 (x - s.x)) x sf sp

/-- The state after one `update(None, sf, sp)`: only the phase advances. -/
def RPLL.nextNone (s : RPLL) : RPLL := { s with y := wrapI 32 (s.y + wrapI 32 s.f) }

/-- `u32`/`i32` ranges of the fields (`dt2` only needs to be a valid `u32` here). -/
def RPLL.inRange (s : RPLL) : Prop :=
  inU 32 s.dt2 = true ∧ inI 32 s.x = true ∧ inU 32 s.ff = true ∧ inU 32 s.f = true ∧ inI 32 s.y = true

theorem rpll_update_none_eq (m : Mode) (s : RPLL) (sf sp : Int) (hsf : s.dt2 ≤ sf) (hsp : s.dt2 ≤ sp) :
    RPLL.update m s none sf sp = .ok (s.nextNone, s.nextNone.y, s.nextNone.f) := by
  unfold RPLL.update RPLL.nextNone
  have a1 : decide (sf ≥ s.dt2) = true := by simp; omega
  have a2 : decide (sp ≥ s.dt2) = true := by simp; omega
  simp only [a1, a2, dbgAssert_true, bind_ok']

/-- evaluation of the `Some` branch: the only hypotheses are the exact no-panic conditions
    (`hsum`: neither the `u64` product nor the addition of the rounding bias overflows) -/
theorem rpll_update_some_eqP (m : Mode) (s : RPLL) (x sf sp : Int)
    (hd0 : 0 ≤ s.dt2) (hd1 : s.dt2 ≤ 30) (hsf0 : s.dt2 < sf) (hsf1 : sf ≤ 32)
    (hsp0 : s.dt2 ≤ sp) (hsp1 : sp - s.dt2 < 32)
    (hp0 : 0 ≤ s.ff * wrapU 64 (wrapI 32 (x - s.x)))
    (hsum : s.ff * wrapU 64 (wrapI 32 (x - s.x)) + 2 ^ (sf - 1).toNat < 2 ^ 64) :
    RPLL.update m s (some x) sf sp =
      .ok (s.nextP (s.ff * wrapU 64 (wrapI 32 (x - s.x))) x sf sp,
           (s.nextP (s.ff * wrapU 64 (wrapI 32 (x - s.x))) x sf sp).y,
           (s.nextP (s.ff * wrapU 64 (wrapI 32 (x - s.x))) x sf sp).f) := by
  have hb : (2 : Int) ^ (sf - 1).toNat ≤ 2 ^ 31 := two_pow_mono (by omega)
  have hb0 := two_pow_pos (sf - 1).toNat
  simp only [Int.reducePow] at hsum hb
  unfold RPLL.update RPLL.nextP
  have a1 : decide (sf ≥ s.dt2) = true := by simp; omega
  have a2 : decide (sp ≥ s.dt2) = true := by simp; omega
  simp only [a1, a2, dbgAssert_true, bind_ok']
  rw [arithU64_ok hp0 (by omega)]
  rw [bind_ok']
  rw [arithU32_ok (show 0 ≤ sf - 1 by omega) (by omega)]
  rw [bind_ok']
  rw [shlU_ok (show 0 ≤ sf - 1 by omega) (by omega)]
  rw [bind_ok', Int.one_mul]
  rw [wrapU_of_in (Int.le_of_lt hb0) (by omega)]
  rw [arithU64_ok (by omega) hsum]
  rw [bind_ok']
  rw [shrC_ok (by omega) (by omega)]
  rw [bind_ok']
  rw [arithU32_ok (show 0 ≤ 32 + s.dt2 by omega) (by omega)]
  rw [bind_ok']
  rw [arithU32_ok (show 0 ≤ 32 + s.dt2 - sf by omega) (by omega)]
  rw [bind_ok']
  rw [shlU_ok (show 0 ≤ 32 + s.dt2 - sf by omega) (by omega)]
  rw [bind_ok', Int.one_mul]
  have he : (2 : Int) ^ (32 + s.dt2 - sf).toNat ≤ 2 ^ 31 := two_pow_mono (by omega)
  have he0 := two_pow_pos (32 + s.dt2 - sf).toNat
  rw [wrapU_of_in (Int.le_of_lt he0) (by omega)]
  rw [shlI_ok hd0 (by omega)]
  rw [bind_ok', Int.one_mul]
  have hm : (2 : Int) ^ s.dt2.toNat ≤ 2 ^ 30 := two_pow_mono (by omega)
  have hm0 := two_pow_pos s.dt2.toNat
  rw [wrapI32_id (by omega) (by omega)]
  rw [arithI32_ok (by omega) (by omega)]
  rw [bind_ok']
  rw [wrapU_of_in (show 0 ≤ (2 : Int) ^ s.dt2.toNat - 1 by omega) (by omega)]
  rw [land_mask _ _ (wrapU_bounds 32 (-x)).1]
  rw [wrapU, emod_pow_emod _ (show s.dt2.toNat ≤ 32 by omega)]
  rw [shrC_ok hd0 (by omega)]
  rw [bind_ok']
  rw [arithU32_ok (show 0 ≤ sp - s.dt2 by omega) (by omega)]
  rw [bind_ok']
  rw [shrC_ok (by omega) (by omega)]
  rw [bind_ok']

/-- evaluation of the `Some` branch for a non-negative timestamp difference -/
theorem rpll_update_some_eq (m : Mode) (s : RPLL) (x sf sp : Int)
    (hff : inU 32 s.ff = true)
    (hd0 : 0 ≤ s.dt2) (hd1 : s.dt2 ≤ 30) (hsf0 : s.dt2 < sf) (hsf1 : sf ≤ 32)
    (hsp0 : s.dt2 ≤ sp) (hsp1 : sp - s.dt2 < 32)
    (hdx : 0 ≤ wrapI 32 (x - s.x)) :
    RPLL.update m s (some x) sf sp = .ok (s.next x sf sp, (s.next x sf sp).y, (s.next x sf sp).f) := by
  have ⟨hff0, hff1⟩ := inU_iff.mp hff
  have hdxi := inI_iff.mp (wrapI_in (by decide : 0 < 32) (x - s.x))
  simp only [show (32 : Nat) - 1 = 31 from rfl, Int.reducePow, Int.reduceNeg] at hff0 hff1 hdxi
  have hw : wrapU 64 (wrapI 32 (x - s.x)) = wrapI 32 (x - s.x) :=
    wrapU_of_in hdx (by simp only [Int.reducePow]; omega)
  have hp := mul_bounds_nonneg hff0 (show s.ff ≤ 4294967295 by omega) hdx
    (show wrapI 32 (x - s.x) ≤ 2147483647 by omega)
  have hb : (2 : Int) ^ (sf - 1).toNat ≤ 2 ^ 31 := two_pow_mono (by omega)
  have := rpll_update_some_eqP m s x sf sp hd0 hd1 hsf0 hsf1 hsp0 hsp1 (by rw [hw]; exact hp.1)
    (by rw [hw]; simp only [Int.reducePow] at hb ⊢; omega)
  rw [hw] at this
  exact this

/-- the new state of a `Some` update is in range whenever the old one and the timestamp are -/
theorem rpll_nextP_inRange (s : RPLL) (p x sf sp : Int) (hs : s.inRange) (hx : inI 32 x = true) :
    (s.nextP p x sf sp).inRange :=
  ⟨hs.1, hx, wrapU_in 32 _, wrapU_in 32 _, wrapI_in (by decide) _⟩

theorem rpll_nextNone_inRange (s : RPLL) (hs : s.inRange) : s.nextNone.inRange :=
  ⟨hs.1, hs.2.1, hs.2.2.1, hs.2.2.2.1, wrapI_in (by decide) _⟩

end Idsp
