import IdspModel.Model.Pll
import IdspModel.Lemmas.PllLock
/-!
# C06 — the PLL locks from any history, holds on gaps, never panics

Property theorems only (helper lemmas live in `IdspModel/Lemmas/Pll*.lean`).

Notation (defined in `Lemmas/PllStep.lean`): `s.feed k F` is one `update (some x) k` whose input `x` advanced by
`F` since the previous input (`x = wrapI 32 (s.x + F)`); `PLL.track k F n s` iterates it `n` times;
`s.g F = wrapI 64 (s.f − F·2^32)` is the frequency residue, `s.h = wrapI 64 (s.y − s.x·2^32)` the phase residue;
`pllT k v = wrapI 64 (v + 2·(wrapI 32 (−(v >> 32))·k))` is the map both integrators run.
-/
namespace Idsp

/-! ## 1. Totality: no sequence of inputs and gains ever panics -/

/-- The only non-wrapping operation of `update`, `(e as i64) * (k as i64)` with `e, k : i32`, cannot overflow
    `i64`: the product is at most `2^62` in magnitude. Every other operation is `wrapping_*`, a shift by the
    constant 32, or an `as` cast; this is why the model needs no `Except`. -/
theorem pll_mul_fits (e k : Int) (he : inI 32 e = true) (hk : inI 32 k = true) :
    -2 ^ 62 ≤ e * k ∧ e * k ≤ 2 ^ 62 ∧ inI 64 (e * k) = true := by
  rw [inI_iff] at he hk
  obtain ⟨he0, he1⟩ := he
  obtain ⟨hk0, hk1⟩ := hk
  norm_num at he0 he1 hk0 hk1
  have h1 : -2 ^ 62 ≤ e * k := by
    nlinarith [mul_nonneg (show (0 : Int) ≤ 2147483648 + e by omega) (show (0 : Int) ≤ 2147483648 + k by omega),
      mul_nonneg (show (0 : Int) ≤ 2147483648 - e by omega) (show (0 : Int) ≤ 2147483648 - k by omega)]
  have h2 : e * k ≤ 2 ^ 62 := by
    nlinarith [mul_nonneg (show (0 : Int) ≤ 2147483648 + e by omega) (show (0 : Int) ≤ 2147483648 - k by omega),
      mul_nonneg (show (0 : Int) ≤ 2147483648 - e by omega) (show (0 : Int) ≤ 2147483648 + k by omega)]
  refine ⟨h1, h2, ?_⟩
  rw [inI_iff]; omega

/-- `update` is a total function on in-range states: for every state whose fields are inside their Rust types,
    every input (`None` or any `i32` sample) and EVERY gain, the new state is again inside the types. -/
theorem pll_total (s : PLL) (x : Option Int) (k : Int) (hs : s.inRange)
    (hx : ∀ v, x = some v → inI 32 v = true) : (s.update x k).inRange := by
  obtain ⟨h1, h2, h3, h4, h5⟩ := hs
  cases x with
  | none =>
    exact ⟨wrapI_in (by decide) _, wrapI_in (by decide) _, h3, h4, wrapI_in (by decide) _⟩
  | some v =>
    exact ⟨hx v rfl, wrapI_in (by decide) _, wrapI_in (by decide) _, wrapI_in (by decide) _,
      wrapI_in (by decide) _⟩

/-! ## 2. Missing samples -/

/-- An update with a missing sample changes nothing but advances the phase estimate (and the remembered input
    phase) by exactly the frequency estimate, wrapping; the phase integrator advances by the frequency
    integrator. The frequency estimate `f0` and the frequency integrator `f` are untouched. -/
theorem pll_gap (s : PLL) (k : Int) :
    let s' := s.update none k
    s'.f0 = s.f0 ∧ s'.f = s.f ∧
    s'.y0 = wrapI 32 (s.y0 + s.f0) ∧ s'.x = wrapI 32 (s.x + s.f0) ∧ s'.y = wrapI 64 (s.y + s.f) ∧
    s'.phase = wrapI 32 (s.phase + s.frequency) ∧ s'.frequency = s.frequency :=
  ⟨rfl, rfl, rfl, rfl, rfl, rfl, rfl⟩

/-- Any number `n` of consecutive missing samples (with arbitrary, possibly different gains — the gain is not
    used): the frequency estimate is held and the phase estimate advances by `n·f0` modulo `2^32`. -/
theorem pll_gap_iter (ks : List Int) (s : PLL) (hs : s.inRange) :
    let s' := ks.foldl (fun s k => s.update none k) s
    s'.f0 = s.f0 ∧ s'.f = s.f ∧
    s'.y0 = wrapI 32 (s.y0 + ks.length * s.f0) ∧ s'.x = wrapI 32 (s.x + ks.length * s.f0) ∧
    s'.y = wrapI 64 (s.y + ks.length * s.f) := by
  induction ks generalizing s with
  | nil =>
    simp only [List.foldl_nil, List.length_nil, Int.natCast_zero, Int.zero_mul, Int.add_zero]
    obtain ⟨h1, h2, _, _, h5⟩ := hs
    exact ⟨trivial, trivial, (wrapI_of_in (by decide) h2).symm, (wrapI_of_in (by decide) h1).symm,
      (wrapI_of_in (by decide) h5).symm⟩
  | cons k ks ih =>
    have h := ih (s.update none k) (pll_total s none k hs (by intro v hv; cases hv))
    simp only [List.foldl_cons, List.length_cons] at h ⊢
    obtain ⟨a, b, c, d, e⟩ := h
    refine ⟨a, b, ?_, ?_, ?_⟩
    · rw [c]; show wrapI 32 (wrapI 32 (s.y0 + s.f0) + _ * s.f0) = _
      rw [wrapI_add_wrapI_left]; congr 1; push_cast; rw [Int.add_mul]; omega
    · rw [d]; show wrapI 32 (wrapI 32 (s.x + s.f0) + _ * s.f0) = _
      rw [wrapI_add_wrapI_left]; congr 1; push_cast; rw [Int.add_mul]; omega
    · rw [e]; show wrapI 64 (wrapI 64 (s.y + s.f) + _ * s.f) = _
      rw [wrapI_add_wrapI_left]; congr 1; push_cast; rw [Int.add_mul]; omega


/-! ## 3. Decoupling and monotone descent of the frequency residue -/

/-- Decoupling: when the input advanced by `F` (any `i32`) since the previous sample, the frequency residue
    `g = f − F·2^32 (mod 2^64)` after the update is `pllT k g = g + 2k·wrap32(−(g >> 32)) (mod 2^64)`; it does not
    depend on the phase variables `x, y, y0, f0`, nor on any range assumption on state or gain. -/
theorem pll_freq_decoupled (s : PLL) (F k : Int) (hF : inI 32 F = true) :
    (s.update (some (wrapI 32 (s.x + F))) k).g F
      = wrapI 64 (s.g F + 2 * (wrapI 32 (-(s.g F / 2 ^ 32)) * k)) :=
  feed_g s F k hF

/-- Monotone descent of the frequency residue for `2^8 ≤ k < 2^31`, `G = g >> 32`:
    `G ≥ 0`: `g' = g − 2kG ∈ [0, g]`, strictly smaller by at least `2k` when `G ≥ 1`; `G = 0`: fixed point;
    `−2^31 < G < 0`: `g < g' = g + 2k|G| < 2^32`;
    the single wrapping high word `G = −2^31`: `g' = g + 2^64 − k·2^32`, a positive value (one extra step). -/
theorem pll_freq_descent (k g : Int) (hk0 : 2 ^ 8 ≤ k) (hk1 : k < 2 ^ 31)
    (hg0 : -2 ^ 63 ≤ g) (hg1 : g < 2 ^ 63) :
    (0 ≤ g / 2 ^ 32 → pllT k g = g - 2 * (k * (g / 2 ^ 32)) ∧ 0 ≤ pllT k g ∧ pllT k g ≤ g) ∧
    (1 ≤ g / 2 ^ 32 → pllT k g ≤ g - 2 * k) ∧
    (g / 2 ^ 32 = 0 → pllT k g = g) ∧
    (-2 ^ 31 < g / 2 ^ 32 → g / 2 ^ 32 < 0 →
      pllT k g = g - 2 * (k * (g / 2 ^ 32)) ∧ g < pllT k g ∧ pllT k g < 2 ^ 32) ∧
    (g / 2 ^ 32 = -2 ^ 31 → pllT k g = g + 2 ^ 64 - k * 2 ^ 32 ∧ 0 < pllT k g ∧ pllT k g < 2 ^ 63) := by
  have ⟨hp, hn⟩ := kmul_env hk0 hk1 (g / 2 ^ 32)
  refine ⟨?_, ?_, ?_, ?_, ?_⟩
  · intro hG
    have := hp hG
    rw [pllT_eq hk0 hk1 (by omega) hg1]
    refine ⟨rfl, by omega, by omega⟩
  · intro hG
    have := hp (by omega)
    have hk : k * 1 ≤ k * (g / 2 ^ 32) := Int.mul_le_mul_of_nonneg_left hG (by omega)
    rw [pllT_eq hk0 hk1 (by omega) hg1]
    omega
  · intro hG
    exact pllT_fix (by omega) (by omega)
  · intro hG0 hG1
    have := hn (by omega)
    rw [pllT_eq hk0 hk1 (by omega) hg1]
    refine ⟨rfl, by omega, by omega⟩
  · intro hG
    have h1 : wrapI 32 (-(g / 2 ^ 32)) = -2 ^ 31 := by rw [hG]; decide
    unfold pllT
    rw [h1]
    unfold wrapI; omega

/-- The sketch's simplified claims "`g' = g − 2k·wrap32(g >> 32)`" and "`G < 0 ⇒ g < g' < 2^32`" are false at the
    wrapping high word `G = −2^31` (they hold everywhere else, see `pll_freq_descent`): witness `g = −2^63`,
    `k = 256`. -/
example : pllT 256 (-2 ^ 63) ≠ wrapI 64 (-2 ^ 63 - 2 * 256 * wrapI 32 ((-2 ^ 63) / 2 ^ 32)) ∧
    ¬ pllT 256 (-2 ^ 63) < 2 ^ 32 := by decide

/-! ## 4. The locked set -/

/-- Inside the locked set the phase estimate is within `2^31/k + 2` LSB of the input phase (in fact the error is
    in `[0, 2^31/k + 1]`), and after one further update (i.e. when the previous state was locked as well: `f0` is
    the difference of two successive phase outputs) the frequency estimate is within 1 LSB of `F`. -/
theorem pll_locked_bounds (k F : Int) (hk0 : 2 ^ 8 ≤ k) (hk1 : k < 2 ^ 31) (hF : inI 32 F = true)
    (s : PLL) (h : Locked k F s) :
    (0 ≤ wrapI 32 (s.y0 - s.x) ∧ wrapI 32 (s.y0 - s.x) ≤ 2 ^ 31 / k + 1) ∧
    (-(2 ^ 31 / k + 2) ≤ wrapI 32 (s.phase - s.x) ∧ wrapI 32 (s.phase - s.x) ≤ 2 ^ 31 / k + 2) ∧
    (-1 ≤ wrapI 32 ((s.update (some (wrapI 32 (s.x + F))) k).frequency - F) ∧
      wrapI 32 ((s.update (some (wrapI 32 (s.x + F))) k).frequency - F) ≤ 1) := by
  have hp := locked_phase hk0 hk1 h
  have hq : (0 : Int) ≤ 2 ^ 31 / k := Int.ediv_nonneg (by decide) (by omega)
  refine ⟨hp, ⟨?_, ?_⟩, locked_freq hk0 hk1 hF h⟩
  · show _ ≤ wrapI 32 (s.y0 - s.x); omega
  · show wrapI 32 (s.y0 - s.x) ≤ _; omega

/-- "…and they stay there": the locked set is invariant under every further update whose input advanced by `F`. -/
theorem pll_locked_invariant (k F : Int) (hk0 : 2 ^ 8 ≤ k) (hk1 : k < 2 ^ 31) (hF : inI 32 F = true)
    (s : PLL) (h : Locked k F s) : Locked k F (s.update (some (wrapI 32 (s.x + F))) k) :=
  locked_feed hk0 hk1 hF h

/-- non-vacuity: a concrete locked state with non-trivial residues
    (`k = 2^24`, `F = 0x71f63049`, `g = 0x12345678`, `c = 9`, `m = 10`) -/
example : Locked (2 ^ 24) 0x71f63049 ⟨1000, 1009, 0x71f63049, 0x71f63049 * 2 ^ 32 + 0x12345678,
    (1000 + 10) * 2 ^ 32 - 20 * 2 ^ 24 + 77⟩ := by decide

/-! ## 5. Lock acquisition from any history -/

/-- From an ARBITRARY state (any prior history of inputs, gains and missed samples), for every gain
    `2^8 ≤ k < 2^31` and every input increment `F : i32`, after `n ≥ 65·⌊2^31/k⌋ + 69` updates with inputs
    advancing by `F` the state is in the locked set and the frequency estimate is within 1 LSB; this holds for
    every such `n`, i.e. "they stay there". -/
theorem pll_locks_sharp (k F : Int) (hk0 : 2 ^ 8 ≤ k) (hk1 : k < 2 ^ 31) (hF : inI 32 F = true)
    (s : PLL) (n : Nat) (hn : 65 * (2 ^ 31 / k) + 69 ≤ (n : Int)) :
    Locked k F (PLL.track k F n s) ∧
    -1 ≤ wrapI 32 ((PLL.track k F n s).f0 - F) ∧ wrapI 32 ((PLL.track k F n s).f0 - F) ≤ 1 := by
  have hP := (pllP_spec hk0).2
  have hn' : 65 * pllP k + 3 ≤ n - 1 := by omega
  have hl := track_locked hk0 hk1 hF s hn'
  obtain ⟨m, rfl⟩ : ∃ m, n = m + 1 := ⟨n - 1, by omega⟩
  rw [track_succ']
  exact ⟨locked_feed hk0 hk1 hF hl, locked_freq hk0 hk1 hF hl⟩

/-- `pll_locks` with the step bound of the property statement, `64·⌊2^32/k⌋ + 64`
    (`≤ (64·2^32)/k + 64`, and about twice what `pll_locks_sharp` needs). -/
theorem pll_locks (k F : Int) (hk0 : 2 ^ 8 ≤ k) (hk1 : k < 2 ^ 31) (hF : inI 32 F = true)
    (s : PLL) (n : Nat) (hn : 64 * (2 ^ 32 / k) + 64 ≤ (n : Int)) :
    Locked k F (PLL.track k F n s) ∧
    -1 ≤ wrapI 32 ((PLL.track k F n s).f0 - F) ∧ wrapI 32 ((PLL.track k F n s).f0 - F) ≤ 1 := by
  have hP := (pllP_spec hk0).2
  have := pllP_bound hk0 hk1 hn
  exact pll_locks_sharp k F hk0 hk1 hF s n (by omega)

/-- C06 in plain input/output terms. Take ANY in-range state `s` (any prior history), any gain
    `2^8 ≤ k < 2^31`, any `F : i32` and any first sample `x₁ : i32`; feed the `n + 1` samples
    `x₁, x₁+F, x₁+2F, …, x₁+nF` (wrapping), with `n + 1 ≥ 64·⌊2^32/k⌋ + 64`. Then the state is in range, the last
    input is `x₁ + nF`, `frequency()` is within 1 LSB of `F` and `phase()` within `2^31/k + 2` LSB of the last
    input phase, both modulo `2^32`. Because `n` is arbitrary above the bound, they stay there. -/
theorem pll_C06 (k F x1 : Int) (hk0 : 2 ^ 8 ≤ k) (hk1 : k < 2 ^ 31) (hF : inI 32 F = true)
    (hx1 : inI 32 x1 = true) (s : PLL) (hs : s.inRange) (n : Nat) (hn : 64 * (2 ^ 32 / k) + 64 ≤ (n : Int) + 1) :
    let s' := s.feedList k (x1 :: constFreqInputs F x1 n)
    s'.inRange ∧ s'.x = wrapI 32 (x1 + n * F) ∧
    (-1 ≤ wrapI 32 (s'.frequency - F) ∧ wrapI 32 (s'.frequency - F) ≤ 1) ∧
    (-(2 ^ 31 / k + 2) ≤ wrapI 32 (s'.phase - s'.x) ∧ wrapI 32 (s'.phase - s'.x) ≤ 2 ^ 31 / k + 2) := by
  intro s'
  have hs1 : (s.update (some x1) k).inRange := pll_total s (some x1) k hs (by intro v hv; cases hv; exact hx1)
  have e : s' = PLL.track k F n (s.update (some x1) k) := by
    show (s.update (some x1) k).feedList k (constFreqInputs F (s.update (some x1) k).x n) = _
    exact feedList_constFreq k F n _
  have hP := (pllP_spec hk0).2
  have hb := pllP_bound hk0 hk1 (n := n + 1) (by push_cast; exact hn)
  have ⟨hl, hf⟩ := pll_locks_sharp k F hk0 hk1 hF (s.update (some x1) k) n (by omega)
  have hp := locked_phase hk0 hk1 hl
  have hq : (0 : Int) ≤ 2 ^ 31 / k := Int.ediv_nonneg (by decide) (by omega)
  rw [e]
  refine ⟨?_, track_x k F n _ hx1, hf, ?_, ?_⟩
  · clear hl hf hp e hb hn
    induction n with
    | zero => exact hs1
    | succ n ih =>
      rw [track_succ']
      exact pll_total _ _ k ih (by intro v hv; cases hv; exact wrapI_in (by decide) _)
  · show _ ≤ wrapI 32 ((PLL.track k F n (s.update (some x1) k)).y0 - _); omega
  · show wrapI 32 ((PLL.track k F n (s.update (some x1) k)).y0 - _) ≤ _; omega

/-- the pinned unit test `mini`: from the default state, `update(Some(0x10000), 1 << 24)` gives
    `phase() = 0x1ff` and `frequency() = 0x1ff` -/
example : (PLL.default.update (some 0x10000) (2 ^ 24)).phase = 0x1ff ∧
    (PLL.default.update (some 0x10000) (2 ^ 24)).frequency = 0x1ff := by decide

/-- the hypotheses of `pll_C06` are satisfiable: default state, `k = 2^24`, the `converge` test's frequency -/
example : PLL.default.inRange ∧ (2 : Int) ^ 8 ≤ 2 ^ 24 ∧ (2 : Int) ^ 24 < 2 ^ 31 ∧
    inI 32 (0x71f63049 : Int) = true := by decide

end Idsp
