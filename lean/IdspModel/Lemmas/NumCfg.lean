import IdspModel.Lemmas.NumBiquad2
namespace Idsp

theorem minI_in (w : Nat) : inI w (minI w) = true := by
  have := two_pow_pos (w - 1); rw [inI_iff]; unfold minI; omega

theorem maxI_in (w : Nat) : inI w (maxI w) = true := by
  have := two_pow_pos (w - 1); rw [inI_iff]; unfold maxI; omega

theorem zero_in (w : Nat) : inI w 0 = true := by
  have := two_pow_pos (w - 1); rw [inI_iff]; omega

/-- the type range is aligned to the guard bits -/
theorem minI_aligned {w q : Nat} (hq0 : 0 < q) (hq : q ≤ w) : minI w % 2 ^ (w - q) = 0 := by
  have h : (2 : Int) ^ (w - 1) = 2 ^ (q - 1) * 2 ^ (w - q) := by rw [← Int.pow_add]; congr 1; omega
  unfold minI
  rw [h, ← Int.neg_mul]; exact Int.mul_emod_left _ _

theorem maxI_aligned {w q : Nat} (hq0 : 0 < q) (hq : q ≤ w) : maxI w % 2 ^ (w - q) = 2 ^ (w - q) - 1 := by
  have h : (2 : Int) ^ (w - 1) = 2 ^ (q - 1) * 2 ^ (w - q) := by rw [← Int.pow_add]; congr 1; omega
  have hG := two_pow_pos (w - q)
  unfold maxI
  rw [h, show (2 : Int) ^ (q - 1) * 2 ^ (w - q) - 1 = (2 ^ (w - q) - 1) + (2 ^ (q - 1) - 1) * 2 ^ (w - q) by ring,
    Int.add_mul_emod_self_right, Int.emod_eq_of_lt (by omega) (by omega)]

theorem oneQ_in {w q : Nat} (hq : q + 1 < w) : inI w (oneQ q) = true := by
  have hP := two_pow_pos q
  have : (2 : Int) ^ q < 2 ^ (w - 1) := by
    have h1 : (2 : Int) ^ (q + 1) ≤ 2 ^ (w - 1) := two_pow_mono (by omega)
    have h2 : (2 : Int) ^ (q + 1) = 2 ^ q * 2 := Int.pow_succ ..
    omega
  rw [inI_iff]; unfold oneQ; omega

theorem negOneQ_in {w q : Nat} (hq : q < w) : inI w (negOneQ q) = true := by
  have hP := two_pow_pos q
  have : (2 : Int) ^ q ≤ 2 ^ (w - 1) := two_pow_mono (by omega)
  rw [inI_iff]; unfold negOneQ; omega

theorem proportional_inRange {w : Nat} {k : Int} (hk : inI w k = true) :
    (BiquadCfg.proportional w k).inRange w :=
  ⟨hk, zero_in w, zero_in w, zero_in w, zero_in w, zero_in w, minI_in w, maxI_in w⟩

theorem proportional_aligned {w q : Nat} (hq0 : 0 < q) (hq : q ≤ w) (k : Int) :
    (BiquadCfg.proportional w k).aligned w q := ⟨minI_aligned hq0 hq, maxI_aligned hq0 hq⟩

theorem hold_inRange {w q : Nat} (hq : q < w) : (BiquadCfg.hold w q).inRange w :=
  ⟨zero_in w, zero_in w, zero_in w, negOneQ_in hq, zero_in w, zero_in w, minI_in w, maxI_in w⟩

theorem hold_aligned {w q : Nat} (hq0 : 0 < q) (hq : q ≤ w) :
    (BiquadCfg.hold w q).aligned w q := ⟨minI_aligned hq0 hq, maxI_aligned hq0 hq⟩

theorem proportional_sum (w : Nat) (k x0 x1 x2 y1 y2 : Int) :
    (BiquadCfg.proportional w k).sum x0 x1 x2 y1 y2 = k * x0 := by
  simp [BiquadCfg.proportional, BiquadCfg.sum]

theorem hold_sum (w q : Nat) (x0 x1 x2 y1 y2 : Int) :
    (BiquadCfg.hold w q).sum x0 x1 x2 y1 y2 = 2 ^ q * y1 := by
  simp [BiquadCfg.hold, BiquadCfg.sum, negOneQ]

theorem proportional_partialFit {w : Nat} (hw : 0 < w) {k x0 : Int} (hk : inI w k = true)
    (hx0 : inI w x0 = true) (x1 x2 y1 y2 : Int) :
    (BiquadCfg.proportional w k).partialFit w x0 x1 x2 y1 y2 := by
  have := inI_mul hw hk hx0
  simp [BiquadCfg.proportional, BiquadCfg.partialFit, this]

theorem hold_partialFit {w q : Nat} (hq : q < w) {y1 : Int} (hy1 : inI w y1 = true) (x0 x1 x2 y2 : Int) :
    (BiquadCfg.hold w q).partialFit w x0 x1 x2 y1 y2 := by
  have h := inI_mul (by omega) (negOneQ_in hq) hy1
  have h' : inI (2 * w) (-(negOneQ q * y1)) = true := by
    have := inI_mul_one (Nat.le_of_lt hq) hy1
    unfold negOneQ; rwa [Int.neg_mul, Int.neg_neg, Int.mul_comm]
  simp [BiquadCfg.hold, BiquadCfg.partialFit, zero_in, h']

/-- `k·x0 + e1` fits the accumulator for in-range `k`, `x0` and a remainder `e1` -/
theorem prod_add_rem_in {w q : Nat} (hq : q < w) {k x0 e1 : Int} (hk : inI w k = true) (hx0 : inI w x0 = true)
    (he0 : 0 ≤ e1) (he1 : e1 < 2 ^ q) : inI (2 * w) (k * x0 + e1) = true := by
  have hw : 0 < w := by omega
  have ⟨h0, h1⟩ := mul_bounds hk hx0
  have hH := two_pow_pos (w - 1)
  have hle : (2 : Int) ^ q ≤ 2 ^ (w - 1) := two_pow_mono (by omega)
  have hHH : (2 : Int) ^ (w - 1) ≤ 2 ^ (w - 1) * 2 ^ (w - 1) := by nlinarith
  rw [inI_iff, two_pow_two_mul_pred' hw]
  constructor <;> nlinarith

theorem mul_add_ediv_of_rem {q : Nat} (x e1 : Int) (he0 : 0 ≤ e1) (he1 : e1 < 2 ^ q) :
    (2 ^ q * x + e1) / 2 ^ q = x ∧ (2 ^ q * x + e1) % 2 ^ q = e1 := by
  have hP := two_pow_pos q
  constructor
  · rw [Int.add_comm, Int.mul_comm, Int.add_mul_ediv_right _ _ (by omega), Int.ediv_eq_zero_of_lt he0 he1]
    omega
  · rw [Int.add_comm, Int.mul_comm, Int.add_mul_emod_self_right, Int.emod_eq_of_lt he0 he1]

end Idsp
