import IdspModel.Lemmas.LockinRecLin
import Mathlib.Analysis.Complex.ExponentialBounds
/-!
# Lock-in recovery: explicit constants of the input-to-state bound for near-Butterworth gain pairs

`LkGain α β` collects what is used about `α = k0/2^32`, `β = -k1/2^32`: small, and `β² ≈ 2α` (Butterworth) up to the
rounding of the two integer gains.  From this: `Disc ≥ 1.969·α`, contraction `λ ≤ 1 − 0.988·β`, and along any run with
disturbances bounded by `Δ`:  `E_n² ≤ (2.04/α)·λ^n·Q_0 + (2.03·Δ/α)²`.
-/
namespace Idsp

structure LkGain (α β : ℝ) : Prop where
  hα : 0 < α
  hα1 : α ≤ 1 / 16000
  hβ0 : 0 < β
  hβ1 : β ≤ 1 / 90
  hlo : 1.9999 * α ≤ β ^ 2
  hhi : β ^ 2 ≤ 2.008 * α

namespace LkGain
variable {α β : ℝ} (h : LkGain α β)
include h

theorem disc_ge : 1.969 * α ≤ lkDisc α β := by
  have h1 := h.hα; have h2 := h.hα1; have h3 := h.hβ0; have h4 := h.hβ1; have h5 := h.hhi
  unfold lkDisc
  have e1 : α * α ≤ α * (1 / 16000) := mul_le_mul_of_nonneg_left h2 h1.le
  have e2 : α * β ≤ α * (1 / 90) := mul_le_mul_of_nonneg_left h4 h1.le
  nlinarith

theorem disc_pos : 0 < lkDisc α β := by
  have := h.disc_ge; have := h.hα; linarith

theorem two_alpha_le : 2 * α ≤ 0.0112 * β := by
  have h3 := h.hβ0; have h4 := h.hβ1; have h5 := h.hlo
  have e : β * β ≤ β * (1 / 90) := mul_le_mul_of_nonneg_left h4 h3.le
  nlinarith

theorem two_alpha_lt : 2 * α < β := by
  have := h.two_alpha_le; have := h.hβ0; linarith

theorem gap_ge : 0.988 * β ≤ β - 2 * α := by
  have := h.two_alpha_le; have := h.hβ0; linarith

theorem lam_nonneg : 0 ≤ lkLam α β := by
  have := h.hα; have := h.hβ1
  unfold lkLam; apply div_nonneg <;> linarith

theorem lam_le : lkLam α β ≤ 1 - 0.988 * β := by
  have h1 := h.hβ0; have h2 := h.hβ1; have h3 := h.gap_ge
  unfold lkLam
  rw [div_le_iff₀ (by linarith)]
  nlinarith

/-- `(4(1−β)/Disc)·Q ≤ (2.04/α)·Q` for `Q ≥ 0` -/
theorem extent_const {Q : ℝ} (hQ : 0 ≤ Q) {E : ℝ} (hE : lkDisc α β * E ^ 2 ≤ 4 * (1 - β) * Q) :
    E ^ 2 ≤ 2.04 / α * Q := by
  have h1 := h.hα; have h3 := h.hβ0; have hd := h.disc_ge
  have hdp := h.disc_pos
  have e1 : 1.969 * α * E ^ 2 ≤ 4 * Q := by
    have : 1.969 * α * E ^ 2 ≤ lkDisc α β * E ^ 2 := mul_le_mul_of_nonneg_right hd (sq_nonneg E)
    nlinarith
  rw [div_mul_eq_mul_div, le_div_iff₀ h1]
  nlinarith

/-- `(4α/Disc)·Q ≤ 2.05·Q` for `Q ≥ 0` -/
theorem extent_const_s {Q : ℝ} (hQ : 0 ≤ Q) {s : ℝ} (hs : lkDisc α β * s ^ 2 ≤ 4 * α * Q) :
    s ^ 2 ≤ 2.05 * Q := by
  have h1 := h.hα; have hd := h.disc_ge
  have e1 : 1.969 * α * s ^ 2 ≤ 4 * α * Q := by
    have : 1.969 * α * s ^ 2 ≤ lkDisc α β * s ^ 2 := mul_le_mul_of_nonneg_right hd (sq_nonneg s)
    linarith
  have e2 : α * (1.969 * s ^ 2) ≤ α * (4 * Q) := by linarith
  have := le_of_mul_le_mul_left e2 h1
  linarith

/-- the equilibrium level: `Q* ≤ 2.03·Δ²/α` -/
theorem qstar_le (Δ : ℝ) : lkQstar α β Δ ≤ 2.03 * Δ ^ 2 / α := by
  have h1 := h.hα; have h3 := h.hβ0; have h4 := h.gap_ge; have h5 := h.hlo; have h6 := h.hβ1
  unfold lkQstar
  have hden : 0 < β * (β - 2 * α) := by
    apply mul_pos h3; linarith
  rw [div_le_div_iff₀ hden h1]
  -- 4(1-β)Δ² α ≤ 2.03 Δ² β(β-2α);  β(β-2α) ≥ 0.988 β² ≥ 0.988·1.9999 α = 1.9759 α
  have e1 : 0.988 * β * β ≤ β * (β - 2 * α) := by nlinarith
  have e2 : 1.975 * α ≤ β * (β - 2 * α) := by nlinarith
  have hΔ : 0 ≤ Δ ^ 2 := sq_nonneg Δ
  have e3 : Δ ^ 2 * (1.975 * α) ≤ Δ ^ 2 * (β * (β - 2 * α)) := mul_le_mul_of_nonneg_left e2 hΔ
  have e4 : 0 ≤ Δ ^ 2 * α * β := by positivity
  nlinarith

/-- **state bound along a run**: `E_n² ≤ (2.04/α)·λ^n·Q_0 + (2.04·Δ/α)²`, `s_n² ≤ 2.05·(λ^n·Q_0) + 4.2·Δ²/α` -/
theorem seq_bound {Δ : ℝ} (E s δ : ℕ → ℝ)
    (hE : ∀ n, E (n + 1) = (1 - 2 * α) * E n - (2 - 2 * β) * s n - 2 * δ n)
    (hs : ∀ n, s (n + 1) = 2 * α * E n + (1 - 2 * β) * s n + 2 * δ n)
    (hδ : ∀ n, |δ n| ≤ Δ) (n : ℕ) :
    E n ^ 2 ≤ 2.04 / α * (lkLam α β ^ n * lkQ α β (E 0) (s 0)) + (2.04 * Δ / α) ^ 2 ∧
    s n ^ 2 ≤ 2.05 * (lkLam α β ^ n * lkQ α β (E 0) (s 0)) + 4.2 * Δ ^ 2 / α := by
  have h1 := h.hα
  have hβ : β < 1 / 2 := by have := h.hβ1; linarith
  have hD := h.disc_pos.le
  have hq := lkQ_seq h1 h.two_alpha_lt hβ hD E s δ hE hs hδ n
  have hQ0 : 0 ≤ lkQ α β (E 0) (s 0) := lkQ_nonneg h1 hD _ _
  have hQn : 0 ≤ lkQ α β (E n) (s n) := lkQ_nonneg h1 hD _ _
  have hl : 0 ≤ lkLam α β ^ n * lkQ α β (E 0) (s 0) := mul_nonneg (pow_nonneg h.lam_nonneg n) hQ0
  have hqs := h.qstar_le Δ
  have hΔ2 : 0 ≤ Δ ^ 2 := sq_nonneg Δ
  have hqs0 : 0 ≤ 2.03 * Δ ^ 2 / α := by positivity
  have hR : 0 ≤ lkLam α β ^ n * lkQ α β (E 0) (s 0) + 2.03 * Δ ^ 2 / α := by linarith
  have hqn : lkQ α β (E n) (s n) ≤ lkLam α β ^ n * lkQ α β (E 0) (s 0) + 2.03 * Δ ^ 2 / α := by linarith
  constructor
  · have e1 := h.extent_const hQn (lkQ_extent_E α β (E n) (s n))
    have e2 : 2.04 / α * lkQ α β (E n) (s n)
        ≤ 2.04 / α * (lkLam α β ^ n * lkQ α β (E 0) (s 0) + 2.03 * Δ ^ 2 / α) :=
      mul_le_mul_of_nonneg_left hqn (by positivity)
    have e3 : 2.04 / α * (2.03 * Δ ^ 2 / α) ≤ (2.04 * Δ / α) ^ 2 := by
      have : 2.04 / α * (2.03 * Δ ^ 2 / α) = 2.04 * 2.03 * (Δ ^ 2 / α ^ 2) := by
        field_simp
      rw [this]
      have : (2.04 * Δ / α) ^ 2 = 2.04 * 2.04 * (Δ ^ 2 / α ^ 2) := by field_simp
      rw [this]
      have : 0 ≤ Δ ^ 2 / α ^ 2 := by positivity
      nlinarith
    calc E n ^ 2 ≤ 2.04 / α * lkQ α β (E n) (s n) := e1
      _ ≤ 2.04 / α * (lkLam α β ^ n * lkQ α β (E 0) (s 0) + 2.03 * Δ ^ 2 / α) := e2
      _ = 2.04 / α * (lkLam α β ^ n * lkQ α β (E 0) (s 0)) + 2.04 / α * (2.03 * Δ ^ 2 / α) := by ring
      _ ≤ _ := by linarith
  · have e1 := h.extent_const_s hQn (lkQ_extent_s α β (E n) (s n))
    have : 2.05 * (2.03 * Δ ^ 2 / α) ≤ 4.2 * Δ ^ 2 / α := by
      rw [show 2.05 * (2.03 * Δ ^ 2 / α) = (2.05 * 2.03 * Δ ^ 2) / α by ring]
      apply div_le_div_of_nonneg_right _ h1.le
      nlinarith
    nlinarith

/-- the contraction after `n` steps with `β·n ≥ 56`: `λ^n ≤ 2^-78` -/
theorem lam_pow_le (n : ℕ) (hn : 56 ≤ β * n) : lkLam α β ^ n ≤ 1 / 2 ^ 78 := by
  have h0 := h.lam_nonneg
  have h1 := h.lam_le
  have h2 : lkLam α β ≤ Real.exp (-(0.988 * β)) := by
    have := Real.add_one_le_exp (-(0.988 * β)); linarith
  have h3 : lkLam α β ^ n ≤ Real.exp (-(0.988 * β)) ^ n := pow_le_pow_left₀ h0 h2 n
  rw [← Real.exp_nat_mul] at h3
  have h4 : (n : ℝ) * -(0.988 * β) ≤ -55 := by nlinarith
  have h5 : Real.exp ((n : ℝ) * -(0.988 * β)) ≤ Real.exp (-55) := Real.exp_le_exp.mpr h4
  have h6 : Real.exp (-55) ≤ 1 / 2 ^ 78 := by
    rw [Real.exp_neg, ← one_div]
    apply one_div_le_one_div_of_le (by positivity)
    have e : Real.exp 55 = Real.exp 1 ^ 55 := by
      rw [← Real.exp_nat_mul]; norm_num
    rw [e]
    have := Real.exp_one_gt_d9
    calc (2:ℝ) ^ 78 ≤ 2.7182818283 ^ 55 := by norm_num
      _ ≤ Real.exp 1 ^ 55 := pow_le_pow_left₀ (by norm_num) this.le 55
  linarith

end LkGain
end Idsp
