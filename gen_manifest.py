#!/usr/bin/env python3
"""Regenerates MANIFEST.json from props.py (so the manifest never drifts from what ./check does)."""
import json, subprocess
from props import PROPS, TRUSTED_BASE, NOT_APPLICABLE

ids = [json.loads(l)["id"] for l in open("properties.jsonl")]
hook_commits = subprocess.run(["git", "-C", "/repo", "log", "--format=%H", "--grep=^verif hooks"], capture_output=True, text=True).stdout.split()
checks = []
for pid in ids:
    if pid not in PROPS:
        continue
    c = PROPS[pid]
    checks.append({
        "property_id": pid,
        "quick_cmd": f"./check {pid} --tier quick",
        "thorough_cmd": f"./check {pid} --tier thorough",
        "evidence_file": f"/verif/evidence/{pid}.json",
        "replay_cmd_template": f"./check {pid} --replay {{path}}",
        "engine": "lean4-proof+correspondence",
        "level_claimed": {
            "category": "proof",
            "text": c["level_text"],
            "design_ref": c.get("design_ref", f"DESIGN.md section 5, {pid}"),
        },
        "level_note": c["level_note"] + " Trusted base: " + " | ".join(TRUSTED_BASE + c.get("trusted_extra", [])),
        "technique": c.get("technique", "Lean 4 kernel-checked theorems about a hand-written model + behavioural correspondence with the built crate"),
    })
m = {
    "version": 1,
    "setup_cmd": "cd /verif/harness && cargo build --offline --quiet --profile checked && cargo build --offline --quiet --release && /verif/lean/build_all.sh",
    "hooks": {
        "guard": "--cfg idsp_verif",
        "enable": "harness/.cargo/config.toml sets build.rustflags = [\"--cfg\", \"idsp_verif\"]; the harness depends on idsp by path = /repo, so every check rebuilds the crate from the working tree with the hooks on",
        "baseline_off_cmd": "cd /repo && cargo test --workspace --no-fail-fast --offline",
        "source_commits": hook_commits,
        "add_only": True,
    },
    "engines": [{
        "name": "lean4-proof+correspondence",
        "path": "/verif/check",
        "serves_properties": [c["property_id"] for c in checks],
        "kind_free_text": "Lean 4 theorems (lean/IdspModel/Props) over an import-free executable model (lean/IdspModel/Model), tied to the code by a differential line protocol between the real crate (harness/) and the compiled model (lean_exe idsp_model); native oracle search for clauses that are explored only and for failing inputs when a proof or the correspondence breaks",
    }],
    "checks": checks,
    "not_applicable": [{"property_id": p, "reason": r} for p, r in NOT_APPLICABLE.items() if p not in PROPS],
    "notes": "See DESIGN.md (section 5b: what is proved per property; 6: defects found, five repaired by fix: commits in /repo, the rest in known_findings.json; 7: trusted base; 10: 120 seeded breakages in seeded/, all caught; 11: 30 behaviour-preserving refactors in benign/, all quiet). Exit codes of ./check: 0 held, 1 violation (VIOLATION line + replay file under replays/), 2 infrastructure (the tree does not compile). Checks may run in parallel (builds are serialised by file locks). tools/coverage.sh measures what the harness reaches in /repo/src (notes/coverage.txt: 98.7% of lines; the rest is unimplemented!() arms and one unreachable generic).",
}
json.dump(m, open("MANIFEST.json", "w"), indent=1)
print("claimed:", [c["property_id"] for c in checks])
