import IdspModel.Lemmas.Lp2Bibo
import IdspModel.Lemmas.Lp2Core
/-!
# Second-order lowpass: every state reachable under inputs within `±2^28` settles on a constant input

Part A repeats `Lp2Bibo` with all constants halved (arbitrary inputs within `±2^28`, region
`Lp2Inv2 a b 0 (lp2VmaxA a) (lp2RA a)`).  Part B shows that every state of that region lies in a sector-safe region
of every constant input within `±2^28` (`lp2_safe2_B`, `lp2_inv2_B`), so that `lp2_settle_core` applies.
-/
namespace Idsp
set_option linter.unusedVariables false

def lp2VmaxA (a : Int) : Int := 5 * a ^ 3 * 4294967296 ^ 2 * 288230376151711744
def lp2RA (a : Int) : Int := 5 * a * 4294967296 * 268435456

theorem lp2_RVA {k a b : Int} (h : Lp2Butter k a b) :
    (4294967296 - b + a) * lp2VmaxA a ≤ a * (4294967296 - b) * lp2RA a ^ 2 := by
  have ha := h.a_ge
  have h4M := lp2_four_a_le_Mb h
  unfold lp2VmaxA lp2RA
  have key : 4 * ((4294967296 - b + a) * (5 * a ^ 3 * 4294967296 ^ 2 * 288230376151711744))
      ≤ 4 * (a * (4294967296 - b) * (5 * a * 4294967296 * 268435456) ^ 2) := by
    have e1 : 4 * ((4294967296 - b + a) * (5 * a ^ 3 * 4294967296 ^ 2 * 288230376151711744))
        = (a ^ 3 * 4294967296 ^ 2 * 288230376151711744) * (20 * (4294967296 - b + a)) := by ring
    have e2 : 4 * (a * (4294967296 - b) * (5 * a * 4294967296 * 268435456) ^ 2)
        = (a ^ 3 * 4294967296 ^ 2 * 288230376151711744) * (25 * (4294967296 - b)) := by ring
    rw [e1, e2]
    exact mul_le_mul_of_nonneg_left (by omega) (by positivity)
  omega

/-- bound of the centred disturbance when the input varies within `±2^28` -/
def lp2UXA (a b : Int) : Int := lp2U a b + 2 * a ^ 2 * 268435456 * 4294967296

theorem lp2_centered_rec0A (x a b : Int) (st : Int × Int) (ha : 0 < a) (hb : 0 < b)
    (hx0 : -268435456 ≤ x) (hx1 : x ≤ 268435456) :
    ∃ u : Int, u ^ 2 ≤ lp2UXA a b ^ 2 ∧
      4294967296 * lp2Eb a b 0 (lp2Next x a (-b) st).1
        = (4294967296 - 2 * a) * lp2Eb a b 0 st.1 - (2 * 4294967296 - 2 * b) * (2 * a * st.2) - 2 * u ∧
      4294967296 * (2 * a * (lp2Next x a (-b) st).2)
        = 2 * a * lp2Eb a b 0 st.1 + (4294967296 - 2 * b) * (2 * a * st.2) + 2 * u := by
  obtain ⟨u, hu, hE, hs⟩ := lp2_centered_rec x a b st ha hb
  have hU0 : 0 ≤ lp2U a b := by unfold lp2U; positivity
  obtain ⟨hu0, hu1⟩ := abs_le_of_sq_le_sq' hu hU0
  refine ⟨u + 2 * a ^ 2 * x * 4294967296, ?_, ?_, ?_⟩
  · apply sq_le_sq'
    · unfold lp2UXA
      have : -(2 * a ^ 2 * 268435456 * 4294967296) ≤ 2 * a ^ 2 * x * 4294967296 := by
        have : 0 ≤ a ^ 2 := sq_nonneg a
        nlinarith
      linarith
    · unfold lp2UXA
      have : 2 * a ^ 2 * x * 4294967296 ≤ 2 * a ^ 2 * 268435456 * 4294967296 := by
        have : 0 ≤ a ^ 2 := sq_nonneg a
        nlinarith
      linarith
  · have e : ∀ s, lp2Eb a b x s = lp2Eb a b 0 s + 2 * a * (x * 4294967296) := by
      intro s; unfold lp2Eb; ring
    rw [e, e] at hE
    linear_combination hE
  · have e : ∀ s, lp2Eb a b x s = lp2Eb a b 0 s + 2 * a * (x * 4294967296) := by
      intro s; unfold lp2Eb; ring
    rw [e] at hs
    linear_combination hs

/-- the equilibrium level for varying inputs lies below `lp2VmaxA` -/
theorem lp2_LsXA_le {k a b : Int} (h : Lp2Butter k a b) :
    4 * (4294967296 - b) * lp2UXA a b ^ 2 ≤ b * (b - 2 * a) * lp2VmaxA a := by
  have ha := h.a_ge; have hbl := h.b_le; have hb0 := h.hb0; have hbg := h.b_ge
  have h4 := h.four_a_le; have hba := lp2_b_le_a h
  have haM : 2 * (a * 4294967296) ≤ (b + 1) ^ 2 := by
    have := h.ha0; have := h.hb2; nlinarith
  -- UX = a·M·(a(2^30+1) + b) and a(2^30+1)+b ≤ a·(2^30 + 131073)
  have hUX : lp2UXA a b = a * 4294967296 * (a * 536870913 + b) := by unfold lp2UXA lp2U; ring
  have hw : a * 536870913 + b ≤ a * 537001985 := by linarith
  have hw2 : (a * 536870913 + b) ^ 2 ≤ (a * 537001985) ^ 2 := pow_le_pow_left₀ (by positivity) hw 2
  -- 4(M−b)·a²M²·W² ≤ 4M·a²M²·a²·c² ; 2aM ≤ (b+1)²
  have s1 : 4 * (4294967296 - b) * lp2UXA a b ^ 2
      ≤ (2 * a ^ 3 * 4294967296 ^ 2 * 537001985 ^ 2) * (2 * (a * 4294967296)) := by
    rw [hUX]
    have e1 : 4 * (4294967296 - b) * (a * 4294967296 * (a * 536870913 + b)) ^ 2
        = (4 * a ^ 2 * 4294967296 ^ 2 * (4294967296 - b)) * (a * 536870913 + b) ^ 2 := by ring
    have e2 : (4 * a ^ 2 * 4294967296 ^ 2 * (4294967296 - b)) * (a * 536870913 + b) ^ 2
        ≤ (4 * a ^ 2 * 4294967296 ^ 2 * 4294967296) * (a * 537001985) ^ 2 :=
      mul_le_mul (mul_le_mul_of_nonneg_left (by omega) (by positivity)) hw2 (by positivity) (by positivity)
    rw [e1]
    calc _ ≤ _ := e2
      _ = _ := by ring
  have s2 : (2 * a ^ 3 * 4294967296 ^ 2 * 537001985 ^ 2) * (2 * (a * 4294967296))
      ≤ (2 * a ^ 3 * 4294967296 ^ 2 * 537001985 ^ 2) * (b + 1) ^ 2 :=
    mul_le_mul_of_nonneg_left haM (by positivity)
  -- 2·c²·(b+1)² ≤ 5·2^60·b(b−2a)
  have s3 : 2 * 537001985 ^ 2 * (b + 1) ^ 2 ≤ 5 * 288230376151711744 * (b * (b - 2 * a)) := by
    have : 2 * (b * (b - 2 * a)) ≥ b * (b - 2) := by nlinarith
    nlinarith
  have s4 : (2 * a ^ 3 * 4294967296 ^ 2 * 537001985 ^ 2) * (b + 1) ^ 2
      ≤ b * (b - 2 * a) * lp2VmaxA a := by
    unfold lp2VmaxA
    have := mul_le_mul_of_nonneg_left s3 (show (0 : Int) ≤ a ^ 3 * 4294967296 ^ 2 by positivity)
    nlinarith
  exact le_trans s1 (le_trans s2 s4)

/-- the region centred at level `0` lies in the overflow-free box of every input within `±2^28` -/
theorem lp2_bibo_boxA {k a b x : Int} (h : Lp2Butter k a b) (hx0 : -268435456 ≤ x) (hx1 : x ≤ 268435456)
    (st : Int × Int) (hI : Lp2Inv2 a b 0 (lp2VmaxA a) (lp2RA a) st) :
    Lp2Box x st ∧ -(2 * a * 2305843009213693952) ≤ 2 * a * st.2 ∧ 2 * a * st.2 ≤ 2 * a * 2305843009213693952 ∧
    -671154177 ≤ st.1 / 4294967296 ∧ st.1 / 4294967296 ≤ 671154177 := by
  have ha := h.a_ge; have hA := h.adm; have hba := lp2_b_le_a h; have hb0 := h.hb0
  obtain ⟨hD5, -⟩ := lp2_disc_ge h
  obtain ⟨s0, s1⟩ := st
  obtain ⟨hV, hE3, hE4⟩ := hI
  unfold lp2V at hV
  simp only at hV hE3 hE4 ⊢
  have e2 := lp2Q_extent_s a b (lp2Eb a b 0 s0) (2 * a * s1)
  have hS2 : (2 * a * s1) ^ 2 ≤ (2 * a * 2305843009213693952) ^ 2 := by
    have h1 : 4 * a * lp2Q a b (lp2Eb a b 0 s0) (2 * a * s1) ≤ 4 * a * lp2VmaxA a :=
      mul_le_mul_of_nonneg_left hV (by omega)
    have h2 : 4 * a * lp2VmaxA a = (5 * a ^ 2) * (2 * a * 2305843009213693952) ^ 2 := by
      unfold lp2VmaxA; ring
    have h3 : (5 * a ^ 2) * (2 * a * 2305843009213693952) ^ 2
        ≤ lp2Disc a b * (2 * a * 2305843009213693952) ^ 2 := mul_le_mul_of_nonneg_right hD5 (sq_nonneg _)
    exact le_of_mul_le_mul_left (by linarith) hA.hD
  obtain ⟨hS3, hS4⟩ := abs_le_of_sq_le_sq' hS2 (by positivity)
  unfold lp2Eb lp2RA at hE3 hE4
  have h1 : 2 * a * (0 * 4294967296 - s0) ≤ 2 * a * (671154177 * 4294967296) := by nlinarith
  have h2 : 2 * a * (-(671154177 * 4294967296)) ≤ 2 * a * (0 * 4294967296 - s0) := by nlinarith
  have ha2 : (0 : Int) < 2 * a := by omega
  have g1 := le_of_mul_le_mul_left h1 ha2
  have g2 := le_of_mul_le_mul_left h2 ha2
  have g3 := le_of_mul_le_mul_left hS4 ha2
  have g4 : -2305843009213693952 ≤ s1 := by
    have : 2 * a * (-2305843009213693952) ≤ 2 * a * s1 := by linarith
    exact le_of_mul_le_mul_left this ha2
  refine ⟨?_, hS3, hS4, by omega, by omega⟩
  unfold Lp2Box
  simp only
  refine ⟨by omega, by omega, by omega, by omega, by omega, by omega⟩

/-- **one update with an arbitrary input within `±2^28`** keeps the region and returns `.ok` -/
theorem lp2_bibo_stepA (m : Mode) {k a b x : Int} (h : Lp2Butter k a b)
    (hx0 : -268435456 ≤ x) (hx1 : x ≤ 268435456)
    (st : Int × Int) (hI : Lp2Inv2 a b 0 (lp2VmaxA a) (lp2RA a) st) :
    lp2Update m st.1 st.2 x a (-b)
      = .ok ((lp2Next x a (-b) st).1, (lp2Next x a (-b) st).2, lp2Mid x a (-b) st / 4294967296) ∧
    Lp2Inv2 a b 0 (lp2VmaxA a) (lp2RA a) (lp2Next x a (-b) st) ∧
    -671154177 ≤ lp2Mid x a (-b) st / 4294967296 ∧ lp2Mid x a (-b) st / 4294967296 ≤ 671154177 := by
  have hA := h.adm
  obtain ⟨ha0, ha1, hba, hb1, hD⟩ := hA
  have ha : 0 < a := by omega
  have hb : 0 < b := by omega
  have hbb : 0 < b * (b - 2 * a) := by apply mul_pos <;> omega
  obtain ⟨u, hu, hrE, hrs⟩ := lp2_centered_rec0A x a b st ha hb hx0 hx1
  have hdesc := lp2Q_descent_star ha (le_of_lt hD) hb hb1 hba _ _ _ _ u (lp2UXA a b) hrE hrs hu
  have hinv := lp2Q_invariant_star ha (le_of_lt hD) hb hb1 hba _ _ _ _ u (lp2UXA a b) hrE hrs hu
  have hLs := lp2_LsXA_le h
  have hV := hI.1
  have hV' : lp2V a b 0 (lp2Next x a (-b) st) ≤ lp2VmaxA a := by
    unfold lp2V
    by_cases hc : 4 * (4294967296 - b) * lp2UXA a b ^ 2 < b * (b - 2 * a) * lp2V a b 0 st
    · have := hdesc hc
      unfold lp2V at hV
      linarith
    · have h1 := hinv (not_lt.mp hc)
      have h2 : b * (b - 2 * a) * lp2Q a b (lp2Eb a b 0 (lp2Next x a (-b) st).1) (2 * a * (lp2Next x a (-b) st).2)
          ≤ b * (b - 2 * a) * lp2VmaxA a := by linarith
      exact le_of_mul_le_mul_left h2 hbb
  obtain ⟨hbox, hsb0, hsb1, hg0, hg1⟩ := lp2_bibo_boxA h hx0 hx1 st hI
  -- the sector argument (same constants as in `lp2_safe2_of_level`)
  have hR0 : 0 ≤ lp2RA a := by unfold lp2RA; positivity
  have hRV := lp2_RVA h
  have hstepE : lp2Eb a b 0 (lp2Next x a (-b) st).1
      = lp2Eb a b 0 st.1 - (2 * a * st.2 + 2 * a * (lp2Next x a (-b) st).2) := by
    unfold lp2Eb lp2Next; ring
  have hSBR : 2 * a * 2305843009213693952 ≤ lp2RA a := by unfold lp2RA; nlinarith
  have hsec := lp2_sector (a := a) (b := b) (SB := 2 * a * 2305843009213693952) ha (by omega) (by omega) hR0 hSBR
    hsb0 hsb1 hRV
    (by unfold lp2V at hV; exact hV) (by unfold lp2V at hV'; exact hV') hstepE hI.2.1 hI.2.2
  have hI' : Lp2Inv2 a b 0 (lp2VmaxA a) (lp2RA a) (lp2Next x a (-b) st) := ⟨hV', hsec.1, hsec.2⟩
  obtain ⟨hbox', -, -, hg0', hg1'⟩ := lp2_bibo_boxA h hx0 hx1 _ hI'
  refine ⟨lp2_step_box m x a (-b) st (by omega) (by omega) (by omega) (by omega) hbox hbox', hI', ?_, ?_⟩
  · -- the mid-point is the mean of the two raw positions
    have : 2 * lp2Mid x a (-b) st = st.1 + (lp2Next x a (-b) st).1 := by unfold lp2Mid lp2Next; ring
    omega
  · have : 2 * lp2Mid x a (-b) st = st.1 + (lp2Next x a (-b) st).1 := by unfold lp2Mid lp2Next; ring
    omega

/-- **arbitrary input sequences within `±2^28`**: the run never panics, wraps or saturates, ends in the region, and
    all outputs lie within `±(1.25·2^29 + 65537)` -/
theorem lp2_bibo_runA (m : Mode) {k a b : Int} (h : Lp2Butter k a b) (xs : List Int)
    (hxs : ∀ x ∈ xs, -268435456 ≤ x ∧ x ≤ 268435456)
    (st : Int × Int) (hI : Lp2Inv2 a b 0 (lp2VmaxA a) (lp2RA a) st) :
    ∃ st' ys, lp2RunL m a (-b) xs st = .ok (st', ys) ∧ Lp2Inv2 a b 0 (lp2VmaxA a) (lp2RA a) st' ∧
      ys.length = xs.length ∧ ∀ y ∈ ys, -671154177 ≤ y ∧ y ≤ 671154177 := by
  induction xs generalizing st with
  | nil => exact ⟨st, [], rfl, hI, rfl, by simp⟩
  | cons x xs ih =>
    obtain ⟨hx0, hx1⟩ := hxs x (by simp)
    obtain ⟨hstep, hI', hy0, hy1⟩ := lp2_bibo_stepA m h hx0 hx1 st hI
    obtain ⟨st', ys, hrun, hI'', hlen, hys⟩ := ih (fun y hy => hxs y (by simp [hy])) _ hI'
    refine ⟨st', lp2Mid x a (-b) st / 4294967296 :: ys, ?_, hI'', by simp [hlen], ?_⟩
    · simp only [lp2RunL, hstep, bind_ok', hrun]
    · intro y hy
      rcases List.mem_cons.mp hy with rfl | hy
      · exact ⟨hy0, hy1⟩
      · exact hys y hy


/-- every state settled at a level within `±2^28` lies in the region of part A -/
theorem lp2_settled_invA {k a b xo : Int} (h : Lp2Butter k a b)
    (ho0 : -268435456 ≤ xo) (ho1 : xo ≤ 268435456)
    (st : Int × Int) (hs : Lp2Settled a b xo st) : Lp2Inv2 a b 0 (lp2VmaxA a) (lp2RA a) st := by
  have ha := h.a_ge
  have hA := h.adm
  have hVo := lp2_settled_V_le h xo st hs
  obtain ⟨hE0, hE1⟩ := lp2_settled_Eb_le h xo st hs
  have hshift : lp2Eb a b 0 st.1 = lp2Eb a b xo st.1 + 2 * a * ((0 - xo) * 4294967296) := by
    unfold lp2Eb; ring
  refine ⟨?_, ?_, ?_⟩
  · have hid : 9 * lp2Q a b (2 * a * ((0 - xo) * 4294967296)) 0 + 72 * lp2V a b xo st - 8 * lp2V a b 0 st
        = lp2Q a b (2 * a * ((0 - xo) * 4294967296) - 8 * lp2Eb a b xo st.1) (0 - 8 * (2 * a * st.2)) := by
      unfold lp2V lp2Eb lp2Q; ring
    have hnn := lp2Q_nonneg (show 0 < a by omega) (le_of_lt hA.hD)
      (2 * a * ((0 - xo) * 4294967296) - 8 * lp2Eb a b xo st.1) (0 - 8 * (2 * a * st.2))
    have hq : lp2Q a b (2 * a * ((0 - xo) * 4294967296)) 0 = 4 * a ^ 3 * 4294967296 ^ 2 * (0 - xo) ^ 2 := by
      unfold lp2Q; ring
    have hdx : (0 - xo) ^ 2 ≤ 268435456 ^ 2 := sq_le_sq' (by omega) (by omega)
    have hq' : 4 * a ^ 3 * 4294967296 ^ 2 * (0 - xo) ^ 2 ≤ 4 * a ^ 3 * 4294967296 ^ 2 * 268435456 ^ 2 :=
      mul_le_mul_of_nonneg_left hdx (by positivity)
    have ha2 : 1 ≤ a ^ 2 := by nlinarith
    have ha3 : a ^ 2 ≤ a ^ 3 := by nlinarith
    rw [hq] at hid
    unfold lp2VmaxA
    omega
  · rw [hshift]; unfold lp2RA
    have : -(2 * a * (268435456 * 4294967296)) ≤ 2 * a * ((0 - xo) * 4294967296) := by nlinarith
    linarith
  · rw [hshift]; unfold lp2RA
    have : 2 * a * ((0 - xo) * 4294967296) ≤ 2 * a * (268435456 * 4294967296) := by nlinarith
    linarith

def lp2VmaxB (a : Int) : Int := 11 * a ^ 3 * 4294967296 ^ 2 * 288230376151711744
def lp2RB (a : Int) : Int := 15 * a * 4294967296 * 134217728

/-- the sector-safe region used for a constant input within `±2^28` after arbitrary inputs -/
theorem lp2_safe2_B {k a b x : Int} (h : Lp2Butter k a b)
    (hx0 : -268435456 ≤ x) (hx1 : x ≤ 268435456) : Lp2Safe2 a b x (lp2VmaxB a) (lp2RB a) := by
  have ha := h.a_ge; have hal := h.a_le; have hbl := h.b_le; have hb := h.hb0; have hbg := h.b_ge
  have hA := h.adm
  have h4M := lp2_four_a_le_Mb h
  obtain ⟨hD5, hD⟩ := lp2_disc_ge h
  have hba := lp2_b_le_a h
  have ha2 : 1 ≤ a ^ 2 := by nlinarith
  have ha3 : a ^ 2 ≤ a ^ 3 := by nlinarith
  refine ⟨lp2RB a, 1006698497, by unfold lp2RB; positivity, by unfold lp2RB; positivity, by norm_num,
    by omega, by omega, ?_, ?_, le_refl _, ?_, ?_, ?_⟩
  · unfold lp2VmaxB lp2RB
    have key : 16 * ((4294967296 - b + a) * (11 * a ^ 3 * 4294967296 ^ 2 * 288230376151711744))
        ≤ 16 * (a * (4294967296 - b) * (15 * a * 4294967296 * 134217728) ^ 2) := by
      have e1 : 16 * ((4294967296 - b + a) * (11 * a ^ 3 * 4294967296 ^ 2 * 288230376151711744))
          = (a ^ 3 * 4294967296 ^ 2 * 288230376151711744) * (176 * (4294967296 - b + a)) := by ring
      have e2 : 16 * (a * (4294967296 - b) * (15 * a * 4294967296 * 134217728) ^ 2)
          = (a ^ 3 * 4294967296 ^ 2 * 288230376151711744) * (225 * (4294967296 - b)) := by ring
      rw [e1, e2]
      exact mul_le_mul_of_nonneg_left (by omega) (by positivity)
    omega
  · -- 4a·Vmax ≤ Δ·R² from Δ ≥ 5a²
    unfold lp2VmaxB lp2RB
    have e1 : 4 * a * (11 * a ^ 3 * 4294967296 ^ 2 * 288230376151711744) * 225
        = (704 * a ^ 2) * (15 * a * 4294967296 * 134217728) ^ 2 := by ring
    have e2 : (704 * a ^ 2) * (15 * a * 4294967296 * 134217728) ^ 2
        ≤ (225 * lp2Disc a b) * (15 * a * 4294967296 * 134217728) ^ 2 :=
      mul_le_mul_of_nonneg_right (by linarith) (sq_nonneg _)
    nlinarith
  · unfold lp2RB; nlinarith
  · unfold lp2RB; nlinarith
  · have h4 := h.four_a_le
    have hbb : 0 < b * (b - 2 * a) := by apply mul_pos <;> omega
    have h16 : 16 * a ^ 2 * 4294967296 ^ 3 ≤ lp2VmaxB a := by unfold lp2VmaxB; omega
    have h1 : (a + b) ^ 2 ≤ 4 * (b * (b - 2 * a)) := by
      have h5 : (4 * (a + b)) ^ 2 ≤ (5 * b + 2) ^ 2 := pow_le_pow_left₀ (by omega) (by omega) 2
      have : 2 * (b * (b - 2 * a)) ≥ b * (b - 2) := by nlinarith
      nlinarith
    unfold lp2U
    have e1 : 4 * (4294967296 - b) * (a * (a + b) * 4294967296) ^ 2
        = (4 * a ^ 2 * 4294967296 ^ 2 * (4294967296 - b)) * (a + b) ^ 2 := by ring
    have e2 : (4 * a ^ 2 * 4294967296 ^ 2 * (4294967296 - b)) * (a + b) ^ 2
        ≤ (4 * a ^ 2 * 4294967296 ^ 2 * (4294967296 - b)) * (4 * (b * (b - 2 * a))) :=
      mul_le_mul_of_nonneg_left h1 (by have : (0 : Int) ≤ 4294967296 - b := by omega
                                       positivity)
    have e3 : (4 * a ^ 2 * 4294967296 ^ 2 * (4294967296 - b)) * (4 * (b * (b - 2 * a)))
        ≤ (4 * a ^ 2 * 4294967296 ^ 2 * 4294967296) * (4 * (b * (b - 2 * a))) :=
      mul_le_mul_of_nonneg_right (mul_le_mul_of_nonneg_left (by omega) (by positivity)) (by positivity)
    have e4 : b * (b - 2 * a) * (16 * a ^ 2 * 4294967296 ^ 3) ≤ b * (b - 2 * a) * lp2VmaxB a :=
      mul_le_mul_of_nonneg_left h16 (le_of_lt hbb)
    rw [e1]
    calc _ ≤ _ := e2
      _ ≤ _ := e3
      _ = b * (b - 2 * a) * (16 * a ^ 2 * 4294967296 ^ 3) := by ring
      _ ≤ _ := e4

/-- every state of the part-A region lies in the part-B region of every constant input within `±2^28` -/
theorem lp2_inv2_B {k a b x : Int} (h : Lp2Butter k a b)
    (hx0 : -268435456 ≤ x) (hx1 : x ≤ 268435456)
    (st : Int × Int) (hI : Lp2Inv2 a b 0 (lp2VmaxA a) (lp2RA a) st) :
    Lp2Inv2 a b x (lp2VmaxB a) (lp2RB a) st := by
  have ha := h.a_ge
  have hA := h.adm
  obtain ⟨hV0, hE0, hE1⟩ := hI
  have hshift : lp2Eb a b x st.1 = lp2Eb a b 0 st.1 + 2 * a * (x * 4294967296) := by
    unfold lp2Eb; ring
  refine ⟨?_, ?_, ?_⟩
  · have hid : 3 * lp2V a b 0 st + 6 * lp2Q a b (2 * a * (x * 4294967296)) 0 - 2 * lp2V a b x st
        = lp2Q a b (lp2Eb a b 0 st.1 - 2 * (2 * a * (x * 4294967296))) (2 * a * st.2 - 2 * 0) := by
      unfold lp2V lp2Eb lp2Q; ring
    have hnn := lp2Q_nonneg (show 0 < a by omega) (le_of_lt hA.hD)
      (lp2Eb a b 0 st.1 - 2 * (2 * a * (x * 4294967296))) (2 * a * st.2 - 2 * 0)
    have hq : lp2Q a b (2 * a * (x * 4294967296)) 0 = 4 * a ^ 3 * 4294967296 ^ 2 * x ^ 2 := by
      unfold lp2Q; ring
    have hdx : x ^ 2 ≤ 268435456 ^ 2 := sq_le_sq' (by omega) (by omega)
    have hq' : 4 * a ^ 3 * 4294967296 ^ 2 * x ^ 2 ≤ 4 * a ^ 3 * 4294967296 ^ 2 * 268435456 ^ 2 :=
      mul_le_mul_of_nonneg_left hdx (by positivity)
    have ha2 : 1 ≤ a ^ 2 := by nlinarith
    have ha3 : a ^ 2 ≤ a ^ 3 := by nlinarith
    rw [hq] at hid
    unfold lp2VmaxA at hV0
    unfold lp2VmaxB
    omega
  · rw [hshift]; unfold lp2RB; unfold lp2RA at hE0
    have : -(2 * a * (268435456 * 4294967296)) ≤ 2 * a * (x * 4294967296) := by nlinarith
    linarith
  · rw [hshift]; unfold lp2RB; unfold lp2RA at hE1
    have : 2 * a * (x * 4294967296) ≤ 2 * a * (268435456 * 4294967296) := by nlinarith
    linarith

end Idsp
