import IdspModel.Lemmas.Lp2TimeModel
import IdspModel.Lemmas.Lp2Wide
/-!
# Explicit settling time: the core statement and the bound `lp2T a b ≤ 2332·(2^32/k + 1)`
-/
namespace Idsp
set_option linter.unusedVariables false

/-- halving time of the excess of the quadratic form -/
def lp2M1 (a b : Int) : Nat := ((4294967296 - b) / (b - 2 * a)).toNat + 1
/-- halving time of the centred error in the settled region -/
def lp2M2 (a b : Int) : Nat := (11 * b / a).toNat + 1
/-- the explicit settling time: 275 halvings of the form, then 28 halvings of the error -/
def lp2T (a b : Int) : Nat := 275 * lp2M1 a b + 28 * lp2M2 a b

theorem lp2M1_spec {a b : Int} (hA : Lp2Adm a b) : 4294967296 - b ≤ (lp2M1 a b : Int) * (b - 2 * a) := by
  have := hA.hba; have := hA.hb1
  have hd : 0 < b - 2 * a := by omega
  have hq : 0 ≤ (4294967296 - b) / (b - 2 * a) := Int.ediv_nonneg (by omega) (le_of_lt hd)
  have h1 := Int.lt_ediv_add_one_mul_self (4294967296 - b) hd
  unfold lp2M1
  push_cast
  rw [Int.toNat_of_nonneg hq]
  linarith

theorem lp2M2_spec {a b : Int} (hA : Lp2Adm a b) : 11 * b ≤ (lp2M2 a b : Int) * a := by
  have := hA.ha0; have := hA.hba
  have hd : 0 < a := by omega
  have hq : 0 ≤ 11 * b / a := Int.ediv_nonneg (by omega) (le_of_lt hd)
  have h1 := Int.lt_ediv_add_one_mul_self (11 * b) hd
  unfold lp2M2
  push_cast
  rw [Int.toNat_of_nonneg hq]
  linarith

/-- **settling in explicit time** from a sector-safe region whose size is bounded as stated -/
theorem lp2_settle_core_time (m : Mode) {k a b x Vmax R : Int} (h : Lp2Butter k a b) (hS : Lp2Safe2 a b x Vmax R)
    (st : Int × Int) (hI : Lp2Inv2 a b x Vmax R st)
    (hVb : b * (b - 2 * a) * Vmax < 2 ^ 275) (hRb : R ≤ 2 ^ 28 * lp2Rk k a) :
    ∀ n, lp2T a b ≤ n → ∃ s0 s1 s0' s1' y,
      lp2Iter m x a (-b) n st = .ok (s0, s1, s0 / 4294967296) ∧
      lp2Update m s0 s1 x a (-b) = .ok (s0', s1', y) ∧
      Lp2Tight a b x (lp2Rk k a) (s0, s1) ∧
      k * (|s0 / 4294967296 - x| - 4) ≤ 4 * 4294967296 ∧
      k * (|y - x| - 4) ≤ 4 * 4294967296 := by
  have hA := h.adm
  have ha := h.a_ge
  have hD5 := (lp2_disc_ge h).1
  have hG := lp2_Rk_good h
  have hset := lp2_settled_time (x := x) hA st hI.1 275 (lp2M1 a b) hVb (lp2M1_spec hA)
  have hI1 := lp2_seq_inv2 hA hS (275 * lp2M1 a b) st hI
  obtain ⟨n2, hn2, ht2⟩ := lp2_tight_time h (lp2Seq x a (-b) (275 * lp2M1 a b) st) (hset _ (le_refl _)) 28
    (lp2M2 a b) (by have := hI1.2.1; linarith) (by have := hI1.2.2; linarith) (lp2M2_spec hA)
  intro n hn
  unfold lp2T at hn
  obtain ⟨j, rfl⟩ : ∃ j, n = 275 * lp2M1 a b + n2 + j := ⟨n - (275 * lp2M1 a b + n2), by omega⟩
  have ht : Lp2Tight a b x (lp2Rk k a) (lp2Seq x a (-b) (275 * lp2M1 a b + n2 + j) st) := by
    rw [lp2Seq_add, lp2Seq_add]
    exact lp2_tight_seq hA hD5 hG j _ ht2
  have ht' := lp2_tight_next _ hA hD5 hG ht
  have hIn := lp2_seq_inv2 hA hS (275 * lp2M1 a b + n2 + j) st hI
  obtain ⟨hstep, -⟩ := lp2_inv2_step m (lp2Seq x a (-b) (275 * lp2M1 a b + n2 + j) st) hA hS hIn
  have hrun := lp2_seq_run2 m hA hS (275 * lp2M1 a b + n2 + j) st hI
  generalize lp2Seq x a (-b) (275 * lp2M1 a b + n2 + j) st = sn at *
  refine ⟨_, _, _, _, _, hrun, hstep, ht, lp2_tight_out h sn.1 ht.2.1 ht.2.2, ?_⟩
  obtain ⟨-, -, -, -, -, -, hmid⟩ := lp2_err_rec x a (-b) sn
  have hE : 2 * lp2Eb a b x (lp2Mid x a (-b) sn) = lp2Eb a b x sn.1 + lp2Eb a b x (lp2Next x a (-b) sn).1 := by
    unfold lp2Eb; linear_combination (2 * a) * hmid
  exact lp2_tight_out h (lp2Mid x a (-b) sn) (by have := ht.2.1; have := ht'.2.1; omega)
    (by have := ht.2.2; have := ht'.2.2; omega)

/-- `lp2T a b ≤ 2332·(2^32/k + 1)` -/
theorem lp2T_le {k a b : Int} (h : Lp2Butter k a b) : (lp2T a b : Int) ≤ 2332 * (4294967296 / k + 1) := by
  have ha := h.a_ge; have hbg := h.b_ge; have hbl := h.b_le; have hk := h.hk0; have h4 := h.four_a_le
  have hbk : k ≤ b := by have := h.b_lower; omega
  have hb0 : 0 < b := by omega
  have hk0 : 0 < k := by omega
  have hbsq := h.bsq_lt
  -- 2^32/b ≤ 2^32/k
  have hMb : 4294967296 / b ≤ 4294967296 / k := by
    have h1 : 4294967296 / b * b ≤ 4294967296 := Int.ediv_mul_le _ (by omega)
    have hq : 0 ≤ 4294967296 / b := Int.ediv_nonneg (by norm_num) (le_of_lt hb0)
    have h2 : 4294967296 / b * k ≤ 4294967296 := by nlinarith
    exact (Int.le_ediv_iff_mul_le hk0).mpr h2
  have hMb1 : 4294967296 < (4294967296 / b + 1) * b := Int.lt_ediv_add_one_mul_self _ hb0
  -- m1 ≤ 3(M/b) + 4
  have hd : 0 < b - 2 * a := by omega
  have hq1 : 0 ≤ (4294967296 - b) / (b - 2 * a) := Int.ediv_nonneg (by omega) (le_of_lt hd)
  have h1 : (4294967296 - b) / (b - 2 * a) ≤ 3 * (4294967296 / b) + 3 := by
    have e1 : (4294967296 - b) / (b - 2 * a) * (b - 2 * a) ≤ 4294967296 - b := Int.ediv_mul_le _ (by omega)
    have e2 : b ≤ 3 * (b - 2 * a) := by omega
    by_contra hc
    have hc' : 3 * (4294967296 / b) + 4 ≤ (4294967296 - b) / (b - 2 * a) := by omega
    have e3 : (3 * (4294967296 / b) + 4) * (b - 2 * a) ≤ (4294967296 - b) / (b - 2 * a) * (b - 2 * a) :=
      mul_le_mul_of_nonneg_right hc' (le_of_lt hd)
    have hq : 0 ≤ 4294967296 / b := Int.ediv_nonneg (by norm_num) (le_of_lt hb0)
    nlinarith
  -- m2 ≤ 44(M/b) + 45
  have hq2 : 0 ≤ 11 * b / a := Int.ediv_nonneg (by omega) (by omega)
  have h2 : 11 * b / a ≤ 44 * (4294967296 / b) + 44 := by
    have e1 : 11 * b / a * a ≤ 11 * b := Int.ediv_mul_le _ (by omega)
    have e2 : b ^ 2 < 4 * (a * 4294967296) := by nlinarith
    by_contra hc
    have hc' : 44 * (4294967296 / b) + 45 ≤ 11 * b / a := by omega
    have e3 : (44 * (4294967296 / b) + 45) * a ≤ 11 * b / a * a := mul_le_mul_of_nonneg_right hc' (by omega)
    have hq : 0 ≤ 4294967296 / b := Int.ediv_nonneg (by norm_num) (le_of_lt hb0)
    -- (44(M/b)+45)·a·b ≤ 11 b² < 44 a M < 44·a·(M/b+1)·b
    have e4 : (44 * (4294967296 / b) + 45) * a * b ≤ 11 * b * b := by nlinarith
    have e5 : 44 * a * 4294967296 < 44 * a * ((4294967296 / b + 1) * b) := by
      have : (0 : Int) < 44 * a := by omega
      exact mul_lt_mul_of_pos_left hMb1 this
    nlinarith
  unfold lp2T lp2M1 lp2M2
  push_cast
  rw [Int.toNat_of_nonneg hq1, Int.toNat_of_nonneg hq2]
  have hq : 1 ≤ 4294967296 / k := by
    have := h.k_le
    exact (Int.le_ediv_iff_mul_le hk0).mpr (by omega)
  omega

end Idsp
