import IdspModel.Lemmas.HbfSpecTime
/-! Impulse response of the MODEL decimating cascade of depth 4 over `ℚ`, input phases 4 … 7
    (kernel computation). -/
namespace Idsp

theorem hbfDecImpulseOK_4_1 : ∀ q < 4, hbfDecImpulseOK 4 (4 + q) := by decide +kernel

end Idsp
