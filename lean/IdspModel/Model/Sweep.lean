import IdspModel.Rust
/-! Model of `Sweep::next` (`src/sweptsine.rs`). Returns (new state, item). -/
namespace Idsp

def sweepNext (m : Mode) (rate state : Int) : R (Int × Int) := do
  -- `(s >> 32) + (((s as u32) as i64 + BIAS) >> 32)` since the `fix:` commit (= floor((s + BIAS) / 2^32), no overflow)
  let lo ← arithI m 64 "sweptsine.rs:30 (s as u32) as i64 + BIAS" (wrapU 32 state + 2 ^ 31)
  let b ← arithI m 64 "sweptsine.rs:30 (s >> 32) + (..)" (shr state 32 + shr lo 32)
  let p ← arithI m 64 "sweptsine.rs:30 rate as i64 * (..)" (rate * b)
  let t := state + p
  .ok (if inI 64 t then t else 0, state)

end Idsp
