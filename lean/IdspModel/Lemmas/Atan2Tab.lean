import IdspModel.Model.Atan2
import IdspModel.Lemmas.Basic
/-!
# `atani` over the complete range of quotient fields: table machinery

`divi` only ever produces arguments of the form `q·2^15 + 2^14` (or `0`).  `atanRun q n` is an executable check
that `atani` (checked mode: no intermediate overflow) succeeds on the `n` consecutive quotient fields
`q, q+1, …, q+n-1`, that every result is in `[0, 536873511]` and that the results are non-decreasing.
The chunk files `Atan2TabNN.lean` evaluate it in the kernel over consecutive (one point overlapping) ranges;
`Atan2Table.lean` glues the chunks.

Kernel reduction of `Int` arithmetic is slow (every operation is a pattern match on the sign), so the model
function `atani .checked` is first related to `ataniN`, a copy on `Nat` in offset-binary representation (`R` stands
for the `i32` value `R - 2^31`) that forces every intermediate value to a literal; `ataniN_ok` proves
`ataniN x = some r → atani .checked x = .ok r` for ALL `x`, so the table inherits nothing from the copy but speed.
Core Lean only.
-/
namespace Idsp

/-- `k n`, but the kernel has to bring `n` to a literal before it can continue -/
def forceNat {α : Type} (n : Nat) (k : Nat → α) : α :=
  match n with
  | 0 => k 0
  | m + 1 => k (m + 1)

theorem forceNat_eq {α : Type} (n : Nat) (k : Nat → α) : forceNat n k = k n := by
  cases n <;> rfl

/-- Horner fold on offset-binary values: `R` stands for the `i32` value `R - 2^31`, each coefficient `A` for
    `A - 2^31`; `none` = the `i32` addition overflows. -/
def hornerN (x2 : Nat) : List Nat → Nat → Option Nat
  | [], R => some R
  | A :: as, R =>
    forceNat ((R * x2 + 9223372036854775808 - 2147483648 * x2) / 4294967296 + A) fun T =>
      if Nat.ble 2147483648 T && Nat.blt T 6442450944 then hornerN x2 as (T - 2147483648) else none

/-- `atani` on naturals; `none` = some intermediate leaves its type, or the polynomial value is negative -/
def ataniN (x : Nat) : Option Nat :=
  forceNat x fun x =>
  if Nat.blt x 4294967296 && Nat.blt (x * x) 9223372036854775808 then
    forceNat (x * x / 4294967296) fun x2 =>
      if Nat.blt x2 2147483648 then
        match hornerN x2 [1144511523, 3283307649, 1514983926, 2411573281, 2033825429, 2232926925]
            2147483648 with
        | some R =>
          if Nat.ble 2147483648 R then some ((R - 2147483648) * x / 268435456 % 4294967296) else none
        | none => none
      else none
  else none

theorem R_ok_bind {α β : Type} (a : α) (f : α → R β) : (Except.ok a >>= f) = f a := rfl

theorem hornerN_ok (x2 : Nat) (hx2 : x2 < 2147483648) : ∀ (as : List Int) (R R' : Nat),
    (∀ a ∈ as, -2147483648 ≤ a) → R < 4294967296 →
    hornerN x2 (as.map fun a => (a + 2147483648).toNat) R = some R' →
    atanHorner .checked (x2 : Int) as ((R : Int) - 2147483648) = .ok ((R' : Int) - 2147483648) ∧
      R' < 4294967296 := by
  intro as
  induction as with
  | nil =>
    intro R R' _ hR h
    simp only [List.map_nil, hornerN, Option.some.injEq] at h
    subst h
    exact ⟨rfl, hR⟩
  | cons a as ih =>
    intro R R' ha hR h
    simp only [List.map_cons, hornerN, forceNat_eq] at h
    split at h
    · next hc =>
      simp only [Bool.and_eq_true, Nat.ble_eq, Nat.blt_eq] at hc
      have ha0 : -2147483648 ≤ a := ha a (List.mem_cons_self ..)
      obtain ⟨ih1, ih2⟩ := ih _ R' (fun b hb => ha b (List.mem_cons_of_mem _ hb)) (by omega) h
      refine ⟨?_, ih2⟩
      -- the model step
      have hm : R * x2 ≤ 4294967295 * x2 := Nat.mul_le_mul_right x2 (by omega)
      have e : ((R : Int) - 2147483648) * (x2 : Int) = ((R * x2 : Nat) : Int) - 2147483648 * (x2 : Int) := by
        rw [Int.sub_mul]; push_cast; rfl
      generalize R * x2 = m at hm e hc h ih1
      have e32 : (2:Int) ^ 32 = 4294967296 := by decide
      have hin64 : inI 64 (((R : Int) - 2147483648) * (x2 : Int)) = true := by
        rw [e, inI_iff]; simp only [Nat.reduceSub, Int.reducePow]; omega
      have hs : (((m : Int) - 2147483648 * (x2 : Int)) / 4294967296) =
          (((m + 9223372036854775808 - 2147483648 * x2) / 4294967296 : Nat) : Int) - 2147483648 := by
        omega
      have hin32 : inI 32 (((m : Int) - 2147483648 * (x2 : Int)) / 4294967296) = true := by
        rw [inI_iff]; simp only [Nat.reduceSub, Int.reducePow]; omega
      simp only [atanHorner]
      rw [arithI_ok_of_in hin64]
      simp only [bind, Except.bind, shr, e32, e]
      rw [wrapI_of_in (by decide) hin32]
      have hr' : ((m : Int) - 2147483648 * (x2 : Int)) / 4294967296 + a =
          (((m + 9223372036854775808 - 2147483648 * x2) / 4294967296 + (a + 2147483648).toNat
            - 2147483648 : Nat) : Int) - 2147483648 := by
        rw [hs]; omega
      rw [hr', arithI_ok_of_in (by rw [inI_iff]; simp only [Nat.reduceSub, Int.reducePow]; omega)]
      exact ih1
    · cases h

theorem ataniN_ok {x r : Nat} (h : ataniN x = some r) : atani .checked (x : Int) = .ok (r : Int) := by
  unfold ataniN at h
  simp only [forceNat_eq] at h
  split at h
  · next hc =>
    simp only [Bool.and_eq_true, Nat.blt_eq] at hc
    split at h
    · next hx2 =>
      simp only [Nat.blt_eq] at hx2
      split at h
      · next R hR =>
        split at h
        · next hR0 =>
          simp only [Nat.ble_eq] at hR0
          simp only [Option.some.injEq] at h
          have hl : ([1144511523, 3283307649, 1514983926, 2411573281, 2033825429, 2232926925] : List Nat) =
              atanCoeffs.reverse.map fun a => (a + 2147483648).toNat := by decide +kernel
          rw [hl] at hR
          obtain ⟨hh, hR1⟩ := hornerN_ok _ hx2 atanCoeffs.reverse 2147483648 R (by decide +kernel) (by omega) hR
          have e32 : (2:Int) ^ 32 = 4294967296 := by decide
          have e28 : (2:Int) ^ 28 = 268435456 := by decide
          have exx : (x : Int) * (x : Int) = ((x * x : Nat) : Int) := by push_cast; rfl
          have hin64 : inI 64 ((x : Int) * (x : Int)) = true := by
            rw [exx, inI_iff]; simp only [Nat.reduceSub, Int.reducePow]; omega
          have hx2' : wrapI 32 (((x * x : Nat) : Int) / 4294967296) = ((x * x / 4294967296 : Nat) : Int) := by
            rw [wrapI_of_in (by decide) (by rw [inI_iff]; simp only [Nat.reduceSub, Int.reducePow]; omega)]
            omega
          have hx2eq : wrapI 32 (shr ((x : Int) * (x : Int)) 32) = ((x * x / 4294967296 : Nat) : Int) := by
            unfold shr; rw [e32, exx, hx2']
          rw [show ((2147483648 : Nat) : Int) - 2147483648 = 0 by omega] at hh
          have hm : (R - 2147483648) * x ≤ 2147483647 * x := Nat.mul_le_mul_right x (by omega)
          have e : ((R : Int) - 2147483648) * (x : Int) = (((R - 2147483648) * x : Nat) : Int) := by
            have : ((R - 2147483648 : Nat) : Int) = (R : Int) - 2147483648 := by omega
            rw [Int.natCast_mul, this]
          generalize (R - 2147483648) * x = m at hm e h
          have hin : inI 64 (m : Int) = true := by
            rw [inI_iff]; simp only [Nat.reduceSub, Int.reducePow]; omega
          unfold atani
          rw [arithI_ok_of_in hin64, R_ok_bind, hx2eq]
          dsimp only
          rw [hh, R_ok_bind, e, arithI_ok_of_in hin, R_ok_bind]
          unfold shr wrapU
          rw [e32, e28]
          subst h
          have : (m : Int) / 268435456 % 4294967296 = ((m / 268435456 % 4294967296 : Nat) : Int) := by omega
          rw [this]
        · cases h
      · cases h
    · cases h
  · cases h

/-! ## the table check -/

/-- `atani` at the quotient field `2^16` (the largest that `divi` produces, thanks to its clamp): `2^29 + 2599`;
    it is the largest value of the table and `< 2^30` -/
def atanMax : Int := 536873511

/-- `atani` (checked mode) at the argument that `divi` forms from the quotient field `q` -/
def atanQ (q : Nat) : R Int := atani .checked ((q : Int) * 2 ^ 15 + 2 ^ 14)

/-- the same through the evaluation-friendly copy -/
def atanQN (q : Nat) : Option Nat := ataniN (q * 32768 + 16384)

theorem atanQN_some {q r : Nat} (h : atanQN q = some r) : atanQ q = .ok (r : Int) := by
  have e : ((q : Int) * 2 ^ 15 + 2 ^ 14) = ((q * 32768 + 16384 : Nat) : Int) := by
    have e15 : (2:Int) ^ 15 = 32768 := by decide
    have e14 : (2:Int) ^ 14 = 16384 := by decide
    rw [e15, e14]; omega
  unfold atanQ; rw [e]; exact ataniN_ok h

/-- generic executable table check: `f` succeeds on `q, …, q+n-1`, values non-decreasing, `≥ prev`, `≤ B` -/
def runTab (f : Nat → Option Nat) (B : Nat) : Nat → Nat → Nat → Bool
  | _, _, 0 => true
  | prev, q, n + 1 =>
    match f q with
    | some r => forceNat r fun r => forceNat (q + 1) fun q' =>
        Nat.ble prev r && (Nat.ble r B && runTab f B r q' n)
    | none => false

theorem runTab_spec (f : Nat → Option Nat) (B : Nat) : ∀ (n : Nat) (prev : Nat) (q : Nat),
    runTab f B prev q n = true →
    ∀ i, i < n → ∃ r, f (q + i) = some r ∧ prev ≤ r ∧ r ≤ B ∧
      (i + 1 < n → ∃ r', f (q + i + 1) = some r' ∧ r ≤ r') := by
  intro n
  induction n with
  | zero => intro prev q _ i hi; omega
  | succ n ih =>
    intro prev q h i hi
    unfold runTab at h
    split at h
    · next r hr =>
      simp only [forceNat_eq, Bool.and_eq_true, Nat.ble_eq] at h
      obtain ⟨h1, h2, h3⟩ := h
      cases i with
      | zero =>
        refine ⟨r, by simpa using hr, h1, h2, ?_⟩
        intro hn
        obtain ⟨r', hr', hle, _, _⟩ := ih r (q + 1) h3 0 (by omega)
        exact ⟨r', by simpa using hr', hle⟩
      | succ j =>
        obtain ⟨r', hr', hle, hmax, hnext⟩ := ih r (q + 1) h3 j (by omega)
        have e : q + 1 + j = q + (j + 1) := by omega
        rw [e] at hr' hnext
        exact ⟨r', hr', by omega, hmax, fun hn => hnext (by omega)⟩
    · cases h

/-- executable table check for `atani`, see the module doc -/
def atanRun (q n : Nat) : Bool := runTab atanQN 536873511 0 q n

theorem atanRun_spec {q n : Nat} (h : atanRun q n = true) :
    ∀ i, i < n → ∃ r : Nat, atanQ (q + i) = .ok (r : Int) ∧ r ≤ 536873511 ∧
      (i + 1 < n → ∃ r' : Nat, atanQ (q + i + 1) = .ok (r' : Int) ∧ r ≤ r') := by
  intro i hi
  obtain ⟨r, hr, _, h1, h2⟩ := runTab_spec atanQN 536873511 n 0 q h i hi
  refine ⟨r, atanQN_some hr, h1, fun hn => ?_⟩
  obtain ⟨r', hr', hle⟩ := h2 hn
  exact ⟨r', atanQN_some hr', hle⟩

end Idsp
