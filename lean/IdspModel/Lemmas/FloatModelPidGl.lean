import IdspModel.Lemmas.FloatModelPid
import IdspModel.Lemmas.PidGl
/-!
  `pidGl` / `pidBuild` (`Model/Coeff.lean`) under the rounding model with division: explicit form of `pidGl` for the
  three orders (any operations), rounding counts of every intermediate value against exact real arithmetic
  (`fieldOps ℝ`).
-/
namespace Idsp

/-- the normalised limit of one action: `g / limit`, `0` when the limit is unset (`+∞`) -/
def fpidLim {α : Type} (o : FOps α) (g : α) : Option α → α
  | some lim => o.div g lim
  | none => o.ofNat 0

section generic
variable {α : Type} (o : FOps α)

/-- order P (2): `pw = (1·p)·p`, `z2 = 1/pw`, `z1 = z2·p`, `z0 = z1·p`; slots P, D, D2 -/
theorem fpidGl_order2 (p k0 k1 k2 k3 k4 : α) (m0 m1 m2 m3 m4 : Option α) :
    pidGl o p 2 [k0, k1, k2, k3, k4] [m0, m1, m2, m3, m4] =
      [(o.mul k2 (o.mul (o.mul (o.div (o.ofNat 1) (o.mul (o.mul (o.ofNat 1) p) p)) p) p), o.ofNat 1),
       (o.mul k3 (o.mul (o.div (o.ofNat 1) (o.mul (o.mul (o.ofNat 1) p) p)) p),
        fpidLim o (o.mul k3 (o.mul (o.div (o.ofNat 1) (o.mul (o.mul (o.ofNat 1) p) p)) p)) m3),
       (o.mul k4 (o.div (o.ofNat 1) (o.mul (o.mul (o.ofNat 1) p) p)),
        fpidLim o (o.mul k4 (o.div (o.ofNat 1) (o.mul (o.mul (o.ofNat 1) p) p))) m4)] := by
  cases m3 <;> cases m4 <;> rfl

/-- order I (1): `pw = 1·p`; slots I, P, D -/
theorem fpidGl_order1 (p k0 k1 k2 k3 k4 : α) (m0 m1 m2 m3 m4 : Option α) :
    pidGl o p 1 [k0, k1, k2, k3, k4] [m0, m1, m2, m3, m4] =
      [(o.mul k1 (o.mul (o.mul (o.div (o.ofNat 1) (o.mul (o.ofNat 1) p)) p) p),
        fpidLim o (o.mul k1 (o.mul (o.mul (o.div (o.ofNat 1) (o.mul (o.ofNat 1) p)) p) p)) m1),
       (o.mul k2 (o.mul (o.div (o.ofNat 1) (o.mul (o.ofNat 1) p)) p), o.ofNat 1),
       (o.mul k3 (o.div (o.ofNat 1) (o.mul (o.ofNat 1) p)),
        fpidLim o (o.mul k3 (o.div (o.ofNat 1) (o.mul (o.ofNat 1) p))) m3)] := by
  cases m1 <;> cases m3 <;> rfl

/-- order I2 (0): `pw = 1`; slots I2, I, P -/
theorem fpidGl_order0 (p k0 k1 k2 k3 k4 : α) (m0 m1 m2 m3 m4 : Option α) :
    pidGl o p 0 [k0, k1, k2, k3, k4] [m0, m1, m2, m3, m4] =
      [(o.mul k0 (o.mul (o.mul (o.div (o.ofNat 1) (o.ofNat 1)) p) p),
        fpidLim o (o.mul k0 (o.mul (o.mul (o.div (o.ofNat 1) (o.ofNat 1)) p) p)) m0),
       (o.mul k1 (o.mul (o.div (o.ofNat 1) (o.ofNat 1)) p),
        fpidLim o (o.mul k1 (o.mul (o.div (o.ofNat 1) (o.ofNat 1)) p)) m1),
       (o.mul k2 (o.div (o.ofNat 1) (o.ofNat 1)), o.ofNat 1)] := by
  cases m0 <;> cases m1 <;> rfl

end generic

namespace FlModelD

variable {u : ℝ} (M : FlModelD u)

theorem rel_fpidLim (hu1 : u < 1) {n : ℕ} {g' g : ℝ} (h : fpidRel u n g' g) (m : Option ℝ) :
    fpidRel u (n + 1) (fpidLim M.fpidOps g' m) (fpidLim (fieldOps ℝ) g m) := by
  cases m with
  | none => exact fpidRel.refl M.u_nonneg hu1 _ _
  | some lim => exact M.rel_fdiv hu1 h (fpidRel.refl M.u_nonneg hu1 0 lim)

/-- the three `(g, l)` pairs of the rounded `pidGl` against the exact ones, with the number of roundings of each:
    `nG j = order + 4 − j`, `nL j = order + 5 − j` (the P slot has `l = 1` exactly) -/
structure GlRel (nG0 nG1 nG2 nL0 nL1 nL2 : ℕ) (gl' gl : List (ℝ × ℝ)) : Prop where
  ex : ∃ g0' l0' g1' l1' g2' l2' g0 l0 g1 l1 g2 l2, gl' = [(g0', l0'), (g1', l1'), (g2', l2')] ∧
    gl = [(g0, l0), (g1, l1), (g2, l2)] ∧
    fpidRel u nG0 g0' g0 ∧ fpidRel u nG1 g1' g1 ∧ fpidRel u nG2 g2' g2 ∧
    fpidRel u nL0 l0' l0 ∧ fpidRel u nL1 l1' l1 ∧ fpidRel u nL2 l2' l2

theorem glRel_order2 (hu1 : u < 1) (p k0 k1 k2 k3 k4 : ℝ) (m0 m1 m2 m3 m4 : Option ℝ) :
    GlRel (u := u) 6 5 4 0 6 5 (pidGl M.fpidOps p 2 [k0, k1, k2, k3, k4] [m0, m1, m2, m3, m4])
      (pidGl (fieldOps ℝ) p 2 [k0, k1, k2, k3, k4] [m0, m1, m2, m3, m4]) := by
  have r0 := fun x : ℝ => fpidRel.refl M.u_nonneg hu1 0 x
  have hpw := M.rel_fmul hu1 (M.rel_fmul hu1 (r0 ((1 : ℕ) : ℝ)) (r0 p)) (r0 p)
  have hz2 := M.rel_fdiv hu1 (r0 ((1 : ℕ) : ℝ)) hpw
  have hz1 := M.rel_fmul hu1 hz2 (r0 p)
  have hz0 := M.rel_fmul hu1 hz1 (r0 p)
  have hg0 := M.rel_fmul hu1 (r0 k2) hz0
  have hg1 := M.rel_fmul hu1 (r0 k3) hz1
  have hg2 := M.rel_fmul hu1 (r0 k4) hz2
  rw [fpidGl_order2, fpidGl_order2]
  exact ⟨⟨_, _, _, _, _, _, _, _, _, _, _, _, rfl, rfl, hg0, hg1, hg2, r0 _, M.rel_fpidLim hu1 hg1 m3,
    M.rel_fpidLim hu1 hg2 m4⟩⟩

theorem glRel_order1 (hu1 : u < 1) (p k0 k1 k2 k3 k4 : ℝ) (m0 m1 m2 m3 m4 : Option ℝ) :
    GlRel (u := u) 5 4 3 6 0 4 (pidGl M.fpidOps p 1 [k0, k1, k2, k3, k4] [m0, m1, m2, m3, m4])
      (pidGl (fieldOps ℝ) p 1 [k0, k1, k2, k3, k4] [m0, m1, m2, m3, m4]) := by
  have r0 := fun x : ℝ => fpidRel.refl M.u_nonneg hu1 0 x
  have hpw := M.rel_fmul hu1 (r0 ((1 : ℕ) : ℝ)) (r0 p)
  have hz2 := M.rel_fdiv hu1 (r0 ((1 : ℕ) : ℝ)) hpw
  have hz1 := M.rel_fmul hu1 hz2 (r0 p)
  have hz0 := M.rel_fmul hu1 hz1 (r0 p)
  have hg0 := M.rel_fmul hu1 (r0 k1) hz0
  have hg1 := M.rel_fmul hu1 (r0 k2) hz1
  have hg2 := M.rel_fmul hu1 (r0 k3) hz2
  rw [fpidGl_order1, fpidGl_order1]
  exact ⟨⟨_, _, _, _, _, _, _, _, _, _, _, _, rfl, rfl, hg0, hg1, hg2, M.rel_fpidLim hu1 hg0 m1, r0 _,
    M.rel_fpidLim hu1 hg2 m3⟩⟩

theorem glRel_order0 (hu1 : u < 1) (p k0 k1 k2 k3 k4 : ℝ) (m0 m1 m2 m3 m4 : Option ℝ) :
    GlRel (u := u) 4 3 2 5 4 0 (pidGl M.fpidOps p 0 [k0, k1, k2, k3, k4] [m0, m1, m2, m3, m4])
      (pidGl (fieldOps ℝ) p 0 [k0, k1, k2, k3, k4] [m0, m1, m2, m3, m4]) := by
  have r0 := fun x : ℝ => fpidRel.refl M.u_nonneg hu1 0 x
  have hz2 := M.rel_fdiv hu1 (r0 ((1 : ℕ) : ℝ)) (r0 ((1 : ℕ) : ℝ))
  have hz1 := M.rel_fmul hu1 hz2 (r0 p)
  have hz0 := M.rel_fmul hu1 hz1 (r0 p)
  have hg0 := M.rel_fmul hu1 (r0 k0) hz0
  have hg1 := M.rel_fmul hu1 (r0 k1) hz1
  have hg2 := M.rel_fmul hu1 (r0 k2) hz2
  rw [fpidGl_order0, fpidGl_order0]
  exact ⟨⟨_, _, _, _, _, _, _, _, _, _, _, _, rfl, rfl, hg0, hg1, hg2, M.rel_fpidLim hu1 hg0 m0,
    M.rel_fpidLim hu1 hg1 m1, r0 _⟩⟩

/-- the normalisation `a0i = fl(1 / fl(fl(fl(0 + l0) + l1) + l2))` for non-negative exact `l_i` -/
theorem rel_a0i (hu1 : u < 1) {b0 b1 b2 : ℕ} {l0' l1' l2' l0 l1 l2 : ℝ} (h0 : fpidRel u b0 l0' l0)
    (h1 : fpidRel u b1 l1' l1) (h2 : fpidRel u b2 l2' l2) (p0 : 0 ≤ l0) (p1 : 0 ≤ l1) (p2 : 0 ≤ l2) :
    fpidRel u (0 + (max (max (max 0 b0 + 1) b1 + 1) b2 + 1) + 1)
      (M.fdiv ((1 : ℕ) : ℝ) (M.fadd (M.fadd (M.fadd ((0 : ℕ) : ℝ) l0') l1') l2'))
      (((1 : ℕ) : ℝ) / (((0 : ℕ) : ℝ) + l0 + l1 + l2)) := by
  have r0 := fun x : ℝ => fpidRel.refl M.u_nonneg hu1 0 x
  have s0 := M.rel_fadd_nonneg hu1 (r0 ((0 : ℕ) : ℝ)) h0 (by simp) p0
  have s1 := M.rel_fadd_nonneg hu1 s0 h1 (by simpa using p0) p1
  have s2 := M.rel_fadd_nonneg hu1 s1 h2 (by simp; linarith) p2
  exact M.rel_fdiv hu1 (r0 _) s2

end FlModelD

end Idsp
