import IdspModel.Model.Coeff
import IdspModel.Model.Num
import IdspModel.Model.Filter
/-! Float instances of the coefficient-builder model for the driver (Lean `Float` = IEEE binary64).
    Results are compared with the crate's f64 results with a relative tolerance (libm differs in the last ulp). -/
namespace Idsp

def floatOps : FOps Float :=
  { add := (· + ·), sub := (· - ·), mul := (· * ·), div := (· / ·), neg := fun x => -x,
    ofNat := fun n => n.toFloat, half := 0.5, ln2 := Float.log 2.0,
    sqrt := Float.sqrt, sin := Float.sin, cos := Float.cos, sinh := Float.sinh }

/-- IEEE binary32 instance: `PidBuilder::<f32>` / `Filter::<f32>` -/
def float32Ops : FOps Float32 :=
  { add := (· + ·), sub := (· - ·), mul := (· * ·), div := (· / ·), neg := fun x => -x,
    ofNat := fun n => Float32.ofNat n, half := 0.5, ln2 := Float32.log 2.0,
    sqrt := Float32.sqrt, sin := Float32.sin, cos := Float32.cos, sinh := Float32.sinh }

def f32OfBits (v : Int) : Float32 := Float32.ofBits v.toNat.toUInt32

/-- `Coefficient::quantize::<f32>` for the fixed-point types: the product and the rounding happen in binary32 -/
def quantizeInt32 (w q : Nat) (v : Float32) : Int :=
  let r := (v * (2 : Float32) ^ (Float32.ofNat q)).round
  if r.isNaN then 0 else
  let lo : Int := -(2 ^ (w - 1))
  let hi : Int := 2 ^ (w - 1) - 1
  let r := r.toFloat
  if r ≤ Float.ofInt lo then lo else if r ≥ Float.ofInt hi then hi else
    (if r < 0 then -((-r).toUInt64.toNat : Int) else (r.toUInt64.toNat : Int))

def fOfBits (v : Int) : Float := Float.ofBits v.toNat.toUInt64
def fToBits (x : Float) : Int := x.toBits.toNat

/-- `Coefficient::quantize` for the fixed-point types: `(value * (1 << Q)).round() as T` (saturating cast) -/
def quantizeInt (w q : Nat) (v : Float) : Int :=
  let r := (v * (2 : Float) ^ q.toFloat).round
  if r.isNaN then 0 else
  let lo : Int := -(2 ^ (w - 1))
  let hi : Int := 2 ^ (w - 1) - 1
  if r ≤ Float.ofInt lo then lo else if r ≥ Float.ofInt hi then hi else
    (if r < 0 then -((-r).toUInt64.toNat : Int) else (r.toUInt64.toNat : Int))

def shapeOf (kind : Int) (v : Float) : Shape Float :=
  match kind with
  | 0 => .q v
  | 1 => .bandwidth v
  | _ => .slope v

/-- relative/absolute closeness used for float results -/
def fclose (a b : Float) (tol : Float) : Bool :=
  if a.isNaN || b.isNaN then a.isNaN && b.isNaN
  else if a == b then true
  else (a - b).abs ≤ tol * (a.abs + b.abs) || (a - b).abs ≤ 1e-300

/-- `f64::copysign`: magnitude of `x`, sign bit of `s` -/
def fcopysign (x s : Float) : Float :=
  Float.ofBits ((x.toBits &&& 0x7fffffffffffffff) ||| (s.toBits &&& 0x8000000000000000))

/-- f64 -> i32/i64 `as` cast (saturating, NaN -> 0) -/
def fToInt (w : Nat) (v : Float) : Int :=
  if v.isNaN then 0 else
  let lo : Int := -(2 ^ (w - 1))
  let hi : Int := 2 ^ (w - 1) - 1
  if v ≤ Float.ofInt lo then lo else if v ≥ Float.ofInt hi then hi else
    let t := if v < 0 then v.ceil else v.floor
    (if t < 0 then -((-t).toUInt64.toNat : Int) else (t.toUInt64.toNat : Int))

/-- glue of `Pid::<f64>::build::<C, f64>(period, b_scale, y_scale)`: the gains/limits handed to `PidBuilder` -/
def pidReprArgs (gain limit : List Float) (bScale : Float) : List Float × List (Option Float) :=
  let p := gain.getD 2 0
  (gain.map fun g => bScale * fcopysign g p,
   limit.map fun l =>
     let l := if l.isNaN then Float.ofBits 0x7ff0000000000000 else l
     let v := bScale * fcopysign l p
     if v.isInf then none else some v)

/-- `f32::copysign` -/
def fcopysign32 (x s : Float32) : Float32 :=
  Float32.ofBits ((x.toBits &&& 0x7fffffff) ||| (s.toBits &&& 0x80000000))

/-- f32 -> i32/i64 `as` cast (saturating, NaN -> 0) -/
def fToInt32 (w : Nat) (v : Float32) : Int := fToInt w v.toFloat

/-- glue of `Pid::<f32>::build::<C, f32>`: all in binary32 -/
def pidReprArgs32 (gain limit : List Float32) (bScale : Float32) : List Float32 × List (Option Float32) :=
  let p := gain.getD 2 0
  (gain.map fun g => bScale * fcopysign32 g p,
   limit.map fun l =>
     let l := if l.isNaN then Float32.ofBits 0x7f800000 else l
     let v := bScale * fcopysign32 l p
     if v.isInf then none else some v)

end Idsp
