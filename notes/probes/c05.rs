use idsp::Coefficient;
fn fdiv(a: i64, b: i64) -> i64 { a.div_euclid(b) }
fn main() {
    // i8: Q=6, ONE=64, acc i16. exhaustive u, s (such that total fits i16), e1 in 0..64, limits lattice
    let lims: [(i8, i8); 6] = [(-128, 127), (-128, -125), (0, 3), (-4, 127), (124, 127), (-64, 63)];
    let mut n = 0u64; let mut bad = 0u64;
    for u in i8::MIN..=i8::MAX { for e1 in 0..64i8 { for s in i16::MIN..=i16::MAX {
        let total = s as i64 + (u as i64) * 64 + e1 as i64;
        if total < i16::MIN as i64 || total > i16::MAX as i64 { continue; }
        for &(mn, mx) in &lims {
            let (y, e) = u.macc(s, mn, mx, e1);
            let yy = fdiv(total, 64).clamp(mn as i64, mx as i64); let ee = total.rem_euclid(64);
            n += 1; if y as i64 != yy || e as i64 != ee { bad += 1; if bad < 5 { println!("BAD u={} e1={} s={} lim=({},{}) got ({},{}) want ({},{})", u, e1, s, mn, mx, y, e, yy, ee); } }
        }
    }}}
    println!("macc i8 cases {} bad {}", n, bad);
    let mut bad2 = 0;
    for a in i8::MIN..=i8::MAX { for b in i8::MIN..=i8::MAX {
        let p = fdiv(a as i64 * b as i64 + 32, 64);
        if p >= -128 && p <= 127 { if a.mul_scaled(b) as i64 != p { bad2 += 1; } }
        if b != 0 { let q = ((a as i64) * 64) / (b as i64); if q >= -128 && q <= 127 { if a.div_scaled(b) as i64 != q { bad2 += 1; } } }
    }}
    println!("mul/div i8 bad {}", bad2);
}
