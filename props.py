"""Per-property configuration of ./check (what is proved, what is explored, which op families tie the model)."""

TRUSTED_BASE = [
    "Lean 4.33.0 kernel; axioms allowed: propext, Classical.choice, Quot.sound (audited with #print axioms on every run); no sorry/admit/native_decide/bv_decide/implemented_by/unsafe",
    "IdspModel/Rust.lean: wrapI/wrapU/arithI/shr/... are the semantics of rustc integer operations in the two profiles (validated by the correspondence stream on boundary lattices)",
    "hand-written model IdspModel/Model/*.lean is tied to /repo only by the behavioural correspondence (harness/src/gen.rs -> compiled Lean driver), which is sampled, not exhaustive, unless the evidence says so",
    "harness (Rust, catch_unwind, decimal I/O) and driver (Lean I/O, parsing) are trusted glue",
]

PROPS = {
    "C17": {
        "families": ["osub", "unwrap", "accu"],
        "n_quick": 60000, "n_thorough": 600000,
        "clauses_proved": [
            "overflowing_sub: w in {-1,0,1} and y-x = d - w*2^bits for every width and pair (overflowing_sub_exact)",
            "Unwrapper: returned value is the wrapped increment; accumulator = old + increment; reduces to the new sample (unwrapper_step, unwrapper_tracks_last)",
            "Unwrapper: wide output = running sum of increments for every sequence (unwrapper_sum, unwrapper_sum_exact)",
            "Accu: n-th item = start + n*step mod 2^bits, iterator total (accu_nth)",
        ],
        "clauses_explored": [],
        "level_text": "Every clause of the property is a kernel-checked theorem about the model, for all widths, pairs, sample sequences and (start, step, n); the model is tied to the crate by correspondence on 3.6e5 op lines per run and by a native oracle that is exhaustive for i8 (and i16 in the thorough tier).",
        "level_note": "Model: overflowingSub, unwrapperUpdate, accuNext (IdspModel/Model/Unwrap.lean). Not modelled: Unwrapper::wraps (no primitive type satisfies its trait bounds), serde derives.",
        "rule": "osub: all i8 pairs (and all i16 pairs in thorough), lattice/random i32/i64; Unwrapper: random walks with forced wraps, each sequence distinct; Accu: (start, step, n) triples",
    },
}

NOT_APPLICABLE = {
    "C%02d" % i: "check not built yet (work in progress in this session; see DESIGN.md section 5 for the plan)" for i in range(1, 21)
}
