import IdspModel.Lemmas.PidGl
/-!
# `PidBuilder::build` over a field with exact coefficients: coefficient formulas and transfer function
-/
namespace Idsp

variable {K : Type} [Field K]

/-- the exact (un-quantised) instance of the builder: `C = T = K` -/
def pidBuildExact (period : K) (order : Nat) (gain : List K) (limit : List (Option K)) : K × K × K × K × K :=
  pidBuild (fieldOps K) id 0 (· + ·) (fun k x => (k : K) * x) period order gain limit

/-- closed form of the five coefficients in terms of the entries of `pidGl` -/
theorem pid_coeffs (period : K) (order : Nat) (gain : List K) (limit : List (Option K))
    (g0 l0 g1 l1 g2 l2 : K)
    (hgl : pidGl (fieldOps K) period order gain limit = [(g0, l0), (g1, l1), (g2, l2)]) :
    pidBuildExact period order gain limit =
      ((g0 + g1 + g2) / (l0 + l1 + l2), (-g1 - 2 * g2) / (l0 + l1 + l2), g2 / (l0 + l1 + l2),
       (-l1 - 2 * l2) / (l0 + l1 + l2), l2 / (l0 + l1 + l2)) := by
  rw [pidBuildExact, pidBuild_unfold _ _ _ _ _ _ _ _ _ _ _ _ _ _ _ hgl]
  simp only [fieldOps, id, Nat.cast_zero, Nat.cast_one, zero_add, Int.cast_one, Int.cast_zero, Int.cast_neg,
    Int.cast_ofNat, one_mul, zero_mul, add_zero, Prod.mk.injEq]
  refine ⟨?_, ?_, ?_, ?_, ?_⟩ <;> ring

/-- polynomial identities in `w = z⁻¹`, in any field `A` that `K` maps to (e.g. `ℝ → ℂ`) -/
theorem pid_polys {A : Type} [Field A] (f : K →+* A) (period : K) (order : Nat) (gain : List K)
    (limit : List (Option K)) (g0 l0 g1 l1 g2 l2 : K)
    (hgl : pidGl (fieldOps K) period order gain limit = [(g0, l0), (g1, l1), (g2, l2)])
    (hL : l0 + l1 + l2 ≠ 0) (b0 b1 b2 a1 a2 : K)
    (hb : pidBuildExact period order gain limit = (b0, b1, b2, a1, a2)) (w : A) :
    f b0 + f b1 * w + f b2 * w ^ 2
        = (f g0 + f g1 * (1 - w) + f g2 * (1 - w) ^ 2) / f (l0 + l1 + l2) ∧
    1 + f a1 * w + f a2 * w ^ 2
        = (f l0 + f l1 * (1 - w) + f l2 * (1 - w) ^ 2) / f (l0 + l1 + l2) := by
  rw [pid_coeffs period order gain limit g0 l0 g1 l1 g2 l2 hgl] at hb
  simp only [Prod.mk.injEq] at hb
  obtain ⟨rfl, rfl, rfl, rfl, rfl⟩ := hb
  have hfL : f (l0 + l1 + l2) ≠ 0 := (map_ne_zero f).mpr hL
  have hfL' : f l0 + f l1 + f l2 ≠ 0 := by simpa using hfL
  simp only [map_div₀, map_add, map_sub, map_neg, map_mul, map_ofNat]
  constructor <;> · field_simp; ring

end Idsp
