import IdspModel.Model.Cic
import IdspModel.Lemmas.CicSeq
import IdspModel.Lemmas.CicInt
import IdspModel.Lemmas.CicSettle
/-!
# C13 — the CIC interpolator is the boxcar^N FIR filter applied to the zero-order-held input

Property theorems only.  Vocabulary (defined in `IdspModel/Lemmas/CicSeq.lean`, `CicInt.lean`, `CicSettle.lean`):

* `Cic.interpAuto m w s0 v t` performs `t` calls of `Cic.interpolate` (build profile `m`, sample width `w`) from
  state `s0`, supplying the next low-rate sample `v k` (`k` = number of samples consumed so far) as `Some` exactly
  when `tick()` is true and `None` otherwise (the documented contract); it returns the final state, the number
  of consumed low-rate samples and the list of the `t` outputs, or the first panic.
* `ext v : Int → Int` extends the stream `v : Nat → Int` by zero to negative indices; `seqHold R u t = u (t / R)`
  is the zero-order hold (each sample repeated `R` times); `cicKernel R N` is the `N`-fold self-convolution of the
  length-`R` boxcar of ones and `fir h x t = ∑_k h[k]·x(t-k)` (`fir_eq_sum`).
* `stepResp R N = fir (cicKernel R N) (unit step)`: the step response of the kernel.
* order `n`, rate field `rate` (`R = rate + 1`), signed `w`-bit samples.
-/
namespace Idsp

private theorem cast_rate (rate : Nat) : ((rate + 1 : Nat) : Int) - 1 = (rate : Int) := by push_cast; omega

private theorem rate_le (rate : Nat) (hr : rate < 2 ^ 32) : ((rate + 1 : Nat) : Int) ≤ 2 ^ 32 := by
  have : (2 : Nat) ^ 32 = 4294967296 := by norm_num
  have : (2 : Int) ^ 32 = 4294967296 := by norm_num
  push_cast; omega

/-- (e) **obeying the contract never trips the `debug_assert` or the counter underflow**: with overflow checks and
    debug assertions on, a tick-driven run from the zero state can only panic at one of the two data
    arithmetic sites (`x - *c` in the combs, `*i += x` in the integrators), for every order, rate, width, input
    stream and number of calls. -/
theorem interpolate_contract_never_panics (w n rate : Nat) (hr : rate < 2 ^ 32) (v : Nat → Int) (t : Nat) (p : Panic)
    (h : Cic.interpAuto .checked w (Cic.new n rate) v t = .error p) :
    p.site = "cic.rs:131 x - *c" ∨ p.site = "cic.rs:141 *i += x" := by
  rw [← cast_rate rate] at h
  rcases interpAuto_checked (w := w) (N := n) (Nat.succ_pos rate) (rate_le rate hr) v t with
    ⟨q, hq, hs⟩ | ⟨s, k, ys, hrun, _⟩
  · rw [hq] at h; cases h; exact hs
  · rw [hrun] at h; cases h

/-- (e) **`tick()` is true exactly every `R` calls**: after `t` successful calls, `tick()` holds iff `t` is a
    multiple of `R = rate+1`; exactly `⌈t/R⌉` low-rate samples have been consumed; `rate` and the order are
    unchanged. -/
theorem interpolate_tick_period (w n rate : Nat) (hr : rate < 2 ^ 32) (v : Nat → Int) (t : Nat)
    (s : Cic) (k : Nat) (ys : List Int)
    (h : Cic.interpAuto .checked w (Cic.new n rate) v t = .ok (s, k, ys)) :
    s.tick = decide (t % (rate + 1) = 0) ∧ (k : Int) = ((t : Int) + rate) / (rate + 1) ∧
    s.rate = rate ∧ s.order = n := by
  rw [← cast_rate rate] at h
  have ok := interpAuto_checked_ok (Nat.succ_pos rate) (rate_le rate hr) v t h
  obtain ⟨h1, h2, h3, h4, _⟩ := intRunOk_control (Nat.succ_pos rate) ok
  refine ⟨h1, ?_, by rw [h3]; exact cast_rate rate, h4⟩
  rw [h2]; push_cast
  have : (t : Int) + ((rate : Int) + 1) - 1 = t + rate := by omega
  rw [this]

/-- (f) **every output is the exact FIR output**: if a tick-driven run of `t` calls from the zero state completes
    under overflow checks, then the `i`-th high-rate output (for every `i < t`) equals, exactly over the
    integers, `∑_k h[k] · hold(v)[i-k]` where `hold(v)` repeats each low-rate sample `R` times and `h` is the
    `n`-fold self-convolution of the length-`R` boxcar. -/
theorem interpolate_eq_fir (w n rate : Nat) (hr : rate < 2 ^ 32) (v : Nat → Int) (t : Nat)
    (s : Cic) (k : Nat) (ys : List Int)
    (h : Cic.interpAuto .checked w (Cic.new n rate) v t = .ok (s, k, ys)) :
    ys = (List.range t).map (fun i : Nat =>
      fir (cicKernel (rate + 1) n) (seqHold (rate + 1) (ext v)) (i : Int)) := by
  rw [← cast_rate rate] at h
  have ok := interpAuto_checked_ok (Nat.succ_pos rate) (rate_le rate hr) v t h
  rw [ok.outs]
  apply List.map_congr_left
  intro i _
  rw [fir_cicKernel]; rfl

/-- (f) the same with the sum written out -/
theorem interpolate_eq_fir_sum (w n rate : Nat) (hr : rate < 2 ^ 32) (v : Nat → Int) (t : Nat)
    (s : Cic) (k : Nat) (ys : List Int)
    (h : Cic.interpAuto .checked w (Cic.new n rate) v t = .ok (s, k, ys)) (i : Nat) (hi : i < t) :
    ys[i]? = some (sumTo (cicKernel (rate + 1) n).length (fun j =>
      (cicKernel (rate + 1) n).getD j 0 * ext v (((i : Int) - j) / ((rate + 1 : Nat) : Int)))) := by
  rw [interpolate_eq_fir w n rate hr v t s k ys h, List.getElem?_map, List.getElem?_range hi]
  simp only [Option.map_some, fir_eq_sum]; rfl

/-- (f) converse: **the run completes whenever no exact intermediate value overflows**. The exact intermediate
    values are the outputs of the `j`-th comb (`j`-th backward difference of the low-rate input, `j = 1…n`) and the
    contents of the `j`-th integrator (`j`-fold running sum of the held `n`-th difference). If all of them fit
    the sample type, a tick-driven run of any length from the zero state does not panic, so
    `interpolate_eq_fir` applies to it. -/
theorem interpolate_ok_of_fits (w n rate : Nat) (hr : rate < 2 ^ 32) (v : Nat → Int)
    (hc : ∀ (m : Int) (j : Nat), 1 ≤ j → j ≤ n → inI w (opPow (seqD 1) j (ext v) m) = true)
    (hi : ∀ (i : Int) (j : Nat), 1 ≤ j → j ≤ n →
      inI w (opPow seqS j (seqHold (rate + 1) (opPow (seqD 1) n (ext v))) i) = true)
    (t : Nat) :
    ∃ s k ys, Cic.interpAuto .checked w (Cic.new n rate) v t = .ok (s, k, ys) := by
  rw [← cast_rate rate]
  exact interpAuto_ok_of_fits (Nat.succ_pos rate) (rate_le rate hr) v hc hi t

/-- (f) **`get_interpolate()` equals the value just returned**, for every state, profile and input. -/
theorem getInterpolate_eq_last (m : Mode) (w : Nat) (s s' : Cic) (inp : Option Int) (y : Int)
    (h : s.interpolate m w inp = .ok (s', y)) : s'.getInterpolate = y :=
  getInterpolate_after h

/-- contract violation: `Some` when `tick()` is false panics (debug assertions on). -/
theorem interpolate_some_off_tick_checked_panics (w : Nat) (s : Cic) (x : Int) (h : s.tick = false) :
    s.interpolate .checked w (some x) = .error ⟨"cic.rs:128 debug_assert_eq!(self.index, 0)"⟩ :=
  interpolate_some_checked_panics w s x (by simpa [Cic.tick] using h)

/-- contract violation: `None` when `tick()` is true panics (`index -= 1` underflows, overflow checks on). -/
theorem interpolate_none_on_tick_checked_panics (w : Nat) (s : Cic) (h : s.tick = true) :
    s.interpolate .checked w none = .error ⟨"cic.rs:137 self.index -= 1"⟩ :=
  interpolate_none_checked_panics w s (by simpa [Cic.tick] using h)

/-- the unit step response of the kernel rises monotonically from `0` to `R^N`, which it reaches after
    `(R-1)·N` samples. -/
theorem stepResp_shape (R n : Nat) (t : Int) :
    0 ≤ stepResp R n t ∧ stepResp R n t ≤ stepResp R n (t + 1) ∧ stepResp R n t ≤ (R : Int) ^ n ∧
    (t < 0 → stepResp R n t = 0) ∧ (0 ≤ t → ((R : Int) - 1) * n ≤ t → stepResp R n t = (R : Int) ^ n) :=
  ⟨stepResp_nonneg R n t, stepResp_mono R n t, stepResp_le R n t, stepResp_neg R n,
   fun h0 h => stepResp_settled R n t h h0⟩

/-- (g) **constant input from the zero state**: the `i`-th output is `x · stepResp i`; hence (see
    `stepResp_shape`) it moves monotonically from `0` towards `x·R^n`. -/
theorem interpolate_constant (w n rate : Nat) (hr : rate < 2 ^ 32) (x : Int) (t : Nat)
    (s : Cic) (k : Nat) (ys : List Int)
    (h : Cic.interpAuto .checked w (Cic.new n rate) (fun _ => x) t = .ok (s, k, ys)) :
    ys = (List.range t).map (fun i : Nat => x * stepResp (rate + 1) n (i : Int)) := by
  rw [← cast_rate rate] at h
  have ok := interpAuto_checked_ok (Nat.succ_pos rate) (rate_le rate hr) _ t h
  rw [ok.outs]
  apply List.map_congr_left
  intro i _
  exact intSpec_const (Nat.succ_pos rate) x _

/-- (g) **settled after `response_length()` outputs**: with constant input `x` from the zero state every output
    with index `i ≥ response_length() = rate·n` is exactly `x·(rate+1)^n`. -/
theorem interpolate_constant_settled (w n rate : Nat) (hr : rate < 2 ^ 32) (x : Int) (t : Nat)
    (s : Cic) (k : Nat) (ys : List Int)
    (h : Cic.interpAuto .checked w (Cic.new n rate) (fun _ => x) t = .ok (s, k, ys))
    (i : Nat) (hi : i < t) (hresp : (Cic.new n rate).responseLength ≤ i) :
    ys[i]? = some (x * ((rate : Int) + 1) ^ n) := by
  rw [interpolate_constant w n rate hr x t s k ys h, List.getElem?_map, List.getElem?_range hi]
  simp only [Option.map_some]
  have hl : (Cic.new n rate).responseLength = (rate : Int) * n := by
    simp [Cic.responseLength, Cic.new]
  rw [hl] at hresp
  rw [stepResp_settled (rate + 1) n i (by push_cast; rw [show (rate : Int) + 1 - 1 = rate by omega]; exact hresp)
    (by omega)]
  push_cast; rfl

/-- (g) **monotone approach from the previous settled level**: feed `x0` for `K` low-rate samples, long enough to
    settle (`K·R ≥ response_length()`), then `x1` forever. Every output from call `K·R` on is
    `x0·R^n + (x1-x0)·stepResp(i - K·R)`: by `stepResp_shape` it moves monotonically from the old level `x0·R^n`
    to the new level `x1·R^n`, never leaves the interval between them, and equals the new level from call
    `K·R + response_length()` on. -/
theorem interpolate_level_change (w n rate : Nat) (hr : rate < 2 ^ 32) (x0 x1 : Int) (K t : Nat)
    (hK : rate * n ≤ K * (rate + 1))
    (s : Cic) (k : Nat) (ys : List Int)
    (h : Cic.interpAuto .checked w (Cic.new n rate) (twoLevel K x0 x1) t = .ok (s, k, ys))
    (i : Nat) (hi : i < t) (hiK : K * (rate + 1) ≤ i) :
    ys[i]? = some (x0 * ((rate : Int) + 1) ^ n
      + (x1 - x0) * stepResp (rate + 1) n ((i : Int) - (K * (rate + 1) : Nat))) := by
  rw [← cast_rate rate] at h
  have ok := interpAuto_checked_ok (Nat.succ_pos rate) (rate_le rate hr) _ t h
  rw [ok.outs, List.getElem?_map, List.getElem?_range hi]
  simp only [Option.map_some]
  rw [intSpec_twoLevel (Nat.succ_pos rate)]
  have hs : stepResp (rate + 1) n (i : Int) = ((rate : Int) + 1) ^ n := by
    rw [stepResp_settled (rate + 1) n i _ (by omega)]
    · push_cast; rfl
    · have : (rate * n : Nat) ≤ i := Nat.le_trans hK hiK
      have : ((rate * n : Nat) : Int) ≤ i := by exact_mod_cast this
      push_cast at this ⊢
      rw [show (rate : Int) + 1 - 1 = rate by omega]; exact this
  rw [hs]

/-- (h) **`settle_interpolate(x)` builds a fixed point**: if `settle_interpolate(x)` does not panic, then from the
    state `s'` it produces one full low-rate period under the contract (`Some x`, then `rate` times `None`)
    succeeds in both build profiles, returns to exactly the same state `s'`, consumes one sample and all
    `rate+1` outputs equal `x·g` with `g = gain() = (rate as T + 1)^N` (`= (rate+1)^N` when `rate` is
    representable, see `gain_eq` in C12). -/
theorem settle_fixed_point (m : Mode) (w rate : Nat) (hr : rate < 2 ^ 32) (s s' : Cic) (hs : s.rate = rate)
    (x : Int) (hx : inI w x = true)
    (h : s.settleInterpolate .checked w x = .ok s') :
    Cic.interpAuto m w s' (fun _ => x) (rate + 1)
      = .ok (s', 1, List.replicate (rate + 1) (x * (wrapI w rate + 1) ^ s.order)) := by
  obtain ⟨g, hg, _, hin, rfl⟩ := settleInterpolate_checked_ok h
  rw [hs] at hg
  subst hg
  have hG : inI w (x * (wrapI w rate + 1) ^ s.combs.length) = true := by
    by_cases h0 : s.combs.length = 0
    · rw [h0]; simpa using hx
    · exact hin h0
  have hG0 : s.combs.length = 0 → x * (wrapI w rate + 1) ^ s.combs.length = x := by
    intro h0; rw [h0]; simp
  have := settled_run m w s.combs.length rate hr x _ hG hG0 rate (Nat.le_refl _)
  rw [Int.sub_self] at this
  rw [hs]; exact this

/-- (h) the same with the gain spelled out: when `rate` is representable in the sample type all `rate+1` outputs
    are `x·(rate+1)^N`. -/
theorem settle_fixed_point_gain (m : Mode) (w rate : Nat) (hw : 0 < w) (hr : rate < 2 ^ 32)
    (hrw : inI w rate = true) (s s' : Cic) (hs : s.rate = rate)
    (x : Int) (hx : inI w x = true)
    (h : s.settleInterpolate .checked w x = .ok s') :
    Cic.interpAuto m w s' (fun _ => x) (rate + 1)
      = .ok (s', 1, List.replicate (rate + 1) (x * ((rate : Int) + 1) ^ s.order)) := by
  have := settle_fixed_point m w rate hr s s' hs x hx h
  rwa [wrapI_of_in hw hrw] at this

/-- (h) **the settled state is the state reached by feeding `x` forever**: from the zero state, at the tick after
    `K ≥ n+1` low-rate periods of constant input `x` (if nothing overflowed on the way) the filter state is exactly
    the state `settle_interpolate(x)` constructs (`rate` representable in the sample type). `n+1` periods are
    needed: the last comb register and `zoh` only settle then. -/
theorem settle_eq_run_from_zero (w n rate : Nat) (hw : 0 < w) (hr : rate < 2 ^ 32) (hrw : inI w rate = true)
    (x : Int) (K : Nat) (hK : n + 1 ≤ K)
    (s : Cic) (k : Nat) (ys : List Int)
    (hrun : Cic.interpAuto .checked w (Cic.new n rate) (fun _ => x) (K * (rate + 1)) = .ok (s, k, ys))
    (s' : Cic) (hset : (Cic.new n rate).settleInterpolate .checked w x = .ok s') :
    s' = s := by
  rw [← cast_rate rate] at hrun
  have ok := interpAuto_checked_ok (Nat.succ_pos rate) (rate_le rate hr) _ _ hrun
  obtain ⟨m, r, ht, h1, h2, _, inv⟩ := ok.inv
  have hd := decomp_unique (Nat.succ_pos rate) ht h1 h2 (K := K) (by push_cast; rfl)
  rw [hd.1, hd.2, ext_const] at inv
  have e1 := intInv_const_settled (Nat.succ_pos rate) x K hK inv
  obtain ⟨g, hg, _, _, e2⟩ := settleInterpolate_checked_ok hset
  have hlen : (Cic.new n (rate : Int)).combs.length = n := by simp [Cic.new]
  have hrate : (Cic.new n (rate : Int)).rate = rate := rfl
  rw [hlen, hrate] at e2 hg
  rw [e1, e2, hg, wrapI_of_in hw hrw, cast_rate]
  push_cast; rfl

/-- (h) without `settle_interpolate`: the state reached from zero after `K ≥ n+1` periods of constant `x`. -/
theorem run_from_zero_settles (w n rate : Nat) (hr : rate < 2 ^ 32) (x : Int) (K : Nat) (hK : n + 1 ≤ K)
    (s : Cic) (k : Nat) (ys : List Int)
    (hrun : Cic.interpAuto .checked w (Cic.new n rate) (fun _ => x) (K * (rate + 1)) = .ok (s, k, ys)) :
    s = settledState n rate 0 x (x * ((rate : Int) + 1) ^ n) := by
  rw [← cast_rate rate] at hrun
  have ok := interpAuto_checked_ok (Nat.succ_pos rate) (rate_le rate hr) _ _ hrun
  obtain ⟨m, r, ht, h1, h2, _, inv⟩ := ok.inv
  have hd := decomp_unique (Nat.succ_pos rate) ht h1 h2 (K := K) (by push_cast; rfl)
  rw [hd.1, hd.2, ext_const] at inv
  rw [intInv_const_settled (Nat.succ_pos rate) x K hK inv, cast_rate]
  push_cast; rfl

/-! ## concrete instances (non-vacuity) -/

/-- `i16`, order 2, `R = 3` (gain 9): low-rate samples 10, 10, -5, …: the outputs are the triangle-filtered held
    input. -/
example : Cic.interpAuto .checked 16 (Cic.new 2 2) (fun k => if k < 2 then 10 else -5) 10
    = .ok ({ rate := 2, index := 2, zoh := 15, combs := [-5, 0], integrators := [-30, -30] }, 4,
           [10, 30, 60, 80, 90, 90, 75, 45, 0, -30]) := by decide

/-- `i8`, order 2, `R = 3`: input 20 overflows an integrator (20·9 = 180 > 127): data-site panic only. -/
example : Cic.interpAuto .checked 8 (Cic.new 2 2) (fun _ => 20) 9 = .error ⟨"cic.rs:141 *i += x"⟩ := by decide

/-- `settle_interpolate(7)` for `i16`, order 3, rate 3 and the state after 4 periods of constant 7 coincide -/
example : (Cic.new 3 3).settleInterpolate .checked 16 7
    = .ok { rate := 3, index := 0, zoh := 0, combs := [7, 0, 0], integrators := [0, 0, 448] } := by decide
example : (Cic.interpAuto .checked 16 (Cic.new 3 3) (fun _ => 7) 16).map (·.1)
    = .ok { rate := 3, index := 0, zoh := 0, combs := [7, 0, 0], integrators := [0, 0, 448] } := by decide
/-- … but not yet after 3 periods (`zoh` still carries the comb transient): `n+1` is sharp -/
example : (Cic.interpAuto .checked 16 (Cic.new 3 3) (fun _ => 7) 12).map (·.1)
    = .ok { rate := 3, index := 0, zoh := 7, combs := [7, 0, 0], integrators := [0, 0, 448] } := by decide

/-- contract violations on a concrete state -/
example : ({ rate := 3, index := 2, zoh := 0, combs := [0], integrators := [0] } : Cic).interpolate .checked 16 (some 1)
    = .error ⟨"cic.rs:128 debug_assert_eq!(self.index, 0)"⟩ := by decide
example : (Cic.new 1 3).interpolate .checked 16 none = .error ⟨"cic.rs:137 self.index -= 1"⟩ := by decide

end Idsp
