import IdspModel.Model.Cossin
import IdspModel.Lemmas.Basic
/-!
Helper lemmas for C01 (`cossin`), part 1: the first-octant core never overflows, its value has a closed form
`cossinCoreVal`, per-row bounds lifted from a kernel-checked scan of the 128 table rows, and the whole
function equals the overflow-free closed form `cossinVal` (octant un-mapping of the core value).
Core Lean only.
-/
namespace Idsp

/-- equality of `cossin` results is decidable (used only by the `decide +kernel` examples that run the model) -/
instance cossinResultDecEq : DecidableEq (R (Int × Int)) := fun a b =>
  match a, b with
  | .ok x, .ok y => if h : x = y then isTrue (by rw [h]) else isFalse (fun e => h (Except.ok.inj e))
  | .error x, .error y => if h : x = y then isTrue (by rw [h]) else isFalse (fun e => h (Except.error.inj e))
  | .ok _, .error _ => isFalse (fun e => nomatch e)
  | .error _, .ok _ => isFalse (fun e => nomatch e)

/-- per-row acceptance test on a table word `l`: it is a `u32`, and the interpolated core outputs evaluated at
    the two extreme interpolation offsets `dphi = -12868` and `dphi = 12866` stay inside the stated bounds
    (the outputs are monotone in `dphi`, see `cossinRow_bounds`). -/
def cossinRowOk (l : Int) : Bool :=
  decide (0 ≤ l) && decide (l < 2 ^ 32) &&
  decide ((l % 2 ^ 16 + 2 ^ 16) * 2 ^ 14 - (l / 2 ^ 16 * (-12868)) / 2 ^ 7 ≤ 2147454703) &&
  decide (1518478556 ≤ (l % 2 ^ 16 + 2 ^ 16) * 2 ^ 14 - (l / 2 ^ 16 * 12866) / 2 ^ 7) &&
  decide ((l / 2 ^ 16) * 2 ^ 15 + ((l % 2 ^ 16 + 2 ^ 16) * 12866) / 2 ^ 8 ≤ 1518488231) &&
  decide (-1898 ≤ (l / 2 ^ 16) * 2 ^ 15 + ((l % 2 ^ 16 + 2 ^ 16) * (-12868)) / 2 ^ 8)

/-- the table has exactly 128 rows, so `getD … 0` below never falls back to its default for a row index `< 128` -/
theorem cossinTable_size : cossinTable.size = 128 := by decide +kernel

/-- every one of the 128 rows passes the test (kernel-evaluated scan of the whole table) -/
theorem cossinTable_rows_ok : ∀ i : Nat, i < 128 → cossinRowOk (cossinTable.getD i 0) = true := by
  decide +kernel

/-- overflow-free value of the first-octant core -/
def cossinCoreVal (field : Int) : Int × Int :=
  let l := cossinTable.getD (field / 2 ^ 15).toNat 0
  let dphi := ((field % 2 ^ 15 - 2 ^ 14) * 51471) / 2 ^ 16
  let cos0 := l % 2 ^ 16 + 2 ^ 16
  let sin0 := l / 2 ^ 16
  (cos0 * 2 ^ 14 - (sin0 * dphi) / 2 ^ 7, sin0 * 2 ^ 15 + (cos0 * dphi) / 2 ^ 8)

theorem cossin_mul_ediv_mono {a x y : Int} (k : Int) (ha : 0 ≤ a) (hk : 0 < k) (h : x ≤ y) : a * x / k ≤ a * y / k :=
  Int.ediv_le_ediv hk (Int.mul_le_mul_of_nonneg_left h ha)

theorem cossinRow_bounds {l d : Int} (h : cossinRowOk l = true) (hd0 : -12868 ≤ d) (hd1 : d ≤ 12866) :
    0 ≤ l ∧ l < 2 ^ 32 ∧
    1518478556 ≤ (l % 2 ^ 16 + 2 ^ 16) * 2 ^ 14 - (l / 2 ^ 16 * d) / 2 ^ 7 ∧
    (l % 2 ^ 16 + 2 ^ 16) * 2 ^ 14 - (l / 2 ^ 16 * d) / 2 ^ 7 ≤ 2147454703 ∧
    -1898 ≤ l / 2 ^ 16 * 2 ^ 15 + ((l % 2 ^ 16 + 2 ^ 16) * d) / 2 ^ 8 ∧
    l / 2 ^ 16 * 2 ^ 15 + ((l % 2 ^ 16 + 2 ^ 16) * d) / 2 ^ 8 ≤ 1518488231 := by
  simp only [cossinRowOk, Bool.and_eq_true, decide_eq_true_eq] at h
  obtain ⟨⟨⟨⟨⟨h0, h1⟩, h2⟩, h3⟩, h4⟩, h5⟩ := h
  have hs : 0 ≤ l / 2 ^ 16 := by omega
  have hc : 0 ≤ l % 2 ^ 16 + 2 ^ 16 := by omega
  have a1 := cossin_mul_ediv_mono (a := l / 2 ^ 16) (2 ^ 7) hs (by decide) hd0
  have a2 := cossin_mul_ediv_mono (a := l / 2 ^ 16) (2 ^ 7) hs (by decide) hd1
  have a3 := cossin_mul_ediv_mono (a := l % 2 ^ 16 + 2 ^ 16) (2 ^ 8) hc (by decide) hd0
  have a4 := cossin_mul_ediv_mono (a := l % 2 ^ 16 + 2 ^ 16) (2 ^ 8) hc (by decide) hd1
  refine ⟨h0, h1, ?_, ?_, ?_, ?_⟩ <;> omega

/-- `|a*d| ≤ A*D` from `0 ≤ a ≤ A`, `|d| ≤ D` -/
theorem cossin_mul_abs_bound {a d A D : Int} (ha0 : 0 ≤ a) (ha1 : a ≤ A) (hd0 : -D ≤ d) (hd1 : d ≤ D) :
    -(A * D) ≤ a * d ∧ a * d ≤ A * D := by
  have hD : 0 ≤ D := by omega
  have h1 : a * d ≤ a * D := Int.mul_le_mul_of_nonneg_left hd1 ha0
  have h2 : a * (-D) ≤ a * d := Int.mul_le_mul_of_nonneg_left hd0 ha0
  have h3 : a * D ≤ A * D := Int.mul_le_mul_of_nonneg_right ha1 hD
  rw [Int.mul_neg] at h2
  omega

theorem cossinCore_eq (m : Mode) {field : Int} (h0 : 0 ≤ field) (h1 : field < 2 ^ 22) :
    cossinCore m field = .ok (cossinCoreVal field) := by
  have hi : (field / 2 ^ 15).toNat < 128 := by omega
  have hrow := cossinTable_rows_ok _ hi
  have hd0 : -12868 ≤ ((field % 2 ^ 15 - 2 ^ 14) * 51471) / 2 ^ 16 := by omega
  have hd1 : ((field % 2 ^ 15 - 2 ^ 14) * 51471) / 2 ^ 16 ≤ 12866 := by omega
  obtain ⟨l0, l1, c0, c1, s0, s1⟩ := cossinRow_bounds hrow hd0 hd1
  unfold cossinCore cossinCoreVal
  simp only [shr, alignMsb, cossinDepth, PI4]
  generalize cossinTable.getD (field / 2 ^ 15).toNat 0 = l at *
  generalize hd : ((field % 2 ^ 15 - 2 ^ 14) * 51471) / 2 ^ 16 = d at *
  have hw : wrapI 32 (l / 2 ^ 16) = l / 2 ^ 16 := wrapI_of_in (by decide) (by rw [inI_iff]; omega)
  have m1 := cossin_mul_abs_bound (a := l / 2 ^ 16) (d := d) (A := 65535) (D := 12868) (by omega) (by omega) (by omega) (by omega)
  have m2 := cossin_mul_abs_bound (a := l % 2 ^ 16 + 2 ^ 16) (d := d) (A := 131071) (D := 12868) (by omega) (by omega) (by omega) (by omega)
  simp only [Nat.reduceSub, Nat.reduceAdd, hw]
  rw [arithI_ok_of_in (x := field % 2 ^ 15 - 2 ^ 14) (by rw [inI_iff]; omega)]
  simp only [bind, Except.bind]
  rw [arithI_ok_of_in (x := (field % 2 ^ 15 - 2 ^ 14) * 51471) (by rw [inI_iff]; omega)]
  simp only [hd]
  rw [arithI_ok_of_in (x := l % 2 ^ 16 + 2 ^ 16) (by rw [inI_iff]; omega)]
  simp only []
  rw [arithI_ok_of_in (x := l / 2 ^ 16 * d) (by rw [inI_iff]; omega)]
  simp only []
  rw [arithI_ok_of_in (x := (l % 2 ^ 16 + 2 ^ 16) * d) (by rw [inI_iff]; omega)]
  simp only []
  rw [wrapI_of_in (z := (l % 2 ^ 16 + 2 ^ 16) * 2 ^ 14) (by decide) (by rw [inI_iff]; omega),
    wrapI_of_in (z := l / 2 ^ 16 * 2 ^ 15) (by decide) (by rw [inI_iff]; omega)]
  rw [arithI_ok_of_in (x := (l % 2 ^ 16 + 2 ^ 16) * 2 ^ 14 - l / 2 ^ 16 * d / 2 ^ 7) (by rw [inI_iff]; omega)]
  simp only []
  rw [arithI_ok_of_in (x := l / 2 ^ 16 * 2 ^ 15 + (l % 2 ^ 16 + 2 ^ 16) * d / 2 ^ 8) (by rw [inI_iff]; omega)]

theorem cossinCoreVal_bounds {field : Int} (h0 : 0 ≤ field) (h1 : field < 2 ^ 22) :
    1518478556 ≤ (cossinCoreVal field).1 ∧ (cossinCoreVal field).1 ≤ 2147454703 ∧
    -1898 ≤ (cossinCoreVal field).2 ∧ (cossinCoreVal field).2 ≤ 1518488231 := by
  have hi : (field / 2 ^ 15).toNat < 128 := by omega
  have hrow := cossinTable_rows_ok _ hi
  have hd0 : -12868 ≤ ((field % 2 ^ 15 - 2 ^ 14) * 51471) / 2 ^ 16 := by omega
  have hd1 : ((field % 2 ^ 15 - 2 ^ 14) * 51471) / 2 ^ 16 ≤ 12866 := by omega
  obtain ⟨_, _, c0, c1, s0, s1⟩ := cossinRow_bounds hrow hd0 hd1
  exact ⟨c0, c1, s0, s1⟩

/-- octant (top three bits of the unsigned image) -/
def cossinOct (p : Int) : Int := p % 2 ^ 32 / 2 ^ 29
/-- the 22 bits below the octant bits; the low 7 bits are dropped -/
def cossinFld (p : Int) : Int := p % 2 ^ 29 / 2 ^ 7

/-- the gray-code un-mapping of the first-octant pair `(a, b)` by octant number -/
def cossinUnmap (o : Int) (v : Int × Int) : Int × Int :=
  if o = 0 then (v.1, v.2) else if o = 1 then (v.2, v.1) else if o = 2 then (-v.2, v.1)
  else if o = 3 then (-v.1, v.2) else if o = 4 then (-v.1, -v.2) else if o = 5 then (-v.2, -v.1)
  else if o = 6 then (v.2, -v.1) else (v.1, -v.2)

/-- the core argument: odd octants run the field backwards (`!phase`) -/
def cossinArg (o f : Int) : Int := if o % 2 = 1 then 2 ^ 22 - 1 - f else f

/-- overflow-free closed form of `cossin` -/
def cossinVal (p : Int) : Int × Int :=
  cossinUnmap (cossinOct p) (cossinCoreVal (cossinArg (cossinOct p) (cossinFld p)))

theorem cossin_bitU32_wrapU (x : Int) (i : Nat) : bitU32 (wrapU 32 x) i = bitU32 x i := by
  have h : wrapU 32 (wrapU 32 x) = wrapU 32 x := by
    simp only [wrapU]; exact Int.emod_emod_of_dvd _ (Int.dvd_refl _)
  unfold bitU32; rw [h]

theorem cossin_eq_val (m : Mode) {p : Int} (hp : inI 32 p = true) : cossin m p = .ok (cossinVal p) := by
  have ⟨hp0, hp1⟩ := inI_iff.mp hp
  have ho : 0 ≤ cossinOct p ∧ cossinOct p < 8 := by unfold cossinOct; omega
  have hf : 0 ≤ cossinFld p ∧ cossinFld p < 2 ^ 22 := by unfold cossinFld; omega
  have e29 : bitU32 p 29 = decide (cossinOct p % 2 = 1) := by
    simp only [bitU32, wrapU, shr, cossinOct]; rfl
  have e30 : bitU32 p 30 = decide (cossinOct p / 2 % 2 = 1) := by
    simp only [bitU32, wrapU, shr, cossinOct]; apply decide_eq_decide.mpr; omega
  have e31 : bitU32 p 31 = decide (cossinOct p / 4 = 1) := by
    simp only [bitU32, wrapU, shr, cossinOct]; apply decide_eq_decide.mpr; omega
  have hfield : shr (wrapU 32 (wrapU 32 (if bitU32 p 29 = true then -p - 1 else p) * 8)) 10
      = if cossinOct p % 2 = 1 then 2 ^ 22 - 1 - cossinFld p else cossinFld p := by
    rw [e29]
    by_cases hc : cossinOct p % 2 = 1 <;> simp only [hc, decide_true, decide_false, Bool.false_eq_true, ↓reduceIte] <;>
      simp only [shr, wrapU, cossinOct, cossinFld] at hc ⊢ <;> omega
  unfold cossin cossinVal cossinArg
  simp only [cossin_bitU32_wrapU]
  rw [hfield]
  generalize hfd : (if cossinOct p % 2 = 1 then 2 ^ 22 - 1 - cossinFld p else cossinFld p) = fd
  have hfd0 : 0 ≤ fd ∧ fd < 2 ^ 22 := by subst hfd; split <;> omega
  rw [cossinCore_eq m hfd0.1 hfd0.2]
  obtain ⟨c0, c1, s0, s1⟩ := cossinCoreVal_bounds hfd0.1 hfd0.2
  rw [e29, e30, e31]
  generalize cossinCoreVal fd = v at *
  obtain ⟨a, b⟩ := v
  simp only at c0 c1 s0 s1
  have na : arithI m 32 "cossin.rs:63 cos = -cos" (-a) = .ok (-a) := arithI_ok_of_in (by rw [inI_iff]; omega)
  have nb : arithI m 32 "cossin.rs:63 cos = -cos" (-b) = .ok (-b) := arithI_ok_of_in (by rw [inI_iff]; omega)
  have na' : arithI m 32 "cossin.rs:66 sin = -sin" (-a) = .ok (-a) := arithI_ok_of_in (by rw [inI_iff]; omega)
  have nb' : arithI m 32 "cossin.rs:66 sin = -sin" (-b) = .ok (-b) := arithI_ok_of_in (by rw [inI_iff]; omega)
  generalize cossinOct p = o at *
  have : o = 0 ∨ o = 1 ∨ o = 2 ∨ o = 3 ∨ o = 4 ∨ o = 5 ∨ o = 6 ∨ o = 7 := by omega
  rcases this with h | h | h | h | h | h | h | h <;> subst h <;>
    simp [cossinUnmap, bind, Except.bind, pure, Except.pure, na, nb, na', nb']

end Idsp
