import IdspModel.Model.CossinTable
import IdspModel.Lemmas.CossinAccTaylor
import Mathlib.Analysis.SpecialFunctions.Trigonometric.Bounds
import Mathlib.Tactic.Positivity
/-!
Accuracy of `cossin` against the real cosine/sine, part 2: the generic per-row argument.

For one table row (integers `C0 = (l & 0xffff) + 2^16`, `S = l >> 16`, centre angle `θ`), every in-row offset
`ph ∈ [-2^14, 2^14)` and every real sub-LSB offset `r ∈ [0, 1]`, the interpolated outputs
`C0·2^14 − ⌊S·d/2^7⌋`, `S·2^15 + ⌊C0·d/2^8⌋` with `d = ⌊ph·51471/2^16⌋` are compared with
`A·cos(θ + (ph+r)·π/2^24)`, `A·sin(…)`, `A = 2^31 − 0.85·2^15 = 2147455795.2`:
* floors are bounded exactly (`x − 1 < ⌊x⌋ ≤ x`),
* `cos(θ+δ) = cos θ cos δ − sin θ sin δ` with `1 − δ²/2 ≤ cos δ ≤ 1`, `|sin δ − δ| ≤ |δ|³/6`, `|δ| ≤ π/1024`,
* what remains is linear in the enclosures of `cos θ`, `sin θ`, `π` and is discharged by eight numeric
  inequalities per row (`Hb1 … HsL`), checked by `norm_num` in the generated files `CossinAccTab*.lean`.
The certified bound is `9.1e-6·A` (the exhaustive native maximum is `9.0232e-6·A`).
-/
namespace Idsp
open Real

/-- small-angle bounds for `|δ| ≤ π/1024` (with `π < 3.141592653589794`) -/
theorem cossinAcc_small {δ : ℝ} (h : |δ| ≤ 3.141592653589794 / 1024) :
    1 - 4.7062e-6 ≤ cos δ ∧ cos δ ≤ 1 ∧ δ - 4.82e-9 ≤ sin δ ∧ sin δ ≤ δ + 4.82e-9 := by
  have h0 := abs_nonneg δ
  have hsq : δ ^ 2 ≤ (3.141592653589794 / 1024) ^ 2 := by
    rw [← sq_abs]; exact pow_le_pow_left₀ h0 h 2
  have hcu : |δ| ^ 3 ≤ (3.141592653589794 / 1024) ^ 3 := pow_le_pow_left₀ h0 h 3
  have h1 := one_sub_sq_div_two_le_cos (x := δ)
  have h2 := abs_le.mp (abs_sub_sin_le δ)
  refine ⟨?_, cos_le_one δ, ?_, ?_⟩
  · have : δ ^ 2 / 2 ≤ 4.7062e-6 := by
      have : ((3.141592653589794 : ℝ) / 1024) ^ 2 / 2 ≤ 4.7062e-6 := by norm_num
      linarith
    linarith
  all_goals
    have : ((3.141592653589794 : ℝ) / 1024) ^ 3 / 6 ≤ 4.82e-9 := by norm_num
    linarith [h2.1, h2.2]


theorem cossinAcc_row_core {θ cl ch sl sh : ℝ} {C0 S : ℤ}
    (hc0 : 0 ≤ cos θ) (hs0 : 0 ≤ sin θ)
    (hcl : cl ≤ cos θ) (hch : cos θ ≤ ch) (hsl : sl ≤ sin θ) (hsh : sin θ ≤ sh)
    (hC0 : 0 ≤ C0) (hS0 : 0 ≤ S)
    (Hb1 : -(1/100 : ℝ) ≤ 2147455795.2 * (sl * (3.141592653589793 / 16777216)) - S * (51471/65536) / 128)
    (Hb2 : 2147455795.2 * (sh * (3.141592653589794 / 16777216)) - S * (51471/65536) / 128 ≤ (1/100 : ℝ))
    (Hb3 : -(1/100 : ℝ) ≤ C0 * (51471/65536) / 256 - 2147455795.2 * (ch * (3.141592653589794 / 16777216)))
    (Hb4 : C0 * (51471/65536) / 256 - 2147455795.2 * (cl * (3.141592653589793 / 16777216)) ≤ (1/100 : ℝ))
    (HcU : (C0:ℝ) * 16384 + S / 128 + 1 - 2147455795.2 * cl * (1 - 4.7062e-6) + 2147455795.2 * 4.82e-9
        + 16384 * (1/100) + 2147455795.2 * (sh * (3.141592653589794 / 16777216)) ≤ 9.1e-6 * 2147455795.2)
    (HcL : -(9.1e-6 * 2147455795.2) ≤ (C0:ℝ) * 16384 - 2147455795.2 * ch - 2147455795.2 * 4.82e-9 - 16384 * (1/100))
    (HsU : (S:ℝ) * 32768 - 2147455795.2 * sl * (1 - 4.7062e-6) + 2147455795.2 * 4.82e-9 + 16384 * (1/100)
        ≤ 9.1e-6 * 2147455795.2)
    (HsL : -(9.1e-6 * 2147455795.2) ≤ (S:ℝ) * 32768 - C0 / 256 - 1 - 2147455795.2 * sh - 2147455795.2 * 4.82e-9
        - 16384 * (1/100) - 2147455795.2 * (ch * (3.141592653589794 / 16777216)))
    (ph : ℤ) (hph0 : -16384 ≤ ph) (hph1 : ph < 16384) (r : ℝ) (hr0 : 0 ≤ r) (hr1 : r ≤ 1) :
    |((C0 * 2 ^ 14 - (S * (ph * 51471 / 2 ^ 16)) / 2 ^ 7 : ℤ) : ℝ)
        - 2147455795.2 * cos (θ + (ph + r) * (π / 2 ^ 24))| ≤ 9.1e-6 * 2147455795.2 ∧
    |((S * 2 ^ 15 + (C0 * (ph * 51471 / 2 ^ 16)) / 2 ^ 8 : ℤ) : ℝ)
        - 2147455795.2 * sin (θ + (ph + r) * (π / 2 ^ 24))| ≤ 9.1e-6 * 2147455795.2 := by
  -- integer floor facts
  generalize hd : ph * 51471 / 2 ^ 16 = d
  have hd1 : 65536 * d ≤ ph * 51471 := by omega
  have hd2 : ph * 51471 < 65536 * d + 65536 := by omega
  generalize hzc : S * d = zc
  generalize hzs : C0 * d = zs
  generalize hqc : zc / 2 ^ 7 = qc
  generalize hqs : zs / 2 ^ 8 = qs
  have hqc1 : 128 * qc ≤ zc := by omega
  have hqc2 : zc < 128 * qc + 128 := by omega
  have hqs1 : 256 * qs ≤ zs := by omega
  have hqs2 : zs < 256 * qs + 256 := by omega
  -- casts
  have rd1 : (65536:ℝ) * d ≤ ph * 51471 := by exact_mod_cast hd1
  have rd2 : (ph:ℝ) * 51471 < 65536 * d + 65536 := by exact_mod_cast hd2
  have rzc : (S:ℝ) * d = zc := by exact_mod_cast hzc
  have rzs : (C0:ℝ) * d = zs := by exact_mod_cast hzs
  have rqc1 : (128:ℝ) * qc ≤ zc := by exact_mod_cast hqc1
  have rqc2 : (zc:ℝ) < 128 * qc + 128 := by exact_mod_cast hqc2
  have rqs1 : (256:ℝ) * qs ≤ zs := by exact_mod_cast hqs1
  have rqs2 : (zs:ℝ) < 256 * qs + 256 := by exact_mod_cast hqs2
  have rS0 : (0:ℝ) ≤ S := by exact_mod_cast hS0
  have rC0 : (0:ℝ) ≤ C0 := by exact_mod_cast hC0
  have rp0 : (-16384:ℝ) ≤ ph := by exact_mod_cast hph0
  have rp1 : (ph:ℝ) ≤ 16383 := by exact_mod_cast (show ph ≤ 16383 by omega)
  -- products with d
  have sd1 : (S:ℝ) * (65536 * d) ≤ S * (ph * 51471) := mul_le_mul_of_nonneg_left rd1 rS0
  have sd2 : (S:ℝ) * (ph * 51471) ≤ S * (65536 * d + 65536) := mul_le_mul_of_nonneg_left rd2.le rS0
  have cd1 : (C0:ℝ) * (65536 * d) ≤ C0 * (ph * 51471) := mul_le_mul_of_nonneg_left rd1 rC0
  have cd2 : (C0:ℝ) * (ph * 51471) ≤ C0 * (65536 * d + 65536) := mul_le_mul_of_nonneg_left rd2.le rC0
  -- π
  have hpl := pi_gt_d20
  have hph := pi_lt_d20
  set κ : ℝ := π / 2 ^ 24 with hκ
  have hκl : 3.141592653589793 / 16777216 ≤ κ := by rw [hκ]; norm_num; linarith
  have hκh : κ ≤ 3.141592653589794 / 16777216 := by rw [hκ]; norm_num; linarith
  have hκ0 : 0 ≤ κ := le_trans (by norm_num) hκl
  -- small angle
  have hδ : |((ph:ℝ) + r) * κ| ≤ 3.141592653589794 / 1024 := by
    rw [abs_mul, abs_of_nonneg hκ0]
    have : |(ph:ℝ) + r| ≤ 16384 := by rw [abs_le]; constructor <;> linarith
    calc _ ≤ 16384 * (3.141592653589794 / 16777216 : ℝ) := mul_le_mul this hκh hκ0 (by norm_num)
      _ = _ := by norm_num
  obtain ⟨q1, q2, q3, q4⟩ := cossinAcc_small hδ
  have hc1 := cos_le_one θ
  have hs1 := sin_le_one θ
  rw [cos_add, sin_add]
  generalize cos θ = c at *
  generalize sin θ = s at *
  generalize cos (((ph:ℝ) + r) * κ) = cd at *
  generalize sin (((ph:ℝ) + r) * κ) = sd at *
  -- trig products
  have t1 : c * (1 - 4.7062e-6) ≤ c * cd := mul_le_mul_of_nonneg_left q1 hc0
  have t2 : c * cd ≤ c * 1 := mul_le_mul_of_nonneg_left q2 hc0
  have t3 : s * (((ph:ℝ) + r) * κ - 4.82e-9) ≤ s * sd := mul_le_mul_of_nonneg_left q3 hs0
  have t4 : s * sd ≤ s * (((ph:ℝ) + r) * κ + 4.82e-9) := mul_le_mul_of_nonneg_left q4 hs0
  have t5 : s * (1 - 4.7062e-6) ≤ s * cd := mul_le_mul_of_nonneg_left q1 hs0
  have t6 : s * cd ≤ s * 1 := mul_le_mul_of_nonneg_left q2 hs0
  have t7 : c * (((ph:ℝ) + r) * κ - 4.82e-9) ≤ c * sd := mul_le_mul_of_nonneg_left q3 hc0
  have t8 : c * sd ≤ c * (((ph:ℝ) + r) * κ + 4.82e-9) := mul_le_mul_of_nonneg_left q4 hc0
  -- slope mismatch
  have u1 : sl * (3.141592653589793 / 16777216) ≤ s * κ :=
    le_trans (mul_le_mul_of_nonneg_right hsl (by norm_num)) (mul_le_mul_of_nonneg_left hκl hs0)
  have u2 : s * κ ≤ sh * (3.141592653589794 / 16777216) :=
    le_trans (mul_le_mul_of_nonneg_left hκh hs0) (mul_le_mul_of_nonneg_right hsh (by norm_num))
  have u3 : cl * (3.141592653589793 / 16777216) ≤ c * κ :=
    le_trans (mul_le_mul_of_nonneg_right hcl (by norm_num)) (mul_le_mul_of_nonneg_left hκl hc0)
  have u4 : c * κ ≤ ch * (3.141592653589794 / 16777216) :=
    le_trans (mul_le_mul_of_nonneg_left hκh hc0) (mul_le_mul_of_nonneg_right hch (by norm_num))
  have hsk0 : 0 ≤ s * κ := mul_nonneg hs0 hκ0
  have hck0 : 0 ≤ c * κ := mul_nonneg hc0 hκ0
  have hP : |(ph:ℝ)| ≤ 16384 := by rw [abs_le]; constructor <;> linarith
  have b1 : |2147455795.2 * (s * κ) - S * (51471/65536) / 128| ≤ 1/100 := by
    rw [abs_le]; constructor <;> linarith
  have b2 : |C0 * (51471/65536) / 256 - 2147455795.2 * (c * κ)| ≤ 1/100 := by
    rw [abs_le]; constructor <;> linarith
  have X1 := abs_le.mp (le_trans (abs_mul _ _).le (mul_le_mul b1 hP (abs_nonneg _) (by norm_num)))
  have X2 := abs_le.mp (le_trans (abs_mul _ _).le (mul_le_mul b2 hP (abs_nonneg _) (by norm_num)))
  have r1 : 0 ≤ s * κ * r := mul_nonneg hsk0 hr0
  have r2 : s * κ * r ≤ s * κ * 1 := mul_le_mul_of_nonneg_left hr1 hsk0
  have r3 : 0 ≤ c * κ * r := mul_nonneg hck0 hr0
  have r4 : c * κ * r ≤ c * κ * 1 := mul_le_mul_of_nonneg_left hr1 hck0
  push_cast
  constructor
  · rw [abs_le]; constructor
    · linarith
    · linarith
  · rw [abs_le]; constructor
    · linarith
    · linarith

/-- accuracy statement for table row `i` (scaled by the amplitude `A = 2147455795.2`): for every in-row offset `ph`
    and every real `r ∈ [0,1]`, both interpolated outputs are within `9.1e-6·A` of `A·cos`, `A·sin` at the angle
    `(2i+1)·π/1024 + (ph + r)·π/2^24`. -/
def CossinAccRow (i : ℕ) : Prop :=
  ∀ ph : ℤ, -16384 ≤ ph → ph < 16384 → ∀ r : ℝ, 0 ≤ r → r ≤ 1 →
    |((((cossinTable.getD i 0) % 2 ^ 16 + 2 ^ 16) * 2 ^ 14
          - ((cossinTable.getD i 0) / 2 ^ 16 * (ph * 51471 / 2 ^ 16)) / 2 ^ 7 : ℤ) : ℝ)
        - 2147455795.2 * cos ((2 * (i:ℝ) + 1) * π / 1024 + (ph + r) * (π / 2 ^ 24))| ≤ 9.1e-6 * 2147455795.2 ∧
    |(((cossinTable.getD i 0) / 2 ^ 16 * 2 ^ 15
          + (((cossinTable.getD i 0) % 2 ^ 16 + 2 ^ 16) * (ph * 51471 / 2 ^ 16)) / 2 ^ 8 : ℤ) : ℝ)
        - 2147455795.2 * sin ((2 * (i:ℝ) + 1) * π / 1024 + (ph + r) * (π / 2 ^ 24))| ≤ 9.1e-6 * 2147455795.2

/-- a row is accurate as soon as its numeric certificate checks -/
theorem cossinAcc_row_of_cert (i : ℕ) (hi : i < 128) (l C0 S : ℤ) (hl : cossinTable.getD i 0 = l)
    (hC : l % 2 ^ 16 + 2 ^ 16 = C0) (hS : l / 2 ^ 16 = S) (hC0 : 0 ≤ C0) (hS0 : 0 ≤ S)
    (cl ch sl sh : ℝ)
    (hcl : cl ≤ cossinAccCosP ((2 * (i:ℝ) + 1) * 3.141592653589794 / 1024) - 13 / 1000000000000)
    (hch : cossinAccCosP ((2 * (i:ℝ) + 1) * 3.141592653589793 / 1024) + 13 / 1000000000000 ≤ ch)
    (hsl : sl ≤ cossinAccSinP ((2 * (i:ℝ) + 1) * 3.141592653589793 / 1024) - 13 / 1000000000000)
    (hsh : cossinAccSinP ((2 * (i:ℝ) + 1) * 3.141592653589794 / 1024) + 13 / 1000000000000 ≤ sh)
    (Hb1 : -(1/100 : ℝ) ≤ 2147455795.2 * (sl * (3.141592653589793 / 16777216)) - S * (51471/65536) / 128)
    (Hb2 : 2147455795.2 * (sh * (3.141592653589794 / 16777216)) - S * (51471/65536) / 128 ≤ (1/100 : ℝ))
    (Hb3 : -(1/100 : ℝ) ≤ C0 * (51471/65536) / 256 - 2147455795.2 * (ch * (3.141592653589794 / 16777216)))
    (Hb4 : C0 * (51471/65536) / 256 - 2147455795.2 * (cl * (3.141592653589793 / 16777216)) ≤ (1/100 : ℝ))
    (HcU : (C0:ℝ) * 16384 + S / 128 + 1 - 2147455795.2 * cl * (1 - 4.7062e-6) + 2147455795.2 * 4.82e-9
        + 16384 * (1/100) + 2147455795.2 * (sh * (3.141592653589794 / 16777216)) ≤ 9.1e-6 * 2147455795.2)
    (HcL : -(9.1e-6 * 2147455795.2) ≤ (C0:ℝ) * 16384 - 2147455795.2 * ch - 2147455795.2 * 4.82e-9 - 16384 * (1/100))
    (HsU : (S:ℝ) * 32768 - 2147455795.2 * sl * (1 - 4.7062e-6) + 2147455795.2 * 4.82e-9 + 16384 * (1/100)
        ≤ 9.1e-6 * 2147455795.2)
    (HsL : -(9.1e-6 * 2147455795.2) ≤ (S:ℝ) * 32768 - C0 / 256 - 1 - 2147455795.2 * sh - 2147455795.2 * 4.82e-9
        - 16384 * (1/100) - 2147455795.2 * (ch * (3.141592653589794 / 16777216))) :
    CossinAccRow i := by
  intro ph hph0 hph1 r hr0 hr1
  rw [hl, hC, hS]
  have hpl := pi_gt_d20
  have hph := pi_lt_d20
  have hi0 : (0:ℝ) ≤ i := Nat.cast_nonneg i
  have hi1 : (i:ℝ) ≤ 127 := by exact_mod_cast (show i ≤ 127 by omega)
  have hk : (0:ℝ) < 2 * (i:ℝ) + 1 := by linarith
  have hθl : (2 * (i:ℝ) + 1) * 3.141592653589793 / 1024 ≤ (2 * (i:ℝ) + 1) * π / 1024 := by
    apply div_le_div_of_nonneg_right _ (by norm_num)
    exact mul_le_mul_of_nonneg_left (by linarith) hk.le
  have hθh : (2 * (i:ℝ) + 1) * π / 1024 ≤ (2 * (i:ℝ) + 1) * 3.141592653589794 / 1024 := by
    apply div_le_div_of_nonneg_right _ (by norm_num)
    exact mul_le_mul_of_nonneg_left (by linarith) hk.le
  have h0 : (0:ℝ) ≤ (2 * (i:ℝ) + 1) * 3.141592653589793 / 1024 := by positivity
  have h1 : (2 * (i:ℝ) + 1) * 3.141592653589794 / 1024 ≤ 1 := by
    rw [div_le_one (by norm_num)]
    calc (2 * (i:ℝ) + 1) * 3.141592653589794 ≤ 255 * 3.141592653589794 :=
          mul_le_mul_of_nonneg_right (by linarith) (by norm_num)
      _ ≤ 1024 := by norm_num
  obtain ⟨e1, e2, e3, e4⟩ := cossinAcc_enclosure h0 hθl hθh h1
  have hθ0 : 0 ≤ (2 * (i:ℝ) + 1) * π / 1024 := le_trans h0 hθl
  have hθ1 : (2 * (i:ℝ) + 1) * π / 1024 ≤ 1 := le_trans hθh h1
  have hc0 : 0 ≤ cos ((2 * (i:ℝ) + 1) * π / 1024) :=
    cos_nonneg_of_mem_Icc ⟨by linarith, by linarith⟩
  have hs0 : 0 ≤ sin ((2 * (i:ℝ) + 1) * π / 1024) := sin_nonneg_of_nonneg_of_le_pi hθ0 (by linarith)
  exact cossinAcc_row_core hc0 hs0 (le_trans hcl e1) (le_trans e2 hch) (le_trans hsl e3) (le_trans e4 hsh)
    hC0 hS0 Hb1 Hb2 Hb3 Hb4 HcU HcL HsU HsL ph hph0 hph1 r hr0 hr1

end Idsp
