import IdspModel
/-!
  Line-protocol driver.  One request per line:

      <mode> <op> <arg> ... => <result>

  `<mode>` is `C` (overflow-checks + debug-assertions) or `R` (release).  An argument is a
  decimal integer, `N` (None), or a bracketed list `[a,b,c]`.  `<result>` is what the
  implementation returned, in the same syntax, or `PANIC`.  The driver recomputes the result
  with the model and reports every line on which they differ.
-/
namespace Idsp

inductive Tok where
  | int (v : Int)
  | list (l : List Int)
  | none
deriving Repr

def parseTok (s : String) : Option Tok :=
  if s == "N" then some .none
  else if s.startsWith "[" then
    let inner := ((s.drop 1).dropEnd 1).toString
    if inner.isEmpty then some (.list []) else
      ((inner.splitOn ",").mapM (fun (t : String) => t.toInt?)).map Tok.list
  else s.toInt?.map .int

def showList (l : List Int) : String := "[" ++ ",".intercalate (l.map toString) ++ "]"
def showOpt : Option Int → String
  | some v => toString v
  | none => "N"
def sp (l : List String) : String := " ".intercalate l
def ints (l : List Int) : String := sp (l.map toString)

def rshow {α} (f : α → String) : R α → String
  | .ok v => f v
  | .error _ => "PANIC"

def optOf : Tok → Option (Option Int)
  | .int v => some (some v)
  | .none => some none
  | _ => Option.none

/-! ### float instances for the half-band model -/
def ops32 : Ops Float32 :=
  { zero := 0, add := (· + ·), mul := (· * ·),
    sum := fun l => l.foldl (· + ·) (Float32.ofBits 0x80000000),
    half := fun x => (0.5 : Float32) * x }
def ops64 : Ops Float :=
  { zero := 0, add := (· + ·), mul := (· * ·),
    sum := fun l => l.foldl (· + ·) (Float.ofBits 0x8000000000000000),
    half := fun x => (0.5 : Float) * x }

def f32 (v : Int) : Float32 := Float32.ofBits v.toNat.toUInt32
def f64 (v : Int) : Float := Float.ofBits v.toNat.toUInt64
def b32 (x : Float32) : Int := x.toBits.toNat
def b64 (x : Float) : Int := x.toBits.toNat

inductive HbfObj where
  | dec32 (d : HbfDec Float32)
  | int32 (d : HbfInt Float32)
  | dec64 (d : HbfDec Float)
  | int64 (d : HbfInt Float)
  | decc (d : HbfDecCascade Float32)
  | intc (d : HbfIntCascade Float32)

structure DState where
  objs : List (Int × HbfObj) := []
  taps : List (List Int) := []   -- HBF_TAPS (f32 bit patterns), registered by `hbf_taps`

def DState.get (s : DState) (id : Int) : Option HbfObj := (s.objs.find? (·.1 == id)).map (·.2)
def DState.put (s : DState) (id : Int) (o : HbfObj) : DState :=
  { s with objs := (id, o) :: s.objs.filter (·.1 != id) }

def cascadeBlock : Nat := 64

/-- evaluate one request; returns the new driver state and the model's result string,
    or `none` when the request cannot be parsed. -/
def evalOp (st : DState) (m : Mode) (op : String) (a : List Tok) : Option (DState × String) :=
  let pure' (s : String) : Option (DState × String) := some (st, s)
  match op, a with
  -- unwrap / accu
  | "osub", [.int w, .int y, .int x] =>
    let (d, c) := overflowingSub w.toNat y x; pure' (ints [d, c])
  | "satscale", [.int lo, .int hi, .int sh] =>
    pure' (rshow toString (saturatingScale m lo hi sh))
  | "unwrap", [.int wq, .int wp, .int y, .int x] =>
    let (y', dx) := unwrapperUpdate wq.toNat wp.toNat y x; pure' (ints [y', dx])
  | "wraps", [.int wp, .int s, .int y] => pure' (toString (unwrapperWraps wp.toNat s.toNat y))
  | "accu", [.int w, .int s, .int step] =>
    let (s', it) := accuNext w.toNat s step; pure' (ints [s', it])
  -- dsm
  | "dsm", [.list a, .list c, .int x] =>
    pure' (rshow (fun (s, y) => sp [showList s.a, showList s.c, toString y]) (Dsm.update m ⟨a, c⟩ x))
  -- pll
  | "pll", [.int x, .int y0, .int f0, .int f, .int y, inp, .int k] => do
    let i ← optOf inp
    let s := PLL.update ⟨x, y0, f0, f, y⟩ i k
    pure' (ints [s.x, s.y0, s.f0, s.f, s.y])
  -- lowpass
  | "lp1", [.int s0, .int x, .int k] =>
    pure' (rshow (fun (s, y) => ints [s, y]) (lp1Update m s0 x k))
  | "lp2", [.int s0, .int s1, .int x, .int k0, .int k1] =>
    pure' (rshow (fun (a, b, y) => ints [a, b, y]) (lp2Update m s0 s1 x k0 k1))
  -- cic
  | "cic_dec", [.int w, .int rate, .int idx, .int zoh, .list cs, .list is, .int x] =>
    let (s, o) := Cic.decimate w.toNat ⟨rate, idx, zoh, cs, is⟩ x
    pure' (sp [toString s.index, toString s.zoh, showList s.combs, showList s.integrators, showOpt o])
  | "cic_int", [.int w, .int rate, .int idx, .int zoh, .list cs, .list is, x] => do
    let xo ← optOf x
    pure' (rshow (fun (s, y) => sp [toString s.index, toString s.zoh, showList s.combs,
      showList s.integrators, toString y]) (Cic.interpolate m w.toNat ⟨rate, idx, zoh, cs, is⟩ xo))
  | "cic_gain", [.int w, .int rate, .int n] =>
    pure' (rshow toString ((Cic.new n.toNat rate).gain m w.toNat))
  | "cic_glog2", [.int rate, .int n] => pure' (toString (Cic.new n.toNat rate).gainLog2)
  | "cic_rlen", [.int rate, .int n] => pure' (toString (Cic.new n.toNat rate).responseLength)
  | "cic_settle", [.int w, .int rate, .int idx, .int zoh, .list cs, .list is, .int x] =>
    pure' (rshow (fun s => sp [toString s.index, toString s.zoh, showList s.combs,
      showList s.integrators]) (Cic.settleInterpolate m w.toNat ⟨rate, idx, zoh, cs, is⟩ x))
  -- num
  | "macc", [.int w, .int q, .int u, .int s, .int mn, .int mx, .int e1] =>
    pure' (rshow (fun (y, e) => ints [y, e]) (macc m w.toNat q.toNat u s mn mx e1))
  | "mul_scaled", [.int w, .int q, .int x, .int y] => pure' (rshow toString (mulScaled m w.toNat q.toNat x y))
  | "div_scaled", [.int w, .int q, .int x, .int y] => pure' (rshow toString (divScaled w.toNat q.toNat x y))
  | "clip", [.int x, .int mn, .int mx] => pure' (toString (clip x mn mx))
  -- biquad
  | "bq4", [.int w, .int q, .list [b0, b1, b2, a1, a2, u, mn, mx], .list [x1, x2, y1, y2], .int x0] =>
    pure' (rshow (fun ((p, q', r, s), y) => sp [showList [p, q', r, s], toString y])
      (biquadUpdate4 m w.toNat q.toNat ⟨b0, b1, b2, a1, a2, u, mn, mx⟩ (x1, x2, y1, y2) x0))
  | "bq5", [.int w, .int q, .list [b0, b1, b2, a1, a2, u, mn, mx], .list [x1, x2, y1, y2, e1], .int x0] =>
    pure' (rshow (fun ((p, q', r, s, e), y) => sp [showList [p, q', r, s, e], toString y])
      (biquadUpdate5 m w.toNat q.toNat ⟨b0, b1, b2, a1, a2, u, mn, mx⟩ (x1, x2, y1, y2, e1) x0))
  | "bq2", [.int w, .int q, .list [b0, b1, b2, a1, a2, u, mn, mx], .list [s0, s1], .int x0] =>
    pure' (rshow (fun ((p, q'), y) => sp [showList [p, q'], toString y])
      (biquadUpdate2 m w.toNat q.toNat ⟨b0, b1, b2, a1, a2, u, mn, mx⟩ (s0, s1) x0))
  -- cossin / atan2 / complex
  | "cossin", [.int p] => pure' (rshow (fun (c, s) => ints [c, s]) (cossin m p))
  | "cossin_tab", [.int i] => pure' (toString (cossinTable.getD i.toNat (-1)))
  | "divi", [.int y, .int x] => pure' (rshow toString (divi m y x))
  | "atani", [.int x] => pure' (rshow toString (atani m x))
  | "atan2", [.int y, .int x] => pure' (rshow toString (atan2 m y x))
  | "abs_sqr", [.int re, .int im] => pure' (rshow toString (absSqr m re im))
  | "log2", [.int re, .int im] => pure' (rshow toString (clog2 m re im))
  | "arg", [.int re, .int im] => pure' (rshow toString (carg m re im))
  | "csat_add", [.int p, .int q, .int r, .int s] => let (x, y) := csatAdd p q r s; pure' (ints [x, y])
  | "csat_sub", [.int p, .int q, .int r, .int s] => let (x, y) := csatSub p q r s; pure' (ints [x, y])
  | "cmul_c", [.int p, .int q, .int r, .int s] => pure' (rshow (fun (x, y) => ints [x, y]) (cmulScaledC m p q r s))
  | "cmul_i32", [.int re, .int im, .int o] => pure' (rshow (fun (x, y) => ints [x, y]) (cmulScaledI32 m re im o))
  | "cmul_i16", [.int re, .int im, .int o] => pure' (rshow (fun (x, y) => ints [x, y]) (cmulScaledI16 m re im o))
  | "lockin_iq", [.list [s0, s1, s2, s3], .int x, .int lre, .int lim, .int k0, .int k1] =>
    pure' (rshow (fun ((p, q, r, s), re, im) => sp [showList [p, q, r, s], toString re, toString im])
      (lockinUpdateIq m (s0, s1, s2, s3) x lre lim k0 k1))
  | "lockin", [.list [s0, s1, s2, s3], .int x, .int ph, .int k0, .int k1] =>
    pure' (rshow (fun ((p, q, r, s), re, im) => sp [showList [p, q, r, s], toString re, toString im])
      (lockinUpdate m (s0, s1, s2, s3) x ph k0 k1))
  -- rpll
  | "rpll", [.int dt2, .int x, .int ff, .int f, .int y, inp, .int sf, .int sph] => do
    let i ← optOf inp
    pure' (rshow (fun (s, py, pf) => ints [s.x, s.ff, s.f, s.y, py, pf])
      (RPLL.update m ⟨dt2, x, ff, f, y⟩ i sf sph))
  -- sweep
  | "sweep", [.int rate, .int state] => pure' (rshow (fun (s, it) => ints [s, it]) (sweepNext m rate state))
  -- half-band filters (stateful: objects are named by an integer id)
  | "hbf_taps", [.int i, .list t] =>
    some ({ st with taps := (st.taps.take i.toNat) ++ [t] ++ st.taps.drop (i.toNat + 1) }, "ok")
  | "hbf_new", [.int id, .int kind, .int n, .list taps] =>
    let o : HbfObj := match kind with
      | 0 => .dec32 (HbfDec.new ops32 n.toNat (taps.map f32))
      | 1 => .int32 (HbfInt.new ops32 n.toNat (taps.map f32))
      | 2 => .dec64 (HbfDec.new ops64 n.toNat (taps.map f64))
      | _ => .int64 (HbfInt.new ops64 n.toNat (taps.map f64))
    some (st.put id o, "ok")
  | "hbf_newc", [.int id, .int kind, .int depth] =>
    let mk (i : Nat) : List Float32 × Nat :=
      let t := (st.taps.getD i []).map f32
      (t, 2 * t.length - 1 + cascadeBlock * 2 ^ i)
    let o : HbfObj := match kind with
      | 0 => .decc ⟨depth.toNat, (List.range 4).map fun i => let (t, n) := mk i; HbfDec.new ops32 n t⟩
      | _ => .intc ⟨depth.toNat, (List.range 4).map fun i => let (t, n) := mk i; HbfInt.new ops32 n t⟩
    some (st.put id o, "ok")
  | "hbf_proc", [.int id, .list x] => do
    let o ← st.get id
    match o with
    | .dec32 d => let (d', y) := d.process ops32 (x.map f32); some (st.put id (.dec32 d'), showList (y.map b32))
    | .int32 d => let (d', y) := d.process ops32 (x.map f32); some (st.put id (.int32 d'), showList (y.map b32))
    | .dec64 d => let (d', y) := d.process ops64 (x.map f64); some (st.put id (.dec64 d'), showList (y.map b64))
    | .int64 d => let (d', y) := d.process ops64 (x.map f64); some (st.put id (.int64 d'), showList (y.map b64))
    | .decc d => let (d', y) := d.process ops32 (x.map f32); some (st.put id (.decc d'), showList (y.map b32))
    | .intc d => let (d', y) := d.process ops32 (x.map f32); some (st.put id (.intc d'), showList (y.map b32))
  | "hbf_rlen", [.int kind, .list ms, .int depth] =>
    pure' (toString (if kind == 0 then hbfDecResponseLength (ms.map Int.toNat) depth.toNat
                     else hbfIntResponseLength (ms.map Int.toNat) depth.toNat))
  | _, _ => Option.none

structure Stats where
  total : Nat := 0
  mismatches : Nat := 0
  unparsed : Nat := 0
  panics : Nat := 0
  perOp : List (String × Nat × Nat) := []   -- op, count, panics

def Stats.bump (s : Stats) (op : String) (panic : Bool) : Stats :=
  let p := if panic then 1 else 0
  let rec upd : List (String × Nat × Nat) → List (String × Nat × Nat)
    | [] => [(op, 1, p)]
    | (o, c, q) :: t => if o == op then (o, c + 1, q + p) :: t else (o, c, q) :: upd t
  { s with total := s.total + 1, panics := s.panics + p, perOp := upd s.perOp }

/-- process one line; returns new state, new stats and an optional report line -/
def stepLine (st : DState) (stats : Stats) (lineNo : Nat) (line : String) : DState × Stats × Option String :=
  let line := line.trimAscii.toString
  if line.isEmpty || line.startsWith "#" then (st, stats, none) else
  match line.splitOn " => " with
  | [lhs, rhs] =>
    match lhs.splitOn " " with
    | ms :: op :: args =>
      let m := if ms == "C" then Mode.checked else Mode.release
      match args.mapM parseTok with
      | some toks =>
        match evalOp st m op toks with
        | some (st', out) =>
          let stats := stats.bump op (rhs == "PANIC")
          if out == rhs then (st', stats, none)
          else (st', { stats with mismatches := stats.mismatches + 1 },
                some s!"MISMATCH line={lineNo} model=<{out}> :: {line}")
        | none => (st, { stats with unparsed := stats.unparsed + 1 }, some s!"UNPARSED line={lineNo} :: {line}")
      | none => (st, { stats with unparsed := stats.unparsed + 1 }, some s!"UNPARSED line={lineNo} :: {line}")
    | _ => (st, { stats with unparsed := stats.unparsed + 1 }, some s!"UNPARSED line={lineNo} :: {line}")
  | _ => (st, { stats with unparsed := stats.unparsed + 1 }, some s!"UNPARSED line={lineNo} :: {line}")

end Idsp
