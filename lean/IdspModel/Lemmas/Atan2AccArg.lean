import Mathlib.Analysis.SpecialFunctions.Complex.Arg
import Mathlib.Analysis.SpecialFunctions.Trigonometric.Arctan
import Mathlib.Tactic.NormNum
import Mathlib.Tactic.Ring
import Mathlib.Tactic.Linarith
import Mathlib.Tactic.Positivity
import Mathlib.Tactic.FieldSimp
/-!
Accuracy of `atan2` against the real angle, part 6 (pure real analysis): the true angle `Complex.arg (x + y·I)`
written the way `atan2` unfolds its first-octant value: with `φ₁ = arctan(|y|/|x|)` (`x ≠ 0`) or
`φ₁ = π/2 − arctan(|x|/|y|)` (`y ≠ 0`; the two agree when both apply), `φ₂ = π − φ₁` if `x < 0` else `φ₁`,
and `arg = −φ₂` if `y < 0` else `φ₂`.
-/
namespace Idsp
open Real

/-- polar data of the first-quadrant point `(|X|, |Y|)` -/
theorem atan2Acc_polar_first {X Y : ℝ} (sw : Bool) (h0 : if sw = true then Y ≠ 0 else X ≠ 0) :
    ∃ ρ : ℝ, 0 < ρ ∧
      ρ * cos (if sw = true then π / 2 - arctan (|X| / |Y|) else arctan (|Y| / |X|)) = |X| ∧
      ρ * sin (if sw = true then π / 2 - arctan (|X| / |Y|) else arctan (|Y| / |X|)) = |Y| ∧
      0 ≤ (if sw = true then π / 2 - arctan (|X| / |Y|) else arctan (|Y| / |X|)) ∧
      (if sw = true then π / 2 - arctan (|X| / |Y|) else arctan (|Y| / |X|)) ≤ π / 2 ∧
      (Y ≠ 0 → 0 < (if sw = true then π / 2 - arctan (|X| / |Y|) else arctan (|Y| / |X|))) := by
  cases sw with
  | false =>
    simp only [Bool.false_eq_true, if_false] at h0 ⊢
    have hX : 0 < |X| := abs_pos.mpr h0
    have hc := cos_arctan_pos (|Y| / |X|)
    have ht : sin (arctan (|Y| / |X|)) = |Y| / |X| * cos (arctan (|Y| / |X|)) := by
      have := tan_arctan (|Y| / |X|)
      rw [tan_eq_sin_div_cos] at this
      field_simp at this ⊢
      linarith
    refine ⟨|X| / cos (arctan (|Y| / |X|)), div_pos hX hc, ?_, ?_, ?_, ?_, ?_⟩
    · field_simp
    · rw [ht]; field_simp
    · exact arctan_nonneg.mpr (div_nonneg (abs_nonneg _) (abs_nonneg _))
    · exact (arctan_lt_pi_div_two _).le
    · intro hY
      exact arctan_pos.mpr (div_pos (abs_pos.mpr hY) hX)
  | true =>
    simp only [if_true] at h0 ⊢
    have hY : 0 < |Y| := abs_pos.mpr h0
    have hc := cos_arctan_pos (|X| / |Y|)
    have ht : sin (arctan (|X| / |Y|)) = |X| / |Y| * cos (arctan (|X| / |Y|)) := by
      have := tan_arctan (|X| / |Y|)
      rw [tan_eq_sin_div_cos] at this
      field_simp at this ⊢
      linarith
    refine ⟨|Y| / cos (arctan (|X| / |Y|)), div_pos hY hc, ?_, ?_, ?_, ?_, ?_⟩
    · rw [cos_pi_div_two_sub, ht]; field_simp
    · rw [sin_pi_div_two_sub]; field_simp
    · linarith [arctan_lt_pi_div_two (|X| / |Y|)]
    · have := arctan_nonneg.mpr (div_nonneg (abs_nonneg X) (abs_nonneg Y))
      linarith
    · intro _
      linarith [arctan_lt_pi_div_two (|X| / |Y|)]

/-- `Complex.arg (X + Y·I)` through the three reflections (diagonal, y axis, x axis) of the first-octant
    arctangent; `sw` may be chosen freely as long as the quotient it uses is defined -/
theorem atan2Acc_arg_eq {X Y : ℝ} (sw : Bool) (h0 : if sw = true then Y ≠ 0 else X ≠ 0) :
    Complex.arg ((X : ℂ) + (Y : ℂ) * Complex.I) =
      (if Y < 0 then -(if X < 0 then π - (if sw = true then π / 2 - arctan (|X| / |Y|) else arctan (|Y| / |X|))
          else (if sw = true then π / 2 - arctan (|X| / |Y|) else arctan (|Y| / |X|)))
        else (if X < 0 then π - (if sw = true then π / 2 - arctan (|X| / |Y|) else arctan (|Y| / |X|))
          else (if sw = true then π / 2 - arctan (|X| / |Y|) else arctan (|Y| / |X|)))) := by
  obtain ⟨ρ, hρ, hc, hs, h1, h2, h3⟩ := atan2Acc_polar_first (X := X) (Y := Y) sw h0
  generalize (if sw = true then π / 2 - arctan (|X| / |Y|) else arctan (|Y| / |X|)) = φ at *
  have hpi := pi_pos
  have key : ∀ θ : ℝ, θ ∈ Set.Ioc (-π) π → ρ * cos θ = X → ρ * sin θ = Y →
      Complex.arg ((X : ℂ) + (Y : ℂ) * Complex.I) = θ := by
    intro θ hθ e1 e2
    have := Complex.arg_mul_cos_add_sin_mul_I hρ hθ
    rw [← this]
    congr 1
    rw [← e1, ← e2]
    push_cast
    ring
  by_cases hY : Y < 0
  · have hY' : Y ≠ 0 := ne_of_lt hY
    have h3' := h3 hY'
    have eY : |Y| = -Y := abs_of_neg hY
    by_cases hX : X < 0
    · have eX : |X| = -X := abs_of_neg hX
      simp only [hY, hX, if_true]
      refine key _ ⟨by linarith, by linarith⟩ ?_ ?_
      · rw [cos_neg, cos_pi_sub]; linarith
      · rw [sin_neg, sin_pi_sub]; linarith
    · have eX : |X| = X := abs_of_nonneg (not_lt.mp hX)
      simp only [hY, hX, if_true, if_false]
      refine key _ ⟨by linarith, by linarith⟩ ?_ ?_
      · rw [cos_neg]; linarith
      · rw [sin_neg]; linarith
  · have eY : |Y| = Y := abs_of_nonneg (not_lt.mp hY)
    by_cases hX : X < 0
    · have eX : |X| = -X := abs_of_neg hX
      simp only [hY, hX, if_true, if_false]
      refine key _ ⟨by linarith, by linarith⟩ ?_ ?_
      · rw [cos_pi_sub]; linarith
      · rw [sin_pi_sub]; linarith
    · have eX : |X| = X := abs_of_nonneg (not_lt.mp hX)
      simp only [hY, hX, if_false]
      exact key _ ⟨by linarith, by linarith⟩ (by linarith) (by linarith)

end Idsp
