import IdspModel.Lemmas.Atan2Tab
/-! `atani` table, chunk 0 of 8: quotient fields 0 … 8192 (complete range, evaluated by the kernel). -/
namespace Idsp

theorem atanTab0 : atanRun 0 8193 = true := by decide +kernel

end Idsp
