import IdspModel.Model.CossinTable
import IdspModel.Lemmas.Atan2Tab
/-!
# Round trip `arg(from_angle(128·f)) - 128·f` over all `2^22` first-octant fields: table machinery

`polarRun` is an executable check, written for fast evaluation in the kernel (raw `Nat` primitives, every shared
value `let`-bound, no `Int`), that for the fields `f = 32768·i + ph0`, `ph0 = lo, …, lo+n-1` of table row `i`:
the first-octant `cossin` core output `(a, b)` (`b` in offset form `bO - cc`), folded to `0 ≤ y ≤ x` as `atan2` does,
gives a quotient field `q` (`diviQN`, the arithmetic of `divi`), `atani` succeeds there (`atanQN`, the verified
evaluator of `Atan2Tab.lean`; its value is cached across consecutive fields with the same `q`), and the re-expanded
angle `r` satisfies `-14911 ≤ r - 128·f ≤ 15038` (`polarChk`, in offset binary: `rO = r + 2^31`).

This file: definitions, and `polarRun_spec` (the run implies the per-point check `polarPt`, for every point).
`PolarTabSound.lean` proves that `polarPt` implies the statement about the model; the generated chunk files
`PolarTabNNN.lean` evaluate `polarRun` by `decide +kernel` on every row.  Core Lean only.
-/
namespace Idsp

/-- row constants: `cos0 = (l & 0xffff) + 2^16`, `sin0 = l >> 16` of the table word of row `i` -/
def polarC (i : Nat) : Nat := (cossinTable.getD i 0 % 65536 + 65536).toNat
def polarS (i : Nat) : Nat := (cossinTable.getD i 0 / 65536).toNat

/-- the normalisation shift `min(clz y, 15)` of `divi` for `2^17 ≤ y < 2^31` -/
def polarZ (y : Nat) : Nat :=
  cond (Nat.ble 1073741824 y) 1 (cond (Nat.ble 536870912 y) 2 (cond (Nat.ble 268435456 y) 3
  (cond (Nat.ble 134217728 y) 4 (cond (Nat.ble 67108864 y) 5 (cond (Nat.ble 33554432 y) 6
  (cond (Nat.ble 16777216 y) 7 (cond (Nat.ble 8388608 y) 8 (cond (Nat.ble 4194304 y) 9
  (cond (Nat.ble 2097152 y) 10 (cond (Nat.ble 1048576 y) 11 (cond (Nat.ble 524288 y) 12
  (cond (Nat.ble 262144 y) 13 14))))))))))))

/-- quotient field of `divi y x` for `y ≤ x`, `2 ≤ x < 2^31` -/
def diviQN (y x : Nat) : Nat :=
  cond (Nat.ble 131072 y)
    (let z := polarZ y
     let q := Nat.div (Nat.mul y (Nat.pow 2 z))
       (Nat.div (Nat.add x (Nat.sub (Nat.pow 2 (Nat.sub 15 z)) 1)) (Nat.pow 2 (Nat.sub 16 z)))
     cond (Nat.ble q 65536) q 65536)
    (let q := Nat.div (Nat.mul y 32768) (Nat.div x 2)
     cond (Nat.ble q 65536) q 65536)

/-- bound check for one point: `P = 128·f + 2^31`; `ns` = "not swapped" (`|b| ≤ a`), `ge` = "`b ≥ 0`";
    `r0` the first-octant `atani` value; `rO = r + 2^31` for the re-expanded angle `r` -/
def polarChk (P : Nat) (ns ge : Bool) (r0 : Nat) : Bool :=
  let rr := cond ns r0 (Nat.sub 1073741823 r0)
  let rO := cond ge (Nat.add 2147483648 rr) (Nat.sub 2147483647 rr)
  Nat.ble r0 1073741823 && (Nat.ble P (Nat.add rO 14911) && Nat.ble rO (Nat.add P 15038))

/-! the pieces of one point, as separate functions (used by the specification only) -/
def polarDN (ph0 : Nat) : Nat := Nat.div (Nat.add (Nat.mul ph0 51471) 16384) 65536
def polarA (C S ph0 : Nat) : Nat :=
  Nat.sub (Nat.add (Nat.mul C 16384) (Nat.mul 101 S)) (Nat.div (Nat.mul S (Nat.add (polarDN ph0) 60)) 128)
def polarBO (C S ph0 : Nat) : Nat :=
  Nat.add (Nat.mul S 32768) (Nat.div (Nat.mul C (Nat.add (polarDN ph0) 188)) 256)
def polarGe (C S cc ph0 : Nat) : Bool := Nat.ble cc (polarBO C S ph0)
def polarY0 (C S cc ph0 : Nat) : Nat :=
  cond (polarGe C S cc ph0) (Nat.sub (polarBO C S ph0) cc) (Nat.sub cc (polarBO C S ph0))
def polarNs (C S cc ph0 : Nat) : Bool := Nat.ble (polarY0 C S cc ph0) (polarA C S ph0)
def polarQ (C S cc ph0 : Nat) : Nat :=
  diviQN (cond (polarNs C S cc ph0) (polarY0 C S cc ph0) (polarA C S ph0))
    (cond (polarNs C S cc ph0) (polarA C S ph0) (polarY0 C S cc ph0))

/-- the per-point check, uncached -/
def polarPt (C S cc B ph0 : Nat) : Bool :=
  match atanQN (polarQ C S cc ph0) with
  | some r0 => polarChk (Nat.add B (Nat.mul 128 ph0)) (polarNs C S cc ph0) (polarGe C S cc ph0) r0
  | none => false

/-- one step of the run: point `ph0 = lo + m`, cache `(qc, rc)` = last quotient field and its `atani` value -/
def polarStep (C S cc B lo : Nat) (m : Nat) (ih : Nat → Nat → Bool) (qc rc : Nat) : Bool :=
  let ph0 := Nat.add lo m
  let q := polarQ C S cc ph0
  let P := Nat.add B (Nat.mul 128 ph0)
  cond (Nat.beq q qc)
    (polarChk P (polarNs C S cc ph0) (polarGe C S cc ph0) rc && ih qc rc)
    (match atanQN q with
     | some r0 => polarChk P (polarNs C S cc ph0) (polarGe C S cc ph0) r0 && ih q r0
     | none => false)

/-- the run over `ph0 = lo + n - 1, …, lo` (downwards) -/
def polarRun (C S cc B lo : Nat) (n : Nat) : Nat → Nat → Bool :=
  Nat.rec (motive := fun _ => Nat → Nat → Bool) (fun _ _ => true) (polarStep C S cc B lo) n

/-- the run on row `i` of the table: `cc = 51·C`, `B = 128·32768·i + 2^31`, empty cache (`10^6` is not a quotient
    field) -/
def polarRunRow (i lo n : Nat) : Bool :=
  polarRun (polarC i) (polarS i) (Nat.mul 51 (polarC i)) (Nat.add (Nat.mul 4194304 i) 2147483648) lo n 1000000 0

/-- the per-point check on every field of row `i` -/
def polarTabRowOk (i : Nat) : Prop :=
  ∀ ph0, ph0 < 32768 →
    polarPt (polarC i) (polarS i) (Nat.mul 51 (polarC i)) (Nat.add (Nat.mul 4194304 i) 2147483648) ph0 = true

theorem polarStep_eq (C S cc B lo m : Nat) (ih : Nat → Nat → Bool) (qc rc : Nat) :
    polarStep C S cc B lo m ih qc rc =
      cond (Nat.beq (polarQ C S cc (Nat.add lo m)) qc)
        (polarChk (Nat.add B (Nat.mul 128 (Nat.add lo m))) (polarNs C S cc (Nat.add lo m))
          (polarGe C S cc (Nat.add lo m)) rc && ih qc rc)
        (match atanQN (polarQ C S cc (Nat.add lo m)) with
         | some r0 => polarChk (Nat.add B (Nat.mul 128 (Nat.add lo m))) (polarNs C S cc (Nat.add lo m))
            (polarGe C S cc (Nat.add lo m)) r0 && ih (polarQ C S cc (Nat.add lo m)) r0
         | none => false) := rfl

theorem diviQN_le (y x : Nat) : diviQN y x ≤ 65536 := by
  unfold diviQN
  cases Nat.ble 131072 y
  · simp only [cond_false]
    cases h : Nat.ble (Nat.div (Nat.mul y 32768) (Nat.div x 2)) 65536
    · simp
    · simp only [cond_true]; exact Nat.le_of_ble_eq_true h
  · simp only [cond_true]
    generalize Nat.div (Nat.mul y (Nat.pow 2 (polarZ y))) _ = q
    cases h : Nat.ble q 65536
    · simp
    · simp only [cond_true]; exact Nat.le_of_ble_eq_true h

theorem polarStep_spec {C S cc B lo m : Nat} {ih : Nat → Nat → Bool} {qc rc : Nat}
    (h : polarStep C S cc B lo m ih qc rc = true) (hinv : qc = 1000000 ∨ atanQN qc = some rc) :
    polarPt C S cc B (lo + m) = true ∧
      ∃ q' r', (q' = 1000000 ∨ atanQN q' = some r') ∧ ih q' r' = true := by
  rw [polarStep_eq] at h
  have hq := diviQN_le (cond (polarNs C S cc (Nat.add lo m)) (polarY0 C S cc (Nat.add lo m)) (polarA C S (Nat.add lo m)))
    (cond (polarNs C S cc (Nat.add lo m)) (polarA C S (Nat.add lo m)) (polarY0 C S cc (Nat.add lo m)))
  show polarPt C S cc B (Nat.add lo m) = true ∧ _
  unfold polarPt
  change polarQ C S cc (Nat.add lo m) ≤ 65536 at hq
  generalize polarQ C S cc (Nat.add lo m) = Q at h hq
  cases hb : Nat.beq Q qc
  · rw [hb] at h
    simp only [cond_false] at h
    cases ha : atanQN Q with
    | none => rw [ha] at h; simp at h
    | some r0 =>
      rw [ha] at h
      simp only [Bool.and_eq_true] at h
      exact ⟨h.1, Q, r0, Or.inr ha, h.2⟩
  · rw [hb] at h
    simp only [cond_true, Bool.and_eq_true] at h
    have e : Q = qc := Nat.eq_of_beq_eq_true hb
    have ha : atanQN Q = some rc := by
      rcases hinv with h1 | h1
      · omega
      · rw [e]; exact h1
    rw [ha]
    exact ⟨h.1, qc, rc, hinv, h.2⟩

theorem polarRun_spec (C S cc B lo : Nat) : ∀ (n qc rc : Nat), polarRun C S cc B lo n qc rc = true →
    (qc = 1000000 ∨ atanQN qc = some rc) → ∀ m, m < n → polarPt C S cc B (lo + m) = true := by
  intro n
  induction n with
  | zero => intro _ _ _ _ m hm; omega
  | succ n ih =>
    intro qc rc h hinv m hm
    have h' : polarStep C S cc B lo n (polarRun C S cc B lo n) qc rc = true := h
    obtain ⟨hpt, q', r', hinv', hrest⟩ := polarStep_spec h' hinv
    by_cases hmn : m = n
    · subst hmn; exact hpt
    · exact ih q' r' hrest hinv' m (by omega)

/-- a row is covered by four runs of 8192 points -/
theorem polarRow_of_chunks (i : Nat) (h0 : polarRunRow i 0 8192 = true) (h1 : polarRunRow i 8192 8192 = true)
    (h2 : polarRunRow i 16384 8192 = true) (h3 : polarRunRow i 24576 8192 = true) : polarTabRowOk i := by
  intro ph0 hph
  have s0 := polarRun_spec _ _ _ _ _ _ _ _ h0 (Or.inl rfl)
  have s1 := polarRun_spec _ _ _ _ _ _ _ _ h1 (Or.inl rfl)
  have s2 := polarRun_spec _ _ _ _ _ _ _ _ h2 (Or.inl rfl)
  have s3 := polarRun_spec _ _ _ _ _ _ _ _ h3 (Or.inl rfl)
  by_cases c0 : ph0 < 8192
  · have := s0 ph0 c0; rwa [Nat.zero_add] at this
  · by_cases c1 : ph0 < 16384
    · have := s1 (ph0 - 8192) (by omega); rwa [show 8192 + (ph0 - 8192) = ph0 by omega] at this
    · by_cases c2 : ph0 < 24576
      · have := s2 (ph0 - 16384) (by omega); rwa [show 16384 + (ph0 - 16384) = ph0 by omega] at this
      · have := s3 (ph0 - 24576) (by omega); rwa [show 24576 + (ph0 - 24576) = ph0 by omega] at this

end Idsp
