import IdspModel.Lemmas.Lp2Butter
import IdspModel.Lemmas.LockinRecGain
import IdspModel.Lemmas.LockinRecChan
/-!
# Lock-in recovery: the documented Butterworth pairs with `2^20 ≤ k ≤ 2^25` are `LkGain` pairs

`[k0, k1] = [a, -b] = [⌊k²/2^32⌋, -⌊k·√2⌋]` (`Lp2Butter k a b`).  For `2^20 ≤ k ≤ 2^25`: `α = a/2^32 ≤ 2^-14`,
`β = b/2^32 ≤ 1/90`, `1.9999·α ≤ β² ≤ 2.008·α`; the static offset `β/(2α) + 1/2 ≤ 0.72·2^32/k + 1/2`; and
`k·n ≥ 40·2^32` implies `β·n ≥ 56`.
-/
namespace Idsp
set_option linter.unusedVariables false

theorem lk_butter_int {k a b : Int} (h : Lp2Butter k a b) (hk0 : 1048576 ≤ k) (hk1 : k ≤ 33554432) :
    256 ≤ a ∧ a ≤ 262144 ∧ 1400 * k ≤ 1000 * b ∧ b ≤ 47479522 ∧
    19999 * (a * 4294967296) ≤ 10000 * b ^ 2 ∧ 1000 * b ^ 2 ≤ 2008 * (a * 4294967296) ∧
    100 * (b * k) ≤ 144 * (a * 4294967296) := by
  have h1 := h.ha0; have h2 := h.ha1; have h3 := h.hb1; have h4 := h.hb2; have h5 := h.hb0
  have h6 := h.b_lower; have h7 := h.b_upper
  have ksq0 : 1048576 * 1048576 ≤ k * k := mul_le_mul hk0 hk0 (by norm_num) (by omega)
  have ksq1 : k * k ≤ 33554432 * 33554432 := mul_le_mul hk1 hk1 (by omega) (by norm_num)
  have ha : 256 ≤ a := by
    by_contra hc
    have : a + 1 ≤ 256 := by omega
    nlinarith
  have ha1 : a ≤ 262144 := by
    by_contra hc
    have : 262145 ≤ a := by omega
    nlinarith
  have hb0 : 1400 * k ≤ 1000 * b := by omega
  have hb1 : b ≤ 47479522 := by omega
  refine ⟨ha, ha1, hb0, hb1, ?_, ?_, ?_⟩
  · -- b² > 2k² − 2b − 1 ≥ 2aM − 2b − 1, and 0.0001·aM ≥ 2b + 1
    have e1 : 2 * k ^ 2 < b ^ 2 + 2 * b + 1 := by nlinarith
    have e2 : 256 * 4294967296 ≤ a * 4294967296 := by nlinarith
    nlinarith
  · -- b² ≤ 2k² < 2(a+1)M ≤ 2.008 a M
    nlinarith
  · -- b k ≤ 1.415 k² < 1.415 (a+1) M ≤ 1.44 a M
    have e1 : 1000 * (b * k) ≤ 1415 * (k * k) := by nlinarith
    nlinarith

theorem lk_butter_gain {k a b : Int} (h : Lp2Butter k a b) (hk0 : 1048576 ≤ k) (hk1 : k ≤ 33554432) :
    LkGain ((a : ℝ) / 4294967296) ((b : ℝ) / 4294967296) := by
  obtain ⟨a0, a1, b0, b1, lo, hi, -⟩ := lk_butter_int h hk0 hk1
  have a0R : (256 : ℝ) ≤ a := by exact_mod_cast a0
  have a1R : (a : ℝ) ≤ 262144 := by exact_mod_cast a1
  have b0R : (1400 : ℝ) * k ≤ 1000 * b := by exact_mod_cast b0
  have kR : (1048576 : ℝ) ≤ k := by exact_mod_cast hk0
  have b1R : (b : ℝ) ≤ 47479522 := by exact_mod_cast b1
  have loR : (19999 : ℝ) * (a * 4294967296) ≤ 10000 * (b : ℝ) ^ 2 := by exact_mod_cast lo
  have hiR : (1000 : ℝ) * (b : ℝ) ^ 2 ≤ 2008 * (a * 4294967296) := by exact_mod_cast hi
  refine ⟨by positivity, ?_, ?_, ?_, ?_, ?_⟩
  · rw [div_le_iff₀ (by norm_num)]; linarith
  · apply div_pos _ (by norm_num); linarith
  · rw [div_le_iff₀ (by norm_num)]; linarith
  · rw [div_pow, le_div_iff₀ (by norm_num)]
    have : 1.9999 * ((a : ℝ) / 4294967296) * 4294967296 ^ 2 = 1.9999 * (a * 4294967296) := by ring
    rw [this]; linarith
  · rw [div_pow, div_le_iff₀ (by norm_num)]
    have : 2.008 * ((a : ℝ) / 4294967296) * 4294967296 ^ 2 = 2.008 * (a * 4294967296) := by ring
    rw [this]; linarith

/-- the static offset for a Butterworth pair: `β/(2α) + 1/2 ≤ 0.72·2^32/k + 1/2`, and it is at least `1/2` -/
theorem lk_butter_off {k a b : Int} (h : Lp2Butter k a b) (hk0 : 1048576 ≤ k) (hk1 : k ≤ 33554432) :
    lkOff ((a : ℝ) / 4294967296) ((b : ℝ) / 4294967296) ≤ 0.72 * 4294967296 / k + 1 / 2 ∧
    1 / 2 ≤ lkOff ((a : ℝ) / 4294967296) ((b : ℝ) / 4294967296) ∧
    lkOff ((a : ℝ) / 4294967296) ((b : ℝ) / 4294967296) ≤ 2950 := by
  obtain ⟨a0, a1, b0, b1, lo, hi, ok⟩ := lk_butter_int h hk0 hk1
  have a0R : (256 : ℝ) ≤ a := by exact_mod_cast a0
  have kR : (1048576 : ℝ) ≤ k := by exact_mod_cast hk0
  have bpos : (0 : ℝ) ≤ b := by exact_mod_cast h.hb0
  have okR : (100 : ℝ) * (b * k) ≤ 144 * (a * 4294967296) := by exact_mod_cast ok
  have e : lkOff ((a : ℝ) / 4294967296) ((b : ℝ) / 4294967296) = (b : ℝ) / (2 * a) + 1 / 2 := by
    unfold lkOff; field_simp
  rw [e]
  have hq : (b : ℝ) / (2 * a) ≤ 0.72 * 4294967296 / k := by
    rw [div_le_div_iff₀ (by linarith) (by linarith)]
    nlinarith
  refine ⟨by linarith, ?_, ?_⟩
  · have : 0 ≤ (b : ℝ) / (2 * a) := by positivity
    linarith
  · have : 0.72 * 4294967296 / (k : ℝ) ≤ 0.72 * 4294967296 / 1048576 :=
      div_le_div_of_nonneg_left (by norm_num) (by norm_num) kR
    norm_num at this
    linarith

/-- the settling time `k·n ≥ 40·2^32` gives `β·n ≥ 56` -/
theorem lk_butter_settle {k a b : Int} (h : Lp2Butter k a b) (hk0 : 1048576 ≤ k) (hk1 : k ≤ 33554432)
    (n : ℕ) (hn : 40 * 4294967296 ≤ k * n) : 56 ≤ (b : ℝ) / 4294967296 * n := by
  obtain ⟨a0, a1, b0, b1, lo, hi, ok⟩ := lk_butter_int h hk0 hk1
  have b0R : (1400 : ℝ) * k ≤ 1000 * b := by exact_mod_cast b0
  have hnR : (40 : ℝ) * 4294967296 ≤ k * n := by exact_mod_cast hn
  have nn : (0 : ℝ) ≤ n := Nat.cast_nonneg n
  rw [div_mul_eq_mul_div, le_div_iff₀ (by norm_num)]
  nlinarith [mul_le_mul_of_nonneg_right b0R nn]

end Idsp
