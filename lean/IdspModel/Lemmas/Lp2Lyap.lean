import IdspModel.Lemmas.Lp2Step
import Mathlib.Tactic.Ring
import Mathlib.Tactic.Linarith
import Mathlib.Tactic.LinearCombination
import Mathlib.Tactic.Positivity
/-!
# Second-order lowpass: the invariant quadratic form and the input-to-state inequality

For gains `k0 = a > 0`, `k1 = -b < 0` the linear part of the error recursion `lp2_err_rec` is the matrix
`A = [[1-2α, -(2-2β)], [2α, 1-2β]]` (`α = a/2^32`, `β = b/2^32`).  The quadratic form
`Q(E,s) = a·E² − (b−a)·E·s + (2^32−b)·s²` is (2^32 times) `v ∧ A v / 2`; it satisfies `Q(A v) = det A · Q(v)`
EXACTLY (`lp2Q_linear`), it is positive definite iff the characteristic roots are complex
(`lp2Disc a b = 4·a·2^32 − (a+b)² > 0`) and the disturbance direction has `Q(B) = 4·2^32`.  From this the
input-to-state inequality `lp2Q_iss` follows by one application of Cauchy–Schwarz (as a polynomial identity).
-/
namespace Idsp
set_option linter.unusedVariables false

/-- the invariant quadratic form -/
def lp2Q (a b E s : Int) : Int := a * E ^ 2 - (b - a) * E * s + (4294967296 - b) * s ^ 2

/-- `−discriminant/4` of the characteristic polynomial (times `2^64`): positive iff the roots are complex -/
def lp2Disc (a b : Int) : Int := 4 * a * 4294967296 - (a + b) ^ 2

theorem lp2Q_scale (a b c E s : Int) : lp2Q a b (c * E) (c * s) = c ^ 2 * lp2Q a b E s := by
  unfold lp2Q; ring

/-- `Q(A v) = det(A) · Q(v)` exactly (scaled by `2^32` per coordinate to stay in the integers) -/
theorem lp2Q_linear (a b E s : Int) :
    lp2Q a b ((4294967296 - 2 * a) * E - (2 * 4294967296 - 2 * b) * s) (2 * a * E + (4294967296 - 2 * b) * s)
      = 4294967296 * (4294967296 + 2 * a - 2 * b) * lp2Q a b E s := by
  unfold lp2Q; ring

theorem lp2Q_nonneg {a b : Int} (ha : 0 < a) (hD : 0 ≤ lp2Disc a b) (E s : Int) : 0 ≤ lp2Q a b E s := by
  have h : 4 * a * lp2Q a b E s = (2 * a * E - (b - a) * s) ^ 2 + lp2Disc a b * s ^ 2 := by
    unfold lp2Q lp2Disc; ring
  have h2 : 0 ≤ 4 * a * lp2Q a b E s := by
    rw [h]; have := mul_nonneg hD (sq_nonneg s); positivity
  by_contra hc
  have hc' := not_le.mp hc
  nlinarith

/-- extent of a sublevel set in the `E` direction -/
theorem lp2Q_extent_E (a b E s : Int) :
    lp2Disc a b * E ^ 2 ≤ 4 * (4294967296 - b) * lp2Q a b E s := by
  have h : 4 * (4294967296 - b) * lp2Q a b E s
      = (2 * (4294967296 - b) * s - (b - a) * E) ^ 2 + lp2Disc a b * E ^ 2 := by
    unfold lp2Q lp2Disc; ring
  rw [h]; nlinarith [sq_nonneg (2 * (4294967296 - b) * s - (b - a) * E)]

/-- extent of a sublevel set in the `s` direction -/
theorem lp2Q_extent_s (a b E s : Int) : lp2Disc a b * s ^ 2 ≤ 4 * a * lp2Q a b E s := by
  have h : 4 * a * lp2Q a b E s = (2 * a * E - (b - a) * s) ^ 2 + lp2Disc a b * s ^ 2 := by
    unfold lp2Q lp2Disc; ring
  rw [h]; nlinarith [sq_nonneg (2 * a * E - (b - a) * s)]

/-- **input-to-state inequality** for one step `2^32·v' = (2^32·A) v + (−2, 2)·u`:
    `b(2^32−b)·Q(v') ≤ b(2^32+2a−2b)·Q(v) + 4(2^32−b)·u²`.
    (For the exact Butterworth relation `2a·2^32 = b²` this reads `Q(v') ≤ (1−β)·Q(v) + 4u²/b`.) -/
theorem lp2Q_iss {a b : Int} (ha : 0 < a) (hD : 0 ≤ lp2Disc a b) (E s E' s' u : Int)
    (hE : 4294967296 * E' = (4294967296 - 2 * a) * E - (2 * 4294967296 - 2 * b) * s - 2 * u)
    (hs : 4294967296 * s' = 2 * a * E + (4294967296 - 2 * b) * s + 2 * u) :
    b * (4294967296 - b) * lp2Q a b E' s'
      ≤ b * (4294967296 + 2 * a - 2 * b) * lp2Q a b E s + 4 * (4294967296 - b) * u ^ 2 := by
  have hsc := lp2Q_scale a b 4294967296 E' s'
  rw [hE, hs] at hsc
  have hid : 4294967296 ^ 2 * (b * (4294967296 + 2 * a - 2 * b) * lp2Q a b E s + 4 * (4294967296 - b) * u ^ 2)
      - b * (4294967296 - b) * lp2Q a b ((4294967296 - 2 * a) * E - (2 * 4294967296 - 2 * b) * s - 2 * u)
          (2 * a * E + (4294967296 - 2 * b) * s + 2 * u)
      = lp2Q a b (b * ((4294967296 - 2 * a) * E - (2 * 4294967296 - 2 * b) * s) + 2 * (4294967296 - b) * u)
          (b * (2 * a * E + (4294967296 - 2 * b) * s) - 2 * (4294967296 - b) * u) := by
    unfold lp2Q; ring
  have hnn := lp2Q_nonneg ha hD
    (b * ((4294967296 - 2 * a) * E - (2 * 4294967296 - 2 * b) * s) + 2 * (4294967296 - b) * u)
    (b * (2 * a * E + (4294967296 - 2 * b) * s) - 2 * (4294967296 - b) * u)
  rw [← hid, hsc] at hnn
  have : (0 : Int) ≤ 4294967296 ^ 2 * ((b * (4294967296 + 2 * a - 2 * b) * lp2Q a b E s
      + 4 * (4294967296 - b) * u ^ 2) - b * (4294967296 - b) * lp2Q a b E' s') := by
    linarith
  have h2 := nonneg_of_mul_nonneg_right this (by norm_num)
  linarith

/-- a sublevel set `Q ≤ L` above the equilibrium level is forward invariant -/
theorem lp2Q_invariant {a b : Int} (ha : 0 < a) (hD : 0 ≤ lp2Disc a b) (hb0 : 0 < b) (hb1 : b ≤ 2147483648)
    (E s E' s' u U L : Int)
    (hE : 4294967296 * E' = (4294967296 - 2 * a) * E - (2 * 4294967296 - 2 * b) * s - 2 * u)
    (hs : 4294967296 * s' = 2 * a * E + (4294967296 - 2 * b) * s + 2 * u)
    (hu : u ^ 2 ≤ U ^ 2) (hL : 4 * (4294967296 - b) * U ^ 2 ≤ b * (b - 2 * a) * L)
    (hV : lp2Q a b E s ≤ L) : lp2Q a b E' s' ≤ L := by
  have h := lp2Q_iss ha hD E s E' s' u hE hs
  have h1 : b * (4294967296 + 2 * a - 2 * b) * lp2Q a b E s ≤ b * (4294967296 + 2 * a - 2 * b) * L :=
    mul_le_mul_of_nonneg_left hV (by apply mul_nonneg <;> omega)
  have h2 : 4 * (4294967296 - b) * u ^ 2 ≤ 4 * (4294967296 - b) * U ^ 2 :=
    mul_le_mul_of_nonneg_left hu (by omega)
  have h3 : b * (4294967296 - b) * lp2Q a b E' s' ≤ b * (4294967296 - b) * L := by
    have : b * (4294967296 + 2 * a - 2 * b) * L + b * (b - 2 * a) * L = b * (4294967296 - b) * L := by ring
    linarith
  exact le_of_mul_le_mul_left h3 (by apply mul_pos <;> omega)

/-- above the equilibrium level the form strictly decreases -/
theorem lp2Q_descent {a b : Int} (ha : 0 < a) (hD : 0 ≤ lp2Disc a b) (hb0 : 0 < b) (hb1 : b ≤ 2147483648)
    (hba : 2 * a < b)
    (E s E' s' u U L : Int)
    (hE : 4294967296 * E' = (4294967296 - 2 * a) * E - (2 * 4294967296 - 2 * b) * s - 2 * u)
    (hs : 4294967296 * s' = 2 * a * E + (4294967296 - 2 * b) * s + 2 * u)
    (hu : u ^ 2 ≤ U ^ 2) (hL : 4 * (4294967296 - b) * U ^ 2 ≤ b * (b - 2 * a) * L)
    (hV : L < lp2Q a b E s) : lp2Q a b E' s' < lp2Q a b E s := by
  have h := lp2Q_iss ha hD E s E' s' u hE hs
  have h2 : 4 * (4294967296 - b) * u ^ 2 ≤ 4 * (4294967296 - b) * U ^ 2 :=
    mul_le_mul_of_nonneg_left hu (by omega)
  have h1 : b * (b - 2 * a) * L < b * (b - 2 * a) * lp2Q a b E s :=
    mul_lt_mul_of_pos_left hV (by apply mul_pos <;> omega)
  have h3 : b * (4294967296 - b) * lp2Q a b E' s' < b * (4294967296 - b) * lp2Q a b E s := by
    have : b * (4294967296 + 2 * a - 2 * b) * lp2Q a b E s + b * (b - 2 * a) * lp2Q a b E s
        = b * (4294967296 - b) * lp2Q a b E s := by ring
    linarith
  exact lt_of_mul_lt_mul_left h3 (by apply mul_nonneg <;> omega)

/-- the equilibrium sublevel set `b(b−2a)·Q ≤ 4(2^32−b)·U²` itself is forward invariant -/
theorem lp2Q_invariant_star {a b : Int} (ha : 0 < a) (hD : 0 ≤ lp2Disc a b) (hb0 : 0 < b) (hb1 : b ≤ 2147483648)
    (hba : 2 * a < b)
    (E s E' s' u U : Int)
    (hE : 4294967296 * E' = (4294967296 - 2 * a) * E - (2 * 4294967296 - 2 * b) * s - 2 * u)
    (hs : 4294967296 * s' = 2 * a * E + (4294967296 - 2 * b) * s + 2 * u)
    (hu : u ^ 2 ≤ U ^ 2)
    (hV : b * (b - 2 * a) * lp2Q a b E s ≤ 4 * (4294967296 - b) * U ^ 2) :
    b * (b - 2 * a) * lp2Q a b E' s' ≤ 4 * (4294967296 - b) * U ^ 2 := by
  have h := lp2Q_iss ha hD E s E' s' u hE hs
  have h2 : 4 * (4294967296 - b) * u ^ 2 ≤ 4 * (4294967296 - b) * U ^ 2 :=
    mul_le_mul_of_nonneg_left hu (by omega)
  have hba' : 0 < b - 2 * a := by omega
  have h0 := mul_le_mul_of_nonneg_left h (le_of_lt hba')
  have h1 := mul_le_mul_of_nonneg_left hV (show (0 : Int) ≤ 4294967296 + 2 * a - 2 * b by omega)
  have h3 := mul_le_mul_of_nonneg_left h2 (le_of_lt hba')
  have h4 : (4294967296 - b) * (b * (b - 2 * a) * lp2Q a b E' s')
      ≤ (4294967296 - b) * (4 * (4294967296 - b) * U ^ 2) := by
    nlinarith
  exact le_of_mul_le_mul_left h4 (by omega)

/-- outside the equilibrium sublevel set the form strictly decreases -/
theorem lp2Q_descent_star {a b : Int} (ha : 0 < a) (hD : 0 ≤ lp2Disc a b) (hb0 : 0 < b) (hb1 : b ≤ 2147483648)
    (hba : 2 * a < b)
    (E s E' s' u U : Int)
    (hE : 4294967296 * E' = (4294967296 - 2 * a) * E - (2 * 4294967296 - 2 * b) * s - 2 * u)
    (hs : 4294967296 * s' = 2 * a * E + (4294967296 - 2 * b) * s + 2 * u)
    (hu : u ^ 2 ≤ U ^ 2)
    (hV : 4 * (4294967296 - b) * U ^ 2 < b * (b - 2 * a) * lp2Q a b E s) :
    lp2Q a b E' s' < lp2Q a b E s := by
  have h := lp2Q_iss ha hD E s E' s' u hE hs
  have h2 : 4 * (4294967296 - b) * u ^ 2 ≤ 4 * (4294967296 - b) * U ^ 2 :=
    mul_le_mul_of_nonneg_left hu (by omega)
  have h3 : b * (4294967296 - b) * lp2Q a b E' s' < b * (4294967296 - b) * lp2Q a b E s := by
    have : b * (4294967296 + 2 * a - 2 * b) * lp2Q a b E s + b * (b - 2 * a) * lp2Q a b E s
        = b * (4294967296 - b) * lp2Q a b E s := by ring
    linarith
  exact lt_of_mul_lt_mul_left h3 (by apply mul_nonneg <;> omega)

end Idsp
