import IdspModel.Lemmas.RpllStep
/-!
Noise-free timestamp schedules for the RPLL lock property (C07) and the machinery to turn one kernel-evaluated
closed orbit into a statement about all later updates.

A configuration `c : RpllCfg` fixes `dt2 = c.d` (`2^d` counter ticks per update), the reference period `c.P` (ticks),
the tick `c.off` of a reference edge ("initial timestamp offset") and the two shifts.  Update number `k`
(k = 0, 1, …) happens at counter time `2^d·k` and receives `Some(t)` for the reference edge
`t ∈ (2^d·(k−1), 2^d·k]` if there is one (at most one when `P > 2^d`), else `None` — the convention of the crate's
own test harness (`rpll.rs`, `Harness::run`); then `dt = (−t) & (2^d − 1)` is the time since the edge.  Core Lean only.
-/
namespace Idsp

structure RpllCfg where
  d : Nat
  P : Int
  off : Int
  sf : Int
  sp : Int

/-- timestamp handed to update number `k` -/
def RpllCfg.sched (c : RpllCfg) (k : Nat) : Option Int :=
  let t : Int := 2 ^ c.d * k
  let r := (t - c.off) % c.P
  if r < 2 ^ c.d then some (wrapI 32 (t - r)) else none

/-- true reference phase at update `k` in units of `2^-32` turns: `floor(((2^d·k − off) mod P)·2^32 / P)`
    (the exact real phase is less than one unit above this) -/
def RpllCfg.phaseRef (c : RpllCfg) (k : Nat) : Int := ((2 ^ c.d * (k : Int) - c.off) % c.P) * 2 ^ 32 / c.P

/-- phase error of the phase output `y` at update `k`, wrapped to `[-1/2, 1/2)` turns, in units of `2^-32` turns -/
def RpllCfg.err (c : RpllCfg) (k : Nat) (y : Int) : Int := wrapI 32 (y - c.phaseRef k)

/-- the state after the `n` updates number `k0, …, k0+n−1`, started in `s` -/
def RpllCfg.run (c : RpllCfg) (m : Mode) : Nat → Nat → RPLL → R RPLL
  | _, 0, s => .ok s
  | k0, n + 1, s => RPLL.update m s (c.sched k0) c.sf c.sp >>= fun r => c.run m (k0 + 1) n r.1

/-- executable checker: run `n` updates from `s` and check `good (phase error) (frequency output)` after each -/
def RpllCfg.chk (c : RpllCfg) (m : Mode) (good : Int → Int → Bool) : Nat → Nat → RPLL → Option RPLL
  | _, 0, s => some s
  | k, n + 1, s =>
    match RPLL.update m s (c.sched k) c.sf c.sp with
    | .ok (s', y, f) => if good (c.err k y) f then c.chk m good (k + 1) n s' else none
    | .error _ => none

/-- the same state with the stored timestamp moved by `a` counter ticks -/
def RPLL.shiftX (a : Int) (s : RPLL) : RPLL := { s with x := wrapI 32 (s.x + a) }

theorem rpll_shiftX_shiftX (a b : Int) (s : RPLL) : (s.shiftX a).shiftX b = s.shiftX (a + b) := by
  simp only [RPLL.shiftX, wrapI_add_wrapI_left, Int.add_assoc]

theorem rpll_shiftX_zero (s : RPLL) (h : inI 32 s.x = true) : s.shiftX 0 = s := by
  simp only [RPLL.shiftX, Int.add_zero, wrapI_of_in (by decide : 0 < 32) h]

/-- an orbit of `K` updates spans a whole number `q` of reference periods -/
def RpllCfg.orbit (c : RpllCfg) (K q : Nat) : Prop := (2 : Int) ^ c.d * K = c.P * q

instance (c : RpllCfg) (K q : Nat) : Decidable (c.orbit K q) := by unfold RpllCfg.orbit; infer_instance

private theorem sched_arg (c : RpllCfg) (K q : Nat) (h : c.orbit K q) (k j : Nat) :
    (2 : Int) ^ c.d * ((k + K * j : Nat) : Int) = 2 ^ c.d * k + c.P * (q * j) := by
  unfold RpllCfg.orbit at h
  rw [Int.natCast_add, Int.natCast_mul, Int.mul_add, ← Int.mul_assoc, h, Int.mul_assoc]

private theorem sched_rem (c : RpllCfg) (K q : Nat) (h : c.orbit K q) (k j : Nat) :
    ((2 : Int) ^ c.d * ((k + K * j : Nat) : Int) - c.off) % c.P = (2 ^ c.d * k - c.off) % c.P := by
  rw [sched_arg c K q h, show (2 : Int) ^ c.d * k + c.P * (q * j) - c.off = 2 ^ c.d * k - c.off + c.P * (q * j) by omega,
    Int.add_mul_emod_self_left]

theorem rpllSched_shift (c : RpllCfg) (K q : Nat) (h : c.orbit K q) (k j : Nat) :
    c.sched (k + K * j) = (c.sched k).map fun x => wrapI 32 (x + 2 ^ c.d * K * j) := by
  unfold RpllCfg.sched
  simp only [sched_rem c K q h]
  split
  · simp only [Option.map_some, wrapI_add_wrapI_left]
    congr 2
    rw [sched_arg c K q h, show (2 : Int) ^ c.d * K * j = c.P * (q * j) by rw [h, Int.mul_assoc]]
    omega
  · rfl

theorem rpllErr_shift (c : RpllCfg) (K q : Nat) (h : c.orbit K q) (k j : Nat) (y : Int) :
    c.err (k + K * j) y = c.err k y := by
  unfold RpllCfg.err RpllCfg.phaseRef; rw [sched_rem c K q h]

/-- **time-shift equivariance**: moving the stored and the new timestamp by a multiple of `2^dt2` ticks changes
    nothing but the stored timestamp — in both modes, including the panicking cases. -/
theorem rpll_update_shift (m : Mode) (s : RPLL) (i : Option Int) (a sf sp : Int) (d : Nat)
    (hd : s.dt2 = d) (hd30 : d ≤ 30) (ha : (2 : Int) ^ d ∣ a) :
    RPLL.update m (s.shiftX a) (i.map fun x => wrapI 32 (x + a)) sf sp
      = (RPLL.update m s i sf sp >>= fun r => .ok (r.1.shiftX a, r.2.1, r.2.2)) := by
  obtain ⟨dt2, sx, ff, f, y⟩ := s
  simp only at hd
  subst hd
  cases i with
  | none =>
    simp only [RPLL.update, RPLL.shiftX, Option.map_none]
    simp only [bind_assoc, bind_ok']
    rfl
  | some x =>
    have hm : (2 : Int) ^ d ≤ 2 ^ 30 := two_pow_mono hd30
    have hm0 := two_pow_pos d
    simp only [Int.reducePow] at hm
    have h1 : ∀ site, shlI m 32 site 1 (d : Int) = .ok (2 ^ d) := by
      intro site
      rw [shlI_ok (by omega) (by omega), Int.one_mul, Int.toNat_natCast, wrapI32_id (by omega) (by omega)]
    have h2 : ∀ site, arithI m 32 site ((2 : Int) ^ d - 1) = .ok (2 ^ d - 1) := by
      intro site; rw [arithI32_ok (by omega) (by omega)]
    have k1 : wrapI 32 (wrapI 32 (x + a) - wrapI 32 (sx + a)) = wrapI 32 (x - sx) := by
      rw [wrapI_sub_wrapI_left, wrapI_sub_wrapI_right]; congr 1; omega
    have k2 : Int.ofNat ((wrapU 32 (-wrapI 32 (x + a))).toNat &&& (wrapU 32 ((2 : Int) ^ d - 1)).toNat)
        = Int.ofNat ((wrapU 32 (-x)).toNat &&& (wrapU 32 ((2 : Int) ^ d - 1)).toNat) := by
      rw [wrapU_of_in (show 0 ≤ (2 : Int) ^ d - 1 by omega) (by simp only [Int.reducePow]; omega),
        land_mask _ _ (wrapU_bounds 32 _).1, land_mask _ _ (wrapU_bounds 32 _).1]
      unfold wrapU
      rw [emod_pow_emod _ (by omega : d ≤ 32), emod_pow_emod _ (by omega : d ≤ 32)]
      obtain ⟨k, hk⟩ := wrapI_eq_sub 32 (x + a)
      obtain ⟨w, hw⟩ := ha
      obtain ⟨v, hv⟩ := two_pow_dvd (show d ≤ 32 by omega)
      rw [hk, hw, hv, show -(x + 2 ^ d * w - k * (2 ^ d * v)) = -x + 2 ^ d * (k * v - w) by
        rw [Int.mul_sub, Int.mul_left_comm k]; omega,
        Int.add_mul_emod_self_left]
    simp only [RPLL.update, RPLL.shiftX, Option.map_some, h1, bind_ok', h2, k1, k2, bind_assoc]
    rfl

/-- `update` never changes `dt2` -/
theorem rpll_update_dt2 (m : Mode) (s s' : RPLL) (input : Option Int) (sf sp y f : Int)
    (h : RPLL.update m s input sf sp = .ok (s', y, f)) : s'.dt2 = s.dt2 := by
  unfold RPLL.update at h
  simp only [bind, Except.bind] at h
  repeat' (split at h <;> try contradiction)
  all_goals (simp only [Except.ok.injEq, Prod.mk.injEq] at h; obtain ⟨rfl, rfl, rfl⟩ := h; rfl)

theorem rpllRun_add (c : RpllCfg) (m : Mode) (a b : Nat) : ∀ (k0 : Nat) (s : RPLL),
    c.run m k0 (a + b) s = c.run m k0 a s >>= c.run m (k0 + a) b := by
  induction a with
  | zero => intro k0 s; simp only [Nat.zero_add, RpllCfg.run, bind_ok', Nat.add_zero]
  | succ a ih =>
    intro k0 s
    rw [show a + 1 + b = (a + b) + 1 by omega]
    simp only [RpllCfg.run, bind_assoc]
    congr 1; funext r
    rw [ih, show k0 + 1 + a = k0 + (a + 1) by omega]

theorem rpllRun_dt2 (c : RpllCfg) (m : Mode) (n : Nat) : ∀ (k0 : Nat) (s s' : RPLL),
    c.run m k0 n s = .ok s' → s'.dt2 = s.dt2 := by
  induction n with
  | zero => intro k0 s s' h; simp only [RpllCfg.run, Except.ok.injEq] at h; rw [h]
  | succ n ih =>
    intro k0 s s' h
    simp only [RpllCfg.run] at h
    cases hu : RPLL.update m s (c.sched k0) c.sf c.sp with
    | error e => rw [hu] at h; cases h
    | ok r =>
      obtain ⟨s1, y, f⟩ := r
      rw [hu, bind_ok'] at h
      rw [ih (k0 + 1) s1 s' h, rpll_update_dt2 m s s1 _ _ _ y f hu]

/-- the run is equivariant under a shift by `j` orbits -/
theorem rpllRun_shift (c : RpllCfg) (K q : Nat) (h : c.orbit K q) (hd30 : c.d ≤ 30) (m : Mode) (j n : Nat) :
    ∀ (k0 : Nat) (s : RPLL), s.dt2 = c.d →
    c.run m (k0 + K * j) n (s.shiftX (2 ^ c.d * K * j))
      = c.run m k0 n s >>= fun s' => .ok (s'.shiftX (2 ^ c.d * K * j)) := by
  induction n with
  | zero => intro k0 s _; simp only [RpllCfg.run, bind_ok']
  | succ n ih =>
    intro k0 s hd
    simp only [RpllCfg.run, bind_assoc]
    rw [rpllSched_shift c K q h, rpll_update_shift m s _ _ _ _ c.d hd hd30
      ⟨K * j, by rw [Int.mul_assoc]⟩, bind_assoc]
    cases hu : RPLL.update m s (c.sched k0) c.sf c.sp with
    | error e => rfl
    | ok r =>
      obtain ⟨s', y, f⟩ := r
      simp only [bind_ok']
      rw [show k0 + K * j + 1 = (k0 + 1) + K * j by omega]
      exact ih (k0 + 1) s' (by rw [rpll_update_dt2 m s s' _ _ _ y f hu]; exact hd)

/-- soundness of the checker -/
theorem rpllChk_sound (c : RpllCfg) (m : Mode) (good : Int → Int → Bool) (n : Nat) :
    ∀ (k0 : Nat) (s sEnd : RPLL), c.chk m good k0 n s = some sEnd →
    c.run m k0 n s = .ok sEnd ∧
    ∀ i, i < n → ∃ si si' y f, c.run m k0 i s = .ok si ∧
      RPLL.update m si (c.sched (k0 + i)) c.sf c.sp = .ok (si', y, f) ∧ good (c.err (k0 + i) y) f = true := by
  induction n with
  | zero =>
    intro k0 s sEnd h
    simp only [RpllCfg.chk, Option.some.injEq] at h
    subst h
    exact ⟨rfl, fun i hi => absurd hi (Nat.not_lt_zero i)⟩
  | succ n ih =>
    intro k0 s sEnd h
    unfold RpllCfg.chk at h
    split at h
    · next s' y f hu =>
      split at h
      · next hb =>
        obtain ⟨hrun, hall⟩ := ih (k0 + 1) s' sEnd h
        refine ⟨by simp only [RpllCfg.run, hu, bind_ok']; exact hrun, ?_⟩
        intro i hi
        cases i with
        | zero => exact ⟨s, s', y, f, rfl, hu, hb⟩
        | succ i =>
          obtain ⟨si, si', y', f', h1, h2, h3⟩ := hall i (by omega)
          refine ⟨si, si', y', f', by simp only [RpllCfg.run, hu, bind_ok']; exact h1, ?_⟩
          rw [show k0 + (i + 1) = k0 + 1 + i by omega]
          exact ⟨h2, h3⟩
      · cases h
    · cases h

/-- after `j` whole orbits the state is the start state again, `2^d·K·j` ticks later -/
theorem rpll_orbits (c : RpllCfg) (K q : Nat) (h : c.orbit K q) (hd30 : c.d ≤ 30) (m : Mode)
    (k0 : Nat) (s0 : RPLL) (hs0 : s0.dt2 = c.d) (hx : inI 32 s0.x = true)
    (horb : c.run m k0 K s0 = .ok (s0.shiftX (2 ^ c.d * K))) (j : Nat) :
    c.run m k0 (K * j) s0 = .ok (s0.shiftX (2 ^ c.d * K * j)) := by
  induction j with
  | zero =>
    simp only [Nat.mul_zero, RpllCfg.run, Int.natCast_zero, Int.mul_zero]
    rw [rpll_shiftX_zero s0 hx]
  | succ j ih =>
    rw [show K * (j + 1) = K * j + K by rw [Nat.mul_succ], rpllRun_add, ih, bind_ok',
      rpllRun_shift c K q h hd30 m j K k0 s0 hs0, horb, bind_ok', rpll_shiftX_shiftX]
    congr 2
    rw [Int.natCast_add, Int.mul_add]; omega

/-- **one closed orbit implies the checked property at every later update**: if `K` updates starting with number `k0`
    bring `s0` back to itself (timestamps moved by the elapsed `2^d·K` ticks, a whole number of reference periods)
    and `good` holds after each of them, then the model started in `s0` at update `k0` never panics and `good` holds
    after every update, for ever. -/
theorem rpll_orbit_forever (c : RpllCfg) (K q : Nat) (h : c.orbit K q) (hK : 0 < K) (hd30 : c.d ≤ 30) (m : Mode)
    (good : Int → Int → Bool) (k0 : Nat) (s0 : RPLL) (hs0 : s0.dt2 = c.d) (hx : inI 32 s0.x = true)
    (horb : c.chk m good k0 K s0 = some (s0.shiftX (2 ^ c.d * K))) (n : Nat) :
    ∃ s s' y f, c.run m k0 n s0 = .ok s ∧
      RPLL.update m s (c.sched (k0 + n)) c.sf c.sp = .ok (s', y, f) ∧ good (c.err (k0 + n) y) f = true := by
  have hn : n = K * (n / K) + n % K := (Nat.div_add_mod n K).symm
  generalize n / K = j at hn
  have hi : n % K < K := Nat.mod_lt _ hK
  generalize n % K = i at hn hi
  subst hn
  have hsound := rpllChk_sound c m good K k0 s0 _ horb
  obtain ⟨si, si', y, f, h1, h2, h3⟩ := hsound.2 i hi
  have hd : si.dt2 = c.d := by rw [rpllRun_dt2 c m i k0 s0 si h1]; exact hs0
  refine ⟨si.shiftX (2 ^ c.d * K * j), si'.shiftX (2 ^ c.d * K * j), y, f, ?_, ?_, ?_⟩
  · rw [rpllRun_add, rpll_orbits c K q h hd30 m k0 s0 hs0 hx hsound.1, bind_ok',
      rpllRun_shift c K q h hd30 m j i k0 s0 hs0, h1, bind_ok']
  · rw [show k0 + (K * j + i) = (k0 + i) + K * j by omega, rpllSched_shift c K q h,
      rpll_update_shift m si _ _ _ _ c.d hd hd30 ⟨K * j, by rw [Int.mul_assoc]⟩, h2, bind_ok']
  · rw [show k0 + (K * j + i) = (k0 + i) + K * j by omega, rpllErr_shift c K q h]
    exact h3

end Idsp
