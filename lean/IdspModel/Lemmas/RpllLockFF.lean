import IdspModel.Lemmas.RpllLockRun
/-! Frequency-loop convergence of the model run from `RPLL.new` on a noise-free schedule. -/
namespace Idsp

/-- the run from `RPLL.new` never panics and keeps the invariant -/
theorem rpll_run_inv (c : RpllCfg) (a : c.Adm) (m : Mode) (n : Nat) :
    ∃ s, c.run m 0 n (RPLL.new c.d) = .ok s ∧ c.Inv n s := by
  induction n with
  | zero => exact ⟨_, rfl, rpll_inv_new c⟩
  | succ n ih =>
    obtain ⟨s, hrun, hinv⟩ := ih
    rw [rpllRun_add, hrun, bind_ok', Nat.zero_add]
    simp only [RpllCfg.run]
    by_cases hr : c.num n % c.P < 2 ^ c.d
    · obtain ⟨s', hu, hi, -⟩ := rpll_step_some c a m n s hinv hr
      exact ⟨s', by rw [hu]; rfl, hi⟩
    · obtain ⟨hu, hi, -⟩ := rpll_step_none c a m n s hinv hr
      exact ⟨_, by rw [hu]; rfl, hi⟩

/-- after `n ≥ 2^(sf−d+5)` updates at least `32·⌊S/P⌋` edges have been seen, enough for 20 halvings -/
theorem rpll_cnt_halvings (c : RpllCfg) (a : c.Adm) (n : Nat) (hn : 32 * c.S ≤ 2 ^ c.d * (n : Int)) :
    ∃ n0 : Nat, 2 * (c.S - c.P) ^ n0 ≤ c.S ^ n0 ∧ 20 * n0 ≤ c.cnt n := by
  obtain ⟨hP0, hPS, hh0, -, -, -, -, -, -, -, -⟩ := a.facts
  have hge := rpll_cnt_ge c a.hDP n
  have h1 : 32 * c.S / c.P ≤ 2 ^ c.d * (n : Int) / c.P := Int.ediv_le_ediv hP0 hn
  have h2 : 32 * (c.S / c.P) ≤ 32 * c.S / c.P := by
    rw [Int.le_ediv_iff_mul_le hP0]
    have := Int.emod_add_mul_ediv c.S c.P
    have := Int.emod_nonneg c.S (show c.P ≠ 0 by omega)
    nlinarith
  have hw1 : 1 ≤ c.S / c.P := by rw [Int.le_ediv_iff_mul_le hP0]; omega
  by_cases hw : 2 ≤ c.S / c.P
  · refine ⟨(c.S / c.P).toNat + 1, ?_, by omega⟩
    apply ff_halving hP0 hPS a.S_eq
    have := Int.emod_add_mul_ediv c.S c.P
    have := Int.emod_lt_of_pos c.S hP0
    push_cast
    rw [Int.toNat_of_nonneg (by omega)]
    nlinarith
  · refine ⟨1, ?_, by omega⟩
    have : c.S / c.P < 2 := by omega
    rw [Int.ediv_lt_iff_lt_mul hP0] at this
    simp only [pow_one]; omega

/-- **frequency loop convergence** (model level): for every configuration with `2^d < P < 2^sf`, `d < sf ≤ 31`,
    `d ≤ sp < d + 32`, every edge offset and both profiles, the run from `RPLL::new(d)` never panics, and after
    every `n ≥ 2^(sf−d+5)` updates `|ff·P − 2^(32+d)| ≤ 2^(sf−1) + 2^(32+d)/2^20`, i.e. the relative error of the
    frequency-loop word `ff` is at most `2^(sf−d−33) + 2^-20`. -/
theorem rpll_ff_converges_run (c : RpllCfg) (a : c.Adm) (m : Mode) (n : Nat)
    (hn : 32 * c.S ≤ 2 ^ c.d * (n : Int)) :
    ∃ s, c.run m 0 n (RPLL.new c.d) = .ok s ∧ c.Inv n s ∧
      2 ^ 20 * (|s.ff * c.P - c.T| - c.h) ≤ c.T := by
  obtain ⟨s, hrun, hinv⟩ := rpll_run_inv c a m n
  obtain ⟨hP0, hPS, -, -, hR0, -, -, -, -, -, -⟩ := a.facts
  obtain ⟨n0, hh, hk⟩ := rpll_cnt_halvings c a n hn
  have := ffIter_bound hP0 hPS a.S_eq hR0.le n0 20 (c.cnt n) hh hk
  rw [a.T_eq] at this
  exact ⟨s, hrun, hinv, by rw [hinv.2.1]; exact this⟩

end Idsp
