import IdspModel.Lemmas.Atan2Tab
import IdspModel.Lemmas.Atan2AccReal
import Mathlib.Analysis.Real.Pi.Bounds
/-!
Accuracy of `atan2` against the real angle, part 2: the kernel (polynomial `atani`) against `Real.arctan`, table
machinery.

`divi` hands `atani` the argument `q·2^15 + 2^14`, which represents the real number `t_q = (2q+1)/2^17`.
`atan2AccRun n q lo hi lo' hi'` is an executable check over the `n` consecutive quotient fields `q, …, q+n-1` that
carries an integer enclosure `lo/2^64 ≤ arctan t_q ≤ hi/2^64` along:
* step `q → q+1`: `arctan t_{q+1} = arctan t_q + arctan w`, `w = 2^18/(2^34 + (2q+1)(2q+3))` (subtraction formula),
  and `w(1 - 2^-33) ≤ w - w³/3 ≤ arctan w ≤ w`; with `W = ⌊2^64·w⌋` the enclosure becomes
  `[lo + W - ⌊W/2^33⌋ - 1, hi + W + 1]` (it widens by `≈ 2^-49` per step, `< 10^-10` over the whole table);
* check at `q`: with `r = atani(q·2^15 + 2^14)` (through the evaluation-friendly copy `ataniN` of `Atan2Tab.lean`)
  and the integer enclosure `PL/2^62 < π < PH/2^62`: `r·PH ≤ (lo + S)·2^29` and `hi·2^29 ≤ r·PL + S·2^29` with
  `S = ⌊2.3e-6·2^64⌋`, which imply `|r·π/2^31 − arctan t_q| ≤ 2.3e-6`.
`atan2AccRun_spec` is the soundness theorem; the chunk files `Atan2AccTabNN.lean` evaluate the check in the kernel.
-/
namespace Idsp
open Real

/-- the real number represented by the argument `q·2^15 + 2^14` of `atani`: `(q + ½)/2^16` -/
noncomputable def atan2AccT (q : Nat) : ℝ := (2 * (q : ℝ) + 1) / 131072

/-- the check at one quotient field (`14488038916154245684/2^62 < π < 14488038916154245685/2^62`,
    `42427511369531 = ⌊2.3e-6·2^64⌋`, `536870912 = 2^29`) -/
def atan2AccChk (q lo hi : Nat) : Bool :=
  match atanQN q with
  | some r =>
    forceNat r fun r =>
      Nat.ble (r * 14488038916154245685) ((lo + 42427511369531) * 536870912) &&
        Nat.ble (hi * 536870912) (r * 14488038916154245684 + 42427511369531 * 536870912)
  | none => false

/-- `⌊2^64·w⌋` for the increment `w = 2^18/(2^34 + (2q+1)(2q+3))` -/
def atan2AccW (q : Nat) : Nat := 4835703278458516698824704 / (17179869184 + (2 * q + 1) * (2 * q + 3))

/-- the next lower end -/
def atan2AccLo (lo W : Nat) : Nat := lo + W - W / 8589934592 - 1

/-- executable check over `n` consecutive quotient fields, see the module doc -/
def atan2AccRun : Nat → Nat → Nat → Nat → Nat → Nat → Bool
  | 0, _, lo, hi, lo', hi' => Nat.ble lo' lo && Nat.ble hi hi'
  | n + 1, q, lo, hi, lo', hi' =>
    if atan2AccChk q lo hi then
      forceNat (atan2AccW q) fun W =>
      forceNat (atan2AccLo lo W) fun lo1 =>
      forceNat (hi + W + 1) fun hi1 =>
      forceNat (q + 1) fun q1 => atan2AccRun n q1 lo1 hi1 lo' hi'
    else false

theorem atan2AccRun_zero (q lo hi lo' hi' : Nat) :
    atan2AccRun 0 q lo hi lo' hi' = (Nat.ble lo' lo && Nat.ble hi hi') := by
  rw [atan2AccRun]

theorem atan2AccRun_succ (n q lo hi lo' hi' : Nat) :
    atan2AccRun (n + 1) q lo hi lo' hi' =
      if atan2AccChk q lo hi then
        forceNat (atan2AccW q) fun W =>
        forceNat (atan2AccLo lo W) fun lo1 =>
        forceNat (hi + W + 1) fun hi1 =>
        forceNat (q + 1) fun q1 => atan2AccRun n q1 lo1 hi1 lo' hi'
      else false := by
  rw [atan2AccRun]

/-- `lo/2^64 ≤ arctan t_q ≤ hi/2^64` -/
def Atan2AccInv (q lo hi : Nat) : Prop :=
  (lo : ℝ) / 18446744073709551616 ≤ arctan (atan2AccT q) ∧
    arctan (atan2AccT q) ≤ (hi : ℝ) / 18446744073709551616

theorem atan2AccT_pos (q : Nat) : 0 < atan2AccT q := by
  unfold atan2AccT; positivity

/-- the enclosure at the first table point `t_0 = 2^-17` -/
theorem atan2AccInv_zero : Atan2AccInv 0 140737488338944 140737488355328 := by
  unfold Atan2AccInv atan2AccT
  have h0 : (0:ℝ) ≤ (2 * ((0:ℕ) : ℝ) + 1) / 131072 := by positivity
  have h1 := atan2Acc_arctan_le h0
  have h2 := atan2Acc_arctan_ge h0
  constructor
  · refine le_trans ?_ h2; norm_num
  · refine le_trans h1 ?_; norm_num

/-- one step of the enclosure -/
theorem atan2AccInv_step {q lo hi : Nat} (h : Atan2AccInv q lo hi) :
    Atan2AccInv (q + 1) (atan2AccLo lo (atan2AccW q)) (hi + atan2AccW q + 1) := by
  obtain ⟨hlo, hhi⟩ := h
  unfold atan2AccLo atan2AccW
  generalize hD : 17179869184 + (2 * q + 1) * (2 * q + 3) = D
  generalize hW : 4835703278458516698824704 / D = W
  generalize ha : W / 8589934592 = a
  -- integer facts
  have hDpos : 0 < D := by omega
  have e1 : D * W + 4835703278458516698824704 % D = 4835703278458516698824704 := by
    rw [← hW]; exact Nat.div_add_mod _ _
  have e2 : 4835703278458516698824704 % D < D := Nat.mod_lt _ hDpos
  have e3 : 8589934592 * a + W % 8589934592 = W := by rw [← ha]; exact Nat.div_add_mod _ _
  have e4 : W % 8589934592 < 8589934592 := Nat.mod_lt _ (by norm_num)
  generalize 4835703278458516698824704 % D = rem at e1 e2
  generalize W % 8589934592 = rem2 at e3 e4
  -- reals
  have hDr : (D:ℝ) = 17179869184 + (2 * (q:ℝ) + 1) * (2 * (q:ℝ) + 3) := by rw [← hD]; push_cast; ring
  have hq0 : (0:ℝ) ≤ q := Nat.cast_nonneg q
  have hDge : (17179869184:ℝ) ≤ D := by rw [hDr]; nlinarith
  have hDp : (0:ℝ) < D := by linarith
  have r1 : (D:ℝ) * W + rem = 4835703278458516698824704 := by exact_mod_cast e1
  have r2 : (rem:ℝ) < D := by exact_mod_cast e2
  have r3 : (8589934592:ℝ) * a + rem2 = W := by exact_mod_cast e3
  have r4 : (rem2:ℝ) < 8589934592 := by exact_mod_cast e4
  have r0 : (0:ℝ) ≤ rem := Nat.cast_nonneg _
  have r02 : (0:ℝ) ≤ rem2 := Nat.cast_nonneg _
  have hW0 : (0:ℝ) ≤ W := Nat.cast_nonneg _
  -- the increment
  set w : ℝ := 262144 / (D:ℝ) with hw
  have hwpos : 0 < w := by rw [hw]; positivity
  have hwle : w ≤ 1 / 65536 := by
    rw [hw, div_le_div_iff₀ hDp (by norm_num)]; linarith
  have hWw : (W:ℝ) / 18446744073709551616 ≤ w := by
    rw [hw, div_le_div_iff₀ (by norm_num) hDp]; nlinarith
  have hwW : w ≤ ((W:ℝ) + 1) / 18446744073709551616 := by
    rw [hw, div_le_div_iff₀ hDp (by norm_num)]; nlinarith
  have hsub : arctan (atan2AccT (q + 1)) - arctan (atan2AccT q) = arctan w := by
    rw [atan2Acc_arctan_sub (atan2AccT_pos q).le (atan2AccT_pos (q + 1)).le]
    congr 1
    unfold atan2AccT
    rw [hw, hDr]
    push_cast
    field_simp
    ring
  have hup := atan2Acc_arctan_le hwpos.le
  have hdn := atan2Acc_arctan_ge hwpos.le
  have hcube : w ^ 3 / 3 ≤ w / 8589934592 := by
    have : w ^ 2 ≤ (1 / 65536) ^ 2 := pow_le_pow_left₀ hwpos.le hwle 2
    have h3 : w ^ 3 = w * w ^ 2 := by ring
    rw [h3]
    have := mul_le_mul_of_nonneg_left this hwpos.le
    linarith
  constructor
  · -- lower bound; the truncated subtractions are harmless
    have hposarc : 0 ≤ arctan (atan2AccT (q + 1)) := arctan_nonneg.mpr (atan2AccT_pos _).le
    have haW : a ≤ W := by omega
    by_cases hz : lo + W - a = 0
    · have : lo + W - a - 1 = 0 := by omega
      rw [this]; simpa using hposarc
    · have c1 : ((lo + W - a - 1 : ℕ) : ℝ) = (lo:ℝ) + W - a - 1 := by
        have : lo + W - a - 1 + 1 + a = lo + W := by omega
        have : ((lo + W - a - 1 : ℕ) : ℝ) + 1 + a = (lo:ℝ) + W := by exact_mod_cast this
        linarith
      rw [c1]
      have : ((lo:ℝ) + W - a - 1) / 18446744073709551616 =
          (lo:ℝ) / 18446744073709551616 + ((W:ℝ) - a - 1) / 18446744073709551616 := by ring
      rw [this]
      have hfin : ((W:ℝ) - a - 1) / 18446744073709551616 ≤ w - w / 8589934592 := by
        have : w - w / 8589934592 = w * (8589934591 / 8589934592) := by ring
        rw [this]
        have := mul_le_mul_of_nonneg_right hWw (show (0:ℝ) ≤ 8589934591 / 8589934592 by norm_num)
        refine le_trans ?_ this
        rw [div_mul_eq_mul_div, div_le_div_iff_of_pos_right (by norm_num)]
        nlinarith
      linarith
  · have c2 : ((hi + W + 1 : ℕ) : ℝ) = (hi:ℝ) + W + 1 := by push_cast; ring
    rw [c2]
    have : ((hi:ℝ) + W + 1) / 18446744073709551616 =
        (hi:ℝ) / 18446744073709551616 + ((W:ℝ) + 1) / 18446744073709551616 := by ring
    rw [this]
    linarith

/-- the check at one point -/
theorem atan2Acc_check {q lo hi r : Nat} (h : Atan2AccInv q lo hi)
    (h1 : r * 14488038916154245685 ≤ (lo + 42427511369531) * 536870912)
    (h2 : hi * 536870912 ≤ r * 14488038916154245684 + 42427511369531 * 536870912) :
    |(r:ℝ) * π / 2 ^ 31 - arctan (atan2AccT q)| ≤ 23 / 10000000 := by
  obtain ⟨hlo, hhi⟩ := h
  have hpl := pi_gt_d20
  have hph := pi_lt_d20
  have p1 : (14488038916154245684:ℝ) / 4611686018427387904 ≤ π := by
    refine le_trans ?_ hpl.le; norm_num
  have p2 : π ≤ (14488038916154245685:ℝ) / 4611686018427387904 := by
    refine le_trans hph.le ?_; norm_num
  have r0 : (0:ℝ) ≤ r := Nat.cast_nonneg _
  have g1 : (r:ℝ) * 14488038916154245685 ≤ ((lo:ℝ) + 42427511369531) * 536870912 := by exact_mod_cast h1
  have g2 : (hi:ℝ) * 536870912 ≤ (r:ℝ) * 14488038916154245684 + 42427511369531 * 536870912 := by
    exact_mod_cast h2
  have m1 := mul_le_mul_of_nonneg_left p1 r0
  have m2 := mul_le_mul_of_nonneg_left p2 r0
  rw [abs_le]
  constructor
  · -- arctan - r·π/2^31 ≤ S
    have : (hi:ℝ) / 18446744073709551616 ≤ (r:ℝ) * π / 2 ^ 31 + 23 / 10000000 := by
      have e : (hi:ℝ) / 18446744073709551616 = (hi:ℝ) * 536870912 / 9903520314283042199192993792 := by
        rw [div_eq_div_iff (by norm_num) (by norm_num)]; ring
      rw [e, div_le_iff₀ (by norm_num)]
      have : ((r:ℝ) * π / 2 ^ 31 + 23 / 10000000) * 9903520314283042199192993792 =
          (r:ℝ) * π * 4611686018427387904 + 23 / 10000000 * 9903520314283042199192993792 := by
        norm_num; ring
      rw [this]
      have : (r:ℝ) * 14488038916154245684 ≤ (r:ℝ) * π * 4611686018427387904 := by
        have := mul_le_mul_of_nonneg_right m1 (show (0:ℝ) ≤ 4611686018427387904 by norm_num)
        have e : (r:ℝ) * (14488038916154245684 / 4611686018427387904) * 4611686018427387904 =
            (r:ℝ) * 14488038916154245684 := by ring
        linarith
      have : (42427511369531:ℝ) * 536870912 ≤ 23 / 10000000 * 9903520314283042199192993792 := by norm_num
      linarith
    linarith
  · have : (r:ℝ) * π / 2 ^ 31 ≤ (lo:ℝ) / 18446744073709551616 + 23 / 10000000 := by
      have e : (lo:ℝ) / 18446744073709551616 + 23 / 10000000 =
          ((lo:ℝ) * 536870912 + 23 / 10000000 * 9903520314283042199192993792)
            / 9903520314283042199192993792 := by
        field_simp; ring
      rw [e, le_div_iff₀ (by norm_num)]
      have : (r:ℝ) * π / 2 ^ 31 * 9903520314283042199192993792 = (r:ℝ) * π * 4611686018427387904 := by
        norm_num; ring
      rw [this]
      have : (r:ℝ) * π * 4611686018427387904 ≤ (r:ℝ) * 14488038916154245685 := by
        have := mul_le_mul_of_nonneg_right m2 (show (0:ℝ) ≤ 4611686018427387904 by norm_num)
        have e : (r:ℝ) * (14488038916154245685 / 4611686018427387904) * 4611686018427387904 =
            (r:ℝ) * 14488038916154245685 := by ring
        linarith
      have : (42427511369531:ℝ) * 536870912 ≤ 23 / 10000000 * 9903520314283042199192993792 := by norm_num
      linarith
    linarith

/-- soundness of the executable check -/
theorem atan2AccRun_spec : ∀ (n q lo hi lo' hi' : Nat), atan2AccRun n q lo hi lo' hi' = true →
    Atan2AccInv q lo hi →
    (∀ i, i < n → ∃ r : Nat, atanQ (q + i) = .ok (r : Int) ∧
      |(r:ℝ) * π / 2 ^ 31 - arctan (atan2AccT (q + i))| ≤ 23 / 10000000) ∧
    Atan2AccInv (q + n) lo' hi' := by
  intro n
  induction n with
  | zero =>
    intro q lo hi lo' hi' h hinv
    rw [atan2AccRun_zero] at h
    simp only [Bool.and_eq_true, Nat.ble_eq] at h
    refine ⟨fun i hi => by omega, ?_⟩
    obtain ⟨a, b⟩ := hinv
    have c1 : (lo':ℝ) ≤ lo := by exact_mod_cast h.1
    have c2 : (hi:ℝ) ≤ hi' := by exact_mod_cast h.2
    constructor
    · refine le_trans ?_ a
      exact div_le_div_of_nonneg_right c1 (by norm_num)
    · refine le_trans b ?_
      exact div_le_div_of_nonneg_right c2 (by norm_num)
  | succ n ih =>
    intro q lo hi lo' hi' h hinv
    rw [atan2AccRun_succ] at h
    split at h
    · next hc =>
      simp only [forceNat_eq] at h
      unfold atan2AccChk at hc
      split at hc
      · next r hr =>
        simp only [forceNat_eq, Bool.and_eq_true, Nat.ble_eq] at hc
        obtain ⟨ih1, ih2⟩ := ih _ _ _ _ _ h (atan2AccInv_step hinv)
        refine ⟨?_, ?_⟩
        · intro i hi
          cases i with
          | zero => exact ⟨r, atanQN_some hr, atan2Acc_check hinv hc.1 hc.2⟩
          | succ j =>
            obtain ⟨r', hr', hb⟩ := ih1 j (by omega)
            have e : q + 1 + j = q + (j + 1) := by omega
            rw [e] at hr' hb
            exact ⟨r', hr', hb⟩
        · have e : q + 1 + n = q + (n + 1) := by omega
          rw [e] at ih2
          exact ih2
      · cases hc
    · cases h

end Idsp
