import IdspModel.Lemmas.Lp2Tight
/-!
# Second-order lowpass: settling from any state of a sector-safe region (documented Butterworth pairs)
-/
namespace Idsp
set_option linter.unusedVariables false

/-- from a state in a sector-safe region for the constant input `x`: the run never panics, and eventually (for ever)
    the state is settled and both `get()` and the returned output are within `4·2^32/k + 4` of `x` -/
theorem lp2_settle_core' (m : Mode) {k a b x Vmax R : Int} (h : Lp2Butter k a b) (hS : Lp2Safe2 a b x Vmax R)
    (st : Int × Int) (hI : Lp2Inv2 a b x Vmax R st) :
    (∀ n, lp2Iter m x a (-b) n st
        = .ok ((lp2Seq x a (-b) n st).1, (lp2Seq x a (-b) n st).2, (lp2Seq x a (-b) n st).1 / 4294967296) ∧
      Lp2Inv2 a b x Vmax R (lp2Seq x a (-b) n st)) ∧
    ∃ N : Nat, ∀ n, N ≤ n → ∃ s0 s1 s0' s1' y,
      lp2Iter m x a (-b) n st = .ok (s0, s1, s0 / 4294967296) ∧
      lp2Update m s0 s1 x a (-b) = .ok (s0', s1', y) ∧
      Lp2Tight a b x (lp2Rk k a) (s0, s1) ∧
      k * (|s0 / 4294967296 - x| - 4) ≤ 4 * 4294967296 ∧
      k * (|y - x| - 4) ≤ 4 * 4294967296 := by
  have hA := h.adm
  have ha := h.a_ge
  have hD5 := (lp2_disc_ge h).1
  have hG := lp2_Rk_good h
  constructor
  · intro n
    exact ⟨lp2_seq_run2 m hA hS n st hI, lp2_seq_inv2 hA hS n st hI⟩
  · obtain ⟨N1, hN1⟩ := lp2_seq_eventually2 hA hS st hI
    obtain ⟨N2, hN2⟩ := lp2_tight_eventually (R := lp2Rk k a) hA hD5 hG (lp2Seq x a (-b) N1 st)
      (hN1 N1 (le_refl _))
    refine ⟨N1 + N2, fun n hn => ?_⟩
    obtain ⟨j, rfl⟩ : ∃ j, n = (N1 + N2) + j := ⟨n - (N1 + N2), by omega⟩
    have ht : Lp2Tight a b x (lp2Rk k a) (lp2Seq x a (-b) (N1 + N2 + j) st) := by
      rw [lp2Seq_add, lp2Seq_add]
      exact lp2_tight_seq hA hD5 hG j _ hN2
    have ht' := lp2_tight_next _ hA hD5 hG ht
    have hIn := lp2_seq_inv2 hA hS (N1 + N2 + j) st hI
    obtain ⟨hstep, -⟩ := lp2_inv2_step m (lp2Seq x a (-b) (N1 + N2 + j) st) hA hS hIn
    have hrun := lp2_seq_run2 m hA hS (N1 + N2 + j) st hI
    generalize lp2Seq x a (-b) (N1 + N2 + j) st = sn at *
    refine ⟨_, _, _, _, _, hrun, hstep, ht, lp2_tight_out h sn.1 ht.2.1 ht.2.2, ?_⟩
    · -- the mid-point error is the mean of two tight errors
      obtain ⟨-, -, -, -, -, -, hmid⟩ := lp2_err_rec x a (-b) sn
      have hE : 2 * lp2Eb a b x (lp2Mid x a (-b) sn) = lp2Eb a b x sn.1 + lp2Eb a b x (lp2Next x a (-b) sn).1 := by
        unfold lp2Eb; linear_combination (2 * a) * hmid
      exact lp2_tight_out h (lp2Mid x a (-b) sn) (by have := ht.2.1; have := ht'.2.1; omega)
        (by have := ht.2.2; have := ht'.2.2; omega)

theorem lp2_settle_core (m : Mode) {k a b x Vmax R : Int} (h : Lp2Butter k a b) (hS : Lp2Safe2 a b x Vmax R)
    (st : Int × Int) (hI : Lp2Inv2 a b x Vmax R st) :
    (∀ n, lp2Iter m x a (-b) n st
        = .ok ((lp2Seq x a (-b) n st).1, (lp2Seq x a (-b) n st).2, (lp2Seq x a (-b) n st).1 / 4294967296) ∧
      Lp2Inv2 a b x Vmax R (lp2Seq x a (-b) n st)) ∧
    ∃ N : Nat, ∀ n, N ≤ n → ∃ s0 s1 s0' s1' y,
      lp2Iter m x a (-b) n st = .ok (s0, s1, s0 / 4294967296) ∧
      lp2Update m s0 s1 x a (-b) = .ok (s0', s1', y) ∧
      Lp2Settled a b x (s0, s1) ∧
      k * (|s0 / 4294967296 - x| - 4) ≤ 4 * 4294967296 ∧
      k * (|y - x| - 4) ≤ 4 * 4294967296 := by
  obtain ⟨h1, N, hN⟩ := lp2_settle_core' m h hS st hI
  refine ⟨h1, N, fun n hn => ?_⟩
  obtain ⟨s0, s1, s0', s1', y, e1, e2, ht, b1, b2⟩ := hN n hn
  exact ⟨s0, s1, s0', s1', y, e1, e2, ht.1, b1, b2⟩

end Idsp
