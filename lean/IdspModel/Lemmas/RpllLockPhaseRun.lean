import IdspModel.Lemmas.RpllLockFF
import IdspModel.Lemmas.RpllLockPhase
import Mathlib.Tactic.LinearCombination
/-! The phase loop of the model run, edge to edge, once the frequency loop is close to its dead band. -/
namespace Idsp

def RpllCfg.D (c : RpllCfg) : Int := 2 ^ c.d
def RpllCfg.Sg (c : RpllCfg) : Int := 2 ^ (c.sp - c.d).toNat
/-- time since the last reference edge at update `n` (ticks) -/
def RpllCfg.r (c : RpllCfg) (n : Nat) : Int := c.num n % c.P

/-- the region in which the phase loop is analysed: `3·2^d < P ≤ 2^sp` on top of `Adm` -/
structure RpllCfg.Good (c : RpllCfg) : Prop extends c.Adm where
  hP3 : 3 * 2 ^ c.d < c.P
  hPsp : c.P ≤ 2 ^ c.d * 2 ^ (c.sp - c.d).toNat

/-- the frequency loop is within `Ub ≤ T/2` of the target from edge `m0` on -/
def RpllCfg.FFgood (c : RpllCfg) (m0 : Nat) (Ub : Int) : Prop :=
  2 * Ub ≤ c.T ∧ ∀ m, m0 ≤ m → |c.ffAt m * c.P - c.T| ≤ Ub

theorem RpllCfg.Good.Sg_ge {c : RpllCfg} (g : c.Good) : 4 ≤ c.Sg ∧ c.Sg ≤ 2 ^ 31 ∧ c.Sg ∣ 2 ^ 31 := by
  have h31 : (c.sp - c.d).toNat ≤ 31 := by have := g.hsp1; omega
  refine ⟨?_, two_pow_mono h31, two_pow_dvd h31⟩
  unfold RpllCfg.Sg
  by_contra hc
  have hlt : (c.sp - c.d).toNat < 2 := by
    by_contra h2
    have : (2 : Int) ^ 2 ≤ 2 ^ (c.sp - c.d).toNat := two_pow_mono (by omega)
    omega
  have : (2 : Int) ^ (c.sp - c.d).toNat ≤ 2 ^ 1 := two_pow_mono (by omega)
  have h3 := g.hP3; have h4 := g.hPsp
  have : (0 : Int) < 2 ^ c.d := by positivity
  nlinarith

/-- with `ff` near the target, `f = ff + dy` does not wrap in `u32` -/
theorem RpllCfg.Good.f_nowrap {c : RpllCfg} (g : c.Good) (ff W : Int) (hff0 : 0 ≤ ff)
    (hlo : c.T ≤ 2 * (ff * c.P)) (hhi : ff * c.P ≤ c.T + c.h) (hW0 : -2 ^ 31 ≤ W) (hW1 : W < 2 ^ 31) :
    wrapU 32 (ff + wrapU 32 (W / c.Sg)) = ff + W / c.Sg := by
  obtain ⟨hS4, hS31, k, hk⟩ := g.Sg_ge
  obtain ⟨hP0, -, -, hh1, -, -, -, -, -, -, -⟩ := g.toAdm.facts
  have hD0 : (0 : Int) < 2 ^ c.d := by positivity
  have hT : c.T = 2 ^ 32 * 2 ^ c.d := by unfold RpllCfg.T; rw [pow_add]
  have hSg0 : 0 < c.Sg := by omega
  have hk0 : 0 < k := by
    by_contra h0
    have : c.Sg * k ≤ 0 := mul_nonpos_of_nonneg_of_nonpos hSg0.le (by omega)
    omega
  -- bounds of dy
  have d0 : -k ≤ W / c.Sg := by
    rw [Int.le_ediv_iff_mul_le hSg0]; nlinarith
  have d1 : W / c.Sg < k := by
    rw [Int.ediv_lt_iff_lt_mul hSg0]; nlinarith
  have hk29 : k ≤ 2 ^ 29 := by nlinarith
  -- ff ≥ k
  have f0 : k ≤ ff := by
    by_contra hc
    have h1 : ff * c.P ≤ ff * (2 ^ c.d * c.Sg) := mul_le_mul_of_nonneg_left g.hPsp hff0
    have h2 : ff * (2 ^ c.d * c.Sg) < k * (2 ^ c.d * c.Sg) :=
      mul_lt_mul_of_pos_right (by omega) (by positivity)
    have h3 : k * (2 ^ c.d * c.Sg) = 2 ^ 31 * 2 ^ c.d := by rw [hk]; ring
    nlinarith
  have f1 : 3 * ff ≤ 2 ^ 32 + 2 ^ 30 := by
    have h1 : ff * (3 * 2 ^ c.d) ≤ ff * c.P := mul_le_mul_of_nonneg_left g.hP3.le hff0
    have h2 : ff * (3 * 2 ^ c.d) ≤ 2 ^ 32 * 2 ^ c.d + 2 ^ 30 * 2 ^ c.d := by nlinarith
    by_contra hc
    have : (2 ^ 32 + 2 ^ 30) * 2 ^ c.d < 3 * ff * 2 ^ c.d := mul_lt_mul_of_pos_right (by omega) hD0
    nlinarith
  generalize W / c.Sg = dy at *
  unfold wrapU
  norm_num at hk29 f1 ⊢
  omega

/-- phase-loop invariant of the state `s` before update `n`; ghosts: `e` = index of the last edge update,
    `W`, `Wp` = loop errors formed at the last two edges, `fo` = the value of `f` before the last edge.
    `s.f = ff + (W >> σ)`, `fo = ff_old + (Wp >> σ)`, and `W ≡ (fo >> d)·r_e − (y at edge e)` modulo `2^32`. -/
def RpllCfg.PInv (c : RpllCfg) (m0 : Nat) (n : Nat) (s : RPLL) (e : Nat) (W Wp fo : Int) : Prop :=
  e < n ∧ c.r e < c.D ∧ c.lastEdge ((n : Int) - 1) = c.lastEdge e ∧ m0 ≤ c.cnt e ∧ c.cnt n = c.cnt e + 1 ∧
  (-2 ^ 31 ≤ W ∧ W < 2 ^ 31) ∧ (-2 ^ 31 ≤ Wp ∧ Wp < 2 ^ 31) ∧
  s.f = s.ff + W / c.Sg ∧ fo = c.ffAt (c.cnt e) + Wp / c.Sg ∧
  ∃ k : Int, W + k * 2 ^ 32 = fo / c.D * c.r e - s.y + ((n : Int) - 1 - e) * s.f

/-- a non-edge update keeps the phase invariant (same ghosts) -/
theorem rpll_pinv_none (c : RpllCfg) (a : c.Adm) (m0 n : Nat) (s : RPLL) (e : Nat) (W Wp fo : Int)
    (hp : c.PInv m0 n s e W Wp fo) (hr : ¬ c.num n % c.P < 2 ^ c.d) :
    c.PInv m0 (n + 1) s.nextNone e W Wp fo := by
  obtain ⟨h1, h2, h3, h4, h5, h6, h7, h8, h9, k, hk⟩ := hp
  have hs : c.sched n = none := by rw [rpllSched_eq]; simp [hr]
  have hc : c.cnt (n + 1) = c.cnt n := by simp [RpllCfg.cnt, hs]
  have e1 : c.num (n : Int) = c.num (((n : Int) - 1) + 1) := by congr 1; ring
  have hle := (rpll_edge_none c a.hDP ((n : Int) - 1) (by rw [← e1]; exact hr)).1
  rw [show ((n : Int) - 1) + 1 = (n : Int) by ring] at hle
  refine ⟨by omega, h2, ?_, h4, by rw [hc]; exact h5, h6, h7, h8, h9, ?_⟩
  · rw [show ((n + 1 : Nat) : Int) - 1 = (n : Int) by push_cast; ring, hle]; exact h3
  · obtain ⟨k1, hk1⟩ := wrapI_eq_sub 32 s.f
    obtain ⟨k2, hk2⟩ := wrapI_eq_sub 32 (s.y + wrapI 32 s.f)
    refine ⟨k + k1 + k2, ?_⟩
    show _ = fo / c.D * c.r e - wrapI 32 (s.y + wrapI 32 s.f) + (((n + 1 : Nat) : Int) - 1 - e) * s.f
    rw [hk2, hk1]; push_cast; linear_combination hk

/-- the frequency-loop inputs of the phase step are bounded by `2·Ub` -/
theorem ff_inputs_bound (P T D Sg Ub ffn ffo re : Int) (hP0 : 0 < P) (hSg : 0 < Sg) (hP3 : 3 * D < P)
    (hre0 : 0 ≤ re) (hre : re < D) (h1 : |ffn * P - T| ≤ Ub) (h2 : |ffo * P - T| ≤ Ub) :
    Sg * (|P * ffn - T| + re * |ffn - ffo|) ≤ Sg * (2 * Ub) := by
  have i1 : |P * ffn - T| ≤ Ub := by rw [mul_comm]; exact h1
  have i2 : re * |ffn - ffo| ≤ Ub := by
    have h3 : |ffn - ffo| * P ≤ 2 * Ub := by
      rw [← abs_of_pos hP0, ← abs_mul]
      have e : (ffn - ffo) * P = (ffn * P - T) - (ffo * P - T) := by ring
      rw [e]
      have := abs_sub (ffn * P - T) (ffo * P - T)
      linarith
    have a0 := abs_nonneg (ffn - ffo)
    have h4 : re * |ffn - ffo| ≤ D * |ffn - ffo| := mul_le_mul_of_nonneg_right hre.le a0
    have h5 : 2 * D * |ffn - ffo| ≤ P * |ffn - ffo| := mul_le_mul_of_nonneg_right (by linarith) a0
    linarith
  exact mul_le_mul_of_nonneg_left (by linarith) hSg.le

theorem rpll_lastEdge_r (c : RpllCfg) (n : Nat) : c.lastEdge n = c.D * n - c.r n := rfl

/-- an edge update: new ghosts `(n, W', W, s.f)`, and the edge-to-edge bound for the new loop error `W'` -/
theorem rpll_pinv_some (c : RpllCfg) (g : c.Good) (m0 : Nat) (Ub : Int) (hg : c.FFgood m0 Ub)
    (n : Nat) (s s' : RPLL) (e : Nat) (W Wp fo : Int)
    (hp : c.PInv m0 n s e W Wp fo) (hr : c.num n % c.P < 2 ^ c.d) (hsff : s.ff = c.ffAt (c.cnt n))
    (hcnt : c.cnt (n + 1) = c.cnt n + 1)
    (hy : s'.y = wrapI 32 (s.y + wrapI 32 s.f)) (hff : s'.ff = c.ffAt (c.cnt n + 1))
    (hf : s'.f = wrapU 32 (s'.ff + wrapU 32 (wrapI 32 (wrapI 32 (s.f / 2 ^ c.d * (c.num n % c.P)) - s'.y)
                / 2 ^ (c.sp - c.d).toNat))) :
    ∃ W', c.PInv m0 (n + 1) s' n W' W s.f ∧
      c.D * c.Sg * |W'| ≤ (c.D * c.Sg - c.P + c.r e) * |W| + c.r e * |Wp|
        + c.Sg * (2 * Ub + c.P + c.D + c.D * c.D) := by
  obtain ⟨h1, h2, h3, h4, h5, h6, h7, h8, h9, k, hk⟩ := hp
  obtain ⟨hP0, -, -, hh1, -, -, -, -, -, -, -⟩ := g.toAdm.facts
  obtain ⟨hS4, -, -⟩ := g.Sg_ge
  have hD0 : 0 < c.D := by unfold RpllCfg.D; positivity
  have hSg0 : 0 < c.Sg := by omega
  have hT : c.T = 2 ^ 32 * c.D := by unfold RpllCfg.T RpllCfg.D; rw [pow_add]
  have hP3 : 3 * c.D < c.P := g.hP3
  have hPsp : c.P ≤ c.D * c.Sg := g.hPsp
  -- the new loop error
  refine ⟨wrapI 32 (wrapI 32 (s.f / c.D * c.r n) - s'.y), ?_, ?_⟩
  · have hin := inI_iff.mp (wrapI_in (by decide : 0 < 32) (wrapI 32 (s.f / c.D * c.r n) - s'.y))
    have hb := g.toAdm.ffAt_bounds (c.cnt n + 1)
    have hu := hg.2 (c.cnt n + 1) (by omega)
    rw [abs_le] at hu
    have hw0 : -2 ^ 31 ≤ wrapI 32 (wrapI 32 (s.f / c.D * c.r n) - s'.y) := by simpa using hin.1
    have hw1 : wrapI 32 (wrapI 32 (s.f / c.D * c.r n) - s'.y) < 2 ^ 31 := by simpa using hin.2
    refine ⟨by omega, hr, by rw [show ((n + 1 : Nat) : Int) - 1 = (n : Int) by push_cast; ring], by omega, hcnt,
      ⟨hw0, hw1⟩, h6, ?_, by rw [h8, hsff], ?_⟩
    · rw [hf, hff]
      exact g.f_nowrap _ _ hb.1 (by have := hg.1; linarith [hu.1]) hb.2.2 hw0 hw1
    · obtain ⟨k1, hk1⟩ := wrapI_eq_sub 32 (s.f / c.D * c.r n)
      obtain ⟨k2, hk2⟩ := wrapI_eq_sub 32 (wrapI 32 (s.f / c.D * c.r n) - s'.y)
      refine ⟨k1 + k2, ?_⟩
      rw [hk2, hk1]; push_cast; ring
  · -- the bound
    have e1 : c.num (n : Int) = c.num (((n : Int) - 1) + 1) := by congr 1; ring
    have hle := (rpll_edge_some c g.hDP ((n : Int) - 1) (by rw [← e1]; exact hr)).1
    rw [show ((n : Int) - 1) + 1 = (n : Int) by ring, h3, rpll_lastEdge_r, rpll_lastEdge_r] at hle
    have hre0 : 0 ≤ c.r e := Int.emod_nonneg _ (by omega)
    have hrn0 : 0 ≤ c.r n := Int.emod_nonneg _ (by omega)
    obtain ⟨k1, hk1⟩ := wrapI_eq_sub 32 (s.f / c.D * c.r n)
    obtain ⟨k2, hk2⟩ := wrapI_eq_sub 32 (wrapI 32 (s.f / c.D * c.r n) - s'.y)
    obtain ⟨k3, hk3⟩ := wrapI_eq_sub 32 s.f
    obtain ⟨k4, hk4⟩ := wrapI_eq_sub 32 (s.y + wrapI 32 s.f)
    have hin := inI_iff.mp (wrapI_in (by decide : 0 < 32) (wrapI 32 (s.f / c.D * c.r n) - s'.y))
    have hfD := Int.mul_ediv_add_emod s.f c.D
    have hfoD := Int.mul_ediv_add_emod fo c.D
    have hn : ((n : Int) - e) * c.D = c.P + c.r n - c.r e := by linarith
    have hV : W + (s.f / c.D - fo / c.D) * c.r e - (c.P * (s.f / c.D) - 2 ^ 32) - ((n : Int) - e) * (s.f % c.D)
        = wrapI 32 (wrapI 32 (s.f / c.D * c.r n) - s'.y) + (1 - k + k1 + k2 - k3 - k4) * 2 ^ 32 := by
      rw [hk2, hk1, hy, hk4, hk3]
      linear_combination hk - ((n : Int) - e) * hfD + (s.f / c.D) * hn
    have hb := phase_step_bound c.D c.Sg c.P c.T (c.ffAt (c.cnt e)) s.ff (Wp / c.Sg) (W / c.Sg) (Wp % c.Sg)
      (W % c.Sg) fo s.f (fo / c.D) (s.f / c.D) (fo % c.D) (s.f % c.D) (c.r e) (c.r n) ((n : Int) - e) W Wp _ _
      hT h9 (Int.mul_ediv_add_emod Wp c.Sg).symm h8 (Int.mul_ediv_add_emod W c.Sg).symm hfoD.symm hfD.symm hn
      hD0 hSg0 hPsp ⟨hre0, h2⟩ ⟨hrn0, hr⟩
      ⟨Int.emod_nonneg _ (by omega), Int.emod_lt_of_pos _ hD0⟩ ⟨Int.emod_nonneg _ (by omega), Int.emod_lt_of_pos _ hD0⟩
      ⟨Int.emod_nonneg _ (by omega), Int.emod_lt_of_pos _ hSg0⟩ ⟨Int.emod_nonneg _ (by omega), Int.emod_lt_of_pos _ hSg0⟩
      (by omega) (by simpa using hin.1) (by simpa using hin.2) hV
    -- the frequency-loop inputs
    have hu1 := hg.2 (c.cnt e) h4
    have hu2 := hg.2 (c.cnt e + 1) (by omega)
    have hs2 : s.ff = c.ffAt (c.cnt e + 1) := by rw [hsff, h5]
    rw [← hs2] at hu2
    have hin2 := ff_inputs_bound c.P c.T c.D c.Sg Ub s.ff (c.ffAt (c.cnt e)) (c.r e) hP0 hSg0 hP3 hre0 h2 hu2 hu1
    refine le_trans hb ?_
    have e2 : c.Sg * (2 * Ub + c.P + c.D + c.D * c.D) = c.Sg * (2 * Ub) + c.Sg * (c.P + c.D + c.D * c.D) := by ring
    rw [e2]
    linarith only [hin2]

end Idsp
