import IdspModel.Lemmas.LockinRecAsm
import IdspModel.Lemmas.LockinRecPolar
import IdspModel.Lemmas.LockinRecWit
import Mathlib.Algebra.Order.Floor.Ring
/-!
# C11, recovery clause — the lock-in recovers amplitude and phase of a tone at the reference frequency

Clause: "For every tone amplitude `A ∈ [2^23, 2^30]`, tone phase `θ`, reference frequency between 0.05 and 0.45 of the
sample rate and second-order lowpass gain `2^20 ≤ k ≤ 2^25`, demodulating `A·cos(φ_n + θ)` at reference phase `φ_n`
yields, after `40·2^32/k` samples, a mean output of magnitude `A/2` within a relative `1e-3` and angle `−θ` within
`2e-4` rad."

Setting (`LkSetup A θ p0 F x p`, `Lemmas/LockinRecAsm.lean`): reference phases `p n = wrapI 32 (p0 + n·F)` (wrapping
`i32` accumulator, frequency word `214748365 ≤ F ≤ 1932735283`, i.e. `0.05 ≤ F/2^32 ≤ 0.45`), angles
`φ_n = p n·π/2^31`, samples `x n` = ANY integer within `1` of `A·cos(φ_n + θ)`; `Lockin<Lowpass<2>>` from the zero state
with the documented Butterworth configuration `[a, -b] = [⌊k²/2^32⌋, -⌊k√2⌋]` of an integer `k` (`Lp2Butter k a b`).
"Mean output" = arithmetic mean of the returned `(I, Q)` over ANY window of `L ≥ 4096` consecutive updates starting at
an update index `n0` with `k·n0 ≥ 40·2^32`.  `R = lkR A = A·A0/2^32`, `A0 = 2^31 − 0.85·2^15` (`|R − A/2| ≤ 1e-5·A`).

What is proved (all for BOTH build profiles):
* `lockin_recovery_mixer` (part 1) — each mixer output is `R·[(cos θ, −sin θ) + (cos(2φ+θ), sin(2φ+θ))]` up to
  `9.1e-6·A + 2` per component;
* `lockin_recovery_components` (parts 2–5) — for ALL `0 ≤ A ≤ 2^30`: the run never panics / wraps / saturates, and both
  components of the window mean are within `1.9e-5·A + 2.2·2^32/k + 6` of `R·(cos θ, −sin θ)`;
  `lockin_recovery_window_sum` is the same for windows of ANY length `L` (explicit `R/(400·L)` tone term);
* `lockin_recovery_magnitude_general`, `lockin_recovery_angle_general` — the resulting magnitude and angle errors with
  the explicit term `2^32/(k·A)`, for all `A ∈ [2^23, 2^30]`;
* `lockin_recovery_magnitude_partial` — relative magnitude error `≤ 1e-3` whenever `k·A ≥ 2^45`
  (all `A ≥ 2^25`; all amplitudes of the clause when `k ≥ 2^22`);
* `lockin_recovery_angle_partial` — angle error `≤ 2e-4` rad whenever `k·A ≥ 3·2^46`
  (all `A ≥ 3·2^26`; all amplitudes of the clause when `k ≥ 3·2^23`).
FALSE for the code: `lockin_recovery_full` (the clause for all `A ≥ 2^23` and all `k ≥ 2^20`) —
`lockin_recovery_full_false`, by the concrete run `lockin_recovery_angle_witness` (`A = 2^23`, `k = 2^20`, `θ = π/4`,
quarter-rate reference: the angle of the mean output is off by more than `9.7e-4` rad).  Cause: the static truncation
offset of `Lowpass<2>` (about `2^32/(√2·k)` LSB in each channel) against `A/2`, which is exactly the `2^32/(k·A)` term
carried by the `_general` theorems.
NOT proved: the clause between the certified thresholds and the true ones (natively the angle part holds from about
`k·A ≥ 2^45.3`, the magnitude part everywhere).  The constants in front of `2^32/(k·A)` are about `3×` the observed
worst case (the quadratic-Lyapunov gain bound `2` instead of the true `ℓ¹` gain `≈ 1.09`, and a worst-case treatment
of the fluctuating part of the truncation disturbance).

Helper results of independent interest (`Lemmas/LockinRec*.lean`): `lkQ_seq` / `LkGain.seq_bound` (input-to-state bound
of the lowpass over `ℝ` for ARBITRARY bounded disturbance sequences), `lkSeq_run` (the integer run IS such a real run,
the two floors being a disturbance in `[0, α+β)`), `lkV0_norm_le` (steady-state gain at twice the reference frequency
`≤ 12·a/2^32`), `lkTS_sum_le` (window SUM of the tone response `≤ 40·a/2^32` × amplitude, any window),
`LkGain.lam_pow_le` (start-up transient: factor `≤ 2^-78` on the quadratic form after `40·2^32/k` samples),
`lk_butter_gain` (every documented pair with `2^20 ≤ k ≤ 2^25` qualifies), `lk_magnitude`, `lk_angle` (geometry).
-/
namespace Idsp
open Real
set_option linter.unusedVariables false

/-- window mean of an integer output sequence -/
noncomputable def lkMean (y : ℕ → Int) (n0 L : ℕ) : ℝ := (∑ i ∈ Finset.range L, (y (n0 + i) : ℝ)) / L

/-- **Part 1 — mixer decomposition.**  For ANY `i32` phase `p` (angle `φ = p·π/2^31`), LO sample `(c, s) = cossin p`,
    amplitude `A ≥ 0`, tone phase `θ`, and an integer sample `x` within `1` of `A·cos(φ + θ)`: the two mixer outputs
    `⌊x·c/2^31⌋`, `⌊x·s/2^31⌋` are `R·(cos θ + cos(2φ+θ))` and `R·(−sin θ + sin(2φ+θ))` up to `9.1e-6·A + 2`
    (`cossin` accuracy, sample rounding, mixer floor): DC + a tone at twice the reference frequency + small error. -/
theorem lockin_recovery_mixer (m : Mode) (A θ : ℝ) (hA : 0 ≤ A) (p x c s : Int) (hp : inI 32 p = true)
    (h : cossin m p = .ok (c, s)) (hx : |(x : ℝ) - A * cos ((p : ℝ) * π / 2 ^ 31 + θ)| ≤ 1) :
    |((x * c / 2147483648 : Int) : ℝ) - lkR A * (cos θ + cos (2 * ((p : ℝ) * π / 2 ^ 31) + θ))|
      ≤ 9.1e-6 * A + 2 ∧
    |((x * s / 2147483648 : Int) : ℝ) - lkR A * (-sin θ + sin (2 * ((p : ℝ) * π / 2 ^ 31) + θ))|
      ≤ 9.1e-6 * A + 2 :=
  lockin_mixer_decomposition m A θ hA p x c s hp h hx

/-- the recovered scale `R = A·A0/2^32` is `A/2` up to `1e-5·A` (the `cossin` amplitude `A0 = 2^31 − 0.85·2^15`) -/
theorem lockin_recovery_scale (A : ℝ) (hA : 0 ≤ A) : lkR A ≤ A / 2 ∧ A / 2 - lkR A ≤ 1e-5 * A := by
  obtain ⟨h1, h2⟩ := lkR_le A hA
  exact ⟨h1, by linarith⟩

/-- **Parts 2–5, any window length.**  In the setting of the file header, for EVERY `0 ≤ A ≤ 2^30`, every documented
    Butterworth pair with `2^20 ≤ k ≤ 2^25` and both build profiles there are state and output sequences such that
    (1) the lock-in model, started from the zero state, returns `.ok` at EVERY update (no panic, no wrap, no
        saturation) with these states and outputs, and
    (2) for every window of `L` consecutive outputs starting at an index `n0 ≥ 40·2^32/k`, the SUM of the in-phase
        outputs is within `L·(2.04·(9.1e-6·A + 2) + 2.1888·2^32/k + 1.53) + R/400` of `L·R·cos θ`, and the sum of the
        quadrature outputs within the same distance of `−L·R·sin θ`.
    (The term `R/400` bounds the WHOLE contribution of the component at twice the reference frequency to the window
    sum: attenuation by the lowpass times the geometric sum of the rotating phasor.) -/
theorem lockin_recovery_window_sum (m : Mode) {k a b : Int} (hB : Lp2Butter k a b) (hk0 : 2 ^ 20 ≤ k)
    (hk1 : k ≤ 2 ^ 25) {A θ : ℝ} (hA0 : 0 ≤ A) (hA1 : A ≤ 2 ^ 30) {p0 F : Int} {x p : ℕ → Int}
    (h : LkSetup A θ p0 F x p) :
    ∃ (st : ℕ → Int × Int × Int × Int) (yI yQ : ℕ → Int), st 0 = (0, 0, 0, 0) ∧
      (∀ n, lockinUpdate m (st n) (x n) (p n) a (-b) = .ok (st (n + 1), yI n, yQ n)) ∧
      ∀ n0 L : ℕ, 40 * 2 ^ 32 ≤ k * n0 →
        |(∑ i ∈ Finset.range L, (yI (n0 + i) : ℝ)) - L * (lkR A * cos θ)|
          ≤ L * (2.04 * (9.1e-6 * A + 2) + 2.1888 * 2 ^ 32 / k + 1.53) + lkR A / 400 ∧
        |(∑ i ∈ Finset.range L, (yQ (n0 + i) : ℝ)) - L * (-(lkR A * sin θ))|
          ≤ L * (2.04 * (9.1e-6 * A + 2) + 2.1888 * 2 ^ 32 / k + 1.53) + lkR A / 400 := by
  norm_num at hk0 hk1 hA1
  obtain ⟨h0, hrun, hwin⟩ := lk_assemble m hB hk0 hk1 hA0 hA1 h
  refine ⟨lkState a b x p, lkOutI a b x p, lkOutQ a b x p, h0, hrun, fun n0 L hn => ?_⟩
  simp only [Int.reducePow] at hn
  rw [show (2 : ℝ) ^ 32 = 4294967296 by norm_num]
  exact hwin n0 L hn

/-- **Parts 2–5, the mean over `L ≥ 4096` samples.**  As `lockin_recovery_window_sum`; for every window of
    `L ≥ 2^12` consecutive outputs starting after `40·2^32/k` samples both components of the mean output are within
    `1.9e-5·A + 2.2·2^32/k + 6` of `R·cos θ` resp. `−R·sin θ`. -/
theorem lockin_recovery_components (m : Mode) {k a b : Int} (hB : Lp2Butter k a b) (hk0 : 2 ^ 20 ≤ k)
    (hk1 : k ≤ 2 ^ 25) {A θ : ℝ} (hA0 : 0 ≤ A) (hA1 : A ≤ 2 ^ 30) {p0 F : Int} {x p : ℕ → Int}
    (h : LkSetup A θ p0 F x p) :
    ∃ (st : ℕ → Int × Int × Int × Int) (yI yQ : ℕ → Int), st 0 = (0, 0, 0, 0) ∧
      (∀ n, lockinUpdate m (st n) (x n) (p n) a (-b) = .ok (st (n + 1), yI n, yQ n)) ∧
      ∀ n0 L : ℕ, 40 * 2 ^ 32 ≤ k * n0 → 4096 ≤ L →
        |lkMean yI n0 L - lkR A * cos θ| ≤ 1.9e-5 * A + 2.2 * 2 ^ 32 / k + 6 ∧
        |lkMean yQ n0 L - -(lkR A * sin θ)| ≤ 1.9e-5 * A + 2.2 * 2 ^ 32 / k + 6 := by
  obtain ⟨st, yI, yQ, h0, hrun, hwin⟩ := lockin_recovery_window_sum m hB hk0 hk1 hA0 hA1 h
  refine ⟨st, yI, yQ, h0, hrun, fun n0 L hn hL => ?_⟩
  obtain ⟨wI, wQ⟩ := hwin n0 L hn
  have hLR : (4096 : ℝ) ≤ L := by exact_mod_cast hL
  have hLpos : (0 : ℝ) < L := by linarith
  have hkR : (0 : ℝ) < k := by
    have : ((2 ^ 20 : Int) : ℝ) ≤ k := by exact_mod_cast hk0
    norm_num at this; linarith
  obtain ⟨hR1, -⟩ := lkR_le A hA0
  have hq : 0 ≤ (2 : ℝ) ^ 32 / k := by positivity
  -- per-sample constant
  have hc : 2.04 * (9.1e-6 * A + 2) + 2.1888 * 2 ^ 32 / k + 1.53 + lkR A / 400 / L
      ≤ 1.9e-5 * A + 2.2 * 2 ^ 32 / k + 6 := by
    have e1 : lkR A / 400 / L ≤ A / 2 / 400 / 4096 := by
      have e0 : lkR A / 400 ≤ A / 2 / 400 := div_le_div_of_nonneg_right hR1 (by norm_num)
      exact div_le_div₀ (by positivity) e0 (by norm_num) hLR
    have e2 : 2.1888 * (2 : ℝ) ^ 32 / k = 2.1888 * (2 ^ 32 / k) := by ring
    have e3 : 2.2 * (2 : ℝ) ^ 32 / k = 2.2 * (2 ^ 32 / k) := by ring
    rw [e2, e3]
    nlinarith
  have conv : ∀ (s D : ℝ), |s - L * D| ≤ L * (2.04 * (9.1e-6 * A + 2) + 2.1888 * 2 ^ 32 / k + 1.53) + lkR A / 400 →
      |s / L - D| ≤ 1.9e-5 * A + 2.2 * 2 ^ 32 / k + 6 := by
    intro s D hs
    have e : s / L - D = (s - L * D) / L := by field_simp
    rw [e, abs_div, abs_of_pos hLpos, div_le_iff₀ hLpos]
    refine le_trans hs ?_
    have := mul_le_mul_of_nonneg_left hc hLpos.le
    have e4 : (L : ℝ) * (2.04 * (9.1e-6 * A + 2) + 2.1888 * 2 ^ 32 / k + 1.53 + lkR A / 400 / L)
        = L * (2.04 * (9.1e-6 * A + 2) + 2.1888 * 2 ^ 32 / k + 1.53) + lkR A / 400 := by
      field_simp
    linarith
  exact ⟨conv _ _ wI, conv _ _ wQ⟩

/-- the per-component error allowance of `lockin_recovery_components` -/
noncomputable def lkErr (A : ℝ) (k : Int) : ℝ := 1.9e-5 * A + 2.2 * 2 ^ 32 / k + 6

/-- **Magnitude, general form** (all `A ∈ [0, 2^30]`): the Euclidean norm of the mean output is within
    `1.4143·(1.9e-5·A + 2.2·2^32/k + 6) + 1e-5·A` of `A/2`. -/
theorem lockin_recovery_magnitude_general (m : Mode) {k a b : Int} (hB : Lp2Butter k a b) (hk0 : 2 ^ 20 ≤ k)
    (hk1 : k ≤ 2 ^ 25) {A θ : ℝ} (hA0 : 0 ≤ A) (hA1 : A ≤ 2 ^ 30) {p0 F : Int} {x p : ℕ → Int}
    (h : LkSetup A θ p0 F x p) :
    ∃ (st : ℕ → Int × Int × Int × Int) (yI yQ : ℕ → Int), st 0 = (0, 0, 0, 0) ∧
      (∀ n, lockinUpdate m (st n) (x n) (p n) a (-b) = .ok (st (n + 1), yI n, yQ n)) ∧
      ∀ n0 L : ℕ, 40 * 2 ^ 32 ≤ k * n0 → 4096 ≤ L →
        |√(lkMean yI n0 L ^ 2 + lkMean yQ n0 L ^ 2) - A / 2| ≤ 1.4143 * lkErr A k + 1e-5 * A := by
  obtain ⟨st, yI, yQ, h0, hrun, hmean⟩ := lockin_recovery_components m hB hk0 hk1 hA0 hA1 h
  refine ⟨st, yI, yQ, h0, hrun, fun n0 L hn hL => ?_⟩
  obtain ⟨eI, eQ⟩ := hmean n0 L hn hL
  obtain ⟨hR1, hR2⟩ := lkR_le A hA0
  have hmag := lk_magnitude (by linarith) eI eQ
  unfold lkErr
  rw [abs_le] at hmag ⊢
  constructor <;> linarith

/-- **Angle, general form** (all `A ∈ [2^23, 2^30]`): the mean output is `r·(cos(δ − θ), sin(δ − θ))` with `r > 0` and
    `|δ|·A ≤ 2.84·(1.9e-5·A + 2.2·2^32/k + 6)`, i.e. `|δ| ≤ 5.4e-5 + 6.3·2^32/(k·A) + 17.1/A`. -/
theorem lockin_recovery_angle_general (m : Mode) {k a b : Int} (hB : Lp2Butter k a b) (hk0 : 2 ^ 20 ≤ k)
    (hk1 : k ≤ 2 ^ 25) {A θ : ℝ} (hA0 : 2 ^ 23 ≤ A) (hA1 : A ≤ 2 ^ 30) {p0 F : Int} {x p : ℕ → Int}
    (h : LkSetup A θ p0 F x p) :
    ∃ (st : ℕ → Int × Int × Int × Int) (yI yQ : ℕ → Int), st 0 = (0, 0, 0, 0) ∧
      (∀ n, lockinUpdate m (st n) (x n) (p n) a (-b) = .ok (st (n + 1), yI n, yQ n)) ∧
      ∀ n0 L : ℕ, 40 * 2 ^ 32 ≤ k * n0 → 4096 ≤ L →
        ∃ δ r : ℝ, |δ| * A ≤ 2.84 * lkErr A k ∧ 0 < r ∧
          lkMean yI n0 L = r * cos (δ - θ) ∧ lkMean yQ n0 L = r * sin (δ - θ) := by
  have hA0' : (0 : ℝ) ≤ A := by have : (0 : ℝ) ≤ 2 ^ 23 := by positivity
                                linarith
  obtain ⟨st, yI, yQ, h0, hrun, hmean⟩ := lockin_recovery_components m hB hk0 hk1 hA0' hA1 h
  refine ⟨st, yI, yQ, h0, hrun, fun n0 L hn hL => ?_⟩
  obtain ⟨eI, eQ⟩ := hmean n0 L hn hL
  obtain ⟨hR1, hR2⟩ := lkR_le A hA0'
  have hkR : (1048576 : ℝ) ≤ k := by
    have : ((2 ^ 20 : Int) : ℝ) ≤ k := by exact_mod_cast hk0
    norm_num at this; linarith
  have hq : (2 : ℝ) ^ 32 / k ≤ 4096 := by
    rw [div_le_iff₀ (by linarith)]; norm_num; linarith
  have hq0 : 0 ≤ (2 : ℝ) ^ 32 / k := by apply div_nonneg (by positivity); linarith
  have he : lkErr A k = 1.9e-5 * A + 2.2 * (2 ^ 32 / k) + 6 := by unfold lkErr; ring
  have he0 : 0 ≤ lkErr A k := by rw [he]; nlinarith
  norm_num at hA0
  have hsm : 1.4143 * lkErr A k ≤ 0.0016 * A := by rw [he]; nlinarith
  have eI' : |lkMean yI n0 L - lkR A * cos θ| ≤ lkErr A k := by unfold lkErr; exact eI
  have eQ' : |lkMean yQ n0 L - -(lkR A * sin θ)| ≤ lkErr A k := by unfold lkErr; exact eQ
  obtain ⟨δ, hδ, hr, e1, e2⟩ := lk_angle eI' eQ' (by linarith)
  refine ⟨δ, _, ?_, hr, e1, e2⟩
  -- |δ| (R − 1.4143 e) ≤ 1.4143 e and R − 1.4143 e ≥ 0.498 A
  have hden : 0.498 * A ≤ lkR A - 1.4143 * lkErr A k := by linarith
  have hδ0 := abs_nonneg δ
  have : |δ| * (0.498 * A) ≤ 1.4143 * lkErr A k :=
    le_trans (mul_le_mul_of_nonneg_left hden hδ0) hδ
  nlinarith

/-- **Magnitude clause, partial: `k·A ≥ 2^45`.**  For every `A ∈ [2^23, 2^30]` and documented `2^20 ≤ k ≤ 2^25` with
    `k·A ≥ 2^45` (every `A ≥ 2^25`; every amplitude of the clause once `k ≥ 2^22`) the mean output over any window of
    `L ≥ 4096` samples after `40·2^32/k` samples has magnitude `A/2` within a relative `1e-3`. -/
theorem lockin_recovery_magnitude_partial (m : Mode) {k a b : Int} (hB : Lp2Butter k a b) (hk0 : 2 ^ 20 ≤ k)
    (hk1 : k ≤ 2 ^ 25) {A θ : ℝ} (hA0 : 2 ^ 23 ≤ A) (hA1 : A ≤ 2 ^ 30) (hkA : 2 ^ 45 ≤ k * A)
    {p0 F : Int} {x p : ℕ → Int} (h : LkSetup A θ p0 F x p) :
    ∃ (st : ℕ → Int × Int × Int × Int) (yI yQ : ℕ → Int), st 0 = (0, 0, 0, 0) ∧
      (∀ n, lockinUpdate m (st n) (x n) (p n) a (-b) = .ok (st (n + 1), yI n, yQ n)) ∧
      ∀ n0 L : ℕ, 40 * 2 ^ 32 ≤ k * n0 → 4096 ≤ L →
        |√(lkMean yI n0 L ^ 2 + lkMean yQ n0 L ^ 2) - A / 2| ≤ 1e-3 * (A / 2) := by
  have hA0' : (0 : ℝ) ≤ A := by have : (0 : ℝ) ≤ 2 ^ 23 := by positivity
                                linarith
  obtain ⟨st, yI, yQ, h0, hrun, hmag⟩ := lockin_recovery_magnitude_general m hB hk0 hk1 hA0' hA1 h
  refine ⟨st, yI, yQ, h0, hrun, fun n0 L hn hL => le_trans (hmag n0 L hn hL) ?_⟩
  have hkR : (1048576 : ℝ) ≤ k := by
    have : ((2 ^ 20 : Int) : ℝ) ≤ k := by exact_mod_cast hk0
    norm_num at this; linarith
  have hq : (2 : ℝ) ^ 32 / k ≤ A / 2 ^ 13 := by
    rw [div_le_div_iff₀ (by linarith) (by positivity)]
    have : (2 : ℝ) ^ 32 * 2 ^ 13 = 2 ^ 45 := by norm_num
    rw [this]; linarith
  have he : lkErr A k = 1.9e-5 * A + 2.2 * (2 ^ 32 / k) + 6 := by unfold lkErr; ring
  rw [he]
  norm_num at hA0 hq ⊢
  linarith

/-- **Angle clause, partial: `k·A ≥ 3·2^46`.**  For every `A ∈ [2^23, 2^30]` and documented `2^20 ≤ k ≤ 2^25` with
    `k·A ≥ 3·2^46` (every `A ≥ 3·2^26 ≈ 2^27.6`; every amplitude of the clause once `k ≥ 3·2^23`) the mean output over
    any window of `L ≥ 4096` samples after `40·2^32/k` samples is `r·(cos(δ − θ), sin(δ − θ))` with `r > 0` and
    `|δ| ≤ 2e-4`: its angle is `−θ` within `2e-4` rad. -/
theorem lockin_recovery_angle_partial (m : Mode) {k a b : Int} (hB : Lp2Butter k a b) (hk0 : 2 ^ 20 ≤ k)
    (hk1 : k ≤ 2 ^ 25) {A θ : ℝ} (hA0 : 2 ^ 23 ≤ A) (hA1 : A ≤ 2 ^ 30) (hkA : 3 * 2 ^ 46 ≤ k * A)
    {p0 F : Int} {x p : ℕ → Int} (h : LkSetup A θ p0 F x p) :
    ∃ (st : ℕ → Int × Int × Int × Int) (yI yQ : ℕ → Int), st 0 = (0, 0, 0, 0) ∧
      (∀ n, lockinUpdate m (st n) (x n) (p n) a (-b) = .ok (st (n + 1), yI n, yQ n)) ∧
      ∀ n0 L : ℕ, 40 * 2 ^ 32 ≤ k * n0 → 4096 ≤ L →
        ∃ δ r : ℝ, |δ| ≤ 2e-4 ∧ 0 < r ∧
          lkMean yI n0 L = r * cos (δ - θ) ∧ lkMean yQ n0 L = r * sin (δ - θ) := by
  have hA0' : (0 : ℝ) ≤ A := by have : (0 : ℝ) ≤ 2 ^ 23 := by positivity
                                linarith
  obtain ⟨st, yI, yQ, h0, hrun, hmean⟩ := lockin_recovery_components m hB hk0 hk1 hA0' hA1 h
  refine ⟨st, yI, yQ, h0, hrun, fun n0 L hn hL => ?_⟩
  obtain ⟨eI, eQ⟩ := hmean n0 L hn hL
  obtain ⟨hR1, hR2⟩ := lkR_le A hA0'
  have hkR : (1048576 : ℝ) ≤ k := by
    have : ((2 ^ 20 : Int) : ℝ) ≤ k := by exact_mod_cast hk0
    norm_num at this; linarith
  have hq : (2 : ℝ) ^ 32 / k ≤ A / (3 * 2 ^ 14) := by
    rw [div_le_div_iff₀ (by linarith) (by positivity)]
    have : (2 : ℝ) ^ 32 * (3 * 2 ^ 14) = 3 * 2 ^ 46 := by norm_num
    rw [this]; linarith
  have he : lkErr A k = 1.9e-5 * A + 2.2 * (2 ^ 32 / k) + 6 := by unfold lkErr; ring
  norm_num at hA0 hq
  have hsm : 1.4143 * lkErr A k ≤ 9.13e-5 * A := by rw [he]; linarith
  have eI' : |lkMean yI n0 L - lkR A * cos θ| ≤ lkErr A k := by unfold lkErr; exact eI
  have eQ' : |lkMean yQ n0 L - -(lkR A * sin θ)| ≤ lkErr A k := by unfold lkErr; exact eQ
  obtain ⟨δ, hδ, hr, e1, e2⟩ := lk_angle eI' eQ' (by linarith)
  refine ⟨δ, _, ?_, hr, e1, e2⟩
  have hden : 0.4998 * A ≤ lkR A - 1.4143 * lkErr A k := by linarith
  have hδ0 := abs_nonneg δ
  have : |δ| * (0.4998 * A) ≤ 9.13e-5 * A :=
    le_trans (le_trans (mul_le_mul_of_nonneg_left hden hδ0) hδ) hsm
  by_contra hc
  have hc' := not_le.mp hc
  nlinarith

/-- the recovery clause as asked: every amplitude `A ∈ [2^23, 2^30]`, every documented `2^20 ≤ k ≤ 2^25`.
    It is FALSE for the code (`lockin_recovery_full_false` below: the angle part fails at `A = 2^23`, `k = 2^20`). -/
def lockin_recovery_full : Prop :=
  ∀ (m : Mode) (k a b : Int) (A θ : ℝ) (p0 F : Int) (x p : ℕ → Int),
    Lp2Butter k a b → 2 ^ 20 ≤ k → k ≤ 2 ^ 25 → 2 ^ 23 ≤ A → A ≤ 2 ^ 30 → LkSetup A θ p0 F x p →
    ∃ (st : ℕ → Int × Int × Int × Int) (yI yQ : ℕ → Int), st 0 = (0, 0, 0, 0) ∧
      (∀ n, lockinUpdate m (st n) (x n) (p n) a (-b) = .ok (st (n + 1), yI n, yQ n)) ∧
      ∀ n0 L : ℕ, 40 * 2 ^ 32 ≤ k * n0 → 4096 ≤ L →
        |√(lkMean yI n0 L ^ 2 + lkMean yQ n0 L ^ 2) - A / 2| ≤ 1e-3 * (A / 2) ∧
        ∃ δ r : ℝ, |δ| ≤ 2e-4 ∧ 0 < r ∧
          lkMean yI n0 L = r * cos (δ - θ) ∧ lkMean yQ n0 L = r * sin (δ - θ)

/-! ### non-vacuity -/

/-- the setting is satisfiable for every amplitude, tone phase, start phase and admissible frequency word: take the
    floor of the real tone as the sample -/
example (A θ : ℝ) (p0 F : Int) (hF0 : 214748365 ≤ F) (hF1 : F ≤ 1932735283) :
    ∃ x p : ℕ → Int, LkSetup A θ p0 F x p := by
  refine ⟨fun n => ⌊A * cos (((wrapI 32 (p0 + n * F) : Int) : ℝ) * π / 2 ^ 31 + θ)⌋,
    fun n => wrapI 32 (p0 + n * F), hF0, hF1, fun n => rfl, fun n => ?_⟩
  have h1 := Int.floor_le (A * cos (((wrapI 32 (p0 + n * F) : Int) : ℝ) * π / 2 ^ 31 + θ))
  have h2 := Int.lt_floor_add_one (A * cos (((wrapI 32 (p0 + n * F) : Int) : ℝ) * π / 2 ^ 31 + θ))
  rw [abs_le]; constructor <;> linarith

/-- a concrete instance of all hypotheses of the angle theorem: `k = 2^24` (`[65536, -23726566]`), `A = 2^28`,
    `θ = 0.3`, frequency word `2^30` (a quarter of the sample rate) -/
example : ∃ x p : ℕ → Int, Lp2Butter 16777216 65536 23726566 ∧ LkSetup (2 ^ 28) 0.3 0 (2 ^ 30) x p ∧
    (3 * 2 ^ 46 : ℝ) ≤ ((16777216 : Int) : ℝ) * 2 ^ 28 := by
  refine ⟨fun n => ⌊(2 ^ 28 : ℝ) * cos (((wrapI 32 (0 + n * 2 ^ 30) : Int) : ℝ) * π / 2 ^ 31 + 0.3)⌋,
    fun n => wrapI 32 (0 + n * 2 ^ 30), by constructor <;> norm_num, ⟨by norm_num, by norm_num, fun n => rfl,
      fun n => ?_⟩, by norm_num⟩
  have h1 := Int.floor_le ((2 ^ 28 : ℝ) * cos (((wrapI 32 (0 + n * 2 ^ 30) : Int) : ℝ) * π / 2 ^ 31 + 0.3))
  have h2 := Int.lt_floor_add_one ((2 ^ 28 : ℝ) * cos (((wrapI 32 (0 + n * 2 ^ 30) : Int) : ℝ) * π / 2 ^ 31 + 0.3))
  rw [abs_le]; constructor <;> linarith

/-! ### the full clause is FALSE for the code (proved witness) -/

/-- **Witness run.**  `k = 2^20` (`[256, -1482910]`), `A = 2^23`, `θ = π/4`, start phase `0`, frequency word `2^30`
    (a quarter of the sample rate), samples `wX n = ±5931642` (within `1` of `2^23·cos(φ_n + π/4)`; `wit_setup`).
    EVERY run of the model on these inputs (either build profile) returns, over the `4096` updates starting at update
    `163840 = 40·2^32/k`, outputs with sums `ΣI = 12159431768`, `ΣQ = −12135711562` (mean `(2968611.3, −2962820.2)`;
    the ideal is `(2965785, −2965785)`: both channels sit about `2^32/(√2·k) ≈ 2900` LSB too high), and hence ANY
    representation `r·(cos(δ − π/4), sin(δ − π/4))`, `r > 0`, of the mean output has `|δ| > 9.7e-4` rad.
    (The run is evaluated by the kernel in 41 chunks, `Lemmas/LockinRecWitA..F.lean`.) -/
theorem lockin_recovery_angle_witness (m : Mode) (st : ℕ → Int × Int × Int × Int) (yI yQ : ℕ → Int)
    (h0 : st 0 = (0, 0, 0, 0))
    (hrun : ∀ n, lockinUpdate m (st n) (wX n) (wP n) 256 (-1482910) = .ok (st (n + 1), yI n, yQ n)) :
    Lp2Butter 1048576 256 1482910 ∧ LkSetup (2 ^ 23) (π / 4) 0 (2 ^ 30) wX wP ∧
    lkMean yI 163840 4096 = 12159431768 / 4096 ∧ lkMean yQ 163840 4096 = -12135711562 / 4096 ∧
    ∀ δ r : ℝ, 0 < r → lkMean yI 163840 4096 = r * cos (δ - π / 4) →
      lkMean yQ 163840 4096 = r * sin (δ - π / 4) → 9.7e-4 < |δ| := by
  obtain ⟨sI, sQ⟩ := wit_sums m st yI yQ h0 hrun
  have mI : lkMean yI 163840 4096 = 12159431768 / 4096 := by unfold lkMean; rw [sI]; norm_num
  have mQ : lkMean yQ 163840 4096 = -12135711562 / 4096 := by unfold lkMean; rw [sQ]; norm_num
  refine ⟨wit_butter, wit_setup, mI, mQ, fun δ r hr e1 e2 => ?_⟩
  rw [mI] at e1; rw [mQ] at e2
  rw [cos_sub, cos_pi_div_four, sin_pi_div_four] at e1
  rw [sin_sub, cos_pi_div_four, sin_pi_div_four] at e2
  -- (mI + mQ)·cos δ = (mI − mQ)·sin δ
  have key : ((12159431768 : ℝ) / 4096 + -12135711562 / 4096) * cos δ
      = ((12159431768 : ℝ) / 4096 - -12135711562 / 4096) * sin δ := by
    rw [e1, e2]; ring
  by_contra hc
  have hδ : |δ| ≤ 9.7e-4 := not_lt.mp hc
  have hs : |sin δ| ≤ 9.7e-4 := le_trans abs_sin_le_abs hδ
  have hcos : 0.999999 ≤ cos δ := by
    have h1 := one_sub_sq_div_two_le_cos (x := δ)
    have h2 : δ ^ 2 ≤ (9.7e-4 : ℝ) ^ 2 := by
      rw [← sq_abs δ]; exact pow_le_pow_left₀ (abs_nonneg _) hδ 2
    norm_num at h2
    linarith
  have hs' := abs_le.mp hs
  norm_num at key
  nlinarith

/-- **The recovery clause as asked is FALSE for the code**: at the witness of `lockin_recovery_angle_witness`
    (`A = 2^23`, `k = 2^20`) all hypotheses hold and the magnitude part holds, but the angle of the mean output is off
    by more than `9.7e-4` rad `> 2e-4` rad.  (Finding F-C11: the truncation offset of `Lowpass<2>`.) -/
theorem lockin_recovery_full_false : ¬ lockin_recovery_full := by
  intro hfull
  obtain ⟨st, yI, yQ, h0, hrun, hwin⟩ := hfull .checked 1048576 256 1482910 (2 ^ 23) (π / 4) 0 (2 ^ 30) wX wP
    wit_butter (by norm_num) (by norm_num) (by norm_num) (by norm_num) wit_setup
  obtain ⟨-, δ, r, hδ, hr, e1, e2⟩ := hwin 163840 4096 (by norm_num) (by norm_num)
  have := (lockin_recovery_angle_witness .checked st yI yQ h0 hrun).2.2.2.2 δ r hr e1 e2
  linarith

end Idsp
