import IdspModel.Lemmas.Basic
import Mathlib.Tactic.Ring
/-!
# Sequence algebra for the CIC filter (C12 / C13)

Sequences are functions `Int → Int`; a *causal* sequence vanishes at negative indices (this is "extension by
zero to negative indices").  Operators:

* `seqS x t = ∑_{0 ≤ s ≤ t} x s`            (integrator / running sum)
* `seqD R x t = x t - x (t - R)`            (comb with lag `R`)
* `seqB R x t = ∑_{i < R} x (t - i)`        (length-`R` boxcar)
* `seqHold R u t = u (t / R)`               (zero-order hold, each sample repeated `R` times)
* `seqDown R y m = y (m * R)`               (keep every `R`-th sample)
* `fir h x t = ∑_k h[k] * x (t - k)`        (FIR filter with a finite kernel `h : List Int`)
* `cicKernel R N`                           (`N`-fold self-convolution of the length-`R` boxcar of ones)

Main identities (for causal sequences): `D_R^N S^N = B_R^N = S^N D_R^N`, `fir (cicKernel R N) = B_R^N`,
`D_1^N ∘ ↓R = ↓R ∘ D_R^N`, `hold_R ∘ D_1^N = D_R^N ∘ hold_R`.
-/
namespace Idsp

/-! ## finite sums -/

/-- `∑_{i<n} f i` -/
def sumTo : Nat → (Nat → Int) → Int
  | 0, _ => 0
  | n + 1, f => sumTo n f + f n

theorem sumTo_congr {n : Nat} {f g : Nat → Int} (h : ∀ i, i < n → f i = g i) : sumTo n f = sumTo n g := by
  induction n with
  | zero => rfl
  | succ n ih =>
    simp only [sumTo]
    rw [ih (fun i hi => h i (by omega)), h n (by omega)]

theorem sumTo_zero (n : Nat) : sumTo n (fun _ => 0) = 0 := by
  induction n with
  | zero => rfl
  | succ n ih => simp [sumTo, ih]

theorem sumTo_eq_zero {n : Nat} {f : Nat → Int} (h : ∀ i, i < n → f i = 0) : sumTo n f = 0 := by
  rw [sumTo_congr h, sumTo_zero]

theorem sumTo_add (n : Nat) (f g : Nat → Int) : sumTo n (fun i => f i + g i) = sumTo n f + sumTo n g := by
  induction n with
  | zero => rfl
  | succ n ih => simp only [sumTo, ih]; omega

theorem sumTo_sub (n : Nat) (f g : Nat → Int) : sumTo n (fun i => f i - g i) = sumTo n f - sumTo n g := by
  induction n with
  | zero => rfl
  | succ n ih => simp only [sumTo, ih]; omega

theorem sumTo_const (n : Nat) (c : Int) : sumTo n (fun _ => c) = n * c := by
  induction n with
  | zero => simp [sumTo]
  | succ n ih => simp only [sumTo, ih]; push_cast; ring

theorem sumTo_mul_left (n : Nat) (c : Int) (f : Nat → Int) : sumTo n (fun i => c * f i) = c * sumTo n f := by
  induction n with
  | zero => simp [sumTo]
  | succ n ih => simp only [sumTo, ih]; ring

theorem sumTo_succ_front (n : Nat) (f : Nat → Int) : sumTo (n + 1) f = f 0 + sumTo n (fun i => f (i + 1)) := by
  induction n with
  | zero => simp [sumTo]
  | succ n ih => rw [sumTo, ih]; simp only [sumTo]; omega

theorem sumTo_le {n : Nat} {f g : Nat → Int} (h : ∀ i, i < n → f i ≤ g i) : sumTo n f ≤ sumTo n g := by
  induction n with
  | zero => exact Int.le_refl _
  | succ n ih =>
    simp only [sumTo]
    have := ih (fun i hi => h i (by omega))
    have := h n (by omega)
    omega

theorem sumTo_nonneg {n : Nat} {f : Nat → Int} (h : ∀ i, i < n → 0 ≤ f i) : 0 ≤ sumTo n f := by
  have := sumTo_le (f := fun _ => 0) (g := f) h
  rwa [sumTo_zero] at this

/-! ## operators on sequences -/

/-- vanishes at negative indices -/
def Causal (x : Int → Int) : Prop := ∀ t, t < 0 → x t = 0

/-- running sum `∑_{0 ≤ s ≤ t} x s` (the integrator started from zero) -/
def seqS (x : Int → Int) (t : Int) : Int := if t < 0 then 0 else sumTo (t.toNat + 1) (fun s => x s)

/-- lag-`R` difference (comb) -/
def seqD (R : Nat) (x : Int → Int) (t : Int) : Int := x t - x (t - R)

/-- length-`R` boxcar sum -/
def seqB (R : Nat) (x : Int → Int) (t : Int) : Int := sumTo R (fun i => x (t - i))

/-- zero-order hold: every sample repeated `R` times -/
def seqHold (R : Nat) (u : Int → Int) (t : Int) : Int := u (t / R)

/-- decimation: keep the samples at multiples of `R` -/
def seqDown (R : Nat) (y : Int → Int) (m : Int) : Int := y (m * R)

/-- `n`-fold application of an operator -/
def opPow (f : (Int → Int) → (Int → Int)) : Nat → (Int → Int) → (Int → Int)
  | 0, x => x
  | n + 1, x => f (opPow f n x)

theorem opPow_succ' (f : (Int → Int) → (Int → Int)) (n : Nat) (x : Int → Int) :
    opPow f (n + 1) x = opPow f n (f x) := by
  induction n with
  | zero => rfl
  | succ n ih => show f (opPow f (n + 1) x) = f (opPow f n (f x)); rw [ih]

theorem opPow_pres {P : (Int → Int) → Prop} {f : (Int → Int) → (Int → Int)} (hf : ∀ x, P x → P (f x))
    (n : Nat) {x : Int → Int} (hx : P x) : P (opPow f n x) := by
  induction n with
  | zero => exact hx
  | succ n ih => exact hf _ ih

/-- operators that commute on a class of sequences closed under `f`: powers of `f` commute with `g` -/
theorem opPow_comm {P : (Int → Int) → Prop} {f g : (Int → Int) → (Int → Int)}
    (hf : ∀ x, P x → P (f x)) (h : ∀ x, P x → f (g x) = g (f x))
    (n : Nat) {x : Int → Int} (hx : P x) : opPow f n (g x) = g (opPow f n x) := by
  induction n with
  | zero => rfl
  | succ n ih =>
    show f (opPow f n (g x)) = g (f (opPow f n x))
    rw [ih, h _ (opPow_pres hf n hx)]

/-! ### the running sum -/

theorem seqS_neg (x : Int → Int) {t : Int} (h : t < 0) : seqS x t = 0 := by simp [seqS, h]

theorem seqS_rec (x : Int → Int) {t : Int} (h : 0 ≤ t) : seqS x t = seqS x (t - 1) + x t := by
  unfold seqS
  rw [if_neg (by omega)]
  by_cases h0 : t = 0
  · subst h0; simp [sumTo]
  · rw [if_neg (by omega)]
    have e : t.toNat = (t - 1).toNat + 1 := by omega
    rw [e, sumTo]
    congr 1
    have : ((((t - 1).toNat + 1 : Nat) : Int)) = t := by omega
    rw [this]

theorem seqS_rec_causal {x : Int → Int} (hx : Causal x) (t : Int) : seqS x t = seqS x (t - 1) + x t := by
  by_cases h : 0 ≤ t
  · exact seqS_rec x h
  · rw [seqS_neg x (by omega), seqS_neg x (by omega), hx t (by omega)]; rfl

/-- the running sum is the unique causal solution of `a t = a (t-1) + c t` -/
theorem seqS_unique {a c : Int → Int} (h0 : ∀ t, t < 0 → a t = 0) (h1 : ∀ t, 0 ≤ t → a t = a (t - 1) + c t) :
    a = seqS c := by
  funext t
  by_cases h : t < 0
  · rw [h0 t h, seqS_neg c h]
  · obtain ⟨n, rfl⟩ : ∃ n : Nat, t = n := ⟨t.toNat, by omega⟩
    clear h
    induction n with
    | zero =>
      rw [h1 _ (by omega), seqS_rec c (by omega), h0 _ (by omega), seqS_neg c (by omega)]
    | succ n ih =>
      rw [h1 _ (by omega), seqS_rec c (by omega)]
      have : ((n + 1 : Nat) : Int) - 1 = (n : Int) := by omega
      rw [this, ih]

theorem causal_seqS (x : Int → Int) : Causal (seqS x) := fun _ h => seqS_neg x h

theorem causal_seqD (R : Nat) {x : Int → Int} (hx : Causal x) : Causal (seqD R x) := by
  intro t h
  unfold seqD
  rw [hx t h, hx (t - R) (by omega)]; rfl

theorem causal_seqB (R : Nat) {x : Int → Int} (hx : Causal x) : Causal (seqB R x) := by
  intro t h
  unfold seqB
  exact sumTo_eq_zero (fun i _ => hx _ (by omega))

theorem causal_seqHold {R : Nat} (hR : 0 < R) {u : Int → Int} (hu : Causal u) : Causal (seqHold R u) := by
  intro t h
  unfold seqHold
  exact hu _ (Int.ediv_neg_of_neg_of_pos h (by omega))

theorem causal_seqDown {R : Nat} (hR : 0 < R) {y : Int → Int} (hy : Causal y) : Causal (seqDown R y) := by
  intro m h
  unfold seqDown
  apply hy
  have : (0 : Int) < R := by omega
  exact Int.mul_neg_of_neg_of_pos h this

/-! ### boxcar recurrences and commutation -/

theorem seqB_rec (R : Nat) (x : Int → Int) (t : Int) : seqB R x t = seqB R x (t - 1) + x t - x (t - R) := by
  unfold seqB
  induction R with
  | zero => simp [sumTo]
  | succ R ih =>
    simp only [sumTo, ih]
    have e1 : t - 1 - (R : Int) = t - ((R + 1 : Nat) : Int) := by push_cast; omega
    rw [e1]; omega

/-- `B_R = S ∘ D_R` on causal sequences -/
theorem seqB_eq_S_D (R : Nat) {y : Int → Int} (hy : Causal y) : seqB R y = seqS (seqD R y) := by
  apply seqS_unique
  · exact causal_seqB R hy
  · intro t _
    rw [seqB_rec]; unfold seqD; omega

/-- `D_R ∘ S = S ∘ D_R` on causal sequences -/
theorem seqD_S_comm (R : Nat) {y : Int → Int} (hy : Causal y) : seqD R (seqS y) = seqS (seqD R y) := by
  apply seqS_unique
  · exact causal_seqD R (causal_seqS y)
  · intro t _
    unfold seqD
    rw [seqS_rec_causal hy t, seqS_rec_causal hy (t - R)]
    have : t - 1 - (R : Int) = t - R - 1 := by omega
    rw [this]; omega

/-- `D_R ∘ S = B_R` on causal sequences: a comb behind an integrator is a boxcar -/
theorem seqD_S (R : Nat) {y : Int → Int} (hy : Causal y) : seqD R (seqS y) = seqB R y := by
  rw [seqD_S_comm R hy, seqB_eq_S_D R hy]

/-- `B_R ∘ S = S ∘ B_R` on causal sequences -/
theorem seqB_S_comm (R : Nat) {y : Int → Int} (hy : Causal y) : seqB R (seqS y) = seqS (seqB R y) := by
  apply seqS_unique
  · exact causal_seqB R (causal_seqS y)
  · intro t _
    unfold seqB
    have : sumTo R (fun i => seqS y (t - i)) - sumTo R (fun i => seqS y (t - 1 - i))
         = sumTo R (fun i => y (t - i)) := by
      rw [← sumTo_sub]
      apply sumTo_congr
      intro i _
      rw [seqS_rec_causal hy (t - i)]
      have : t - 1 - (i : Int) = t - i - 1 := by omega
      rw [this]; omega
    omega

/-- `B_R ∘ D_R' = D_R' ∘ B_R` (always) -/
theorem seqB_D_comm (R R' : Nat) (y : Int → Int) : seqB R (seqD R' y) = seqD R' (seqB R y) := by
  funext t
  unfold seqB seqD
  rw [← sumTo_sub]
  apply sumTo_congr
  intro i _
  have : t - (R' : Int) - i = t - i - R' := by omega
  rw [this]

theorem causal_opPow_S (n : Nat) {x : Int → Int} (hx : Causal x) : Causal (opPow seqS n x) :=
  opPow_pres (P := Causal) (fun x _ => causal_seqS x) n hx

theorem causal_opPow_D (R n : Nat) {x : Int → Int} (hx : Causal x) : Causal (opPow (seqD R) n x) :=
  opPow_pres (P := Causal) (fun _ h => causal_seqD R h) n hx

theorem causal_opPow_B (R n : Nat) {x : Int → Int} (hx : Causal x) : Causal (opPow (seqB R) n x) :=
  opPow_pres (P := Causal) (fun _ h => causal_seqB R h) n hx

/-- decimator identity: `N` combs behind `N` integrators are `N` boxcars -/
theorem opPow_D_S (R n : Nat) {x : Int → Int} (hx : Causal x) :
    opPow (seqD R) n (opPow seqS n x) = opPow (seqB R) n x := by
  induction n generalizing x with
  | zero => rfl
  | succ n ih =>
    rw [opPow_succ' (seqD R)]
    show opPow (seqD R) n (seqD R (seqS (opPow seqS n x))) = _
    rw [seqD_S R (causal_opPow_S n hx)]
    rw [← opPow_comm (P := Causal) (f := seqS) (g := seqB R) (fun x _ => causal_seqS x)
          (fun x hx => (seqB_S_comm R hx).symm) n hx]
    rw [ih (causal_seqB R hx), ← opPow_succ']

/-- interpolator identity: `N` integrators behind `N` combs are `N` boxcars -/
theorem opPow_S_D (R n : Nat) {y : Int → Int} (hy : Causal y) :
    opPow seqS n (opPow (seqD R) n y) = opPow (seqB R) n y := by
  induction n generalizing y with
  | zero => rfl
  | succ n ih =>
    rw [opPow_succ' seqS]
    show opPow seqS n (seqS (seqD R (opPow (seqD R) n y))) = _
    rw [← seqB_eq_S_D R (causal_opPow_D R n hy)]
    rw [← opPow_comm (P := fun _ => True) (f := seqD R) (g := seqB R) (fun _ _ => trivial)
          (fun x _ => (seqB_D_comm R R x).symm) n trivial]
    rw [ih (causal_seqB R hy), ← opPow_succ']

/-! ### rate changes -/

theorem seqD_one_down (R : Nat) (y : Int → Int) : seqD 1 (seqDown R y) = seqDown R (seqD R y) := by
  funext m
  unfold seqD seqDown
  have : (m - ((1 : Nat) : Int)) * (R : Int) = m * R - R := by push_cast; ring
  rw [this]

/-- combs at the low rate on the decimated signal = lag-`R` combs at the high rate, decimated -/
theorem opPow_D_one_down (R n : Nat) (y : Int → Int) :
    opPow (seqD 1) n (seqDown R y) = seqDown R (opPow (seqD R) n y) := by
  induction n with
  | zero => rfl
  | succ n ih =>
    show seqD 1 (opPow (seqD 1) n (seqDown R y)) = seqDown R (seqD R (opPow (seqD R) n y))
    rw [ih, seqD_one_down]

theorem seqHold_D_one {R : Nat} (hR : 0 < R) (u : Int → Int) : seqHold R (seqD 1 u) = seqD R (seqHold R u) := by
  funext t
  unfold seqD seqHold
  have hne : (R : Int) ≠ 0 := by omega
  have : (t - (R : Int)) / R = t / R - ((1 : Nat) : Int) := by
    have := Int.add_mul_ediv_right t (-1) hne
    rw [show t + -1 * (R : Int) = t - R by omega] at this
    rw [this]; push_cast; omega
  rw [this]

/-- combs at the low rate followed by a hold = hold followed by lag-`R` combs at the high rate -/
theorem seqHold_opPow_D_one {R : Nat} (hR : 0 < R) (n : Nat) (u : Int → Int) :
    seqHold R (opPow (seqD 1) n u) = opPow (seqD R) n (seqHold R u) := by
  induction n with
  | zero => rfl
  | succ n ih =>
    show seqHold R (seqD 1 (opPow (seqD 1) n u)) = seqD R (opPow (seqD R) n (seqHold R u))
    rw [seqHold_D_one hR, ih]

/-- rate 1 (`R = 1`): the boxcar is the identity -/
theorem seqB_one (x : Int → Int) : seqB 1 x = x := by
  funext t; simp [seqB, sumTo]

theorem opPow_seqB_one (n : Nat) (x : Int → Int) : opPow (seqB 1) n x = x := by
  induction n with
  | zero => rfl
  | succ n ih => show seqB 1 (opPow (seqB 1) n x) = x; rw [ih, seqB_one]

/-! ## FIR filters with an explicit kernel -/

/-- `fir h x t = ∑_k h[k] · x (t - k)` -/
def fir : List Int → (Int → Int) → Int → Int
  | [], _, _ => 0
  | a :: as, x, t => a * x t + fir as x (t - 1)

/-- coefficient-wise sum of two kernels (the shorter one padded by zeros) -/
def listAdd : List Int → List Int → List Int
  | [], b => b
  | a :: as, [] => a :: as
  | a :: as, b :: bs => (a + b) :: listAdd as bs

/-- convolution of two kernels (polynomial multiplication) -/
def lconv : List Int → List Int → List Int
  | [], _ => []
  | a :: as, b => listAdd (b.map (fun c => a * c)) (0 :: lconv as b)

/-- length-`R` boxcar of ones -/
def boxcar (R : Nat) : List Int := List.replicate R 1

/-- `N`-fold self-convolution of the length-`R` boxcar (`[1]` for `N = 0`): the CIC impulse response -/
def cicKernel (R : Nat) : Nat → List Int
  | 0 => [1]
  | n + 1 => lconv (boxcar R) (cicKernel R n)

theorem fir_eq_sum (h : List Int) (x : Int → Int) (t : Int) :
    fir h x t = sumTo h.length (fun k => h.getD k 0 * x (t - k)) := by
  induction h generalizing t with
  | nil => rfl
  | cons a as ih =>
    rw [fir, List.length_cons, sumTo_succ_front, ih]
    congr 1
    · simp
    · apply sumTo_congr
      intro i _
      have : t - 1 - (i : Int) = t - ((i + 1 : Nat) : Int) := by push_cast; omega
      rw [this]; simp

theorem fir_listAdd (a b : List Int) (x : Int → Int) (t : Int) :
    fir (listAdd a b) x t = fir a x t + fir b x t := by
  induction a generalizing b t with
  | nil => simp [listAdd, fir]
  | cons a as ih =>
    cases b with
    | nil => simp [listAdd, fir]
    | cons b bs => simp only [listAdd, fir, ih]; ring

theorem fir_map_mul (c : Int) (b : List Int) (x : Int → Int) (t : Int) :
    fir (b.map (fun d => c * d)) x t = c * fir b x t := by
  induction b generalizing t with
  | nil => simp [fir]
  | cons b bs ih => simp only [List.map_cons, fir, ih]; ring

/-- filtering with a convolution of kernels = filtering twice -/
theorem fir_lconv (a b : List Int) (x : Int → Int) (t : Int) :
    fir (lconv a b) x t = fir a (fir b x) t := by
  induction a generalizing t with
  | nil => rfl
  | cons a as ih =>
    simp only [lconv, fir_listAdd, fir_map_mul, fir, ih]; ring

theorem fir_boxcar (R : Nat) (x : Int → Int) (t : Int) : fir (boxcar R) x t = seqB R x t := by
  induction R generalizing t with
  | zero => rfl
  | succ R ih =>
    show fir (1 :: boxcar R) x t = _
    unfold seqB
    rw [fir, ih, sumTo_succ_front]
    unfold seqB
    congr 1
    · simp
    · apply sumTo_congr
      intro i _
      have : t - 1 - (i : Int) = t - ((i + 1 : Nat) : Int) := by push_cast; omega
      rw [this]

/-- the FIR filter with the CIC kernel is the `N`-fold boxcar -/
theorem fir_cicKernel (R n : Nat) (x : Int → Int) : fir (cicKernel R n) x = opPow (seqB R) n x := by
  induction n with
  | zero => funext t; simp [cicKernel, fir, opPow]
  | succ n ih =>
    funext t
    show fir (lconv (boxcar R) (cicKernel R n)) x t = seqB R (opPow (seqB R) n x) t
    rw [fir_lconv, fir_boxcar, ih]

/-! ## step response -/

/-- the step `c · 1[t ≥ 0]` -/
def stepSeq (c : Int) (t : Int) : Int := if t < 0 then 0 else c

theorem causal_stepSeq (c : Int) : Causal (stepSeq c) := fun t h => by simp [stepSeq, h]

/-- unit step response of the `N`-fold boxcar -/
def stepResp (R n : Nat) : Int → Int := opPow (seqB R) n (stepSeq 1)

theorem seqB_mul_left (R : Nat) (c : Int) (y : Int → Int) :
    seqB R (fun t => c * y t) = fun t => c * seqB R y t := by
  funext t; unfold seqB; rw [← sumTo_mul_left]

theorem opPow_seqB_mul_left (R n : Nat) (c : Int) (y : Int → Int) :
    opPow (seqB R) n (fun t => c * y t) = fun t => c * opPow (seqB R) n y t := by
  induction n with
  | zero => rfl
  | succ n ih =>
    show seqB R (opPow (seqB R) n fun t => c * y t) = fun t => c * seqB R (opPow (seqB R) n y) t
    rw [ih, seqB_mul_left]

theorem opPow_seqB_step (R n : Nat) (c : Int) (t : Int) :
    opPow (seqB R) n (stepSeq c) t = c * stepResp R n t := by
  have : stepSeq c = fun t => c * stepSeq 1 t := by
    funext t; unfold stepSeq; split <;> simp
  rw [this, opPow_seqB_mul_left]; rfl

theorem stepResp_neg (R n : Nat) {t : Int} (h : t < 0) : stepResp R n t = 0 :=
  causal_opPow_B R n (causal_stepSeq 1) t h

/-- after `(R-1)·N` samples the step response has reached `R^N` -/
theorem stepResp_settled (R n : Nat) (t : Int) (h : ((R : Int) - 1) * n ≤ t) (h0 : 0 ≤ t) :
    stepResp R n t = (R : Int) ^ n := by
  unfold stepResp
  induction n generalizing t with
  | zero => simp [opPow, stepSeq]; omega
  | succ n ih =>
    show seqB R (opPow (seqB R) n (stepSeq 1)) t = _
    unfold seqB
    by_cases hR : R = 0
    · subst hR; simp [sumTo]
    rw [sumTo_congr (g := fun _ => (R : Int) ^ n)]
    · rw [sumTo_const]; ring
    · intro i hi
      have e : ((R : Int) - 1) * ((n + 1 : Nat) : Int) = ((R : Int) - 1) * n + (R - 1) := by push_cast; ring
      have hpos : 0 ≤ ((R : Int) - 1) * n := Int.mul_nonneg (by omega) (by omega)
      apply ih <;> omega

theorem stepResp_nonneg (R n : Nat) (t : Int) : 0 ≤ stepResp R n t := by
  unfold stepResp
  induction n generalizing t with
  | zero => simp [opPow, stepSeq]; split <;> omega
  | succ n ih => exact sumTo_nonneg (fun i _ => ih _)

theorem stepResp_mono (R n : Nat) (t : Int) : stepResp R n t ≤ stepResp R n (t + 1) := by
  unfold stepResp
  induction n generalizing t with
  | zero => simp [opPow, stepSeq]; split <;> split <;> omega
  | succ n ih =>
    apply sumTo_le
    intro i _
    have : t + 1 - (i : Int) = t - i + 1 := by omega
    rw [this]; exact ih _

theorem stepResp_le (R n : Nat) (t : Int) : stepResp R n t ≤ (R : Int) ^ n := by
  unfold stepResp
  induction n generalizing t with
  | zero => simp [opPow, stepSeq]; split <;> omega
  | succ n ih =>
    show seqB R (opPow (seqB R) n (stepSeq 1)) t ≤ _
    unfold seqB
    have := sumTo_le (n := R) (f := fun i => opPow (seqB R) n (stepSeq 1) (t - i))
      (g := fun _ => (R : Int) ^ n) (fun i _ => ih _)
    rw [sumTo_const] at this
    calc _ ≤ (R : Int) * (R : Int) ^ n := this
      _ = _ := by ring

theorem stepResp_mono_le (R n : Nat) {s t : Int} (h : s ≤ t) : stepResp R n s ≤ stepResp R n t := by
  obtain ⟨k, rfl⟩ : ∃ k : Nat, t = s + k := ⟨(t - s).toNat, by omega⟩
  induction k with
  | zero => simp
  | succ k ih =>
    have := stepResp_mono R n (s + k)
    have e : s + ((k + 1 : Nat) : Int) = s + k + 1 := by push_cast; omega
    rw [e]
    exact Int.le_trans (ih (by omega)) this

/-! ## streams -/

/-- a stream `Nat → Int` as a causal sequence -/
def ext (x : Nat → Int) (t : Int) : Int := if t < 0 then 0 else x t.toNat

theorem causal_ext (x : Nat → Int) : Causal (ext x) := fun t h => by simp [ext, h]

theorem ext_nat (x : Nat → Int) (t : Nat) : ext x t = x t := by simp [ext]

end Idsp
