import IdspModel.Lemmas.HbfStage
/-! Feeding a list of blocks to one half-band stage: the concatenated output and the final abstract state are
    given by the history-only specification applied to the concatenated input. -/
namespace Idsp
variable {α : Type}

theorem lastN_lastN_append (n : Nat) (a b : List α) (h : n ≤ a.length) :
    lastN n (lastN n a ++ b) = lastN n (a ++ b) := by
  simp only [lastN]
  have e1 : (List.drop (a.length - n) a ++ b).length - n = b.length := by simp; omega
  rw [e1, ← List.drop_append_of_le_length (l₂ := b) (by omega), List.drop_drop]
  congr 1; simp; omega

theorem lastN_of_length_le (n : Nat) (a : List α) (h : a.length ≤ n) : lastN n a = a := by
  have : a.length - n = 0 := by omega
  simp [lastN, this]

theorem decNext_nil (m : Nat) (he ho : List α) (h1 : he.length = m - 1) (h2 : ho.length = 2 * m - 1) :
    decNext m he ho [] = (he, ho) := by
  simp [decNext, evens, odds, lastN_of_length_le, h1, h2]

theorem decNext_append (m : Nat) (he ho b1 b2 : List α) (h1 : he.length = m - 1) (h2 : ho.length = 2 * m - 1)
    (hb : b1.length % 2 = 0) :
    decNext m (decNext m he ho b1).1 (decNext m he ho b1).2 b2 = decNext m he ho (b1 ++ b2) := by
  simp only [decNext, evens_append _ _ hb, odds_append _ _ hb, ← List.append_assoc]
  rw [lastN_lastN_append _ _ _ (by simp [h1]), lastN_lastN_append _ _ _ (by simp [h2])]

theorem decSpec_nil (o : Ops α) (taps he ho : List α) : hbfDecSpec o taps he ho [] = [] := by
  simp [hbfDecSpec]

/-- feed a list of blocks one after the other to a block processor `proc`; returns the final state and the list
    of returned output blocks -/
def runG {σ : Type} (proc : σ → List α → σ × List α) (d : σ) : List (List α) → σ × List (List α)
  | [] => (d, [])
  | b :: bs =>
    let r := proc d b
    let r2 := runG proc r.1 bs
    (r2.1, r.2 :: r2.2)

/-- feed a list of blocks one after the other to `HbfDec::process_block`; returns the final state and the list of
    returned output blocks -/
def HbfDec.run (o : Ops α) (d : HbfDec α) (bs : List (List α)) : HbfDec α × List (List α) :=
  runG (HbfDec.process o) d bs

theorem HbfDec.run_nil (o : Ops α) (d : HbfDec α) : d.run o [] = (d, []) := rfl
theorem HbfDec.run_cons (o : Ops α) (d : HbfDec α) (b : List α) (bs : List (List α)) :
    d.run o (b :: bs) = (((d.process o b).1.run o bs).1, (d.process o b).2 :: ((d.process o b).1.run o bs).2) := rfl

theorem HbfDec.process_wf (o : Ops α) (d : HbfDec α) (wf : d.WF) (x : List α) (adm : d.Adm x) :
    (d.process o x).1.WF := by
  obtain ⟨h1, h2, h3⟩ := HbfDec.process_frame o d wf x adm
  obtain ⟨hm, hle, hge⟩ := wf
  exact ⟨by rw [h1]; exact hm, by rw [h2, h3]; exact hle, by rw [h1, h2]; exact hge⟩

theorem HbfDec.process_blockMax (o : Ops α) (d : HbfDec α) (wf : d.WF) (x : List α) (adm : d.Adm x) :
    (d.process o x).1.blockMax = d.blockMax := by
  obtain ⟨h1, h2, h3⟩ := HbfDec.process_frame o d wf x adm
  simp only [HbfDec.blockMax, h1, h2]

theorem HbfDec.run_spec (o : Ops α) (d : HbfDec α) (wf : d.WF) (bs : List (List α))
    (adm : ∀ b ∈ bs, d.Adm b) :
    (d.run o bs).2.flatten = hbfDecSpec o d.odd.taps d.abs.1 d.abs.2 bs.flatten ∧
    (d.run o bs).1.abs = decNext d.odd.taps.length d.abs.1 d.abs.2 bs.flatten ∧
    (d.run o bs).1.WF ∧ (d.run o bs).1.odd.taps = d.odd.taps ∧ (d.run o bs).1.blockMax = d.blockMax ∧
    (d.run o bs).2.map List.length = bs.map (fun b => b.length / 2) := by
  induction bs generalizing d with
  | nil =>
    obtain ⟨a1, a2⟩ := d.abs_length wf
    simp [HbfDec.run_nil, decSpec_nil, decNext_nil _ _ _ a1 a2, wf]
  | cons b bs ih =>
    have hb := adm b (by simp)
    obtain ⟨a1, a2⟩ := d.abs_length wf
    have wf' := HbfDec.process_wf o d wf b hb
    have bm' := HbfDec.process_blockMax o d wf b hb
    obtain ⟨t', _, _⟩ := HbfDec.process_frame o d wf b hb
    have adm' : ∀ b' ∈ bs, (d.process o b).1.Adm b' := by
      intro b' hb'
      have := adm b' (by simp [hb'])
      simpa only [HbfDec.Adm, bm'] using this
    obtain ⟨i1, i2, i3, i4, i5, i6⟩ := ih (d.process o b).1 wf' adm'
    simp only [HbfDec.run_cons, List.flatten_cons, List.map_cons]
    refine ⟨?_, ?_, i3, i4.trans t', i5.trans bm', ?_⟩
    · rw [i1, decSpec_append o _ _ _ _ _ wf.taps_pos a1 a2 hb.1, HbfDec.process_out o d wf b hb,
        HbfDec.process_abs o d wf b hb, t']
    · rw [i2, HbfDec.process_abs o d wf b hb, t', decNext_append _ _ _ _ _ a1 a2 hb.1]
    · rw [i6, HbfDec.process_out o d wf b hb, decSpec_length o _ _ _ _ wf.taps_pos a1 a2]


/-! ### interpolator -/

theorem intNext_nil (m : Nat) (h : List α) (h1 : h.length = 2 * m - 1) : intNext m h [] = h := by
  simp [intNext, lastN_of_length_le, h1]

theorem intNext_append (m : Nat) (h b1 b2 : List α) (h1 : h.length = 2 * m - 1) :
    intNext m (intNext m h b1) b2 = intNext m h (b1 ++ b2) := by
  simp only [intNext, ← List.append_assoc]
  rw [lastN_lastN_append _ _ _ (by simp [h1])]

theorem intSpec_nil (o : Ops α) (taps h : List α) : hbfIntSpec o taps h [] = [] := by
  cases hw : List.map (firTap o taps) (windows (2 * taps.length) (h ++ [])) <;> simp [hbfIntSpec, interleave]

/-- feed a list of input blocks one after the other to `HbfInt::process_block` -/
def HbfInt.run (o : Ops α) (d : HbfInt α) (bs : List (List α)) : HbfInt α × List (List α) :=
  runG (HbfInt.process o) d bs

theorem HbfInt.run_nil (o : Ops α) (d : HbfInt α) : d.run o [] = (d, []) := rfl
theorem HbfInt.run_cons (o : Ops α) (d : HbfInt α) (b : List α) (bs : List (List α)) :
    d.run o (b :: bs) = (((d.process o b).1.run o bs).1, (d.process o b).2 :: ((d.process o b).1.run o bs).2) := rfl

theorem HbfInt.process_wf (o : Ops α) (d : HbfInt α) (wf : d.WF) (x : List α) (adm : d.Adm x) :
    (d.process o x).1.WF := by
  obtain ⟨h1, h2⟩ := HbfInt.process_frame o d wf x adm
  obtain ⟨hm, hge⟩ := wf
  exact ⟨by rw [h1]; exact hm, by rw [h1, h2]; exact hge⟩

theorem HbfInt.process_blockMax (o : Ops α) (d : HbfInt α) (wf : d.WF) (x : List α) (adm : d.Adm x) :
    (d.process o x).1.blockMax = d.blockMax := by
  obtain ⟨h1, h2⟩ := HbfInt.process_frame o d wf x adm
  simp only [HbfInt.blockMax, h1, h2]

theorem HbfInt.run_spec (o : Ops α) (d : HbfInt α) (wf : d.WF) (bs : List (List α))
    (adm : ∀ b ∈ bs, d.Adm b) :
    (d.run o bs).2.flatten = hbfIntSpec o d.fir.taps d.abs bs.flatten ∧
    (d.run o bs).1.abs = intNext d.fir.taps.length d.abs bs.flatten ∧
    (d.run o bs).1.WF ∧ (d.run o bs).1.fir.taps = d.fir.taps ∧ (d.run o bs).1.blockMax = d.blockMax ∧
    (d.run o bs).2.map List.length = bs.map (fun b => 2 * b.length) := by
  induction bs generalizing d with
  | nil =>
    have a1 := d.abs_length wf
    simp [HbfInt.run_nil, intSpec_nil, intNext_nil _ _ a1, wf]
  | cons b bs ih =>
    have hb := adm b (by simp)
    have a1 := d.abs_length wf
    have wf' := HbfInt.process_wf o d wf b hb
    have bm' := HbfInt.process_blockMax o d wf b hb
    obtain ⟨t', _⟩ := HbfInt.process_frame o d wf b hb
    have adm' : ∀ b' ∈ bs, (d.process o b).1.Adm b' := by
      intro b' hb'
      have := adm b' (by simp [hb'])
      simpa only [HbfInt.Adm, bm'] using this
    obtain ⟨i1, i2, i3, i4, i5, i6⟩ := ih (d.process o b).1 wf' adm'
    simp only [HbfInt.run_cons, List.flatten_cons, List.map_cons]
    refine ⟨?_, ?_, i3, i4.trans t', i5.trans bm', ?_⟩
    · rw [i1, intSpec_append o _ _ _ _ wf.taps_pos a1, HbfInt.process_out o d wf b hb,
        HbfInt.process_abs o d wf b hb, t']
    · rw [i2, HbfInt.process_abs o d wf b hb, t', intNext_append _ _ _ _ a1]
    · rw [i6, HbfInt.process_out o d wf b hb, intSpec_length o _ _ _ wf.taps_pos a1]

end Idsp
