import IdspModel.Model.Lowpass
import IdspModel.Model.Num
import IdspModel.Model.Biquad
import IdspModel.Model.Cossin
import IdspModel.Model.Sweep
/-! Model of the small glue types: `src/filter.rs` (`Nyquist`, `Repeat<N, Lowpass<1>>`, `Cascade`), the
    `Biquad` helpers `forward_gain` / `input_offset` / `set_input_offset`, and `AccuOsc<Sweep>`. -/
namespace Idsp

/-- `Nyquist::update`: `x >> 1` plus the previous halved sample (wrapping); returns (new state, y) -/
def nyquistUpdate (st x : Int) : Int × Int :=
  let h := shr x 1
  (h, wrapI 32 (h + st))

/-- `Repeat<N, Lowpass<1>>::update`: the stages in series, all with the same gain -/
def repeatLp1Update (m : Mode) : List Int → Int → Int → R (List Int × Int)
  | [], x, _ => .ok ([], x)
  | s :: ss, x, k => do
    let (s', y) ← lp1Update m s x k
    let (ss', z) ← repeatLp1Update m ss y k
    .ok (s' :: ss', z)

/-- `Cascade<Lowpass<1>, Nyquist>::update` -/
def cascadeLp1NyqUpdate (m : Mode) (s n x k : Int) : R (Int × Int × Int) := do
  let (s', y) ← lp1Update m s x k
  let (n', z) := nyquistUpdate n y
  .ok (s', n', z)

/-- `Biquad::<T>::forward_gain()`: plain `b0 + b1 + b2` on the sample type -/
def biquadForwardGain (m : Mode) (w : Nat) (c : BiquadCfg) : R Int := do
  let a ← arithI m w "biquad.rs:338 ba[0] + ba[1]" (c.b0 + c.b1)
  arithI m w "biquad.rs:338 + ba[2]" (a + c.b2)

/-- `input_offset() = u.div_scaled(forward_gain())` -/
def biquadInputOffset (m : Mode) (w q : Nat) (c : BiquadCfg) : R Int := do
  let g ← biquadForwardGain m w c
  divScaled w q c.u g

/-- `set_input_offset(offset)`: `u = offset.mul_scaled(forward_gain())`; returns the new `u` -/
def biquadSetInputOffset (m : Mode) (w q : Nat) (c : BiquadCfg) (offset : Int) : R Int := do
  let g ← biquadForwardGain m w c
  mulScaled m w q offset g

/-- `AccuOsc<Sweep>::next`: returns (new sweep state, new phase accumulator, re, im) -/
def accuOscNext (m : Mode) (rate sweepState phase : Int) : R (Int × Int × Int × Int) := do
  let (sw', f) ← sweepNext m rate sweepState
  let ph' := wrapI 64 (phase + f)
  let (re, im) ← cossin m (wrapI 32 (shr phase 32))
  .ok (sw', ph', re, im)

end Idsp
