import IdspModel.Model.Hbf
/-! List helpers for the half-band filter proofs (core Lean only): `evens`/`odds`, `windows`, `lastN`. -/
namespace Idsp
variable {α : Type}

/-- the last `n` items of a list (the whole list if it is shorter) -/
def lastN (n : Nat) (l : List α) : List α := l.drop (l.length - n)

theorem lastN_length (n : Nat) (l : List α) : (lastN n l).length = min n l.length := by
  simp [lastN]; omega

theorem evens_length (x : List α) : (evens x).length = x.length / 2 := by
  fun_induction evens x with
  | case1 a b t ih => simp [ih]; omega
  | case2 x h =>
    match x with
    | [] => simp
    | [a] => simp
    | a :: b :: t => exact absurd rfl (h a b t)

theorem odds_length (x : List α) : (odds x).length = x.length / 2 := by
  fun_induction odds x with
  | case1 a b t ih => simp [ih]; omega
  | case2 x h =>
    match x with
    | [] => simp
    | [a] => simp
    | a :: b :: t => exact absurd rfl (h a b t)

theorem evens_getElem (x : List α) (i : Nat) (h : i < (evens x).length) :
    (evens x)[i] = x[2 * i]'(by rw [evens_length] at h; omega) := by
  induction i generalizing x with
  | zero =>
    match x, h with
    | a :: b :: t, _ => simp [evens]
  | succ i ih =>
    match x, h with
    | a :: b :: t, h =>
      simp only [evens, List.getElem_cons_succ, Nat.mul_add, Nat.mul_one]
      exact ih t _

theorem odds_getElem (x : List α) (i : Nat) (h : i < (odds x).length) :
    (odds x)[i] = x[2 * i + 1]'(by rw [odds_length] at h; omega) := by
  induction i generalizing x with
  | zero =>
    match x, h with
    | a :: b :: t, _ => simp [odds]
  | succ i ih =>
    match x, h with
    | a :: b :: t, h =>
      simp only [odds, List.getElem_cons_succ, Nat.mul_add, Nat.mul_one]
      exact ih t _

theorem evens_append (a b : List α) (h : a.length % 2 = 0) : evens (a ++ b) = evens a ++ evens b := by
  fun_induction evens a with
  | case1 x y t ih => simp [evens]; apply ih; simp at h; omega
  | case2 x hx =>
    match x with
    | [] => simp
    | [a] => simp at h
    | a :: b :: t => exact absurd rfl (hx a b t)

theorem odds_append (a b : List α) (h : a.length % 2 = 0) : odds (a ++ b) = odds a ++ odds b := by
  fun_induction odds a with
  | case1 x y t ih => simp [odds]; apply ih; simp at h; omega
  | case2 x hx =>
    match x with
    | [] => simp
    | [a] => simp at h
    | a :: b :: t => exact absurd rfl (hx a b t)

theorem windows_of_short (n : Nat) (l : List α) (h : l.length < n) : windows n l = [] := by
  cases l with
  | nil => rfl
  | cons x xs => rw [windows, if_pos h]

theorem windows_cons_of_le (n : Nat) (x : α) (xs : List α) (h : n ≤ (x :: xs).length) :
    windows n (x :: xs) = (x :: xs).take n :: windows n xs := by
  rw [windows, if_neg (by omega)]

theorem windows_length (n : Nat) (hn : 0 < n) (l : List α) : (windows n l).length = l.length + 1 - n := by
  induction l with
  | nil => simp [windows]; omega
  | cons x xs ih =>
    by_cases h : (x :: xs).length < n
    · rw [windows_of_short n _ h]; simp at h ⊢; omega
    · rw [windows_cons_of_le n x xs (by omega)]; simp [ih] at h ⊢; omega

theorem windows_drop (n : Nat) (l : List α) (j : Nat) :
    (windows n l).drop j = windows n (l.drop j) := by
  induction j generalizing l with
  | zero => simp
  | succ j ih =>
    cases l with
    | nil => simp [windows]
    | cons x xs =>
      by_cases h : (x :: xs).length < n
      · rw [windows_of_short n _ h, windows_of_short]; · simp
        simp at h ⊢; omega
      · rw [windows_cons_of_le n x xs (by omega)]; simp [ih]

theorem windows_take (n : Nat) (hn : 0 < n) (l : List α) (j : Nat) (h : j + n ≤ l.length + 1) :
    (windows n l).take j = windows n (l.take (j + n - 1)) := by
  induction j generalizing l with
  | zero =>
    rw [windows_of_short n (List.take (0 + n - 1) l)]
    · simp
    · simp; omega
  | succ j ih =>
    cases l with
    | nil => simp at h; omega
    | cons x xs =>
      simp at h
      rw [windows_cons_of_le n x xs (by simp; omega)]
      have e : j + 1 + n - 1 = (j + n - 1) + 1 := by omega
      rw [e, List.take_succ_cons, List.take_succ_cons,
        windows_cons_of_le n x (List.take (j + n - 1) xs) (by simp; omega), ih xs (by omega)]
      congr 1
      rw [← List.take_succ_cons, List.take_take]
      congr 1; omega

theorem windows_getElem (n : Nat) (hn : 0 < n) (l : List α) (i : Nat) (h : i < (windows n l).length) :
    (windows n l)[i] = (l.drop i).take n := by
  induction l generalizing i with
  | nil => simp [windows] at h
  | cons x xs ih =>
    have hl := windows_length n hn (x :: xs)
    have hw := windows_cons_of_le n x xs (by omega)
    cases i with
    | zero => simp [hw]
    | succ i =>
      simp only [hw, List.getElem_cons_succ, List.drop_succ_cons]
      apply ih

end Idsp
