import IdspModel.Lemmas.PidGl
import IdspModel.Rust
/-!
# `PidBuilder::build` without gain limits: exact feedback kernel in every coefficient type

The coefficient type `C` is abstract: a type `γ` with `gzero`, `gadd`, `gmulInt` (product of a small integer kernel
entry with a coefficient) and an arbitrary `quantize : K → γ`.  Only the laws in `PidCoeffLaws` and
`quantize 0 = gzero` are used; `one` is *defined* as `quantize 1` (`C::ONE`, i.e. `1.0` resp. `1 << Q`).
-/
namespace Idsp

/-- the algebraic facts about the coefficient type used by the exact-kernel theorems (all trivial for the
    integers and for the floats) -/
structure PidCoeffLaws {γ : Type} (gzero : γ) (gadd : γ → γ → γ) (gmulInt : Int → γ → γ) : Prop where
  zero_add : ∀ x, gadd gzero x = x
  add_zero : ∀ x, gadd x gzero = x
  mul_zero : ∀ k, gmulInt k gzero = gzero
  zero_mul : ∀ x, gmulInt 0 x = gzero
  one_mul : ∀ x, gmulInt 1 x = x

/-- the integers (un-wrapped fixed point values) satisfy the laws -/
theorem pidCoeffLaws_int : PidCoeffLaws (0 : Int) (· + ·) (fun k x => k * x) where
  zero_add := Int.zero_add
  add_zero := Int.add_zero
  mul_zero := Int.mul_zero
  zero_mul := Int.zero_mul
  one_mul := Int.one_mul

/-- any field (exact "float") satisfies the laws -/
theorem pidCoeffLaws_field (K : Type) [Field K] : PidCoeffLaws (0 : K) (· + ·) (fun k x => (k : K) * x) where
  zero_add := zero_add
  add_zero := add_zero
  mul_zero := fun _ => mul_zero _
  zero_mul := fun x => by simp
  one_mul := fun x => by simp

variable {K : Type} [Field K] {γ : Type}

section
variable {quantize : K → γ} {gzero : γ} {gadd : γ → γ → γ} {gmulInt : Int → γ → γ}

/-- order P, no limits: `[b0,b1,b2,a1,a2] = [G0 + G1 + G2, -G1 - 2 G2, G2, 0, 0]` -/
theorem pidBuild_noLimit_P (laws : PidCoeffLaws gzero gadd gmulInt) (hq0 : quantize 0 = gzero)
    (period : K) (hp : period ≠ 0) (k0 k1 k2 k3 k4 : K) :
    pidBuild (fieldOps K) quantize gzero gadd gmulInt period 2 [k0, k1, k2, k3, k4] [none, none, none, none, none] =
      (gadd (gadd (quantize k2) (quantize (k3 / period))) (quantize (k4 / period ^ 2)),
       gadd (gmulInt (-1) (quantize (k3 / period))) (gmulInt (-2) (quantize (k4 / period ^ 2))),
       quantize (k4 / period ^ 2), gzero, gzero) := by
  rw [pidBuild_unfold _ _ _ _ _ _ _ _ _ _ _ _ _ _ _ (pidGl_order_P period hp k0 k1 k2 k3 k4 _ _ _ _ _)]
  simp [fieldOps, hq0, laws.zero_add, laws.mul_zero, laws.zero_mul, laws.one_mul]

/-- order I, no limits -/
theorem pidBuild_noLimit_I (laws : PidCoeffLaws gzero gadd gmulInt) (hq0 : quantize 0 = gzero)
    (period : K) (hp : period ≠ 0) (k0 k1 k2 k3 k4 : K) :
    pidBuild (fieldOps K) quantize gzero gadd gmulInt period 1 [k0, k1, k2, k3, k4] [none, none, none, none, none] =
      (gadd (gadd (quantize (k1 * period)) (quantize k2)) (quantize (k3 / period)),
       gadd (gmulInt (-1) (quantize k2)) (gmulInt (-2) (quantize (k3 / period))),
       quantize (k3 / period), gmulInt (-1) (quantize 1), gzero) := by
  rw [pidBuild_unfold _ _ _ _ _ _ _ _ _ _ _ _ _ _ _ (pidGl_order_I period hp k0 k1 k2 k3 k4 _ _ _ _ _)]
  simp [fieldOps, hq0, laws.zero_add, laws.add_zero, laws.mul_zero, laws.zero_mul, laws.one_mul]

/-- order I2, no limits -/
theorem pidBuild_noLimit_I2 (laws : PidCoeffLaws gzero gadd gmulInt) (hq0 : quantize 0 = gzero)
    (period : K) (k0 k1 k2 k3 k4 : K) :
    pidBuild (fieldOps K) quantize gzero gadd gmulInt period 0 [k0, k1, k2, k3, k4] [none, none, none, none, none] =
      (gadd (gadd (quantize (k0 * period ^ 2)) (quantize (k1 * period))) (quantize k2),
       gadd (gmulInt (-1) (quantize (k1 * period))) (gmulInt (-2) (quantize k2)),
       quantize k2, gmulInt (-2) (quantize 1), quantize 1) := by
  rw [pidBuild_unfold _ _ _ _ _ _ _ _ _ _ _ _ _ _ _ (pidGl_order_I2 period k0 k1 k2 k3 k4 _ _ _ _ _)]
  simp [fieldOps, hq0, laws.zero_add, laws.mul_zero, laws.zero_mul, laws.one_mul]

end

/-- `ONE = 2^q`, `-ONE`, `-2·ONE = -2^(q+1)` are all representable in the signed `q+2`-bit type (`-2·ONE` is its
    `MIN`), so the integer products `kernel · ONE` of the code do not overflow -/
theorem kernel_representable (q : Nat) :
    inI (q + 2) (2 ^ q) = true ∧ inI (q + 2) (-(2 ^ q)) = true ∧ inI (q + 2) (-2 * 2 ^ q) = true ∧
    -2 * 2 ^ q = minI (q + 2) := by
  have h : (2 : Int) ^ (q + 2 - 1) = 2 * 2 ^ q := by
    rw [show q + 2 - 1 = q + 1 by omega, Int.pow_succ]; omega
  have hpos : (0 : Int) < 2 ^ q := Int.pow_pos (by omega)
  simp only [inI, minI, h, Bool.and_eq_true, decide_eq_true_eq]
  omega

end Idsp
