import IdspModel.Lemmas.Lp2BigAbs
import IdspModel.Lemmas.Lp2BigSafe
import IdspModel.Lemmas.Lp2Sat
/-!
# Second-order lowpass, large steps: from the model to the hand-off region

`lp2_big_model`: for every documented Butterworth pair, levels within `±2^30` and a step of size in
`(3·2^28, 2^31]` from a start state with small velocity, the saturating plain map stays in the `i64` box until some
index `n1`, at which the state lies in the sector-safe region `V ≤ bgVH`, `|Ē| ≤ bgRH` of the new level.
-/
namespace Idsp
set_option linter.unusedVariables false

theorem bg_ST_le {k a b e0 : Int} (h : Lp2Butter k a b) (he0 : 2 * a * 4294967296 * 804782080 ≤ e0)
    (he1 : e0 ≤ 2 * a * 4294967296 * 2148007936) :
    bgST a b e0 ≤ bgRH a ∧ bgST a b e0 ≤ 2 * a * 4611686018427387904 ∧ 0 ≤ bgST a b e0 ∧
    bgEmax a b e0 ≤ e0 + 2 * a * 4294967296 * 371846 ∧ 0 ≤ bgThr a b ∧ bgThr a b ≤ bgRH a := by
  have ha := h.a_ge; have hbg := h.b_ge; have h4 := h.four_a_le; have hba := lp2_b_le_a h
  have hb0 : 0 < b := by omega
  obtain ⟨-, -, hS00, -, -, -, hS0T, -, hX, hSTb', -⟩ := bg_basic h he0
  have hST0 : 0 ≤ bgST a b e0 := le_trans hS00 hS0T
  have hbST : b * bgST a b e0 ≤ b * (2 * a * 4294967296 * 1073676285) := by
    have h1 : 1000 * (b * bgST a b e0) ≤ 1003 * (a * e0) + 1000 * b := by linarith
    have h2 : a * e0 ≤ a * (2 * a * 4294967296 * 2148007936) := mul_le_mul_of_nonneg_left he1 (by omega)
    -- 1003·a·(2aM·2148007936) + 1000 b ≤ 1000·b·2aM·1073676285 since 4a ≤ b+2
    have h3 : 1003 * (a * (2 * a * 4294967296 * 2148007936)) + 1000 * b
        ≤ 1000 * (b * (2 * a * 4294967296 * 1073676285)) := by
      have e1 : 4 * a * (a * 4294967296) ≤ (b + 2) * (a * 4294967296) :=
        mul_le_mul_of_nonneg_right h4 (by positivity)
      have hbam : 0 ≤ b * (a * 4294967296) := by positivity
      nlinarith
    linarith
  have hSTRH : bgST a b e0 ≤ bgRH a := by
    unfold bgRH; exact le_of_mul_le_mul_left hbST hb0
  have hq : b * (4294967296 * bgS0 a / b) ≤ 4294967296 * bgS0 a := by
    have := Int.ediv_mul_le (4294967296 * bgS0 a) (show b ≠ 0 by omega); linarith
  have hq2 : 4294967296 * bgS0 a / b ≤ 2 * a * 4294967296 * 371845 := by
    have : b * (4294967296 * bgS0 a / b) ≤ b * (2 * a * 4294967296 * 371845) := by
      unfold bgS0 at hq ⊢
      have : 92404 * (2 * a * 4294967296 * 371845) ≤ b * (2 * a * 4294967296 * 371845) :=
        mul_le_mul_of_nonneg_right hbg (by positivity)
      nlinarith
    exact le_of_mul_le_mul_left this hb0
  refine ⟨hSTRH, ?_, hST0, ?_, ?_, ?_⟩
  · unfold bgRH at hSTRH; nlinarith
  · unfold bgEmax; nlinarith
  · unfold bgThr; positivity
  · unfold bgThr bgRH; nlinarith

/-- raw position of a state whose signed centred error lies in `[0, 2a·2^32·(|x−xo| + 896134)]` -/
theorem bg_phase_box {a b x xo sg s0 e : Int} (ha : 0 < a) (hb : 0 ≤ b) (hba : b ≤ 131072 * a)
    (hsg : sg = 1 ∨ sg = -1)
    (hx0 : -1073741824 ≤ x) (hx1 : x ≤ 1073741824) (ho0 : -1073741824 ≤ xo) (ho1 : xo ≤ 1073741824)
    (hd0 : 0 ≤ sg * (x - xo)) (hd1 : sg * (x - xo) ≤ 2147483648)
    (he : e = sg * lp2Eb a b x s0) (h0 : 0 ≤ e)
    (h1 : e ≤ 2 * a * 4294967296 * (sg * (x - xo) + 896134)) :
    -9223372036854775808 ≤ s0 ∧ s0 < 9223372036854775808 ∧
    -2148532224 ≤ x - s0 / 4294967296 ∧ x - s0 / 4294967296 ≤ 2148532223 := by
  have ha2 : (0 : Int) < 2 * a := by omega
  have hab : (a + b) * 4294967296 ≤ 2 * a * (65537 * 4294967296) := by nlinarith
  have hab0 : 0 ≤ (a + b) * 4294967296 := by positivity
  unfold lp2Eb at he
  rcases hsg with rfl | rfl
  · -- upward: 0 ≤ 2a(xM − s0) + (a+b)M ≤ 2aM(x − xo + 896134)
    have u1 : 2 * a * (x * 4294967296 - s0) ≤ 2 * a * ((x - xo + 896134) * 4294967296) := by nlinarith
    have u2 : 2 * a * (-(65537 * 4294967296)) ≤ 2 * a * (x * 4294967296 - s0) := by nlinarith
    have g1 := le_of_mul_le_mul_left u1 ha2
    have g2 := le_of_mul_le_mul_left u2 ha2
    refine ⟨by omega, by omega, by omega, by omega⟩
  · have u1 : 2 * a * (-((xo - x + 896134 + 65537) * 4294967296)) ≤ 2 * a * (x * 4294967296 - s0) := by nlinarith
    have u2 : 2 * a * (x * 4294967296 - s0) ≤ 2 * a * 0 := by nlinarith
    have g1 := le_of_mul_le_mul_left u1 ha2
    have g2 := le_of_mul_le_mul_left u2 ha2
    refine ⟨by omega, by omega, by omega, by omega⟩

/-- the approach phase of a large step, on the model's raw states -/
theorem lp2_big_model {k a b x xo sg : Int} (h : Lp2Butter k a b)
    (hsg : sg = 1 ∨ sg = -1)
    (hx0 : -1073741824 ≤ x) (hx1 : x ≤ 1073741824) (ho0 : -1073741824 ≤ xo) (ho1 : xo ≤ 1073741824)
    (hd0 : 805306368 < sg * (x - xo)) (hd1 : sg * (x - xo) ≤ 2147483648)
    (st : Int × Int) (hst : Lp2Start2 a b xo st) :
    ∃ n1 : Nat, (∀ j, j ≤ n1 → Lp2BoxS (lp2SeqS x a (-b) j st)) ∧
      Lp2Inv2 a b x (bgVH a b) (bgRH a) (lp2SeqS x a (-b) n1 st) := by
  have ha := h.a_ge; have hbg := h.b_ge; have hbl := h.b_le; have hba := lp2_b_le_a h
  have ha0 : 0 < a := by omega
  have hb0 : 0 < b := by omega
  obtain ⟨⟨hsettled, hEo0, hEo1⟩, hso0, hso1⟩ := hst
  -- the centred sequences
  set e : Nat → Int := fun n => sg * lp2Eb a b x (lp2SeqS x a (-b) n st).1 with he
  set s : Nat → Int := fun n => sg * (2 * a * (lp2SeqS x a (-b) n st).2) with hs
  have hshift : lp2Eb a b x st.1 = lp2Eb a b xo st.1 + 2 * a * ((x - xo) * 4294967296) := by
    unfold lp2Eb; ring
  have he0eq : e 0 = sg * lp2Eb a b xo st.1 + 2 * a * (sg * (x - xo) * 4294967296) := by
    simp only [he, lp2SeqS]; rw [hshift]; ring
  have hsgE : -(a * 4294967296 * 1048576) ≤ sg * lp2Eb a b xo st.1 ∧ sg * lp2Eb a b xo st.1 ≤ a * 4294967296 * 1048576 := by
    rcases hsg with rfl | rfl <;> constructor <;> linarith
  have he0lo : 2 * a * 4294967296 * 804782080 ≤ e 0 := by
    rw [he0eq]
    have : 2 * a * (805306369 * 4294967296) ≤ 2 * a * (sg * (x - xo) * 4294967296) := by nlinarith
    nlinarith [hsgE.1]
  have he0hi : e 0 ≤ 2 * a * 4294967296 * 2148007936 := by
    rw [he0eq]
    have : 2 * a * (sg * (x - xo) * 4294967296) ≤ 2 * a * (2147483648 * 4294967296) := by nlinarith
    nlinarith [hsgE.2]
  have hs0b : -bgS0 a ≤ s 0 ∧ s 0 ≤ bgS0 a := by
    simp only [hs, lp2SeqS]
    rcases hsg with rfl | rfl <;> constructor <;> linarith
  obtain ⟨hSTRH, hST62, hST0, hEmaxle, hthr0, hthrRH⟩ := bg_ST_le h he0lo he0hi
  obtain ⟨hUC0, hthr, hS00, -, -, -, hS0T, -, -, -, -⟩ := bg_basic h he0lo
  have hEmaxD : bgEmax a b (e 0) ≤ 2 * a * 4294967296 * (sg * (x - xo) + 896134) := by
    have h1 := hEmaxle
    rw [he0eq] at h1 ⊢
    nlinarith [hsgE.2]
  have hdpos : 0 ≤ sg * (x - xo) := by omega
  -- raw bounds and the recursion while the signed error is in [0, Emax]
  have hraw : ∀ n, 0 ≤ e n → e n ≤ bgEmax a b (e 0) →
      -9223372036854775808 ≤ (lp2SeqS x a (-b) n st).1 ∧ (lp2SeqS x a (-b) n st).1 < 9223372036854775808 ∧
      -2148532224 ≤ x - (lp2SeqS x a (-b) n st).1 / 4294967296 ∧
      x - (lp2SeqS x a (-b) n st).1 / 4294967296 ≤ 2148532223 :=
    fun n hn0 hn1 => bg_phase_box ha0 (by omega) hba hsg hx0 hx1 ho0 ho1 hdpos hd1 rfl hn0 (le_trans hn1 hEmaxD)
  have hrel : ∀ n, bgUC a b ≤ a * e n → e n ≤ bgEmax a b (e 0) →
      Lp2Rel a b (bgUC a b) (e n) (s n) (e (n + 1)) (s (n + 1)) := by
    intro n hn0 hn1
    have hen0 : 0 ≤ e n := by
      by_contra hc
      have hc' : e n ≤ -1 := by omega
      have : a * e n ≤ a * (-1) := mul_le_mul_of_nonneg_left hc' (le_of_lt ha0)
      linarith
    obtain ⟨-, -, r0, r1⟩ := hraw n hen0 hn1
    obtain ⟨c0, c1⟩ := lp2_clip_le (x := x) (s0 := (lp2SeqS x a (-b) n st).1) (C := 1048576) (by norm_num)
      (by linarith [r0]) (by linarith [r1])
    have hR := lp2_centered_recS x a b 1048576 (lp2SeqS x a (-b) n st) ha0 hb0 (by norm_num) c0 c1
    have hU : lp2U a b + 2 * a ^ 2 * 1048576 * 4294967296 = bgUC a b := rfl
    rw [hU] at hR
    simp only [he, hs, lp2SeqS_succ]
    rcases hsg with rfl | rfl
    · simpa using hR
    · have := hR.neg
      simpa using this
  -- the approach phase
  obtain ⟨n1, hn1pos, hphase, hlow, hend, hsl, hsu, hVn1, hVn1'⟩ :=
    lp2_big_abstract h e s he0lo he0hi hs0b.1 hs0b.2 hrel
  have hA := h.adm
  obtain ⟨hRV, hVHlow⟩ := bg_VH_spec' h
  -- the state at n1 lies in the hand-off region
  have hQsg : ∀ n, lp2V a b x (lp2SeqS x a (-b) n st) = lp2Q a b (e n) (s n) := by
    intro n
    simp only [he, hs, lp2V]
    rcases hsg with rfl | rfl
    · simp
    · rw [show (-1 : Int) * lp2Eb a b x (lp2SeqS x a (-b) n st).1 = -(lp2Eb a b x (lp2SeqS x a (-b) n st).1) by ring,
        show (-1 : Int) * (2 * a * (lp2SeqS x a (-b) n st).2) = -(2 * a * (lp2SeqS x a (-b) n st).2) by ring,
        lp2Q_neg]
  have hen1lo : -bgRH a ≤ e n1 := by
    obtain ⟨hp0, hp1, hp2, hp3, hprel⟩ := hphase (n1 - 1) (by omega)
    have hsum := hprel.sum
    rw [show n1 - 1 + 1 = n1 by omega] at hsum hprel
    have hsec := lp2_sector_lower' (a := a) (b := b) (E := e (n1 - 1)) (s := s (n1 - 1)) (E' := e n1) (s' := s n1)
      (R := bgRH a) (SB := bgST a b (e 0)) (Vmax := bgVH a b) ha0 (by have := h.two_a_lt; omega) (by omega)
      (by unfold bgRH; positivity) hSTRH hp3 hRV hVn1' hVn1 hsum
    rcases hsec with h1 | h1
    · exact h1
    · omega
  have hInv : Lp2Inv2 a b x (bgVH a b) (bgRH a) (lp2SeqS x a (-b) n1 st) := by
    refine ⟨by rw [hQsg]; exact hVn1, ?_, ?_⟩
    · have h2 : e n1 ≤ bgRH a := by omega
      simp only [he] at hen1lo h2
      rcases hsg with rfl | rfl <;> linarith
    · have h2 : e n1 ≤ bgRH a := by omega
      simp only [he] at hen1lo h2
      rcases hsg with rfl | rfl <;> linarith
  refine ⟨n1, fun j hj => ?_, hInv⟩
  rcases Nat.lt_or_ge j n1 with hjlt | hjge
  · obtain ⟨hp0, hp1, hp2, hp3, -⟩ := hphase j hjlt
    obtain ⟨r0, r1, -, -⟩ := hraw j (by omega) hp1
    have hs62 : -(2 * a * 4611686018427387904) ≤ s j ∧ s j ≤ 2 * a * 4611686018427387904 := by
      constructor <;> linarith
    simp only [hs] at hs62
    have ha2 : (0 : Int) < 2 * a := by omega
    refine ⟨r0, r1, ?_, ?_⟩
    · rcases hsg with rfl | rfl
      · have : 2 * a * (-4611686018427387904) ≤ 2 * a * (lp2SeqS x a (-b) j st).2 := by linarith [hs62.1]
        exact le_of_mul_le_mul_left this ha2
      · have : 2 * a * (-4611686018427387904) ≤ 2 * a * (lp2SeqS x a (-b) j st).2 := by linarith [hs62.2]
        exact le_of_mul_le_mul_left this ha2
    · rcases hsg with rfl | rfl
      · have : 2 * a * (lp2SeqS x a (-b) j st).2 ≤ 2 * a * 4611686018427387904 := by linarith [hs62.2]
        exact le_of_mul_le_mul_left this ha2
      · have : 2 * a * (lp2SeqS x a (-b) j st).2 ≤ 2 * a * 4611686018427387904 := by linarith [hs62.1]
        exact le_of_mul_le_mul_left this ha2
  · have hjeq : j = n1 := by omega
    subst hjeq
    obtain ⟨SB, G, hR0, hSB0, hG, hxg0, hxg1, -, hSs, -, hEG, hSG, -⟩ := bg_safe2 h hx0 hx1
    obtain ⟨hbx, -, -⟩ := lp2_box_of_inv2 (lp2SeqS x a (-b) j st) (bgRH a) SB G (bgVH a b) ha0 hA.hD hb0 hSB0 hG
      hxg0 hxg1 hSs hEG hSG hInv
    exact ⟨hbx.1, hbx.2.1, hbx.2.2.2.2.1, hbx.2.2.2.2.2⟩

end Idsp
