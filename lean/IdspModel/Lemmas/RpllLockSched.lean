import IdspModel.Lemmas.RpllSched
import Mathlib.Tactic.Ring
import Mathlib.Tactic.Linarith
/-! Arithmetic of the noise-free schedule: which updates receive an edge, how many edges after `n` updates. -/
namespace Idsp

/-- stepping the numerator by `0 < D < P`: the quotient grows by one exactly when the new remainder is `< D` -/
theorem ediv_step (a D P : Int) (hD : 0 < D) (hDP : D < P) :
    ((a + D) / P = a / P + 1 ∧ (a + D) % P = a % P + D - P ∧ (a + D) % P < D) ∨
    ((a + D) / P = a / P ∧ (a + D) % P = a % P + D ∧ D ≤ (a + D) % P) := by
  have hP : 0 < P := by omega
  have e := Int.emod_add_mul_ediv a P
  have r0 := Int.emod_nonneg a (show P ≠ 0 by omega)
  have r1 := Int.emod_lt_of_pos a hP
  by_cases hc : a % P + D < P
  · right
    have h1 : (a + D) / P = a / P := by
      rw [Int.ediv_eq_iff_of_pos hP]; constructor <;> nlinarith
    have h2 := Int.emod_add_mul_ediv (a + D) P
    rw [h1] at h2
    exact ⟨h1, by linarith, by linarith⟩
  · left
    have h1 : (a + D) / P = a / P + 1 := by
      rw [Int.ediv_eq_iff_of_pos hP]; constructor <;> nlinarith
    have h2 := Int.emod_add_mul_ediv (a + D) P
    rw [h1] at h2
    exact ⟨h1, by linarith, by linarith⟩

/-- floor is superadditive -/
theorem ediv_add_ge (b L P : Int) (hP : 0 < P) : b / P + L / P ≤ (b + L) / P := by
  rw [Int.le_ediv_iff_mul_le hP]
  have e1 := Int.emod_add_mul_ediv b P
  have e2 := Int.emod_add_mul_ediv L P
  have := Int.emod_nonneg b (show P ≠ 0 by omega)
  have := Int.emod_nonneg L (show P ≠ 0 by omega)
  nlinarith

/-- numerator of the schedule at (integer) update index `k`: ticks since the reference edge `off` -/
def RpllCfg.num (c : RpllCfg) (k : Int) : Int := 2 ^ c.d * k - c.off

/-- number of edges handed out by the first `n` updates -/
def RpllCfg.cnt (c : RpllCfg) : Nat → Nat
  | 0 => 0
  | n + 1 => c.cnt n + (if (c.sched n).isSome then 1 else 0)

/-- the most recent reference edge at or before update `k` -/
def RpllCfg.lastEdge (c : RpllCfg) (k : Int) : Int := 2 ^ c.d * k - c.num k % c.P

theorem rpllSched_eq (c : RpllCfg) (k : Nat) :
    c.sched k = if c.num k % c.P < 2 ^ c.d then some (wrapI 32 (c.lastEdge k)) else none := rfl

theorem rpll_num_succ (c : RpllCfg) (k : Int) : c.num (k + 1) = c.num k + 2 ^ c.d := by
  unfold RpllCfg.num; ring

theorem rpll_lastEdge_eq (c : RpllCfg) (k : Int) : c.lastEdge k = c.off + c.P * (c.num k / c.P) := by
  unfold RpllCfg.lastEdge
  have := Int.emod_add_mul_ediv (c.num k) c.P
  unfold RpllCfg.num at *
  linarith

/-- an update that receives an edge: the edge is exactly one period after the previous one -/
theorem rpll_edge_some (c : RpllCfg) (hDP : 2 ^ c.d < c.P) (k : Int) (h : c.num (k + 1) % c.P < 2 ^ c.d) :
    c.lastEdge (k + 1) = c.lastEdge k + c.P ∧ c.num (k + 1) / c.P = c.num k / c.P + 1 := by
  rw [rpll_lastEdge_eq, rpll_lastEdge_eq]
  rw [rpll_num_succ] at h ⊢
  rcases ediv_step (c.num k) (2 ^ c.d) c.P (by positivity) hDP with ⟨h1, -, -⟩ | ⟨-, -, h3⟩
  · rw [h1]; exact ⟨by ring, rfl⟩
  · omega

/-- an update that receives nothing: the most recent edge is unchanged -/
theorem rpll_edge_none (c : RpllCfg) (hDP : 2 ^ c.d < c.P) (k : Int) (h : ¬ c.num (k + 1) % c.P < 2 ^ c.d) :
    c.lastEdge (k + 1) = c.lastEdge k ∧ c.num (k + 1) / c.P = c.num k / c.P := by
  rw [rpll_lastEdge_eq, rpll_lastEdge_eq]
  rw [rpll_num_succ] at h ⊢
  rcases ediv_step (c.num k) (2 ^ c.d) c.P (by positivity) hDP with ⟨-, -, h3⟩ | ⟨h1, -, -⟩
  · omega
  · rw [h1]; exact ⟨rfl, rfl⟩

/-- the edge count is a difference of floors -/
theorem rpll_cnt_eq (c : RpllCfg) (hDP : 2 ^ c.d < c.P) (n : Nat) :
    (c.cnt n : Int) = c.num ((n : Int) - 1) / c.P - c.num (-1) / c.P := by
  induction n with
  | zero => simp [RpllCfg.cnt]
  | succ n ih =>
    simp only [RpllCfg.cnt, rpllSched_eq]
    have e : ((n + 1 : Nat) : Int) - 1 = ((n : Int) - 1) + 1 := by push_cast; ring
    rw [e]
    have e2 : c.num (n : Int) = c.num (((n : Int) - 1) + 1) := by congr 1; ring
    by_cases h : c.num (n : Int) % c.P < 2 ^ c.d
    · have := (rpll_edge_some c hDP ((n : Int) - 1) (by rw [← e2]; exact h)).2
      simp only [h, if_true, Option.isSome_some]
      push_cast; omega
    · have := (rpll_edge_none c hDP ((n : Int) - 1) (by rw [← e2]; exact h)).2
      simp only [h, if_false, Option.isSome_none]
      push_cast
      omega

/-- at least `⌊2^d·n / P⌋` edges in `n` updates -/
theorem rpll_cnt_ge (c : RpllCfg) (hDP : 2 ^ c.d < c.P) (n : Nat) : 2 ^ c.d * (n : Int) / c.P ≤ c.cnt n := by
  rw [rpll_cnt_eq c hDP n]
  have hP : 0 < c.P := lt_trans (by positivity) hDP
  have := ediv_add_ge (c.num (-1)) (2 ^ c.d * (n : Int)) c.P hP
  have e : c.num (-1) + 2 ^ c.d * (n : Int) = c.num ((n : Int) - 1) := by unfold RpllCfg.num; ring
  rw [e] at this
  omega

end Idsp
