import IdspModel.Lemmas.CoeffGain
import IdspModel.Lemmas.CoeffStab
import IdspModel.Lemmas.CoeffQuant
/-!
# C09 — the biquad coefficient builders (`src/iir/coefficients.rs`) produce the filter they are named after

Model: `IdspModel/Model/Coeff.lean` instantiated at the real numbers (`realOps`, exact arithmetic; IEEE rounding
and libm are not modelled).  The model contains the repair of `Shape::Slope` (`qi` uses `√shelf`, not `gain`).

Conventions: a builder returns `((b0,b1,b2),(a0,a1,a2))`; `tf ba z` is
`H(z) = (b0 + b1 z⁻¹ + b2 z⁻²)/(a0 + a1 z⁻¹ + a2 z⁻²)`, `polyZi p zi = p0 + p1 zi + p2 zi²`; DC is `z = 1`, Nyquist is
`z = −1`, the critical frequency is `z = ejw w0 = e^{j w0}` with `w0 = 2π f0 ∈ (0, π)`; "`Q`" is `1/qi` for whichever
shape parametrisation is used.  Property theorems only (helper lemmas live in `IdspModel/Lemmas/Coeff*.lean`).
-/
namespace Idsp
open Real Complex

/-- the hypotheses of C09: `0 < w0 < π` (i.e. `0 < f0 < 0.5`), shelf gain `> 0`, and a shape parameter giving
    `qi > 0`.  The pass-band `gain` is NOT constrained (any sign, see the individual theorems). -/
structure FilterCfg.Valid (f : FilterCfg ℝ) : Prop where
  w_pos : 0 < f.frequency
  w_lt : f.frequency < π
  shelf_pos : 0 < f.shelf
  qi_pos : 0 < f.qi realOps

/-- `0 < f0 < 0.5` is `0 < w0 = 2π f0 < π` -/
theorem w0_mem (f0 : ℝ) (h0 : 0 < f0) (h1 : f0 < 1 / 2) : 0 < 2 * π * f0 ∧ 2 * π * f0 < π := by
  have := Real.pi_pos
  constructor
  · positivity
  · nlinarith

/-! ### the hypotheses are met by the three shape parametrisations -/

/-- `Shape::Q(Q)` with `Q > 0` -/
theorem valid_q (w g sh Q : ℝ) (h0 : 0 < w) (hp : w < π) (hsh : 0 < sh) (hQ : 0 < Q) :
    (FilterCfg.mk w g sh (.q Q)).Valid :=
  ⟨h0, hp, hsh, qi_pos_q w g sh Q hQ⟩

/-- `Shape::Bandwidth(bw)` with `bw > 0` (uses `w0 / sin w0 > 0` on `(0, π)`) -/
theorem valid_bandwidth (w g sh bw : ℝ) (h0 : 0 < w) (hp : w < π) (hsh : 0 < sh) (hbw : 0 < bw) :
    (FilterCfg.mk w g sh (.bandwidth bw)).Valid :=
  ⟨h0, hp, hsh, qi_pos_bandwidth w g sh bw h0 hp hbw⟩

/-- `Shape::Slope(s)` with `s > 0`: `qi > 0` holds EXACTLY when `s (√shelf − 1)² < shelf + 1`, i.e. when the
    radicand `(A + 1/A)(1/s − 1) + 2`, `A = √shelf`, is positive … -/
theorem valid_slope_iff (w g sh s : ℝ) (h0 : 0 < w) (hp : w < π) (hsh : 0 < sh) (hs : 0 < s) :
    (FilterCfg.mk w g sh (.slope s)).Valid ↔ s * (√sh - 1) ^ 2 < sh + 1 :=
  ⟨fun h => (qi_pos_slope_iff' w g sh s hsh hs).mp h.qi_pos,
   fun h => ⟨h0, hp, hsh, (qi_pos_slope_iff' w g sh s hsh hs).mpr h⟩⟩

/-- … the same condition in the form of the cookbook radicand -/
theorem valid_slope_iff_radicand (w g sh s : ℝ) (h0 : 0 < w) (hp : w < π) (hsh : 0 < sh) :
    (FilterCfg.mk w g sh (.slope s)).Valid ↔ 0 < (√sh + 1 / √sh) * (1 / s - 1) + 2 :=
  ⟨fun h => (qi_pos_slope_iff w g sh s).mp h.qi_pos, fun h => ⟨h0, hp, hsh, (qi_pos_slope_iff w g sh s).mpr h⟩⟩

/-- … which always holds for slopes `0 < s ≤ 1` (PARTIAL: the property text asks for every slope `> 0`, see
    `valid_slope_full` below) -/
theorem valid_slope_partial (w g sh s : ℝ) (h0 : 0 < w) (hp : w < π) (hsh : 0 < sh) (hs : 0 < s) (hs1 : s ≤ 1) :
    (FilterCfg.mk w g sh (.slope s)).Valid :=
  ⟨h0, hp, hsh, qi_pos_slope_le_one w g sh s hsh hs hs1⟩

/-- the statement as literally asked ("slope > 0" suffices) … -/
def valid_slope_full : Prop :=
  ∀ w g sh s : ℝ, 0 < w → w < π → 0 < sh → 0 < s → (FilterCfg.mk w g sh (.slope s)).Valid

/-- … is FALSE: `shelf = 100` (+40 dB), slope `2`: `2·(10 − 1)² = 162 ≥ 101`; the radicand is negative there
    (`−0.525`: NaN coefficients in floating point, `qi = 0` over `ℝ`). -/
theorem valid_slope_full_false : ¬ valid_slope_full := by
  intro h
  have hv := h 1 1 100 2 one_pos (by linarith [Real.two_le_pi]) (by norm_num) (by norm_num)
  have h10 : √(100 : ℝ) = 10 := by
    rw [show (100 : ℝ) = 10 ^ 2 by norm_num, Real.sqrt_sq (by norm_num)]
  have := (valid_slope_iff 1 1 100 2 one_pos (by linarith [Real.two_le_pi]) (by norm_num) (by norm_num)).mp hv
  rw [h10] at this
  norm_num at this

/-- the radicand is strictly negative exactly when `s (√shelf − 1)² > shelf + 1` -/
theorem slope_radicand_neg (sh s : ℝ) (hsh : 0 < sh) (hs : 0 < s) :
    (√sh + 1 / √sh) * (1 / s - 1) + 2 < 0 ↔ sh + 1 < s * (√sh - 1) ^ 2 := by
  rw [slope_radicand_neg_iff _ _ (Real.sqrt_pos.mpr hsh) hs, Real.sq_sqrt hsh.le]

/-- non-vacuity: concrete valid configurations of each shape, with negative gain too -/
example : (FilterCfg.mk (π / 2) (-3) 4 (.slope (1 / 2))).Valid :=
  valid_slope_partial _ _ _ _ (by positivity) (by linarith [Real.pi_pos]) (by norm_num) (by norm_num) (by norm_num)
example : (FilterCfg.mk (2 * π * (1 / 10)) 1000 1 (.q (1 / 2))).Valid :=
  valid_q _ _ _ _ (w0_mem _ (by norm_num) (by norm_num)).1 (w0_mem _ (by norm_num) (by norm_num)).2
    (by norm_num) (by norm_num)
example : (FilterCfg.mk 1 2 (1 / 10) (.bandwidth 2)).Valid :=
  valid_bandwidth _ _ _ _ (by norm_num) (by linarith [Real.two_le_pi]) (by norm_num) (by norm_num)

/-! ### 1. the defining response values, per filter type -/

/-- meaning of `polyZi` on the unit circle in real and imaginary parts (`c = cos w`, `s = sin w`):
    `p0 + p1 e^{-jw} + p2 e^{-2jw} = (p0 + p1 c + p2 (2c² − 1)) − j (p1 s + 2 p2 s c)` -/
theorem polyZi_on_circle (p : ℝ × ℝ × ℝ) (w : ℝ) :
    polyZi p (ejw w)⁻¹ =
      ((p.1 + p.2.1 * Real.cos w + p.2.2 * (2 * Real.cos w ^ 2 - 1) : ℝ) : ℂ)
        - ((p.2.1 * Real.sin w + 2 * p.2.2 * Real.sin w * Real.cos w : ℝ) : ℂ) * I :=
  polyZi_ejw p w

/-- lowpass: DC gain is `gain`; the numerator vanishes at Nyquist (and the denominator does not);
    at the critical frequency `H = −j·gain/qi = −j·gain·Q`, so `|H(f0)| = |gain|·Q`. -/
theorem lowpass_response (f : FilterCfg ℝ) (h : f.Valid) :
    tf (f.lowpass realOps) 1 = (f.gain : ℂ) ∧
    polyZi (f.lowpass realOps).1 (-1) = 0 ∧ polyZi (f.lowpass realOps).2 (-1) ≠ 0 ∧
    tf (f.lowpass realOps) (ejw f.frequency) = -I * ((f.gain / f.qi realOps : ℝ) : ℂ) ∧
    ‖tf (f.lowpass realOps) (ejw f.frequency)‖ = |f.gain| / f.qi realOps :=
  ⟨lowpass_dc f h.w_pos h.w_lt, lowpass_nyquist_num f, lowpass_nyquist_den f h.w_pos h.w_lt,
   lowpass_w0 f h.w_pos h.w_lt h.qi_pos, lowpass_w0_norm f h.w_pos h.w_lt h.qi_pos⟩

/-- highpass (mirror image): Nyquist gain is `gain`; the numerator vanishes at DC (the denominator does not);
    at the critical frequency `H = +j·gain/qi`, `|H(f0)| = |gain|·Q`. -/
theorem highpass_response (f : FilterCfg ℝ) (h : f.Valid) :
    tf (f.highpass realOps) (-1) = (f.gain : ℂ) ∧
    polyZi (f.highpass realOps).1 1 = 0 ∧ polyZi (f.highpass realOps).2 1 ≠ 0 ∧
    tf (f.highpass realOps) (ejw f.frequency) = I * ((f.gain / f.qi realOps : ℝ) : ℂ) ∧
    ‖tf (f.highpass realOps) (ejw f.frequency)‖ = |f.gain| / f.qi realOps :=
  ⟨highpass_nyquist f h.w_pos h.w_lt, highpass_dc_num f, highpass_dc_den f h.w_pos h.w_lt,
   highpass_w0 f h.w_pos h.w_lt h.qi_pos, highpass_w0_norm f h.w_pos h.w_lt h.qi_pos⟩

/-- bandpass: numerator zero (denominator non-zero) at DC and at Nyquist; `H(e^{j w0}) = gain` exactly. -/
theorem bandpass_response (f : FilterCfg ℝ) (h : f.Valid) :
    polyZi (f.bandpass realOps).1 1 = 0 ∧ polyZi (f.bandpass realOps).2 1 ≠ 0 ∧
    polyZi (f.bandpass realOps).1 (-1) = 0 ∧ polyZi (f.bandpass realOps).2 (-1) ≠ 0 ∧
    tf (f.bandpass realOps) (ejw f.frequency) = (f.gain : ℂ) ∧
    ‖tf (f.bandpass realOps) (ejw f.frequency)‖ = |f.gain| :=
  ⟨bandpass_dc_num f, bandpass_dc_den f h.w_pos h.w_lt, bandpass_nyquist_num f,
   bandpass_nyquist_den f h.w_pos h.w_lt, bandpass_w0 f h.w_pos h.w_lt h.qi_pos,
   bandpass_w0_norm f h.w_pos h.w_lt h.qi_pos⟩

/-- notch: `gain` at DC and Nyquist; the numerator `b0 + b1 e^{-jw0} + b2 e^{-2jw0}` is exactly zero at the
    critical frequency while the denominator is not. -/
theorem notch_response (f : FilterCfg ℝ) (h : f.Valid) :
    tf (f.notch realOps) 1 = (f.gain : ℂ) ∧ tf (f.notch realOps) (-1) = (f.gain : ℂ) ∧
    polyZi (f.notch realOps).1 (ejw f.frequency)⁻¹ = 0 ∧ polyZi (f.notch realOps).2 (ejw f.frequency)⁻¹ ≠ 0 ∧
    tf (f.notch realOps) (ejw f.frequency) = 0 :=
  ⟨notch_dc f h.w_pos h.w_lt, notch_nyquist f h.w_pos h.w_lt, notch_w0_num f,
   notch_w0_den f h.w_pos h.w_lt h.qi_pos, notch_w0 f⟩

/-- allpass: `|H(e^{jw})| = |gain|` at EVERY frequency `w`; moreover `H = gain` at DC and Nyquist and
    `H = −gain` (phase π) at the critical frequency. -/
theorem allpass_response (f : FilterCfg ℝ) (h : f.Valid) :
    (∀ w : ℝ, ‖tf (f.allpass realOps) (ejw w)‖ = |f.gain|) ∧
    tf (f.allpass realOps) 1 = (f.gain : ℂ) ∧ tf (f.allpass realOps) (-1) = (f.gain : ℂ) ∧
    tf (f.allpass realOps) (ejw f.frequency) = -(f.gain : ℂ) :=
  ⟨allpass_norm_all f h.w_pos h.w_lt h.qi_pos, allpass_dc f h.w_pos h.w_lt, allpass_nyquist f h.w_pos h.w_lt,
   allpass_w0 f h.w_pos h.w_lt h.qi_pos⟩

/-- peaking: `gain` at DC and Nyquist, `gain·shelf` (exactly, zero phase) at the critical frequency. -/
theorem peaking_response (f : FilterCfg ℝ) (h : f.Valid) :
    tf (f.peaking realOps) 1 = (f.gain : ℂ) ∧ tf (f.peaking realOps) (-1) = (f.gain : ℂ) ∧
    tf (f.peaking realOps) (ejw f.frequency) = ((f.gain * f.shelf : ℝ) : ℂ) ∧
    ‖tf (f.peaking realOps) (ejw f.frequency)‖ = |f.gain| * f.shelf :=
  ⟨peaking_dc f h.w_pos h.w_lt, peaking_nyquist f h.w_pos h.w_lt,
   peaking_w0 f h.w_pos h.w_lt h.qi_pos h.shelf_pos, peaking_w0_norm f h.w_pos h.w_lt h.qi_pos h.shelf_pos⟩

/-- low shelf: DC gain `gain·shelf`, Nyquist gain `gain` (no condition on `qi`). -/
theorem lowshelf_response (f : FilterCfg ℝ) (h0 : 0 < f.frequency) (hp : f.frequency < π) (hsh : 0 < f.shelf) :
    tf (f.lowshelf realOps) 1 = ((f.gain * f.shelf : ℝ) : ℂ) ∧ tf (f.lowshelf realOps) (-1) = (f.gain : ℂ) :=
  ⟨lowshelf_dc f h0 hp hsh, lowshelf_nyquist f h0 hp hsh⟩

/-- high shelf: DC gain `gain`, Nyquist gain `gain·shelf` (no condition on `qi`). -/
theorem highshelf_response (f : FilterCfg ℝ) (h0 : 0 < f.frequency) (hp : f.frequency < π) (hsh : 0 < f.shelf) :
    tf (f.highshelf realOps) 1 = (f.gain : ℂ) ∧ tf (f.highshelf realOps) (-1) = ((f.gain * f.shelf : ℝ) : ℂ) :=
  ⟨highshelf_dc f h0 hp hsh, highshelf_nyquist f h0 hp hsh⟩

/-- I/HO: the denominator vanishes at `z = 1` (`a0 + a1 + a2 = 0`) while the numerator does not (for
    `gain ≠ 0`): a genuine pole exactly at DC; the Nyquist gain is `gain·shelf`. -/
theorem iho_response (f : FilterCfg ℝ) (h0 : 0 < f.frequency) (hp : f.frequency < π) (hsh : 0 < f.shelf) :
    polyZi (f.iho realOps).2 1 = 0 ∧ (f.gain ≠ 0 → polyZi (f.iho realOps).1 1 ≠ 0) ∧
    tf (f.iho realOps) (-1) = ((f.gain * f.shelf : ℝ) : ℂ) :=
  ⟨iho_dc_den f, iho_dc_num f h0 hp, iho_nyquist f h0 hp hsh⟩

/-! ### 2. stability -/

/-- Jury's criterion, proved once: for real `a0 > 0`, `|a2| < a0`, `|a1| < a0 + a2`, every complex root of
    `a0 z² + a1 z + a2` has `|z| < 1`. -/
theorem jury_roots_in_disc' (a0 a1 a2 : ℝ) (h0 : 0 < a0) (h2 : |a2| < a0) (h1 : |a1| < a0 + a2) (z : ℂ)
    (hz : (a0 : ℂ) * z ^ 2 + (a1 : ℂ) * z + (a2 : ℂ) = 0) : ‖z‖ < 1 :=
  jury_roots_in_disc a0 a1 a2 h0 h2 h1 z hz

/-- every builder except I/HO (type index `< 8`: lowpass, highpass, bandpass, allpass, notch, peaking, lowshelf,
    highshelf) meets the Jury conditions `a0 > 0`, `|a2| < a0`, `|a1| < a0 + a2` … -/
theorem build_jury (f : FilterCfg ℝ) (h : f.Valid) (typ : Nat) (ht : typ < 8) : Jury (f.build realOps typ).2 := by
  obtain ⟨h0, hp, hsh, hq⟩ := h
  match typ, ht with
  | 0, _ => exact jury_lowpass f h0 hp hq
  | 1, _ => exact jury_highpass f h0 hp hq
  | 2, _ => exact jury_bandpass f h0 hp hq
  | 3, _ => exact jury_allpass f h0 hp hq
  | 4, _ => exact jury_notch f h0 hp hq
  | 5, _ => exact jury_peaking f h0 hp hq hsh
  | 6, _ => exact jury_lowshelf f h0 hp hq hsh
  | 7, _ => exact jury_highshelf f h0 hp hq hsh

/-- … hence both poles (the roots of `a0 z² + a1 z + a2`) are strictly inside the unit circle, and the
    denominator of `H` has no zero on or outside it (so every `tf` value above is a genuine quotient). -/
theorem build_poles_in_disc (f : FilterCfg ℝ) (h : f.Valid) (typ : Nat) (ht : typ < 8) (z : ℂ) :
    (((f.build realOps typ).2.1 : ℂ) * z ^ 2 + ((f.build realOps typ).2.2.1 : ℂ) * z
        + ((f.build realOps typ).2.2.2 : ℂ) = 0 → ‖z‖ < 1) ∧
    (1 ≤ ‖z‖ → polyZi (f.build realOps typ).2 z⁻¹ ≠ 0) :=
  ⟨(build_jury f h typ ht).roots z, (build_jury f h typ ht).den_ne_zero z⟩

/-- I/HO: `a0 > 0`, `|a2| < a0`, and every root of the denominator is either the integrator pole `z = 1` or the
    real pole `z = a2/a0`, which is strictly inside the unit circle. -/
theorem iho_poles' (f : FilterCfg ℝ) (h0 : 0 < f.frequency) (hp : f.frequency < π) (hsh : 0 < f.shelf) (z : ℂ)
    (hz : (((f.iho realOps).2.1 : ℝ) : ℂ) * z ^ 2 + (((f.iho realOps).2.2.1 : ℝ) : ℂ) * z
      + (((f.iho realOps).2.2.2 : ℝ) : ℂ) = 0) :
    0 < (f.iho realOps).2.1 ∧ |(f.iho realOps).2.2.2| < (f.iho realOps).2.1 ∧
    (z = 1 ∨ (z = (((f.iho realOps).2.2.2 / (f.iho realOps).2.1 : ℝ) : ℂ) ∧ ‖z‖ < 1)) :=
  iho_poles f h0 hp hsh z hz

/-! ### 3. the gain is a pure output scale -/

/-- for every builder (all nine type indices) and every shape (`Q`, `Bandwidth`, `Slope`) and every real `k`
    (negative and zero included): replacing `gain` by `k·gain` multiplies `b0, b1, b2` by `k` and leaves
    `a0, a1, a2` (hence the poles) unchanged.  No hypothesis at all. -/
theorem build_gain_scale (f : FilterCfg ℝ) (k : ℝ) (typ : Nat) :
    FilterCfg.build realOps { f with gain := k * f.gain } typ =
      ((k * (f.build realOps typ).1.1, k * (f.build realOps typ).1.2.1, k * (f.build realOps typ).1.2.2),
       (f.build realOps typ).2) :=
  build_gain_scale_aux f k typ

/-- in particular the sign flip: `gain ↦ −gain` negates the feed-forward coefficients only -/
theorem build_gain_neg (f : FilterCfg ℝ) (typ : Nat) :
    FilterCfg.build realOps { f with gain := -f.gain } typ =
      ((-(f.build realOps typ).1.1, -(f.build realOps typ).1.2.1, -(f.build realOps typ).1.2.2),
       (f.build realOps typ).2) := by
  have := build_gain_scale f (-1) typ
  simpa using this

/-- documentation of the repaired defect: with the ORIGINAL Rust formula
    `qi = sqrt((gain + 1/gain)(1/s − 1) + 2)` (`qi_slope_original`, used by `lowshelfOriginal`) the poles DO move
    with the gain: `shelf = 4`, slope `1/2`, `w0 = π/2`, gain `1` versus `2` give different `a1/a0`. -/
theorem slope_original_poles_move :
    let r1 := (FilterCfg.mk (π / 2) 1 4 (.slope (1 / 2))).lowshelfOriginal
    let r2 := (FilterCfg.mk (π / 2) 2 4 (.slope (1 / 2))).lowshelfOriginal
    r1.2.2.1 / r1.2.1 ≠ r2.2.2.1 / r2.2.1 :=
  qi_slope_original_poles_move

/-- … and for a negative gain with slope `< 1/2` its radicand is negative (NaN in floating point) -/
theorem slope_original_radicand_neg (g s : ℝ) (hg : g < 0) (hs : 0 < s) (hs2 : s < 1 / 2) :
    (g + 1 / g) * (1 / s - 1) + 2 < 0 :=
  qi_slope_original_radicand_neg g s hg hs hs2

/-! ### 4. conversion to a `Biquad`: normalisation by `a0` and rounding -/

/-- over `ℝ`, `Biquad::from` hands `b0/a0, b1/a0, b2/a0, a1/a0, a2/a0` to `quantize` -/
theorem biquadFromBa_div {γ : Type} (q : ℝ → γ) (ba : BA ℝ) :
    biquadFromBa realOps q ba =
      (q (ba.1.1 / ba.2.1), q (ba.1.2.1 / ba.2.1), q (ba.1.2.2 / ba.2.1), q (ba.2.2.1 / ba.2.1),
       q (ba.2.2.2 / ba.2.1)) :=
  biquadFromBa_eq q ba

/-- scaling all six coefficients by a common factor `c ≠ 0` leaves every argument of `quantize` unchanged
    (exact cancellation), so for ANY `quantize` the resulting `Biquad` is identical. (`a0 ≠ 0` is what the code
    needs for `recip`; the cancellation itself does not use it.) -/
theorem biquadFromBa_scale {γ : Type} (q : ℝ → γ) (c : ℝ) (hc : c ≠ 0) (ba : BA ℝ) (_ha0 : ba.2.1 ≠ 0) :
    biquadFromBa realOps q (scaleBA c ba) = biquadFromBa realOps q ba :=
  biquadFromBa_scale_aux q c hc ba

/-- the integer `quantize` (`round(v·2^Q)`, ties away from zero as Rust's `f64::round`) returns a nearest
    representable value: the error is at most half an LSB and no integer is closer. -/
theorem quantize_nearest (Q : Nat) (v : ℝ) :
    |((quantizeQ Q v : ℤ) : ℝ) - v * 2 ^ Q| ≤ 1 / 2 ∧
    ∀ n : ℤ, |((quantizeQ Q v : ℤ) : ℝ) - v * 2 ^ Q| ≤ |(n : ℝ) - v * 2 ^ Q| :=
  ⟨quantizeQ_err_aux Q v, fun n => rustRound_nearest _ n⟩

/-- two reals less than one LSB (`2^-Q`) apart quantise to integers at most 1 apart: a common scale factor,
    which in floating point perturbs the quotients by far less than an LSB, changes each coefficient by ≤ 1 LSB -/
theorem quantize_close (Q : Nat) (v v' : ℝ) (h : |v - v'| < 1 / 2 ^ Q) :
    |quantizeQ Q v - quantizeQ Q v'| ≤ 1 :=
  quantizeQ_close_aux Q v v' h

/-- instance: with the real integer quantiser, a common scale factor gives the identical `Biquad` -/
example (Q : Nat) (c : ℝ) (hc : c ≠ 0) (f : FilterCfg ℝ) (h : f.Valid) :
    biquadFromBa realOps (quantizeQ Q) (scaleBA c (f.lowpass realOps)) =
    biquadFromBa realOps (quantizeQ Q) (f.lowpass realOps) :=
  biquadFromBa_scale _ c hc _ (jury_lowpass f h.w_pos h.w_lt h.qi_pos).1.ne'

/-! ### 5. finite coefficients -/

/-- over `ℝ` every operation is total; the divisors that occur in the builders and in `Biquad::from` are non-zero
    under the hypotheses: `sin w0` (bandwidth shape), `√shelf` (peaking, slope shape), `2·shelf` (I/HO), and the
    leading denominator coefficient `a0 > 0` of every one of the nine builders. -/
theorem build_divisors_ne_zero (f : FilterCfg ℝ) (h : f.Valid) (typ : Nat) :
    Real.sin f.frequency ≠ 0 ∧ 0 < √f.shelf ∧ 2 * f.shelf ≠ 0 ∧ 0 < (f.build realOps typ).2.1 := by
  refine ⟨sin_ne_zero_of_mem h.w_pos h.w_lt, Real.sqrt_pos.mpr h.shelf_pos, by have := h.shelf_pos; positivity, ?_⟩
  by_cases ht : typ < 8
  · exact (build_jury f h typ ht).1
  · have : f.build realOps typ = f.iho realOps := by
      match typ, ht with
      | n + 8, _ => rfl
    rw [this, iho_eq]
    have hs := sin_pos_of_mem h.w_pos h.w_lt
    have hc := neg_one_lt_cos_of_mem h.w_pos h.w_lt
    have : 0 < 1 + f.cosR := by unfold FilterCfg.cosR; linarith
    have := h.shelf_pos
    positivity

end Idsp
