#!/bin/sh
# builds the compiled model driver and every REGISTERED property module (props.py: PROPS[*]["modules"], default
# [Cxx]); each Props module is its own root. Unregistered / in-progress files under Props/ are not built.
cd "$(dirname "$0")" || exit 1
mods=$(python3 - <<'PY'
import sys
sys.path.insert(0, "..")
from props import PROPS
seen = []
for pid, c in PROPS.items():
    for n in c.get("modules", [pid]):
        if n not in seen:
            seen.append(n)
print(" ".join("IdspModel.Props." + n for n in seen))
PY
)
exec lake build idsp_model $mods
