import IdspModel.Lemmas.PllStep
/-!
# PLL (C06): lock acquisition from an arbitrary state (assembly of the step counts)
-/
namespace Idsp

section
variable {k F : Int} (hk0 : 2 ^ 8 ≤ k) (hk1 : k < 2 ^ 31) (hF : inI 32 F = true)
include hk0 hk1 hF

theorem track_locked_of_locked (n : Nat) : ∀ {s : PLL}, Locked k F s → Locked k F (PLL.track k F n s) := by
  induction n with
  | zero => intro s h; exact h
  | succ n ih => intro s h; rw [track_succ]; exact ih (locked_feed hk0 hk1 hF h)

/-- frequency integrator locked after `33·P + 1` updates from any state -/
theorem track_freqLocked_of_any (s : PLL) {n : Nat} (hn : 33 * pllP k + 1 ≤ n) :
    FreqLocked F (PLL.track k F n s) := by
  unfold FreqLocked
  rw [track_g k F hF]
  exact freq_reach hk0 hk1 (g_range F s).1 (g_range F s).2 hn

/-- from ANY state (no range assumption is even needed: the residues are defined modulo `2^64`) the locked set
    is reached after `65·P + 3` updates, `P = ⌊2^31/k⌋ + 1`, and never left -/
theorem track_locked (s : PLL) {n : Nat} (hn : 65 * pllP k + 3 ≤ n) : Locked k F (PLL.track k F n s) := by
  rw [show n = (n - (65 * pllP k + 3)) + (1 + ((32 * pllP k + 1) + (33 * pllP k + 1))) by omega,
    track_add, track_add, track_add]
  have h1 := track_freqLocked_of_any hk0 hk1 hF s (n := 33 * pllP k + 1) (by omega)
  generalize PLL.track k F (33 * pllP k + 1) s = s1 at h1
  have ⟨hg, h2, hu⟩ := track_freqLocked (k := k) hF (32 * pllP k + 1) h1
  have hb := reach hk0 hk1 h1.1 h1.2 (u_range F k s1).1 (u_range F k s1).2 (n := 32 * pllP k + 1) (by omega)
  rw [← hu, ← hg] at hb
  generalize PLL.track k F (32 * pllP k + 1) s1 = s2 at h2 hb
  have h3 : Locked k F (PLL.track k F 1 s2) := locked_of_band hk0 hk1 hF h2 hb
  exact track_locked_of_locked hk0 hk1 hF _ h3

omit hF in
/-- the proved step count is below the bound claimed in C06 -/
theorem pllP_bound {n : Nat} (hn : 64 * (2 ^ 32 / k) + 64 ≤ (n : Int)) : 65 * pllP k + 5 ≤ n := by
  have hP := (pllP_spec hk0).2
  have h1 : (1 : Int) ≤ 2 ^ 31 / k := by
    rw [Int.le_ediv_iff_mul_le (by omega)]; omega
  have h2 : 2 * (2 ^ 31 / k) ≤ 2 ^ 32 / k := by
    rw [Int.le_ediv_iff_mul_le (by omega)]
    have := Int.ediv_mul_le (2 ^ 31) (show k ≠ 0 by omega)
    rw [Int.mul_assoc]; omega
  omega
end

/-- the `n` input samples following the sample `x` when the input phase advances by `F` per sample (wrapping) -/
def constFreqInputs (F : Int) : Int → Nat → List Int
  | _, 0 => []
  | x, n + 1 => wrapI 32 (x + F) :: constFreqInputs F (wrapI 32 (x + F)) n

/-- feeding a list of present samples with a fixed gain -/
def PLL.feedList (k : Int) (s : PLL) (xs : List Int) : PLL := xs.foldl (fun s x => s.update (some x) k) s

theorem feed_x (k F : Int) (s : PLL) : (s.feed k F).x = wrapI 32 (s.x + F) := rfl

theorem feedList_constFreq (k F : Int) (n : Nat) : ∀ s : PLL,
    s.feedList k (constFreqInputs F s.x n) = PLL.track k F n s := by
  induction n with
  | zero => intro s; rfl
  | succ n ih =>
    intro s
    rw [track_succ, ← ih (s.feed k F)]
    rfl

theorem constFreqInputs_length (F : Int) (n : Nat) : ∀ x, (constFreqInputs F x n).length = n := by
  induction n with
  | zero => intro x; rfl
  | succ n ih => intro x; simp [constFreqInputs, ih]

/-- the `i`-th following sample is `x + (i+1)·F` modulo `2^32` -/
theorem constFreqInputs_get (F : Int) (n : Nat) : ∀ (x : Int) (i : Nat) (hi : i < n),
    (constFreqInputs F x n)[i]'(by rw [constFreqInputs_length]; exact hi) = wrapI 32 (x + (i + 1) * F) := by
  induction n with
  | zero => intro x i hi; omega
  | succ n ih =>
    intro x i hi
    cases i with
    | zero => simp [constFreqInputs]
    | succ i =>
      simp only [constFreqInputs, List.getElem_cons_succ]
      rw [ih _ i (by omega), wrapI_add_wrapI_left]
      congr 1; push_cast; ring

theorem track_x (k F : Int) (n : Nat) : ∀ s : PLL, inI 32 s.x = true →
    (PLL.track k F n s).x = wrapI 32 (s.x + n * F) := by
  induction n with
  | zero => intro s hs; simp [PLL.track, wrapI_of_in (by decide) hs]
  | succ n ih =>
    intro s hs
    rw [track_succ, ih _ (by rw [feed_x]; exact wrapI_in (by decide) _), feed_x, wrapI_add_wrapI_left]
    congr 1; push_cast; ring
end Idsp
