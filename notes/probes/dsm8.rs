use idsp::*;
fn main() {
    let seq: [u32; 10] = [0x800000, 0xfb800000, 0x12800000, 0xd1800000, 0x51800000, 0x92800000, 0x7b800000, 0x80800000, 0x80000000, 0x80000000];
    let mut d = Dsm::<8>::default();
    for x in seq { let r = std::panic::catch_unwind(move || { let mut e = d; let y = e.update(x); (e, y) }); match r { Ok((e, y)) => { d = e; println!("{:#x} -> {}", x, y); } Err(_) => { println!("{:#x} -> PANIC", x); break; } } }
}
