import IdspModel.Model.Pll
import IdspModel.Lemmas.PllIter
/-!
# PLL (C06): the model's update in terms of the loop maps, and the locked set
-/
namespace Idsp

/-- all five fields inside their Rust types (`x, y0, f0 : i32`, `f, y : i64`) -/
def PLL.inRange (s : PLL) : Prop :=
  inI 32 s.x = true ∧ inI 32 s.y0 = true ∧ inI 32 s.f0 = true ∧ inI 64 s.f = true ∧ inI 64 s.y = true

instance (s : PLL) : Decidable s.inRange := by unfold PLL.inRange; infer_instance

/-- frequency residue `g = f − F·2^32 (mod 2^64)` w.r.t. the input increment `F` -/
def PLL.g (F : Int) (s : PLL) : Int := wrapI 64 (s.f - F * 2 ^ 32)
/-- phase residue `h = y − x·2^32 (mod 2^64)` -/
def PLL.h (s : PLL) : Int := wrapI 64 (s.y - s.x * 2 ^ 32)
/-- the value the phase integrator takes in the next update, after adding the updated frequency integrator
    (relative to the next input) -/
def PLL.u (F k : Int) (s : PLL) : Int :=
  wrapI 64 (s.h + s.g F + wrapI 32 (-(s.g F / 2 ^ 32)) * k)

/-- one update with a present sample whose phase advanced by `F` since the previous sample -/
def PLL.feed (k F : Int) (s : PLL) : PLL := s.update (some (wrapI 32 (s.x + F))) k

/-- `n` successive updates with input phase advancing by `F` per sample -/
def PLL.track (k F : Int) (n : Nat) (s : PLL) : PLL := (PLL.feed k F)^[n] s

theorem wrap32_step (x F : Int) (hF : inI 32 F = true) : wrapI 32 (wrapI 32 (x + F) - x) = F := by
  rw [inI_iff] at hF
  unfold wrapI; omega

/-- decoupling: the frequency residue evolves by `pllT k`, whatever the phase variables are -/
theorem feed_g (s : PLL) (F k : Int) (hF : inI 32 F = true) : (s.feed k F).g F = pllT k (s.g F) := by
  simp only [PLL.feed, PLL.update, PLL.g, pllT]
  rw [wrap32_step _ _ hF]
  have he : wrapI 32 (F - wrapI 32 (shr s.f 32)) = wrapI 32 (-(wrapI 64 (s.f - F * 2 ^ 32) / 2 ^ 32)) := by
    unfold wrapI shr; omega
  rw [he]
  generalize wrapI 32 (-(wrapI 64 (s.f - F * 2 ^ 32) / 2 ^ 32)) * k = d
  unfold wrapI; omega

/-- the phase residue evolves by `pllT k` applied to `u`; the output phase error is the high word in between -/
theorem feed_h (s : PLL) (F k : Int) (hF : inI 32 F = true) :
    (s.feed k F).h = pllT k (s.u F k) ∧
    wrapI 32 ((s.feed k F).y0 - (s.feed k F).x)
      = wrapI 32 (wrapI 64 (s.u F k + wrapI 32 (-(s.u F k / 2 ^ 32)) * k) / 2 ^ 32) := by
  simp only [PLL.feed, PLL.update, PLL.g, PLL.h, PLL.u, pllT]
  rw [wrap32_step _ _ hF]
  have he : wrapI 32 (F - wrapI 32 (shr s.f 32)) = wrapI 32 (-(wrapI 64 (s.f - F * 2 ^ 32) / 2 ^ 32)) := by
    unfold wrapI shr; omega
  rw [he]
  generalize wrapI 32 (-(wrapI 64 (s.f - F * 2 ^ 32) / 2 ^ 32)) * k = d
  generalize hx : wrapI 32 (s.x + F) = xn
  have hu : wrapI 64 (wrapI 64 (s.y - s.x * 2 ^ 32) + wrapI 64 (s.f - F * 2 ^ 32) + d)
      = wrapI 64 (wrapI 64 (s.y + wrapI 64 (s.f + d)) - xn * 2 ^ 32) := by
    subst hx; unfold wrapI; omega
  rw [hu]
  generalize hy1 : wrapI 64 (s.y + wrapI 64 (s.f + d)) = y1
  have hm : wrapI 32 (xn - wrapI 32 (shr y1 32)) = wrapI 32 (-(wrapI 64 (y1 - xn * 2 ^ 32) / 2 ^ 32)) := by
    unfold wrapI shr; omega
  rw [hm]
  generalize wrapI 32 (-(wrapI 64 (y1 - xn * 2 ^ 32) / 2 ^ 32)) * k = dy
  constructor
  · unfold wrapI; omega
  · unfold wrapI shr; omega

/-- the frequency output: its error is the change of the phase error -/
theorem feed_f0 (s : PLL) (F k : Int) :
    wrapI 32 ((s.feed k F).f0 - F)
      = wrapI 32 (wrapI 32 ((s.feed k F).y0 - (s.feed k F).x) - wrapI 32 (s.y0 - s.x)) := by
  simp only [PLL.feed, PLL.update]
  generalize wrapI 32 (shr _ 32) = yn
  unfold wrapI; omega

theorem g_range (F : Int) (s : PLL) : -2 ^ 63 ≤ s.g F ∧ s.g F < 2 ^ 63 := by
  unfold PLL.g wrapI; omega

theorem u_range (F k : Int) (s : PLL) : -2 ^ 63 ≤ s.u F k ∧ s.u F k < 2 ^ 63 := by
  unfold PLL.u; generalize s.h + _ + _ = z; unfold wrapI; omega

theorem track_succ (k F : Int) (n : Nat) (s : PLL) : PLL.track k F (n + 1) s = PLL.track k F n (s.feed k F) := by
  unfold PLL.track; rw [Function.iterate_succ_apply]

theorem track_succ' (k F : Int) (n : Nat) (s : PLL) : PLL.track k F (n + 1) s = (PLL.track k F n s).feed k F := by
  unfold PLL.track; rw [Function.iterate_succ_apply']

theorem track_add (k F : Int) (m n : Nat) (s : PLL) :
    PLL.track k F (m + n) s = PLL.track k F m (PLL.track k F n s) := by
  unfold PLL.track; rw [Function.iterate_add_apply]

theorem track_g (k F : Int) (hF : inI 32 F = true) (n : Nat) : ∀ s : PLL,
    (PLL.track k F n s).g F = (pllT k)^[n] (s.g F) := by
  induction n with
  | zero => intro s; rfl
  | succ n ih => intro s; rw [track_succ, ih, feed_g s F k hF, Function.iterate_succ_apply]

/-- frequency integrator at its fixed point -/
def FreqLocked (F : Int) (s : PLL) : Prop := 0 ≤ s.g F ∧ s.g F < 2 ^ 32

theorem u_of_freqLocked {F : Int} (k : Int) {s : PLL} (h : FreqLocked F s) :
    s.u F k = wrapI 64 (s.h + s.g F) := by
  have h0 : s.g F / 2 ^ 32 = 0 := by have := h.1; have := h.2; omega
  unfold PLL.u
  rw [h0]
  simp only [Int.neg_zero, show wrapI 32 0 = 0 by decide, Int.zero_mul, Int.add_zero]

theorem feed_freqLocked {k F : Int} (hF : inI 32 F = true) {s : PLL} (h : FreqLocked F s) :
    (s.feed k F).g F = s.g F ∧ FreqLocked F (s.feed k F) ∧
    (s.feed k F).u F k = pllPhi k (s.g F) (s.u F k) := by
  have hg : (s.feed k F).g F = s.g F := by rw [feed_g s F k hF, pllT_fix h.1 h.2]
  have hl : FreqLocked F (s.feed k F) := by unfold FreqLocked; rw [hg]; exact h
  refine ⟨hg, hl, ?_⟩
  rw [u_of_freqLocked k hl, hg, (feed_h s F k hF).1]
  rfl

theorem track_freqLocked {k F : Int} (hF : inI 32 F = true) (n : Nat) : ∀ {s : PLL}, FreqLocked F s →
    (PLL.track k F n s).g F = s.g F ∧ FreqLocked F (PLL.track k F n s) ∧
    (PLL.track k F n s).u F k = (pllPhi k (s.g F))^[n] (s.u F k) := by
  induction n with
  | zero => intro s h; exact ⟨rfl, h, rfl⟩
  | succ n ih =>
    intro s h
    have ⟨a, b, c⟩ := feed_freqLocked (k := k) hF h
    have ⟨a', b', c'⟩ := ih b
    rw [track_succ, Function.iterate_succ_apply]
    refine ⟨by rw [a', a], b', by rw [c', a, c]⟩


/-- the phase part of the locked set for a given value `m` of the phase-integrator high word:
    `h = m·(2^32 − 2k) + r` with `0 ≤ r < 2^32`, and the output phase error is `hi (h + k·m)` -/
def LockedAt (k : Int) (s : PLL) (m : Int) : Prop :=
  0 ≤ s.h - m * (2 ^ 32 - 2 * k) ∧ s.h - m * (2 ^ 32 - 2 * k) < 2 ^ 32 ∧
  wrapI 32 (s.y0 - s.x) = (s.h + k * m) / 2 ^ 32

/-- the locked set: frequency residue `g ∈ [0, 2^32)` (a fixed point of the frequency integrator) and phase
    residue of the form above with `m ∈ {c, c+1}`, `c = g / (2k)` -/
def Locked (k F : Int) (s : PLL) : Prop :=
  0 ≤ s.g F ∧ s.g F < 2 ^ 32 ∧ (LockedAt k s (s.g F / (2 * k)) ∨ LockedAt k s (s.g F / (2 * k) + 1))

instance (k F : Int) (s : PLL) : Decidable (Locked k F s) := by unfold Locked LockedAt; infer_instance

section
variable {k F : Int} (hk0 : 2 ^ 8 ≤ k) (hk1 : k < 2 ^ 31) (hF : inI 32 F = true)
include hk0 hk1 hF

/-- a frequency-locked state whose `u` is in the band is mapped into the locked set -/
theorem locked_of_band {s : PLL} (hf : FreqLocked F s) (hb : Band k (s.g F) (s.u F k)) :
    Locked k F (s.feed k F) := by
  have ⟨hg, hl, _⟩ := feed_freqLocked (k := k) hF hf
  have ⟨hh, hy⟩ := feed_h s F k hF
  have ⟨hc0, hc1, hc2⟩ := c_spec hk0 hf.1 (g := s.g F)
  have hg1 := hf.2
  have hcc := (kmul_env hk0 hk1 (s.g F / (2 * k))).1 hc0
  obtain ⟨hb0, hb1⟩ := hb
  refine ⟨hl.1, hl.2, ?_⟩
  rw [hg]
  unfold LockedAt
  rw [hh, hy, pllT_eq hk0 hk1 (by omega) (by omega)]
  have hm : s.u F k / 2 ^ 32 = s.g F / (2 * k) ∨ s.u F k / 2 ^ 32 = s.g F / (2 * k) + 1 := by omega
  have e1 : (s.g F / (2 * k)) * (2 ^ 32 - 2 * k) = (s.g F / (2 * k)) * 2 ^ 32 - 2 * (k * (s.g F / (2 * k))) := by ring
  have e2 : (s.g F / (2 * k) + 1) * (2 ^ 32 - 2 * k)
      = (s.g F / (2 * k) + 1) * 2 ^ 32 - 2 * (k * (s.g F / (2 * k))) - 2 * k := by ring
  have e3 : k * (s.g F / (2 * k) + 1) = k * (s.g F / (2 * k)) + k := by ring
  have e4 : -(s.g F / (2 * k)) * k = -(k * (s.g F / (2 * k))) := by ring
  have e5 : -(s.g F / (2 * k) + 1) * k = -(k * (s.g F / (2 * k))) - k := by ring
  rcases hm with hm | hm
  · left
    rw [hm, e1, show wrapI 32 (-(s.g F / (2 * k))) = -(s.g F / (2 * k)) by unfold wrapI; omega, e4]
    generalize k * (s.g F / (2 * k)) = kc at *
    refine ⟨by omega, by omega, ?_⟩
    unfold wrapI; omega
  · right
    rw [hm, e2, e3, show wrapI 32 (-(s.g F / (2 * k) + 1)) = -(s.g F / (2 * k) + 1) by unfold wrapI; omega, e5]
    generalize k * (s.g F / (2 * k)) = kc at *
    refine ⟨by omega, by omega, ?_⟩
    unfold wrapI; omega

omit hF in
/-- in the locked set the next `u` is in the band -/
theorem band_of_locked {s : PLL} (h : Locked k F s) : FreqLocked F s ∧ Band k (s.g F) (s.u F k) := by
  obtain ⟨hg0, hg1, hm⟩ := h
  have hf : FreqLocked F s := ⟨hg0, hg1⟩
  refine ⟨hf, ?_⟩
  have ⟨hc0, hc1, hc2⟩ := c_spec hk0 hg0 (g := s.g F)
  have hcc := (kmul_env hk0 hk1 (s.g F / (2 * k))).1 hc0
  rw [u_of_freqLocked k hf]
  unfold Band
  have e1 : (s.g F / (2 * k)) * (2 ^ 32 - 2 * k) = (s.g F / (2 * k)) * 2 ^ 32 - 2 * (k * (s.g F / (2 * k))) := by ring
  have e2 : (s.g F / (2 * k) + 1) * (2 ^ 32 - 2 * k)
      = (s.g F / (2 * k) + 1) * 2 ^ 32 - 2 * (k * (s.g F / (2 * k))) - 2 * k := by ring
  rcases hm with ⟨h0, h1, _⟩ | ⟨h0, h1, _⟩
  · rw [e1] at h0 h1
    generalize k * (s.g F / (2 * k)) = kc at *
    unfold wrapI; omega
  · rw [e2] at h0 h1
    generalize k * (s.g F / (2 * k)) = kc at *
    unfold wrapI; omega

/-- "and they stay there": the locked set is invariant -/
theorem locked_feed {s : PLL} (h : Locked k F s) : Locked k F (s.feed k F) := by
  have ⟨hf, hb⟩ := band_of_locked hk0 hk1 h
  exact locked_of_band hk0 hk1 hF hf hb

omit hF in
/-- phase bound inside the locked set: `0 ≤ error ≤ 2^31/k + 1` -/
theorem locked_phase {s : PLL} (h : Locked k F s) :
    0 ≤ wrapI 32 (s.y0 - s.x) ∧ wrapI 32 (s.y0 - s.x) ≤ 2 ^ 31 / k + 1 := by
  obtain ⟨hg0, hg1, hm⟩ := h
  have ⟨hc0, hc1, hc2⟩ := c_spec hk0 hg0 (g := s.g F)
  have hcc := (kmul_env hk0 hk1 (s.g F / (2 * k))).1 hc0
  have hq : s.g F / (2 * k) ≤ 2 ^ 31 / k := by
    rw [Int.le_ediv_iff_mul_le (by omega), Int.mul_comm]; omega
  have e1 : (s.g F / (2 * k)) * (2 ^ 32 - 2 * k) = (s.g F / (2 * k)) * 2 ^ 32 - 2 * (k * (s.g F / (2 * k))) := by ring
  have e2 : (s.g F / (2 * k) + 1) * (2 ^ 32 - 2 * k)
      = (s.g F / (2 * k) + 1) * 2 ^ 32 - 2 * (k * (s.g F / (2 * k))) - 2 * k := by ring
  have e3 : k * (s.g F / (2 * k) + 1) = k * (s.g F / (2 * k)) + k := by ring
  rcases hm with ⟨h0, h1, he⟩ | ⟨h0, h1, he⟩
  · rw [he]; rw [e1] at h0 h1
    generalize k * (s.g F / (2 * k)) = kc at *
    omega
  · rw [he, e3]; rw [e2] at h0 h1
    generalize k * (s.g F / (2 * k)) = kc at *
    omega

omit hk0 hk1 hF in
theorem wrap_hi_diff {A B : Int} (hA0 : 0 ≤ A) (hA1 : A < 2 ^ 62) (hB0 : 0 ≤ B) (hB1 : B < 2 ^ 62)
    (hd0 : -2 ^ 32 < A - B) (hd1 : A - B < 2 ^ 32) :
    -1 ≤ wrapI 32 (wrapI 32 (wrapI 64 A / 2 ^ 32) - B / 2 ^ 32) ∧
    wrapI 32 (wrapI 32 (wrapI 64 A / 2 ^ 32) - B / 2 ^ 32) ≤ 1 := by
  have h1 : wrapI 64 A = A := by unfold wrapI; omega
  have h2 : wrapI 32 (A / 2 ^ 32) = A / 2 ^ 32 := by unfold wrapI; omega
  rw [h1, h2]
  have h3 : -1 ≤ A / 2 ^ 32 - B / 2 ^ 32 ∧ A / 2 ^ 32 - B / 2 ^ 32 ≤ 1 := by omega
  generalize A / 2 ^ 32 - B / 2 ^ 32 = z at *
  unfold wrapI; omega

/-- frequency bound one step after a locked state -/
theorem locked_freq {s : PLL} (h : Locked k F s) :
    -1 ≤ wrapI 32 ((s.feed k F).f0 - F) ∧ wrapI 32 ((s.feed k F).f0 - F) ≤ 1 := by
  have ⟨hf, hb⟩ := band_of_locked hk0 hk1 h
  have hy := (feed_h s F k hF).2
  have hu := u_of_freqLocked k hf
  rw [feed_f0, hy]
  obtain ⟨hg0, hg1, hm⟩ := h
  obtain ⟨hb0, hb1⟩ := hb
  have ⟨hc0, hc1, hc2⟩ := c_spec hk0 hg0 (g := s.g F)
  have hcc := (kmul_env hk0 hk1 (s.g F / (2 * k))).1 hc0
  have hm' : s.u F k / 2 ^ 32 = s.g F / (2 * k) ∨ s.u F k / 2 ^ 32 = s.g F / (2 * k) + 1 := by omega
  have e1 : (s.g F / (2 * k)) * (2 ^ 32 - 2 * k) = (s.g F / (2 * k)) * 2 ^ 32 - 2 * (k * (s.g F / (2 * k))) := by ring
  have e2 : (s.g F / (2 * k) + 1) * (2 ^ 32 - 2 * k)
      = (s.g F / (2 * k) + 1) * 2 ^ 32 - 2 * (k * (s.g F / (2 * k))) - 2 * k := by ring
  have e3 : k * (s.g F / (2 * k) + 1) = k * (s.g F / (2 * k)) + k := by ring
  have e4 : -(s.g F / (2 * k)) * k = -(k * (s.g F / (2 * k))) := by ring
  have e5 : -(s.g F / (2 * k) + 1) * k = -(k * (s.g F / (2 * k))) - k := by ring
  have w1 : wrapI 32 (-(s.g F / (2 * k))) = -(s.g F / (2 * k)) := by unfold wrapI; omega
  have w2 : wrapI 32 (-(s.g F / (2 * k) + 1)) = -(s.g F / (2 * k) + 1) := by unfold wrapI; omega
  have hu' : s.u F k = s.h + s.g F := by
    rw [hu]
    rcases hm with ⟨h0, h1, _⟩ | ⟨h0, h1, _⟩
    · rw [e1] at h0 h1
      generalize k * (s.g F / (2 * k)) = kc at *
      unfold wrapI; omega
    · rw [e2] at h0 h1
      generalize k * (s.g F / (2 * k)) = kc at *
      unfold wrapI; omega
  rw [hu'] at hm' hb0 hb1 ⊢
  clear hu hu' hy
  rcases hm with ⟨h0, h1, he⟩ | ⟨h0, h1, he⟩ <;> rcases hm' with hm' | hm' <;>
  · rw [hm', he]
    try rw [w1, e4]
    try rw [w2, e5]
    try rw [e3]
    clear e4 e5 w1 w2
    try rw [e1] at h0 h1
    try rw [e2] at h0 h1
    generalize k * (s.g F / (2 * k)) = kc at *
    generalize s.g F = g at *
    generalize s.h = hh at *
    apply wrap_hi_diff <;> omega
end
end Idsp
