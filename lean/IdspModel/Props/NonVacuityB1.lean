import IdspModel.Props.C10lp2
import IdspModel.Props.C11
import IdspModel.Props.C11rec
import IdspModel.Props.C07
import IdspModel.Props.C07lock
/-!
# Non-vacuity audit, part B1 — `C10lp2`, `C11`, `C11rec`, `C07`, `C07lock`

For every property theorem of these files that has a hypothesis which is not an independent range fact, and that is
not already followed in its own file by an instance of ALL its hypotheses: ONE concrete witness that satisfies all
hypotheses of the theorem together (copied in the theorem's order).  Skipped theorems are listed per file with the
reason.  Findings are collected in `NonVacuityB.lean`.
-/
namespace Idsp
open Real
set_option linter.unusedVariables false

/-! ## C10lp2 -/

/-- the documented pair of `k = 2^24`: `[k²/2^32, -k√2] = [65536, -23726566]` -/
theorem nvB_butter24 : Lp2Butter 16777216 65536 23726566 := by constructor <;> norm_num

/-- its damping is within `ζ² ≤ 3/4` -/
theorem nvB_zeta24 : (23726566 : Int) ^ 2 ≤ 3 * (65536 * 4294967296) := by norm_num

/-- a state with non-zero velocity and a non-zero low word that is settled at the level `123456` (`k = 2^24`);
    it is not a `set()` state -/
theorem nvB_settled24 : Lp2Settled 65536 23726566 123456 (123456 * 4294967296 + 99999, 4242) := by
  unfold Lp2Settled lp2V lp2Q lp2Eb lp2U; decide

/-- non-vacuity of `lp2_error_recursion`: `k = 2^24` gains, input `2^29`, a state near level `1000` with non-zero
    velocity and low words; the state and its image are both in the box -/
example : ∃ (x k0 k1 : Int) (st : Int × Int), inI 32 k0 = true ∧ inI 32 k1 = true ∧ Lp2Box x st ∧
    Lp2Box x (lp2Next x k0 k1 st) :=
  ⟨536870912, 65536, -23726566, (1000 * 4294967296 + 12345, 777777), by decide, by decide,
    by unfold Lp2Box; decide, by unfold Lp2Box lp2Next lp2D; decide⟩

/-- non-vacuity of `lp2_reset_settled`: the `k = 2^24` pair is admissible, level `-2^31` (the extreme `i32`) -/
example : ∃ a b x : Int, Lp2Adm a b ∧ inI 32 x = true := ⟨65536, 23726566, -2147483648, nvB_butter24.adm, by decide⟩

/-- non-vacuity of `lp2_settled_error`: `k = 2^24`, the settled non-`set()` state `nvB_settled24` -/
example : ∃ (k a b x : Int) (st : Int × Int), Lp2Butter k a b ∧ b ^ 2 ≤ 3 * (a * 4294967296) ∧ Lp2Settled a b x st :=
  ⟨_, _, _, _, _, nvB_butter24, nvB_zeta24, nvB_settled24⟩

/-- non-vacuity of `lp2_settles_of_safe`: `k = 2^24`, new level `2^28`, safe level `lp2Vmax` (`lp2_safe_of_level`),
    start state settled at `123456` with non-zero velocity -/
example : ∃ (a b x Vmax : Int) (st : Int × Int), Lp2Adm a b ∧ Lp2Safe a b x Vmax ∧ lp2V a b x st ≤ Vmax :=
  ⟨65536, 23726566, 268435456, lp2Vmax 65536 23726566, _, nvB_butter24.adm,
    lp2_safe_of_level nvB_butter24 nvB_zeta24 (by norm_num) (by norm_num),
    lp2_settled_le_Vmax nvB_butter24 nvB_zeta24 (by norm_num) (by norm_num) (by norm_num) (by norm_num) _
      nvB_settled24⟩

/-- non-vacuity of `lp2_settles_of_safe2`: `k = 2^24`, new level `-2^29`, region `(lp2Vmax2, lp2R2)`
    (`lp2_safe2_of_level`), start state settled at `123456` with non-zero velocity -/
example : ∃ (a b x Vmax R : Int) (st : Int × Int), Lp2Adm a b ∧ Lp2Safe2 a b x Vmax R ∧ Lp2Inv2 a b x Vmax R st :=
  ⟨65536, 23726566, -536870912, lp2Vmax2 65536, lp2R2 65536, _, nvB_butter24.adm,
    lp2_safe2_of_level nvB_butter24 (by norm_num) (by norm_num),
    lp2_settled_inv2 nvB_butter24 (by norm_num) (by norm_num) (by norm_num) (by norm_num) _ nvB_settled24⟩

/-- non-vacuity of `lp2_level_change_pm2p29` with a start state that is NOT a `set()` state (the file's own example
    `C10lp2.lean:390` uses `set(0)`): `k = 2^24`, old level `123456`, new level `2^29` -/
example : ∃ (k a b x xo : Int) (st : Int × Int), Lp2Butter k a b ∧ -536870912 ≤ x ∧ x ≤ 536870912 ∧
    -536870912 ≤ xo ∧ xo ≤ 536870912 ∧ Lp2Settled a b xo st :=
  ⟨_, _, _, 536870912, 123456, _, nvB_butter24, by norm_num, by norm_num, by norm_num, by norm_num, nvB_settled24⟩

/-- non-vacuity of `lp2_start_reset`, `lp2_start2_reset`: `k = 2^24`, level `i32::MAX` -/
example : ∃ k a b x : Int, Lp2Butter k a b ∧ inI 32 x = true := ⟨_, _, _, 2147483647, nvB_butter24, by decide⟩

/-- non-vacuity of `lp2_reachable_settles_pm2p28`: `k = 2^24`, start settled at `123456` (non-zero velocity), an
    alternating `±2^28` history, then the constant `-2^28` -/
example : ∃ (k a b xo x : Int) (st : Int × Int) (xs : List Int), Lp2Butter k a b ∧ -268435456 ≤ xo ∧ xo ≤ 268435456 ∧
    Lp2Settled a b xo st ∧ (∀ z ∈ xs, -268435456 ≤ z ∧ z ≤ 268435456) ∧ -268435456 ≤ x ∧ x ≤ 268435456 :=
  ⟨_, _, _, 123456, -268435456, _, [268435456, -268435456, 268435456, 77, -268435456], nvB_butter24, by norm_num,
    by norm_num, nvB_settled24, by
      intro z hz; simp only [List.mem_cons, List.not_mem_nil, or_false] at hz
      rcases hz with rfl | rfl | rfl | rfl | rfl <;> norm_num, by norm_num, by norm_num⟩

/-! ### C10lp2: skipped
* `lp2_butterworth_admissible` — only hypothesis `Lp2Butter k a b`; instances at `C10lp2.lean:374–387`
  (`k = 2^24`, `2^16`, `⌊2^31/√2⌋`, `92681`).
* `lp2_level_change_pm2p30_step` — already has the example `C10lp2.lean:402` (all hypotheses, `set(2^30)` start).
* `lp2_level_change_pm2p30` — already has the example `C10lp2.lean:416` (all hypotheses, step `2^31`).
* `lp2_any_input_pm2p29` — already has the example `C10lp2.lean:431` (all hypotheses, 7-sample alternating history).
* (`lp2_level_change_pm2p29` has the example `C10lp2.lean:390`; an additional non-`set()` witness is given above.)
* `lp2_settles_full`, `lp2_overshoot_full` are `def … : Prop`, not theorems.
-/

/-! ## C11 -/

/-- the LO sample of the generic phase `123456789` -/
theorem nvB_cossin : cossin .checked 123456789 = .ok (2112528415, 385746234) := by decide +kernel

/-- non-vacuity of `lockin_update_of_cossin`: phase `123456789` -/
example : ∃ p c s : Int, inI 32 p = true ∧ cossin .checked p = .ok (c, s) := ⟨_, _, _, by decide, nvB_cossin⟩

/-- non-vacuity of `lockin_mixer_exact`, `lockin_step`: phase `123456789`, sample `-10^9` -/
example : ∃ p x c s : Int, inI 32 p = true ∧ inI 32 x = true ∧ cossin .checked p = .ok (c, s) :=
  ⟨_, -1000000000, _, _, by decide, by decide, nvB_cossin⟩

/-- non-vacuity of `cmul_scaled_i32_exact`: `re = i32::MIN` is allowed as long as `o ≠ i32::MIN` -/
example : ∃ re im o : Int, inI 32 re = true ∧ inI 32 im = true ∧ inI 32 o = true ∧
    (re ≠ -2 ^ 31 ∨ o ≠ -2 ^ 31) ∧ (im ≠ -2 ^ 31 ∨ o ≠ -2 ^ 31) :=
  ⟨-2 ^ 31, 385746234, 2 ^ 31 - 1, by decide, by decide, by decide, by decide, by decide⟩

/-- non-vacuity of `cmul_scaled_c_value`: three of the four components are `i32::MIN` -/
example : ∃ a b c d : Int, inI 32 a = true ∧ inI 32 b = true ∧ inI 32 c = true ∧ inI 32 d = true ∧
    ¬ (a = -2 ^ 31 ∧ b = -2 ^ 31 ∧ c = -2 ^ 31 ∧ d = -2 ^ 31) :=
  ⟨-2 ^ 31, -2 ^ 31, -2 ^ 31, 2 ^ 31 - 1, by decide, by decide, by decide, by decide, by decide⟩

/-- non-vacuity of `abs_sqr_value`, `log2_value`: `(i32::MIN, i32::MAX)` -/
example : ∃ re im : Int, inI 32 re = true ∧ inI 32 im = true ∧ ¬ (re = -2 ^ 31 ∧ im = -2 ^ 31) :=
  ⟨-2 ^ 31, 2 ^ 31 - 1, by decide, by decide, by decide⟩

/-! ### C11: skipped
* no hypotheses: `lockin_update_eq_bind`, `cmul_scaled_i32_min_min_wraps`, `cmul_scaled_c_min_witness`,
  `csat_add_sub_range`.
* independent range facts (`inI w _ = true` on free variables) only: `lockin_update_eq_update_iq`,
  `cmul_scaled_i32_never_panics`, `cmul_scaled_i16_never_panics`, `cmul_scaled_c_panics_iff`, `abs_sqr_panics_iff`,
  `log2_panics_iff`.
-/

/-! ## C11rec -/

/-- the setting `LkSetup` is satisfiable for every amplitude, tone phase, start phase and admissible frequency word
    (samples = floor of the real tone; named copy of the anonymous example `C11rec.lean:283`) -/
theorem nvB_lkSetup (A θ : ℝ) (p0 F : Int) (hF0 : 214748365 ≤ F) (hF1 : F ≤ 1932735283) :
    LkSetup A θ p0 F (fun n => ⌊A * cos (((wrapI 32 (p0 + n * F) : Int) : ℝ) * π / 2 ^ 31 + θ)⌋)
      (fun n => wrapI 32 (p0 + n * F)) := by
  refine ⟨hF0, hF1, fun n => rfl, fun n => ?_⟩
  have h1 := Int.floor_le (A * cos (((wrapI 32 (p0 + n * F) : Int) : ℝ) * π / 2 ^ 31 + θ))
  have h2 := Int.lt_floor_add_one (A * cos (((wrapI 32 (p0 + n * F) : Int) : ℝ) * π / 2 ^ 31 + θ))
  rw [abs_le]; constructor <;> linarith

/-- the LO sample of the quarter-turn phase `2^30` (release build) -/
theorem nvB_cossin_q : cossin .release 1073741824 = .ok (1898, 2147454703) := by decide +kernel

/-- non-vacuity of `lockin_recovery_mixer`: release build, phase `2^30` (`φ = π/2`), tone phase `θ = π/2`,
    `A = 2^28`: the exact sample is `A·cos π = -2^28` -/
example : ∃ (m : Mode) (A θ : ℝ) (p x c s : Int), 0 ≤ A ∧ inI 32 p = true ∧ cossin m p = .ok (c, s) ∧
    |(x : ℝ) - A * cos ((p : ℝ) * π / 2 ^ 31 + θ)| ≤ 1 := by
  refine ⟨.release, 2 ^ 28, π / 2, 1073741824, -268435456, _, _, by positivity, by decide, nvB_cossin_q, ?_⟩
  have e : ((1073741824 : Int) : ℝ) * π / 2 ^ 31 + π / 2 = π := by push_cast; ring
  rw [e, cos_pi]; norm_num

/-- non-vacuity of `lockin_recovery_window_sum`, `lockin_recovery_components`, `lockin_recovery_magnitude_general`:
    `k = 2^24`, `A = 2^28`, `θ = 0.3`, start phase `12345`, frequency word `2^30 + 12345` (incommensurate with the
    sample rate), floor samples -/
example : ∃ (k a b : Int) (A θ : ℝ) (p0 F : Int) (x p : ℕ → Int), Lp2Butter k a b ∧ 2 ^ 20 ≤ k ∧ k ≤ 2 ^ 25 ∧
    0 ≤ A ∧ A ≤ 2 ^ 30 ∧ LkSetup A θ p0 F x p :=
  ⟨_, _, _, 2 ^ 28, 0.3, 12345, 2 ^ 30 + 12345, _, _, nvB_butter24, by norm_num, by norm_num, by positivity,
    by norm_num, nvB_lkSetup _ _ _ _ (by norm_num) (by norm_num)⟩

/-- non-vacuity of `lockin_recovery_angle_general`: the same setting (`2^23 ≤ A`) -/
example : ∃ (k a b : Int) (A θ : ℝ) (p0 F : Int) (x p : ℕ → Int), Lp2Butter k a b ∧ 2 ^ 20 ≤ k ∧ k ≤ 2 ^ 25 ∧
    2 ^ 23 ≤ A ∧ A ≤ 2 ^ 30 ∧ LkSetup A θ p0 F x p :=
  ⟨_, _, _, 2 ^ 28, 0.3, 12345, 2 ^ 30 + 12345, _, _, nvB_butter24, by norm_num, by norm_num, by norm_num,
    by norm_num, nvB_lkSetup _ _ _ _ (by norm_num) (by norm_num)⟩

/-- non-vacuity of `lockin_recovery_magnitude_partial`: the same setting, `k·A = 2^52 ≥ 2^45` -/
example : ∃ (k a b : Int) (A θ : ℝ) (p0 F : Int) (x p : ℕ → Int), Lp2Butter k a b ∧ 2 ^ 20 ≤ k ∧ k ≤ 2 ^ 25 ∧
    2 ^ 23 ≤ A ∧ A ≤ 2 ^ 30 ∧ 2 ^ 45 ≤ k * A ∧ LkSetup A θ p0 F x p :=
  ⟨_, _, _, 2 ^ 28, 0.3, 12345, 2 ^ 30 + 12345, _, _, nvB_butter24, by norm_num, by norm_num, by norm_num,
    by norm_num, by norm_num, nvB_lkSetup _ _ _ _ (by norm_num) (by norm_num)⟩

/-- non-vacuity of `lockin_recovery_angle_partial`: the same setting, `k·A = 2^52 ≥ 3·2^46` (the file's own example
    `C11rec.lean:293` covers `hB`, `h`, `hkA` for frequency word `2^30`) -/
example : ∃ (k a b : Int) (A θ : ℝ) (p0 F : Int) (x p : ℕ → Int), Lp2Butter k a b ∧ 2 ^ 20 ≤ k ∧ k ≤ 2 ^ 25 ∧
    2 ^ 23 ≤ A ∧ A ≤ 2 ^ 30 ∧ 3 * 2 ^ 46 ≤ k * A ∧ LkSetup A θ p0 F x p :=
  ⟨_, _, _, 2 ^ 28, 0.3, 12345, 2 ^ 30 + 12345, _, _, nvB_butter24, by norm_num, by norm_num, by norm_num,
    by norm_num, by norm_num, nvB_lkSetup _ _ _ _ (by norm_num) (by norm_num)⟩

/-- non-vacuity of `lockin_recovery_angle_witness`: a run of the model on the witness inputs `wX`, `wP` exists (the
    model never panics on them), by `lockin_recovery_components` at `wit_butter`, `wit_setup` -/
example : ∃ (m : Mode) (st : ℕ → Int × Int × Int × Int) (yI yQ : ℕ → Int), st 0 = (0, 0, 0, 0) ∧
    ∀ n, lockinUpdate m (st n) (wX n) (wP n) 256 (-1482910) = .ok (st (n + 1), yI n, yQ n) := by
  obtain ⟨st, yI, yQ, h0, hrun, -⟩ := lockin_recovery_components .checked wit_butter (by norm_num) (by norm_num)
    (by positivity) (by norm_num) wit_setup
  exact ⟨.checked, st, yI, yQ, h0, hrun⟩

/-! ### C11rec: skipped
* `lockin_recovery_scale` — only the range fact `0 ≤ A`.
* `lockin_recovery_full_false` — no hypotheses.
* `lkMean`, `lkErr`, `lockin_recovery_full` are definitions.
-/

/-! ## C07 -/

theorem nvB_rpllStar_inRange : rpllStar.inRange := by unfold RPLL.inRange; decide

/-- `rpllStar` (the REACHABLE state of the real code after `1572864` updates of witness A) with its timestamp moved
    to just before the wrap of the `i32` counter -/
def nvB_rpllW : RPLL := ⟨8, 2147483000, 1110613570, 1110617805, -1036855023⟩

theorem nvB_rpllW_inRange : nvB_rpllW.inRange := by unfold RPLL.inRange; decide

/-- an update of `rpllStar` OUTSIDE the dead band (edge 10 ticks late: `dx = 1000` instead of `990`): `ff` moves from
    `1110613570` to `1110612247` -/
theorem nvB_rpll_step : RPLL.update .checked rpllStar (some 402653161) 23 22
    = .ok (⟨8, 402653161, 1110612247, 1110613835, 73762782⟩, 73762782, 1110613835) := by decide

/-- non-vacuity of `rpll_returns_getters`: the update `nvB_rpll_step` -/
example : ∃ (m : Mode) (s s' : RPLL) (input : Option Int) (sf sp y f : Int),
    RPLL.update m s input sf sp = .ok (s', y, f) := ⟨_, _, _, _, _, _, _, _, nvB_rpll_step⟩

/-- non-vacuity of `rpll_none_advances`: `dt2 = 8`, shifts `23/22` -/
example : ∃ (s : RPLL) (sf sp : Int), s.dt2 ≤ sf ∧ s.dt2 ≤ sp := ⟨rpllStar, 23, 22, by decide, by decide⟩

/-- non-vacuity of `rpll_total_under_contract`: `dt2 = 8`, shifts `23/22`, and a timestamp that WRAPS the `i32`
    counter (`2147483000 → -2147483306`, wrapped difference `990 ≥ 0`) -/
example : ∃ (s : RPLL) (x sf sp : Int), s.inRange ∧ inI 32 x = true ∧ 0 ≤ s.dt2 ∧ s.dt2 ≤ 30 ∧ s.dt2 < sf ∧ sf ≤ 32 ∧
    s.dt2 ≤ sp ∧ sp - s.dt2 < 32 ∧ 0 ≤ wrapI 32 (x - s.x) :=
  ⟨nvB_rpllW, -2147483306, 23, 22, nvB_rpllW_inRange, by decide, by decide, by decide, by decide, by decide,
    by decide, by decide, by decide⟩

/-- non-vacuity of `rpll_total_under_contract_none` -/
example : ∃ (s : RPLL) (sf sp : Int), s.inRange ∧ s.dt2 ≤ sf ∧ s.dt2 ≤ sp :=
  ⟨rpllStar, 23, 22, nvB_rpllStar_inRange, by decide, by decide⟩

/-- non-vacuity of `rpll_checked_ok_iff` (only hypothesis `s.inRange`) -/
example : ∃ s : RPLL, s.inRange := ⟨_, nvB_rpllStar_inRange⟩

/-- non-vacuity of `rpll_negative_dx_panics`: `rpllStar`, timestamp one tick in the past -/
example : ∃ (s : RPLL) (x : Int), s.inRange ∧ wrapI 32 (x - s.x) < 0 ∧ 2 ≤ s.ff :=
  ⟨rpllStar, 402652160, nvB_rpllStar_inRange, by decide, by decide⟩

/-- non-vacuity of `rpll_ff_update`: the update `nvB_rpll_step` (outside the dead band) -/
example : ∃ (m : Mode) (s s' : RPLL) (x sf sp y f : Int), s.inRange ∧ 0 ≤ s.dt2 ∧ s.dt2 ≤ 30 ∧ s.dt2 < sf ∧ sf ≤ 32 ∧
    s.dt2 ≤ sp ∧ sp - s.dt2 < 32 ∧ 0 ≤ wrapI 32 (x - s.x) ∧ RPLL.update m s (some x) sf sp = .ok (s', y, f) :=
  ⟨_, rpllStar, _, 402653161, 23, 22, _, _, nvB_rpllStar_inRange, by decide, by decide, by decide, by decide,
    by decide, by decide, by decide, nvB_rpll_step⟩

/-- non-vacuity of `rpll_dead_band`: `rpllStar`, one reference period (`990`) later: the rounded quotient equals
    `p_ref = 2^17` (the file's example `C07.lean:209` shows `hq` and `h`; here all hypotheses together) -/
example : ∃ (m : Mode) (s s' : RPLL) (x sf sp y f : Int), s.inRange ∧ 0 ≤ s.dt2 ∧ s.dt2 ≤ 30 ∧ s.dt2 < sf ∧ sf ≤ 32 ∧
    s.dt2 ≤ sp ∧ sp - s.dt2 < 32 ∧ 0 ≤ wrapI 32 (x - s.x) ∧ RPLL.update m s (some x) sf sp = .ok (s', y, f) ∧
    (s.ff * wrapI 32 (x - s.x) + 2 ^ (sf - 1).toNat) / 2 ^ sf.toNat = 2 ^ (32 + s.dt2 - sf).toNat :=
  ⟨.checked, rpllStar, ⟨8, 402653151, 1110613570, 1110617806, 73762782⟩, rpllStar.x + 990, 23, 22, 73762782,
    1110617806, nvB_rpllStar_inRange, by decide, by decide, by decide, by decide, by decide, by decide, by decide,
    by decide, by decide⟩

/-- non-vacuity of `rpll_dead_band_iff`: the update `nvB_rpll_step`, OUTSIDE the dead band (quotient `132395`, not
    `2^17 = 131072`), so both sides of the `iff` are false there -/
example : ∃ (m : Mode) (s s' : RPLL) (x sf sp y f : Int), s.inRange ∧ 0 ≤ s.dt2 ∧ s.dt2 ≤ 30 ∧ s.dt2 < sf ∧ sf ≤ 32 ∧
    s.dt2 ≤ sp ∧ sp - s.dt2 < 32 ∧ 0 ≤ wrapI 32 (x - s.x) ∧ RPLL.update m s (some x) sf sp = .ok (s', y, f) ∧
    (s.ff * wrapI 32 (x - s.x) + 2 ^ (sf - 1).toNat) / 2 ^ sf.toNat < 2 ^ 32 :=
  ⟨_, rpllStar, _, 402653161, 23, 22, _, _, nvB_rpllStar_inRange, by decide, by decide, by decide, by decide,
    by decide, by decide, by decide, nvB_rpll_step, by decide⟩

/-! ### C07: skipped
* no hypotheses: `rpll_none_advances_release`, `rpll_none_contract` (its two implications are exercised by the
  examples `C07.lean:136–139`), `rpll_lock_full_false`, `rpll_lock_phase_false_witness`.
* only a range fact: `rpll_never_locks_B` (`96 ≤ n`).
* `rpll_lock_full` is a definition (refuted); its premises are instantiated at `C07.lean:243` and in
  `rpll_lock_full_false`.
-/

/-! ## C07lock -/

/-- the documented-style configuration `dt2 = 8`, period `4000`, first edge at `1234`, shifts `16/15` -/
theorem nvB_rpll_good : RpllCfg.Good ⟨8, 4000, 1234, 16, 15⟩ :=
  { hDP := by decide, hPS := by decide, hdsf := by decide, hsf := by decide, hsp0 := by decide,
    hsp1 := by decide, hP3 := by decide, hPsp := by decide }

/-- non-vacuity of `rpll_ff_converges`: that configuration, `n = 2^13 = 2^(sf−d+5)` updates -/
example : ∃ (c : RpllCfg) (n : Nat), c.Adm ∧ 2 ^ (c.sf - c.d + 5).toNat ≤ (n : Int) :=
  ⟨_, 8192, nvB_rpll_good.toAdm, by decide⟩

/-- non-vacuity of `rpll_ff_geometric` (only hypothesis `c.Adm`); witness A of C07 (`P = 990`, `23/22`) is `Adm` too -/
example : ∃ c : RpllCfg, c.Adm := ⟨_, nvB_rpll_good.toAdm⟩
example : rpllCfgA.Adm :=
  { hDP := by decide, hPS := by decide, hdsf := by decide, hsf := by decide, hsp0 := by decide, hsp1 := by decide }

/-- non-vacuity of `rpll_locks_within_envelope`: `k = 23` halvings of `n0 = 11` edges, `b = 4095`, `n = 2^13 + 4095` -/
example : ∃ (c : RpllCfg) (k n0 b n : Nat), c.Good ∧ c.Lam ≤ n0 * c.Qm ∧
    ((k * n0 + 2 : Nat) : Int) ≤ 2 ^ c.d * ((b + 1 : Nat) : Int) / c.P ∧ 2 ^ (c.sf - c.d + 5).toNat + b ≤ n :=
  ⟨_, 23, 11, 4095, 12287, nvB_rpll_good, by decide, by decide, by decide⟩

/-- non-vacuity of `rpll_lock_holds_where_envelope_small` with a non-zero edge offset (`rpll_lock_example`, which
    directly follows it in `C07lock.lean`, is the instance for every offset) -/
example : ∃ (c : RpllCfg) (k n0 : Nat), c.Good ∧ c.Lam ≤ n0 * c.Qm ∧ ((k * n0 + 2 : Nat) : Int) ≤ 32 * c.Lam / c.P ∧
    100000 * c.envF k ≤ c.Sg * c.Sg * c.T ∧ 1000 * c.envP k ≤ 2 * (c.Sg * c.Sg * (c.D * (c.P * 2 ^ 32))) :=
  ⟨_, 23, 11, nvB_rpll_good, by decide, by decide, by decide, by decide⟩

/-- … and a second member of that region with a different rate ratio: `dt2 = 4`, period `1000`, shifts `12/11` -/
example : ∃ (c : RpllCfg) (k n0 : Nat), c.Good ∧ c.Lam ≤ n0 * c.Qm ∧ ((k * n0 + 2 : Nat) : Int) ≤ 32 * c.Lam / c.P ∧
    100000 * c.envF k ≤ c.Sg * c.Sg * c.T ∧ 1000 * c.envP k ≤ 2 * (c.Sg * c.Sg * (c.D * (c.P * 2 ^ 32))) :=
  ⟨⟨4, 1000, 7, 12, 11⟩, 21, 3,
    { hDP := by decide, hPS := by decide, hdsf := by decide, hsf := by decide, hsp0 := by decide,
      hsp1 := by decide, hP3 := by decide, hPsp := by decide }, by decide, by decide, by decide, by decide⟩

/-! ### C07lock: skipped
* `rpll_lock_example` — no hypotheses (it is itself the instance of `rpll_lock_holds_where_envelope_small`).
* `rpll_lock_at` is a definition.
-/

end Idsp
