import IdspModel.Lemmas.FloatModelGain
import IdspModel.Lemmas.FloatModelU
import IdspModel.Props.C03
/-!
# C03 (floating point sample types) — "the same expression holds to floating-point rounding"

Model: `IdspModel/Model/BiquadF.lean` (`Biquad<f32/f64>::update::<N>`, uninterpreted `add sub mul max min`),
instantiated over `ℝ` with the STANDARD MODEL of floating point arithmetic `FlModel u`
(`IdspModel/Lemmas/FloatModel.lean`): every `+ − ×` returns the exact result times `(1 + δ)`, `|δ| ≤ u`
(IEEE binary32: `u = 2^-24`, binary64: `u = 2^-53`, round to nearest, no overflow/underflow); `max`/`min` exact.
`gam u k = (1+u)^k − 1` is the relative error of `k` successive roundings (`≤ k·u/(1 − k·u)`, `gam_le_classical`;
`gam u 6 ≤ 7u` and `gam u 5 ≤ 6u` for `u ≤ 1/32`).  `rclip mn mx x = min (max x mn) mx` is the exact clamp.
The exact recurrences `df1Step` / `df2tStep` are those of `Props/C03.lean` (`Lemmas/NumExact.lean`) at `R = ℝ`.

Per-step rounding bounds (`Lemmas/FloatModelBiquad.lean`), `γk = gam u k`:
* `df1Bound u c x0 x1 x2 y1 y2  = γ6|b0·x0| + γ6|b1·x1| + γ5|b2·x2| + γ4|a1·y1| + γ3|a2·y2| + u·|u_offset|`
* `df2tBound u c x0 x1 x2 y1 y2 = γ2|b0·x0| + γ4|b1·x1| + γ6|b2·x2| + γ3|a1·y1| + γ5|a2·y2| + γ5|u_offset|`
both `≤ γ6·(Σ|terms| + |u_offset|)` (`df1Bound_le`, `df2tBound_le`).

Sequence view (`Lemmas/FloatModelGain.lean`): `seqOut step st x n` is the `n`-th output of the run of `step` from `st`
on the input sequence `x` (it enumerates `runP`, `fbiquad_seqOut_eq_run`); `prev f j n = f (n − j)`, `0` before the
start; `impulse a1 a2` is the impulse response of `1/(1 + a1 z⁻¹ + a2 z⁻²)`.

`FlModelX u` adds the IEEE exactness law to the model: a predicate `rep` ("is a finite float", containing `0`, `1`,
closed under negation) and "an operation on representable operands whose exact result is representable returns it",
whence `1·x = x`, `0·x = 0`, `x + 0 = 0 + x = x`, `x − 0 = x`, `(−1)·x = −x`, `0 − (−x) = x` for finite `x`.
Over `ℝ` there is no `±∞`: the limits `T::MIN/MAX = ∓∞` of the special filters are modelled as "any limits that
contain the result".
-/
namespace Idsp

variable {u : ℝ} (M : FlModel u)

/-! ## 1. The four/five-element form (DF1) -/

/-- **Summing junction, per-term bound.**  The left-to-right float evaluation of
    `b0·x0 + b1·x1 + b2·x2 − a1·y1 − a2·y2` differs from the exact value by at most
    `γ5|b0·x0| + γ5|b1·x1| + γ4|b2·x2| + γ3|a1·y1| + γ2|a2·y2|` (each product is charged with the number of
    roundings it passes through). -/
theorem fbiquad_sum_error (c : FBiquadCfg ℝ) (x0 x1 x2 y1 y2 : ℝ) :
    |fbiquadSum M.ops c x0 x1 x2 y1 y2 - (c.b0 * x0 + c.b1 * x1 + c.b2 * x2 - c.a1 * y1 - c.a2 * y2)| ≤
      gam u 5 * |c.b0 * x0| + gam u 5 * |c.b1 * x1| + gam u 4 * |c.b2 * x2| + gam u 3 * |c.a1 * y1| +
        gam u 2 * |c.a2 * y2| :=
  (M.fbiquadSum_near c x0 x1 x2 y1 y2).1

/-- **Summing junction, uniform bound** `γ5 · Σ|terms|`, and the explicit forms `5u/(1−5u)` (for `5u < 1`) and
    `6u` (for `u ≤ 1/32`) of the constant. -/
theorem fbiquad_sum_error_uniform (c : FBiquadCfg ℝ) (x0 x1 x2 y1 y2 : ℝ) :
    let err := |fbiquadSum M.ops c x0 x1 x2 y1 y2 - (c.b0 * x0 + c.b1 * x1 + c.b2 * x2 - c.a1 * y1 - c.a2 * y2)|
    let mag := |c.b0 * x0| + |c.b1 * x1| + |c.b2 * x2| + |c.a1 * y1| + |c.a2 * y2|
    err ≤ gam u 5 * mag ∧ (5 * u < 1 → err ≤ 5 * u / (1 - 5 * u) * mag) ∧ (u ≤ 1 / 32 → err ≤ 6 * u * mag) := by
  intro err mag
  have hu := M.u_nonneg
  have h := fbiquad_sum_error M c x0 x1 x2 y1 y2
  have g2 := gam_mono hu (show 2 ≤ 5 by norm_num)
  have g3 := gam_mono hu (show 3 ≤ 5 by norm_num)
  have g4 := gam_mono hu (show 4 ≤ 5 by norm_num)
  have hmag : 0 ≤ mag := by positivity
  have h1 : err ≤ gam u 5 * mag := by
    have a2 := mul_le_mul_of_nonneg_right g4 (abs_nonneg (c.b2 * x2))
    have a3 := mul_le_mul_of_nonneg_right g3 (abs_nonneg (c.a1 * y1))
    have a4 := mul_le_mul_of_nonneg_right g2 (abs_nonneg (c.a2 * y2))
    have e : gam u 5 * mag = gam u 5 * |c.b0 * x0| + gam u 5 * |c.b1 * x1| + gam u 5 * |c.b2 * x2| +
        gam u 5 * |c.a1 * y1| + gam u 5 * |c.a2 * y2| := by simp only [mag]; ring
    rw [e]; exact h.trans (by linarith)
  refine ⟨h1, fun h5 => h1.trans (mul_le_mul_of_nonneg_right ?_ hmag),
    fun h32 => h1.trans (mul_le_mul_of_nonneg_right (gam_five_le hu h32) hmag)⟩
  have := gam_le_classical hu 5 (by push_cast; exact h5)
  push_cast at this
  exact this

/-- **The `macc` argument `u + s`** (one more rounding): per-term bound with `γ6, γ6, γ5, γ4, γ3` on the products
    and `γ1 = u` on the offset. -/
theorem fbiquad_junction_error (c : FBiquadCfg ℝ) (x0 x1 x2 y1 y2 : ℝ) :
    |M.ops.add c.u (fbiquadSum M.ops c x0 x1 x2 y1 y2) -
        (c.b0 * x0 + c.b1 * x1 + c.b2 * x2 - c.a1 * y1 - c.a2 * y2 + c.u)| ≤
      gam u 6 * |c.b0 * x0| + gam u 6 * |c.b1 * x1| + gam u 5 * |c.b2 * x2| + gam u 4 * |c.a1 * y1| +
        gam u 3 * |c.a2 * y2| + u * |c.u| := by
  have := (M.fbiquadJunction_near c x0 x1 x2 y1 y2).1
  rwa [gam_one] at this

/-- **The clamp does not amplify an error**: it is exact, monotone and 1-Lipschitz. -/
theorem clip_error_does_not_grow (mn mx a b : ℝ) :
    |rclip mn mx a - rclip mn mx b| ≤ |a - b| ∧ (a ≤ b → rclip mn mx a ≤ rclip mn mx b) :=
  ⟨rclip_lipschitz mn mx a b, rclip_mono mn mx⟩

/-- `df1Bound ≤ γ6·(Σ|terms| + |u|)`, and `γ6 ≤ 6u/(1−6u)` for `6u < 1`, `γ6 ≤ 7u` for `u ≤ 1/32` -/
theorem df1Bound_le (hu : 0 ≤ u) (c : FBiquadCfg ℝ) (x0 x1 x2 y1 y2 : ℝ) :
    df1Bound u c x0 x1 x2 y1 y2 ≤
      gam u 6 * (|c.b0 * x0| + |c.b1 * x1| + |c.b2 * x2| + |c.a1 * y1| + |c.a2 * y2| + |c.u|) ∧
    (6 * u < 1 → gam u 6 ≤ 6 * u / (1 - 6 * u)) ∧ (u ≤ 1 / 32 → gam u 6 ≤ 7 * u) := by
  refine ⟨?_, fun h => ?_, gam_six_le hu⟩
  · have g1 := gam_mono hu (show 1 ≤ 6 by norm_num)
    rw [gam_one] at g1
    have g3 := gam_mono hu (show 3 ≤ 6 by norm_num)
    have g4 := gam_mono hu (show 4 ≤ 6 by norm_num)
    have g5 := gam_mono hu (show 5 ≤ 6 by norm_num)
    have a2 := mul_le_mul_of_nonneg_right g5 (abs_nonneg (c.b2 * x2))
    have a3 := mul_le_mul_of_nonneg_right g4 (abs_nonneg (c.a1 * y1))
    have a4 := mul_le_mul_of_nonneg_right g3 (abs_nonneg (c.a2 * y2))
    have a5 := mul_le_mul_of_nonneg_right g1 (abs_nonneg c.u)
    unfold df1Bound
    linarith
  · have := gam_le_classical hu 6 (by push_cast; exact h)
    push_cast at this
    exact this

/-- **N = 4 and N = 5: the output is the exact clamped recurrence up to an additive error `e` inside the clamp**,
    `|e| ≤ df1Bound`; the state is `[x0, x1, y0, y1]` (N = 5: fifth word `0.0`, whatever it was before). -/
theorem fbiquad45_output_error (c : FBiquadCfg ℝ) (x0 x1 x2 y1 y2 e1 : ℝ) :
    ∃ e, |e| ≤ df1Bound u c x0 x1 x2 y1 y2 ∧
      let y0 := rclip c.mn c.mx (c.b0 * x0 + c.b1 * x1 + c.b2 * x2 - c.a1 * y1 - c.a2 * y2 + c.u + e)
      fbiquadUpdate4 M.ops c (x1, x2, y1, y2) x0 = ((x0, x1, y0, y1), y0) ∧
      fbiquadUpdate5 M.ops c (x1, x2, y1, y2, e1) x0 = ((x0, x1, y0, y1, 0), y0) := by
  refine ⟨M.fadd c.u (fbiquadSum M.ops c x0 x1 x2 y1 y2) -
    (c.b0 * x0 + c.b1 * x1 + c.b2 * x2 - c.a1 * y1 - c.a2 * y2 + c.u), fbiquad_junction_error M c x0 x1 x2 y1 y2, ?_⟩
  intro y0
  have hy : y0 = rclip c.mn c.mx (M.fadd c.u (fbiquadSum M.ops c x0 x1 x2 y1 y2)) := by
    simp only [y0]; congr 1; ring
  rw [M.fbiquadUpdate4_eq, M.fbiquadUpdate5_eq, ← hy]
  exact ⟨rfl, rfl⟩

/-- **N = 4 / N = 5 against the exact DF1 step of `Props/C03.lean`**: for every state and input the rounded output is
    within `df1Bound` (evaluated on the form's OWN stored inputs and outputs) of the exact clamped recurrence. -/
theorem fbiquad45_vs_df1Step (c : FBiquadCfg ℝ) (st : ℝ × ℝ × ℝ × ℝ) (e1 x0 : ℝ) :
    |(fbiquadUpdate4 M.ops c st x0).2 - (df1Step (rclip c.mn c.mx) c.toExact st x0).2| ≤
      df1Bound u c x0 st.1 st.2.1 st.2.2.1 st.2.2.2 ∧
    (fbiquadUpdate5 M.ops c (st.1, st.2.1, st.2.2.1, st.2.2.2, e1) x0).2 = (fbiquadUpdate4 M.ops c st x0).2 := by
  obtain ⟨x1, x2, y1, y2⟩ := st
  refine ⟨?_, rfl⟩
  rw [M.fbiquadUpdate4_eq]
  exact (rclip_lipschitz _ _ _ _).trans (fbiquad_junction_error M c x0 x1 x2 y1 y2)

/-! ## 2. The two-element transposed form (DF2T) -/

/-- **One DF2T update.**  Output: within `γ1|s0| + γ2|b0·x0|` of `clip(s0 + b0·x0)`.  New state words: within
    `γ2|s1| + γ3|b1·x0| + γ2|a1·y0|` of `s1 + b1·x0 − a1·y0` and within `γ2|u| + γ3|b2·x0| + γ2|a2·y0|` of
    `u + b2·x0 − a2·y0`, where `y0` is the update's own (rounded, clamped) output. -/
theorem fbiquad2_step_error (c : FBiquadCfg ℝ) (s0 s1 x0 : ℝ) :
    let r := fbiquadUpdate2 M.ops c (s0, s1) x0
    |r.2 - rclip c.mn c.mx (s0 + c.b0 * x0)| ≤ gam u 1 * |s0| + gam u 2 * |c.b0 * x0| ∧
    |r.1.1 - (s1 + c.b1 * x0 - c.a1 * r.2)| ≤ gam u 2 * |s1| + gam u 3 * |c.b1 * x0| + gam u 2 * |c.a1 * r.2| ∧
    |r.1.2 - (c.u + c.b2 * x0 - c.a2 * r.2)| ≤ gam u 2 * |c.u| + gam u 3 * |c.b2 * x0| + gam u 2 * |c.a2 * r.2| := by
  intro r
  refine ⟨?_, ?_, ?_⟩
  · have h := (M.near_out (near_exact s0) c.b0 x0).rclip c.mn c.mx
    rw [mul_zero, zero_add] at h
    exact h
  · have h := (M.near_state (near_exact s1) c.b1 x0 c.a1 r.2).1
    rw [mul_zero, zero_add] at h
    exact h
  · have h := (M.near_state (near_exact c.u) c.b2 x0 c.a2 r.2).1
    rw [mul_zero, zero_add] at h
    exact h

/-- **One DF2T update against the exact DF2T step** (`df2tStep` of `Props/C03.lean`) from the same state: the state
    words carry in addition `|a|` times the output error. -/
theorem fbiquad2_step_vs_exact (c : FBiquadCfg ℝ) (s0 s1 x0 : ℝ) :
    let r := fbiquadUpdate2 M.ops c (s0, s1) x0
    let e := df2tStep (rclip c.mn c.mx) c.toExact (s0, s1) x0
    let dy := gam u 1 * |s0| + gam u 2 * |c.b0 * x0|
    |r.2 - e.2| ≤ dy ∧
    |r.1.1 - e.1.1| ≤ gam u 2 * |s1| + gam u 3 * |c.b1 * x0| + gam u 2 * |c.a1 * r.2| + |c.a1| * dy ∧
    |r.1.2 - e.1.2| ≤ gam u 2 * |c.u| + gam u 3 * |c.b2 * x0| + gam u 2 * |c.a2 * r.2| + |c.a2| * dy := by
  intro r e dy
  obtain ⟨h1, h2, h3⟩ := fbiquad2_step_error M c s0 s1 x0
  have hy : |r.2 - e.2| ≤ dy := h1
  refine ⟨hy, ?_, ?_⟩
  · have e1 : r.1.1 - e.1.1 = (r.1.1 - (s1 + c.b1 * x0 - c.a1 * r.2)) - c.a1 * (r.2 - e.2) := by
      simp only [e, df2tStep, FBiquadCfg.toExact]; ring
    rw [e1]
    refine (abs_sub _ _).trans (add_le_add h2 ?_)
    rw [abs_mul]
    exact mul_le_mul_of_nonneg_left hy (abs_nonneg _)
  · have e1 : r.1.2 - e.1.2 = (r.1.2 - (c.u + c.b2 * x0 - c.a2 * r.2)) - c.a2 * (r.2 - e.2) := by
      simp only [e, df2tStep, FBiquadCfg.toExact]; ring
    rw [e1]
    refine (abs_sub _ _).trans (add_le_add h3 ?_)
    rw [abs_mul]
    exact mul_le_mul_of_nonneg_left hy (abs_nonneg _)

/-- **From the third sample on the rounded DF2T form obeys the clamped recurrence in terms of its own past
    outputs, to rounding.**  Three consecutive updates from ANY state: the third output is
    `clip(b0·xc + b1·xb + b2·xa − a1·yb − a2·ya + u + e)` with `|e| ≤ df2tBound` (`≤ γ6·(Σ|terms| + |u|)`), where
    `ya`, `yb` are the two preceding outputs of the same (rounded) run; hence it is within `df2tBound` of the exact
    clamped recurrence.  The initial state does not enter the bound. -/
theorem fbiquad2_third_output_error (c : FBiquadCfg ℝ) (st : ℝ × ℝ) (xa xb xc : ℝ) :
    let r1 := fbiquadUpdate2 M.ops c st xa
    let r2 := fbiquadUpdate2 M.ops c r1.1 xb
    let r3 := fbiquadUpdate2 M.ops c r2.1 xc
    (∃ e, |e| ≤ df2tBound u c xc xb xa r2.2 r1.2 ∧
      r3.2 = rclip c.mn c.mx (c.b0 * xc + c.b1 * xb + c.b2 * xa - c.a1 * r2.2 - c.a2 * r1.2 + c.u + e)) ∧
    |r3.2 - rclip c.mn c.mx (c.b0 * xc + c.b1 * xb + c.b2 * xa - c.a1 * r2.2 - c.a2 * r1.2 + c.u)| ≤
      df2tBound u c xc xb xa r2.2 r1.2 := by
  intro r1 r2 r3
  obtain ⟨hy, hn⟩ := M.df2t_third_near c st xa xb xc
  refine ⟨?_, ?_⟩
  · obtain ⟨e, he, h⟩ := hn.inside
    exact ⟨e, he, by rw [← h]; exact hy⟩
  · have : r3.2 = _ := hy
    rw [this]
    exact hn.rclip c.mn c.mx

/-- `df2tBound ≤ γ6·(Σ|terms| + |u|)`: the same uniform constant as for the four-element form -/
theorem df2tBound_le (hu : 0 ≤ u) (c : FBiquadCfg ℝ) (x0 x1 x2 y1 y2 : ℝ) :
    df2tBound u c x0 x1 x2 y1 y2 ≤
      gam u 6 * (|c.b0 * x0| + |c.b1 * x1| + |c.b2 * x2| + |c.a1 * y1| + |c.a2 * y2| + |c.u|) := by
  have g2 := gam_mono hu (show 2 ≤ 6 by norm_num)
  have g3 := gam_mono hu (show 3 ≤ 6 by norm_num)
  have g4 := gam_mono hu (show 4 ≤ 6 by norm_num)
  have g5 := gam_mono hu (show 5 ≤ 6 by norm_num)
  have a0 := mul_le_mul_of_nonneg_right g2 (abs_nonneg (c.b0 * x0))
  have a1 := mul_le_mul_of_nonneg_right g4 (abs_nonneg (c.b1 * x1))
  have a3 := mul_le_mul_of_nonneg_right g3 (abs_nonneg (c.a1 * y1))
  have a4 := mul_le_mul_of_nonneg_right g5 (abs_nonneg (c.a2 * y2))
  have a5 := mul_le_mul_of_nonneg_right g5 (abs_nonneg c.u)
  unfold df2tBound
  linarith

/-- **The first two outputs** from any state `(s0, s1)`: `ya ≈ clip(b0·xa + s0)` and
    `yb ≈ clip(b0·xb + b1·xa − a1·ya + s1)`, with per-term bounds. -/
theorem fbiquad2_first_two_outputs_error (c : FBiquadCfg ℝ) (s0 s1 xa xb : ℝ) :
    let r1 := fbiquadUpdate2 M.ops c (s0, s1) xa
    let r2 := fbiquadUpdate2 M.ops c r1.1 xb
    |r1.2 - rclip c.mn c.mx (c.b0 * xa + s0)| ≤ gam u 2 * |c.b0 * xa| + gam u 1 * |s0| ∧
    |r2.2 - rclip c.mn c.mx (c.b0 * xb + c.b1 * xa - c.a1 * r1.2 + s1)| ≤
      gam u 2 * |c.b0 * xb| + gam u 4 * |c.b1 * xa| + gam u 3 * |c.a1 * r1.2| + gam u 3 * |s1| := by
  intro r1 r2
  obtain ⟨⟨hy1, hn1⟩, hy2, hn2⟩ := M.df2t_first_two_near c s0 s1 xa xb
  have e1 : r1.2 = _ := hy1
  have e2 : r2.2 = _ := hy2
  refine ⟨?_, ?_⟩
  · rw [e1]; exact hn1.rclip c.mn c.mx
  · rw [e2]; exact hn2.rclip c.mn c.mx

/-- **From rest with zero offset** (`u = 0`, state `(0, 0)`): ALL outputs of the rounded DF2T form, the first two
    included, obey the DF1 recurrence with zero pre-history on the form's own outputs, to rounding:
    `ya ≈ clip(b0·xa)`, `yb ≈ clip(b0·xb + b1·xa − a1·ya)`, and the third by `fbiquad2_third_output_error`. -/
theorem fbiquad2_from_rest (c : FBiquadCfg ℝ) (hu0 : c.u = 0) (xa xb : ℝ) :
    let r1 := fbiquadUpdate2 M.ops c (0, 0) xa
    let r2 := fbiquadUpdate2 M.ops c r1.1 xb
    |r1.2 - (df1Step (rclip c.mn c.mx) c.toExact (0, 0, 0, 0) xa).2| ≤ df2tBound u c xa 0 0 0 0 ∧
    |r2.2 - (df1Step (rclip c.mn c.mx) c.toExact (xa, 0, r1.2, 0) xb).2| ≤ df2tBound u c xb xa 0 r1.2 0 := by
  intro r1 r2
  obtain ⟨h1, h2⟩ := fbiquad2_first_two_outputs_error M c 0 0 xa xb
  simp only [df1Step, FBiquadCfg.toExact, df2tBound, hu0, mul_zero, abs_zero, add_zero, sub_zero] at h1 h2 ⊢
  exact ⟨h1, h2⟩

/-- **Every window of three consecutive samples of a rounded DF2T run obeys the clamped recurrence to rounding**
    (the floating point counterpart of `df2t_run_recurrence`): for any state, any history `pre` and three further
    inputs, the last output is within `df2tBound` of the exact DF1 expression of the last three inputs and the two
    preceding outputs of the same run. -/
theorem fbiquad2_run_recurrence_error (c : FBiquadCfg ℝ) (st : ℝ × ℝ) (pre : List ℝ) (xa xb xc : ℝ) :
    ∃ ys ya yb yc, (runP (fbiquadUpdate2 M.ops c) st (pre ++ [xa, xb, xc])).2 = ys ++ [ya, yb, yc] ∧
      |yc - (df1Step (rclip c.mn c.mx) c.toExact (xb, xa, yb, ya) xc).2| ≤ df2tBound u c xc xb xa yb ya := by
  rw [runP_append]
  exact ⟨_, _, _, _, rfl, (fbiquad2_third_output_error M c _ xa xb xc).2⟩

/-- the same for the four-element form: every sample of a rounded DF1 run is within `df1Bound` of the exact
    recurrence evaluated on the run's own stored state -/
theorem fbiquad4_run_recurrence_error (c : FBiquadCfg ℝ) (st : ℝ × ℝ × ℝ × ℝ) (pre : List ℝ) (x : ℝ) :
    let s := (runP (fbiquadUpdate4 M.ops c) st pre).1
    ∃ y, (runP (fbiquadUpdate4 M.ops c) st (pre ++ [x])).2 = (runP (fbiquadUpdate4 M.ops c) st pre).2 ++ [y] ∧
      |y - (df1Step (rclip c.mn c.mx) c.toExact s x).2| ≤ df1Bound u c x s.1 s.2.1 s.2.2.1 s.2.2.2 := by
  intro s
  rw [runP_append]
  exact ⟨_, rfl, (fbiquad45_vs_df1Step M c s 0 x).1⟩

/-- **Global closeness of the two forms for stable filters (linear regime).**  Run the four-element form from rest
    and the two-element form from `(u, u)` (`(0, 0)` for zero offset) on the same input sequence `x`, under rounding
    models `M1`, `M2` (possibly different; `FlModel.exact` for one of them compares a rounded run with the exact
    one).  If up to sample `N` neither run touches a limit, the per-step rounding bounds are at most `B1`, `B2`, and
    the impulse response `h` of the recursive part `1/(1 + a1 z⁻¹ + a2 z⁻²)` has `Σ_{k ≤ N} |h k| ≤ G` (finite for a
    stable filter), then the two outputs at sample `N` differ by at most `G·(B1 + B2)`. -/
theorem fbiquad_df1_df2t_sequences_close {u1 u2 : ℝ} (M1 : FlModel u1) (M2 : FlModel u2) (c : FBiquadCfg ℝ)
    (x : ℕ → ℝ) (N : ℕ) (G B1 B2 : ℝ)
    (hG : ∑ j ∈ Finset.range (N + 1), |impulse c.a1 c.a2 j| ≤ G) :
    let y1 := seqOut (fbiquadUpdate4 M1.ops c) (0, 0, 0, 0) x
    let y2 := seqOut (fbiquadUpdate2 M2.ops c) (c.u, c.u) x
    (∀ n, n ≤ N → c.mn < y1 n ∧ y1 n < c.mx ∧ c.mn < y2 n ∧ y2 n < c.mx) →
    (∀ n, n ≤ N → df1Bound u1 c (x n) (prev x 1 n) (prev x 2 n) (prev y1 1 n) (prev y1 2 n) ≤ B1) →
    (∀ n, n ≤ N → df2tBound u2 c (x n) (prev x 1 n) (prev x 2 n) (prev y2 1 n) (prev y2 2 n) ≤ B2) →
    |y2 N - y1 N| ≤ G * (B1 + B2) := by
  intro y1 y2 hlim hB1 hB2
  refine two_runs_close c.toExact x y1 y2 N B1 B2 G (fun n hn => ?_) (fun n hn => ?_) hG
  · obtain ⟨e, he, h⟩ := M1.df1_seq_inside c x n
    obtain ⟨l1, l2, -, -⟩ := hlim n hn
    have h' : y1 n = rclip c.mn c.mx (recVal c.toExact x y1 n + e) := h
    rw [h'] at l1 l2
    rw [h', rclip_eq_of_strict l1 l2, add_sub_cancel_left]
    exact he.trans (hB1 n hn)
  · obtain ⟨e, he, h⟩ := M2.df2t_seq_inside c x n
    obtain ⟨-, -, l1, l2⟩ := hlim n hn
    have h' : y2 n = rclip c.mn c.mx (recVal c.toExact x y2 n + e) := h
    rw [h'] at l1 l2
    rw [h', rclip_eq_of_strict l1 l2, add_sub_cancel_left]
    exact he.trans (hB2 n hn)

/-- the sequences of the previous theorem are the outputs of the list runs: `seqOut` enumerates `runP` -/
theorem fbiquad_seqOut_eq_run (c : FBiquadCfg ℝ) (x : ℕ → ℝ) (n : ℕ) :
    (runP (fbiquadUpdate4 M.ops c) (0, 0, 0, 0) ((List.range n).map x)).2 =
      (List.range n).map (seqOut (fbiquadUpdate4 M.ops c) (0, 0, 0, 0) x) ∧
    (runP (fbiquadUpdate2 M.ops c) (c.u, c.u) ((List.range n).map x)).2 =
      (List.range n).map (seqOut (fbiquadUpdate2 M.ops c) (c.u, c.u) x) := by
  rw [runP_seq, runP_seq]
  exact ⟨rfl, rfl⟩

/-- **In exact arithmetic the two forms agree exactly** (the `δ = 0` instance composed with `df2t_eq_df1_from_rest` of
    `Props/C03.lean`): the float model run of the two-element form from `(u, u)` and of the four-element form from
    rest produce the same outputs for every input list. -/
theorem fbiquad_exact_instance_df2t_eq_df1 (u : ℝ) (hu : 0 ≤ u) (c : FBiquadCfg ℝ) (xs : List ℝ) :
    (runP (fbiquadUpdate2 (FlModel.exact u hu).ops c) (c.u, c.u) xs).2 =
      (runP (fbiquadUpdate4 (FlModel.exact u hu).ops c) (0, 0, 0, 0) xs).2 := by
  have e2 : fbiquadUpdate2 (FlModel.exact u hu).ops c = df2tStep (rclip c.mn c.mx) c.toExact := by
    funext st x0
    obtain ⟨s0, s1⟩ := st
    rfl
  have e4 : fbiquadUpdate4 (FlModel.exact u hu).ops c = df1Step (rclip c.mn c.mx) c.toExact := by
    funext st x0
    obtain ⟨x1, x2, y1, y2⟩ := st
    have : (FlModel.exact u hu).fadd c.u (fbiquadSum (FlModel.exact u hu).ops c x0 x1 x2 y1 y2) =
        c.b0 * x0 + c.b1 * x1 + c.b2 * x2 - c.a1 * y1 - c.a2 * y2 + c.u := by
      simp only [fbiquadSum, FlModel.ops, FlModel.exact]; ring
    rw [FlModel.fbiquadUpdate4_eq, this]
    rfl
  rw [e2, e4]
  exact df2t_eq_df1_from_rest (rclip c.mn c.mx) c.toExact xs

/-! ## 3. Special filters under the rounding model with exact representable results (`FlModelX`) -/

section special
variable (X : FlModelX u)

/-- **`proportional(k)`** (`b0 = k`, all else zero, `u = 0`; limits `±∞`, i.e. any limits that contain the result):
    for every finite state the N = 4 / N = 5 update returns the single rounded product `fl(k·x0)` exactly. -/
theorem fproportional_returns (c : FBiquadCfg ℝ) (h1 : c.b1 = 0) (h2 : c.b2 = 0) (h3 : c.a1 = 0) (h4 : c.a2 = 0)
    (hu0 : c.u = 0) (x0 x1 x2 y1 y2 e1 : ℝ) (r1 : X.rep x1) (r2 : X.rep x2) (r3 : X.rep y1) (r4 : X.rep y2)
    (rp : X.rep (X.fmul c.b0 x0)) (hmn : c.mn ≤ X.fmul c.b0 x0) (hmx : X.fmul c.b0 x0 ≤ c.mx) :
    let y0 := X.fmul c.b0 x0
    fbiquadUpdate4 X.toFlModel.ops c (x1, x2, y1, y2) x0 = ((x0, x1, y0, y1), y0) ∧
    fbiquadUpdate5 X.toFlModel.ops c (x1, x2, y1, y2, e1) x0 = ((x0, x1, y0, y1, 0), y0) := by
  intro y0
  rw [FlModel.fbiquadUpdate4_eq, FlModel.fbiquadUpdate5_eq, X.sum_b0_only h1 h2 h3 h4 r1 r2 r3 r4 rp, hu0,
    X.fadd_zero_left rp, rclip_of_mem hmn hmx]
  exact ⟨rfl, rfl⟩

/-- **`IDENTITY` returns `x0`** bit-exactly for every finite state and sample, N = 4 and N = 5. -/
theorem fidentity_returns_x0 (c : FBiquadCfg ℝ) (h0 : c.b0 = 1) (h1 : c.b1 = 0) (h2 : c.b2 = 0) (h3 : c.a1 = 0)
    (h4 : c.a2 = 0) (hu0 : c.u = 0) (x0 x1 x2 y1 y2 e1 : ℝ) (r0 : X.rep x0) (r1 : X.rep x1) (r2 : X.rep x2)
    (r3 : X.rep y1) (r4 : X.rep y2) (hmn : c.mn ≤ x0) (hmx : x0 ≤ c.mx) :
    fbiquadUpdate4 X.toFlModel.ops c (x1, x2, y1, y2) x0 = ((x0, x1, x0, y1), x0) ∧
    fbiquadUpdate5 X.toFlModel.ops c (x1, x2, y1, y2, e1) x0 = ((x0, x1, x0, y1, 0), x0) := by
  have hp : X.fmul c.b0 x0 = x0 := by rw [h0, X.fmul_one_left r0]
  have := fproportional_returns X c h1 h2 h3 h4 hu0 x0 x1 x2 y1 y2 e1 r1 r2 r3 r4 (by rw [hp]; exact r0)
    (by rw [hp]; exact hmn) (by rw [hp]; exact hmx)
  simpa only [hp] using this

/-- **`HOLD` returns `y1`** bit-exactly (`a1 = −1`, all else zero) for every finite state and sample. -/
theorem fhold_returns_y1 (c : FBiquadCfg ℝ) (h0 : c.b0 = 0) (h1 : c.b1 = 0) (h2 : c.b2 = 0) (h3 : c.a1 = -1)
    (h4 : c.a2 = 0) (hu0 : c.u = 0) (x0 x1 x2 y1 y2 e1 : ℝ) (r0 : X.rep x0) (r1 : X.rep x1) (r2 : X.rep x2)
    (r3 : X.rep y1) (r4 : X.rep y2) (hmn : c.mn ≤ y1) (hmx : y1 ≤ c.mx) :
    fbiquadUpdate4 X.toFlModel.ops c (x1, x2, y1, y2) x0 = ((x0, x1, y1, y1), y1) ∧
    fbiquadUpdate5 X.toFlModel.ops c (x1, x2, y1, y2, e1) x0 = ((x0, x1, y1, y1, 0), y1) := by
  have hs : fbiquadSum X.toFlModel.ops c x0 x1 x2 y1 y2 = y1 := by
    unfold fbiquadSum
    simp only [FlModel.ops, h0, h1, h2, h3, h4]
    rw [X.fmul_zero_left r0, X.fmul_zero_left r1, X.fmul_zero_left r2, X.fmul_zero_left r4, X.fmul_neg_one_left r3,
      X.fadd_zero_right X.rep_zero, X.fadd_zero_right X.rep_zero, X.fsub_zero_neg r3, X.fsub_zero_right r3]
  rw [FlModel.fbiquadUpdate4_eq, FlModel.fbiquadUpdate5_eq, hs, hu0, X.fadd_zero_left r3, rclip_of_mem hmn hmx]
  exact ⟨rfl, rfl⟩

/-- **The two-element form**: `proportional(k)` with a zero first state word returns `fl(k·x0)` and the state
    `(s1, 0)` (for `k = 1`: `x0`, the pinned doc-test `[0.0, 1.0] → 3.0, [1.0, 0.0]`); `HOLD` on a state `(s0, 0)`
    returns `s0` and keeps the state. -/
theorem fspecial_df2t (c : FBiquadCfg ℝ) (h1 : c.b1 = 0) (h2 : c.b2 = 0) (h4 : c.a2 = 0) (hu0 : c.u = 0)
    (s0 s1 x0 : ℝ) (r0 : X.rep x0) (rs0 : X.rep s0) (rs1 : X.rep s1) :
    (c.a1 = 0 → s0 = 0 → X.rep (X.fmul c.b0 x0) → c.mn ≤ X.fmul c.b0 x0 → X.fmul c.b0 x0 ≤ c.mx →
      fbiquadUpdate2 X.toFlModel.ops c (s0, s1) x0 = ((s1, 0), X.fmul c.b0 x0)) ∧
    (c.a1 = 0 → s0 = 0 → c.b0 = 1 → c.mn ≤ x0 → x0 ≤ c.mx →
      fbiquadUpdate2 X.toFlModel.ops c (s0, s1) x0 = ((s1, 0), x0)) ∧
    (c.a1 = -1 → c.b0 = 0 → s1 = 0 → c.mn ≤ s0 → s0 ≤ c.mx →
      fbiquadUpdate2 X.toFlModel.ops c (s0, s1) x0 = ((s0, 0), s0)) := by
  have prop : c.a1 = 0 → s0 = 0 → X.rep (X.fmul c.b0 x0) → c.mn ≤ X.fmul c.b0 x0 → X.fmul c.b0 x0 ≤ c.mx →
      fbiquadUpdate2 X.toFlModel.ops c (s0, s1) x0 = ((s1, 0), X.fmul c.b0 x0) := by
    intro h3 hs0 rp hmn hmx
    rw [FlModel.fbiquadUpdate2_eq, hs0, X.fadd_zero_left rp, rclip_of_mem hmn hmx, h1, h2, h3, h4, hu0,
      X.fmul_zero_left r0, X.fmul_zero_left rp, X.fadd_zero_right rs1, X.fsub_zero_right rs1,
      X.fadd_zero_right X.rep_zero, X.fsub_zero_right X.rep_zero]
  refine ⟨prop, ?_, ?_⟩
  · intro h3 hs0 h0 hmn hmx
    have hp : X.fmul c.b0 x0 = x0 := by rw [h0, X.fmul_one_left r0]
    have := prop h3 hs0 (by rw [hp]; exact r0) (by rw [hp]; exact hmn) (by rw [hp]; exact hmx)
    rwa [hp] at this
  · intro h3 h0 hs1 hmn hmx
    rw [FlModel.fbiquadUpdate2_eq, h0, h1, h2, h3, h4, hu0, hs1, X.fmul_zero_left r0, X.fadd_zero_right rs0,
      rclip_of_mem hmn hmx, X.fmul_zero_left rs0, X.fmul_neg_one_left rs0, X.fadd_zero_right X.rep_zero,
      X.fsub_zero_neg rs0, X.fsub_zero_right X.rep_zero]

end special

/-! ## 4. The same with underflow (`FlModelU u eta`: `fl(a·b) = a·b·(1+δ) + η`, `|η| ≤ eta`; valid for every finite
    IEEE result, subnormal ones included; `eta = 2^-150` for binary32, `2^-1075` for binary64) -/

/-- **N = 4 / N = 5 with underflow**: the additive error inside the clamp is at most the relative bound `df1Bound`
    plus `(2(1+u)^5 + (1+u)^4 + (1+u)^3 + (1+u)^2)·eta`, for every state and input. -/
theorem fbiquad45_output_error_underflow {eta : ℝ} (U : FlModelU u eta) (c : FBiquadCfg ℝ)
    (x0 x1 x2 y1 y2 e1 : ℝ) :
    ∃ e, |e| ≤ df1Bound u c x0 x1 x2 y1 y2 + df1UflowGain u * eta ∧
      let y0 := rclip c.mn c.mx (c.b0 * x0 + c.b1 * x1 + c.b2 * x2 - c.a1 * y1 - c.a2 * y2 + c.u + e)
      fbiquadUpdate4 U.ops c (x1, x2, y1, y2) x0 = ((x0, x1, y0, y1), y0) ∧
      fbiquadUpdate5 U.ops c (x1, x2, y1, y2, e1) x0 = ((x0, x1, y0, y1, 0), y0) := by
  obtain ⟨e, he, h⟩ := (U.fbiquadJunction_near c x0 x1 x2 y1 y2).inside
  refine ⟨e, he, ?_⟩
  intro y0
  rw [U.fbiquadUpdate4_eq, U.fbiquadUpdate5_eq, h]
  exact ⟨rfl, rfl⟩

/-- **DF2T, third sample on, with underflow**: the relative bound `df2tBound` plus
    `((1+u)^5 + (1+u)^4 + (1+u)^3 + (1+u)^2 + (1+u))·eta`, from any state. -/
theorem fbiquad2_third_output_error_underflow {eta : ℝ} (U : FlModelU u eta) (c : FBiquadCfg ℝ) (st : ℝ × ℝ)
    (xa xb xc : ℝ) :
    let r1 := fbiquadUpdate2 U.ops c st xa
    let r2 := fbiquadUpdate2 U.ops c r1.1 xb
    let r3 := fbiquadUpdate2 U.ops c r2.1 xc
    ∃ e, |e| ≤ df2tBound u c xc xb xa r2.2 r1.2 + df2tUflowGain u * eta ∧
      r3.2 = rclip c.mn c.mx (c.b0 * xc + c.b1 * xb + c.b2 * xa - c.a1 * r2.2 - c.a2 * r1.2 + c.u + e) := by
  intro r1 r2 r3
  obtain ⟨hy, hn⟩ := U.df2t_third_near c st xa xb xc
  obtain ⟨e, he, h⟩ := hn.inside
  exact ⟨e, he, by rw [← h]; exact hy⟩

/-- the underflow model has instances: every `FlModel` (with `eta = 0`), and a rounding one for every `u, eta ≥ 0` -/
example (M : FlModel u) : FlModelU u 0 := M.toU
example (eta : ℝ) (hu : 0 ≤ u) (he : 0 ≤ eta) : FlModelU u eta := FlModelU.roundUp u eta hu he

/-! ## 5. Non-vacuity and tightness -/

/-- the model has an instance for every `u ≥ 0`: exact arithmetic (`δ = 0`), every real representable -/
example (u : ℝ) (hu : 0 ≤ u) : FlModelX u := FlModelX.exact u hu

/-- in the exact instance the float model IS the exact recurrence of `Props/C03.lean` (both forms) -/
example (u : ℝ) (hu : 0 ≤ u) (c : FBiquadCfg ℝ) (st : ℝ × ℝ × ℝ × ℝ) (x0 : ℝ) :
    (fbiquadUpdate4 (FlModel.exact u hu).ops c st x0).2 = (df1Step (rclip c.mn c.mx) c.toExact st x0).2 := by
  obtain ⟨x1, x2, y1, y2⟩ := st
  rw [FlModel.fbiquadUpdate4_eq]
  simp only [df1Step, FBiquadCfg.toExact, fbiquadSum, FlModel.ops, FlModel.exact]
  congr 1; ring

example (u : ℝ) (hu : 0 ≤ u) (c : FBiquadCfg ℝ) (st : ℝ × ℝ) (x0 : ℝ) :
    fbiquadUpdate2 (FlModel.exact u hu).ops c st x0 = df2tStep (rclip c.mn c.mx) c.toExact st x0 := by
  obtain ⟨s0, s1⟩ := st
  rfl

/-- **the per-term bound of `fbiquad_sum_error` is attained**: in the round-up instance with all products
    `b·x ≥ 0` and `a·y ≤ 0` the error equals the bound -/
theorem fbiquad_sum_error_tight (u : ℝ) (hu : 0 ≤ u) (c : FBiquadCfg ℝ) (x0 x1 x2 y1 y2 : ℝ)
    (p0 : 0 ≤ c.b0 * x0) (p1 : 0 ≤ c.b1 * x1) (p2 : 0 ≤ c.b2 * x2) (p3 : c.a1 * y1 ≤ 0) (p4 : c.a2 * y2 ≤ 0) :
    fbiquadSum (FlModel.roundUp u hu).ops c x0 x1 x2 y1 y2 -
        (c.b0 * x0 + c.b1 * x1 + c.b2 * x2 - c.a1 * y1 - c.a2 * y2) =
      gam u 5 * |c.b0 * x0| + gam u 5 * |c.b1 * x1| + gam u 4 * |c.b2 * x2| + gam u 3 * |c.a1 * y1| +
        gam u 2 * |c.a2 * y2| := by
  rw [abs_of_nonneg p0, abs_of_nonneg p1, abs_of_nonneg p2, abs_of_nonpos p3, abs_of_nonpos p4]
  simp only [fbiquadSum, FlModel.ops, FlModel.roundUp, gam]
  ring

/-- concrete numbers: `u = 1/4`, identity-like coefficients -/
example : fbiquadSum (FlModel.roundUp (1 / 4) (by norm_num)).ops ⟨1, 1, 1, -1, -1, 0, -10, 10⟩ 1 1 1 1 1 - 5 =
    gam (1 / 4) 5 * 2 + gam (1 / 4) 4 + gam (1 / 4) 3 + gam (1 / 4) 2 := by
  simp only [fbiquadSum, FlModel.ops, FlModel.roundUp, gam]
  norm_num

/-- a rounding instance of the model WITH the exactness laws: results in `S = ℤ` (say) are returned exactly, all
    others are rounded up -/
noncomputable example (u : ℝ) (hu : 0 ≤ u) : FlModelX u :=
  FlModelX.roundOutside u hu (fun x => ∃ n : ℤ, x = n) ⟨0, by simp⟩ ⟨1, by simp⟩
    (fun x ⟨n, h⟩ => ⟨-n, by rw [h]; push_cast; rfl⟩)

/-- the pinned doc-tests of `update` on floats, in every model in which the small integers are representable
    (`IDENTITY`: `[0,1,2,3], 4 ↦ 4, [4,0,4,2]`; `HOLD`: `[0,1,2,3], 7 ↦ 2, [7,0,2,2]`; N = 2 `IDENTITY`:
    `[0,1], 3 ↦ 3, [1,0]`), limits `±1000` standing for `±∞` -/
example (X : FlModelX u) (hr : ∀ n : ℤ, X.rep n) :
    fbiquadUpdate4 X.toFlModel.ops ⟨1, 0, 0, 0, 0, 0, -1000, 1000⟩ (0, 1, 2, 3) 4 = ((4, 0, 4, 2), 4) ∧
    fbiquadUpdate4 X.toFlModel.ops ⟨0, 0, 0, -1, 0, 0, -1000, 1000⟩ (0, 1, 2, 3) 7 = ((7, 0, 2, 2), 2) ∧
    fbiquadUpdate2 X.toFlModel.ops ⟨1, 0, 0, 0, 0, 0, -1000, 1000⟩ (0, 1) 3 = ((1, 0), 3) := by
  have r : ∀ n : ℤ, ∀ x : ℝ, x = n → X.rep x := fun n x h => h ▸ hr n
  refine ⟨?_, ?_, ?_⟩
  · exact (fidentity_returns_x0 X ⟨1, 0, 0, 0, 0, 0, -1000, 1000⟩ rfl rfl rfl rfl rfl rfl 4 0 1 2 3 0
      (r 4 _ (by norm_num)) (r 0 _ (by norm_num)) (r 1 _ (by norm_num)) (r 2 _ (by norm_num)) (r 3 _ (by norm_num))
      (by norm_num) (by norm_num)).1
  · exact (fhold_returns_y1 X ⟨0, 0, 0, -1, 0, 0, -1000, 1000⟩ rfl rfl rfl rfl rfl rfl 7 0 1 2 3 0
      (r 7 _ (by norm_num)) (r 0 _ (by norm_num)) (r 1 _ (by norm_num)) (r 2 _ (by norm_num)) (r 3 _ (by norm_num))
      (by norm_num) (by norm_num)).1
  · exact (fspecial_df2t X ⟨1, 0, 0, 0, 0, 0, -1000, 1000⟩ rfl rfl rfl rfl 0 1 3
      (r 3 _ (by norm_num)) (r 0 _ (by norm_num)) (r 1 _ (by norm_num))).2.1 rfl rfl rfl (by norm_num) (by norm_num)

/-- the hypotheses of `fbiquad_df1_df2t_sequences_close` are satisfiable by a rounding model, a feedback filter
    with offset and a nonzero input: neither run touches a limit on the first two samples -/
example : let c : FBiquadCfg ℝ := ⟨1 / 2, 1 / 4, 0, -1 / 2, 0, 1, -100, 100⟩
    let M := FlModel.roundUp (1 / 4) (by norm_num)
    let x : ℕ → ℝ := fun _ => 1
    let y1 := seqOut (fbiquadUpdate4 M.ops c) (0, 0, 0, 0) x
    let y2 := seqOut (fbiquadUpdate2 M.ops c) (c.u, c.u) x
    ∀ n, n ≤ 1 → c.mn < y1 n ∧ y1 n < c.mx ∧ c.mn < y2 n ∧ y2 n < c.mx := by
  intro c M x y1 y2 n hn
  rcases Nat.le_one_iff_eq_zero_or_eq_one.mp hn with rfl | rfl
  · simp only [y1, y2, seqOut, seqSt, fbiquadUpdate4, fbiquadUpdate2, fmacc, fclip, fbiquadSum, FlModel.ops,
      FlModel.roundUp, M, c, x]
    norm_num
  · simp only [y1, y2, seqOut, seqSt, fbiquadUpdate4, fbiquadUpdate2, fmacc, fclip, fbiquadSum, FlModel.ops,
      FlModel.roundUp, M, c, x]
    norm_num

end Idsp
