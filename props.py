"""Per-property configuration of ./check (what is proved, what is explored, which op families tie the model)."""

TRUSTED_BASE = [
    "Lean 4.33.0 kernel; axioms allowed: propext, Classical.choice, Quot.sound (audited with #print axioms on every run); no sorry/admit/native_decide/bv_decide/implemented_by/unsafe",
    "IdspModel/Rust.lean: wrapI/wrapU/arithI/shr/... are the semantics of rustc integer operations in the two profiles (validated by the correspondence stream on boundary lattices)",
    "hand-written model IdspModel/Model/*.lean is tied to /repo only by the behavioural correspondence (harness/src/gen.rs -> compiled Lean driver), which is sampled, not exhaustive, unless the evidence says so",
    "harness (Rust, catch_unwind, decimal I/O) and driver (Lean I/O, parsing) are trusted glue",
]

PROPS = {
    "C17": {
        "modules": ["C17", "C17w", "Audit1"],
        "families_exhaustive": ["osub_all"],
        "families": ["osub", "unwrap", "accu"],
        "n_quick": 60000, "n_thorough": 600000,
        "clauses_proved": [
            "overflowing_sub: w in {-1,0,1} and y-x = d - w*2^bits for every width and pair (overflowing_sub_exact)",
            "Unwrapper: returned value is the wrapped increment; accumulator = old + increment; reduces to the new sample (unwrapper_step, unwrapper_tracks_last)",
            "Unwrapper: wide output = old + running sum of increments modulo 2^bits(Q) for every sequence (unwrapper_sum), exactly while every prefix sum fits Q (unwrapper_sum_exact); widths 0 < bits(P) <= bits(Q), signed types",
            "Accu: n-th item = start + n*step mod 2^bits, iterator total (accu_nth)",
            "extension (Props/C17w.lean): Unwrapper::wraps = y / 2^S rounded to nearest (ties up), reduced to P (wraps_core, unwrapper_wraps_round); y = wraps*2^S + phase exactly, phase the signed S-bit residue (unwrapper_wraps_phase, unwrapper_wraps_phase_getters, unwrapper_phase_in); Accu has period 2^bits (accu_periodic)",
            "after the claims audit (Props/Audit1.lean): if the TRUE unwrapped phase (old + sum of increments as unbounded integers) stays within Q's range over the run, the wide output equals it exactly after every prefix (aud_unwrapper_exact_run; the hypothesis is about the true phase only, not about the wrapped accumulator)",
        ],
        "clauses_explored": [],
        "level_text": "Every clause of the property is a kernel-checked theorem about the model, for all widths, pairs, sample sequences and (start, step, n); the model is tied to the crate by correspondence on 3.6e5 op lines per run and by a native oracle that is exhaustive for i8 (and i16 in the thorough tier).",
        "level_note": "Model: overflowingSub, unwrapperUpdate, accuNext (IdspModel/Model/Unwrap.lean). Unwrapper::wraps (unwrapperWraps) is tied through a phase-word newtype (harness/src/pword.rs: P32 wraps i32 and implements the BitAnd<u32> + Signed + WrappingAdd bounds no primitive satisfies) with S in {1,2,16,31,32} on rounding-boundary states; Unwrapper::phase = unwrapperPhase. Not modelled: serde derives.",
        "rule": "osub: all i8 pairs (and all i16 pairs in thorough), lattice/random i32/i64; Unwrapper: random walks with forced wraps, each sequence distinct; Unwrapper::wraps::<P32, S> for S in {1,2,16,31,32} on rounding-boundary / extreme / random states; Accu: (start, step, n) triples",
    },
}

PROPS["C18"] = {
    "modules": ["C18", "Audit1"],
    "families": ["satscale"],
    "n_quick": 200000, "n_thorough": 2000000,
    "clauses_proved": [
        "exact inside the range for every documented shift 1..=32: floor((hi*2^32+lo)/2^shift) (sat_scale_exact)",
        "outside: constant +-(2^31 - 2^(shift-1)), independent of lo (sat_scale_clip)",
        "never panics for shift 1..=32, result in i32 (sat_scale_total) [after the fix: commit]",
        "monotone in (hi, lo) for 1 <= shift <= 16 (sat_scale_monotone_le16, stated on the closed form satScaleVal that sat_scale_eq_val proves equal to the model)",
        "NEGATION: not monotone for every shift 17..=32 (sat_scale_not_monotone_ge17, on the same closed form): known finding F-C18-a",
        "NEGATION: shift 32, hi = MIN saturates to 0 (sat_scale_shift32_min_is_zero): known finding F-C18-c",
        "after the claims audit (Props/Audit1.lean): monotonicity for 1 <= shift <= 16 and its failure for every 17 <= shift <= 32 restated directly on the model function saturatingScale, both profiles (aud_sat_scale_monotone_le16_model, aud_sat_scale_not_monotone_ge17_model)",
    ],
    "clauses_explored": [],
    "level_text": "All clauses are kernel-checked theorems about the model for every shift and every (lo, hi); the monotonicity clause is proved for shift <= 16 and its negation is proved for every shift >= 17 (known finding, the code really is non-monotone there). Correspondence covers all shifts 0..=40 incl. contract violations in both profiles; the native oracle checks every clause on boundary lattices for all 32 shifts.",
    "level_note": "Model: saturatingScale (IdspModel/Model/Unwrap.lean).",
    "rule": "per shift: hi at both clip boundaries +-3, extremes, random; lo extremes + random; adjacent (hi,lo) pairs",
}
PROPS["C10"] = {
    "modules": ["C10", "C10lp2", "C10lp2t"],
    "families": ["lowpass"],
    "n_quick": 100000, "n_thorough": 1000000,
    "clauses_proved": [
        "first order: for every k in [1, 2^31-1], EVERY i64 state, every x: no overflow in either profile, output and get() between previous output and input (lp1_between)",
        "first order: constant input reached exactly from every state (lp1_dc_reaches) and held (lp1_dc_fixed)",
        "set(x); get() = x (lp_set_get)",
        "second order: one-step linear form under explicit no-overflow preconditions (lp2_step_linear); for k0 != 0 and under the same no-overflow side conditions the only resting state under a constant input has velocity 0 and get() = x exactly, i.e. DC gain exactly 1 at rest (lp2_fixed_point_iff)",
        "NEGATION: second order wraps/panics near full scale (lp2_fullscale_overflow_witness): known finding F-C10",
        "SECOND ORDER (Props/C10lp2.lean), every documented Butterworth k (integer k, k0 = floor(k^2/2^32), k1 = -floor(sqrt(2 k^2)), 2^16 <= k <= 2^31/sqrt2), both profiles: exact error recursion with the two floor remainders (lp2_error_recursion); admissibility and complex characteristic roots of every such pair (lp2_butterworth_admissible); input-to-state stability through an exactly multiplicative quadratic Lyapunov form (lp2_settles_of_safe, lp2_settles_of_safe2); MAIN RESULT lp2_level_change_pm2p30: a filter in a START STATE (predicate Lp2Start2) at ANY level |xo| <= 2^30 - i.e. set(xo) on a filter whose velocity word is zero, e.g. a fresh one (lp2_start2_reset: the pair (set xo, 0); Rust's set() writes state[0] only, so set() on a RUNNING second-order filter is not covered), or the state reached at the end of an earlier settled step - switched to ANY constant |x| <= 2^30 - i.e. every step up to 2^31, including those whose first updates saturate the input difference - never panics or wraps, and after finitely many updates it is again a start state and get() and every output stay within 4*2^32/k + 4 LSB of x for ever, so steps can be chained indefinitely (small steps: symmetric sector-safe region; steps above 3*2^28: approach-phase argument with a first-quadrant invariant, a two-piece velocity bound, decay of the quadratic form over floor(2^32/b) updates and hand-off to a sector-safe region, Lemmas/Lp2Big*.lean); earlier partial forms kept (lp2_level_change_pm2p29, lp2_level_change_pm2p30_step); no panic and bounded outputs for ARBITRARY input sequences within +-2^29 from a state settled (Lp2Settled) at some |xo| <= 2^29, e.g. after a fresh set(xo) (lp2_any_input_pm2p29); settling over all states reachable from a fresh set() by histories within +-2^28 (lp2_reachable_settles_pm2p28)",
        "EXPLICIT SETTLING TIME (Props/C10lp2t.lean): in the setting of lp2_level_change_pm2p30 (every documented Butterworth k, levels within +-2^30, every step up to 2^31, both profiles, clipping included) no update ever panics and for EVERY n >= 2400*(2^32/k + 1) the state is a start state at x and get() and the output are within 4*2^32/k + 4 LSB of x (lp2_level_change_pm2p30_time; small steps with 2332: lp2_level_change_pm2p30_time_partial). The constant is not tight (observed: about 40*2^32/k); it comes from 275 halvings of the excess of the quadratic form to reach the exact equilibrium level, 28 halvings of the centred error, and the hand-off window of the approach phase",
    ],
    "clauses_explored": [
        "second order: the 5% overshoot bound (native sweep over k x level pairs, observed maximum 4.36%; a quadratic-form argument can only give about 37-50%, the analysis is a comment in Props/C10lp2t.lean, target statement lp2_overshoot_le_50_target unproved) and a TIGHT settling time (proved: 2400*(2^32/k+1); observed and used by the oracle: about 40*2^32/k); levels between 2^30 and 0.95 of full scale (native only)",
        "second order never wraps for steps whose target level is below 0.95 of full scale (native, against an unbounded-integer reference of the same recurrence)",
    ],
    "level_text": "The first-order clauses are theorems for all gains, all i64 states and all inputs. For the second order, no-overflow and settling within 4*2^32/k+4 LSB are theorems for every documented Butterworth gain and every step between levels within +-2^30 taken from a start state (a fresh set(), or the end of an earlier settled step; states reached by arbitrary histories only within +-2^28) (half of full scale; Lyapunov / input-to-state-stability argument over the integers plus an approach-phase argument for steps that saturate); with an explicit settling time of 2400*(2^32/k+1) updates; levels beyond 2^30 and the 5% overshoot are explored only; the failing full-scale clause is a proved negation and a known finding.",
    "level_note": "Model: lp1Update, lp2Update, lpGet, lpSet (IdspModel/Model/Lowpass.lean). Lowpass<N> for N other than 1, 2 is unimplemented!() in the code and not modelled.",
    "rule": "lp1: arbitrary/set()/reachable states x lattice gains x full-scale alternations; lp2: k lattice x level pairs; each configuration distinct",
}
PROPS["C01"] = {
    "families_exhaustive": ["cossin_all"],
    "modules": ["C01", "C01acc"],
    "families": ["cossin"],
    "n_quick": 300000, "n_thorough": 3000000,
    "clauses_proved": [
        "no overflow anywhere inside cossin for every phase, both profiles agree (cossin_total, cossin_mode_irrelevant, cossinCore_total_range)",
        "|cos|,|sin| <= 2147454703 < 2^31, negation fits, squared norm < 2^63 (cossin_range)",
        "result depends only on the octant and the 22-bit field; low 7 bits ignored (cossin_depends_only_on_field, cossin_ignores_low7)",
        "quarter turn: (-sin, cos) exactly; half turn; conjugation by bit complement (cossin_quarter_turn, cossin_half_turn, cossin_conj)",
        "quadrant mirror = XOR 0x3fffffff swaps the magnitudes of cos and sin exactly (cossin_quadrant_mirror, cossin_quadrant_mirror_abs, cossinMirror_is_xor)",
        "each output sums to exactly zero over all 2^32 phases (cossin_sum_zero), by pairing, not enumeration",
        "ACCURACY against the real cosine and sine (Mathlib Real.cos/Real.sin/Real.pi): |c/A - cos(p*pi/2^31)| <= 9.1e-6 < 1e-5 and likewise for sin, for all 2^32 phases (cossin_accuracy, cossin_accuracy_sharp, cossin_accuracy_full_holds; tightness witness cossin_accuracy_tight: 9.02e-6 is attained) -- per-row certificates (table quantisation + curvature + slope mismatch + floors), degree-13 Taylor enclosures from Complex.exp_bound, pi to 20 digits",
    ],
    "clauses_explored": [],
    "level_text": "Every clause of the property, including the accuracy against the real cos/sin, is a kernel-checked theorem for all 2^32 phases. The native oracle (all 2^32 phases in the thorough tier, f64) is kept as an independent cross-check of the implementation.",
    "level_note": "Model: cossin, cossinCore, cossinTable (IdspModel/Model/Cossin*.lean); the 128-entry table is compared with the table build.rs generated for the current build on every run (op cossin_tab). Reading of 'mirroring swaps cos and sin': magnitudes swap, signs follow the quadrant (the literal (s, c) is false in odd quadrants: cossin_quadrant_mirror_literal_false).",
    "rule": "quick: one phase per 256-block (2^24), closed under the half turn; thorough: all 2^32 phases; each phase checked for accuracy, range, three symmetries",
}
PROPS["C16"] = {
    "modules": ["C16", "Audit1"],
    "families": ["dsm"],
    "n_quick": 100000, "n_thorough": 1000000,
    "clauses_proved": [
        "range invariant for every K <= 7, every invariant state, every input list; never panics; both profiles agree (dsm_range, dsm_range_step, dsm_range_from)",
        "output is the exact (unbounded) MASH-1^K value; run equals the unbounded specification, for K <= 7 from every invariant state (dsm_mash, dsm_mash_run)",
        "error identity 2^32*sum(y) - sum(x) = function of the final state, for 1 <= K <= 7 and u32 inputs: within +-2^(K-1)*2^32 from Dsm::default() for every prefix (dsm_error_identity, dsm_error_step, dsm_err_bound, dsm_run_prefix) and, by the sharper Audit1 theorems below, from every invariant state",
        "constant input mean bound, from Dsm::default() (dsm_const_input_mean)",
        "K = 8 characterised exactly: deviates only when the exact output is +128 (dsm_step_upto8, dsm_run_upto8); NEGATION witness dsm_k8_overflow_witness: known finding F-C16-b",
        "K = 0 returns 0 (dsm_k0_zero; after the fix: commit)",
        "SHARPER after the claims audit (Props/Audit1.lean): from EVERY invariant state, 1 <= K <= 7, u32 inputs, the accumulated error 2^32 sum(y) - sum(x) lies strictly within +-2^(K-1)*2^32 - the factor 2 of dsm_error_identity_from is not needed, because the invariant confines the state term to half the range (aud_dsm_error_bound_from_sharp, aud_dsmErr_range; for the exact MASH outputs up to K = 8: aud_dsm_error_bound_from_sharp_exact_upto8); from the default state even +-2^(K-2)*2^32 (aud_dsm_error_bound_default_half)",
    ],
    "clauses_explored": [],
    "level_text": "Every clause is a K-generic kernel-checked theorem over all input lists (no enumeration): the range and exact-value clauses from every invariant state, the accumulated-error bound from every invariant state (Audit1), the mean clause from the default state; for K = 8 the exact deviation condition is proved and the property's failure is a proved negation with a 9-step witness (known finding).",
    "level_note": "Model: Dsm.update (IdspModel/Model/Dsm.lean).",
    "rule": "sequences from default: constant, 1-4 bit lattices, carry alignments, random; all 4^6 (4^8 thorough) sequences on the 2-bit lattice for every K; compared with an unbounded reference MASH",
}

PROPS["C12"] = {
    "modules": ["C12", "Audit1"],
    "families": ["cic_dec"],
    "n_quick": 100000, "n_thorough": 1000000,
    "clauses_proved": [
        "from Cic::new(rate), inputs in range: emits exactly at calls t with t % R = 0; tick() predicts it (decimate_emit_times, decimate_tick, decimate_tick_iff_some)",
        "m-th output = wrapI w (boxcar_R^{*N} * x)(mR) for every N, R, w, input list (decimate_eq_fir, decimate_outputs); exact when it fits (decimate_exact_when_fits)",
        "gain() = (rate+1)^N when rate, rate+1 and (rate+1)^N are representable in the sample type (gain_eq: whenever the checked call returns; gain_ok: it does return then); gain_log2 upper bound, exact for power-of-two R (gainLog2_bound, gainLog2_exact)",
        "rate 0 is the identity for every N (decimate_rate0_identity); get_decimate = last output (getDecimate_eq)",
        "after the claims audit (Props/Audit1.lean): gain does not depend on the filter state (aud_cic_gain_any_state); from ANY state with index i the decimator emits exactly at calls t with i <= t and (t - i) % R = 0 (aud_decimate_emit_times_any_state, aud_decimate_emit_times_offset, aud_decimate_tick_any_state)",
    ],
    "clauses_explored": [],
    "level_text": "Every clause is a theorem generic in the order N, the rate, the width and the input list, for runs from Cic::new(rate) (integrator wrap-around proved harmless via wrapI being a ring homomorphism; arbitrary in-range states: Props/C20c.lean).",
    "level_note": "Model: Cic.decimate/gain/gainLog2 (IdspModel/Model/Cic.lean), N = list length. set_rate mid-stream is outside the property. gain() casts `rate as T` (wraps for narrow T): stated in gain_eq_general.",
    "rule": "orders 0..=6, rates 0..=64 and powers of two, i8..i128, small and integrator-wrapping inputs; FIR reference computed modulo 2^128",
}
PROPS["C13"] = {
    "families": ["cic_int"],
    "n_quick": 100000, "n_thorough": 1000000,
    "clauses_proved": [
        "under the tick contract the run never hits the debug_assert / index underflow; tick true exactly every R calls (interpolate_contract_never_panics, interpolate_tick_period)",
        "every output = exact FIR (boxcar^N) of the held input whenever the checked run returns (interpolate_eq_fir, interpolate_eq_fir_sum); converse sufficient condition (interpolate_ok_of_fits)",
        "get_interpolate = last returned output (getInterpolate_eq_last)",
        "constant input: x*step response, settled = x*(rate+1)^N from response_length on, monotone between levels (interpolate_constant, interpolate_constant_settled, interpolate_level_change, stepResp_shape)",
        "settle_interpolate(x) is a fixed point with outputs x*gain and equals the state reached from new() after N+1 periods, whenever the checked calls return and the rate is representable (settle_fixed_point, settle_fixed_point_gain, settle_eq_run_from_zero, run_from_zero_settles; exact return condition: c20c_cic_settle_iff)",
        "contract violations panic in a checked build (interpolate_some_off_tick_checked_panics, interpolate_none_on_tick_checked_panics)",
    ],
    "clauses_explored": [],
    "level_text": "Every clause is a theorem generic in N, rate, width and the low-rate sequence; 'as long as no intermediate value overflows' is the hypothesis that the checked model run returns ok.",
    "level_note": "Model: Cic.interpolate/settleInterpolate (IdspModel/Model/Cic.lean). Release-mode behaviour under overflow is not claimed by the property and not proved.",
    "rule": "orders 0..=5, rates 0..=32, i32/i64/i128, arbitrary low-rate sequences sized to avoid overflow; contract violations in the correspondence stream",
}
PROPS["C05"] = {
    "trusted_extra": ["Props/C03F.lean, Props/C04F.lean, Props/C05q.lean (QuantFl), Props/C08F.lean (FlModelD / FlModelDX: with division / with the exactness law), Props/C15F.lean, Props/C15Fc.lean and Props/C15Fs.lean take the standard model of floating-point arithmetic as a hypothesis (structure FlModel u: each + - x returns exact*(1+d), |d| <= u; FlModelU adds an absolute underflow term; FlModelX: representable exact results are returned exactly; max/min exact). That IEEE binary32/64 satisfies it with u = 2^-24 / 2^-53 absent overflow is assumed (Higham, Accuracy and Stability of Numerical Algorithms, Thm 2.2), not proved; the bit-level behaviour incl. NaN/inf is tied by the fbiquad correspondence over Lean Float32/Float, which trusts the Lean runtime's float primitives to be IEEE."],
    "modules": ["C05", "C05q", "Audit1"],
    "families_exhaustive": ["num8_all"],
    "families": ["num"],
    "n_quick": 200000, "n_thorough": 2000000,
    "clauses_proved": [
        "macc = (clamp(floor(T/ONE)), T mod ONE), remainder in [0, ONE), floor*ONE + rem = T, parametric in (w, q) and for the four instances (macc_exact, macc_exact_instances); release wrap form (macc_release_wrap); checked overflow panics whenever T does not fit (macc_checked_overflow; the converse, no panic when it fits, is part of macc_exact, which needs in-range u, aligned in-range limits and 0 <= e1 < ONE); arbitrary e1 is a genuine bitwise or (macc_any_e1)",
        "mul_scaled = floor((a*b + ONE/2)/ONE) reduced to w bits, i.e. equal to it when representable (mul_scaled_exact; e.g. (-128)*(-128) in Q2.6 wraps to 0), x*ONE = x (mul_scaled_one), div_scaled = truncated quotient reduced to w bits, b = 0 panics (div_scaled_exact)",
        "-2 exactly representable (neg_two_representable); clip (clip_spec)",
        "QUANTIZE (Props/C05q.lean), real-valued specification quantizeR w q v = satI w (roundHalfAway (v*2^q)) of `(value * 2^Q).round() as T`, all w, q: WHEN THE ROUNDED VALUE FITS w bits - nearest coefficient, |q - v 2^q| <= 1/2 and no integer is closer (quant_nearest, quant_nearest_unique), ties go away from zero (quant_ties_away); FOR EVERY REAL v - saturation to MIN/MAX and nearest element OF THE TYPE'S RANGE (quant_saturates, quant_saturates_nearest, quant_fits_of_range), monotone (quant_monotone); exact on every representable coefficient k/2^q, ONE, NEG_ONE and -2 -> MIN for the four types, +2 saturates to MAX (quant_exact_on_coefficients, quant_constants, quant_constants_instances); odd symmetry of the rounding, and of quantize when neither side saturates (quant_odd, quant_odd_quantize); coefficient error at most 2^-(q+1) when it fits (quant_scale_error); under the explicit float hypotheses QuantFl (FlModelX + IEEE round-to-integral exact on representable values; power-of-two scaling without overflow/underflow exact) the float pipeline equals quantizeR (quant_float_eq, quant_float_nearest)",
        "STRENGTHENED after the claims audit (Props/Audit1.lean): macc in the checked profile returns IFF the exact total s + u ONE + e1 fits the accumulator type (aud_macc_checked_ok_iff); mul_scaled returns the unwrapped value floor((a b + ONE/2)/ONE) IFF -2^(w-1) ONE <= a b + ONE/2 < 2^(w-1) ONE, i.e. for the crate's Q2.x formats whenever the real product lies in [-2, 2) (aud_mul_scaled_value, aud_mul_scaled_value_of_small; wrap witness 127*127 in Q2.6 = -4: aud_mul_scaled_wraps_witness), div_scaled likewise with the exact representability condition of the quotient (aud_div_scaled_value, aud_div_scaled_value_of_small)",
    ],
    "clauses_explored": [
        "quantize on the real IEEE arithmetic (overflow to +-inf saturates, underflow, NaN -> 0 have no counterpart in the real-valued theorem): Lean Float transcription quantizeInt tied bit-exactly by the f_quantize correspondence; nearest-coefficient oracle natively for i16/i32/i64",
    ],
    "level_text": "The integer clauses are theorems parametric in the width and the number of fractional bits (bit-level offset split proved equal to u*ONE + e1); the float->fixed quantize clause is a theorem about the real-valued specification and, under the explicit float hypotheses QuantFl, about the float pipeline; the real IEEE corner cases are tied by correspondence.",
    "level_note": "Model: macc, mulScaled, divScaled, clip (IdspModel/Model/Num.lean). quantize: quantizeR (Lemmas/Quantize.lean, reals) and quantizeInt (DriverF.lean, Lean Float, op f_quantize). The float Coefficient impls are modelled in Model/BiquadF.lean.",
    "rule": "i8 macc: the complete (u, s) plane x limit pairs x e1 lattice (complete e1 range in thorough); i8 mul/div all pairs; wider types lattice + random",
}
PROPS["C03"] = {
    "trusted_extra": ["Props/C03F.lean, Props/C04F.lean, Props/C05q.lean (QuantFl), Props/C08F.lean (FlModelD / FlModelDX: with division / with the exactness law), Props/C15F.lean, Props/C15Fc.lean and Props/C15Fs.lean take the standard model of floating-point arithmetic as a hypothesis (structure FlModel u: each + - x returns exact*(1+d), |d| <= u; FlModelU adds an absolute underflow term; FlModelX: representable exact results are returned exactly; max/min exact). That IEEE binary32/64 satisfies it with u = 2^-24 / 2^-53 absent overflow is assumed (Higham, Accuracy and Stability of Numerical Algorithms, Thm 2.2), not proved; the bit-level behaviour incl. NaN/inf is tied by the fbiquad correspondence over Lean Float32/Float, which trusts the Lean runtime's float primitives to be IEEE."],
    "modules": ["C03", "C03F"],
    "families": ["biquad", "num", "fbiquad"],
    "n_quick": 150000, "n_thorough": 1500000,
    "clauses_proved": [
        "N = 4, 5: y0 = clamp(floor(T/ONE)), state = [x0, x1, y0, y1(, T mod ONE)] when every partial sum fits (update4_exact, update5_exact); release: only the total must fit (update45_release_exact); checked: whenever it returns it is exact (update45_checked_exact_of_ok); remainder stays in [0, ONE) (update5_remainder_range, run5_remainder_range)",
        "configuration unchanged (it is an argument of the model, not part of the result)",
        "IDENTITY returns x0, HOLD returns y1, proportional(k) returns clamp(floor(k*x0/ONE)) (identity_returns_x0, hold_returns_y1, proportional_exact, proportional_exact_of_representable)",
        "DF2T exact-arithmetic recurrence over any CommRing: clamped recurrence from the third sample on; equals DF1 from rest, 'rest' for DF2T being the state (u, u) ((0, 0) for zero offset: the _zero_offset variant) (df2t_third_output, df2t_run_recurrence, df2t_run_of_df1, df2t_eq_df1_from_rest, df2t_eq_df1_from_rest_zero_offset)",
        "NEGATION: a partial sum can overflow although the total fits, checked build only (update4_partial_sum_overflow_witness, update4_exact_checked_full_false): known finding F-C03",
        "FLOAT SAMPLE TYPES (Props/C03F.lean), the f32/f64 model fbiquadUpdate4/5/2 instantiated over the reals with the standard rounding model FlModel u (u = 2^-24 / 2^-53): the rounded summing junction is within g5|b0 x0| + g5|b1 x1| + g4|b2 x2| + g3|a1 y1| + g2|a2 y2| of the exact sum, gk = (1+u)^k - 1 (fbiquad_sum_error, fbiquad_sum_error_uniform, tightness fbiquad_sum_error_tight); the clamped output of N = 4, 5 is within df1Bound of clamp(exact) and the clamp never enlarges the error (fbiquad45_output_error, fbiquad45_vs_df1Step, clip_error_does_not_grow); N = 2: step, first two and third-output bounds against the exact DF1 recurrence (fbiquad2_step_error, fbiquad2_step_vs_exact, fbiquad2_first_two_outputs_error, fbiquad2_third_output_error, fbiquad2_run_recurrence_error, fbiquad4_run_recurrence_error); with gradual underflow (FlModelU: additional absolute term eta per product) (fbiquad45_output_error_underflow, fbiquad2_third_output_error_underflow); DF2T (from (u, u)) vs DF1 from rest over whole runs of a stable filter WHILE NEITHER OUTPUT TOUCHES A LIMIT: |y2 N - y1 N| <= G (B1 + B2) with G the l1 norm of the impulse response of the recursive part (fbiquad_df1_df2t_sequences_close, fbiquad_seqOut_eq_run, fbiquad_exact_instance_df2t_eq_df1); IDENTITY / HOLD / proportional return exactly x0 / y1 / fl(k x0) (the rounded product) under the IEEE exactness law FlModelX, for zero offset, representable samples and a result inside the limits (fidentity_returns_x0, fhold_returns_y1, fproportional_returns, fspecial_df2t)",
    ],
    "clauses_explored": [
        "f32/f64 against the real IEEE arithmetic: the same expression to floating-point rounding; DF2T reproduces DF1 from rest for stable filters (native, tolerance scaled by filter gain; the theorems above are about the standard rounding model, the bit-exact tie to Lean's Float32/Float is the fbiquad correspondence)",
    ],
    "level_text": "Fixed-point clauses are theorems for all four widths; the DF2T clause is a theorem about the exact-arithmetic recurrence over any commutative ring and, in Props/C03F.lean, about every arithmetic that satisfies the standard model of floating-point rounding (each + - x returns the exact result times 1+d, |d| <= u, optionally plus an absolute underflow term); that IEEE binary32/64 satisfies this model absent overflow is the textbook assumption and is part of the trusted base, not proved; NaN/inf behaviour is explored natively and tied bit-exactly by the fbiquad correspondence.",
    "level_note": "Model: biquadUpdate4/5/2, biquadAcc (IdspModel/Model/Biquad.lean); f32/f64: fbiquadUpdate4/5/2 (IdspModel/Model/BiquadF.lean) over an abstract carrier, tied bit-exactly with Lean Float32/Float (op family fbiquad). The fixed-point DF2T (documented as 'do not use') is tied by correspondence only.",
    "rule": "all widths, N in {4,5,2}, coefficient styles (arbitrary, integrator, double integrator, identity), fed-back histories, accumulator-overflow cases",
}
PROPS["C04"] = {
    "trusted_extra": ["Props/C03F.lean, Props/C04F.lean, Props/C05q.lean (QuantFl), Props/C08F.lean (FlModelD / FlModelDX: with division / with the exactness law), Props/C15F.lean, Props/C15Fc.lean and Props/C15Fs.lean take the standard model of floating-point arithmetic as a hypothesis (structure FlModel u: each + - x returns exact*(1+d), |d| <= u; FlModelU adds an absolute underflow term; FlModelX: representable exact results are returned exactly; max/min exact). That IEEE binary32/64 satisfies it with u = 2^-24 / 2^-53 absent overflow is assumed (Higham, Accuracy and Stability of Numerical Algorithms, Thm 2.2), not proved; the bit-level behaviour incl. NaN/inf is tied by the fbiquad correspondence over Lean Float32/Float, which trusts the Lean runtime's float primitives to be IEEE."],
    "modules": ["C04", "C04F", "C04Fr"],
    "families": ["biquad", "fbiquad"],
    "n_quick": 150000, "n_thorough": 1500000,
    "clauses_proved": [
        "min <= y <= max for N = 4, 5, 2, every state/input/coefficients, every step of every run (update4_in_limits, update5_in_limits, update2_in_limits, update45_in_limits_checked, run_in_limits)",
        "N = 4: state after two equal outputs under constant input is (x, x, lim, lim), independent of L; continuations identical (state4_after_two, no_windup4, no_windup4_recovery); N = 2 likewise (state2_after_two, no_windup2)",
        "N = 5: the four stored samples agree; continuation agrees given equal remainder (no_windup5_partial, no_windup5_recovery_partial)",
        "NEGATION: N = 5 response after saturation depends on L through the carried remainder (no_windup5_full_false): known finding F-C04",
        "FLOAT sample types (Props/C04F.lean, over an abstract carrier with uninterpreted + - *, needing only three maxNum/minNum facts, so rounding, infinities and NaN samples are covered): every single output of N = 4, 5, 2 within non-NaN limits mn <= mx (fclip_in_limits, fbiquad_in_limits) and every output of every N = 4 run (fbiquad_run_in_limits); no wind-up for N = 4 (fbiquad4_no_windup) and the one-step form for N = 2 (fbiquad2_no_windup; the run-level form is in Props/C04Fr.lean, next item)",
        "FLOAT, RUN LEVEL (Props/C04Fr.lean, any carrier; limits under the three clamp laws, no law at all for the wind-up part): every output of every run of N = 4, 5 and 2 from every state lies within non-NaN limits, NaN / infinite samples included (fbq_run_in_limits, fbq_run5_in_limits, fbq_run2_in_limits); no wind-up at run level for all three forms: two saturation episodes of different lengths L1, L2 >= 2 from different states whose last two outputs sit on the limit end in the SAME state and continue identically (fbq_no_windup2, fbq_state2_after_two, fbq_no_windup4, fbq_no_windup45_recovery); unlike the fixed-point N = 5 form (finding F-C04) the float N = 5 form has no carried remainder and satisfies the clause in full (fbq_no_windup5). Equality is carrier equality (bit identity for f32/f64)",
    ],
    "clauses_explored": [
        "that Rust's f32/f64 max/min satisfy the three clamp laws (IEEE maxNum/minNum; tied bit-exactly through the fbiquad correspondence incl. NaN/infinite samples) and bit-identical recovery on the implementation (native)",
    ],
    "level_text": "Limit and no-wind-up clauses are theorems for all widths and state forms; the N = 5 literal 'bit-identical' claim is false (proved negation, known finding, <= 1 LSB).",
    "level_note": "Model: as C03; float limits: Props/C04F.lean over the abstract carrier / the standard rounding model.",
    "rule": "integrating and double-integrating filters, all limit pairs on the lattice, saturation durations 2 vs 2+l within the same saturation episode, random continuations",
}

PROPS["C02"] = {
    "families_exhaustive": ["atani_all"],
    "modules": ["C02", "C02acc"],
    "families": ["atan2"],
    "n_quick": 200000, "n_thorough": 2000000,
    "clauses_proved": [
        "divi quotient in [0, 2^16] for all 0 <= y <= x < 2^31 (divi_quotient_bound) [after the fix: commit]",
        "atani never overflows on the complete quotient table (65537 points, decide +kernel), 5215 <= r <= 2^29+2599, monotone (atani_range, atani_mono)",
        "atan2 total for all i32 pairs, release = checked (atan2_total, atan2_never_panics, atan2_release_eq_checked); atan2(0,0) = 0; y = i32::MIN saturates (atan2_min_saturates; x = MIN is covered by totality and the accuracy theorem)",
        "quadrant: r < 0 <-> y < 0 and -2^30 <= r < 2^30 <-> 0 <= x (atan2_sign, atan2_half_plane, atan2_quadrant, atan2_axes)",
        "reflections about x axis / y axis / diagonal are exact complements off the mirror line (atan2_reflect_x_axis, atan2_reflect_y_axis, atan2_reflect_diagonal)",
        "NEGATION on the mirror line: atan2(0, x) = 5215 for x >= 2, atan2(2,2) = 2^29+2599 (atan2_axis_offset, atan2_reflect_*_full_false): known finding F-C02-b",
        "ACCURACY against the real angle (Mathlib Complex.arg, Real.arctan, Real.pi): |r*pi/2^31 - arg(x + y i)| <= max(1.5e-5, 1/max(|x|,|y|)) for ALL i32 pairs != (0,0), both profiles, without crossing the +-pi cut (atan2_accuracy, atan2_accuracy_full_holds, atan2_accuracy_release; atani_accuracy: polynomial within 2.3e-6 rad of arctan on all 65537 quotients by a chained kernel-evaluated enclosure; divi_angle_accuracy; atan2_first_octant_accuracy)",
    ],
    "clauses_explored": [],
    "level_text": "Every clause, including the accuracy against the real angle for all 2^64 pairs, is a kernel-checked theorem (complete kernel tables over the 65537 possible quotients for the polynomial's range and for its distance to arctan). The mirror-line reflection clause is false for the code (proved negation, known finding). The native oracle is kept as an independent cross-check of the implementation.",
    "level_note": "Model: divi, atani, atan2 (IdspModel/Model/Atan2.lean); the six polynomial coefficients are part of the model and tied by the atani correspondence.",
    "rule": "pairs: complete square |x|,|y| <= 2^8 (2^11 thorough), magnitude classes, near diagonal/axis, powers of two +0..3, MIN/MAX; each pair checked for accuracy, quadrant, three reflections",
}
PROPS["C06"] = {
    "families": ["pll"],
    "n_quick": 200000, "n_thorough": 2000000,
    "clauses_proved": [
        "never panics: the model of PLL::update is a total function (explicitly wrapping code; pll_total), and the only plain product of the Rust code fits i64 for all i32 operands (pll_mul_fits, a fact about abstract i32 e, k)",
        "gap: update(None) changes nothing but advances y0, x by f0 and y by f, for one and n gaps (pll_gap, pll_gap_iter)",
        "frequency loop decoupled from phase; monotone descent (pll_freq_decoupled, pll_freq_descent)",
        "Locked set: phase error in [0, 2^31/k+1], next frequency error <= 1, invariant under further updates (pll_locked_bounds, pll_locked_invariant)",
        "lock from ANY state within 64*floor(2^32/k)+64 updates for every 2^8 <= k < 2^31 and every f0 (pll_locks, pll_locks_sharp, pll_C06)",
    ],
    "clauses_explored": [],
    "level_text": "Every clause, including the numeric step bound for lock acquisition from an arbitrary state, is a kernel-checked theorem (all-integer halving argument).",
    "level_note": "Model: PLL.update (IdspModel/Model/Pll.lean). The gain is constant during acquisition, as the property states.",
    "rule": "native cross-check: gains 2^15..2^31-1 (2^10.. thorough) incl. powers of two +-1, f0 in {0, +-1, MIN, MAX, random}, scrambled prefixes; bound checked at n and for 3000 further updates",
}
PROPS["C14"] = {
    "families": ["hbf"],
    "n_quick": 3000, "n_thorough": 30000,
    "clauses_proved": [
        "stage refinement to a history-only specification; outputs depend only on (taps, history, block) (hbfdec_process_refines, hbfint_process_refines, *_depends_only_on_history)",
        "partition invariance for any two admissible partitions incl. empty blocks, stages and cascades of any depth (hbfdec_partition_invariant, hbfint_partition_invariant, hbfdec_cascade_partition_invariant, hbfint_cascade_partition_invariant, *_block_append, *_blocks_spec)",
        "output length = len/2, 2*len, len >> depth, len << depth; every slice expression in range, no zip cut short (hbfdec_output_length_in_range, hbfint_output_length_in_range, *_cascade_output_length, *_cascade_adm_of_block_size)",
    ],
    "clauses_explored": [
        "in-place vs separate-buffer processing on the real slices (aliasing is a Rust-level matter; compared bit-for-bit natively)",
    ],
    "level_text": "Partition invariance and index safety are theorems over an ARBITRARY carrier with uninterpreted add/mul/sum/half, so they hold verbatim for IEEE f32/f64; the buffers are modelled literally (stale tail included). In-place operation is the same function in the model and is compared natively.",
    "level_note": "Model: SymFir, HbfDec, HbfInt, cascades (IdspModel/Model/Hbf.lean); tied to the crate with Float32/Float instances, bit-exact.",
    "rule": "random f32/f64 streams cut two ways (0-length, granule, maximal and random blocks), all ten tap sets, cascade depths 0..=4, in place and separate",
}
PROPS["C15"] = {
    "trusted_extra": ["Props/C03F.lean, Props/C04F.lean, Props/C05q.lean (QuantFl), Props/C08F.lean (FlModelD / FlModelDX: with division / with the exactness law), Props/C15F.lean, Props/C15Fc.lean and Props/C15Fs.lean take the standard model of floating-point arithmetic as a hypothesis (structure FlModel u: each + - x returns exact*(1+d), |d| <= u; FlModelU adds an absolute underflow term; FlModelX: representable exact results are returned exactly; max/min exact). That IEEE binary32/64 satisfies it with u = 2^-24 / 2^-53 absent overflow is assumed (Higham, Accuracy and Stability of Numerical Algorithms, Thm 2.2), not proved; the bit-level behaviour incl. NaN/inf is tied by the fbiquad correspondence over Lean Float32/Float, which trusts the Lean runtime's float primitives to be IEEE."],
    "modules": ["C15", "C15spec", "C15F", "C15Fc", "C15Fs"],
    "families": ["hbf"],
    "n_quick": 3000, "n_thorough": 30000,
    "clauses_proved": [
        "over any commutative ring: stage output = convolution with the symmetric FIR [t0,0,t1,0,...,1,...,0,t0], decimated by two and halved / applied to the zero-stuffed input, with explicit index alignment (hbf_fir_shape, hbfdec_is_decimated_convolution, hbfint_is_convolution_of_zero_stuffed, symfir_window_sum, hbf_fir_sum_three_parts)",
        "after response_length() outputs of zero input every output is zero, stages and cascades, from any state (hbfdec_zero_after_response_length, hbfint_zero_after_response_length, *_cascade_zero_after_response_length, *_class versions for IEEE signed zeros)",
        "PUBLISHED SPEC for the exact (binary32) tap values over the rationals/reals, every depth 1..=4, both directions: taps are exactly the f32 values of the source literals (hbf_taps_are_binary32); the literal buffer model's impulse response is hbfCascadeFir (hbf_cascade_impulse_response_int/_dec); exactly symmetric, spans response_length()+1 samples, |DC - 1| < 1e-6 (hbf_cascade_symmetric, hbf_cascade_span, hbf_cascade_dc_gain); response = pure delay x real product of stage amplitudes (hbf_cascade_response_factorisation); pass band |gain - 1| <= 2.3e-7, ripple <= 2e-6 dB <= 3e-6 dB up to 0.4; stop band <= 1e-7 = -140 dB <= -138 dB from 0.6 to the high-rate Nyquist incl. all images (hbf_cascade_passband_ripple, hbf_cascade_stopband, hbf_cascade_spec_full_holds; tightness hbf_cascade_bounds_tight) -- certified by a kernel-run reflective interval checker on exact Chebyshev recurrences",
        "F32 EVALUATION (Props/C15F.lean), the stage model over the reals with the standard rounding model FlModel u, code's evaluation order (pair sum, times tap, left-to-right accumulation from zero; product l passes M-l+2 roundings): one symmetric-FIR output within sum_l g_{M-l+2} |(w[l]+w[2M-1-l]) t_l| of the exact value, tight (fhbf_symfir_error, fhbf_symfir_error_uniform, fhbf_symfir_error_tight); decimator and interpolator single outputs (fhbf_dec_output_error, fhbf_int_output_error; odd interpolator outputs are exact copies); BLOCK LEVEL: every output of every multi-block run from the zero state differs from the exact decimated convolution / convolution of the zero-stuffed input by at most the per-term bound, independent of run length (fhbf_dec_run_error, fhbf_int_run_error), uniform forms g_{M+4} (1/2 + sum|t|) B and g_{M+2} 2 sum|t| B for |x| <= B (fhbf_dec_run_error_uniform, fhbf_int_run_error_uniform); for the five published tap sets (the tied constants hbfTapsQ) in binary32: error <= c/2^24 * max|x| with c = 11, 8, 7, 7, 6 (decimator) and 14, 9, 7, 7, 6 (interpolator) (fhbf_dec_published_f32, fhbf_int_published_f32), so the C15spec figures hold for one f32 stage up to 8.4e-7 * max|x|",
        "F32 CASCADES (Props/C15Fc.lean): HbfDecCascade / HbfIntCascade models of depth 0..4 over the reals, rounded run (FlModel 2^-24) against the exact run, from the zero state, ANY admissible block partition, |x| <= B: every output differs by at most E_d * B, E_d assembled by the recursion (A, D) -> (g A, eps (A + D) + g D) from the per-stage constants and the stages' l1 gains (fhbf_dec_cascade_error, fhbf_int_cascade_error, fhbf_cascade_exact_amplitude); numbers: E_d <= c_d / 2^24 with c = 11, 30, 57, 94 (decimating) and 14, 49, 111, 217 (interpolating, input-referred) for d = 1..4 (fhbf_cascade_constants, fhbf_dec_cascade_error_f32, fhbf_int_cascade_error_f32), i.e. at most -105 dB / -97 dB of full scale sample by sample (fhbf_cascade_error_db)",
        "END TO END (Props/C15Fs.lean): the exact real cascades are ONE convolution with the published overall FIR hbfCascadeFir d (noble identities; fhbf_exact_cascade_is_published_fir), they are the Rat.cast image of the rational cascades of C15spec (fhbf_cascade_cast, fhbf_exact_int_cascade_impulse_response), and therefore (fhbf_f32_cascade_meets_published_fir): for every depth 1..4, both directions, any admissible partition, any input with |x| <= B, every output of the running f32 model (FlModel 2^-24) is within fhbfDecCascadeConst d / 2^24 * B (11, 30, 57, 94) resp. fhbfIntCascadeConst d / 2^24 * B (14, 49, 111, 217) of the output of the published FIR, whose symmetry, span, DC gain, ripple and attenuation are the C15spec theorems",
    ],
    "clauses_explored": [
        "the running f32 code on the real IEEE arithmetic: impulse response of the implementation on a dense frequency grid; stage = FIR to float rounding (native)",
    ],
    "level_text": "The FIR equivalence, zero-after-response-length and the complete published specification (symmetry, span, DC gain, pass-band ripple, stop-band attenuation incl. images) for the exact tap values are theorems; the effect of f32 rounding is bounded per stage under the standard model of floating-point arithmetic (an explicit hypothesis, see trusted base); the real IEEE arithmetic is explored only.",
    "level_note": "Model as C14. The tap values are constants of the crate; they are dumped at run time and used by the model driver.",
    "rule": "frequency grid 2^12 (2^15 thorough) points over 0..high-rate Nyquist per cascade depth and direction; FIR check on random streams for all ten tap sets",
}

PROPS["C07"] = {
    "modules": ["C07", "C07lock", "C07region"],
    "families": ["rpll"],
    "n_quick": 200000, "n_thorough": 2000000,
    "clauses_proved": [
        "returned pair = (phase(), frequency()) of the new state, both profiles (rpll_returns_getters)",
        "missing sample advances only the phase by f (rpll_none_advances, rpll_none_advances_release, rpll_none_contract)",
        "EXACT no-panic contract of update(Some x) from an in-range state: dt2 <= 30, dt2 < sf <= 32, dt2 <= sp < dt2+32 and the u64 product condition ff*(dx as u64) + 2^(sf-1) < 2^64 (rpll_checked_ok_iff); a non-negative timestamp step is sufficient (rpll_total_under_contract) and, when ff >= 2, necessary (rpll_negative_dx_panics)",
        "frequency-loop closed form and dead band (in-range state, contract, rounded quotient below 2^32): ff' = ff iff 2^(32+dt2) - 2^(sf-1) <= ff*dx < 2^(32+dt2) + 2^(sf-1) (rpll_ff_update, rpll_dead_band, rpll_dead_band_iff)",
        "NEGATION of the lock clause: dead-band orbit with 0.0162 turns phase error for ever (rpll_lock_phase_false_witness: F-C07-a); admissible configuration that never locks (rpll_never_locks_B, rpll_lock_full_false: F-C07-b)",
        "POSITIVE lock theorems (Props/C07lock.lean), all for runs from RPLL::new(dt2) with update k at counter time k*2^dt2 starting at 0 and the reference edges at any offset: on the whole admissible region the frequency loop is an autonomous recursion that never wraps and converges geometrically into its dead band within 2^(sf-dt2+5) updates: relative error of ff <= 2^(sf-dt2-33) + 2^-20 (rpll_ff_converges, rpll_ff_geometric); on the sub-region 3*2^dt2 < P <= 2^sp the coupled phase loop contracts globally and from update 2^(sf-dt2+5) + b on, for ever, every offset, both profiles, frequency and phase errors are within explicit envelopes envF, envP (rpll_locks_within_envelope); where those envelopes are below 1e-5 / 1e-3 the property's lock clause holds literally (rpll_lock_holds_where_envelope_small; example dt2 = 8, sf = 16, sp = 15, P = 4000, every offset: rpll_lock_example)",
        "LOCK CLAUSE LITERALLY, ON A REGION (Props/C07region.lean): for every configuration in rpllRegion (a kernel-checked table of 224 (dt2, shift_frequency, shift_phase) triples, each with a period interval [Plo, Phi]; exactly the triples with sp - d >= 3 and sf - d <= 14) and every reference offset, run from RPLL::new(dt2) as above, both profiles: no panic, and after 2^(sf-dt2+5) + 2^(sp-dt2+5) updates and for ever the frequency is within relative 1e-5 and the phase within 1e-3 turns (rpll_lock_region); closed-form sub-region: d in 2..11, sp in {sf-1, sf}, sp - d >= 4, sf - d <= 14, max(8 or 12 times 2^d, 2^(sf+sp-d-19)) <= P <= 5/6 2^sp (sf - d <= 11) or 2^sp / 9 (rpllRegionClosed_sub, rpll_lock_region_closed). Proof: worst-case evaluation of the four envelope inequalities over a P interval (monotonicity of Qm, Lim, Nb, envF, envP in P), adaptive bisection with a soundness proof, one decide +kernel over about 8400 leaves. Coverage of the property's admissible region (uniform over the 470 triples, logarithmic in P): table 17.8%, closed form 12.9%; outside: sf - d >= 15 (frequency envelope above 1e-5 / dead-band offset above 1e-3: the finding classes), P <= 3*2^d and P > 2^sp (outside Good). None of the crate's seven test configurations lies inside the region (proved by decide)",
    ],
    "clauses_explored": [
        "lock within 2^(sf-dt2+5)+2^(sp-dt2+5) updates to 1e-5 / 1e-3 turns over the admissible region (native sweep, timestamps crossing the i32 boundary); misses are accepted only inside the two listed finding classes with their quantitative envelopes",
    ],
    "level_text": "Structural clauses (getters, contract, dead band) are theorems; the lock clause as stated is FALSE for the code (two proved witnesses). What the loop does guarantee is proved instead: convergence of the frequency loop on the whole admissible region and lock within explicit envelopes on the sub-region 3*2^dt2 < P <= 2^sp (the literal clause where the envelopes are small). The rest of the region is explored natively against the listed finding classes.",
    "level_note": "Model: RPLL.update (IdspModel/Model/Rpll.lean). The state rpllStar of the dead-band witness is reached from RPLL::new(8) after 1572864 updates by #eval and by the native oracle, not inside the kernel.",
    "rule": "admissible (dt2, sf, sp, P, offset) with P at both ends, powers of two +-1 and random; update instants aligned to 2^dt2; sf-dt2 <= 13 (17 thorough)",
}
PROPS["C08"] = {
    "trusted_extra": ["Props/C03F.lean, Props/C04F.lean, Props/C05q.lean (QuantFl), Props/C08F.lean (FlModelD / FlModelDX: with division / with the exactness law), Props/C15F.lean, Props/C15Fc.lean and Props/C15Fs.lean take the standard model of floating-point arithmetic as a hypothesis (structure FlModel u: each + - x returns exact*(1+d), |d| <= u; FlModelU adds an absolute underflow term; FlModelX: representable exact results are returned exactly; max/min exact). That IEEE binary32/64 satisfies it with u = 2^-24 / 2^-53 absent overflow is assumed (Higham, Accuracy and Stability of Numerical Algorithms, Thm 2.2), not proved; the bit-level behaviour incl. NaN/inf is tied by the fbiquad correspondence over Lean Float32/Float, which trusts the Lean runtime's float primitives to be IEEE."],
    "modules": ["C08", "C08F"],
    "families": ["pid", "repr"],
    "n_quick": 60000, "n_thorough": 600000,
    "clauses_proved": [
        "over any field: the built coefficients realise (g0+g1 D+g2 D^2)/(l0+l1 D+l2 D^2), D = 1 - z^-1, at every (complex) frequency, with g_i the period-scaled gains and l_i = g_i/limit_i, l = 1 for P, whenever l0+l1+l2 != 0 - which pid_transfer_signs derives from matching signs and period > 0 (pid_transfer, pid_transfer_ratio, pid_transfer_complex, pid_transfer_signs, pid_gains_order_P/I/I2, pid_lsum_ge_one)",
        "no limits: feedback coefficients are exactly the integrator kernel for ANY coefficient type and quantiser with quantize 0 = 0, quantize 1 = ONE; -2*ONE representable (pid_exact_kernel, pid_exact_kernel_int)",
        "order P with a lone proportional gain builds exactly [quantize g, 0, 0, 0, 0] (pid_order_p_lone_gain)",
        "FLOAT EVALUATION (Props/C08F.lean), the builder model over the reals with rounded + - x / (structure FlModelD u, the standard model with a division law; relative-error calculus fpidRel closed under products, quotients and sums of non-negative terms): every period-scaled gain and normalised limit carries at most 6 roundings (fpid_gl_error gives order+5 = 7 for the l0 slot in general; 6 after the exact slots of fpid_gl_exact_slots are taken out), the normalisation 1/(l0+l1+l2) at most 10, every value handed to quantize at most 17 (fpid_gain_error), hence float coefficients are within g21 times the sum of the magnitudes of their terms of the exact rational coefficients of Props/C08.lean (fpid_float_coeff_error) and each fixed-point quantised gain is within g17 |exact| 2^q + 1 LSB of quantizeR of the exact value (fpid_fixed_gain_error, fpid_quantizeR_lipschitz); numbers: g17 <= 18 u, g21 <= 22 u for u = 2^-24, 2^-53 (fpid_gamma_numbers). The exact integrator kernel without limits holds for every coefficient type under the IEEE exactness law (operations with representable exact results are exact: fpid_exact_kernel_rounded) and is FALSE under the bare standard model (fpid_exact_kernel_needs_exactness: a model that rounds 0+1 gives a1 = -4/9) - so that clause genuinely depends on IEEE exactness, which the correspondence (exact equality of a1, a2 for the integer types when no limit is set) checks on the real arithmetic",
    ],
    "clauses_explored": [
        "the real IEEE arithmetic and powi (the rounding theorems of C08F are about the standard model with the model's 1/((1*p)*p) for powi); Pid::build's copysign / NaN-to-infinity glue (modelled in the driver, tied by correspondence)",
    ],
    "level_text": "The transfer-function identity and the exact-kernel clause are theorems over exact field arithmetic and an abstract quantiser; floating-point rounding is outside the theorems and is tied by tolerance correspondence and explored natively.",
    "level_note": "Model: pidGl, pidBuild (IdspModel/Model/Coeff.lean), an unset limit is `none` (g/inf = 0). Pid::build (scaling, copysign, NaN limit = infinity, set_input_offset, limits) and BiquadRepr::Ba::build are modelled in the driver only (Lean Float, op family repr): translation-validated glue, no theorems; PidBuilder::<f32> through float32Ops (op f_pid32, compared per gain). BiquadRepr::{Pid, Filter, Raw, default} are driven through the enum; FilterRepr's private leaves are set through miniconf's TreeAny interface (op f_filterrepr). Not modelled: serde/miniconf (de)serialisation itself.",
    "rule": "orders x set/unset gain and limit masks x 18 decades x periods; transfer function compared cross-multiplied at random frequencies; kernel exactness for f32 f64 i16 i32 i64",
}
PROPS["C09"] = {
    "families": ["coeff", "repr"],
    "n_quick": 100000, "n_thorough": 1000000,
    "clauses_proved": [
        "over the reals, for all nine builders: DC / Nyquist / f0 response identities, allpass |H| = |gain| at every frequency, I/HO pole exactly at z = 1 (lowpass_response ... iho_response, polyZi_on_circle)",
        "stability: Jury conditions for the eight stable types and 'Jury implies both complex roots inside the unit disc' (build_jury, build_poles_in_disc, jury_roots_in_disc', iho_poles')",
        "gain is a pure output scale for every builder and every shape incl. Slope (build_gain_scale, build_gain_neg) [after the fix: commit; the original formula is refuted: slope_original_poles_move, slope_original_radicand_neg]",
        "Biquad::from(&ba): divides by a0 and is exactly invariant under common scaling for an ABSTRACT quantiser (biquadFromBa_div, biquadFromBa_scale); the rounding itself, stated on the helper quantizeQ Q v = roundHalfAway(v 2^Q) (no saturation; saturation and the link to the float pipeline are Props/C05q.lean): nearest integer, 1 LSB stability (quantize_nearest, quantize_close)",
        "validity of the shape parameter: Q > 0, bandwidth > 0 always; slope iff s(sqrt(shelf)-1)^2 < shelf+1 (valid_q, valid_bandwidth, valid_slope_iff, valid_slope_partial); NEGATION for steep slopes (valid_slope_full_false: F-C09-b)",
    ],
    "clauses_explored": [
        "f64 evaluation: finite coefficients, the identities to rounding (tolerance scaled with alpha), Jury inequalities in floating point, quantisation for i32",
    ],
    "level_text": "All identities, stability and the gain-scale clause are theorems over the real numbers; f64 rounding and libm are outside the theorems (tolerance correspondence + native sweep). Two parameter regions inside the stated range break the clause on the real code and are known findings (negative slope radicand; alpha beyond f64 precision).",
    "level_note": "Model: FilterCfg builders, qi, biquadFromBa (IdspModel/Model/Coeff.lean) over an abstract scalar record; Lean Float instance in the driver. Filter::<f32> through float32Ops (op f_coeff32); every frequency / Q setter spelling is exercised; gain_db/shelf_db, critical_frequency(f * period), the b scaling and the scaled offset / limits of BiquadRepr::Filter are modelled in the driver (op f_filterrepr), the way back <[[f64;3];2]>::from(&Biquad) by op f_to_ba. Not modelled: serde/miniconf (de)serialisation itself.",
    "rule": "log-uniform f0 1e-4..0.49, shape 0.1..50 (Q, bandwidth, slope), gain +-1e-2..1e2, shelf 1e-2..1e2, all nine types",
}
PROPS["C11"] = {
    "modules": ["C11", "C11rec"],
    "families": ["lockin", "complex"],
    "n_quick": 100000, "n_thorough": 1000000,
    "clauses_proved": [
        "update(sample, phase) = update_iq(sample, from_angle(phase)) for every state, sample, phase, configuration, both profiles (lockin_update_eq_bind, lockin_update_eq_update_iq, lockin_update_of_cossin, lockin_step)",
        "mixer: floor(sample*lo/2^31) componentwise, never overflows, exact for LO values from cossin (cmul_scaled_i32_never_panics, cmul_scaled_i32_exact, lockin_mixer_exact); i16 and complex variants with their exact panic conditions (cmul_scaled_i16_never_panics, cmul_scaled_c_panics_iff, cmul_scaled_c_value)",
        "abs_sqr / log2 panic iff both components are i32::MIN; saturating add/sub in range (abs_sqr_panics_iff, log2_panics_iff, abs_sqr_value, log2_value, csat_add_sub_range)",
        "RECOVERY (Props/C11rec.lean), every documented Butterworth pair with 2^20 <= k <= 2^25, every 0 <= A <= 2^30, every theta, start phase and reference frequency word in 0.05..0.45, Lockin started from the zero state, samples within 1 of A cos(phi_n + theta), mean over any window of >= 4096 outputs after 40*2^32/k samples, both profiles: the run never panics; mixer = R(cos theta + cos(2 phi + theta), -sin theta + sin(2 phi + theta)) up to 9.1e-6 A + 2 (lockin_recovery_mixer); both mean components within 1.9e-5 A + 2.2*2^32/k + 6 of R(cos theta, -sin theta), R = A*A0/2^32 (lockin_recovery_window_sum, lockin_recovery_components); magnitude and angle error bounds in general (lockin_recovery_magnitude_general, lockin_recovery_angle_general: |delta| <= 5.4e-5 + 6.3*2^32/(k A) + 17.1/A); relative magnitude within 1e-3 whenever k A >= 2^45 and angle within 2e-4 rad whenever k A >= 3*2^46 (lockin_recovery_magnitude_partial, lockin_recovery_angle_partial)",
        "NEGATION of the recovery clause as stated: k = 2^20, A = 2^23, theta = pi/4, F = 2^30: angle error > 9.7e-4 rad, kernel-evaluated 167936-update run (lockin_recovery_angle_witness, lockin_recovery_full_false): known finding F-C11",
    ],
    "clauses_explored": [
        "recovery in the gap between the certified thresholds (k A >= 2^45 magnitude, k A >= 3*2^46 angle) and the property's full range (native sweep; small amplitudes miss the angle bound: known finding F-C11, now also a proved negation)",
    ],
    "level_text": "The equality clause, the mixer arithmetic and the end-to-end recovery (cossin accuracy + mixer + input-to-state stability of the quantised second-order lowpass + attenuation and averaging of the 2f tone) are theorems with explicit error terms; they certify the stated 1e-3 / 2e-4 tolerances when k*A is large enough; the clause as stated for all A >= 2^23 is false for the code (proved negation, known finding). The gap between the certified thresholds and the true ones is explored natively.",
    "level_note": "Model: lockinUpdate, lockinUpdateIq, cmulScaled* (IdspModel/Model/Complex.lean), Lockin<Lowpass<2>>.",
    "rule": "A in {2^23, 2^30, random}, theta, f in 0.05..0.45, k in {2^20, 2^25, random}, random start phase; >= 1.6e5 samples per case; equality clause from arbitrary filter states",
}
PROPS["C19"] = {
    "families": ["cossin", "atan2", "complex"],
    "n_quick": 150000, "n_thorough": 1500000,
    "clauses_proved": [
        "from_angle, arg, abs_sqr, log2 never panic on unit vectors, release = checked (polar_total)",
        "log2 = -2 and 2^31(1 - 5e-5) <= abs_sqr < 2^31 for EVERY phase (polar_log2, polar_abs_sqr; 128-row kernel table + exact norm identity)",
        "the unit vector is never on an axis or diagonal, so C02's reflection theorems apply (polar_off_mirror_lines)",
        "round-trip error is reproduced exactly under quarter turn / half turn, negated under conjugation and quadrant mirror; the returned ANGLE is constant over 128-phase blocks (so the error varies by at most 127 LSB inside a block, which the reduction absorbs); hence the bound for all 2^32 phases follows from 2^22 first-octant fields (polar_roundtrip_quarter_turn, _half_turn, _conj, _mirror, _low7, polar_roundtrip_reduction, polar_roundtrip_full_of_fields)",
        "ROUND TRIP: |wrapI 32 (arg(from_angle p) - p)| <= 15038 LSB for all 2^32 phases (polar_roundtrip, polar_roundtrip_full_holds): complete kernel evaluation of the 2^22 first-octant fields (32 generated chunk files, decide +kernel, about 38 CPU-minutes cold) lifted by the symmetry reduction",
    ],
    "clauses_explored": [],
    "level_text": "Every clause is a kernel-checked theorem for all 2^32 phases: magnitude clauses by a 128-row table and an exact norm identity, the round-trip bound by complete kernel evaluation of the 2^22 first-octant fields lifted through the proved symmetries. The native oracle (all 2^32 phases in the thorough tier) is kept as an independent cross-check of the implementation.",
    "level_note": "Model: fromAngle, carg, absSqr, clog2 (IdspModel/Model/Complex.lean) on top of the C01/C02 models.",
    "rule": "quick: one phase per 256-block; thorough: all 2^32 phases",
}
PROPS["C20"] = {
    "modules": ["C20", "C20b", "C20c", "NonVacuity"],
    "families": ["osub", "satscale", "unwrap", "accu", "dsm", "pll", "lowpass", "cic_dec", "cic_int", "num", "biquad",
                 "cossin", "atan2", "complex", "lockin", "rpll", "sweep", "hbf", "fbiquad", "coeff", "pid", "glue", "repr"],
    "n_quick": 20000, "n_thorough": 200000,
    "clauses_proved": [
        "per entry point: the checked model returns ok on the documented domain (c20_dsm: K <= 7 from the default state; c20_cic_interpolate: any error of a contract-driven run is one of the two arithmetic overflow sites, never an index / assertion panic) (c20_cossin, c20_atan2, c20_polar, c20_abs_sqr_log2, c20_cmul, c20_cmul_complex, c20_pll, c20_rpll, c20_lowpass1, c20_saturating_scale, c20_dsm, c20_cic_interpolate, c20_macc, c20_mul_div, c20_sweep_next); CIC decimator, Unwrapper, Accu, overflowing_sub, PLL are total functions of the model (explicitly wrapping code)",
        "half-band filters: every slice expression in range for admissible blocks (C14: hbfdec_output_length_in_range, hbfint_output_length_in_range, cascades)",
        "NEGATIONS (known findings): Lowpass<2> full scale (c20_neg_lowpass2), Dsm<8> (c20_neg_dsm8), Biquad partial sum (c20_neg_biquad_partial_sum)",
        "REMAINING ENTRY POINTS (Props/C20b.lean, 28 corollaries of theorems in the other property files, uniform shape 'inside the documented domain the checked model returns .ok'): overflowing_sub / Unwrapper::update / Accu::next (total by type + range facts), Cic::decimate for any order, rate, width, input (c20b_cic_decimate), Cic::gain where R^N is representable, Cic::interpolate where the exact recursion fits; Lowpass<2>: any input sequence within +-2^29 from a settled state or after set(), every step between levels within +-2^30 (c20b_lowpass2_*), and the unconditional clause 'any sample' proved FALSE (c20b_lowpass2_any_sample_full_false: F-C10); Lockin: one step reduces to the two Lowpass<2> updates, tone runs with A <= 2^30 never panic (c20b_lockin_step, c20b_lockin_run); Dsm K = 0 (after the fix), K <= 7 from every invariant state, 1 <= K <= 8 returns iff no exact MASH output equals +128 (c20b_dsm_*); half-band stages and cascades: for admissible block lists every slice bound of the Rust code holds and the output counts match the debug assertions (c20b_hbf*); fixed-point Biquad update::<4/5>: checked .ok when every partial sum fits, release always; quantize and Biquad::from saturate into range; complex from_angle / arg / saturating add, sub. The file ends with the explicit list of entry points that had NO no-panic theorem; most of them are closed by Props/C20c.lean (next item); still without one: Lowpass<2> beyond the proved domains, Lockin for non-tone inputs, Repeat/Cascade over Lowpass<2>, Sweep::fit and the float helpers, PidBuilder::build on floats, svf - covered by the checked-profile correspondence and the native oracle only",
        "GAPS CLOSED (Props/C20c.lean, 23 property theorems + 19 in its Lemmas/C20c*.lean files): the Filter combinators never panic for any i32 sample, any gain 1 <= k <= 2^31-1 and any in-range state - Nyquist, Repeat<N, Lowpass<1>> for EVERY N, Cascade<Lowpass<1>, Nyquist>, AccuOsc over Sweep (c20c_nyquist, c20c_repeat_lowpass1, c20c_cascade_lowpass1_nyquist, c20c_accu_osc); EXACT no-panic conditions (iff) generic in (w, q) for forward_gain (both partial sums of b0+b1+b2 fit), input_offset (additionally the sum is non-zero; a zero DC numerator divides by zero in BOTH profiles), set_input_offset (c20c_forward_gain_iff, c20c_input_offset_iff, c20c_set_input_offset_iff, with values and proved panic witnesses); fixed-point update::<2> (DF2T): checked .ok iff the five narrow sums fit (Df2tFit), release always, new state in range (c20c_biquad_update2_iff, c20c_biquad_update2_release, panic / wrong-sign witness c20c_biquad_update2_panic_witness); settle_interpolate .ok iff rate+1, (rate+1)^N and x (rate+1)^N are representable (c20c_cic_settle_iff); CIC from ARBITRARY in-range states: decimate keeps the state in range, one interpolate step .ok iff the comb and integrator sums fit (c20c_cic_decimate_any_state, c20c_cic_interpolate_some_iff, c20c_cic_interpolate_none_iff). Observations recorded there (outside C20's enumerated entry points, no documented domain excludes them): forward_gain() overflows when b0+b1+b2 >= 2.0; input_offset() divides by zero for every filter with zero DC numerator (e.g. every high-pass); fixed-point DF2T has no wide accumulator (documented by the crate as 'do not use')",
        "NON-VACUITY AUDIT (Props/NonVacuity.lean + NonVacuityA..D, built and audited with this property because C20 is the union of the others): 220 further examples instantiating the hypotheses of every property theorem of all 36 Props files that was not already followed by an instance in its own file, with documented, reachable, non-degenerate witnesses (Lowpass k = 2^24 and a settled non-set() state, RPLL 8/4000/16/15 and the reachable dead-band state across an i32 wrap, CIC N = 3 rate 7, Dsm K = 3 after the doc-test input and the K = 8 boundary state, a Q2.30 Butterworth low-pass, the depth-4 half-band cascades, a genuinely rounding FlModelX ...); every theorem is accounted for by a witness or by a per-file comment (no hypotheses / independent range facts / instance at a quoted line). No theorem was found vacuous; recorded limits: the RPLL lock regions exclude all seven configurations of the crate's own tests (proved), sat_scale_clip has no positive-saturation case at shift 32, the dB form of the stop-band theorem needs response != 0 (the linear form does not), the float theorems assume the standard rounding model",
    ],
    "clauses_explored": [
        "panics that originate in Rust mechanics rather than arithmetic (slice indexing inside iterator adaptors, copy_within, unimplemented!() arms, float helpers of Sweep, coefficient builders in f64): checked-profile correspondence on every op family (PANIC lines must agree with the model) and the union of all native oracles plus sweeps of Sweep::next / Sweep::fit / AccuOsc / complex helpers / Nyquist",
    ],
    "level_text": "The union of the per-entry-point no-panic theorems of all other properties plus Sweep::next; non-arithmetic panics cannot be exhibited by the model and are covered by the checked-profile correspondence and native sweeps only (labelled exploration).",
    "level_note": "svf::Svf (constructed through serde_json, its only constructor) is modelled in the driver (op f_svf, tolerance compare) with no theorem; getters / set_rate / depth / size_hint / buf_mut / ba_mut / BiquadRepr::Raw are asserted natively inside the glue, hbf and repr families; integer half-band stages (impl Half for i32/i64) run through the same model with an Int carrier. Lowpass<N>/Biquad::update::<N> for unsupported N are unimplemented!() by design and outside the documented domain.",
    "rule": "all 21 op families in the checked profile + the quick tier of every other property's oracle + 2e6 Sweep states incl. the top 2^33 of the i64 range",
}

NOT_APPLICABLE = {
    "C%02d" % i: "check not built yet (work in progress in this session; see DESIGN.md section 5 for the plan)" for i in range(1, 21)
}
