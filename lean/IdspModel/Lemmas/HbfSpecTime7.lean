import IdspModel.Lemmas.HbfSpecTime
/-! Impulse response of the MODEL decimating cascade of depth 4 over `ℚ`, input phases 8 … 11
    (kernel computation). -/
namespace Idsp

theorem hbfDecImpulseOK_4_2 : ∀ q < 4, hbfDecImpulseOK 4 (8 + q) := by decide +kernel

end Idsp
