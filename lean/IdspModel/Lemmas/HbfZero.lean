import IdspModel.Lemmas.HbfIndex
import IdspModel.Lemmas.HbfCascade
/-! Zero input: once the history consists of "zero-like" items only, every output is zero-like. -/
namespace Idsp
variable {α : Type}

/-- `Z` is a class of "zero-like" values (e.g. `{zero}`, or `{+0.0, -0.0}` for floats) closed under the operations
    as used by the half-band filters with the given taps -/
structure ZeroLike (o : Ops α) (Z : α → Prop) (taps : List α) : Prop where
  add : ∀ a b, Z a → Z b → Z (o.add a b)
  mul : ∀ a, ∀ t ∈ taps, Z a → Z (o.mul a t)
  sum : ∀ l : List α, (∀ a ∈ l, Z a) → Z (o.sum l)
  half : ∀ a, Z a → Z (o.half a)

theorem firTap_zeroLike (o : Ops α) (Z : α → Prop) (taps : List α) (zl : ZeroLike o Z taps) (win : List α)
    (hw : ∀ a ∈ win, Z a) : Z (firTap o taps win) := by
  simp only [firTap]
  apply zl.sum
  intro a ha
  obtain ⟨⟨⟨xo, xn⟩, t⟩, hmem, rfl⟩ := List.mem_map.mp ha
  have h1 := List.of_mem_zip hmem
  have h2 := List.of_mem_zip h1.1
  apply zl.mul _ _ h1.2
  apply zl.add
  · exact hw _ (List.mem_of_mem_take h2.1)
  · exact hw _ (List.mem_of_mem_drop (List.mem_reverse.mp h2.2))


/-- all items of `l` from index `p` on are zero-like -/
def ZFrom (Z : α → Prop) (p : Nat) (l : List α) : Prop := ∀ j (h : j < l.length), p ≤ j → Z l[j]

theorem zFrom_iff_drop (Z : α → Prop) (p : Nat) (l : List α) : ZFrom Z p l ↔ ∀ a ∈ l.drop p, Z a := by
  constructor
  · intro h a ha
    obtain ⟨i, hi, rfl⟩ := List.mem_iff_getElem.mp ha
    rw [List.getElem_drop]
    exact h _ _ (by omega)
  · intro h j hj hp
    apply h
    have : l[j] = (l.drop p)[j - p]'(by simp; omega) := by
      rw [List.getElem_drop]; congr 1; omega
    rw [this]; exact List.getElem_mem _

theorem decSpec_zero_tail (o : Ops α) (Z : α → Prop) (taps he ho x : List α) (zl : ZeroLike o Z taps)
    (hm : 1 ≤ taps.length) (h1 : he.length = taps.length - 1) (h2 : ho.length = 2 * taps.length - 1)
    (p : Nat) (hx : ZFrom Z p x) :
    ZFrom Z (p / 2 + (2 * taps.length - 1)) (hbfDecSpec o taps he ho x) := by
  intro i hi hp
  have hl := decSpec_length o taps he ho x hm h1 h2
  have hel := evens_length x
  have hol := odds_length x
  rw [decSpec_getElem o taps he ho x hm h1 h2 i (by omega)]
  apply zl.half
  apply zl.add
  · rw [List.getElem_append_right (by omega), evens_getElem]
    apply hx; omega
  · apply firTap_zeroLike o Z taps zl
    intro a ha
    have ha' := List.mem_of_mem_take ha
    obtain ⟨t, ht, rfl⟩ := List.mem_iff_getElem.mp ha'
    rw [List.getElem_drop, List.getElem_append_right (by omega), odds_getElem]
    apply hx; omega

theorem intSpec_zero_tail (o : Ops α) (Z : α → Prop) (taps h x : List α) (zl : ZeroLike o Z taps)
    (hm : 1 ≤ taps.length) (h1 : h.length = 2 * taps.length - 1)
    (p : Nat) (hx : ZFrom Z p x) :
    ZFrom Z (2 * p + (4 * taps.length - 2)) (hbfIntSpec o taps h x) := by
  intro j hj hp
  have hl := intSpec_length o taps h x hm h1
  obtain ⟨g1, g2⟩ := intSpec_getElem o taps h x hm h1 (j / 2) (by omega)
  rcases Nat.mod_two_eq_zero_or_one j with hj2 | hj2
  · have e : j = 2 * (j / 2) := by omega
    have : (hbfIntSpec o taps h x)[j] = (hbfIntSpec o taps h x)[2 * (j / 2)]'(by omega) := by congr 1
    rw [this, g1]
    apply firTap_zeroLike o Z taps zl
    intro a ha
    have ha' := List.mem_of_mem_take ha
    obtain ⟨t, ht, rfl⟩ := List.mem_iff_getElem.mp ha'
    rw [List.getElem_drop, List.getElem_append_right (by omega)]
    apply hx; omega
  · have e : j = 2 * (j / 2) + 1 := by omega
    have : (hbfIntSpec o taps h x)[j] = (hbfIntSpec o taps h x)[2 * (j / 2) + 1]'(by omega) := by congr 1
    rw [this, g2, List.getElem_append_right (by omega)]
    apply hx; omega


/-! ### chains -/

/-- `response_length()` recursion of a decimator chain, `ms` = tap counts in application order -/
def decChainResp : List Nat → Nat → Nat
  | [], n => n
  | m :: ms, n => decChainResp ms (n / 2 + (2 * m - 1))

def intChainResp : List Nat → Nat → Nat
  | [], n => n
  | m :: ms, n => intChainResp ms (2 * n + (4 * m - 2))

theorem hbfDecResponseLength_go_eq (ms : List Nat) (d n : Nat) (hd : d ≤ ms.length) :
    hbfDecResponseLength.go ms d n = decChainResp ((ms.take d).reverse) n := by
  induction d generalizing n with
  | zero => simp [hbfDecResponseLength.go, decChainResp]
  | succ d ih =>
    have hdl : d < ms.length := by omega
    have e2 : (ms.take (d + 1)).reverse = ms[d] :: (ms.take d).reverse := by
      rw [List.take_add_one]; simp [hdl]
    rw [hbfDecResponseLength.go, e2, decChainResp, ih _ (by omega), getD_of_lt _ _ hdl]

theorem hbfIntResponseLength_go_eq (ms : List Nat) (f i n : Nat) (hd : i + f ≤ ms.length) :
    hbfIntResponseLength.go ms f i n = intChainResp ((ms.drop i).take f) n := by
  induction f generalizing i n with
  | zero => simp [hbfIntResponseLength.go, intChainResp]
  | succ f ih =>
    have hi : i < ms.length := by omega
    have e2 : (ms.drop i).take (f + 1) = ms[i] :: (ms.drop (i + 1)).take f := by
      rw [List.drop_eq_getElem_cons hi, List.take_succ_cons]
    rw [hbfIntResponseLength.go, e2, intChainResp, ih _ _ (by omega), getD_of_lt _ _ hi]

theorem decChainSpec_zero_tail (o : Ops α) (Z : α → Prop) (A : List (List α × List α × List α))
    (hA : ∀ s ∈ A, 1 ≤ s.1.length ∧ s.2.1.length = s.1.length - 1 ∧ s.2.2.length = 2 * s.1.length - 1 ∧
      ZeroLike o Z s.1) (x : List α) (p : Nat) (hx : ZFrom Z p x) :
    ZFrom Z (decChainResp (A.map (fun s => s.1.length)) p) (decChainSpec o A x) := by
  induction A generalizing x p with
  | nil => simpa [decChainResp, decChainSpec] using hx
  | cons s rest ih =>
    obtain ⟨t, he, ho⟩ := s
    obtain ⟨a1, a2, a3, a4⟩ := hA (t, he, ho) (by simp)
    simp only [List.map_cons, decChainResp, decChainSpec]
    apply ih (fun s hs => hA s (by simp [hs]))
    exact decSpec_zero_tail o Z t he ho x a4 a1 a2 a3 p hx

theorem intChainSpec_zero_tail (o : Ops α) (Z : α → Prop) (A : List (List α × List α))
    (hA : ∀ s ∈ A, 1 ≤ s.1.length ∧ s.2.length = 2 * s.1.length - 1 ∧ ZeroLike o Z s.1)
    (x : List α) (p : Nat) (hx : ZFrom Z p x) :
    ZFrom Z (intChainResp (A.map (fun s => s.1.length)) p) (intChainSpec o A x) := by
  induction A generalizing x p with
  | nil => simpa [intChainResp, intChainSpec] using hx
  | cons s rest ih =>
    obtain ⟨t, h⟩ := s
    obtain ⟨a1, a2, a3⟩ := hA (t, h) (by simp)
    simp only [List.map_cons, intChainResp, intChainSpec]
    apply ih (fun s hs => hA s (by simp [hs]))
    exact intSpec_zero_tail o Z t h x a3 a1 a2 p hx


/-! ### exact zero -/

/-- the facts about `zero` needed for "zero in, zero out" (they hold for wrapping integers; for IEEE floats they
    hold up to the sign of zero only, use `ZeroLike` with `Z x := x == 0.0` there) -/
structure ZeroLaws (o : Ops α) : Prop where
  add_zero : o.add o.zero o.zero = o.zero
  zero_mul : ∀ t, o.mul o.zero t = o.zero
  sum_zero : ∀ n, o.sum (List.replicate n o.zero) = o.zero
  half_zero : o.half o.zero = o.zero

theorem ZeroLaws.zeroLike {o : Ops α} (zl : ZeroLaws o) (taps : List α) :
    ZeroLike o (fun a => a = o.zero) taps := by
  refine ⟨?_, ?_, ?_, ?_⟩
  · intro a b ha hb; rw [ha, hb]; exact zl.add_zero
  · intro a t _ ha; rw [ha]; exact zl.zero_mul t
  · intro l hl
    have : l = List.replicate l.length o.zero := List.eq_replicate_iff.mpr ⟨rfl, hl⟩
    rw [this]; exact zl.sum_zero _
  · intro a ha; rw [ha]; exact zl.half_zero

theorem drop_eq_replicate_of_zFrom (z : α) (p : Nat) (l : List α) (h : ZFrom (fun a => a = z) p l) :
    l.drop p = List.replicate (l.length - p) z :=
  List.eq_replicate_iff.mpr ⟨by simp, (zFrom_iff_drop _ p l).mp h⟩

theorem zFrom_zero_of_all (Z : α → Prop) (bs : List (List α)) (hz : ∀ b ∈ bs, ∀ a ∈ b, Z a) :
    ZFrom Z 0 bs.flatten := by
  intro j hj _
  obtain ⟨b, hb, hm⟩ := List.mem_flatten.mp (List.getElem_mem hj)
  exact hz b hb _ hm

/-! ### model level -/

theorem HbfDec.run_zero_tail (o : Ops α) (Z : α → Prop) (d : HbfDec α) (wf : d.WF)
    (zl : ZeroLike o Z d.odd.taps) (bs : List (List α)) (adm : ∀ b ∈ bs, d.Adm b)
    (hz : ∀ b ∈ bs, ∀ a ∈ b, Z a) :
    ∀ y ∈ (d.run o bs).2.flatten.drop (2 * d.odd.taps.length - 1), Z y := by
  rw [(HbfDec.run_spec o d wf bs adm).1, ← zFrom_iff_drop]
  have := decSpec_zero_tail o Z _ _ _ _ zl wf.taps_pos (d.abs_length wf).1 (d.abs_length wf).2 0
    (zFrom_zero_of_all Z bs hz)
  simpa using this

theorem HbfInt.run_zero_tail (o : Ops α) (Z : α → Prop) (d : HbfInt α) (wf : d.WF)
    (zl : ZeroLike o Z d.fir.taps) (bs : List (List α)) (adm : ∀ b ∈ bs, d.Adm b)
    (hz : ∀ b ∈ bs, ∀ a ∈ b, Z a) :
    ∀ y ∈ (d.run o bs).2.flatten.drop (4 * d.fir.taps.length - 2), Z y := by
  rw [(HbfInt.run_spec o d wf bs adm).1, ← zFrom_iff_drop]
  have := intSpec_zero_tail o Z _ _ _ zl wf.taps_pos (d.abs_length wf) 0 (zFrom_zero_of_all Z bs hz)
  simpa using this

theorem HbfDecCascade.run_zero_tail (o : Ops α) (Z : α → Prop) (c : HbfDecCascade α) (wf : c.WF)
    (zl : ∀ s ∈ c.active, ZeroLike o Z s.odd.taps) (bs : List (List α)) (adm : ∀ b ∈ bs, c.Adm b)
    (hz : ∀ b ∈ bs, ∀ a ∈ b, Z a) :
    ∀ y ∈ (c.run o bs).2.flatten.drop
      (hbfDecResponseLength (c.stages.map fun s => s.odd.taps.length) c.depth), Z y := by
  rw [(HbfDecCascade.run_spec o c wf bs adm).1, ← zFrom_iff_drop]
  have hA : ∀ s ∈ c.active.map HbfDec.absT, 1 ≤ s.1.length ∧ s.2.1.length = s.1.length - 1 ∧
      s.2.2.length = 2 * s.1.length - 1 ∧ ZeroLike o Z s.1 := by
    intro s hs
    obtain ⟨d, hd, rfl⟩ := List.mem_map.mp hs
    have wfd : d.WF := by
      apply wf.stage_wf
      simp only [HbfDecCascade.active, List.mem_reverse] at hd
      exact List.mem_of_mem_take hd
    exact ⟨wfd.taps_pos, (d.abs_length wfd).1, (d.abs_length wfd).2, zl d hd⟩
  have := decChainSpec_zero_tail o Z _ hA _ 0 (zFrom_zero_of_all Z bs hz)
  have e : hbfDecResponseLength (c.stages.map fun s => s.odd.taps.length) c.depth
      = decChainResp ((c.active.map HbfDec.absT).map fun s => s.1.length) 0 := by
    rw [hbfDecResponseLength, hbfDecResponseLength_go_eq _ _ _ (by simpa using wf.depth_le)]
    simp [HbfDecCascade.active, HbfDec.absT, List.map_take, Function.comp_def]
  rw [e]; exact this

theorem HbfIntCascade.run_zero_tail (o : Ops α) (Z : α → Prop) (c : HbfIntCascade α) (wf : c.WF)
    (zl : ∀ s ∈ c.active, ZeroLike o Z s.fir.taps) (bs : List (List α)) (adm : ∀ b ∈ bs, c.Adm b)
    (hz : ∀ b ∈ bs, ∀ a ∈ b, Z a) :
    ∀ y ∈ (c.run o bs).2.flatten.drop
      (hbfIntResponseLength (c.stages.map fun s => s.fir.taps.length) c.depth), Z y := by
  rw [(HbfIntCascade.run_spec o c wf bs adm).1, ← zFrom_iff_drop]
  have hA : ∀ s ∈ c.active.map HbfInt.absT, 1 ≤ s.1.length ∧ s.2.length = 2 * s.1.length - 1 ∧
      ZeroLike o Z s.1 := by
    intro s hs
    obtain ⟨d, hd, rfl⟩ := List.mem_map.mp hs
    have wfd : d.WF := by
      apply wf.stage_wf
      exact List.mem_of_mem_take hd
    exact ⟨wfd.taps_pos, d.abs_length wfd, zl d hd⟩
  have := intChainSpec_zero_tail o Z _ hA _ 0 (zFrom_zero_of_all Z bs hz)
  have e : hbfIntResponseLength (c.stages.map fun s => s.fir.taps.length) c.depth
      = intChainResp ((c.active.map HbfInt.absT).map fun s => s.1.length) 0 := by
    rw [hbfIntResponseLength, hbfIntResponseLength_go_eq _ _ _ _ (by simpa using wf.depth_le)]
    simp [HbfIntCascade.active, HbfInt.absT, List.map_take, Function.comp_def]
  rw [e]; exact this

end Idsp
