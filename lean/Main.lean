import IdspModel.Driver
open Idsp

partial def loop (h : IO.FS.Stream) (st : DState) (stats : Stats) (n : Nat) (shown : Nat) : IO Stats := do
  let line ← h.getLine
  if line.isEmpty then return stats
  let (st', stats', rep) := stepLine st stats n line
  let shown' ← match rep with
    | some r => do
      if shown < 50 then IO.println r
      pure (shown + 1)
    | none => pure shown
  loop h st' stats' (n + 1) shown'

def main : IO UInt32 := do
  let stats ← loop (← IO.getStdin) {} {} 1 0
  for (op, c, p) in stats.perOp do
    IO.println s!"OP {op} count={c} panics={p}"
  IO.println s!"SUMMARY total={stats.total} mismatches={stats.mismatches} unparsed={stats.unparsed} panics={stats.panics}"
  return (if stats.mismatches == 0 && stats.unparsed == 0 then 0 else 1)
