use idsp::*;
fn lcg(s: &mut u64) -> u64 { *s = s.wrapping_mul(6364136223846793005).wrapping_add(1442695040888963407); *s >> 11 }
fn main() {
    let mut s = 777u64; let mut bad = 0; let mut cases = 0; let mut worst=(0f64,0f64);
    for it in 0..12000 {
        let dt2 = 2 + (lcg(&mut s) % 10) as u32;
        let sf = (dt2 + 1 + (lcg(&mut s) % (30 - dt2) as u64) as u32).min(30);
        let sp = if lcg(&mut s) % 2 == 0 { sf } else { sf - 1 };
        if sp < dt2 { continue; }
        // period: 2^dt2 < P < 2^sf, P < 2^(sp+1)
        let pmax = (1u64 << sf).min(1u64 << (sp + 1));
        let pmin = (1u64 << dt2) + 1;
        if pmax <= pmin + 1 { continue; }
        let p = match it % 5 { 0 => pmin, 1 => pmax - 1, _ => pmin + lcg(&mut s) % (pmax - pmin) } as i64;
        let n = (1u64 << (sf - dt2 + 5)) + (1u64 << (sp - dt2 + 5));
        if n > 1 << 23 { continue; }
        let off = (lcg(&mut s) % p as u64) as i64;
        let mut r = RPLL::new(dt2);
        let t0: i64 = ((lcg(&mut s) as i32 as i64) >> dt2) << dt2; // aligned start time
        let mut next = t0 + off; // next edge time (i64, true)
        let mut time = t0;
        let mut okc = true; let mut wf=0f64; let mut wp=0f64;
        for i in 0..(n + 3000) {
            let ts = if time >= next { let t = next; next += p; Some(t as i32) } else { None };
            let (y, f) = r.update(ts, sf, sp);
            assert_eq!((y, f), (r.phase(), r.frequency()));
            if i >= n {
                let ftrue = (1u128 << (32 + dt2)) as f64 / p as f64;
                let ef = ((f as f64) - ftrue).abs() / ftrue;
                // true phase of reference at `time`: (time - (next - p)) / p turns
                let ph = ((time - (next - p)) as f64 / p as f64).fract();
                let yt = y as u32 as f64 / 4294967296.0;
                let mut ep = (yt - ph).abs(); if ep > 0.5 { ep = 1.0 - ep; }
                wf = wf.max(ef); wp = wp.max(ep);
                if ef > 1e-5 || ep > 1e-3 { okc = false; }
            }
            time += 1 << dt2;
        }
        cases += 1; worst.0 = worst.0.max(wf); worst.1 = worst.1.max(wp);
        if !okc { bad += 1; if true { let b = 2f64.powi(sf as i32+sp as i32-dt2 as i32-33)/p as f64; let cls = if wf <= 1e-5 && wp <= b*1.02 + 1e-3 { "A" } else { "?" }; println!("BAD {} dt2={} sf={} sp={} P={} rsp={:.4} rsf={:.4} rdt={:.4} wf={:e} wp={:e} bound={:e}", cls, dt2, sf, sp, p, p as f64/2f64.powi(sp as i32+1), p as f64/2f64.powi(sf as i32), p as f64/2f64.powi(dt2 as i32), wf, wp, b); } }
    }
    println!("cases {} bad {} worst {:?}", cases, bad, worst);
}
