import IdspModel.Lemmas.Lp2Level2
/-!
# Second-order lowpass: bounded-input bounded-state for ARBITRARY input sequences within `±2^29`

A varying input is one more bounded disturbance of the recursion centred at level `0`: the centred disturbance
becomes `ū + 2a²·x·2^32`.  The region `Lp2Inv2 a b 0 (lp2Vmax2 a) (lp2R2 a)` (the same one that is used for level
changes) is forward invariant under an update with ANY input `|x| ≤ 2^29`, for every documented Butterworth pair,
and lies in the overflow-free box of every such input (`lp2_bibo_step`, `lp2_bibo_run`).
-/
namespace Idsp
set_option linter.unusedVariables false

/-- bound of the centred disturbance when the input varies within `±2^29` -/
def lp2UX (a b : Int) : Int := lp2U a b + 2 * a ^ 2 * 536870912 * 4294967296

/-- run the model over an arbitrary input list; returns the final raw state and the list of outputs -/
def lp2RunL (m : Mode) (k0 k1 : Int) : List Int → Int × Int → R ((Int × Int) × List Int)
  | [], st => .ok (st, [])
  | x :: xs, st => do
    let (s0, s1, y) ← lp2Update m st.1 st.2 x k0 k1
    let (st', ys) ← lp2RunL m k0 k1 xs (s0, s1)
    .ok (st', y :: ys)

theorem lp2_centered_rec0 (x a b : Int) (st : Int × Int) (ha : 0 < a) (hb : 0 < b)
    (hx0 : -536870912 ≤ x) (hx1 : x ≤ 536870912) :
    ∃ u : Int, u ^ 2 ≤ lp2UX a b ^ 2 ∧
      4294967296 * lp2Eb a b 0 (lp2Next x a (-b) st).1
        = (4294967296 - 2 * a) * lp2Eb a b 0 st.1 - (2 * 4294967296 - 2 * b) * (2 * a * st.2) - 2 * u ∧
      4294967296 * (2 * a * (lp2Next x a (-b) st).2)
        = 2 * a * lp2Eb a b 0 st.1 + (4294967296 - 2 * b) * (2 * a * st.2) + 2 * u := by
  obtain ⟨u, hu, hE, hs⟩ := lp2_centered_rec x a b st ha hb
  have hU0 : 0 ≤ lp2U a b := by unfold lp2U; positivity
  obtain ⟨hu0, hu1⟩ := abs_le_of_sq_le_sq' hu hU0
  refine ⟨u + 2 * a ^ 2 * x * 4294967296, ?_, ?_, ?_⟩
  · apply sq_le_sq'
    · unfold lp2UX
      have : -(2 * a ^ 2 * 536870912 * 4294967296) ≤ 2 * a ^ 2 * x * 4294967296 := by
        have : 0 ≤ a ^ 2 := sq_nonneg a
        nlinarith
      linarith
    · unfold lp2UX
      have : 2 * a ^ 2 * x * 4294967296 ≤ 2 * a ^ 2 * 536870912 * 4294967296 := by
        have : 0 ≤ a ^ 2 := sq_nonneg a
        nlinarith
      linarith
  · have e : ∀ s, lp2Eb a b x s = lp2Eb a b 0 s + 2 * a * (x * 4294967296) := by
      intro s; unfold lp2Eb; ring
    rw [e, e] at hE
    linear_combination hE
  · have e : ∀ s, lp2Eb a b x s = lp2Eb a b 0 s + 2 * a * (x * 4294967296) := by
      intro s; unfold lp2Eb; ring
    rw [e] at hs
    linear_combination hs

/-- the equilibrium level for varying inputs lies below `lp2Vmax2` -/
theorem lp2_LsX_le {k a b : Int} (h : Lp2Butter k a b) :
    4 * (4294967296 - b) * lp2UX a b ^ 2 ≤ b * (b - 2 * a) * lp2Vmax2 a := by
  have ha := h.a_ge; have hbl := h.b_le; have hb0 := h.hb0; have hbg := h.b_ge
  have h4 := h.four_a_le; have hba := lp2_b_le_a h
  have haM : 2 * (a * 4294967296) ≤ (b + 1) ^ 2 := by
    have := h.ha0; have := h.hb2; nlinarith
  -- UX = a·M·(a(2^30+1) + b) and a(2^30+1)+b ≤ a·(2^30 + 131073)
  have hUX : lp2UX a b = a * 4294967296 * (a * 1073741825 + b) := by unfold lp2UX lp2U; ring
  have hw : a * 1073741825 + b ≤ a * 1073872897 := by linarith
  have hw2 : (a * 1073741825 + b) ^ 2 ≤ (a * 1073872897) ^ 2 := pow_le_pow_left₀ (by positivity) hw 2
  -- 4(M−b)·a²M²·W² ≤ 4M·a²M²·a²·c² ; 2aM ≤ (b+1)²
  have s1 : 4 * (4294967296 - b) * lp2UX a b ^ 2
      ≤ (2 * a ^ 3 * 4294967296 ^ 2 * 1073872897 ^ 2) * (2 * (a * 4294967296)) := by
    rw [hUX]
    have e1 : 4 * (4294967296 - b) * (a * 4294967296 * (a * 1073741825 + b)) ^ 2
        = (4 * a ^ 2 * 4294967296 ^ 2 * (4294967296 - b)) * (a * 1073741825 + b) ^ 2 := by ring
    have e2 : (4 * a ^ 2 * 4294967296 ^ 2 * (4294967296 - b)) * (a * 1073741825 + b) ^ 2
        ≤ (4 * a ^ 2 * 4294967296 ^ 2 * 4294967296) * (a * 1073872897) ^ 2 :=
      mul_le_mul (mul_le_mul_of_nonneg_left (by omega) (by positivity)) hw2 (by positivity) (by positivity)
    rw [e1]
    calc _ ≤ _ := e2
      _ = _ := by ring
  have s2 : (2 * a ^ 3 * 4294967296 ^ 2 * 1073872897 ^ 2) * (2 * (a * 4294967296))
      ≤ (2 * a ^ 3 * 4294967296 ^ 2 * 1073872897 ^ 2) * (b + 1) ^ 2 :=
    mul_le_mul_of_nonneg_left haM (by positivity)
  -- 2·c²·(b+1)² ≤ 5·2^60·b(b−2a)
  have s3 : 2 * 1073872897 ^ 2 * (b + 1) ^ 2 ≤ 5 * 1152921504606846976 * (b * (b - 2 * a)) := by
    have : 2 * (b * (b - 2 * a)) ≥ b * (b - 2) := by nlinarith
    nlinarith
  have s4 : (2 * a ^ 3 * 4294967296 ^ 2 * 1073872897 ^ 2) * (b + 1) ^ 2
      ≤ b * (b - 2 * a) * lp2Vmax2 a := by
    unfold lp2Vmax2
    have := mul_le_mul_of_nonneg_left s3 (show (0 : Int) ≤ a ^ 3 * 4294967296 ^ 2 by positivity)
    nlinarith
  exact le_trans s1 (le_trans s2 s4)

/-- the region centred at level `0` lies in the overflow-free box of every input within `±2^29` -/
theorem lp2_bibo_box {k a b x : Int} (h : Lp2Butter k a b) (hx0 : -536870912 ≤ x) (hx1 : x ≤ 536870912)
    (st : Int × Int) (hI : Lp2Inv2 a b 0 (lp2Vmax2 a) (lp2R2 a) st) :
    Lp2Box x st ∧ -(2 * a * 4611686018427387904) ≤ 2 * a * st.2 ∧ 2 * a * st.2 ≤ 2 * a * 4611686018427387904 ∧
    -1342242817 ≤ st.1 / 4294967296 ∧ st.1 / 4294967296 ≤ 1342242817 := by
  have ha := h.a_ge; have hA := h.adm; have hba := lp2_b_le_a h; have hb0 := h.hb0
  obtain ⟨hD5, -⟩ := lp2_disc_ge h
  obtain ⟨s0, s1⟩ := st
  obtain ⟨hV, hE3, hE4⟩ := hI
  unfold lp2V at hV
  simp only at hV hE3 hE4 ⊢
  have e2 := lp2Q_extent_s a b (lp2Eb a b 0 s0) (2 * a * s1)
  have hS2 : (2 * a * s1) ^ 2 ≤ (2 * a * 4611686018427387904) ^ 2 := by
    have h1 : 4 * a * lp2Q a b (lp2Eb a b 0 s0) (2 * a * s1) ≤ 4 * a * lp2Vmax2 a :=
      mul_le_mul_of_nonneg_left hV (by omega)
    have h2 : 4 * a * lp2Vmax2 a = (5 * a ^ 2) * (2 * a * 4611686018427387904) ^ 2 := by
      unfold lp2Vmax2; ring
    have h3 : (5 * a ^ 2) * (2 * a * 4611686018427387904) ^ 2
        ≤ lp2Disc a b * (2 * a * 4611686018427387904) ^ 2 := mul_le_mul_of_nonneg_right hD5 (sq_nonneg _)
    exact le_of_mul_le_mul_left (by linarith) hA.hD
  obtain ⟨hS3, hS4⟩ := abs_le_of_sq_le_sq' hS2 (by positivity)
  unfold lp2Eb lp2R2 at hE3 hE4
  have h1 : 2 * a * (0 * 4294967296 - s0) ≤ 2 * a * (1342242817 * 4294967296) := by nlinarith
  have h2 : 2 * a * (-(1342242817 * 4294967296)) ≤ 2 * a * (0 * 4294967296 - s0) := by nlinarith
  have ha2 : (0 : Int) < 2 * a := by omega
  have g1 := le_of_mul_le_mul_left h1 ha2
  have g2 := le_of_mul_le_mul_left h2 ha2
  have g3 := le_of_mul_le_mul_left hS4 ha2
  have g4 : -4611686018427387904 ≤ s1 := by
    have : 2 * a * (-4611686018427387904) ≤ 2 * a * s1 := by linarith
    exact le_of_mul_le_mul_left this ha2
  refine ⟨?_, hS3, hS4, by omega, by omega⟩
  unfold Lp2Box
  simp only
  refine ⟨by omega, by omega, by omega, by omega, by omega, by omega⟩

/-- **one update with an arbitrary input within `±2^29`** keeps the region and returns `.ok` -/
theorem lp2_bibo_step (m : Mode) {k a b x : Int} (h : Lp2Butter k a b)
    (hx0 : -536870912 ≤ x) (hx1 : x ≤ 536870912)
    (st : Int × Int) (hI : Lp2Inv2 a b 0 (lp2Vmax2 a) (lp2R2 a) st) :
    lp2Update m st.1 st.2 x a (-b)
      = .ok ((lp2Next x a (-b) st).1, (lp2Next x a (-b) st).2, lp2Mid x a (-b) st / 4294967296) ∧
    Lp2Inv2 a b 0 (lp2Vmax2 a) (lp2R2 a) (lp2Next x a (-b) st) ∧
    -1342242817 ≤ lp2Mid x a (-b) st / 4294967296 ∧ lp2Mid x a (-b) st / 4294967296 ≤ 1342242817 := by
  have hA := h.adm
  obtain ⟨ha0, ha1, hba, hb1, hD⟩ := hA
  have ha : 0 < a := by omega
  have hb : 0 < b := by omega
  have hbb : 0 < b * (b - 2 * a) := by apply mul_pos <;> omega
  obtain ⟨u, hu, hrE, hrs⟩ := lp2_centered_rec0 x a b st ha hb hx0 hx1
  have hdesc := lp2Q_descent_star ha (le_of_lt hD) hb hb1 hba _ _ _ _ u (lp2UX a b) hrE hrs hu
  have hinv := lp2Q_invariant_star ha (le_of_lt hD) hb hb1 hba _ _ _ _ u (lp2UX a b) hrE hrs hu
  have hLs := lp2_LsX_le h
  have hV := hI.1
  have hV' : lp2V a b 0 (lp2Next x a (-b) st) ≤ lp2Vmax2 a := by
    unfold lp2V
    by_cases hc : 4 * (4294967296 - b) * lp2UX a b ^ 2 < b * (b - 2 * a) * lp2V a b 0 st
    · have := hdesc hc
      unfold lp2V at hV
      linarith
    · have h1 := hinv (not_lt.mp hc)
      have h2 : b * (b - 2 * a) * lp2Q a b (lp2Eb a b 0 (lp2Next x a (-b) st).1) (2 * a * (lp2Next x a (-b) st).2)
          ≤ b * (b - 2 * a) * lp2Vmax2 a := by linarith
      exact le_of_mul_le_mul_left h2 hbb
  obtain ⟨hbox, hsb0, hsb1, hg0, hg1⟩ := lp2_bibo_box h hx0 hx1 st hI
  -- the sector argument (same constants as in `lp2_safe2_of_level`)
  obtain ⟨SB, G, hR0, hSB0, hG, -, -, hRV, -, -, -, -, -⟩ := lp2_safe2_of_level h (x := 0) (by norm_num) (by norm_num)
  have hstepE : lp2Eb a b 0 (lp2Next x a (-b) st).1
      = lp2Eb a b 0 st.1 - (2 * a * st.2 + 2 * a * (lp2Next x a (-b) st).2) := by
    unfold lp2Eb lp2Next; ring
  have hSBR : 2 * a * 4611686018427387904 ≤ lp2R2 a := by unfold lp2R2; nlinarith
  have hsec := lp2_sector (a := a) (b := b) (SB := 2 * a * 4611686018427387904) ha (by omega) (by omega) hR0 hSBR
    hsb0 hsb1 hRV
    (by unfold lp2V at hV; exact hV) (by unfold lp2V at hV'; exact hV') hstepE hI.2.1 hI.2.2
  have hI' : Lp2Inv2 a b 0 (lp2Vmax2 a) (lp2R2 a) (lp2Next x a (-b) st) := ⟨hV', hsec.1, hsec.2⟩
  obtain ⟨hbox', -, -, hg0', hg1'⟩ := lp2_bibo_box h hx0 hx1 _ hI'
  refine ⟨lp2_step_box m x a (-b) st (by omega) (by omega) (by omega) (by omega) hbox hbox', hI', ?_, ?_⟩
  · -- the mid-point is the mean of the two raw positions
    have : 2 * lp2Mid x a (-b) st = st.1 + (lp2Next x a (-b) st).1 := by unfold lp2Mid lp2Next; ring
    omega
  · have : 2 * lp2Mid x a (-b) st = st.1 + (lp2Next x a (-b) st).1 := by unfold lp2Mid lp2Next; ring
    omega

/-- **arbitrary input sequences within `±2^29`**: the run never panics, wraps or saturates, ends in the region, and
    all outputs lie within `±(1.25·2^30 + 65537)` -/
theorem lp2_bibo_run (m : Mode) {k a b : Int} (h : Lp2Butter k a b) (xs : List Int)
    (hxs : ∀ x ∈ xs, -536870912 ≤ x ∧ x ≤ 536870912)
    (st : Int × Int) (hI : Lp2Inv2 a b 0 (lp2Vmax2 a) (lp2R2 a) st) :
    ∃ st' ys, lp2RunL m a (-b) xs st = .ok (st', ys) ∧ Lp2Inv2 a b 0 (lp2Vmax2 a) (lp2R2 a) st' ∧
      ys.length = xs.length ∧ ∀ y ∈ ys, -1342242817 ≤ y ∧ y ≤ 1342242817 := by
  induction xs generalizing st with
  | nil => exact ⟨st, [], rfl, hI, rfl, by simp⟩
  | cons x xs ih =>
    obtain ⟨hx0, hx1⟩ := hxs x (by simp)
    obtain ⟨hstep, hI', hy0, hy1⟩ := lp2_bibo_step m h hx0 hx1 st hI
    obtain ⟨st', ys, hrun, hI'', hlen, hys⟩ := ih (fun y hy => hxs y (by simp [hy])) _ hI'
    refine ⟨st', lp2Mid x a (-b) st / 4294967296 :: ys, ?_, hI'', by simp [hlen], ?_⟩
    · simp only [lp2RunL, hstep, bind_ok', hrun]
    · intro y hy
      rcases List.mem_cons.mp hy with rfl | hy
      · exact ⟨hy0, hy1⟩
      · exact hys y hy

end Idsp
