import IdspModel.Lemmas.NumBiquad
namespace Idsp

/-- the state-update half of the N = 2 form: a function of the second state word, the input, the (clamped)
    output and the configuration only -/
def df2tNext (m : Mode) (w q : Nat) (c : BiquadCfg) (s1 x0 y0 : Int) : R (Int × Int) := do
  let p1 ← mulScaled m w q c.b1 x0
  let r1 ← arithI m w "biquad.rs:483 xy[1] + b1*x0" (s1 + p1)
  let p3 ← mulScaled m w q c.a1 y0
  let n0 ← arithI m w "biquad.rs:483 - a1*y0" (r1 - p3)
  let p2 ← mulScaled m w q c.b2 x0
  let r2 ← arithI m w "biquad.rs:484 u + b2*x0" (c.u + p2)
  let p4 ← mulScaled m w q c.a2 y0
  let n1 ← arithI m w "biquad.rs:484 - a2*y0" (r2 - p4)
  .ok (n0, n1)

/-- the new second state word: a function of the input, the output and the configuration only -/
def df2tNext1 (m : Mode) (w q : Nat) (c : BiquadCfg) (x0 y0 : Int) : R Int := do
  let p2 ← mulScaled m w q c.b2 x0
  let r2 ← arithI m w "biquad.rs:484 u + b2*x0" (c.u + p2)
  let p4 ← mulScaled m w q c.a2 y0
  arithI m w "biquad.rs:484 - a2*y0" (r2 - p4)

theorem biquadUpdate2_ok_inv {m : Mode} {w q : Nat} {c : BiquadCfg} {s0 s1 x0 y : Int} {st : Int × Int}
    (h : biquadUpdate2 m w q c (s0, s1) x0 = .ok (st, y)) :
    (∃ p0 t, mulScaled m w q c.b0 x0 = .ok p0 ∧
      arithI m w "biquad.rs:482 xy[0] + b0*x0" (s0 + p0) = .ok t ∧ y = clip t c.mn c.mx) ∧
    df2tNext m w q c s1 x0 y = .ok st := by
  unfold biquadUpdate2 at h
  simp only at h
  obtain ⟨p0, e0, h⟩ := bind_eq_ok h
  obtain ⟨t, e1, h⟩ := bind_eq_ok h
  obtain ⟨p1, e2, h⟩ := bind_eq_ok h
  obtain ⟨r1, e3, h⟩ := bind_eq_ok h
  obtain ⟨p3, e4, h⟩ := bind_eq_ok h
  obtain ⟨n0, e5, h⟩ := bind_eq_ok h
  obtain ⟨p2, e6, h⟩ := bind_eq_ok h
  obtain ⟨r2, e7, h⟩ := bind_eq_ok h
  obtain ⟨p4, e8, h⟩ := bind_eq_ok h
  obtain ⟨n1, e9, h⟩ := bind_eq_ok h
  cases h
  refine ⟨⟨p0, t, e0, e1, rfl⟩, ?_⟩
  unfold df2tNext
  simp only [e2, e3, e4, e5, e6, e7, e8, e9, ok_bind]

theorem df2tNext_snd {m : Mode} {w q : Nat} {c : BiquadCfg} {s1 x0 y0 : Int} {st : Int × Int}
    (h : df2tNext m w q c s1 x0 y0 = .ok st) : df2tNext1 m w q c x0 y0 = .ok st.2 := by
  unfold df2tNext at h
  obtain ⟨p1, e2, h⟩ := bind_eq_ok h
  obtain ⟨r1, e3, h⟩ := bind_eq_ok h
  obtain ⟨p3, e4, h⟩ := bind_eq_ok h
  obtain ⟨n0, e5, h⟩ := bind_eq_ok h
  obtain ⟨p2, e6, h⟩ := bind_eq_ok h
  obtain ⟨r2, e7, h⟩ := bind_eq_ok h
  obtain ⟨p4, e8, h⟩ := bind_eq_ok h
  obtain ⟨n1, e9, h⟩ := bind_eq_ok h
  cases h
  unfold df2tNext1
  simp only [e6, e7, e8, e9, ok_bind]

end Idsp
