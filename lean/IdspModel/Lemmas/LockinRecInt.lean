import IdspModel.Lemmas.Lp2Step
import IdspModel.Lemmas.LockinRecChan
/-!
# Lock-in recovery: the integer run of one `Lowpass<2>` channel and its real image

`lkSeq a b x n` is the raw state after `n` plain (overflow-free) updates `lp2Next` from the zero state with the
input SEQUENCE `x`.  Its image `S = s0/2^32`, `T = s1/2^32` is an `LkRun` (exactly; the two floors become the
disturbance `ρ = (a·(s0 mod 2^32) + b·(s1 mod 2^32))/2^64 ∈ [0, α+β)`).  `lkSeq_box` turns real bounds on the image
into the overflow-free box `Lp2Box`, in which the model `lp2Update` IS the plain map (`lp2_step_box`).
-/
namespace Idsp
set_option linter.unusedVariables false

def lkSeq (a b : Int) (x : Nat → Int) : Nat → Int × Int
  | 0 => (0, 0)
  | n + 1 => lp2Next (x n) a (-b) (lkSeq a b x n)

/-- the output returned by update number `n` (plain arithmetic) -/
def lkOut (a b : Int) (x : Nat → Int) (n : Nat) : Int := lp2Mid (x n) a (-b) (lkSeq a b x n) / 4294967296

noncomputable def lkS (a b : Int) (x : Nat → Int) (n : Nat) : ℝ := ((lkSeq a b x n).1 : ℝ) / 4294967296
noncomputable def lkT (a b : Int) (x : Nat → Int) (n : Nat) : ℝ := ((lkSeq a b x n).2 : ℝ) / 4294967296
noncomputable def lkRho (a b : Int) (x : Nat → Int) (n : Nat) : ℝ :=
  ((a : ℝ) * (((lkSeq a b x n).1 % 4294967296 : Int) : ℝ) + (b : ℝ) * (((lkSeq a b x n).2 % 4294967296 : Int) : ℝ))
    / 4294967296 ^ 2

theorem lkSeq_step_real (a b xn : Int) (st : Int × Int) :
    (((lp2Next xn a (-b) st).1 : ℝ) / 4294967296
      = (1 - 2 * ((a : ℝ) / 4294967296)) * ((st.1 : ℝ) / 4294967296)
        + (2 - 2 * ((b : ℝ) / 4294967296)) * ((st.2 : ℝ) / 4294967296) + 2 * ((a : ℝ) / 4294967296) * xn
        + 2 * (((a : ℝ) * ((st.1 % 4294967296 : Int) : ℝ) + (b : ℝ) * ((st.2 % 4294967296 : Int) : ℝ))
            / 4294967296 ^ 2)) ∧
    (((lp2Next xn a (-b) st).2 : ℝ) / 4294967296
      = -(2 * ((a : ℝ) / 4294967296)) * ((st.1 : ℝ) / 4294967296)
        + (1 - 2 * ((b : ℝ) / 4294967296)) * ((st.2 : ℝ) / 4294967296) + 2 * ((a : ℝ) / 4294967296) * xn
        + 2 * (((a : ℝ) * ((st.1 % 4294967296 : Int) : ℝ) + (b : ℝ) * ((st.2 % 4294967296 : Int) : ℝ))
            / 4294967296 ^ 2)) ∧
    ((lp2Mid xn a (-b) st : ℝ) / 4294967296
      = (((st.1 : ℝ) / 4294967296) + ((lp2Next xn a (-b) st).1 : ℝ) / 4294967296) / 2) := by
  obtain ⟨s0, s1⟩ := st
  simp only [lp2Next, lp2Mid, lp2D]
  have h0 : ((4294967296 * (s0 / 4294967296) + s0 % 4294967296 : Int) : ℝ) = (s0 : ℝ) := by
    rw [Int.mul_ediv_add_emod]
  have h1 : ((4294967296 * (s1 / 4294967296) + s1 % 4294967296 : Int) : ℝ) = (s1 : ℝ) := by
    rw [Int.mul_ediv_add_emod]
  push_cast at h0 h1 ⊢
  generalize ((s0 / 4294967296 : Int) : ℝ) = q0 at *
  generalize ((s1 / 4294967296 : Int) : ℝ) = q1 at *
  generalize ((s0 % 4294967296 : Int) : ℝ) = r0 at *
  generalize ((s1 % 4294967296 : Int) : ℝ) = r1 at *
  rw [← h0, ← h1]
  refine ⟨?_, ?_, ?_⟩ <;> (field_simp; ring)

theorem lkSeq_run (a b : Int) (ha : 0 ≤ a) (hb : 0 ≤ b) (x : Nat → Int) :
    LkRun ((a : ℝ) / 4294967296) ((b : ℝ) / 4294967296) (lkS a b x) (lkT a b x) (fun n => (x n : ℝ))
      (lkRho a b x) := by
  have haR : (0 : ℝ) ≤ a := by exact_mod_cast ha
  have hbR : (0 : ℝ) ≤ b := by exact_mod_cast hb
  refine ⟨fun n => ?_, fun n => ?_, fun n => ?_, fun n => ?_, ?_, ?_⟩
  · exact (lkSeq_step_real a b (x n) (lkSeq a b x n)).1
  · exact (lkSeq_step_real a b (x n) (lkSeq a b x n)).2.1
  · unfold lkRho
    have r0 : (0 : ℝ) ≤ (((lkSeq a b x n).1 % 4294967296 : Int) : ℝ) := by
      exact_mod_cast Int.emod_nonneg _ (by norm_num)
    have r1 : (0 : ℝ) ≤ (((lkSeq a b x n).2 % 4294967296 : Int) : ℝ) := by
      exact_mod_cast Int.emod_nonneg _ (by norm_num)
    positivity
  · unfold lkRho
    have r0 : (((lkSeq a b x n).1 % 4294967296 : Int) : ℝ) ≤ 4294967296 := by
      have := Int.emod_lt_of_pos (lkSeq a b x n).1 (show (0 : Int) < 4294967296 by norm_num)
      exact_mod_cast this.le
    have r1 : (((lkSeq a b x n).2 % 4294967296 : Int) : ℝ) ≤ 4294967296 := by
      have := Int.emod_lt_of_pos (lkSeq a b x n).2 (show (0 : Int) < 4294967296 by norm_num)
      exact_mod_cast this.le
    rw [div_le_iff₀ (by norm_num)]
    have e1 := mul_le_mul_of_nonneg_left r0 haR
    have e2 := mul_le_mul_of_nonneg_left r1 hbR
    have : ((a : ℝ) / 4294967296 + (b : ℝ) / 4294967296) * 4294967296 ^ 2
        = (a : ℝ) * 4294967296 + (b : ℝ) * 4294967296 := by ring
    rw [this]; linarith
  · simp [lkS, lkSeq]
  · simp [lkT, lkSeq]

/-- the raw mid-point output as a real number: `(S n + S (n+1))/2`, and the returned integer output is its floor -/
theorem lkOut_real (a b : Int) (x : Nat → Int) (n : Nat) :
    ((lkOut a b x n : Int) : ℝ) ≤ (lkS a b x n + lkS a b x (n + 1)) / 2 ∧
    (lkS a b x n + lkS a b x (n + 1)) / 2 < (lkOut a b x n : ℝ) + 1 := by
  have hm := (lkSeq_step_real a b (x n) (lkSeq a b x n)).2.2
  have e : (lkS a b x n + lkS a b x (n + 1)) / 2 = (lp2Mid (x n) a (-b) (lkSeq a b x n) : ℝ) / 4294967296 := by
    rw [hm]; rfl
  rw [e]
  unfold lkOut
  generalize lp2Mid (x n) a (-b) (lkSeq a b x n) = mid
  have h0 := Int.mul_ediv_add_emod mid 4294967296
  have h1 := Int.emod_nonneg mid (show (4294967296 : Int) ≠ 0 by norm_num)
  have h2 := Int.emod_lt_of_pos mid (show (0 : Int) < 4294967296 by norm_num)
  have c0 : (4294967296 : ℝ) * ((mid / 4294967296 : Int) : ℝ) ≤ (mid : ℝ) := by
    have : 4294967296 * (mid / 4294967296) ≤ mid := by omega
    exact_mod_cast this
  have c1 : (mid : ℝ) < (4294967296 : ℝ) * (((mid / 4294967296 : Int) : ℝ) + 1) := by
    have : mid < 4294967296 * (mid / 4294967296 + 1) := by omega
    exact_mod_cast this
  constructor
  · rw [le_div_iff₀ (by norm_num)]; linarith
  · rw [div_lt_iff₀ (by norm_num)]; linarith

/-- real bounds on the image give the overflow-free box -/
theorem lkSeq_box (xn : Int) (st : Int × Int) (D c1 c2 : ℝ)
    (hS : |(st.1 : ℝ) / 4294967296 - D| ≤ c1) (hx : |(xn : ℝ) - D| ≤ c2)
    (hD : |D| + c1 ≤ 2147483647) (hc : c1 + c2 + 1 ≤ 2147483647)
    (hT : |(st.2 : ℝ) / 4294967296| ≤ 1073741824) : Lp2Box xn st := by
  obtain ⟨s0, s1⟩ := st
  simp only at hS hT
  unfold Lp2Box
  simp only
  rw [abs_le] at hS hx hT
  have hDa := abs_le.mp (le_refl |D|)
  have h0 := Int.mul_ediv_add_emod s0 4294967296
  have h1 := Int.emod_nonneg s0 (show (4294967296 : Int) ≠ 0 by norm_num)
  have h2 := Int.emod_lt_of_pos s0 (show (0 : Int) < 4294967296 by norm_num)
  have c0 : (4294967296 : ℝ) * ((s0 / 4294967296 : Int) : ℝ) ≤ (s0 : ℝ) := by
    have : 4294967296 * (s0 / 4294967296) ≤ s0 := by omega
    exact_mod_cast this
  have c1' : (s0 : ℝ) < (4294967296 : ℝ) * (((s0 / 4294967296 : Int) : ℝ) + 1) := by
    have : s0 < 4294967296 * (s0 / 4294967296 + 1) := by omega
    exact_mod_cast this
  have q0 : ((s0 / 4294967296 : Int) : ℝ) ≤ (s0 : ℝ) / 4294967296 := by
    rw [le_div_iff₀ (by norm_num)]; linarith
  have q1 : (s0 : ℝ) / 4294967296 < ((s0 / 4294967296 : Int) : ℝ) + 1 := by
    rw [div_lt_iff₀ (by norm_num)]; linarith
  have e0 : (s0 : ℝ) = (s0 : ℝ) / 4294967296 * 4294967296 := by field_simp
  have e1 : (s1 : ℝ) = (s1 : ℝ) / 4294967296 * 4294967296 := by field_simp
  refine ⟨?_, ?_, ?_, ?_, ?_, ?_⟩
  · have : (-9223372036854775808 : ℝ) ≤ (s0 : ℝ) := by rw [e0]; nlinarith
    exact_mod_cast this
  · have : (s0 : ℝ) < 9223372036854775808 := by rw [e0]; nlinarith
    exact_mod_cast this
  · have : (-2147483648 : ℝ) ≤ ((xn - s0 / 4294967296 : Int) : ℝ) := by push_cast; linarith
    exact_mod_cast this
  · have : ((xn - s0 / 4294967296 : Int) : ℝ) ≤ 2147483647 := by push_cast; linarith
    exact_mod_cast this
  · have : (-4611686018427387904 : ℝ) ≤ (s1 : ℝ) := by rw [e1]; nlinarith
    exact_mod_cast this
  · have : (s1 : ℝ) ≤ 4611686018427387904 := by rw [e1]; nlinarith
    exact_mod_cast this

end Idsp
