import IdspModel.Props.C01acc
import IdspModel.Props.C11
import Mathlib.Analysis.SpecialFunctions.Trigonometric.Basic
/-!
# Lock-in recovery, part 1: the mixer output is `DC + tone at twice the reference frequency + small error`

For a reference phase `p` (angle `φ = p·π/2^31`), LO sample `(c, s) = cossin p`, and an input sample `x` within `1` of
`A·cos(φ + θ)`:
  `⌊x·c/2^31⌋ = R·(cos θ + cos(2φ+θ)) + e_I`,   `⌊x·s/2^31⌋ = R·(−sin θ + sin(2φ+θ)) + e_Q`,
with `R = A·A0/2^32` (`A0 = 2^31 − 0.85·2^15`, the `cossin` amplitude) and `|e_I|, |e_Q| ≤ 9.1e-6·A + 2`
(`cossin` accuracy from C01acc, the rounding of the sample, the floor of the mixer).
-/
namespace Idsp
open Real

/-- the recovered amplitude scale `A·A0/2^32` (slightly below `A/2`) -/
noncomputable def lkR (A : ℝ) : ℝ := A * cossinAmplitude / 4294967296

theorem lk_cossinAmplitude_val : cossinAmplitude = 2147455795.2 := by unfold cossinAmplitude; norm_num

theorem lkR_le (A : ℝ) (hA : 0 ≤ A) : lkR A ≤ A / 2 ∧ 0.49999 * A ≤ lkR A := by
  unfold lkR; rw [lk_cossinAmplitude_val]
  constructor <;> nlinarith

private theorem floor_div_real (n : Int) :
    (n : ℝ) / 2147483648 - 1 < ((n / 2147483648 : Int) : ℝ) ∧ ((n / 2147483648 : Int) : ℝ) ≤ (n : ℝ) / 2147483648 := by
  have h0 := Int.mul_ediv_add_emod n 2147483648
  have h1 := Int.emod_nonneg n (show (2147483648 : Int) ≠ 0 by norm_num)
  have h2 := Int.emod_lt_of_pos n (show (0 : Int) < 2147483648 by norm_num)
  have c0 : (2147483648 : ℝ) * ((n / 2147483648 : Int) : ℝ) ≤ (n : ℝ) := by
    have : 2147483648 * (n / 2147483648) ≤ n := by omega
    exact_mod_cast this
  have c1 : (n : ℝ) < (2147483648 : ℝ) * (((n / 2147483648 : Int) : ℝ) + 1) := by
    have : n < 2147483648 * (n / 2147483648 + 1) := by omega
    exact_mod_cast this
  constructor
  · rw [sub_lt_iff_lt_add, div_lt_iff₀ (by norm_num)]; linarith
  · rw [le_div_iff₀ (by norm_num)]; linarith

/-- generic product step: `x ≈ A·u` (within 1), `c/A0 ≈ v` (within `9.1e-6`), `|u| ≤ 1`, `|c| ≤ 2^31` -/
private theorem mix_core (A u v : ℝ) (x c : Int) (hA : 0 ≤ A) (hu : |u| ≤ 1)
    (hx : |(x : ℝ) - A * u| ≤ 1) (hc : |(c : ℝ) / cossinAmplitude - v| ≤ 9.1e-6)
    (hcr : |(c : ℝ)| ≤ 2147483648) :
    |((x * c / 2147483648 : Int) : ℝ) - lkR A * (2 * u * v)| ≤ 9.1e-6 * A + 2 := by
  obtain ⟨f0, f1⟩ := floor_div_real (x * c)
  push_cast at f0 f1
  rw [lk_cossinAmplitude_val] at hc
  unfold lkR; rw [lk_cossinAmplitude_val]
  set ξ := (x : ℝ) - A * u with hξ
  set η := (c : ℝ) / 2147455795.2 - v with hη
  have hcv : (c : ℝ) = 2147455795.2 * (v + η) := by rw [hη]; field_simp; ring
  have hxv : (x : ℝ) = A * u + ξ := by rw [hξ]; ring
  -- x c / 2^31 = A u (A0/2^31)(v + η) + ξ c/2^31
  have e : (x : ℝ) * c / 2147483648 - A * 2147455795.2 / 4294967296 * (2 * u * v)
      = A * (2147455795.2 / 2147483648) * u * η + ξ * (c / 2147483648) := by
    rw [hxv]; nth_rewrite 1 [hcv]; ring
  have b1 : |A * (2147455795.2 / 2147483648) * u * η| ≤ 9.1e-6 * A := by
    rw [abs_mul, abs_mul, abs_mul, abs_of_nonneg hA, abs_of_pos (by norm_num : (0:ℝ) < 2147455795.2 / 2147483648)]
    have : |u| * |η| ≤ 1 * 9.1e-6 := mul_le_mul hu hc (abs_nonneg _) (by norm_num)
    have h3 : A * (2147455795.2 / 2147483648) * |u| * |η| = A * (2147455795.2 / 2147483648) * (|u| * |η|) := by ring
    rw [h3]
    have h4 : A * (2147455795.2 / 2147483648) * (|u| * |η|) ≤ A * 1 * (1 * 9.1e-6) := by
      apply mul_le_mul _ this (by positivity) (by positivity)
      apply mul_le_mul_of_nonneg_left _ hA; norm_num
    linarith
  have b2 : |ξ * ((c : ℝ) / 2147483648)| ≤ 1 := by
    rw [abs_mul, abs_div, abs_of_pos (by norm_num : (0:ℝ) < 2147483648)]
    have : |(c : ℝ)| / 2147483648 ≤ 1 := by rw [div_le_one (by norm_num)]; exact hcr
    calc |ξ| * (|(c : ℝ)| / 2147483648) ≤ 1 * 1 := mul_le_mul hx this (by positivity) (by norm_num)
      _ = 1 := by norm_num
  rw [abs_le] at b1 b2 ⊢
  constructor <;> linarith

/-- **Part 1, mixer decomposition** (for ANY `i32` phase, any amplitude `A ≥ 0`, any tone phase `θ`). -/
theorem lockin_mixer_decomposition (m : Mode) (A θ : ℝ) (hA : 0 ≤ A) (p x c s : Int) (hp : inI 32 p = true)
    (h : cossin m p = .ok (c, s))
    (hx : |(x : ℝ) - A * cos ((p : ℝ) * π / 2 ^ 31 + θ)| ≤ 1) :
    |((x * c / 2147483648 : Int) : ℝ)
        - lkR A * (cos θ + cos (2 * ((p : ℝ) * π / 2 ^ 31) + θ))| ≤ 9.1e-6 * A + 2 ∧
    |((x * s / 2147483648 : Int) : ℝ)
        - lkR A * (-sin θ + sin (2 * ((p : ℝ) * π / 2 ^ 31) + θ))| ≤ 9.1e-6 * A + 2 := by
  obtain ⟨ac, as⟩ := cossin_accuracy_sharp m p hp c s h
  have hck : cossin .checked p = .ok (c, s) := by
    rw [cossin_closed_form .checked p hp]; rw [cossin_closed_form m p hp] at h; exact h
  obtain ⟨⟨c0, c1⟩, ⟨s0, s1⟩, -⟩ := cossin_range p hp c s hck
  have hcr : |(c : ℝ)| ≤ 2147483648 := by
    rw [abs_le]; constructor
    · have : (-2147483648 : Int) ≤ c := by omega
      exact_mod_cast this
    · have : c ≤ (2147483648 : Int) := by omega
      exact_mod_cast this
  have hsr : |(s : ℝ)| ≤ 2147483648 := by
    rw [abs_le]; constructor
    · have : (-2147483648 : Int) ≤ s := by omega
      exact_mod_cast this
    · have : s ≤ (2147483648 : Int) := by omega
      exact_mod_cast this
  set φ := (p : ℝ) * π / 2 ^ 31 with hφ
  have hu : |cos (φ + θ)| ≤ 1 := abs_cos_le_one _
  have k1 := mix_core A (cos (φ + θ)) (cos φ) x c hA hu hx ac hcr
  have k2 := mix_core A (cos (φ + θ)) (sin φ) x s hA hu hx as hsr
  have g1 : ∀ a b : ℝ, 2 * cos a * cos b = cos (a - b) + cos (a + b) := by
    intro a b; rw [cos_sub, cos_add]; ring
  have g2 : ∀ a b : ℝ, 2 * cos a * sin b = -sin (a - b) + sin (a + b) := by
    intro a b; rw [sin_sub, sin_add]; ring
  have t1 : 2 * cos (φ + θ) * cos φ = cos θ + cos (2 * φ + θ) := by
    rw [g1, show φ + θ - φ = θ by ring, show φ + θ + φ = 2 * φ + θ by ring]
  have t2 : 2 * cos (φ + θ) * sin φ = -sin θ + sin (2 * φ + θ) := by
    rw [g2, show φ + θ - φ = θ by ring, show φ + θ + φ = 2 * φ + θ by ring]
  rw [t1] at k1; rw [t2] at k2
  exact ⟨k1, k2⟩

end Idsp
