import IdspModel.Lemmas.RpllLockFinal
import Mathlib.Tactic.GCongr
/-!
A decidable worst-case check of the hypotheses of `rpll_lock_holds_where_envelope_small` over a whole interval
`lo ≤ P ≤ hi` of reference periods (fixed `d, sf, sp`), and an adaptive bisection cover built on it.
-/
namespace Idsp

/-- floor division is monotone in the numerator and antitone in the (positive) denominator -/
theorem rpll_ediv_mono {a a' b b' : Int} (ha : 0 ≤ a) (haa : a ≤ a') (hb' : 0 < b') (hbb : b' ≤ b) :
    a / b ≤ a' / b' := by
  have hb : 0 < b := lt_of_lt_of_le hb' hbb
  rw [Int.le_ediv_iff_mul_le hb']
  have q0 : 0 ≤ a / b := Int.ediv_nonneg ha hb.le
  have h1 : a / b * b' ≤ a / b * b := mul_le_mul_of_nonneg_left hbb q0
  have h2 : a / b * b ≤ a := Int.ediv_mul_le a (by omega)
  linarith

/-- number of edges that halve the phase-loop norm, from the worst-case margin `Qlo` -/
def RpllCfg.rgQ (c : RpllCfg) (lo : Int) : Int := min (lo - 3 * c.D) (c.Lam / 2)
def RpllCfg.rgN0 (c : RpllCfg) (lo : Int) : Int := (c.Lam + c.rgQ lo - 1) / c.rgQ lo
/-- number of halvings that fit into the `2^(sp−d+5)` updates for every `P ≤ hi` -/
def RpllCfg.rgK (c : RpllCfg) (lo hi : Int) : Int := (32 * c.Lam / hi - 2) / c.rgN0 lo
def RpllCfg.rgNb (c : RpllCfg) (lo hi : Int) : Int :=
  c.Sg * c.Sg * (2 * c.Ub + hi + c.D + c.D * c.D) / c.rgQ lo + 1 + (c.Sg + 2) * 2 ^ 31 / 2 ^ (c.rgK lo hi).toNat
def RpllCfg.rgF (c : RpllCfg) (lo hi : Int) : Int := c.Sg * c.Sg * c.Ub + hi * (c.rgNb lo hi + c.Sg * c.Sg)
def RpllCfg.rgP (c : RpllCfg) (lo hi : Int) : Int :=
  2 * c.D * hi * c.Sg * c.rgNb lo hi + c.D * c.Sg * (2 * c.Sg * c.Ub + hi * (c.rgNb lo hi + 2 * c.Sg))
    + 2 * c.Sg * c.Sg * hi * c.D * c.D + 2 * hi * (c.Sg * c.Sg * c.Ub + hi * (c.rgNb lo hi + c.Sg * c.Sg))
    + 2 * c.Sg * c.Sg * c.D * hi

/-- worst-case check over `lo ≤ P ≤ hi` (uses only `c.d, c.sf, c.sp`) -/
def RpllCfg.rgChk (c : RpllCfg) (lo hi : Int) : Bool :=
  decide ((c.d : Int) < c.sf ∧ c.sf ≤ 31 ∧ (c.d : Int) ≤ c.sp ∧ c.sp - c.d < 32 ∧
    3 * c.D < lo ∧ lo ≤ hi ∧ hi ≤ c.Lam ∧ hi < c.S ∧ 0 ≤ c.rgK lo hi ∧
    100000 * c.rgF lo hi ≤ c.Sg * c.Sg * c.T ∧
    1000 * c.rgP lo hi ≤ 2 * (c.Sg * c.Sg * (c.D * (lo * 2 ^ 32))))

/-- the hypotheses of `rpll_lock_holds_where_envelope_small` -/
def RpllCfg.LockHyp (c : RpllCfg) : Prop :=
  c.Good ∧ ∃ k n0 : Nat, c.Lam ≤ n0 * c.Qm ∧ ((k * n0 + 2 : Nat) : Int) ≤ 32 * c.Lam / c.P ∧
    100000 * c.envF k ≤ c.Sg * c.Sg * c.T ∧ 1000 * c.envP k ≤ 2 * (c.Sg * c.Sg * (c.D * (c.P * 2 ^ 32)))

theorem rpll_rgChk_sound (c : RpllCfg) (lo hi : Int) (h : c.rgChk lo hi = true) (hlo : lo ≤ c.P) (hhi : c.P ≤ hi) :
    c.LockHyp := by
  unfold RpllCfg.rgChk at h
  rw [decide_eq_true_eq] at h
  obtain ⟨h1, h2, h3, h4, h5, h6, h7, h8, h9, hF, hP⟩ := h
  have hD0 : 0 < c.D := by unfold RpllCfg.D; positivity
  have g : c.Good :=
    { hDP := by have : c.D = 2 ^ c.d := rfl
                omega
      hPS := lt_of_le_of_lt hhi h8, hdsf := h1, hsf := h2, hsp0 := h3, hsp1 := h4,
      hP3 := by have : c.D = 2 ^ c.d := rfl
                omega
      hPsp := le_trans hhi h7 }
  obtain ⟨hQ0, hQ1, hQ2, hQL, hev⟩ := g.Qm_facts
  obtain ⟨hS4, -, -⟩ := g.Sg_ge
  have hSg0 : 0 < c.Sg := by omega
  have hP0 : 0 < c.P := by omega
  have hL4 : 4 ≤ c.Lam := by unfold RpllCfg.Lam; nlinarith
  have hq0 : 0 < c.rgQ lo := by unfold RpllCfg.rgQ; exact lt_min (by omega) (by omega)
  have hqQ : c.rgQ lo ≤ c.Qm := by
    unfold RpllCfg.rgQ RpllCfg.Qm; exact min_le_min (by omega) (le_refl _)
  -- n0
  have hn0pos : 1 ≤ c.rgN0 lo := by
    unfold RpllCfg.rgN0; rw [Int.le_ediv_iff_mul_le hq0]; omega
  have hceil : c.Lam ≤ c.rgN0 lo * c.rgQ lo := by
    have := Int.lt_ediv_add_one_mul_self (c.Lam + c.rgQ lo - 1) hq0
    unfold RpllCfg.rgN0; nlinarith
  have hn0c : ((c.rgN0 lo).toNat : Int) = c.rgN0 lo := Int.toNat_of_nonneg (by omega)
  have hkc : ((c.rgK lo hi).toNat : Int) = c.rgK lo hi := Int.toNat_of_nonneg h9
  have hUb0 : 0 ≤ c.Ub := by
    unfold RpllCfg.Ub
    have := g.toAdm.facts.2.2.1
    have : 0 ≤ c.T / 2 ^ 20 := Int.ediv_nonneg (by unfold RpllCfg.T; positivity) (by norm_num)
    omega
  refine ⟨g, (c.rgK lo hi).toNat, (c.rgN0 lo).toNat, ?_, ?_, ?_, ?_⟩
  · rw [hn0c]
    have : c.rgN0 lo * c.rgQ lo ≤ c.rgN0 lo * c.Qm := mul_le_mul_of_nonneg_left hqQ (by omega)
    linarith
  · push_cast
    rw [hn0c, hkc]
    have a1 : c.rgK lo hi * c.rgN0 lo ≤ 32 * c.Lam / hi - 2 := by
      unfold RpllCfg.rgK; exact Int.ediv_mul_le _ (by omega)
    have a2 : 32 * c.Lam / hi ≤ 32 * c.Lam / c.P :=
      rpll_ediv_mono (by omega) (le_refl _) hP0 hhi
    linarith
  all_goals
    have hC0 : 0 ≤ c.Sg * c.Sg * c.C0 := by
      unfold RpllCfg.C0
      have : 0 ≤ 2 * c.Ub + c.P + c.D + c.D * c.D := by nlinarith
      positivity
    have hCC : c.Sg * c.Sg * c.C0 ≤ c.Sg * c.Sg * (2 * c.Ub + hi + c.D + c.D * c.D) := by
      unfold RpllCfg.C0
      apply mul_le_mul_of_nonneg_left _ (by positivity)
      linarith
    have hLim : c.Lim ≤ c.Sg * c.Sg * (2 * c.Ub + hi + c.D + c.D * c.D) / c.rgQ lo + 1 := by
      unfold RpllCfg.Lim
      have := rpll_ediv_mono hC0 hCC hq0 hqQ
      linarith
    have hLim0 : 0 ≤ c.Lim := by
      unfold RpllCfg.Lim
      have := Int.ediv_nonneg hC0 hQ0.le
      omega
    have hTr0 : 0 ≤ (c.Sg + 2) * 2 ^ 31 / 2 ^ (c.rgK lo hi).toNat :=
      Int.ediv_nonneg (by positivity) (by positivity)
    have hNb : c.Nb (c.rgK lo hi).toNat ≤ c.rgNb lo hi := by
      unfold RpllCfg.Nb RpllCfg.rgNb; linarith
    have hNb0 : 0 ≤ c.Nb (c.rgK lo hi).toNat := by unfold RpllCfg.Nb; linarith
    have hhi0 : 0 < hi := by omega
  · have : c.envF (c.rgK lo hi).toNat ≤ c.rgF lo hi := by
      unfold RpllCfg.envF RpllCfg.rgF
      gcongr
    linarith
  · have : c.envP (c.rgK lo hi).toNat ≤ c.rgP lo hi := by
      unfold RpllCfg.envP RpllCfg.rgP
      gcongr
    have h3 : 2 * (c.Sg * c.Sg * (c.D * (lo * 2 ^ 32))) ≤ 2 * (c.Sg * c.Sg * (c.D * (c.P * 2 ^ 32))) := by
      gcongr
    linarith

end Idsp
