import IdspModel.Lemmas.CossinCore
import Mathlib.Tactic.Linarith
import Mathlib.Tactic.Ring
/-!
Helper lemmas for C19, part 1: the squared norm of the first-octant `cossin` core output.

For table row `l` (`S = l >> 16`, `C = (l & 0xffff) + 2^16`) and interpolation offset `d` the core returns
`a = C·2^14 - ⌊S·d/2^7⌋`, `b = S·2^15 + ⌊C·d/2^8⌋`.  With `A = 2^22·C - 2·S·d`, `B = 2^23·S + C·d` and the two floor
remainders `r1 = S·d mod 2^7`, `r2 = C·d mod 2^8` one has `256·a = A + 2·r1`, `256·b = B - r2` and the exact identity
`A² + B² = (C² + 4·S²)·(2^44 + d²)` (the cross terms cancel: the interpolation is a first-order rotation).
So `2^16·(a² + b²)` is `(C² + 4S²)·(2^44 + d²)` up to remainder terms of relative size `1e-9`; the bounds then follow
from a kernel-checked scan of `C² + 4S²` over the 128 table rows.
-/
namespace Idsp

/-- per-row acceptance test on a table word: with `N = C² + 4·S²`,
    `N·2^44 - (floor slack) ≥ 2^16 · (2147376274·2^31)` and `N·(2^44 + 12868²) + (floor slack) < 2^78`.
    (`2147376274 = ⌈2^31·(1 - 5e-5)⌉`.) -/
def polarRowOk (l : Int) : Bool :=
  decide (65536 * (2147376274 * 2 ^ 31) ≤
    ((l % 2 ^ 16 + 2 ^ 16) * (l % 2 ^ 16 + 2 ^ 16) + 4 * (l / 2 ^ 16) * (l / 2 ^ 16)) * 2 ^ 44
      - 510 * (256 * 1518488231 + 255)) &&
  decide (((l % 2 ^ 16 + 2 ^ 16) * (l % 2 ^ 16 + 2 ^ 16) + 4 * (l / 2 ^ 16) * (l / 2 ^ 16)) * (2 ^ 44 + 12868 * 12868)
      + 508 * (256 * 2147454703) + 64516 + 510 * 485888 + 65025 < 2 ^ 78)

/-- every one of the 128 rows passes (kernel-evaluated scan of the whole table) -/
theorem polarTable_rows_ok : ∀ i : Nat, i < 128 → polarRowOk (cossinTable.getD i 0) = true := by
  decide +kernel

/-- the purely algebraic core: from `256·a = A + 2·r1`, `256·b = B - r2`, `A² + B² = N·(2^44 + d²)` and the ranges
    of everything, the two numeric row facts give the bounds on `a² + b²` -/
theorem polar_norm_alg {a b A B r1 r2 N d : Int}
    (ha : 256 * a = A + 2 * r1) (hb : 256 * b = B - r2) (hAB : A * A + B * B = N * (2 ^ 44 + d * d))
    (hr1 : 0 ≤ r1 ∧ r1 ≤ 127) (hr2 : 0 ≤ r2 ∧ r2 ≤ 255)
    (ha0 : 1518478556 ≤ a) (ha1 : a ≤ 2147454703) (hb0 : -1898 ≤ b) (hb1 : b ≤ 1518488231)
    (hd0 : -12868 ≤ d) (hd1 : d ≤ 12868) (hN : 0 ≤ N)
    (hlo : 65536 * (2147376274 * 2 ^ 31) ≤ N * 2 ^ 44 - 510 * (256 * 1518488231 + 255))
    (hhi : N * (2 ^ 44 + 12868 * 12868) + 508 * (256 * 2147454703) + 64516 + 510 * 485888 + 65025 < 2 ^ 78) :
    2147376274 * 2 ^ 31 ≤ a * a + b * b ∧ a * a + b * b < 2 ^ 62 := by
  have e : 65536 * (a * a + b * b) = (A + 2 * r1) * (A + 2 * r1) + (B - r2) * (B - r2) := by
    rw [← ha, ← hb]; ring
  have hA0 : 0 ≤ A := by omega
  have hA1 : A ≤ 256 * 2147454703 := by omega
  have hB0 : -(485888 : Int) ≤ B := by omega
  have hB1 : B ≤ 256 * 1518488231 + 255 := by omega
  have hdd0 : 0 ≤ d * d := mul_self_nonneg d
  have hdd1 : d * d ≤ 12868 * 12868 := by nlinarith
  have hNd0 : 0 ≤ N * (d * d) := mul_nonneg hN hdd0
  have hNd1 : N * (d * d) ≤ N * (12868 * 12868) := Int.mul_le_mul_of_nonneg_left hdd1 hN
  -- the remainder terms
  have t1 : 0 ≤ r1 * A := mul_nonneg hr1.1 hA0
  have t2 : r1 * A ≤ 127 * (256 * 2147454703) := by nlinarith
  have t3 : 0 ≤ r1 * r1 := mul_self_nonneg r1
  have t4 : r1 * r1 ≤ 127 * 127 := by nlinarith
  have t5 : 0 ≤ r2 * r2 := mul_self_nonneg r2
  have t6 : r2 * r2 ≤ 255 * 255 := by nlinarith
  have t7 : r2 * B ≤ 255 * (256 * 1518488231 + 255) := by
    by_cases h : 0 ≤ B
    · nlinarith [mul_nonneg (by linarith : 0 ≤ 255 - r2) h]
    · nlinarith [mul_nonneg hr2.1 (by linarith : 0 ≤ -B)]
  have t8 : -(255 * 485888 : Int) ≤ r2 * B := by
    by_cases h : 0 ≤ B
    · nlinarith [mul_nonneg hr2.1 h]
    · nlinarith [mul_nonneg (by linarith : 0 ≤ 255 - r2) (by linarith : 0 ≤ -B),
        mul_nonneg hr2.1 (by linarith : 0 ≤ B + 485888)]
  have e2 : 65536 * (a * a + b * b) =
      N * 2 ^ 44 + N * (d * d) + 4 * (r1 * A) + 4 * (r1 * r1) - 2 * (r2 * B) + r2 * r2 := by
    have e3 : N * 2 ^ 44 + N * (d * d) = A * A + B * B := by rw [hAB]; ring
    rw [e, e3]; ring
  constructor
  · have : 65536 * (2147376274 * 2 ^ 31) ≤ 65536 * (a * a + b * b) := by rw [e2]; omega
    omega
  · have : 65536 * (a * a + b * b) < 2 ^ 78 := by rw [e2]; omega
    omega

/-- row lemma: for a table word `l` that passes both scans and every interpolation offset `d` in range, the core
    output `(a, b)` has `2147376274·2^31 ≤ a² + b² < 2^62` -/
theorem polarRow_norm {l d : Int} (h : cossinRowOk l = true) (h' : polarRowOk l = true)
    (hd0 : -12868 ≤ d) (hd1 : d ≤ 12866) :
    2147376274 * 2 ^ 31 ≤
      ((l % 2 ^ 16 + 2 ^ 16) * 2 ^ 14 - (l / 2 ^ 16 * d) / 2 ^ 7) * ((l % 2 ^ 16 + 2 ^ 16) * 2 ^ 14 - (l / 2 ^ 16 * d) / 2 ^ 7)
      + (l / 2 ^ 16 * 2 ^ 15 + ((l % 2 ^ 16 + 2 ^ 16) * d) / 2 ^ 8) * (l / 2 ^ 16 * 2 ^ 15 + ((l % 2 ^ 16 + 2 ^ 16) * d) / 2 ^ 8) ∧
    ((l % 2 ^ 16 + 2 ^ 16) * 2 ^ 14 - (l / 2 ^ 16 * d) / 2 ^ 7) * ((l % 2 ^ 16 + 2 ^ 16) * 2 ^ 14 - (l / 2 ^ 16 * d) / 2 ^ 7)
      + (l / 2 ^ 16 * 2 ^ 15 + ((l % 2 ^ 16 + 2 ^ 16) * d) / 2 ^ 8) * (l / 2 ^ 16 * 2 ^ 15 + ((l % 2 ^ 16 + 2 ^ 16) * d) / 2 ^ 8)
      < 2 ^ 62 := by
  obtain ⟨l0, l1, c0, c1, s0, s1⟩ := cossinRow_bounds h hd0 hd1
  simp only [polarRowOk, Bool.and_eq_true, decide_eq_true_eq] at h'
  obtain ⟨hlo, hhi⟩ := h'
  generalize hS : l / 2 ^ 16 = S at *
  generalize hC : l % 2 ^ 16 + 2 ^ 16 = C at *
  have hS0 : 0 ≤ S := by omega
  have hC0 : 0 ≤ C := by omega
  have hr1 : 0 ≤ (S * d) % 2 ^ 7 ∧ (S * d) % 2 ^ 7 ≤ 127 := by omega
  have hr2 : 0 ≤ (C * d) % 2 ^ 8 ∧ (C * d) % 2 ^ 8 ≤ 255 := by omega
  have q1 := Int.emod_add_mul_ediv (S * d) (2 ^ 7)
  have q2 := Int.emod_add_mul_ediv (C * d) (2 ^ 8)
  refine polar_norm_alg (A := 2 ^ 22 * C - 2 * (S * d)) (B := 2 ^ 23 * S + C * d)
    (r1 := (S * d) % 2 ^ 7) (r2 := (C * d) % 2 ^ 8) (N := C * C + 4 * S * S) (d := d)
    (by omega) (by omega) (by ring) hr1 hr2 c0 c1 s0 s1 hd0 (by omega) ?_ hlo hhi
  have := mul_self_nonneg C
  have := mul_self_nonneg S
  nlinarith

end Idsp
