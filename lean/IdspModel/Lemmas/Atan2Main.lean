import IdspModel.Lemmas.Atan2Table
import IdspModel.Lemmas.Atan2Divi
import IdspModel.Lemmas.Atan2Xor
/-!
# Structure of `atan2`

`atan2 y x` = `unfoldOct` (three reflections, each to within one LSB) applied to the first-octant value
`oct0` = `atani (divi (min |y| |x|) (max |y| |x|))`, where `|·|` is the saturating absolute value.
Combines `divi_spec`, the complete `atani` table and the XOR lemma; holds for every `i32` pair and in both build
modes (since the `fix:` commit clamps the quotient in `divi`).  Core Lean only.
-/
namespace Idsp

/-- equality of results is decidable (used for `decide` witnesses) -/
instance atan2DecEqR : DecidableEq (R Int) := fun a b =>
  match a, b with
  | .ok x, .ok y => if h : x = y then isTrue (by rw [h]) else isFalse (fun e => h (Except.ok.inj e))
  | .error x, .error y =>
    if h : x = y then isTrue (by rw [h]) else isFalse (fun e => h (Except.error.inj e))
  | .ok _, .error _ => isFalse (fun e => by cases e)
  | .error _, .ok _ => isFalse (fun e => by cases e)

/-- `|v|` as `atan2` forms it: `saturating_neg` of a negative operand (`i32::MIN ↦ i32::MAX`) -/
def satAbs (v : Int) : Int := if v < 0 then satI 32 (-v) else v

theorem satAbs_of_in {v : Int} (h : inI 32 v = true) :
    satAbs v = if v < 0 then (if v = -2 ^ 31 then 2 ^ 31 - 1 else -v) else v := by
  have ⟨h0, h1⟩ := inI_iff.mp h
  simp only [Nat.reduceSub] at h0 h1
  unfold satAbs satI minI maxI
  simp only [Nat.reduceSub]
  split
  · split
    · omega
    · split <;> split <;> omega
  · rfl

/-- the first-octant computation on the sorted magnitudes -/
def oct0 (m : Mode) (y x : Int) : R Int := do
  let d ← divi m (min (satAbs y) (satAbs x)) (max (satAbs y) (satAbs x))
  atani m d

theorem atan2_swap_aux (m : Mode) (A B K0 K1 : Int) :
    (do
      let d ← divi m (if A > B then (B, A, K1) else (A, B, K0)).fst
        (if A > B then (B, A, K1) else (A, B, K0)).2.fst
      let r ← atani m d
      Except.ok (wrapI 32 (xorU32 r (if A > B then (B, A, K1) else (A, B, K0)).2.snd))) =
    (do
      let r ← (do
        let d ← divi m (min A B) (max A B)
        atani m d)
      Except.ok (wrapI 32 (xorU32 r (if decide (B < A) = true then K1 else K0))) : R Int) := by
  by_cases h : B < A
  · have hmin : min A B = B := by rw [Int.min_def]; split <;> omega
    have hmax : max A B = A := by rw [Int.max_def]; split <;> omega
    simp only [gt_iff_lt, h, if_true, decide_true, hmin, hmax, bind_assoc]
  · have hmin : min A B = A := by rw [Int.min_def]; split <;> omega
    have hmax : max A B = B := by rw [Int.max_def]; split <;> omega
    simp only [gt_iff_lt, h, if_false, decide_false, hmin, hmax, bind_assoc, Bool.false_eq_true]

/-- `atan2` = first-octant value of the sorted magnitudes, XORed with the mask of the three reflections -/
theorem atan2_eq (m : Mode) (y x : Int) :
    atan2 m y x = (do
      let r ← oct0 m y x
      .ok (wrapI 32 (xorU32 r
        (octMask (decide (y < 0)) (decide (x < 0)) (decide (satAbs x < satAbs y)))))) := by
  unfold atan2 oct0 octMask satAbs
  by_cases hy : y < 0 <;> by_cases hx : x < 0 <;>
    simp only [hy, hx, if_true, if_false, decide_true, decide_false, Bool.false_eq_true] <;>
    exact atan2_swap_aux ..

theorem satAbs_range {v : Int} (h : inI 32 v = true) : 0 ≤ satAbs v ∧ satAbs v < 2 ^ 31 := by
  have ⟨h0, h1⟩ := inI_iff.mp h
  simp only [Nat.reduceSub] at h0 h1
  rw [satAbs_of_in h]
  split
  · split <;> omega
  · omega

theorem satAbs_neg {v : Int} (h : inI 32 v = true) (h' : inI 32 (-v) = true) : satAbs (-v) = satAbs v := by
  have ⟨h0, h1⟩ := inI_iff.mp h
  have ⟨h0', h1'⟩ := inI_iff.mp h'
  simp only [Nat.reduceSub] at h0 h1 h0' h1'
  rw [satAbs_of_in h, satAbs_of_in h']
  split <;> split <;> (try split) <;> (try split) <;> omega

theorem oct0_neg_y (m : Mode) {y : Int} (x : Int) (h : inI 32 y = true) (h' : inI 32 (-y) = true) :
    oct0 m (-y) x = oct0 m y x := by
  unfold oct0; rw [satAbs_neg h h']

theorem oct0_neg_x (m : Mode) (y : Int) {x : Int} (h : inI 32 x = true) (h' : inI 32 (-x) = true) :
    oct0 m y (-x) = oct0 m y x := by
  unfold oct0; rw [satAbs_neg h h']

theorem oct0_swap (m : Mode) (y x : Int) : oct0 m x y = oct0 m y x := by
  unfold oct0; rw [Int.min_comm, Int.max_comm]

/-! ## release build = checked build: no plain operation of `atani` leaves its type when the checked run succeeds -/

theorem arithI_cases (w : Nat) (site : String) (x : Int) :
    (∀ m, arithI m w site x = .ok x) ∨ arithI .checked w site x = .error ⟨site⟩ := by
  by_cases h : inI w x = true
  · left; intro m; exact arithI_ok_of_in h
  · right; simp [arithI, h]

theorem R_error_bind {α β : Type} (e : Panic) (f : α → R β) : ((Except.error e : R α) >>= f) = .error e := rfl

theorem atanHorner_release (x2 : Int) : ∀ (as : List Int) (r v : Int),
    atanHorner .checked x2 as r = .ok v → atanHorner .release x2 as r = .ok v := by
  intro as
  induction as with
  | nil => intro r v h; unfold atanHorner at h ⊢; exact h
  | cons a as ih =>
    intro r v h
    unfold atanHorner at h ⊢
    rcases arithI_cases 64 "atan2.rs:26 r as i64 * x2" (r * x2) with h1 | h1
    · rw [h1 .checked, R_ok_bind] at h; rw [h1 .release, R_ok_bind]
      rcases arithI_cases 32 "atan2.rs:26 (..) as i32 + a" (wrapI 32 (shr (r * x2) 32) + a) with h2 | h2
      · rw [h2 .checked, R_ok_bind] at h; rw [h2 .release, R_ok_bind]; exact ih _ _ h
      · rw [h2, R_error_bind] at h; cases h
    · rw [h1, R_error_bind] at h; cases h

/-- whenever checked `atani` returns a value, the release build returns the same value (for every argument) -/
theorem atani_release {x v : Int} (h : atani .checked x = .ok v) : atani .release x = .ok v := by
  unfold atani at h ⊢
  rcases arithI_cases 64 "atan2.rs:22 x * x" (x * x) with h1 | h1
  · rw [h1 .checked, R_ok_bind] at h; rw [h1 .release, R_ok_bind]
    dsimp only at h ⊢
    generalize hh : atanHorner .checked (wrapI 32 (shr (x * x) 32)) atanCoeffs.reverse 0 = H at h
    cases H with
    | error e => rw [R_error_bind] at h; cases h
    | ok r =>
      rw [R_ok_bind] at h; rw [atanHorner_release _ _ _ _ hh, R_ok_bind]
      rcases arithI_cases 64 "atan2.rs:27 r as i64 * x" (r * x) with h2 | h2
      · rw [h2 .checked, R_ok_bind] at h; rw [h2 .release, R_ok_bind]; exact h
      · rw [h2, R_error_bind] at h; cases h
  · rw [h1, R_error_bind] at h; cases h

theorem atani_all_modes {x v : Int} (h : atani .checked x = .ok v) (m : Mode) : atani m x = .ok v := by
  cases m
  · exact h
  · exact atani_release h

/-! ## the first octant -/

/-- The first-octant computation for sorted non-negative operands, in either build mode: it succeeds with the
    same value `r ∈ [0, 2^29 + 2599]`; `0` iff the larger operand is `≤ 1`, else `≥ 5215`; `= 5215` on the axis. -/
theorem oct_ok {a b : Int} (ha : 0 ≤ a) (hab : a ≤ b) (hb : b < 2 ^ 31) :
    ∃ r, (∀ m, (do let d ← divi m a b; atani m d) = .ok r) ∧ 0 ≤ r ∧ r ≤ atanMax ∧
      (b ≤ 1 → r = 0) ∧ (2 ≤ b → 5215 ≤ r) ∧ (a = 0 → 2 ≤ b → r = 5215) := by
  rcases divi_spec ha hab hb with ⟨h1, hd⟩ | ⟨h2, q, hd, hq0, hq1, hqz⟩
  · refine ⟨0, fun m => ?_, by omega, by unfold atanMax; omega, fun _ => rfl, by omega, by omega⟩
    rw [hd m, R_ok_bind]; exact atani_all_modes atani_zero m
  · obtain ⟨n, rfl⟩ := Int.eq_ofNat_of_zero_le hq0
    obtain ⟨r, hr, r0, r1⟩ := atanQ_ok n (by omega)
    have h0 := atanQ_mono (q := 0) (q' := n) (by omega) (by omega) atanQ_0 hr
    refine ⟨r, fun m => ?_, r0, r1, by omega, fun _ => h0, ?_⟩
    · rw [hd m, R_ok_bind]; exact atani_all_modes hr m
    · intro ha0 _
      have : n = 0 := by have := hqz ha0; omega
      subst this
      exact Except.ok.inj (hr.symm.trans atanQ_0)

theorem oct0_ok {y x : Int} (hy : inI 32 y = true) (hx : inI 32 x = true) :
    ∃ r0, (∀ m, oct0 m y x = .ok r0) ∧ 0 ≤ r0 ∧ r0 ≤ atanMax ∧
      (max (satAbs y) (satAbs x) ≤ 1 → r0 = 0) ∧ (2 ≤ max (satAbs y) (satAbs x) → 5215 ≤ r0) ∧
      (min (satAbs y) (satAbs x) = 0 → 2 ≤ max (satAbs y) (satAbs x) → r0 = 5215) := by
  have ⟨y0, y1⟩ := satAbs_range hy
  have ⟨x0, x1⟩ := satAbs_range hx
  exact oct_ok (a := min (satAbs y) (satAbs x)) (b := max (satAbs y) (satAbs x)) (by omega) (by omega) (by omega)

/-- `atan2` on every in-range pair, in either build mode: no panic, and the value is the first octant value `r0`
    pushed through the three reflections. -/
theorem atan2_val {y x : Int} (hy : inI 32 y = true) (hx : inI 32 x = true) :
    ∃ r0, (∀ m, oct0 m y x = .ok r0) ∧ 0 ≤ r0 ∧ r0 ≤ atanMax ∧
      (max (satAbs y) (satAbs x) ≤ 1 → r0 = 0) ∧ (2 ≤ max (satAbs y) (satAbs x) → 5215 ≤ r0) ∧
      (min (satAbs y) (satAbs x) = 0 → 2 ≤ max (satAbs y) (satAbs x) → r0 = 5215) ∧
      ∀ m, atan2 m y x =
        .ok (unfoldOct (decide (y < 0)) (decide (x < 0)) (decide (satAbs x < satAbs y)) r0) := by
  obtain ⟨r0, hr, h0, h1, h2, h3, h5⟩ := oct0_ok hy hx
  refine ⟨r0, hr, h0, h1, h2, h3, h5, fun m => ?_⟩
  rw [atan2_eq, hr m]
  show Except.ok _ = _
  rw [xor_unfold h0 (by unfold atanMax at h1; omega)]

end Idsp
