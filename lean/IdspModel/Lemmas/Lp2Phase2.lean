import IdspModel.Lemmas.Lp2Phase
/-!
# Second-order lowpass: the approach phase of a large step, general start velocity

As `lp2_phase1`, but the start velocity may have either sign (`|s₀| ≤ S0`): the potential `b·e + 2^32·max(−s,0)` is
non-increasing, so the error never exceeds `Emax = e₀ + 2^32·S0/b`; the velocity obeys the two bounds
`s_n ≤ S0 + n·g` (acceleration) and `s_n ≤ ST` (terminal velocity), which give the two-piece lower bound of the error.
-/
namespace Idsp
set_option linter.unusedVariables false

theorem lp2_phase2 {a b U : Int} (ha : 0 < a) (hb0 : 0 < b) (hb1 : b ≤ 2147483648) (hU : 0 ≤ U)
    (e s : Nat → Int) (Emax : Int)
    (hrel : ∀ n, U ≤ a * e n → e n ≤ Emax → Lp2Rel a b U (e n) (s n) (e (n + 1)) (s (n + 1)))
    (S0 ST g : Int) (h00 : -S0 ≤ s 0) (h01 : s 0 ≤ S0) (hS0 : 0 ≤ S0) (hg0 : 0 ≤ g)
    (hEmax : b * e 0 + 4294967296 * S0 ≤ b * Emax)
    (hST : a * Emax + U ≤ b * ST) (hS0T : S0 ≤ ST)
    (hg : 2 * a * Emax + 2 * U ≤ 4294967296 * g) :
    ∀ n : Nat, (∀ j, j < n → U ≤ a * e j) →
      (∃ m : Int, 0 ≤ m ∧ m ≤ S0 ∧ -m ≤ s n ∧ b * e n + 4294967296 * m ≤ b * e 0 + 4294967296 * S0) ∧
      s n ≤ ST ∧ s n ≤ S0 + n * g ∧ e 0 - 2 * n * S0 - n ^ 2 * g ≤ e n ∧ e n ≤ Emax := by
  intro n
  induction n with
  | zero =>
    intro _
    refine ⟨⟨S0, hS0, le_refl _, h00, le_refl _⟩, by omega, by simp; omega, by simp, ?_⟩
    have : b * e 0 ≤ b * Emax := by nlinarith
    exact le_of_mul_le_mul_left this hb0
  | succ n ih =>
    intro hj
    obtain ⟨⟨m, hm0, hmS, hms, hpot⟩, ihT, ihg, ihe, ihmax⟩ := ih (fun j hjn => hj j (by omega))
    have hen := hj n (by omega)
    obtain ⟨u, hu, h1, h2⟩ := hrel n hen ihmax
    obtain ⟨hu0, hu1⟩ := abs_le_of_sq_le_sq' hu hU
    have hsum := (hrel n hen ihmax).sum
    have hMb : (0 : Int) ≤ 4294967296 - 2 * b := by omega
    -- negative part of the new velocity
    have hneg : 4294967296 * (-(s (n + 1))) ≤ (4294967296 - 2 * b) * m := by
      have h3 : (4294967296 - 2 * b) * (-m) ≤ (4294967296 - 2 * b) * s n := mul_le_mul_of_nonneg_left hms hMb
      nlinarith
    have hpot' : ∃ m' : Int, 0 ≤ m' ∧ m' ≤ S0 ∧ -m' ≤ s (n + 1) ∧
        b * e (n + 1) + 4294967296 * m' ≤ b * e 0 + 4294967296 * S0 := by
      have hmle : max (-(s (n + 1))) 0 ≤ S0 := by
        have hmm : (4294967296 - 2 * b) * m ≤ 4294967296 * m := by nlinarith
        rcases le_total (-(s (n + 1))) 0 with h | h
        · rw [max_eq_right h]; exact hS0
        · rw [max_eq_left h]
          have : 4294967296 * (-(s (n + 1))) ≤ 4294967296 * S0 := by nlinarith
          exact le_of_mul_le_mul_left this (by norm_num)
      refine ⟨max (-(s (n + 1))) 0, le_max_right _ _, hmle,
        by have := le_max_left (-(s (n + 1))) 0; omega, ?_⟩
      have hm' : 4294967296 * max (-(s (n + 1))) 0 ≤ (4294967296 - 2 * b) * m := by
        rcases le_total (-(s (n + 1))) 0 with h | h
        · rw [max_eq_right h]; have := mul_nonneg hMb hm0; omega
        · rw [max_eq_left h]; exact hneg
      have hm'0 : 0 ≤ max (-(s (n + 1))) 0 := le_max_right _ _
      have hs' : -(max (-(s (n + 1))) 0) ≤ s (n + 1) := by have := le_max_left (-(s (n + 1))) 0; omega
      generalize max (-(s (n + 1))) 0 = m' at *
      -- (b+M) m' ≤ (M-b) m
      have h5 : 4294967296 * ((b + 4294967296) * m') ≤ 4294967296 * ((4294967296 - b) * m) := by
        have := mul_le_mul_of_nonneg_left hm' (show (0 : Int) ≤ b + 4294967296 by omega)
        have hbm : 0 ≤ b * b * m := by positivity
        nlinarith
      have h6 := le_of_mul_le_mul_left h5 (by norm_num : (0 : Int) < 4294967296)
      rw [hsum]
      nlinarith
    have hT' : s (n + 1) ≤ ST := by
      have h3 : (4294967296 - 2 * b) * s n ≤ (4294967296 - 2 * b) * ST := mul_le_mul_of_nonneg_left ihT hMb
      have h4 : a * e n ≤ a * Emax := mul_le_mul_of_nonneg_left ihmax (le_of_lt ha)
      have : 4294967296 * s (n + 1) ≤ 4294967296 * ST := by linarith [h2, h3, h4, hST, hu1]
      exact le_of_mul_le_mul_left this (by norm_num)
    have hg' : s (n + 1) ≤ S0 + ((n + 1 : Nat) : Int) * g := by
      have h4 : a * e n ≤ a * Emax := mul_le_mul_of_nonneg_left ihmax (le_of_lt ha)
      have hng : (0 : Int) ≤ n * g := by positivity
      have h3 : (4294967296 - 2 * b) * s n ≤ 4294967296 * (S0 + n * g) := by
        rcases le_total 0 (s n) with hs | hs
        · have e1 : (4294967296 - 2 * b) * s n ≤ 4294967296 * s n := by nlinarith
          have e2 : 4294967296 * s n ≤ 4294967296 * (S0 + n * g) := by nlinarith
          linarith
        · have e1 : (4294967296 - 2 * b) * s n ≤ 0 := mul_nonpos_of_nonneg_of_nonpos hMb hs
          nlinarith
      have : 4294967296 * s (n + 1) ≤ 4294967296 * (S0 + ((n + 1 : Nat) : Int) * g) := by
        push_cast; linarith [h2, h3, h4, hg, hu1]
      exact le_of_mul_le_mul_left this (by norm_num)
    obtain ⟨m', hm'0, hm'S, hm's, hpot''⟩ := hpot'
    refine ⟨⟨m', hm'0, hm'S, hm's, hpot''⟩, hT', hg', ?_, ?_⟩
    · rw [hsum]; push_cast at hg' ⊢; linarith [ihe, ihg, hg']
    · have hmm : 0 ≤ 4294967296 * m' := by positivity
      have : b * e (n + 1) ≤ b * Emax := by linarith
      exact le_of_mul_le_mul_left this hb0

/-- the approach phase lasts `N` steps if the two-piece bound (switching from acceleration to terminal velocity at
    step `J`) stays above the threshold -/
theorem lp2_phase2_len {a b U : Int} (ha : 0 < a) (hb0 : 0 < b) (hb1 : b ≤ 2147483648) (hU : 0 ≤ U)
    (e s : Nat → Int) (Emax : Int)
    (hrel : ∀ n, U ≤ a * e n → e n ≤ Emax → Lp2Rel a b U (e n) (s n) (e (n + 1)) (s (n + 1)))
    (S0 ST g thr : Int) (h00 : -S0 ≤ s 0) (h01 : s 0 ≤ S0) (hS0 : 0 ≤ S0) (hg0 : 0 ≤ g)
    (hEmax : b * e 0 + 4294967296 * S0 ≤ b * Emax)
    (hST : a * Emax + U ≤ b * ST) (hS0T : S0 ≤ ST)
    (hg : 2 * a * Emax + 2 * U ≤ 4294967296 * g) (hthr : U ≤ a * thr)
    (J N : Nat) (hJN : J ≤ N)
    (hlen : thr ≤ e 0 - 2 * J * S0 - J ^ 2 * g - 2 * (N - J) * ST) :
    ∀ n : Nat, n ≤ N → thr ≤ e n ∧ -S0 ≤ s n ∧ s n ≤ ST ∧ e n ≤ Emax := by
  have hST0 : 0 ≤ ST := by omega
  -- stage b: from J on, each step loses at most 2·ST
  have stageb : ∀ n : Nat, (∀ j, j < J + n → U ≤ a * e j) → e J - 2 * n * ST ≤ e (J + n) := by
    intro n
    induction n with
    | zero => intro _; simp
    | succ n ih =>
      intro hj
      have h1 := ih (fun j hjn => hj j (by omega))
      obtain ⟨-, hT, -, -, hmx⟩ := lp2_phase2 ha hb0 hb1 hU e s Emax hrel S0 ST g h00 h01 hS0 hg0 hEmax hST hS0T hg
        (J + n) (fun j hjn => hj j (by omega))
      obtain ⟨-, hT', -, -, -⟩ := lp2_phase2 ha hb0 hb1 hU e s Emax hrel S0 ST g h00 h01 hS0 hg0 hEmax hST hS0T hg
        (J + n + 1) (fun j hjn => hj j (by omega))
      have hsum := (hrel (J + n) (hj (J + n) (by omega)) hmx).sum
      rw [show J + (n + 1) = J + n + 1 by omega, hsum]
      push_cast; nlinarith
  intro n
  induction n using Nat.strongRecOn with
  | _ n ih =>
    intro hn
    have hprev : ∀ j, j < n → U ≤ a * e j := by
      intro j hj
      have := (ih j hj (by omega)).1
      have := mul_le_mul_of_nonneg_left this (le_of_lt ha)
      omega
    obtain ⟨⟨m, hm0, hmS, hms, hpot⟩, hT, hgn, hen, hmax⟩ :=
      lp2_phase2 ha hb0 hb1 hU e s Emax hrel S0 ST g h00 h01 hS0 hg0 hEmax hST hS0T hg n hprev
    refine ⟨?_, by omega, hT, hmax⟩
    have hNJ : (0 : Int) ≤ (N : Int) - J := by
      have : (J : Int) ≤ N := by exact_mod_cast hJN
      omega
    rcases Nat.le_total n J with hnJ | hnJ
    · -- acceleration stage
      have h1 : (n : Int) ≤ J := by exact_mod_cast hnJ
      have h0 : (0 : Int) ≤ n := by positivity
      have h2 : 2 * (n : Int) * S0 ≤ 2 * J * S0 := by nlinarith
      have h3 : (n : Int) ^ 2 * g ≤ (J : Int) ^ 2 * g := by
        have : (n : Int) ^ 2 ≤ (J : Int) ^ 2 := by nlinarith
        nlinarith
      have h4 : 0 ≤ 2 * ((N : Int) - J) * ST := by positivity
      linarith
    · -- terminal-velocity stage
      obtain ⟨i, rfl⟩ : ∃ i, n = J + i := ⟨n - J, by omega⟩
      have hb := stageb i hprev
      obtain ⟨-, -, -, heJ, -⟩ :=
        lp2_phase2 ha hb0 hb1 hU e s Emax hrel S0 ST g h00 h01 hS0 hg0 hEmax hST hS0T hg J
          (fun j hj => hprev j (by omega))
      have hi : (i : Int) ≤ (N : Int) - J := by
        have : ((J + i : Nat) : Int) ≤ N := by exact_mod_cast hn
        push_cast at this; omega
      have h5 : 2 * (i : Int) * ST ≤ 2 * ((N : Int) - J) * ST := by nlinarith
      linarith

end Idsp
