import IdspModel.Lemmas.Lp2Core
/-!
# Second-order lowpass: levels within `±2^30`, steps up to `3·2^28`

The symmetric sector-safe region scaled to `h = 3·2^26` (`Vmax = 80·a³·2^64·h²`, `R = 10·a·2^32·h`,
`|get − x| ≤ 5h + 65537 < 2^30`): it is safe for every input `|x| ≤ 2^30` and contains every state settled at a
level `xo` with `|x − xo| ≤ 3·2^28`.
-/
namespace Idsp
set_option linter.unusedVariables false

def lp2VmaxW (a : Int) : Int := 80 * a ^ 3 * 4294967296 ^ 2 * 201326592 ^ 2
def lp2RW (a : Int) : Int := 10 * a * 4294967296 * 201326592

theorem lp2_safe2_W {k a b x : Int} (h : Lp2Butter k a b)
    (hx0 : -1073741824 ≤ x) (hx1 : x ≤ 1073741824) : Lp2Safe2 a b x (lp2VmaxW a) (lp2RW a) := by
  have ha := h.a_ge; have hal := h.a_le; have hbl := h.b_le; have hb := h.hb0; have hbg := h.b_ge
  have hA := h.adm
  have h4M := lp2_four_a_le_Mb h
  obtain ⟨hD5, hD⟩ := lp2_disc_ge h
  have hba := lp2_b_le_a h
  have ha2 : 1 ≤ a ^ 2 := by nlinarith
  have ha3 : a ^ 2 ≤ a ^ 3 := by nlinarith
  refine ⟨8 * a * 4294967296 * 201326592, 1006698497, by unfold lp2RW; positivity, by positivity, by norm_num,
    by omega, by omega, ?_, ?_, ?_, ?_, ?_, ?_⟩
  · unfold lp2VmaxW lp2RW
    have key : (4294967296 - b + a) * (80 * a ^ 3 * 4294967296 ^ 2 * 201326592 ^ 2)
        ≤ a * (4294967296 - b) * (10 * a * 4294967296 * 201326592) ^ 2 := by
      have e1 : (4294967296 - b + a) * (80 * a ^ 3 * 4294967296 ^ 2 * 201326592 ^ 2)
          = (20 * a ^ 3 * 4294967296 ^ 2 * 201326592 ^ 2) * (4 * (4294967296 - b + a)) := by ring
      have e2 : a * (4294967296 - b) * (10 * a * 4294967296 * 201326592) ^ 2
          = (20 * a ^ 3 * 4294967296 ^ 2 * 201326592 ^ 2) * (5 * (4294967296 - b)) := by ring
      rw [e1, e2]
      exact mul_le_mul_of_nonneg_left (by omega) (by positivity)
    exact key
  · unfold lp2VmaxW
    have e1 : 4 * a * (80 * a ^ 3 * 4294967296 ^ 2 * 201326592 ^ 2)
        = (5 * a ^ 2) * (8 * a * 4294967296 * 201326592) ^ 2 := by ring
    rw [e1]
    exact mul_le_mul_of_nonneg_right hD5 (sq_nonneg _)
  · unfold lp2RW; nlinarith
  · unfold lp2RW; nlinarith
  · nlinarith
  · have h4 := h.four_a_le
    have hbb : 0 < b * (b - 2 * a) := by apply mul_pos <;> omega
    have h16 : 16 * a ^ 2 * 4294967296 ^ 3 ≤ lp2VmaxW a := by unfold lp2VmaxW; omega
    have h1 : (a + b) ^ 2 ≤ 4 * (b * (b - 2 * a)) := by
      have h5 : (4 * (a + b)) ^ 2 ≤ (5 * b + 2) ^ 2 := pow_le_pow_left₀ (by omega) (by omega) 2
      have : 2 * (b * (b - 2 * a)) ≥ b * (b - 2) := by nlinarith
      nlinarith
    unfold lp2U
    have e1 : 4 * (4294967296 - b) * (a * (a + b) * 4294967296) ^ 2
        = (4 * a ^ 2 * 4294967296 ^ 2 * (4294967296 - b)) * (a + b) ^ 2 := by ring
    have e2 : (4 * a ^ 2 * 4294967296 ^ 2 * (4294967296 - b)) * (a + b) ^ 2
        ≤ (4 * a ^ 2 * 4294967296 ^ 2 * (4294967296 - b)) * (4 * (b * (b - 2 * a))) :=
      mul_le_mul_of_nonneg_left h1 (by have : (0 : Int) ≤ 4294967296 - b := by omega
                                       positivity)
    have e3 : (4 * a ^ 2 * 4294967296 ^ 2 * (4294967296 - b)) * (4 * (b * (b - 2 * a)))
        ≤ (4 * a ^ 2 * 4294967296 ^ 2 * 4294967296) * (4 * (b * (b - 2 * a))) :=
      mul_le_mul_of_nonneg_right (mul_le_mul_of_nonneg_left (by omega) (by positivity)) (by positivity)
    have e4 : b * (b - 2 * a) * (16 * a ^ 2 * 4294967296 ^ 3) ≤ b * (b - 2 * a) * lp2VmaxW a :=
      mul_le_mul_of_nonneg_left h16 (le_of_lt hbb)
    rw [e1]
    calc _ ≤ _ := e2
      _ ≤ _ := e3
      _ = b * (b - 2 * a) * (16 * a ^ 2 * 4294967296 ^ 3) := by ring
      _ ≤ _ := e4

/-- a start state: settled at `xo` with the centred error at most `2^19` LSB (`a·2^32·2^20` in centred units); the
    `set(xo)` state and every state of the tight settled region are start states -/
def Lp2Start (a b xo : Int) (st : Int × Int) : Prop :=
  Lp2Settled a b xo st ∧ -(a * 4294967296 * 1048576) ≤ lp2Eb a b xo st.1 ∧ lp2Eb a b xo st.1 ≤ a * 4294967296 * 1048576

theorem lp2_start_of_set {k a b : Int} (h : Lp2Butter k a b) (x : Int) : Lp2Start a b x (x * 4294967296, 0) := by
  have ha := h.a_ge; have hba := lp2_b_le_a h; have hb := h.hb0
  refine ⟨lp2_set_settled h.adm x, ?_, ?_⟩ <;> (unfold lp2Eb; simp only; nlinarith)

theorem lp2_start_of_tight {k a b x : Int} (h : Lp2Butter k a b) (st : Int × Int)
    (ht : Lp2Tight a b x (lp2Rk k a) st) : Lp2Start a b x st := by
  have ha := h.a_ge; have hk := h.hk0
  have hR : lp2Rk k a ≤ a * 4294967296 * 1048576 := by
    have hRk : lp2Rk k a * k ≤ 3 * a * 4294967296 ^ 2 + k := by
      unfold lp2Rk
      have := Int.ediv_mul_le (3 * a * 4294967296 ^ 2) (show k ≠ 0 by omega)
      nlinarith
    by_contra hc
    have hc' : a * 4294967296 * 1048576 + 1 ≤ lp2Rk k a := by omega
    have h1 : (a * 4294967296 * 1048576 + 1) * k ≤ lp2Rk k a * k := mul_le_mul_of_nonneg_right hc' (by omega)
    have h2 : a * 4294967296 * 1048576 * 65536 ≤ a * 4294967296 * 1048576 * k :=
      mul_le_mul_of_nonneg_left hk (by positivity)
    nlinarith
  exact ⟨ht.1, by have := ht.2.1; omega, by have := ht.2.2; omega⟩

/-- every start state at `xo` lies in the wide region of every `x` with `|x − xo| ≤ 3·2^28` -/
theorem lp2_settled_inv2_W {k a b x xo : Int} (h : Lp2Butter k a b)
    (hd0 : -805306368 ≤ x - xo) (hd1 : x - xo ≤ 805306368)
    (st : Int × Int) (hst : Lp2Start a b xo st) : Lp2Inv2 a b x (lp2VmaxW a) (lp2RW a) st := by
  have ha := h.a_ge
  have hA := h.adm
  obtain ⟨hs, hE0, hE1⟩ := hst
  have hVo := lp2_settled_V_le h xo st hs
  have hshift : lp2Eb a b x st.1 = lp2Eb a b xo st.1 + 2 * a * ((x - xo) * 4294967296) := by
    unfold lp2Eb; ring
  refine ⟨?_, ?_, ?_⟩
  · have hid : 9 * lp2Q a b (2 * a * ((x - xo) * 4294967296)) 0 + 72 * lp2V a b xo st - 8 * lp2V a b x st
        = lp2Q a b (2 * a * ((x - xo) * 4294967296) - 8 * lp2Eb a b xo st.1) (0 - 8 * (2 * a * st.2)) := by
      unfold lp2V lp2Eb lp2Q; ring
    have hnn := lp2Q_nonneg (show 0 < a by omega) (le_of_lt hA.hD)
      (2 * a * ((x - xo) * 4294967296) - 8 * lp2Eb a b xo st.1) (0 - 8 * (2 * a * st.2))
    have hq : lp2Q a b (2 * a * ((x - xo) * 4294967296)) 0 = 4 * a ^ 3 * 4294967296 ^ 2 * (x - xo) ^ 2 := by
      unfold lp2Q; ring
    have hdx : (x - xo) ^ 2 ≤ 805306368 ^ 2 := sq_le_sq' (by omega) (by omega)
    have hq' : 4 * a ^ 3 * 4294967296 ^ 2 * (x - xo) ^ 2 ≤ 4 * a ^ 3 * 4294967296 ^ 2 * 805306368 ^ 2 :=
      mul_le_mul_of_nonneg_left hdx (by positivity)
    have ha2 : 1 ≤ a ^ 2 := by nlinarith
    have ha3 : a ^ 2 ≤ a ^ 3 := by nlinarith
    rw [hq] at hid
    unfold lp2VmaxW
    omega
  · rw [hshift]; unfold lp2RW
    have : -(2 * a * (805306368 * 4294967296)) ≤ 2 * a * ((x - xo) * 4294967296) := by nlinarith
    linarith
  · rw [hshift]; unfold lp2RW
    have : 2 * a * ((x - xo) * 4294967296) ≤ 2 * a * (805306368 * 4294967296) := by nlinarith
    linarith

end Idsp
