import IdspModel.Lemmas.HbfChain
/-! The cascade loops of the model (`HbfDecCascade.process`, `HbfIntCascade.process`) as chains; cascade
    well-formedness and block admissibility mirroring `block_size()`. -/
namespace Idsp
variable {α : Type}

theorem decCascade_go_eq (o : Ops α) (i : Nat) (st : List (HbfDec α)) (y : List α) (h : i ≤ st.length) :
    HbfDecCascade.process.go o i st y =
      ((chainG (HbfDec.process o) (st.take i).reverse y).1.reverse ++ st.drop i,
       (chainG (HbfDec.process o) (st.take i).reverse y).2) := by
  induction i generalizing st y with
  | zero => simp [HbfDecCascade.process.go, chainG]
  | succ j ih =>
    have hj : j < st.length := by omega
    have e1 : st[j]? = some st[j] := by simp [hj]
    rw [HbfDecCascade.process.go]
    simp only [e1]
    rw [ih _ _ (by simp; omega)]
    have e2 : (st.take (j + 1)).reverse = st[j] :: (st.take j).reverse := by
      rw [List.take_add_one]; simp [hj]
    rw [e2]
    simp only [chainG, List.reverse_cons, List.append_assoc]
    have e3 : List.take j (st.set j (st[j].process o y).1) = List.take j st := by
      rw [List.take_set_of_le (by omega)]
    have e4 : List.drop j (st.set j (st[j].process o y).1) = (st[j].process o y).1 :: List.drop (j + 1) st := by
      rw [List.drop_set, if_neg (by omega), Nat.sub_self, List.drop_eq_getElem_cons hj, List.set_cons_zero]
    rw [e3, e4]; simp

theorem intCascade_go_eq (o : Ops α) (fuel i : Nat) (st : List (HbfInt α)) (y : List α) (h : i + fuel ≤ st.length) :
    HbfIntCascade.process.go o fuel i st y =
      (st.take i ++ (chainG (HbfInt.process o) ((st.drop i).take fuel) y).1 ++ st.drop (i + fuel),
       (chainG (HbfInt.process o) ((st.drop i).take fuel) y).2) := by
  induction fuel generalizing i st y with
  | zero => simp [HbfIntCascade.process.go, chainG]
  | succ f ih =>
    have hi : i < st.length := by omega
    have e1 : st[i]? = some st[i] := by simp [hi]
    rw [HbfIntCascade.process.go]
    simp only [e1]
    rw [ih _ _ _ (by simp; omega)]
    have e2 : (st.drop i).take (f + 1) = st[i] :: (st.drop (i + 1)).take f := by
      rw [List.drop_eq_getElem_cons hi, List.take_succ_cons]
    rw [e2]
    simp only [chainG]
    have e3 : List.take (i + 1) (st.set i (st[i].process o y).1) = List.take i st ++ [(st[i].process o y).1] := by
      rw [List.take_add_one]; simp [hi, List.take_set_of_le]
    have e4 : List.drop (i + 1) (st.set i (st[i].process o y).1) = List.drop (i + 1) st := by
      rw [List.drop_set_of_lt (by omega)]
    have e5 : List.drop (i + 1 + f) (st.set i (st[i].process o y).1) = List.drop (i + (f + 1)) st := by
      rw [List.drop_set_of_lt (by omega)]; congr 1; omega
    rw [e3, e4, e5]; simp


/-! ### decimator cascade -/

/-- the active stages in application order: `depth-1, …, 0` -/
def HbfDecCascade.active (c : HbfDecCascade α) : List (HbfDec α) := (c.stages.take c.depth).reverse

/-- feed a list of blocks one after the other to `HbfDecCascade::process_block` -/
def HbfDecCascade.run (o : Ops α) (c : HbfDecCascade α) (bs : List (List α)) : HbfDecCascade α × List (List α) :=
  runG (HbfDecCascade.process o) c bs

/-- `set_depth` asserts `depth ≤ 4` = number of stages; every stage is well-formed -/
structure HbfDecCascade.WF (c : HbfDecCascade α) : Prop where
  depth_le : c.depth ≤ c.stages.length
  stage_wf : ∀ s ∈ c.stages, s.WF

/-- the block and all intermediate blocks are admissible for the stages that see them -/
def HbfDecCascade.Adm (c : HbfDecCascade α) (x : List α) : Prop :=
  decAdmL (c.active.map HbfDec.blockMax) x.length

theorem HbfDecCascade.active_length (c : HbfDecCascade α) (h : c.depth ≤ c.stages.length) :
    c.active.length = c.depth := by
  simp [HbfDecCascade.active]; omega

theorem HbfDecCascade.process_eq (o : Ops α) (c : HbfDecCascade α) (h : c.depth ≤ c.stages.length) (y : List α) :
    c.process o y =
      ({ c with stages := (chainG (HbfDec.process o) c.active y).1.reverse ++ c.stages.drop c.depth },
       (chainG (HbfDec.process o) c.active y).2) := by
  simp only [HbfDecCascade.process, decCascade_go_eq o _ _ _ h, HbfDecCascade.active]

theorem HbfDecCascade.run_eq (o : Ops α) (c : HbfDecCascade α) (h : c.depth ≤ c.stages.length)
    (bs : List (List α)) :
    c.run o bs =
      ({ c with stages := (runG (chainG (HbfDec.process o)) c.active bs).1.reverse ++ c.stages.drop c.depth },
       (runG (chainG (HbfDec.process o)) c.active bs).2) := by
  induction bs generalizing c with
  | nil =>
    cases c with
    | mk depth stages =>
      simp [HbfDecCascade.run, runG, HbfDecCascade.active]
  | cons b bs ih =>
    have hl := chainG_length (HbfDec.process o) c.active b
    have al := c.active_length h
    have e : ((chainG (HbfDec.process o) c.active b).1.reverse ++ c.stages.drop c.depth).take c.depth
        = (chainG (HbfDec.process o) c.active b).1.reverse := by
      rw [List.take_append_of_le_length (by simp [hl, al])]
      apply List.take_of_length_le; simp [hl, al]
    have e2 : ((chainG (HbfDec.process o) c.active b).1.reverse ++ c.stages.drop c.depth).drop c.depth
        = c.stages.drop c.depth := by
      rw [List.drop_append_of_le_length (by simp [hl, al])]
      rw [List.drop_of_length_le (by simp [hl, al])]; simp
    simp only [HbfDecCascade.run, runG]
    have ih' := ih (c.process o b).1 (by rw [HbfDecCascade.process_eq o c h]; simp [hl, al])
    simp only [HbfDecCascade.run] at ih'
    simp only [HbfDecCascade.active] at e e2
    rw [ih']
    simp only [HbfDecCascade.process_eq o c h, HbfDecCascade.active, e, e2, List.reverse_reverse]


/-! ### interpolator cascade -/

/-- the active stages in application order: `0, …, depth-1` -/
def HbfIntCascade.active (c : HbfIntCascade α) : List (HbfInt α) := c.stages.take c.depth

/-- feed a list of blocks one after the other to `HbfIntCascade::process_block` -/
def HbfIntCascade.run (o : Ops α) (c : HbfIntCascade α) (bs : List (List α)) : HbfIntCascade α × List (List α) :=
  runG (HbfIntCascade.process o) c bs

structure HbfIntCascade.WF (c : HbfIntCascade α) : Prop where
  depth_le : c.depth ≤ c.stages.length
  stage_wf : ∀ s ∈ c.stages, s.WF

/-- the block and all intermediate blocks are admissible for the stages that see them -/
def HbfIntCascade.Adm (c : HbfIntCascade α) (x : List α) : Prop :=
  intAdmL (c.active.map HbfInt.blockMax) x.length

theorem HbfIntCascade.active_length (c : HbfIntCascade α) (h : c.depth ≤ c.stages.length) :
    c.active.length = c.depth := by
  simp [HbfIntCascade.active]; omega

theorem HbfIntCascade.process_eq (o : Ops α) (c : HbfIntCascade α) (h : c.depth ≤ c.stages.length) (y : List α) :
    c.process o y =
      ({ c with stages := (chainG (HbfInt.process o) c.active y).1 ++ c.stages.drop c.depth },
       (chainG (HbfInt.process o) c.active y).2) := by
  simp only [HbfIntCascade.process, intCascade_go_eq o _ _ _ _ (by omega : 0 + c.depth ≤ c.stages.length),
    HbfIntCascade.active]
  simp

theorem HbfIntCascade.run_eq (o : Ops α) (c : HbfIntCascade α) (h : c.depth ≤ c.stages.length)
    (bs : List (List α)) :
    c.run o bs =
      ({ c with stages := (runG (chainG (HbfInt.process o)) c.active bs).1 ++ c.stages.drop c.depth },
       (runG (chainG (HbfInt.process o)) c.active bs).2) := by
  induction bs generalizing c with
  | nil =>
    cases c with
    | mk depth stages =>
      simp [HbfIntCascade.run, runG, HbfIntCascade.active]
  | cons b bs ih =>
    have hl := chainG_length (HbfInt.process o) c.active b
    have al := c.active_length h
    have e : ((chainG (HbfInt.process o) c.active b).1 ++ c.stages.drop c.depth).take c.depth
        = (chainG (HbfInt.process o) c.active b).1 := by
      rw [List.take_append_of_le_length (by simp [hl, al])]
      apply List.take_of_length_le; simp [hl, al]
    have e2 : ((chainG (HbfInt.process o) c.active b).1 ++ c.stages.drop c.depth).drop c.depth
        = c.stages.drop c.depth := by
      rw [List.drop_append_of_le_length (by simp [hl, al])]
      rw [List.drop_of_length_le (by simp [hl, al])]; simp
    simp only [HbfIntCascade.run, runG]
    have ih' := ih (c.process o b).1 (by rw [HbfIntCascade.process_eq o c h]; simp [hl, al])
    simp only [HbfIntCascade.run] at ih'
    simp only [HbfIntCascade.active] at e e2
    rw [ih']
    simp only [HbfIntCascade.process_eq o c h, HbfIntCascade.active, e, e2]

/-! ### admissibility from `block_size()` -/

theorem getD_of_lt (l : List Nat) (i : Nat) (h : i < l.length) : l.getD i 0 = l[i] := by
  simp [List.getD_eq_getElem?_getD, h]


/-- `ms` = `blockMax` of stages `0, 1, …`; if each stage's maximum is at most twice that of the next lower-rate
    stage, a block whose length is a multiple of `2^d` and at most the maximum of stage `d-1` is admissible
    at every stage of the depth-`d` decimator cascade -/
theorem decAdmL_of_blockSize (ms : List Nat) (d n : Nat) (hd : d ≤ ms.length)
    (hchain : ∀ j, j + 1 < d → ms.getD (j + 1) 0 ≤ 2 * ms.getD j 0)
    (hg : 2 ^ d ∣ n) (hmax : 0 < d → n ≤ ms.getD (d - 1) 0) :
    decAdmL ((ms.take d).reverse) n := by
  induction d generalizing n with
  | zero => simp [decAdmL]
  | succ d ih =>
    have hdl : d < ms.length := by omega
    have e2 : (ms.take (d + 1)).reverse = ms[d] :: (ms.take d).reverse := by
      rw [List.take_add_one]; simp [hdl]
    have hm := hmax (by omega)
    simp only [Nat.add_sub_cancel, getD_of_lt _ _ hdl] at hm
    obtain ⟨q, rfl⟩ := hg
    rw [e2, decAdmL]
    refine ⟨by rw [Nat.pow_succ, Nat.mul_assoc, Nat.mul_comm, Nat.mul_assoc]; omega, hm, ?_⟩
    have e3 : 2 ^ (d + 1) * q / 2 = 2 ^ d * q := by
      rw [Nat.pow_succ, Nat.mul_assoc, Nat.mul_comm 2, ← Nat.mul_assoc]; omega
    rw [e3]
    apply ih _ (by omega) (fun j hj => hchain j (by omega)) ⟨q, rfl⟩
    intro hd0
    have := hchain (d - 1) (by omega)
    have e4 : d - 1 + 1 = d := by omega
    rw [e4, getD_of_lt _ _ hdl] at this
    rw [Nat.pow_succ, Nat.mul_assoc, Nat.mul_comm 2, ← Nat.mul_assoc] at hm
    omega

theorem intAdmL_of_blockSize_aux (ms : List Nat) (d f i n : Nat) (hd : d ≤ ms.length) (hif : i + f = d)
    (hchain : ∀ j, j + 1 < d → ms.getD (j + 1) 0 ≤ 2 * ms.getD j 0)
    (hmax : 0 < f → n * 2 ^ f ≤ ms.getD (d - 1) 0) :
    intAdmL ((ms.drop i).take f) n := by
  induction f generalizing i n with
  | zero => simp [intAdmL]
  | succ f ih =>
    have hi : i < ms.length := by omega
    have e2 : (ms.drop i).take (f + 1) = ms[i] :: (ms.drop (i + 1)).take f := by
      rw [List.drop_eq_getElem_cons hi, List.take_succ_cons]
    have hm := hmax (by omega)
    have ih' := ih (i + 1) (2 * n) (by omega) (by
      intro hf
      rw [Nat.pow_succ] at hm
      rw [Nat.mul_comm 2 n, Nat.mul_assoc, Nat.mul_comm 2]; exact hm)
    rw [e2, intAdmL]
    refine ⟨?_, ih'⟩
    cases f with
    | zero =>
      have : d - 1 = i := by omega
      rw [this, getD_of_lt _ _ hi] at hm
      omega
    | succ f =>
      have hi1 : i + 1 < ms.length := by omega
      have e3 : (ms.drop (i + 1)).take (f + 1) = ms[i + 1] :: (ms.drop (i + 1 + 1)).take f := by
        rw [List.drop_eq_getElem_cons hi1, List.take_succ_cons]
      rw [e3, intAdmL] at ih'
      have := hchain i (by omega)
      rw [getD_of_lt _ _ hi, getD_of_lt _ _ hi1] at this
      omega

/-- interpolator cascade: if each stage's maximum is at most twice that of the next lower-rate stage, an input
    block of `n` items whose final output (`n·2^d` items) is at most the maximum of stage `d-1` is admissible
    at every stage -/
theorem intAdmL_of_blockSize (ms : List Nat) (d n : Nat) (hd : d ≤ ms.length)
    (hchain : ∀ j, j + 1 < d → ms.getD (j + 1) 0 ≤ 2 * ms.getD j 0)
    (hmax : 0 < d → n * 2 ^ d ≤ ms.getD (d - 1) 0) :
    intAdmL (ms.take d) n := by
  have := intAdmL_of_blockSize_aux ms d d 0 n hd (by omega) hchain hmax
  simpa using this


/-! ### cascade run specifications -/

theorem HbfDecCascade.run_spec (o : Ops α) (c : HbfDecCascade α) (wf : c.WF) (bs : List (List α))
    (adm : ∀ b ∈ bs, c.Adm b) :
    (c.run o bs).2.flatten = decChainSpec o (c.active.map HbfDec.absT) bs.flatten ∧
    (c.run o bs).1.active.map HbfDec.absT = decChainNext o (c.active.map HbfDec.absT) bs.flatten ∧
    (c.run o bs).1.depth = c.depth ∧
    (c.run o bs).1.stages.drop c.depth = c.stages.drop c.depth ∧
    (c.run o bs).1.WF ∧
    (c.run o bs).1.stages.map HbfDec.blockMax = c.stages.map HbfDec.blockMax ∧
    (c.run o bs).2.map List.length = bs.map (fun b => b.length / 2 ^ c.depth) := by
  obtain ⟨hd, hs⟩ := wf
  have al := c.active_length hd
  have wfa : ∀ s ∈ c.active, s.WF := by
    intro s h
    simp only [HbfDecCascade.active, List.mem_reverse] at h
    exact hs s (List.mem_of_mem_take h)
  obtain ⟨s1, s2, s3, s4, s5⟩ := decChain_run_spec o c.active wfa bs adm
  have rl := runG_length (HbfDec.process o) c.active bs
  rw [HbfDecCascade.run_eq o c hd]
  have e : ((runG (chainG (HbfDec.process o)) c.active bs).1.reverse ++ c.stages.drop c.depth).take c.depth
      = (runG (chainG (HbfDec.process o)) c.active bs).1.reverse := by
    rw [List.take_append_of_le_length (by simp [rl, al])]
    apply List.take_of_length_le; simp [rl, al]
  have e2 : ((runG (chainG (HbfDec.process o)) c.active bs).1.reverse ++ c.stages.drop c.depth).drop c.depth
      = c.stages.drop c.depth := by
    rw [List.drop_append_of_le_length (by simp [rl, al])]
    rw [List.drop_of_length_le (by simp [rl, al])]; simp
  refine ⟨s1, ?_, rfl, e2, ⟨?_, ?_⟩, ?_, ?_⟩
  · simp only [HbfDecCascade.active] at e ⊢
    simp only [e, List.reverse_reverse]; exact s2
  · simp [rl, al]
  · intro s h
    rcases List.mem_append.mp h with h | h
    · exact s3 s (List.mem_reverse.mp h)
    · exact hs s (List.mem_of_mem_drop h)
  · rw [List.map_append, List.map_reverse, s4]
    simp only [HbfDecCascade.active, List.map_reverse, List.reverse_reverse]
    rw [← List.map_append, List.take_append_drop]
  · rw [s5, al]

theorem HbfIntCascade.run_spec (o : Ops α) (c : HbfIntCascade α) (wf : c.WF) (bs : List (List α))
    (adm : ∀ b ∈ bs, c.Adm b) :
    (c.run o bs).2.flatten = intChainSpec o (c.active.map HbfInt.absT) bs.flatten ∧
    (c.run o bs).1.active.map HbfInt.absT = intChainNext o (c.active.map HbfInt.absT) bs.flatten ∧
    (c.run o bs).1.depth = c.depth ∧
    (c.run o bs).1.stages.drop c.depth = c.stages.drop c.depth ∧
    (c.run o bs).1.WF ∧
    (c.run o bs).1.stages.map HbfInt.blockMax = c.stages.map HbfInt.blockMax ∧
    (c.run o bs).2.map List.length = bs.map (fun b => b.length * 2 ^ c.depth) := by
  obtain ⟨hd, hs⟩ := wf
  have al := c.active_length hd
  have wfa : ∀ s ∈ c.active, s.WF := by
    intro s h
    exact hs s (List.mem_of_mem_take h)
  obtain ⟨s1, s2, s3, s4, s5⟩ := intChain_run_spec o c.active wfa bs adm
  have rl := runG_length (HbfInt.process o) c.active bs
  rw [HbfIntCascade.run_eq o c hd]
  have e : ((runG (chainG (HbfInt.process o)) c.active bs).1 ++ c.stages.drop c.depth).take c.depth
      = (runG (chainG (HbfInt.process o)) c.active bs).1 := by
    rw [List.take_append_of_le_length (by simp [rl, al])]
    apply List.take_of_length_le; simp [rl, al]
  have e2 : ((runG (chainG (HbfInt.process o)) c.active bs).1 ++ c.stages.drop c.depth).drop c.depth
      = c.stages.drop c.depth := by
    rw [List.drop_append_of_le_length (by simp [rl, al])]
    rw [List.drop_of_length_le (by simp [rl, al])]; simp
  refine ⟨s1, ?_, rfl, e2, ⟨?_, ?_⟩, ?_, ?_⟩
  · simp only [HbfIntCascade.active] at e ⊢
    simp only [e]; exact s2
  · simp [rl, al]
  · intro s h
    rcases List.mem_append.mp h with h | h
    · exact s3 s h
    · exact hs s (List.mem_of_mem_drop h)
  · rw [List.map_append, s4]
    simp only [HbfIntCascade.active]
    rw [← List.map_append, List.take_append_drop]
  · rw [s5, al]

/-! ### `block_size()`-style admissibility, comparison of final states -/

theorem HbfDecCascade.adm_of_blockSize (c : HbfDecCascade α) (wf : c.WF)
    (hchain : ∀ j (hj : j + 1 < c.depth),
      (c.stages[j + 1]'(by have := wf.depth_le; omega)).blockMax ≤
        2 * (c.stages[j]'(by have := wf.depth_le; omega)).blockMax)
    (x : List α) (hg : 2 ^ c.depth ∣ x.length)
    (hmax : ∀ (h : 0 < c.depth), x.length ≤ (c.stages[c.depth - 1]'(by have := wf.depth_le; omega)).blockMax) :
    c.Adm x := by
  have hd := wf.depth_le
  simp only [HbfDecCascade.Adm, HbfDecCascade.active, List.map_reverse, List.map_take]
  apply decAdmL_of_blockSize _ _ _ (by simpa using hd) _ hg
  · intro h
    rw [getD_of_lt _ _ (by simp; omega)]
    simpa using hmax h
  · intro j hj
    rw [getD_of_lt _ _ (by simp; omega), getD_of_lt _ _ (by simp; omega)]
    simpa using hchain j hj

theorem HbfIntCascade.adm_of_blockSize (c : HbfIntCascade α) (wf : c.WF)
    (hchain : ∀ j (hj : j + 1 < c.depth),
      (c.stages[j + 1]'(by have := wf.depth_le; omega)).blockMax ≤
        2 * (c.stages[j]'(by have := wf.depth_le; omega)).blockMax)
    (x : List α)
    (hmax : ∀ (h : 0 < c.depth),
      x.length * 2 ^ c.depth ≤ (c.stages[c.depth - 1]'(by have := wf.depth_le; omega)).blockMax) :
    c.Adm x := by
  have hd := wf.depth_le
  simp only [HbfIntCascade.Adm, HbfIntCascade.active, List.map_take]
  apply intAdmL_of_blockSize _ _ _ (by simpa using hd)
  · intro j hj
    rw [getD_of_lt _ _ (by simp; omega), getD_of_lt _ _ (by simp; omega)]
    simpa using hchain j hj
  · intro h
    rw [getD_of_lt _ _ (by simp; omega)]
    simpa using hmax h

/-- the per-stage (taps, history) of all stages, from the active part and the untouched part -/
theorem HbfDecCascade.stages_absT_eq (c1 c2 : HbfDecCascade α)
    (ha : c1.active.map HbfDec.absT = c2.active.map HbfDec.absT)
    (hr : c1.stages.drop c1.depth = c2.stages.drop c2.depth) :
    c1.stages.map HbfDec.absT = c2.stages.map HbfDec.absT := by
  rw [← List.take_append_drop c1.depth c1.stages, ← List.take_append_drop c2.depth c2.stages,
    List.map_append, List.map_append, hr]
  congr 1
  simp only [HbfDecCascade.active, List.map_reverse] at ha
  exact List.reverse_inj.mp ha

theorem HbfIntCascade.stages_absT_eq (c1 c2 : HbfIntCascade α)
    (ha : c1.active.map HbfInt.absT = c2.active.map HbfInt.absT)
    (hr : c1.stages.drop c1.depth = c2.stages.drop c2.depth) :
    c1.stages.map HbfInt.absT = c2.stages.map HbfInt.absT := by
  rw [← List.take_append_drop c1.depth c1.stages, ← List.take_append_drop c2.depth c2.stages,
    List.map_append, List.map_append, hr]
  congr 1

end Idsp
