import IdspModel.Model.Unwrap
import IdspModel.Lemmas.Basic
import IdspModel.Lemmas.Eval
/-!
# C18 — `saturating_scale` is exact inside its range and saturates monotonically

`saturatingScale m lo hi shift` models `saturating_scale(lo: i32, hi: i32, shift: u32)`.
Clauses proved for every documented `shift` in `1..=32` and every `(lo, hi)`; the
monotonicity clause holds for `shift ≤ 16` and is **false** for every `shift ≥ 17`
(theorem `sat_scale_not_monotone_ge17`: a genuine defect of the code, recorded as a known finding).
-/
namespace Idsp
set_option linter.unusedSimpArgs false

private theorem shift_cases {s : Int} (h1 : 1 ≤ s) (h2 : s ≤ 32) :
    s = 1 ∨ s = 2 ∨ s = 3 ∨ s = 4 ∨ s = 5 ∨ s = 6 ∨ s = 7 ∨ s = 8 ∨ s = 9 ∨ s = 10 ∨ s = 11 ∨ s = 12 ∨
    s = 13 ∨ s = 14 ∨ s = 15 ∨ s = 16 ∨ s = 17 ∨ s = 18 ∨ s = 19 ∨ s = 20 ∨ s = 21 ∨ s = 22 ∨ s = 23 ∨
    s = 24 ∨ s = 25 ∨ s = 26 ∨ s = 27 ∨ s = 28 ∨ s = 29 ∨ s = 30 ∨ s = 31 ∨ s = 32 := by omega

private theorem closed_aux0 (m : Mode) (lo hi shift : Int)
    (hlo : inI 32 lo = true) (hhi : inI 32 hi = true) (h1 : 1 ≤ shift) (h2 : shift ≤ 4) :
    saturatingScale m lo hi shift = .ok
      (if hi ≤ -(2 ^ (shift - 1).toNat) then -(2 ^ 31) + 2 ^ (shift - 1).toNat
       else if 2 ^ (shift - 1).toNat ≤ hi then 2 ^ 31 - 2 ^ (shift - 1).toNat
       else (hi * 2 ^ 32 + lo) / 2 ^ shift.toNat) := by
  have ⟨hl0, hl1⟩ := inI_iff.mp hlo
  have ⟨hh0, hh1⟩ := inI_iff.mp hhi
  simp only [show (32 : Nat) - 1 = 31 from rfl, Int.reducePow, Int.reduceNeg] at hl0 hl1 hh0 hh1
  have : shift = 1 ∨ shift = 1 + 1 ∨ shift = 1 + 2 ∨ shift = 1 + 3 := by omega
  rcases this with h | h | h | h <;> subst h <;>
  · simp only [Int.reduceSub, Int.reduceToNat, Int.reducePow, Int.reduceNeg, Int.reduceAdd]
    unfold saturatingScale
    (repeat' split) <;>
    · simp (disch := omega) only [dbgAssert_true, gt_iff_lt, decide_true, Int.reduceLT, Int.reduceLE,
        arithU32_ok, arithI32_ok, shlI_ok, shrC_ok, wrapI32_id, bind_ok', minI, Int.reduceSub, Int.reducePow,
        Int.reduceNeg, Int.reduceMul, Int.reduceToNat, Int.reduceAdd, ite_true, ite_false, if_pos, if_neg,
        Nat.reduceSub, Int.neg_le_neg_iff]
      try (congr 1; omega)

private theorem closed_aux1 (m : Mode) (lo hi shift : Int)
    (hlo : inI 32 lo = true) (hhi : inI 32 hi = true) (h1 : 5 ≤ shift) (h2 : shift ≤ 8) :
    saturatingScale m lo hi shift = .ok
      (if hi ≤ -(2 ^ (shift - 1).toNat) then -(2 ^ 31) + 2 ^ (shift - 1).toNat
       else if 2 ^ (shift - 1).toNat ≤ hi then 2 ^ 31 - 2 ^ (shift - 1).toNat
       else (hi * 2 ^ 32 + lo) / 2 ^ shift.toNat) := by
  have ⟨hl0, hl1⟩ := inI_iff.mp hlo
  have ⟨hh0, hh1⟩ := inI_iff.mp hhi
  simp only [show (32 : Nat) - 1 = 31 from rfl, Int.reducePow, Int.reduceNeg] at hl0 hl1 hh0 hh1
  have : shift = 5 ∨ shift = 5 + 1 ∨ shift = 5 + 2 ∨ shift = 5 + 3 := by omega
  rcases this with h | h | h | h <;> subst h <;>
  · simp only [Int.reduceSub, Int.reduceToNat, Int.reducePow, Int.reduceNeg, Int.reduceAdd]
    unfold saturatingScale
    (repeat' split) <;>
    · simp (disch := omega) only [dbgAssert_true, gt_iff_lt, decide_true, Int.reduceLT, Int.reduceLE,
        arithU32_ok, arithI32_ok, shlI_ok, shrC_ok, wrapI32_id, bind_ok', minI, Int.reduceSub, Int.reducePow,
        Int.reduceNeg, Int.reduceMul, Int.reduceToNat, Int.reduceAdd, ite_true, ite_false, if_pos, if_neg,
        Nat.reduceSub, Int.neg_le_neg_iff]
      try (congr 1; omega)

private theorem closed_aux2 (m : Mode) (lo hi shift : Int)
    (hlo : inI 32 lo = true) (hhi : inI 32 hi = true) (h1 : 9 ≤ shift) (h2 : shift ≤ 12) :
    saturatingScale m lo hi shift = .ok
      (if hi ≤ -(2 ^ (shift - 1).toNat) then -(2 ^ 31) + 2 ^ (shift - 1).toNat
       else if 2 ^ (shift - 1).toNat ≤ hi then 2 ^ 31 - 2 ^ (shift - 1).toNat
       else (hi * 2 ^ 32 + lo) / 2 ^ shift.toNat) := by
  have ⟨hl0, hl1⟩ := inI_iff.mp hlo
  have ⟨hh0, hh1⟩ := inI_iff.mp hhi
  simp only [show (32 : Nat) - 1 = 31 from rfl, Int.reducePow, Int.reduceNeg] at hl0 hl1 hh0 hh1
  have : shift = 9 ∨ shift = 9 + 1 ∨ shift = 9 + 2 ∨ shift = 9 + 3 := by omega
  rcases this with h | h | h | h <;> subst h <;>
  · simp only [Int.reduceSub, Int.reduceToNat, Int.reducePow, Int.reduceNeg, Int.reduceAdd]
    unfold saturatingScale
    (repeat' split) <;>
    · simp (disch := omega) only [dbgAssert_true, gt_iff_lt, decide_true, Int.reduceLT, Int.reduceLE,
        arithU32_ok, arithI32_ok, shlI_ok, shrC_ok, wrapI32_id, bind_ok', minI, Int.reduceSub, Int.reducePow,
        Int.reduceNeg, Int.reduceMul, Int.reduceToNat, Int.reduceAdd, ite_true, ite_false, if_pos, if_neg,
        Nat.reduceSub, Int.neg_le_neg_iff]
      try (congr 1; omega)

private theorem closed_aux3 (m : Mode) (lo hi shift : Int)
    (hlo : inI 32 lo = true) (hhi : inI 32 hi = true) (h1 : 13 ≤ shift) (h2 : shift ≤ 16) :
    saturatingScale m lo hi shift = .ok
      (if hi ≤ -(2 ^ (shift - 1).toNat) then -(2 ^ 31) + 2 ^ (shift - 1).toNat
       else if 2 ^ (shift - 1).toNat ≤ hi then 2 ^ 31 - 2 ^ (shift - 1).toNat
       else (hi * 2 ^ 32 + lo) / 2 ^ shift.toNat) := by
  have ⟨hl0, hl1⟩ := inI_iff.mp hlo
  have ⟨hh0, hh1⟩ := inI_iff.mp hhi
  simp only [show (32 : Nat) - 1 = 31 from rfl, Int.reducePow, Int.reduceNeg] at hl0 hl1 hh0 hh1
  have : shift = 13 ∨ shift = 13 + 1 ∨ shift = 13 + 2 ∨ shift = 13 + 3 := by omega
  rcases this with h | h | h | h <;> subst h <;>
  · simp only [Int.reduceSub, Int.reduceToNat, Int.reducePow, Int.reduceNeg, Int.reduceAdd]
    unfold saturatingScale
    (repeat' split) <;>
    · simp (disch := omega) only [dbgAssert_true, gt_iff_lt, decide_true, Int.reduceLT, Int.reduceLE,
        arithU32_ok, arithI32_ok, shlI_ok, shrC_ok, wrapI32_id, bind_ok', minI, Int.reduceSub, Int.reducePow,
        Int.reduceNeg, Int.reduceMul, Int.reduceToNat, Int.reduceAdd, ite_true, ite_false, if_pos, if_neg,
        Nat.reduceSub, Int.neg_le_neg_iff]
      try (congr 1; omega)

private theorem closed_aux4 (m : Mode) (lo hi shift : Int)
    (hlo : inI 32 lo = true) (hhi : inI 32 hi = true) (h1 : 17 ≤ shift) (h2 : shift ≤ 20) :
    saturatingScale m lo hi shift = .ok
      (if hi ≤ -(2 ^ (shift - 1).toNat) then -(2 ^ 31) + 2 ^ (shift - 1).toNat
       else if 2 ^ (shift - 1).toNat ≤ hi then 2 ^ 31 - 2 ^ (shift - 1).toNat
       else (hi * 2 ^ 32 + lo) / 2 ^ shift.toNat) := by
  have ⟨hl0, hl1⟩ := inI_iff.mp hlo
  have ⟨hh0, hh1⟩ := inI_iff.mp hhi
  simp only [show (32 : Nat) - 1 = 31 from rfl, Int.reducePow, Int.reduceNeg] at hl0 hl1 hh0 hh1
  have : shift = 17 ∨ shift = 17 + 1 ∨ shift = 17 + 2 ∨ shift = 17 + 3 := by omega
  rcases this with h | h | h | h <;> subst h <;>
  · simp only [Int.reduceSub, Int.reduceToNat, Int.reducePow, Int.reduceNeg, Int.reduceAdd]
    unfold saturatingScale
    (repeat' split) <;>
    · simp (disch := omega) only [dbgAssert_true, gt_iff_lt, decide_true, Int.reduceLT, Int.reduceLE,
        arithU32_ok, arithI32_ok, shlI_ok, shrC_ok, wrapI32_id, bind_ok', minI, Int.reduceSub, Int.reducePow,
        Int.reduceNeg, Int.reduceMul, Int.reduceToNat, Int.reduceAdd, ite_true, ite_false, if_pos, if_neg,
        Nat.reduceSub, Int.neg_le_neg_iff]
      try (congr 1; omega)

private theorem closed_aux5 (m : Mode) (lo hi shift : Int)
    (hlo : inI 32 lo = true) (hhi : inI 32 hi = true) (h1 : 21 ≤ shift) (h2 : shift ≤ 24) :
    saturatingScale m lo hi shift = .ok
      (if hi ≤ -(2 ^ (shift - 1).toNat) then -(2 ^ 31) + 2 ^ (shift - 1).toNat
       else if 2 ^ (shift - 1).toNat ≤ hi then 2 ^ 31 - 2 ^ (shift - 1).toNat
       else (hi * 2 ^ 32 + lo) / 2 ^ shift.toNat) := by
  have ⟨hl0, hl1⟩ := inI_iff.mp hlo
  have ⟨hh0, hh1⟩ := inI_iff.mp hhi
  simp only [show (32 : Nat) - 1 = 31 from rfl, Int.reducePow, Int.reduceNeg] at hl0 hl1 hh0 hh1
  have : shift = 21 ∨ shift = 21 + 1 ∨ shift = 21 + 2 ∨ shift = 21 + 3 := by omega
  rcases this with h | h | h | h <;> subst h <;>
  · simp only [Int.reduceSub, Int.reduceToNat, Int.reducePow, Int.reduceNeg, Int.reduceAdd]
    unfold saturatingScale
    (repeat' split) <;>
    · simp (disch := omega) only [dbgAssert_true, gt_iff_lt, decide_true, Int.reduceLT, Int.reduceLE,
        arithU32_ok, arithI32_ok, shlI_ok, shrC_ok, wrapI32_id, bind_ok', minI, Int.reduceSub, Int.reducePow,
        Int.reduceNeg, Int.reduceMul, Int.reduceToNat, Int.reduceAdd, ite_true, ite_false, if_pos, if_neg,
        Nat.reduceSub, Int.neg_le_neg_iff]
      try (congr 1; omega)

private theorem closed_aux6 (m : Mode) (lo hi shift : Int)
    (hlo : inI 32 lo = true) (hhi : inI 32 hi = true) (h1 : 25 ≤ shift) (h2 : shift ≤ 28) :
    saturatingScale m lo hi shift = .ok
      (if hi ≤ -(2 ^ (shift - 1).toNat) then -(2 ^ 31) + 2 ^ (shift - 1).toNat
       else if 2 ^ (shift - 1).toNat ≤ hi then 2 ^ 31 - 2 ^ (shift - 1).toNat
       else (hi * 2 ^ 32 + lo) / 2 ^ shift.toNat) := by
  have ⟨hl0, hl1⟩ := inI_iff.mp hlo
  have ⟨hh0, hh1⟩ := inI_iff.mp hhi
  simp only [show (32 : Nat) - 1 = 31 from rfl, Int.reducePow, Int.reduceNeg] at hl0 hl1 hh0 hh1
  have : shift = 25 ∨ shift = 25 + 1 ∨ shift = 25 + 2 ∨ shift = 25 + 3 := by omega
  rcases this with h | h | h | h <;> subst h <;>
  · simp only [Int.reduceSub, Int.reduceToNat, Int.reducePow, Int.reduceNeg, Int.reduceAdd]
    unfold saturatingScale
    (repeat' split) <;>
    · simp (disch := omega) only [dbgAssert_true, gt_iff_lt, decide_true, Int.reduceLT, Int.reduceLE,
        arithU32_ok, arithI32_ok, shlI_ok, shrC_ok, wrapI32_id, bind_ok', minI, Int.reduceSub, Int.reducePow,
        Int.reduceNeg, Int.reduceMul, Int.reduceToNat, Int.reduceAdd, ite_true, ite_false, if_pos, if_neg,
        Nat.reduceSub, Int.neg_le_neg_iff]
      try (congr 1; omega)

private theorem closed_aux7 (m : Mode) (lo hi shift : Int)
    (hlo : inI 32 lo = true) (hhi : inI 32 hi = true) (h1 : 29 ≤ shift) (h2 : shift ≤ 32) :
    saturatingScale m lo hi shift = .ok
      (if hi ≤ -(2 ^ (shift - 1).toNat) then -(2 ^ 31) + 2 ^ (shift - 1).toNat
       else if 2 ^ (shift - 1).toNat ≤ hi then 2 ^ 31 - 2 ^ (shift - 1).toNat
       else (hi * 2 ^ 32 + lo) / 2 ^ shift.toNat) := by
  have ⟨hl0, hl1⟩ := inI_iff.mp hlo
  have ⟨hh0, hh1⟩ := inI_iff.mp hhi
  simp only [show (32 : Nat) - 1 = 31 from rfl, Int.reducePow, Int.reduceNeg] at hl0 hl1 hh0 hh1
  have : shift = 29 ∨ shift = 29 + 1 ∨ shift = 29 + 2 ∨ shift = 29 + 3 := by omega
  rcases this with h | h | h | h <;> subst h <;>
  · simp only [Int.reduceSub, Int.reduceToNat, Int.reducePow, Int.reduceNeg, Int.reduceAdd]
    unfold saturatingScale
    (repeat' split) <;>
    · simp (disch := omega) only [dbgAssert_true, gt_iff_lt, decide_true, Int.reduceLT, Int.reduceLE,
        arithU32_ok, arithI32_ok, shlI_ok, shrC_ok, wrapI32_id, bind_ok', minI, Int.reduceSub, Int.reducePow,
        Int.reduceNeg, Int.reduceMul, Int.reduceToNat, Int.reduceAdd, ite_true, ite_false, if_pos, if_neg,
        Nat.reduceSub, Int.neg_le_neg_iff]
      try (congr 1; omega)

/-- closed form of the model for a documented shift (both profiles): no panic, and the three branches -/
theorem sat_scale_closed_form (m : Mode) (lo hi shift : Int)
    (hlo : inI 32 lo = true) (hhi : inI 32 hi = true) (h1 : 1 ≤ shift) (h2 : shift ≤ 32) :
    saturatingScale m lo hi shift = .ok
      (if hi ≤ -(2 ^ (shift - 1).toNat) then -(2 ^ 31) + 2 ^ (shift - 1).toNat
       else if 2 ^ (shift - 1).toNat ≤ hi then 2 ^ 31 - 2 ^ (shift - 1).toNat
       else (hi * 2 ^ 32 + lo) / 2 ^ shift.toNat) := by
  by_cases c0 : shift ≤ 4
  · exact closed_aux0 m lo hi shift hlo hhi h1 c0
  by_cases c1 : shift ≤ 8
  · exact closed_aux1 m lo hi shift hlo hhi (by omega) c1
  by_cases c2 : shift ≤ 12
  · exact closed_aux2 m lo hi shift hlo hhi (by omega) c2
  by_cases c3 : shift ≤ 16
  · exact closed_aux3 m lo hi shift hlo hhi (by omega) c3
  by_cases c4 : shift ≤ 20
  · exact closed_aux4 m lo hi shift hlo hhi (by omega) c4
  by_cases c5 : shift ≤ 24
  · exact closed_aux5 m lo hi shift hlo hhi (by omega) c5
  by_cases c6 : shift ≤ 28
  · exact closed_aux6 m lo hi shift hlo hhi (by omega) c6
  · exact closed_aux7 m lo hi shift hlo hhi (by omega) h2

/-- **exactness**: for every documented shift and `|hi| < 2^(shift-1)`, the result is
    `floor((hi·2^32 + lo) / 2^shift)` (= `hi·2^(32-shift) + floor(lo / 2^shift)`), without panic. -/
theorem sat_scale_exact (m : Mode) (lo hi shift : Int)
    (hlo : inI 32 lo = true) (hhi : inI 32 hi = true) (h1 : 1 ≤ shift) (h2 : shift ≤ 32)
    (hin : -(2 ^ (shift - 1).toNat) < hi ∧ hi < 2 ^ (shift - 1).toNat) :
    saturatingScale m lo hi shift = .ok ((hi * 2 ^ 32 + lo) / 2 ^ shift.toNat) := by
  rw [sat_scale_closed_form m lo hi shift hlo hhi h1 h2]
  have := hin.1; have := hin.2
  rw [if_neg (by omega), if_neg (by omega)]

/-- **saturation**: outside that range the result is a constant that does not depend on `lo`:
    `-(2^31 - 2^(shift-1))` for `hi ≤ -2^(shift-1)` and `2^31 - 2^(shift-1)` for `hi ≥ 2^(shift-1)`.
    It carries the sign of `hi` for every `shift ≤ 31`; for `shift = 32` (only `hi = i32::MIN` saturates)
    the constant degenerates to `0` — see `sat_scale_shift32_min_is_zero`. -/
theorem sat_scale_clip (m : Mode) (lo hi shift : Int)
    (hlo : inI 32 lo = true) (hhi : inI 32 hi = true) (h1 : 1 ≤ shift) (h2 : shift ≤ 32) :
    (hi ≤ -(2 ^ (shift - 1).toNat) → saturatingScale m lo hi shift = .ok (-(2 ^ 31 - 2 ^ (shift - 1).toNat))) ∧
    (2 ^ (shift - 1).toNat ≤ hi → saturatingScale m lo hi shift = .ok (2 ^ 31 - 2 ^ (shift - 1).toNat)) := by
  rw [sat_scale_closed_form m lo hi shift hlo hhi h1 h2]
  have hp := two_pow_pos (shift - 1).toNat
  constructor
  · intro h; rw [if_pos h]; congr 1; omega
  · intro h; rw [if_neg (by omega), if_pos h]

/-- **never panics** for any documented shift (this is what the `fix:` commit repaired for `shift = 32`). -/
theorem sat_scale_total (m : Mode) (lo hi shift : Int)
    (hlo : inI 32 lo = true) (hhi : inI 32 hi = true) (h1 : 1 ≤ shift) (h2 : shift ≤ 32) :
    ∃ r, saturatingScale m lo hi shift = .ok r ∧ inI 32 r = true := by
  rw [sat_scale_closed_form m lo hi shift hlo hhi h1 h2]
  refine ⟨_, rfl, ?_⟩
  have ⟨hl0, hl1⟩ := inI_iff.mp hlo
  have ⟨hh0, hh1⟩ := inI_iff.mp hhi
  simp only [show (32 : Nat) - 1 = 31 from rfl] at hl0 hl1 hh0 hh1
  rw [inI_iff]
  simp only [show (32 : Nat) - 1 = 31 from rfl]
  rcases shift_cases h1 h2 with h | h | h | h | h | h | h | h | h | h | h | h | h | h | h | h | h | h | h | h |
    h | h | h | h | h | h | h | h | h | h | h | h <;> subst h <;> simp <;> (repeat' split) <;> omega

/-- the value of the model as a total function on the documented domain (used to state monotonicity) -/
def satScaleVal (lo hi shift : Int) : Int :=
  if hi ≤ -(2 ^ (shift - 1).toNat) then -(2 ^ 31) + 2 ^ (shift - 1).toNat
  else if 2 ^ (shift - 1).toNat ≤ hi then 2 ^ 31 - 2 ^ (shift - 1).toNat
  else (hi * 2 ^ 32 + lo) / 2 ^ shift.toNat

/-- **monotone for `shift ≤ 16`**: non-decreasing in `(hi, lo)` ordered lexicographically. -/
theorem sat_scale_monotone_le16 (lo hi lo' hi' shift : Int)
    (hlo : inI 32 lo = true) (hhi : inI 32 hi = true) (hlo' : inI 32 lo' = true) (hhi' : inI 32 hi' = true)
    (h1 : 1 ≤ shift) (h2 : shift ≤ 16) (hle : hi < hi' ∨ (hi = hi' ∧ lo ≤ lo')) :
    satScaleVal lo hi shift ≤ satScaleVal lo' hi' shift := by
  have ⟨hl0, hl1⟩ := inI_iff.mp hlo
  have ⟨hh0, hh1⟩ := inI_iff.mp hhi
  have ⟨hl0', hl1'⟩ := inI_iff.mp hlo'
  have ⟨hh0', hh1'⟩ := inI_iff.mp hhi'
  simp only [show (32 : Nat) - 1 = 31 from rfl] at hl0 hl1 hh0 hh1 hl0' hl1' hh0' hh1'
  have : shift = 1 ∨ shift = 2 ∨ shift = 3 ∨ shift = 4 ∨ shift = 5 ∨ shift = 6 ∨ shift = 7 ∨ shift = 8 ∨
      shift = 9 ∨ shift = 10 ∨ shift = 11 ∨ shift = 12 ∨ shift = 13 ∨ shift = 14 ∨ shift = 15 ∨ shift = 16 := by
    omega
  rcases this with h | h | h | h | h | h | h | h | h | h | h | h | h | h | h | h <;> subst h <;>
  · simp only [satScaleVal]; simp; (repeat' split) <;> omega

/-- **not monotone for any `shift ≥ 17`** (defect, known finding F-C18-a): stepping from the last saturated
    `hi = -2^(shift-1)` (any `lo`, here `i32::MAX`) to the first unsaturated `hi = -2^(shift-1)+1` with
    `lo = i32::MIN` makes the result DEcrease. -/
theorem sat_scale_not_monotone_ge17 (shift : Int) (h1 : 17 ≤ shift) (h2 : shift ≤ 32) :
    satScaleVal (-(2 ^ 31)) (-(2 ^ (shift - 1).toNat) + 1) shift
      < satScaleVal (2 ^ 31 - 1) (-(2 ^ (shift - 1).toNat)) shift := by
  have : shift = 17 ∨ shift = 18 ∨ shift = 19 ∨ shift = 20 ∨ shift = 21 ∨ shift = 22 ∨ shift = 23 ∨ shift = 24 ∨
      shift = 25 ∨ shift = 26 ∨ shift = 27 ∨ shift = 28 ∨ shift = 29 ∨ shift = 30 ∨ shift = 31 ∨ shift = 32 := by
    omega
  rcases this with h | h | h | h | h | h | h | h | h | h | h | h | h | h | h | h <;> subst h <;>
    simp [satScaleVal]

/-- the model's result IS `satScaleVal` on the documented domain -/
theorem sat_scale_eq_val (m : Mode) (lo hi shift : Int)
    (hlo : inI 32 lo = true) (hhi : inI 32 hi = true) (h1 : 1 ≤ shift) (h2 : shift ≤ 32) :
    saturatingScale m lo hi shift = .ok (satScaleVal lo hi shift) :=
  sat_scale_closed_form m lo hi shift hlo hhi h1 h2

/-- at `shift = 32` the only saturating `hi` is `i32::MIN` and the "saturation value" is 0, which does not carry
    the sign of `hi` (part of F-C18-a). -/
theorem sat_scale_shift32_min_is_zero (m : Mode) (lo : Int) (hlo : inI 32 lo = true) :
    saturatingScale m lo (-(2 ^ 31)) 32 = .ok 0 := by
  rw [sat_scale_closed_form m lo (-(2 ^ 31)) 32 hlo (by decide) (by decide) (by decide)]
  simp

/-- contract violations panic in a checked build (shift = 0 and shift = 33) -/
theorem sat_scale_contract (lo hi : Int) :
    saturatingScale .checked lo hi 0 = .error ⟨"unwrap.rs:38 debug_assert!(shift > 0)"⟩ ∧
    saturatingScale .checked lo hi 33 = .error ⟨"unwrap.rs:39 debug_assert!(shift <= 32)"⟩ := by
  constructor <;> simp [saturatingScale, dbgAssert, bind, Except.bind]

-- the values pinned by the crate's unit test (shift = 8)
example : saturatingScale .checked 0x12345600 0x7f 8 = .ok 0x7f123456 := by decide
example : saturatingScale .checked 0 0x80 8 = .ok 0x7fffff80 := by decide
example : saturatingScale .checked (-0x80000000) (-0x80) 8 = .ok (-0x7fffff80) := by decide
-- the failing pair of F-C18-a at shift = 24
example : saturatingScale .checked (2 ^ 31 - 1) (-(2 ^ 23)) 24 = .ok (-2139095040) ∧
          saturatingScale .checked (-(2 ^ 31)) (-(2 ^ 23) + 1) 24 = .ok (-2147483520) := by decide

end Idsp
