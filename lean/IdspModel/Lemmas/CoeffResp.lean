import IdspModel.Lemmas.CoeffBasic
/-!
# Coefficient builders over `ℝ`: the transfer function and its defining values

`tf ba z` is `H(z) = (b0 + b1 z⁻¹ + b2 z⁻²)/(a0 + a1 z⁻¹ + a2 z⁻²)` for complex `z`.  DC is `z = 1`, Nyquist is
`z = −1`, the critical frequency is `z = ejw w0 = e^{j w0}`.  Per builder the values at these three points.
-/
namespace Idsp
open Real Complex

/-- a real coefficient triple as a polynomial in `z⁻¹`, evaluated at `zi = z⁻¹ ∈ ℂ` -/
noncomputable def polyZi (p : ℝ × ℝ × ℝ) (zi : ℂ) : ℂ := (p.1 : ℂ) + (p.2.1 : ℂ) * zi + (p.2.2 : ℂ) * zi ^ 2

/-- the transfer function `H(z) = (b0 + b1 z⁻¹ + b2 z⁻²)/(a0 + a1 z⁻¹ + a2 z⁻²)` of `((b0,b1,b2),(a0,a1,a2))` -/
noncomputable def tf (ba : BA ℝ) (z : ℂ) : ℂ := polyZi ba.1 z⁻¹ / polyZi ba.2 z⁻¹

/-- the point `e^{jw}` of the unit circle -/
noncomputable def ejw (w : ℝ) : ℂ := Complex.exp ((w : ℂ) * I)

theorem ejw_inv (w : ℝ) : (ejw w)⁻¹ = (Real.cos w : ℂ) - (Real.sin w : ℂ) * I := by
  unfold ejw
  rw [← Complex.exp_neg, ← neg_mul, Complex.exp_mul_I, Complex.cos_neg, Complex.sin_neg]
  push_cast; ring

theorem norm_ejw (w : ℝ) : ‖ejw w‖ = 1 := Complex.norm_exp_ofReal_mul_I w

theorem norm_ejw_inv (w : ℝ) : ‖(ejw w)⁻¹‖ = 1 := by rw [norm_inv, norm_ejw, inv_one]

theorem ejw_inv_ne_zero (w : ℝ) : (ejw w)⁻¹ ≠ 0 := by
  intro h; have := norm_ejw_inv w; rw [h, norm_zero] at this; exact zero_ne_one this

theorem cs_cast (w : ℝ) : (Real.sin w : ℂ) ^ 2 + (Real.cos w : ℂ) ^ 2 = 1 := by
  exact_mod_cast Real.sin_sq_add_cos_sq w

/-- `z⁻¹ = e^{-jw}` is a root of `x² − 2 cos w · x + 1` -/
theorem ejw_inv_sq (w : ℝ) : ((ejw w)⁻¹) ^ 2 = 2 * (Real.cos w : ℂ) * (ejw w)⁻¹ - 1 := by
  rw [ejw_inv]
  linear_combination (Real.sin w : ℂ) ^ 2 * Complex.I_sq - cs_cast w

theorem one_sub_cos_mul_ejw_inv (w : ℝ) :
    1 - (Real.cos w : ℂ) * (ejw w)⁻¹ = I * (Real.sin w : ℂ) * (ejw w)⁻¹ := by
  rw [ejw_inv]
  linear_combination (Real.sin w : ℂ) ^ 2 * Complex.I_sq - cs_cast w

/-- the cookbook denominator shape `(1+β) − 2 cos w · z⁻¹ + (1−β) z⁻²` at `z = e^{jw}` equals `2 β sin w · j · z⁻¹` -/
theorem std_poly_at (w β : ℝ) :
    polyZi (1 + β, -2 * Real.cos w, 1 - β) (ejw w)⁻¹ = 2 * (β : ℂ) * (Real.sin w : ℂ) * I * (ejw w)⁻¹ := by
  simp only [polyZi]
  push_cast [-Complex.ofReal_cos, -Complex.ofReal_sin]
  linear_combination (1 - (β : ℂ)) * ejw_inv_sq w + 2 * (β : ℂ) * one_sub_cos_mul_ejw_inv w

/-- real and imaginary part of a coefficient polynomial on the unit circle:
    `p0 + p1 e^{-jw} + p2 e^{-2jw} = (p0 + p1 cos w + p2 (2cos²w − 1)) − j (p1 sin w + 2 p2 sin w cos w)` -/
theorem polyZi_ejw (p : ℝ × ℝ × ℝ) (w : ℝ) :
    polyZi p (ejw w)⁻¹ =
      ((p.1 + p.2.1 * Real.cos w + p.2.2 * (2 * Real.cos w ^ 2 - 1) : ℝ) : ℂ)
        - ((p.2.1 * Real.sin w + 2 * p.2.2 * Real.sin w * Real.cos w : ℝ) : ℂ) * I := by
  simp only [polyZi]
  rw [ejw_inv]
  push_cast [-Complex.ofReal_cos, -Complex.ofReal_sin]
  linear_combination (p.2.2 : ℂ) * (Real.sin w : ℂ) ^ 2 * Complex.I_sq - (p.2.2 : ℂ) * cs_cast w

theorem tf_one (ba : BA ℝ) :
    tf ba 1 = (((ba.1.1 + ba.1.2.1 + ba.1.2.2) / (ba.2.1 + ba.2.2.1 + ba.2.2.2) : ℝ) : ℂ) := by
  simp [tf, polyZi]

theorem tf_neg_one (ba : BA ℝ) :
    tf ba (-1) = (((ba.1.1 - ba.1.2.1 + ba.1.2.2) / (ba.2.1 - ba.2.2.1 + ba.2.2.2) : ℝ) : ℂ) := by
  simp [tf, polyZi, inv_neg]
  ring

theorem polyZi_one (p : ℝ × ℝ × ℝ) : polyZi p 1 = ((p.1 + p.2.1 + p.2.2 : ℝ) : ℂ) := by
  simp [polyZi]

theorem polyZi_neg_one (p : ℝ × ℝ × ℝ) : polyZi p (-1) = ((p.1 - p.2.1 + p.2.2 : ℝ) : ℂ) := by
  simp [polyZi]; ring

theorem polyZi_smul (k : ℝ) (p : ℝ × ℝ × ℝ) (zi : ℂ) :
    polyZi (k * p.1, k * p.2.1, k * p.2.2) zi = (k : ℂ) * polyZi p zi := by
  simp only [polyZi]; push_cast; ring

/-! ### numerators at `z = e^{jw}` -/

theorem lp_num_at (w b : ℝ) :
    polyZi (b, 2 * b, b) (ejw w)⁻¹ = 2 * (b : ℂ) * (1 + (Real.cos w : ℂ)) * (ejw w)⁻¹ := by
  simp only [polyZi]
  push_cast [-Complex.ofReal_cos, -Complex.ofReal_sin]
  linear_combination (b : ℂ) * ejw_inv_sq w

theorem hp_num_at (w b : ℝ) :
    polyZi (b, -2 * b, b) (ejw w)⁻¹ = -(2 * (b : ℂ) * (1 - (Real.cos w : ℂ)) * (ejw w)⁻¹) := by
  simp only [polyZi]
  push_cast [-Complex.ofReal_cos, -Complex.ofReal_sin]
  linear_combination (b : ℂ) * ejw_inv_sq w

theorem bp_num_at (w b : ℝ) :
    polyZi (b, 0, -b) (ejw w)⁻¹ = 2 * (b : ℂ) * (Real.sin w : ℂ) * I * (ejw w)⁻¹ := by
  simp only [polyZi]
  push_cast [-Complex.ofReal_cos, -Complex.ofReal_sin]
  linear_combination (-(b : ℂ)) * ejw_inv_sq w + 2 * (b : ℂ) * one_sub_cos_mul_ejw_inv w

theorem notch_num_at (w g : ℝ) :
    polyZi (g, -2 * Real.cos w * g, g) (ejw w)⁻¹ = 0 := by
  simp only [polyZi]
  push_cast [-Complex.ofReal_cos, -Complex.ofReal_sin]
  linear_combination (g : ℂ) * ejw_inv_sq w

/-- numerators of allpass (`β = −α`), peaking (`β = α√shelf`), iho (`β = α`) at `e^{jw0}` -/
theorem std_num_at (w β g : ℝ) :
    polyZi ((1 + β) * g, -2 * Real.cos w * g, (1 - β) * g) (ejw w)⁻¹
      = 2 * (g : ℂ) * (β : ℂ) * (Real.sin w : ℂ) * I * (ejw w)⁻¹ := by
  have := polyZi_smul g (1 + β, -2 * Real.cos w, 1 - β) (ejw w)⁻¹
  simp only at this
  rw [show ((1 + β) * g, -2 * Real.cos w * g, (1 - β) * g) = (g * (1 + β), g * (-2 * Real.cos w), g * (1 - β)) by
    simp only [mul_comm], this, std_poly_at]
  ring

/-! ### lowpass -/
section
variable (f : FilterCfg ℝ) (h0 : 0 < f.frequency) (hp : f.frequency < π)
include h0 hp

theorem lowpass_dc : tf (f.lowpass realOps) 1 = (f.gain : ℂ) := by
  have hc := cos_lt_one_of_mem h0 hp
  rw [tf_one, lowpass_eq]
  congr 1
  have : 1 - f.cosR ≠ 0 := by unfold FilterCfg.cosR; linarith
  have h2 : (1 + f.alphaR + -2 * f.cosR + (1 - f.alphaR)) = 2 * (1 - f.cosR) := by ring
  simp only [h2]
  field_simp
  ring

omit h0 hp in
theorem lowpass_nyquist_num : polyZi (f.lowpass realOps).1 (-1) = 0 := by
  rw [polyZi_neg_one, lowpass_eq, Complex.ofReal_eq_zero]; ring

theorem lowpass_nyquist_den : polyZi (f.lowpass realOps).2 (-1) ≠ 0 := by
  have hc := neg_one_lt_cos_of_mem h0 hp
  rw [polyZi_neg_one, lowpass_eq, Ne, Complex.ofReal_eq_zero]
  simp only [FilterCfg.cosR]; intro h; linarith

theorem lowpass_w0 (hq : 0 < f.qi realOps) :
    tf (f.lowpass realOps) (ejw f.frequency) = -I * ((f.gain / f.qi realOps : ℝ) : ℂ) := by
  have hs := sin_ne_zero_of_mem h0 hp
  have hs' : (Real.sin f.frequency : ℂ) ≠ 0 := by exact_mod_cast hs
  have hq' : ((f.qi realOps : ℝ) : ℂ) ≠ 0 := by exact_mod_cast hq.ne'
  have hz := ejw_inv_ne_zero f.frequency
  rw [lowpass_eq]; simp only [tf, FilterCfg.cosR]
  rw [std_poly_at, lp_num_at]
  unfold FilterCfg.alphaR; push_cast [-Complex.ofReal_cos, -Complex.ofReal_sin]
  generalize (ejw f.frequency)⁻¹ = zi at hz ⊢
  field_simp
  linear_combination (-(f.gain : ℂ)) * cs_cast f.frequency
    + (f.gain : ℂ) * (Real.sin f.frequency : ℂ) ^ 2 * Complex.I_sq

omit h0 hp in
theorem norm_neg_I_mul (r : ℝ) : ‖-I * (r : ℂ)‖ = |r| := by
  rw [norm_mul, norm_neg, Complex.norm_I, one_mul, Complex.norm_real, Real.norm_eq_abs]

omit h0 hp in
theorem norm_I_mul (r : ℝ) : ‖I * (r : ℂ)‖ = |r| := by
  rw [norm_mul, Complex.norm_I, one_mul, Complex.norm_real, Real.norm_eq_abs]

theorem lowpass_w0_norm (hq : 0 < f.qi realOps) :
    ‖tf (f.lowpass realOps) (ejw f.frequency)‖ = |f.gain| / f.qi realOps := by
  rw [lowpass_w0 f h0 hp hq, norm_neg_I_mul, abs_div, abs_of_pos hq]

/-! ### highpass -/

theorem highpass_nyquist : tf (f.highpass realOps) (-1) = (f.gain : ℂ) := by
  have hc := neg_one_lt_cos_of_mem h0 hp
  rw [tf_neg_one, highpass_eq]
  congr 1
  have : 1 + f.cosR ≠ 0 := by unfold FilterCfg.cosR; linarith
  have h2 : (1 + f.alphaR - -2 * f.cosR + (1 - f.alphaR)) = 2 * (1 + f.cosR) := by ring
  simp only [h2]
  field_simp
  ring

omit h0 hp in
theorem highpass_dc_num : polyZi (f.highpass realOps).1 1 = 0 := by
  rw [polyZi_one, highpass_eq, Complex.ofReal_eq_zero]; ring

theorem highpass_dc_den : polyZi (f.highpass realOps).2 1 ≠ 0 := by
  have hc := cos_lt_one_of_mem h0 hp
  rw [polyZi_one, highpass_eq, Ne, Complex.ofReal_eq_zero]
  simp only [FilterCfg.cosR]; intro h; linarith

theorem highpass_w0 (hq : 0 < f.qi realOps) :
    tf (f.highpass realOps) (ejw f.frequency) = I * ((f.gain / f.qi realOps : ℝ) : ℂ) := by
  have hs := sin_ne_zero_of_mem h0 hp
  have hs' : (Real.sin f.frequency : ℂ) ≠ 0 := by exact_mod_cast hs
  have hq' : ((f.qi realOps : ℝ) : ℂ) ≠ 0 := by exact_mod_cast hq.ne'
  have hz := ejw_inv_ne_zero f.frequency
  rw [highpass_eq]; simp only [tf, FilterCfg.cosR]
  rw [std_poly_at, hp_num_at]
  unfold FilterCfg.alphaR; push_cast [-Complex.ofReal_cos, -Complex.ofReal_sin]
  generalize (ejw f.frequency)⁻¹ = zi at hz ⊢
  field_simp
  linear_combination ((f.gain : ℂ)) * cs_cast f.frequency
    - (f.gain : ℂ) * (Real.sin f.frequency : ℂ) ^ 2 * Complex.I_sq

theorem highpass_w0_norm (hq : 0 < f.qi realOps) :
    ‖tf (f.highpass realOps) (ejw f.frequency)‖ = |f.gain| / f.qi realOps := by
  rw [highpass_w0 f h0 hp hq, norm_I_mul, abs_div, abs_of_pos hq]

/-! ### bandpass -/

omit h0 hp in
theorem bandpass_dc_num : polyZi (f.bandpass realOps).1 1 = 0 := by
  rw [polyZi_one, bandpass_eq, Complex.ofReal_eq_zero]; ring

omit h0 hp in
theorem bandpass_nyquist_num : polyZi (f.bandpass realOps).1 (-1) = 0 := by
  rw [polyZi_neg_one, bandpass_eq, Complex.ofReal_eq_zero]; ring

theorem bandpass_dc_den : polyZi (f.bandpass realOps).2 1 ≠ 0 := by
  have hc := cos_lt_one_of_mem h0 hp
  rw [polyZi_one, bandpass_eq, Ne, Complex.ofReal_eq_zero]
  simp only [FilterCfg.cosR]; intro h; linarith

theorem bandpass_nyquist_den : polyZi (f.bandpass realOps).2 (-1) ≠ 0 := by
  have hc := neg_one_lt_cos_of_mem h0 hp
  rw [polyZi_neg_one, bandpass_eq, Ne, Complex.ofReal_eq_zero]
  simp only [FilterCfg.cosR]; intro h; linarith

theorem bandpass_w0 (hq : 0 < f.qi realOps) :
    tf (f.bandpass realOps) (ejw f.frequency) = (f.gain : ℂ) := by
  have hs := sin_ne_zero_of_mem h0 hp
  have hs' : (Real.sin f.frequency : ℂ) ≠ 0 := by exact_mod_cast hs
  have hq' : ((f.qi realOps : ℝ) : ℂ) ≠ 0 := by exact_mod_cast hq.ne'
  have hz := ejw_inv_ne_zero f.frequency
  rw [bandpass_eq]; simp only [tf, FilterCfg.cosR]
  rw [std_poly_at, bp_num_at]
  unfold FilterCfg.alphaR; push_cast [-Complex.ofReal_cos, -Complex.ofReal_sin]
  generalize (ejw f.frequency)⁻¹ = zi at hz ⊢
  have hI := Complex.I_ne_zero
  field_simp

theorem bandpass_w0_norm (hq : 0 < f.qi realOps) :
    ‖tf (f.bandpass realOps) (ejw f.frequency)‖ = |f.gain| := by
  rw [bandpass_w0 f h0 hp hq, Complex.norm_real, Real.norm_eq_abs]

/-! ### notch -/

theorem notch_dc : tf (f.notch realOps) 1 = (f.gain : ℂ) := by
  have hc := cos_lt_one_of_mem h0 hp
  rw [tf_one, notch_eq]
  congr 1
  have : 1 - f.cosR ≠ 0 := by unfold FilterCfg.cosR; linarith
  have h2 : (1 + f.alphaR + -2 * f.cosR + (1 - f.alphaR)) = 2 * (1 - f.cosR) := by ring
  simp only [h2]
  field_simp
  ring

theorem notch_nyquist : tf (f.notch realOps) (-1) = (f.gain : ℂ) := by
  have hc := neg_one_lt_cos_of_mem h0 hp
  rw [tf_neg_one, notch_eq]
  congr 1
  have : 1 + f.cosR ≠ 0 := by unfold FilterCfg.cosR; linarith
  have h2 : (1 + f.alphaR - -2 * f.cosR + (1 - f.alphaR)) = 2 * (1 + f.cosR) := by ring
  simp only [h2]
  field_simp
  ring

omit h0 hp in
theorem notch_w0_num : polyZi (f.notch realOps).1 (ejw f.frequency)⁻¹ = 0 := by
  rw [notch_eq]; exact notch_num_at _ _

theorem notch_w0_den (hq : 0 < f.qi realOps) : polyZi (f.notch realOps).2 (ejw f.frequency)⁻¹ ≠ 0 := by
  have hs := sin_ne_zero_of_mem h0 hp
  have hs' : (Real.sin f.frequency : ℂ) ≠ 0 := by exact_mod_cast hs
  have hq' : ((f.qi realOps : ℝ) : ℂ) ≠ 0 := by exact_mod_cast hq.ne'
  have hz := ejw_inv_ne_zero f.frequency
  rw [notch_eq]; simp only [FilterCfg.cosR]
  rw [std_poly_at]
  unfold FilterCfg.alphaR; push_cast [-Complex.ofReal_cos, -Complex.ofReal_sin]
  simp [-Complex.ofReal_sin, hs', hq', hz, Complex.I_ne_zero]

omit h0 hp in
theorem notch_w0 : tf (f.notch realOps) (ejw f.frequency) = 0 := by
  simp only [tf]; rw [notch_w0_num, zero_div]

/-! ### allpass (at DC, Nyquist and `w0`; all frequencies: see `allpass_norm_all`) -/

theorem allpass_dc : tf (f.allpass realOps) 1 = (f.gain : ℂ) := by
  have hc := cos_lt_one_of_mem h0 hp
  rw [tf_one, allpass_eq]
  congr 1
  have : 1 - f.cosR ≠ 0 := by unfold FilterCfg.cosR; linarith
  have h2 : (1 + f.alphaR + -2 * f.cosR + (1 - f.alphaR)) = 2 * (1 - f.cosR) := by ring
  simp only [h2]
  field_simp
  ring

theorem allpass_nyquist : tf (f.allpass realOps) (-1) = (f.gain : ℂ) := by
  have hc := neg_one_lt_cos_of_mem h0 hp
  rw [tf_neg_one, allpass_eq]
  congr 1
  have : 1 + f.cosR ≠ 0 := by unfold FilterCfg.cosR; linarith
  have h2 : (1 + f.alphaR - -2 * f.cosR + (1 - f.alphaR)) = 2 * (1 + f.cosR) := by ring
  simp only [h2]
  field_simp
  ring

/-- at the critical frequency the allpass has phase `π`: `H = −gain` -/
theorem allpass_w0 (hq : 0 < f.qi realOps) :
    tf (f.allpass realOps) (ejw f.frequency) = -(f.gain : ℂ) := by
  have hs := sin_ne_zero_of_mem h0 hp
  have hs' : (Real.sin f.frequency : ℂ) ≠ 0 := by exact_mod_cast hs
  have hq' : ((f.qi realOps : ℝ) : ℂ) ≠ 0 := by exact_mod_cast hq.ne'
  have hz := ejw_inv_ne_zero f.frequency
  rw [allpass_eq]; simp only [tf, FilterCfg.cosR]
  have := std_num_at f.frequency (-f.alphaR) f.gain
  rw [show (1 + -f.alphaR) = 1 - f.alphaR by ring, show (1 - -f.alphaR) = 1 + f.alphaR by ring] at this
  rw [std_poly_at, this]
  unfold FilterCfg.alphaR; push_cast [-Complex.ofReal_cos, -Complex.ofReal_sin]
  generalize (ejw f.frequency)⁻¹ = zi at hz ⊢
  have hI := Complex.I_ne_zero
  field_simp

/-! ### peaking -/

omit h0 hp in
theorem sqrt_shelf_ne (hsh : 0 < f.shelf) : √f.shelf ≠ 0 := (Real.sqrt_pos.mpr hsh).ne'

theorem peaking_dc : tf (f.peaking realOps) 1 = (f.gain : ℂ) := by
  have hc := cos_lt_one_of_mem h0 hp
  rw [tf_one, peaking_eq]
  congr 1
  have : 1 - f.cosR ≠ 0 := by unfold FilterCfg.cosR; linarith
  have h2 : (1 + f.alphaR / √f.shelf + -2 * f.cosR + (1 - f.alphaR / √f.shelf)) = 2 * (1 - f.cosR) := by ring
  simp only [h2]
  field_simp
  ring

theorem peaking_nyquist : tf (f.peaking realOps) (-1) = (f.gain : ℂ) := by
  have hc := neg_one_lt_cos_of_mem h0 hp
  rw [tf_neg_one, peaking_eq]
  congr 1
  have : 1 + f.cosR ≠ 0 := by unfold FilterCfg.cosR; linarith
  have h2 : (1 + f.alphaR / √f.shelf - -2 * f.cosR + (1 - f.alphaR / √f.shelf)) = 2 * (1 + f.cosR) := by ring
  simp only [h2]
  field_simp
  ring

theorem peaking_w0 (hq : 0 < f.qi realOps) (hsh : 0 < f.shelf) :
    tf (f.peaking realOps) (ejw f.frequency) = ((f.gain * f.shelf : ℝ) : ℂ) := by
  have hs := sin_ne_zero_of_mem h0 hp
  have hs' : (Real.sin f.frequency : ℂ) ≠ 0 := by exact_mod_cast hs
  have hq' : ((f.qi realOps : ℝ) : ℂ) ≠ 0 := by exact_mod_cast hq.ne'
  have hA : ((√f.shelf : ℝ) : ℂ) ≠ 0 := by exact_mod_cast sqrt_shelf_ne f hsh
  have hA2 : ((√f.shelf : ℝ) : ℂ) ^ 2 = (f.shelf : ℂ) := by exact_mod_cast Real.sq_sqrt hsh.le
  have hz := ejw_inv_ne_zero f.frequency
  rw [peaking_eq]; simp only [tf, FilterCfg.cosR]
  rw [std_poly_at, std_num_at]
  unfold FilterCfg.alphaR; push_cast [-Complex.ofReal_cos, -Complex.ofReal_sin]
  generalize (ejw f.frequency)⁻¹ = zi at hz ⊢
  have hI := Complex.I_ne_zero
  field_simp
  rw [hA2]

theorem peaking_w0_norm (hq : 0 < f.qi realOps) (hsh : 0 < f.shelf) :
    ‖tf (f.peaking realOps) (ejw f.frequency)‖ = |f.gain| * f.shelf := by
  rw [peaking_w0 f h0 hp hq hsh, Complex.norm_real, Real.norm_eq_abs, abs_mul, abs_of_pos hsh]

/-! ### shelves -/

theorem lowshelf_dc (hsh : 0 < f.shelf) : tf (f.lowshelf realOps) 1 = ((f.gain * f.shelf : ℝ) : ℂ) := by
  have hc := cos_lt_one_of_mem h0 hp
  have hA2 := Real.sq_sqrt hsh.le
  rw [tf_one, lowshelf_eq]
  congr 1
  have : 1 - f.cosR ≠ 0 := by unfold FilterCfg.cosR; linarith
  have h2 : (√f.shelf + 1 + (√f.shelf - 1) * f.cosR + 2 * √√f.shelf * f.alphaR +
      -2 * (√f.shelf - 1 + (√f.shelf + 1) * f.cosR) +
      (√f.shelf + 1 + (√f.shelf - 1) * f.cosR - 2 * √√f.shelf * f.alphaR)) = 4 * (1 - f.cosR) := by ring
  simp only [h2]
  conv_rhs => rw [← hA2]
  field_simp
  ring

theorem lowshelf_nyquist (hsh : 0 < f.shelf) : tf (f.lowshelf realOps) (-1) = (f.gain : ℂ) := by
  have hc := neg_one_lt_cos_of_mem h0 hp
  have hA := sqrt_shelf_ne f hsh
  rw [tf_neg_one, lowshelf_eq]
  congr 1
  have : 1 + f.cosR ≠ 0 := by unfold FilterCfg.cosR; linarith
  have h2 : (√f.shelf + 1 + (√f.shelf - 1) * f.cosR + 2 * √√f.shelf * f.alphaR -
      -2 * (√f.shelf - 1 + (√f.shelf + 1) * f.cosR) +
      (√f.shelf + 1 + (√f.shelf - 1) * f.cosR - 2 * √√f.shelf * f.alphaR)) = 4 * √f.shelf * (1 + f.cosR) := by
    ring
  simp only [h2]
  field_simp
  ring

theorem highshelf_dc (hsh : 0 < f.shelf) : tf (f.highshelf realOps) 1 = (f.gain : ℂ) := by
  have hc := cos_lt_one_of_mem h0 hp
  have hA := sqrt_shelf_ne f hsh
  rw [tf_one, highshelf_eq]
  congr 1
  have : 1 - f.cosR ≠ 0 := by unfold FilterCfg.cosR; linarith
  have h2 : (√f.shelf + 1 - (√f.shelf - 1) * f.cosR + 2 * √√f.shelf * f.alphaR +
      2 * (√f.shelf - 1 - (√f.shelf + 1) * f.cosR) +
      (√f.shelf + 1 - (√f.shelf - 1) * f.cosR - 2 * √√f.shelf * f.alphaR)) = 4 * √f.shelf * (1 - f.cosR) := by
    ring
  simp only [h2]
  field_simp
  ring

theorem highshelf_nyquist (hsh : 0 < f.shelf) :
    tf (f.highshelf realOps) (-1) = ((f.gain * f.shelf : ℝ) : ℂ) := by
  have hc := neg_one_lt_cos_of_mem h0 hp
  have hA2 := Real.sq_sqrt hsh.le
  rw [tf_neg_one, highshelf_eq]
  congr 1
  have : 1 + f.cosR ≠ 0 := by unfold FilterCfg.cosR; linarith
  have h2 : (√f.shelf + 1 - (√f.shelf - 1) * f.cosR + 2 * √√f.shelf * f.alphaR -
      2 * (√f.shelf - 1 - (√f.shelf + 1) * f.cosR) +
      (√f.shelf + 1 - (√f.shelf - 1) * f.cosR - 2 * √√f.shelf * f.alphaR)) = 4 * (1 + f.cosR) := by ring
  simp only [h2]
  conv_rhs => rw [← hA2]
  field_simp
  ring

/-! ### I/HO -/

omit h0 hp in
/-- the denominator vanishes at `z = 1`: a pole exactly at DC -/
theorem iho_dc_den : polyZi (f.iho realOps).2 1 = 0 := by
  rw [polyZi_one, iho_eq, Complex.ofReal_eq_zero]; ring

/-- … which is not cancelled by the numerator (for `gain ≠ 0`) -/
theorem iho_dc_num (hg : f.gain ≠ 0) : polyZi (f.iho realOps).1 1 ≠ 0 := by
  have hc := cos_lt_one_of_mem h0 hp
  rw [polyZi_one, iho_eq, Ne, Complex.ofReal_eq_zero]
  have : f.gain * (1 + f.alphaR) + -2 * f.gain * f.cosR + f.gain * (1 - f.alphaR) = 2 * f.gain * (1 - f.cosR) := by
    ring
  simp only [this]
  have : 1 - f.cosR ≠ 0 := by unfold FilterCfg.cosR; linarith
  positivity

theorem iho_nyquist (hsh : 0 < f.shelf) : tf (f.iho realOps) (-1) = ((f.gain * f.shelf : ℝ) : ℂ) := by
  have hc := neg_one_lt_cos_of_mem h0 hp
  rw [tf_neg_one, iho_eq]
  congr 1
  have : 1 + f.cosR ≠ 0 := by unfold FilterCfg.cosR; linarith
  have hsh' := hsh.ne'
  have h2 : ((1 + f.cosR) / (2 * f.shelf) + 1 / 2 * Real.sin f.frequency - -2 * ((1 + f.cosR) / (2 * f.shelf)) +
      ((1 + f.cosR) / (2 * f.shelf) - 1 / 2 * Real.sin f.frequency)) = 2 * (1 + f.cosR) / f.shelf := by
    field_simp; ring
  simp only [h2]
  field_simp
  ring

end
end Idsp
