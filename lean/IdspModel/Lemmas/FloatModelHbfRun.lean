import IdspModel.Lemmas.FloatModelHbf
import IdspModel.Lemmas.HbfRun
import IdspModel.Lemmas.HbfExamples
/-!
  Block level: every output sample of a multi-block run of the half-band decimator / interpolator model under the
  rounding model (`FlModel.fhbfOps`), from the zero state, against the exact convolution `firAt` of `Lemmas/HbfConv`.
  The filters are FIR and the state holds input samples only, so the rounded and the exact run see the same windows.
-/
namespace Idsp
open Finset

variable {u : ℝ}

theorem fhbf_zext_abs_le (X : List ℝ) (B : ℝ) (hB : 0 ≤ B) (hX : ∀ x ∈ X, |x| ≤ B) (n : ℤ) : |zext X n| ≤ B := by
  unfold zext
  split
  · by_cases h : n.toNat < X.length
    · rw [getD_eq_of_lt _ _ _ h]; exact hX _ (List.getElem_mem h)
    · rw [List.getD_eq_getElem?_getD, List.getElem?_eq_none (by omega)]; simpa using hB
  · rw [abs_zero]; exact hB

theorem fhbf_zstuff_abs_le (X : List ℝ) (B : ℝ) (hB : 0 ≤ B) (hX : ∀ x ∈ X, |x| ≤ B) (n : ℤ) :
    |zstuff X n| ≤ B := by
  unfold zstuff
  split
  · exact fhbf_zext_abs_le X B hB hX _
  · rw [abs_zero]; exact hB

/-- per-term rounding bound of one decimator output at input position `n` (the newest sample consumed) -/
noncomputable def fhbfDecBound (u : ℝ) (taps : List ℝ) (w : ℤ → ℝ) (n : ℤ) : ℝ :=
  1 / 2 * (gam u 2 * |w (n - (2 * taps.length - 1))| + ∑ l ∈ range taps.length, gam u (taps.length - l + 4) *
    |(w (n - (4 * taps.length - 2 - 2 * l)) + w (n - 2 * l)) * taps.getD l 0|)

/-- per-term rounding bound of one FIR-phase interpolator output at (even) output position `n` -/
noncomputable def fhbfIntBound (u : ℝ) (taps : List ℝ) (w : ℤ → ℝ) (n : ℤ) : ℝ :=
  ∑ l ∈ range taps.length, gam u (taps.length - l + 2) *
    |(w (n - (4 * taps.length - 2 - 2 * l)) + w (n - 2 * l)) * taps.getD l 0|

/-- `Σ_l |t_l|` -/
noncomputable def fhbfTapNorm (taps : List ℝ) : ℝ := ∑ l ∈ range taps.length, |taps.getD l 0|

theorem fhbfTapNorm_nonneg (taps : List ℝ) : 0 ≤ fhbfTapNorm taps :=
  Finset.sum_nonneg fun _ _ => abs_nonneg _

theorem fhbf_pair_term_le (w : ℤ → ℝ) (B : ℝ) (hw : ∀ k, |w k| ≤ B) (a b : ℤ) (t : ℝ) :
    |(w a + w b) * t| ≤ 2 * B * |t| := by
  rw [abs_mul]
  refine mul_le_mul_of_nonneg_right ?_ (abs_nonneg _)
  have := (abs_add_le (w a) (w b)).trans (add_le_add (hw a) (hw b))
  linarith

/-- uniform form of the decimator bound: `γ_{M+4}·(1/2 + Σ|t|)·max|x|` -/
theorem fhbfDecBound_le (hu : 0 ≤ u) (taps : List ℝ) (w : ℤ → ℝ) (B : ℝ) (hw : ∀ k, |w k| ≤ B) (n : ℤ) :
    fhbfDecBound u taps w n ≤ gam u (taps.length + 4) * ((1 / 2 + fhbfTapNorm taps) * B) := by
  have hB : 0 ≤ B := (abs_nonneg _).trans (hw 0)
  have g2 : gam u 2 ≤ gam u (taps.length + 4) := gam_mono hu (by omega)
  have gK := gam_nonneg hu (taps.length + 4)
  have h1 : ∑ l ∈ range taps.length, gam u (taps.length - l + 4) *
      |(w (n - (4 * taps.length - 2 - 2 * l)) + w (n - 2 * l)) * taps.getD l 0| ≤
      gam u (taps.length + 4) * (2 * B * fhbfTapNorm taps) := by
    refine (fhbf_sum_gam_le hu taps.length (taps.length + 4) (fun l => taps.length - l + 4) _
      (fun l _ => by omega) (fun l => abs_nonneg _)).trans ?_
    refine mul_le_mul_of_nonneg_left ?_ gK
    unfold fhbfTapNorm
    rw [Finset.mul_sum]
    exact Finset.sum_le_sum fun l _ => fhbf_pair_term_le w B hw _ _ _
  have h2 : gam u 2 * |w (n - (2 * taps.length - 1))| ≤ gam u (taps.length + 4) * B :=
    mul_le_mul g2 (hw _) (abs_nonneg _) gK
  unfold fhbfDecBound
  nlinarith

/-- uniform form of the interpolator bound: `γ_{M+2}·2Σ|t|·max|x|` -/
theorem fhbfIntBound_le (hu : 0 ≤ u) (taps : List ℝ) (w : ℤ → ℝ) (B : ℝ) (hw : ∀ k, |w k| ≤ B) (n : ℤ) :
    fhbfIntBound u taps w n ≤ gam u (taps.length + 2) * (2 * fhbfTapNorm taps * B) := by
  have gK := gam_nonneg hu (taps.length + 2)
  unfold fhbfIntBound
  refine (fhbf_sum_gam_le hu taps.length (taps.length + 2) (fun l => taps.length - l + 2) _
    (fun l _ => by omega) (fun l => abs_nonneg _)).trans ?_
  refine mul_le_mul_of_nonneg_left ?_ gK
  unfold fhbfTapNorm
  rw [Finset.mul_sum, Finset.sum_mul]
  refine Finset.sum_le_sum fun l _ => ?_
  have := fhbf_pair_term_le w B hw (n - (4 * taps.length - 2 - 2 * l)) (n - 2 * l) (taps.getD l 0)
  linarith

/-- admissibility of a block depends on the buffer lengths only, not on the operations -/
theorem fhbf_dec_adm_iff {α : Type} (o o' : Ops α) (n : Nat) (taps b : List α) :
    (HbfDec.new o n taps).Adm b ↔ (HbfDec.new o' n taps).Adm b := by
  simp [HbfDec.Adm, HbfDec.blockMax, HbfDec.new, SymFir.new]

theorem fhbf_int_adm_iff {α : Type} (o o' : Ops α) (n : Nat) (taps b : List α) :
    (HbfInt.new o n taps).Adm b ↔ (HbfInt.new o' n taps).Adm b := by
  simp [HbfInt.Adm, HbfInt.blockMax, HbfInt.new, SymFir.new]

namespace FlModel

variable (M : FlModel u)

/-- **decimator, any multi-block run from the zero state**: output `i` is the exact decimated convolution up to the
    per-term rounding bound -/
theorem fhbf_dec_run_near (n : Nat) (taps : List ℝ) (hm : 1 ≤ taps.length) (hn : 2 * taps.length ≤ n)
    (bs : List (List ℝ)) (adm : ∀ b ∈ bs, (HbfDec.new M.fhbfOps n taps).Adm b) (i : Nat)
    (hi : i < bs.flatten.length / 2) :
    ∃ y, ((HbfDec.new M.fhbfOps n taps).run M.fhbfOps bs).2.flatten[i]? = some y ∧
      |y - 1 / 2 * firAt taps (zext bs.flatten) (2 * i + 1)| ≤
        fhbfDecBound u taps (zext bs.flatten) (2 * i + 1) := by
  have wf := HbfDec.new_wf M.fhbfOps n taps hm hn
  have ht : (HbfDec.new M.fhbfOps n taps).odd.taps = taps := rfl
  have hz : M.fhbfOps.zero = (0 : ℝ) := rfl
  set X := bs.flatten with hXdef
  have hol := odds_length X
  have hlen := decSpec_length M.fhbfOps taps (List.replicate (taps.length - 1) 0)
    (List.replicate (2 * taps.length - 1) 0) X hm (by simp) (by simp)
  refine ⟨(hbfDecSpec M.fhbfOps taps (List.replicate (taps.length - 1) 0)
    (List.replicate (2 * taps.length - 1) 0) X)[i]'(by rw [hlen]; exact hi), ?_, ?_⟩
  · rw [(HbfDec.run_spec M.fhbfOps _ wf bs adm).1, HbfDec.new_abs _ _ _ hn, ht, hz,
      List.getElem?_eq_getElem (by rw [hlen]; exact hi)]
  · rw [decSpec_getElem _ _ _ _ _ hm (by simp) (by simp) i hi]
    have hwl : (List.take (2 * taps.length)
        (List.drop i (List.replicate (2 * taps.length - 1) (0 : ℝ) ++ odds X))).length = 2 * taps.length := by
      simp [hol]; omega
    have hnear := (M.fhbf_dec_near taps _ hwl
      ((List.replicate (taps.length - 1) (0 : ℝ) ++ evens X)[i]'(by simp [evens_length]; omega))).1
    -- rewrite window entries as samples of the zero-extended input
    have hev : (List.replicate (taps.length - 1) (0 : ℝ) ++ evens X)[i]'(by simp [evens_length]; omega) =
        zext X (2 * (i : ℤ) + 1 - (2 * taps.length - 1)) := by
      rw [even_stream_getElem _ _ _ hm]; congr 1; ring
    have hwin : ∀ l, l < taps.length →
        (List.take (2 * taps.length) (List.drop i (List.replicate (2 * taps.length - 1) (0 : ℝ) ++ odds X))).getD l 0 =
          zext X (2 * (i : ℤ) + 1 - (4 * taps.length - 2 - 2 * l)) ∧
        (List.take (2 * taps.length) (List.drop i (List.replicate (2 * taps.length - 1) (0 : ℝ) ++ odds X))).getD
          (2 * taps.length - 1 - l) 0 = zext X (2 * (i : ℤ) + 1 - 2 * l) := by
      intro l hl
      rw [getD_eq_of_lt _ _ _ (by omega), getD_eq_of_lt _ _ _ (by omega)]
      simp only [List.getElem_take, List.getElem_drop]
      rw [odd_stream_getElem _ _ _ hm, odd_stream_getElem _ _ _ hm]
      constructor
      · congr 1; push_cast; ring
      · congr 1
        have : ((2 * taps.length - 1 - l : Nat) : Int) = 2 * taps.length - 1 - l := by omega
        push_cast [this]; ring
    have hsum : ∀ f : ℝ → ℝ, ∑ l ∈ range taps.length, f
        (((List.take (2 * taps.length) (List.drop i (List.replicate (2 * taps.length - 1) (0 : ℝ) ++ odds X))).getD l 0 +
          (List.take (2 * taps.length) (List.drop i (List.replicate (2 * taps.length - 1) (0 : ℝ) ++ odds X))).getD
            (2 * taps.length - 1 - l) 0) * taps.getD l 0) =
        ∑ l ∈ range taps.length, f ((zext X (2 * (i : ℤ) + 1 - (4 * taps.length - 2 - 2 * l)) +
          zext X (2 * (i : ℤ) + 1 - 2 * l)) * taps.getD l 0) := by
      intro f
      refine Finset.sum_congr rfl fun l hl => ?_
      obtain ⟨a, b⟩ := hwin l (Finset.mem_range.mp hl)
      rw [a, b]
    have hexact : 1 / 2 * firAt taps (zext X) (2 * i + 1) =
        1 / 2 * (zext X (2 * (i : ℤ) + 1 - (2 * taps.length - 1)) + ∑ l ∈ range taps.length,
          (zext X (2 * (i : ℤ) + 1 - (4 * taps.length - 2 - 2 * l)) + zext X (2 * (i : ℤ) + 1 - 2 * l)) *
            taps.getD l 0) := by
      rw [firAt_eq taps hm]
      congr 1
      rw [add_comm (∑ l ∈ range taps.length, _ * _), add_assoc, ← Finset.sum_add_distrib]
      congr 1
      refine Finset.sum_congr rfl fun l _ => ?_
      ring
    have s1 := hsum (fun z => z)
    have s2 := fun k : ℕ → ℕ => Finset.sum_congr (s₁ := range taps.length) rfl
      (fun l hl => by
        obtain ⟨a, b⟩ := hwin l (Finset.mem_range.mp hl)
        show gam u (k l) * |((List.take (2 * taps.length)
          (List.drop i (List.replicate (2 * taps.length - 1) (0 : ℝ) ++ odds X))).getD l 0 +
          (List.take (2 * taps.length) (List.drop i (List.replicate (2 * taps.length - 1) (0 : ℝ) ++ odds X))).getD
            (2 * taps.length - 1 - l) 0) * taps.getD l 0| =
          gam u (k l) * |(zext X (2 * (i : ℤ) + 1 - (4 * taps.length - 2 - 2 * l)) +
            zext X (2 * (i : ℤ) + 1 - 2 * l)) * taps.getD l 0|
        rw [a, b])
    rw [s1, s2 (fun l => taps.length - l + 4), hev] at hnear
    rw [hexact, hev]
    exact hnear

/-- **interpolator, any multi-block run from the zero state**: even outputs (FIR phase) are the exact convolution
    of the zero-stuffed input up to the per-term rounding bound; odd outputs (centre tap) are exact -/
theorem fhbf_int_run_near (n : Nat) (taps : List ℝ) (hm : 1 ≤ taps.length) (hn : 2 * taps.length ≤ n)
    (bs : List (List ℝ)) (adm : ∀ b ∈ bs, (HbfInt.new M.fhbfOps n taps).Adm b) (k : Nat)
    (hk : k < 2 * bs.flatten.length) :
    ∃ y, ((HbfInt.new M.fhbfOps n taps).run M.fhbfOps bs).2.flatten[k]? = some y ∧
      |y - firAt taps (zstuff bs.flatten) k| ≤
        if k % 2 = 0 then fhbfIntBound u taps (zstuff bs.flatten) k else 0 := by
  have wf := HbfInt.new_wf M.fhbfOps n taps hm hn
  have ht : (HbfInt.new M.fhbfOps n taps).fir.taps = taps := rfl
  have hz : M.fhbfOps.zero = (0 : ℝ) := rfl
  set X := bs.flatten with hXdef
  have hlen := intSpec_length M.fhbfOps taps (List.replicate (2 * taps.length - 1) 0) X hm (by simp)
  have hlenE := intSpec_length fhbfExactOps taps (List.replicate (2 * taps.length - 1) 0) X hm (by simp)
  obtain ⟨g1, g2⟩ := intSpec_getElem M.fhbfOps taps (List.replicate (2 * taps.length - 1) 0) X hm (by simp)
    (k / 2) (by omega)
  obtain ⟨x1, x2⟩ := intSpec_getElem fhbfExactOps taps (List.replicate (2 * taps.length - 1) 0) X hm (by simp)
    (k / 2) (by omega)
  have hconv := intSpec_conv (fun x : ℝ => 1 / 2 * x) taps X hm k hk
  refine ⟨(hbfIntSpec M.fhbfOps taps (List.replicate (2 * taps.length - 1) 0) X)[k]'(by rw [hlen]; exact hk), ?_, ?_⟩
  · rw [(HbfInt.run_spec M.fhbfOps _ wf bs adm).1, HbfInt.new_abs _ _ _ hn, ht, hz,
      List.getElem?_eq_getElem (by rw [hlen]; exact hk)]
  · rw [← hconv]
    rcases Nat.mod_two_eq_zero_or_one k with hj | hj
    · rw [if_pos hj]
      have e : k = 2 * (k / 2) := by omega
      have c1 : (hbfIntSpec M.fhbfOps taps (List.replicate (2 * taps.length - 1) 0) X)[k]'(by rw [hlen]; exact hk) =
          (hbfIntSpec M.fhbfOps taps (List.replicate (2 * taps.length - 1) 0) X)[2 * (k / 2)]'(by rw [hlen]; omega) := by
        congr 1
      have c2 : (hbfIntSpec (ringOps fun x : ℝ => 1 / 2 * x) taps (List.replicate (2 * taps.length - 1) 0) X)[k]'(by
            rw [intSpec_length _ _ _ _ hm (by simp)]; exact hk) =
          (hbfIntSpec fhbfExactOps taps (List.replicate (2 * taps.length - 1) 0) X)[2 * (k / 2)]'(by
            rw [hlenE]; omega) := by
        congr 1
      rw [c1, c2, g1, x1]
      have hwl : (List.take (2 * taps.length)
          (List.drop (k / 2) (List.replicate (2 * taps.length - 1) (0 : ℝ) ++ X))).length = 2 * taps.length := by
        simp; omega
      have hnear := (M.fhbf_firTap_near taps _ hwl).1
      rw [show firTap fhbfExactOps taps _ = _ from firTap_ring (fun x : ℝ => 1 / 2 * x) taps _ hwl]
      refine hnear.trans (le_of_eq ?_)
      unfold fhbfIntBound
      refine Finset.sum_congr rfl fun l hl => ?_
      have hl' := Finset.mem_range.mp hl
      rw [getD_eq_of_lt _ _ _ (by omega), getD_eq_of_lt _ _ _ (by omega)]
      simp only [List.getElem_take, List.getElem_drop]
      rw [int_stream_getElem, int_stream_getElem,
        zstuff_even X ((k : ℤ) - 2 * l) ((k / 2 : Nat) - l) (by omega),
        zstuff_even X ((k : ℤ) - (4 * taps.length - 2 - 2 * l)) ((k / 2 : Nat) - (2 * taps.length - 1) + l) (by omega)]
      have e1 : ((k / 2 + l : Nat) : Int) - (2 * taps.length - 1 : Nat) = (k / 2 : Nat) - (2 * taps.length - 1) + l := by
        omega
      have e2 : ((k / 2 + (2 * taps.length - 1 - l) : Nat) : Int) - (2 * taps.length - 1 : Nat) = (k / 2 : Nat) - l := by
        omega
      rw [e1, e2]
    · rw [if_neg (by omega)]
      have e : k = 2 * (k / 2) + 1 := by omega
      have c1 : (hbfIntSpec M.fhbfOps taps (List.replicate (2 * taps.length - 1) 0) X)[k]'(by rw [hlen]; exact hk) =
          (hbfIntSpec M.fhbfOps taps (List.replicate (2 * taps.length - 1) 0) X)[2 * (k / 2) + 1]'(by
            rw [hlen]; omega) := by
        congr 1
      have c2 : (hbfIntSpec (ringOps fun x : ℝ => 1 / 2 * x) taps (List.replicate (2 * taps.length - 1) 0) X)[k]'(by
            rw [intSpec_length _ _ _ _ hm (by simp)]; exact hk) =
          (hbfIntSpec fhbfExactOps taps (List.replicate (2 * taps.length - 1) 0) X)[2 * (k / 2) + 1]'(by
            rw [hlenE]; omega) := by
        congr 1
      rw [c1, c2, g2, x2, sub_self, abs_zero]

end FlModel

end Idsp
