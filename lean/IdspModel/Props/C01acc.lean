import IdspModel.Model.Cossin
import IdspModel.Lemmas.CossinCore
import IdspModel.Lemmas.CossinAccMain
/-!
# C01 (accuracy clause) — `cossin` against the real cosine and sine

Property theorems only. Helper lemmas: `Lemmas/CossinAccTaylor.lean` (certified enclosures of `Real.cos`,
`Real.sin`), `Lemmas/CossinAccRow.lean` (generic per-row argument), `Lemmas/CossinAccTab*.lean` (generated numeric
certificates for the 128 table rows, re-checked by `norm_num`), `Lemmas/CossinAccMain.lean` (assembly over the
eight octants, using the closed form `cossinVal` from `Lemmas/CossinCore.lean`).

The reference amplitude is the one of the crate's own test, `A = 2^31 − 0.85·2^15 = 2147455795.2`; the phase `p`
stands for the angle `p·π/2^31` (`i32::MIN ↦ −π`).
-/
namespace Idsp
open Real

/-- the nominal amplitude used by the crate's test `cossin_error_max_rms_all_phase` -/
noncomputable def cossinAmplitude : ℝ := 2 ^ 31 - 0.85 * 2 ^ 15

theorem cossinAmplitude_eq : cossinAmplitude = 2147483648 - 27852.8 := by unfold cossinAmplitude; norm_num

private theorem amp_eq : cossinAmplitude = 2147455795.2 := by unfold cossinAmplitude; norm_num

private theorem scaled {v : ℤ} {y : ℝ} (h : |(v:ℝ) - 2147455795.2 * y| ≤ 9.1e-6 * 2147455795.2) :
    |(v:ℝ) / cossinAmplitude - y| ≤ 9.1e-6 := by
  rw [amp_eq]
  have hA : (0:ℝ) < 2147455795.2 := by norm_num
  have e : (v:ℝ) / 2147455795.2 - y = ((v:ℝ) - 2147455795.2 * y) / 2147455795.2 := by
    field_simp
  rw [e, abs_div, abs_of_pos hA, div_le_iff₀ hA]
  exact h

/-- ACCURACY, sharp form. For every `i32` phase `p`, in either build mode, `cossin p = (c, s)` satisfies
    `|c/A − cos(p·π/2^31)| ≤ 9.1e-6` and `|s/A − sin(p·π/2^31)| ≤ 9.1e-6` against Mathlib's real `cos`, `sin`, `π`,
    with `A = 2^31 − 0.85·2^15`. All `2^32` phases are covered (the 7 low phase bits the function ignores and the
    1-LSB shift of the complemented odd octants are accounted for exactly, not by a Lipschitz allowance).
    The exhaustive native maximum is `9.0232e-6`, see `cossin_accuracy_tight`. -/
theorem cossin_accuracy_sharp (m : Mode) (p : Int) (hp : inI 32 p = true) (c s : Int)
    (h : cossin m p = .ok (c, s)) :
    |(c:ℝ) / cossinAmplitude - cos ((p:ℝ) * π / 2 ^ 31)| ≤ 9.1e-6 ∧
    |(s:ℝ) / cossinAmplitude - sin ((p:ℝ) * π / 2 ^ 31)| ≤ 9.1e-6 := by
  rw [cossin_eq_val m hp] at h
  have hv : cossinVal p = (c, s) := Except.ok.inj h
  have := cossinAcc_val p
  rw [hv] at this
  exact ⟨scaled this.1, scaled this.2⟩

/-- the accuracy clause of C01 as requested: error below `1e-5` in each quadrature for every 32-bit phase -/
def cossin_accuracy_full : Prop :=
  ∀ p : Int, inI 32 p = true → ∀ c s : Int, cossin .checked p = .ok (c, s) →
    |(c:ℝ) / (2147483648 - 27852.8) - Real.cos ((p:ℝ) * π / 2 ^ 31)| < 1e-5 ∧
    |(s:ℝ) / (2147483648 - 27852.8) - Real.sin ((p:ℝ) * π / 2 ^ 31)| < 1e-5

/-- ACCURACY. For every `i32` phase `p`, `cossin p = (c, s)` (checked build; the release build returns the same
    pair, `cossin_mode_irrelevant` in `Props/C01.lean`) satisfies `|c/A − cos(p·π/2^31)| < 1e-5` and
    `|s/A − sin(p·π/2^31)| < 1e-5`, `A = 2^31 − 0.85·2^15 = 2147483648 − 27852.8`. -/
theorem cossin_accuracy (p : Int) (hp : inI 32 p = true) (c s : Int) (h : cossin .checked p = .ok (c, s)) :
    |(c:ℝ) / (2147483648 - 27852.8) - Real.cos ((p:ℝ) * π / 2 ^ 31)| < 1e-5 ∧
    |(s:ℝ) / (2147483648 - 27852.8) - Real.sin ((p:ℝ) * π / 2 ^ 31)| < 1e-5 := by
  have := cossin_accuracy_sharp .checked p hp c s h
  rw [cossinAmplitude_eq] at this
  have e : (9.1e-6 : ℝ) < 1e-5 := by norm_num
  exact ⟨lt_of_le_of_lt this.1 e, lt_of_le_of_lt this.2 e⟩

/-- the full statement holds -/
theorem cossin_accuracy_full_holds : cossin_accuracy_full := cossin_accuracy

/-- TIGHTNESS of the constant: at phase `448790656` (first octant, `θ ≈ 0.6565 rad`; the arg-max found by the
    exhaustive native scan) the sine output is `s = 1310789790` and `s/A − sin θ > 9.02e-6`. So no bound below
    `9.02e-6` holds, and the certified `9.1e-6` is within 1 % of the true maximum `9.0232e-6`. -/
theorem cossin_accuracy_tight :
    cossin .checked 448790656 = .ok (1701009922, 1310789790) ∧
    9.02e-6 < (1310789790 : ℝ) / cossinAmplitude - sin ((448790656 : ℝ) * π / 2 ^ 31) := by
  refine ⟨by decide +kernel, ?_⟩
  have hpl := pi_gt_d20
  have hph := pi_lt_d20
  have h0 : (0:ℝ) ≤ 448790656 * 3.141592653589793 / 2 ^ 31 := by norm_num
  have h1 : (448790656:ℝ) * 3.141592653589793 / 2 ^ 31 ≤ 448790656 * π / 2 ^ 31 := by
    apply div_le_div_of_nonneg_right _ (by norm_num); linarith
  have h2 : (448790656:ℝ) * π / 2 ^ 31 ≤ 448790656 * 3.141592653589794 / 2 ^ 31 := by
    apply div_le_div_of_nonneg_right _ (by norm_num); linarith
  have h3 : (448790656:ℝ) * 3.141592653589794 / 2 ^ 31 ≤ 1 := by norm_num
  have hs := (cossinAcc_enclosure h0 h1 h2 h3).2.2.2
  have hn : cossinAccSinP (448790656 * 3.141592653589794 / 2 ^ 31) + 13 / 1000000000000
      < (1310789790 : ℝ) / 2147455795.2 - 9.02e-6 := by
    norm_num [cossinAccSinP]
  rw [amp_eq]
  linarith

/-! ### non-vacuity (tests, not part of the property) -/

/-- the hypotheses of `cossin_accuracy` are satisfiable at every `i32` phase (`cossin_total` in `Props/C01.lean`);
    two concrete instances -/
example : |((2147454703 : ℤ) : ℝ) / (2147483648 - 27852.8) - Real.cos (((0 : ℤ) : ℝ) * π / 2 ^ 31)| < 1e-5 :=
  (cossin_accuracy 0 (by decide) 2147454703 (-1898) (by decide +kernel)).1
example : |((-1310789790 : ℤ) : ℝ) / (2147483648 - 27852.8) - Real.sin (((-448790657 : ℤ) : ℝ) * π / 2 ^ 31)| < 1e-5 :=
  (cossin_accuracy (-448790657) (by decide) 1701009922 (-1310789790) (by decide +kernel)).2
/-- the amplitude matters: `0.85` is part of the claim (`cossinAmplitude` is not `2^31`) -/
example : cossinAmplitude = 2147455795.2 := by unfold cossinAmplitude; norm_num

end Idsp
