import IdspModel.Lemmas.RpllLockDrive
/-! From the phase-loop invariant to bounds on the two outputs (returned frequency and phase). -/
namespace Idsp

/-- `Σ·|ff·P − T + P·(W >> σ)| ≤ Σ·Ub + P·(|W| + Σ)` -/
theorem rpll_f_err (P T Sg Ub ff W f : Int) (hP : 0 < P) (hSg : 0 < Sg) (hu : |ff * P - T| ≤ Ub)
    (hf : f = ff + W / Sg) : Sg * |f * P - T| ≤ Sg * Ub + P * (|W| + Sg) := by
  have e := Int.mul_ediv_add_emod W Sg
  have r0 := Int.emod_nonneg W (show Sg ≠ 0 by omega)
  have r1 := Int.emod_lt_of_pos W hSg
  have h1 : Sg * (f * P - T) = Sg * (ff * P - T) + P * (W - W % Sg) := by rw [hf]; linear_combination P * e
  have h2 : |W - W % Sg| ≤ |W| + Sg := by
    have := abs_sub W (W % Sg)
    have : |W % Sg| = W % Sg := abs_of_nonneg r0
    linarith
  calc Sg * |f * P - T| = |Sg * (f * P - T)| := by rw [abs_mul, abs_of_pos hSg]
    _ = |Sg * (ff * P - T) + P * (W - W % Sg)| := by rw [h1]
    _ ≤ |Sg * (ff * P - T)| + |P * (W - W % Sg)| := abs_add_le _ _
    _ = Sg * |ff * P - T| + P * |W - W % Sg| := by rw [abs_mul, abs_mul, abs_of_pos hSg, abs_of_pos hP]
    _ ≤ Sg * Ub + P * (|W| + Sg) := by
        have := mul_le_mul_of_nonneg_left hu hSg.le
        have := mul_le_mul_of_nonneg_left h2 hP.le
        linarith

/-- phase error of the state before update `n+1` (= output of update `n`) under the phase invariant -/
theorem rpll_y_err (c : RpllCfg) (g : c.Good) (m0 n : Nat) (s : RPLL) (e : Nat) (W Wp fo : Int)
    (hp : c.PInv m0 (n + 1) s e W Wp fo) :
    c.D * (c.P * |c.err n s.y|) ≤
      c.D * c.P * |W| + c.D * |fo * c.P - c.T| + c.P * c.D * c.D + c.P * |s.f * c.P - c.T| + c.D * c.P := by
  obtain ⟨h1, h2, h3, h4, h5, h6, h7, h8, h9, k, hk⟩ := hp
  obtain ⟨hP0, -, -, -, -, -, -, -, -, -, -⟩ := g.toAdm.facts
  have hD0 : 0 < c.D := by unfold RpllCfg.D; positivity
  have hT : c.T = 2 ^ 32 * c.D := by unfold RpllCfg.T RpllCfg.D; rw [pow_add]
  have hre0 : 0 ≤ c.r e := Int.emod_nonneg _ (by omega)
  rw [show ((n + 1 : Nat) : Int) - 1 = (n : Int) by push_cast; ring, rpll_lastEdge_r, rpll_lastEdge_r] at h3
  rw [show ((n + 1 : Nat) : Int) - 1 - e = (n : Int) - e by push_cast; ring] at hk
  have hj0 : 0 ≤ (n : Int) - e := by omega
  have hrn1 : c.r n < c.P := Int.emod_lt_of_pos _ hP0
  -- the reference phase
  have hφ : c.phaseRef n = c.r n * 2 ^ 32 / c.P := rfl
  have eφ := Int.mul_ediv_add_emod (c.r n * 2 ^ 32) c.P
  have μ0 := Int.emod_nonneg (c.r n * 2 ^ 32) (show c.P ≠ 0 by omega)
  have μ1 := Int.emod_lt_of_pos (c.r n * 2 ^ 32) hP0
  have hfoD := Int.mul_ediv_add_emod fo c.D
  have b0 := Int.emod_nonneg fo (show c.D ≠ 0 by omega)
  have b1 := Int.emod_lt_of_pos fo hD0
  obtain ⟨k2, hk2⟩ := wrapI_eq_sub 32 (s.y - c.phaseRef n)
  have hin := inI_iff.mp (wrapI_in (by decide : 0 < 32) (s.y - c.phaseRef n))
  unfold RpllCfg.err
  set E := wrapI 32 (s.y - c.phaseRef n) with hE
  set A := fo / c.D
  set b := fo % c.D
  set μ := c.r n * 2 ^ 32 % c.P
  set j := (n : Int) - e
  -- P·(E + (k2 + k)·2^32) = X
  have hX : c.P * (E + (k2 + k) * 2 ^ 32)
      = -(c.P * W) + c.r e * (c.P * A - 2 ^ 32) + j * (s.f * c.P - c.T) + μ := by
    rw [hk2, hφ]
    have hr : c.r n = c.r e + j * c.D := by linarith
    linear_combination c.P * hk - eφ - (2 ^ 32 : Int) * hr + j * hT
  have hle : |E| ≤ |E + (k2 + k) * 2 ^ 32| :=
    abs_wrap_le E _ (k2 + k) (by simpa using hin.1) (by simpa using hin.2) rfl
  have h10 : c.P * |E| ≤ |c.P * (E + (k2 + k) * 2 ^ 32)| := by
    rw [abs_mul, abs_of_pos hP0]; exact mul_le_mul_of_nonneg_left hle hP0.le
  rw [hX] at h10
  -- the r_e term
  have hA : c.D * (c.P * A - 2 ^ 32) = (fo * c.P - c.T) - c.P * b := by
    rw [hT]; linear_combination c.P * hfoD
  have t2 : c.D * |c.r e * (c.P * A - 2 ^ 32)| ≤ c.D * (|fo * c.P - c.T| + c.P * c.D) := by
    have e1 : c.D * |c.r e * (c.P * A - 2 ^ 32)| = c.r e * |c.D * (c.P * A - 2 ^ 32)| := by
      rw [abs_mul, abs_mul, abs_of_pos hD0, abs_of_nonneg hre0]; ring
    rw [e1, hA]
    have a1 : |fo * c.P - c.T - c.P * b| ≤ |fo * c.P - c.T| + c.P * c.D := by
      have := abs_sub (fo * c.P - c.T) (c.P * b)
      have : |c.P * b| = c.P * b := abs_of_nonneg (mul_nonneg hP0.le b0)
      have : c.P * b ≤ c.P * c.D := mul_le_mul_of_nonneg_left b1.le hP0.le
      linarith
    have a2 : 0 ≤ |fo * c.P - c.T| + c.P * c.D := by positivity
    calc c.r e * |fo * c.P - c.T - c.P * b| ≤ c.r e * (|fo * c.P - c.T| + c.P * c.D) :=
          mul_le_mul_of_nonneg_left a1 hre0
      _ ≤ c.D * (|fo * c.P - c.T| + c.P * c.D) := mul_le_mul_of_nonneg_right h2.le a2
  -- the j term: j·D < P
  have hjD : j * c.D ≤ c.P := by linarith
  have t3 : c.D * |j * (s.f * c.P - c.T)| ≤ c.P * |s.f * c.P - c.T| := by
    rw [abs_mul, abs_of_nonneg hj0]
    have := mul_le_mul_of_nonneg_right hjD (abs_nonneg (s.f * c.P - c.T))
    linarith
  have tri : ∀ a b c d : Int, |a + b + c + d| ≤ |a| + |b| + |c| + |d| := by
    intro a b c d
    have := abs_add_le (a + b + c) d
    have := abs_add_le (a + b) c
    have := abs_add_le a b
    linarith
  have h11 := tri (-(c.P * W)) (c.r e * (c.P * A - 2 ^ 32)) (j * (s.f * c.P - c.T)) μ
  have t1 : |-(c.P * W)| = c.P * |W| := by rw [abs_neg, abs_mul, abs_of_pos hP0]
  have t4 : |μ| ≤ c.P := by rw [abs_of_nonneg μ0]; exact μ1.le
  have h12 : c.D * (c.P * |E|) ≤ c.D * (c.P * |W| + |c.r e * (c.P * A - 2 ^ 32)|
      + |j * (s.f * c.P - c.T)| + c.P) :=
    mul_le_mul_of_nonneg_left (by linarith) hD0.le
  linarith

end Idsp
