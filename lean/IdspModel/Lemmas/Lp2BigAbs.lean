import IdspModel.Lemmas.Lp2Big
import IdspModel.Lemmas.Lp2BigCert
/-!
# Second-order lowpass, large upward step, abstract centred sequence: the approach phase and its end state

For EVERY documented Butterworth pair: the approach phase ends at some index `n1`;
during it the error stays in `[thr, Emax]` and the velocity in `[−S0, ST]`; at its end (and one step before) the
quadratic form is below the level `bgVH`, whose sector radius is `bgRH` (`< 2^30` LSB).
-/
namespace Idsp
set_option linter.unusedVariables false

theorem lp2_big_abstract {k a b : Int} (h : Lp2Butter k a b)
    (e s : Nat → Int)
    (he0 : 2 * a * 4294967296 * 804782080 ≤ e 0) (he1 : e 0 ≤ 2 * a * 4294967296 * 2148007936)
    (hs0 : -bgS0 a ≤ s 0) (hs1 : s 0 ≤ bgS0 a)
    (hrel : ∀ n, bgUC a b ≤ a * e n → e n ≤ bgEmax a b (e 0) →
      Lp2Rel a b (bgUC a b) (e n) (s n) (e (n + 1)) (s (n + 1))) :
    ∃ n1 : Nat, 1 ≤ n1 ∧
      (∀ j, j < n1 → bgThr a b ≤ e j ∧ e j ≤ bgEmax a b (e 0) ∧ -bgS0 a ≤ s j ∧ s j ≤ bgST a b (e 0) ∧
        Lp2Rel a b (bgUC a b) (e j) (s j) (e (j + 1)) (s (j + 1))) ∧
      bgThr a b - 2 * bgST a b (e 0) ≤ e n1 ∧ e n1 < bgThr a b ∧
      -bgS0 a ≤ s n1 ∧ s n1 ≤ bgST a b (e 0) ∧
      lp2Q a b (e n1) (s n1) ≤ bgVH a b ∧ lp2Q a b (e (n1 - 1)) (s (n1 - 1)) ≤ bgVH a b := by
  have ha := h.a_ge; have hbg := h.b_ge; have hbl := h.b_le
  have ha0 : 0 < a := by omega
  have hb0 : 0 < b := by omega
  have hA := h.adm
  obtain ⟨hUC0, hthr, hS00, hG0, hEmax, hST, hS0T, hg, -, -, -⟩ := bg_basic h he0
  have hbb : 4294967296 < 2 * b ^ 2 := by nlinarith
  -- N and J
  have hq0 : 0 ≤ 4294967296 / b := Int.ediv_nonneg (by norm_num) (le_of_lt hb0)
  have hqJ0 : 0 ≤ (4294967296 + b) / (2 * b) := Int.ediv_nonneg (by omega) (by omega)
  obtain ⟨N, hN⟩ : ∃ N : Nat, (N : Int) = 4294967296 / b := ⟨(4294967296 / b).toNat, by omega⟩
  obtain ⟨J, hJ⟩ : ∃ J : Nat, (J : Int) = (4294967296 + b) / (2 * b) := ⟨((4294967296 + b) / (2 * b)).toNat, by omega⟩
  have hbN : b * N ≤ 4294967296 := by
    rw [hN]; have := Int.ediv_mul_le 4294967296 (show b ≠ 0 by omega); linarith
  have hNb : 4294967296 < b * (N + 1) := by
    rw [hN]; have := Int.lt_ediv_add_one_mul_self 4294967296 hb0; linarith
  have hJ1 : 2 * b * J ≤ 4294967296 + b := by
    rw [hJ]; have := Int.ediv_mul_le (4294967296 + b) (show 2 * b ≠ 0 by omega); linarith
  have hJ2 : 4294967296 - b ≤ 2 * b * J := by
    rw [hJ]; have := Int.lt_ediv_add_one_mul_self (4294967296 + b) (show 0 < 2 * b by omega); linarith
  have hN2 : 2 ≤ N := by
    have : b * 2 < b * ((N : Int) + 1) := by nlinarith
    have := lt_of_mul_lt_mul_left this (le_of_lt hb0)
    omega
  have hJN : J ≤ N := by
    have : b * (2 * (J : Int)) < b * ((N : Int) + 2) := by nlinarith
    have := lt_of_mul_lt_mul_left this (le_of_lt hb0)
    omega
  have hNle : N ≤ 65536 := by
    by_contra hc
    have : (65537 : Int) ≤ N := by exact_mod_cast (by omega : 65537 ≤ N)
    have : b * 65537 ≤ b * N := mul_le_mul_of_nonneg_left this (le_of_lt hb0)
    omega
  have hlen := bg_len (N := (N : Int)) (J := (J : Int)) h he0 (by positivity) hbN (by positivity) hJ1 hJ2
    (by exact_mod_cast hJN)
  -- the phase ends
  obtain ⟨n1, hph, hend⟩ := lp2_exit ha0 hb0 hbl hUC0 e s (bgEmax a b (e 0)) hrel (bgS0 a) (bgST a b (e 0))
    (bgG a b (e 0)) (bgThr a b) hs0 hs1 hS00 hG0 hEmax hST hS0T hg hthr hbb
  obtain ⟨hNn1, hfacts, hlow, hsl, hsu⟩ := lp2_exit_facts ha0 hb0 hbl hUC0 e s (bgEmax a b (e 0)) hrel (bgS0 a)
    (bgST a b (e 0)) (bgG a b (e 0)) (bgThr a b) hs0 hs1 hS00 hG0 hEmax hST hS0T hg hthr J N hJN hlen n1 hph hend
  -- decay
  obtain ⟨hK0, hKs, -⟩ := bg_K_spec h
  obtain ⟨hBA, hLev⟩ := bg_level h
  have hKU : (32 * 4294967296) * (b + 32 * 4294967296) * (4 * 4294967296 * bgUC a b ^ 2)
      ≤ b * (32 * 4294967296) * 4294967296 ^ 2 * bgK a b := by
    have := mul_le_mul_of_nonneg_left hKs (show (0 : Int) ≤ 32 * 4294967296 * 4294967296 by norm_num)
    have e1 : 32 * 4294967296 * 4294967296 * (4 * (b + 32 * 4294967296) * bgUC a b ^ 2)
        = (32 * 4294967296) * (b + 32 * 4294967296) * (4 * 4294967296 * bgUC a b ^ 2) := by ring
    have e2 : 32 * 4294967296 * 4294967296 * (b * 4294967296 * bgK a b)
        = b * (32 * 4294967296) * 4294967296 ^ 2 * bgK a b := by ring
    linarith
  have hD0 : 0 ≤ lp2Disc a b := le_of_lt hA.hD
  have hrel' : ∀ j, j < n1 → Lp2Rel a b (bgUC a b) (e j) (s j) (e (j + 1)) (s (j + 1)) :=
    fun j hj => (hfacts j hj).2.2.2
  obtain ⟨hdec, hinv⟩ := lp2_exit_V ha0 hD0 hb0 hbl e s n1 hrel' b (32 * 4294967296) (bgK a b) hb0 (by norm_num) hK0
    hKU hBA
  obtain ⟨-, hinv'⟩ := lp2_exit_V ha0 hD0 hb0 hbl e s (n1 - 1) (fun j hj => hrel' j (by omega)) b (32 * 4294967296)
    (bgK a b) hb0 (by norm_num) hK0 hKU hBA
  -- V_N ≤ VH
  have hVN : lp2Q a b (e N) (s N) ≤ bgVH a b :=
    bg_cert (N := N) h hbN hNb he0 he1 hs0 hs1 (hdec N (by omega))
  refine ⟨n1, by omega, fun j hj => ?_, hlow, hend, hsl, hsu, ?_, ?_⟩
  · obtain ⟨f1, f2, f3, f4⟩ := hfacts j hj
    exact ⟨hph j hj, f1, f2, f3, f4⟩
  · exact hinv (bgVH a b) N hLev (by omega) hVN
  · exact hinv' (bgVH a b) N hLev (by omega) hVN

end Idsp
