import IdspModel.Props.C17
