import IdspModel.Lemmas.HbfCascade
import IdspModel.Lemmas.HbfIndex
import IdspModel.Lemmas.HbfExamples
/-!
# C14 — half-band filters: block-partition invariance, output counts, no out-of-range access

Property theorems only (definitions and helper lemmas live in `IdspModel/Lemmas/Hbf*.lean`).

The model (`IdspModel/Model/Hbf.lean`) is over an arbitrary carrier `α` with uninterpreted operations
`Ops α`.  No theorem in this file assumes any law about `add`, `mul`, `sum`, `half`, so everything applies
verbatim to IEEE `f32`/`f64` (non-associative `+`) and to wrapping integers: "equal" below is equality of the
`α`-values, i.e. bit-identical results.

Vocabulary (all defined in `Lemmas/HbfStage.lean`, `HbfRun.lean`, `HbfChain.lean`, `HbfCascade.lean`):
* `HbfDec.WF d`: `M = taps.len() ≥ 1`, both buffers have the same length `N ≥ 2M`.
  `HbfDec.Adm d x`: `x.len()` even and `≤ block_size().1 = 2(N-(2M-1))`.
  `HbfDec.abs d`: (first `M-1` items of `even`, first `2M-1` items of `odd.x`) — the input history.
  `hbfDecSpec o taps he ho x`: outputs as a function of history and block only; `decNext`: next history
  (the last `M-1` / `2M-1` items of history ++ even- and odd-phase items of the block).
* `HbfInt.WF`, `HbfInt.Adm d x` (`2·x.len() ≤ block_size().1`), `HbfInt.abs`, `hbfIntSpec`, `intNext` likewise.
* `d.run o bs`: call `process_block` once per block of `bs`, in order; returns final state and list of outputs.
* cascades: `c.active` = the stages in use in application order, `c.Adm x` = the block and every intermediate
  block is admissible for the stage that sees it.

In-place versus separate input buffer: the model takes the input block by value, so `process_block(None, y)`
and `process_block(Some(x), y)` are literally the same function of the model; their agreement on real slices is
checked by differential testing of the Rust code, not here.
-/
namespace Idsp
variable {α : Type}

/-! ## single decimator -/

/-- Refinement, one `HbfDec::process_block` call on a well-formed state and an admissible block: the returned
    items are `hbfDecSpec` of (input history, block), the new history is `decNext` (last `M-1` even-phase and last
    `2M-1` odd-phase items of history ++ block), taps, well-formedness and `block_size()` are unchanged.  The stale
    tail of the buffers never matters. -/
theorem hbfdec_process_refines (o : Ops α) (d : HbfDec α) (wf : d.WF) (x : List α) (adm : d.Adm x) :
    (d.process o x).2 = hbfDecSpec o d.odd.taps d.abs.1 d.abs.2 x ∧
    (d.process o x).1.abs = decNext d.odd.taps.length d.abs.1 d.abs.2 x ∧
    (d.process o x).1.odd.taps = d.odd.taps ∧
    (d.process o x).1.WF ∧
    (d.process o x).1.blockMax = d.blockMax :=
  ⟨HbfDec.process_out o d wf x adm, HbfDec.process_abs o d wf x adm, (HbfDec.process_frame o d wf x adm).1,
   HbfDec.process_wf o d wf x adm, HbfDec.process_blockMax o d wf x adm⟩

/-- what `hbfDecSpec` says, item by item: output `i` is `half(e[i] + Σ_j (o[i+j] + o[i+2M-1-j])·taps[j])` where `e` /
    `o` are the even- and odd-phase items of history ++ block (`firTap` is the literal `SymFir::get` closure applied to
    the window `o[i .. i+2M]`) -/
theorem hbfdec_spec_item (o : Ops α) (taps he ho x : List α) (hm : 1 ≤ taps.length)
    (h1 : he.length = taps.length - 1) (h2 : ho.length = 2 * taps.length - 1) (i : Nat) (hi : i < x.length / 2) :
    (hbfDecSpec o taps he ho x)[i]'(by rw [decSpec_length o taps he ho x hm h1 h2]; exact hi) =
      o.half (o.add ((he ++ evens x)[i]'(by simp [evens_length]; omega))
        (firTap o taps (((ho ++ odds x).drop i).take (2 * taps.length)))) :=
  decSpec_getElem o taps he ho x hm h1 h2 i hi

/-- two decimator states with the same taps and the same input history (possibly different buffer lengths and
    stale tails) return the same items for the same block and have the same history afterwards -/
theorem hbfdec_depends_only_on_history (o : Ops α) (d1 d2 : HbfDec α) (wf1 : d1.WF) (wf2 : d2.WF)
    (ht : d1.odd.taps = d2.odd.taps) (ha : d1.abs = d2.abs) (x : List α) (a1 : d1.Adm x) (a2 : d2.Adm x) :
    (d1.process o x).2 = (d2.process o x).2 ∧ (d1.process o x).1.abs = (d2.process o x).1.abs := by
  rw [HbfDec.process_out o d1 wf1 x a1, HbfDec.process_out o d2 wf2 x a2,
    HbfDec.process_abs o d1 wf1 x a1, HbfDec.process_abs o d2 wf2 x a2, ht, ha]
  exact ⟨rfl, rfl⟩

/-- Output count and "no index out of range", `HbfDec::process_block` (`k = x.len()/2`): exactly `k` items are
    returned, and every slice expression of the Rust code is in range: `even[M-1..][..k]`, `buf_mut()[..k]`
    (`= odd.x[2M-1..][..k]`), `even[..k]`, `copy_within(k..k+M-1, 0)`, `keep_state(k)` (`k..k+2M-1`); the
    `windows(2M)` iterator yields at least `k` items, so the `zip` is not cut short by it. -/
theorem hbfdec_output_length_in_range (o : Ops α) (d : HbfDec α) (wf : d.WF) (x : List α) (adm : d.Adm x) :
    (d.process o x).2.length = x.length / 2 ∧
    (evens x).length = x.length / 2 ∧ (odds x).length = x.length / 2 ∧
    d.odd.taps.length - 1 + x.length / 2 ≤ d.even.length ∧
    2 * d.odd.taps.length - 1 + x.length / 2 ≤ d.odd.x.length ∧
    x.length / 2 + (d.odd.taps.length - 1) ≤ d.even.length ∧
    x.length / 2 + (2 * d.odd.taps.length - 1) ≤ d.odd.x.length ∧
    x.length / 2 ≤ ((d.odd.load (odds x)).get o).length := by
  have hl : (d.process o x).2.length = x.length / 2 := by
    rw [HbfDec.process_out o d wf x adm]
    exact decSpec_length o _ _ _ _ wf.taps_pos (d.abs_length wf).1 (d.abs_length wf).2
  obtain ⟨hm, hle, hge⟩ := wf
  have hadm : x.length ≤ 2 * (d.even.length - (2 * d.odd.taps.length - 1)) := adm.2
  have hw := windows_length (2 * d.odd.taps.length) (by omega)
    (List.take (2 * d.odd.taps.length - 1) d.odd.x ++ odds x ++
      List.drop (2 * d.odd.taps.length - 1 + (odds x).length) d.odd.x)
  refine ⟨hl, evens_length x, odds_length x, by omega, by omega, by omega, by omega, ?_⟩
  simp only [SymFir.get, SymFir.load, splice, List.length_map, hw]
  simp [odds_length]; omega

/-- General block-partition invariance, `HbfDec`: feeding a list of admissible blocks (empty blocks allowed) gives,
    concatenated, exactly `hbfDecSpec` of the concatenated input, and the final history is `decNext` of the
    concatenated input; the state stays well-formed with the same `block_size()`, and call `j` returns
    `len(block j)/2` items. -/
theorem hbfdec_blocks_spec (o : Ops α) (d : HbfDec α) (wf : d.WF) (bs : List (List α))
    (adm : ∀ b ∈ bs, d.Adm b) :
    (d.run o bs).2.flatten = hbfDecSpec o d.odd.taps d.abs.1 d.abs.2 bs.flatten ∧
    (d.run o bs).1.abs = decNext d.odd.taps.length d.abs.1 d.abs.2 bs.flatten ∧
    (d.run o bs).1.WF ∧ (d.run o bs).1.odd.taps = d.odd.taps ∧ (d.run o bs).1.blockMax = d.blockMax ∧
    (d.run o bs).2.map List.length = bs.map (fun b => b.length / 2) :=
  HbfDec.run_spec o d wf bs adm

/-- `HbfDec`: any two ways of cutting the same stream into admissible blocks (including empty ones) give the same
    concatenated output and the same final input history (hence the same behaviour ever after, by
    `hbfdec_depends_only_on_history`). -/
theorem hbfdec_partition_invariant (o : Ops α) (d : HbfDec α) (wf : d.WF) (bs1 bs2 : List (List α))
    (h : bs1.flatten = bs2.flatten) (adm1 : ∀ b ∈ bs1, d.Adm b) (adm2 : ∀ b ∈ bs2, d.Adm b) :
    (d.run o bs1).2.flatten = (d.run o bs2).2.flatten ∧ (d.run o bs1).1.abs = (d.run o bs2).1.abs := by
  obtain ⟨a1, a2, _⟩ := HbfDec.run_spec o d wf bs1 adm1
  obtain ⟨b1, b2, _⟩ := HbfDec.run_spec o d wf bs2 adm2
  rw [a1, a2, b1, b2, h]; exact ⟨rfl, rfl⟩

/-- `dec_block_append`: if `b1`, `b2` and `b1 ++ b2` are all admissible, one call on `b1 ++ b2` returns the outputs
    of the call on `b1` followed by those of the subsequent call on `b2`, and ends with the same history. -/
theorem hbfdec_block_append (o : Ops α) (d : HbfDec α) (wf : d.WF) (b1 b2 : List α)
    (a1 : d.Adm b1) (a2 : d.Adm b2) (a12 : d.Adm (b1 ++ b2)) :
    (d.process o (b1 ++ b2)).2 = (d.process o b1).2 ++ ((d.process o b1).1.process o b2).2 ∧
    (d.process o (b1 ++ b2)).1.abs = ((d.process o b1).1.process o b2).1.abs := by
  have := hbfdec_partition_invariant o d wf [b1 ++ b2] [b1, b2] (by simp)
    (by simpa using a12) (by simp [a1, a2])
  simpa [HbfDec.run_cons, HbfDec.run_nil] using this

/-! ## single interpolator -/

/-- Refinement, one `HbfInt::process_block` call (well-formed state, admissible block): outputs are `hbfIntSpec` of
    (input history, block), new history is the last `2M-1` items of history ++ block; taps, well-formedness and
    `block_size()` are unchanged. -/
theorem hbfint_process_refines (o : Ops α) (d : HbfInt α) (wf : d.WF) (x : List α) (adm : d.Adm x) :
    (d.process o x).2 = hbfIntSpec o d.fir.taps d.abs x ∧
    (d.process o x).1.abs = intNext d.fir.taps.length d.abs x ∧
    (d.process o x).1.fir.taps = d.fir.taps ∧
    (d.process o x).1.WF ∧
    (d.process o x).1.blockMax = d.blockMax :=
  ⟨HbfInt.process_out o d wf x adm, HbfInt.process_abs o d wf x adm, (HbfInt.process_frame o d wf x adm).1,
   HbfInt.process_wf o d wf x adm, HbfInt.process_blockMax o d wf x adm⟩

/-- what `hbfIntSpec` says, item by item (`s` = history ++ block): output `2i` is the symmetric FIR over
    `s[i .. i+2M]`, output `2i+1` is `s[M+i]` (centre tap, identity) -/
theorem hbfint_spec_item (o : Ops α) (taps h x : List α) (hm : 1 ≤ taps.length)
    (h1 : h.length = 2 * taps.length - 1) (i : Nat) (hi : i < x.length) :
    (hbfIntSpec o taps h x)[2 * i]'(by rw [intSpec_length o taps h x hm h1]; omega) =
      firTap o taps (((h ++ x).drop i).take (2 * taps.length)) ∧
    (hbfIntSpec o taps h x)[2 * i + 1]'(by rw [intSpec_length o taps h x hm h1]; omega) =
      (h ++ x)[taps.length + i]'(by simp [h1]; omega) :=
  intSpec_getElem o taps h x hm h1 i hi

theorem hbfint_depends_only_on_history (o : Ops α) (d1 d2 : HbfInt α) (wf1 : d1.WF) (wf2 : d2.WF)
    (ht : d1.fir.taps = d2.fir.taps) (ha : d1.abs = d2.abs) (x : List α) (a1 : d1.Adm x) (a2 : d2.Adm x) :
    (d1.process o x).2 = (d2.process o x).2 ∧ (d1.process o x).1.abs = (d2.process o x).1.abs := by
  rw [HbfInt.process_out o d1 wf1 x a1, HbfInt.process_out o d2 wf2 x a2,
    HbfInt.process_abs o d1 wf1 x a1, HbfInt.process_abs o d2 wf2 x a2, ht, ha]
  exact ⟨rfl, rfl⟩

/-- Output count and "no index out of range", `HbfInt::process_block` (`k = x.len()` input items): exactly `2k`
    items are returned, and `buf_mut()[..k]` (`= fir.x[2M-1..][..k]`), `fir.x[M..][..k]`, `keep_state(k)`
    (`k..k+2M-1`) are in range; `windows(2M)` yields at least `k` items, so no `zip` is cut short. -/
theorem hbfint_output_length_in_range (o : Ops α) (d : HbfInt α) (wf : d.WF) (x : List α) (adm : d.Adm x) :
    (d.process o x).2.length = 2 * x.length ∧
    2 * d.fir.taps.length - 1 + x.length ≤ d.fir.x.length ∧
    d.fir.taps.length + x.length ≤ d.fir.x.length ∧
    x.length + (2 * d.fir.taps.length - 1) ≤ d.fir.x.length ∧
    x.length ≤ ((d.fir.load x).get o).length := by
  have hl : (d.process o x).2.length = 2 * x.length := by
    rw [HbfInt.process_out o d wf x adm]
    exact intSpec_length o _ _ _ wf.taps_pos (d.abs_length wf)
  obtain ⟨hm, hge⟩ := wf
  have hadm : 2 * x.length ≤ 2 * (d.fir.x.length - (2 * d.fir.taps.length - 1)) := adm
  have hw := windows_length (2 * d.fir.taps.length) (by omega)
    (List.take (2 * d.fir.taps.length - 1) d.fir.x ++ x ++
      List.drop (2 * d.fir.taps.length - 1 + x.length) d.fir.x)
  refine ⟨hl, by omega, by omega, by omega, ?_⟩
  simp only [SymFir.get, SymFir.load, splice, List.length_map, hw]
  simp; omega

/-- General block-partition invariance, `HbfInt` (empty blocks allowed). -/
theorem hbfint_blocks_spec (o : Ops α) (d : HbfInt α) (wf : d.WF) (bs : List (List α))
    (adm : ∀ b ∈ bs, d.Adm b) :
    (d.run o bs).2.flatten = hbfIntSpec o d.fir.taps d.abs bs.flatten ∧
    (d.run o bs).1.abs = intNext d.fir.taps.length d.abs bs.flatten ∧
    (d.run o bs).1.WF ∧ (d.run o bs).1.fir.taps = d.fir.taps ∧ (d.run o bs).1.blockMax = d.blockMax ∧
    (d.run o bs).2.map List.length = bs.map (fun b => 2 * b.length) :=
  HbfInt.run_spec o d wf bs adm

/-- `HbfInt`: any two ways of cutting the same stream into admissible blocks give the same concatenated output and
    the same final input history. -/
theorem hbfint_partition_invariant (o : Ops α) (d : HbfInt α) (wf : d.WF) (bs1 bs2 : List (List α))
    (h : bs1.flatten = bs2.flatten) (adm1 : ∀ b ∈ bs1, d.Adm b) (adm2 : ∀ b ∈ bs2, d.Adm b) :
    (d.run o bs1).2.flatten = (d.run o bs2).2.flatten ∧ (d.run o bs1).1.abs = (d.run o bs2).1.abs := by
  obtain ⟨a1, a2, _⟩ := HbfInt.run_spec o d wf bs1 adm1
  obtain ⟨b1, b2, _⟩ := HbfInt.run_spec o d wf bs2 adm2
  rw [a1, a2, b1, b2, h]; exact ⟨rfl, rfl⟩

/-- `int_block_append` -/
theorem hbfint_block_append (o : Ops α) (d : HbfInt α) (wf : d.WF) (b1 b2 : List α)
    (a1 : d.Adm b1) (a2 : d.Adm b2) (a12 : d.Adm (b1 ++ b2)) :
    (d.process o (b1 ++ b2)).2 = (d.process o b1).2 ++ ((d.process o b1).1.process o b2).2 ∧
    (d.process o (b1 ++ b2)).1.abs = ((d.process o b1).1.process o b2).1.abs := by
  have := hbfint_partition_invariant o d wf [b1 ++ b2] [b1, b2] (by simp)
    (by simpa using a12) (by simp [a1, a2])
  simpa [HbfInt.run_cons, HbfInt.run_nil] using this

/-! ## cascades

`HbfDecCascade` applies stages `depth-1, …, 0`, `HbfIntCascade` stages `0, …, depth-1`.  The theorems hold for any
number of stages with `depth ≤ stages.len()` (`HbfDecCascade.WF`; the Rust types have four stages and `set_depth`
asserts `depth ≤ 4`), in particular for depth 0 (identity).  -/

/-- `block_size()` of the decimator cascade is sufficient: if the block length is a multiple of the granularity
    `2^depth` and at most the maximum of stage `depth-1` (no bound for depth 0, Rust: `usize::MAX`), and every
    active stage's maximum is at most twice that of the next lower-rate stage (true for the Rust type, where
    `block_size().1` of stage `j` is `2·64·2^j`), then the block and all intermediate blocks are admissible. -/
theorem hbfdec_cascade_adm_of_block_size (c : HbfDecCascade α) (wf : c.WF)
    (hchain : ∀ j (hj : j + 1 < c.depth),
      (c.stages[j + 1]'(by have := wf.depth_le; omega)).blockMax ≤
        2 * (c.stages[j]'(by have := wf.depth_le; omega)).blockMax)
    (x : List α) (hg : 2 ^ c.depth ∣ x.length)
    (hmax : ∀ (h : 0 < c.depth), x.length ≤ (c.stages[c.depth - 1]'(by have := wf.depth_le; omega)).blockMax) :
    c.Adm x :=
  HbfDecCascade.adm_of_blockSize c wf hchain x hg hmax

/-- General block-partition invariance, `HbfDecCascade` (empty blocks allowed): the concatenated output is the
    composition of the stage specifications applied to the concatenated input; the final per-stage histories are
    given by `decChainNext`; depth, the unused stages, well-formedness and every stage's `block_size()` are
    unchanged; call `j` returns `len(block j) / 2^depth` items. -/
theorem hbfdec_cascade_blocks_spec (o : Ops α) (c : HbfDecCascade α) (wf : c.WF) (bs : List (List α))
    (adm : ∀ b ∈ bs, c.Adm b) :
    (c.run o bs).2.flatten = decChainSpec o (c.active.map HbfDec.absT) bs.flatten ∧
    (c.run o bs).1.active.map HbfDec.absT = decChainNext o (c.active.map HbfDec.absT) bs.flatten ∧
    (c.run o bs).1.depth = c.depth ∧
    (c.run o bs).1.stages.drop c.depth = c.stages.drop c.depth ∧
    (c.run o bs).1.WF ∧
    (c.run o bs).1.stages.map HbfDec.blockMax = c.stages.map HbfDec.blockMax ∧
    (c.run o bs).2.map List.length = bs.map (fun b => b.length / 2 ^ c.depth) :=
  HbfDecCascade.run_spec o c wf bs adm

/-- one `HbfDecCascade::process_block` call on an admissible block returns `len/2^depth` items (the
    `debug_assert_eq!(y.len(), n >> self.depth)` holds); the cascade stays well-formed, with the same depth and the
    same `block_size()` at every stage (so admissibility of later blocks is judged as before). -/
theorem hbfdec_cascade_output_length (o : Ops α) (c : HbfDecCascade α) (wf : c.WF) (x : List α) (adm : c.Adm x) :
    (c.process o x).2.length = x.length / 2 ^ c.depth ∧
    (c.process o x).1.WF ∧ (c.process o x).1.depth = c.depth ∧
    (c.process o x).1.stages.map HbfDec.blockMax = c.stages.map HbfDec.blockMax := by
  obtain ⟨_, _, h3, _, h5, h6, h7⟩ := HbfDecCascade.run_spec o c wf [x] (by simpa using adm)
  have e : c.run o [x] = ((c.process o x).1, [(c.process o x).2]) := rfl
  rw [e] at h3 h5 h6 h7
  exact ⟨by simpa using h7, h5, h3, h6⟩

/-- `HbfDecCascade`: any two ways of cutting the same stream into admissible blocks give the same concatenated
    output, and final states with the same depth and the same (taps, input history) at every stage. -/
theorem hbfdec_cascade_partition_invariant (o : Ops α) (c : HbfDecCascade α) (wf : c.WF)
    (bs1 bs2 : List (List α)) (h : bs1.flatten = bs2.flatten)
    (adm1 : ∀ b ∈ bs1, c.Adm b) (adm2 : ∀ b ∈ bs2, c.Adm b) :
    (c.run o bs1).2.flatten = (c.run o bs2).2.flatten ∧
    (c.run o bs1).1.depth = (c.run o bs2).1.depth ∧
    (c.run o bs1).1.stages.map HbfDec.absT = (c.run o bs2).1.stages.map HbfDec.absT := by
  obtain ⟨a1, a2, a3, a4, _⟩ := HbfDecCascade.run_spec o c wf bs1 adm1
  obtain ⟨b1, b2, b3, b4, _⟩ := HbfDecCascade.run_spec o c wf bs2 adm2
  refine ⟨by rw [a1, b1, h], by rw [a3, b3], ?_⟩
  apply HbfDecCascade.stages_absT_eq
  · rw [a2, b2, h]
  · rw [a3, b3, a4, b4]

/-- `block_size()` of the interpolator cascade is sufficient (it refers to the output block): an input of `n` items
    with `n·2^depth` at most the maximum of stage `depth-1`, under the same relation between the stage maxima. -/
theorem hbfint_cascade_adm_of_block_size (c : HbfIntCascade α) (wf : c.WF)
    (hchain : ∀ j (hj : j + 1 < c.depth),
      (c.stages[j + 1]'(by have := wf.depth_le; omega)).blockMax ≤
        2 * (c.stages[j]'(by have := wf.depth_le; omega)).blockMax)
    (x : List α)
    (hmax : ∀ (h : 0 < c.depth),
      x.length * 2 ^ c.depth ≤ (c.stages[c.depth - 1]'(by have := wf.depth_le; omega)).blockMax) :
    c.Adm x :=
  HbfIntCascade.adm_of_blockSize c wf hchain x hmax

/-- General block-partition invariance, `HbfIntCascade` (empty blocks allowed); call `j` returns
    `len(block j) · 2^depth` items. -/
theorem hbfint_cascade_blocks_spec (o : Ops α) (c : HbfIntCascade α) (wf : c.WF) (bs : List (List α))
    (adm : ∀ b ∈ bs, c.Adm b) :
    (c.run o bs).2.flatten = intChainSpec o (c.active.map HbfInt.absT) bs.flatten ∧
    (c.run o bs).1.active.map HbfInt.absT = intChainNext o (c.active.map HbfInt.absT) bs.flatten ∧
    (c.run o bs).1.depth = c.depth ∧
    (c.run o bs).1.stages.drop c.depth = c.stages.drop c.depth ∧
    (c.run o bs).1.WF ∧
    (c.run o bs).1.stages.map HbfInt.blockMax = c.stages.map HbfInt.blockMax ∧
    (c.run o bs).2.map List.length = bs.map (fun b => b.length * 2 ^ c.depth) :=
  HbfIntCascade.run_spec o c wf bs adm

/-- one `HbfIntCascade::process_block` call on an admissible input block of `n` items returns `n·2^depth` items
    (the `debug_assert_eq!(n, y.len())` holds); well-formedness, depth and every `block_size()` are unchanged. -/
theorem hbfint_cascade_output_length (o : Ops α) (c : HbfIntCascade α) (wf : c.WF) (x : List α) (adm : c.Adm x) :
    (c.process o x).2.length = x.length * 2 ^ c.depth ∧
    (c.process o x).1.WF ∧ (c.process o x).1.depth = c.depth ∧
    (c.process o x).1.stages.map HbfInt.blockMax = c.stages.map HbfInt.blockMax := by
  obtain ⟨_, _, h3, _, h5, h6, h7⟩ := HbfIntCascade.run_spec o c wf [x] (by simpa using adm)
  have e : c.run o [x] = ((c.process o x).1, [(c.process o x).2]) := rfl
  rw [e] at h3 h5 h6 h7
  exact ⟨by simpa using h7, h5, h3, h6⟩

/-- `HbfIntCascade`: any two ways of cutting the same stream into admissible blocks give the same concatenated
    output, and final states with the same depth and the same (taps, input history) at every stage. -/
theorem hbfint_cascade_partition_invariant (o : Ops α) (c : HbfIntCascade α) (wf : c.WF)
    (bs1 bs2 : List (List α)) (h : bs1.flatten = bs2.flatten)
    (adm1 : ∀ b ∈ bs1, c.Adm b) (adm2 : ∀ b ∈ bs2, c.Adm b) :
    (c.run o bs1).2.flatten = (c.run o bs2).2.flatten ∧
    (c.run o bs1).1.depth = (c.run o bs2).1.depth ∧
    (c.run o bs1).1.stages.map HbfInt.absT = (c.run o bs2).1.stages.map HbfInt.absT := by
  obtain ⟨a1, a2, a3, a4, _⟩ := HbfIntCascade.run_spec o c wf bs1 adm1
  obtain ⟨b1, b2, b3, b4, _⟩ := HbfIntCascade.run_spec o c wf bs2 adm2
  refine ⟨by rw [a1, b1, h], by rw [a3, b3], ?_⟩
  apply HbfIntCascade.stages_absT_eq
  · rw [a2, b2, h]
  · rw [a3, b3, a4, b4]

/-! ## non-vacuity: the hypotheses are satisfiable, concrete instances (`intOps`: `Int`, `half = >> 1`) -/

/-- the pinned unit-test shape `HbfDec::<_, 1, 5>`: well-formed, a full block of 8 is admissible -/
example : (HbfDec.new intOps 5 [1]).WF := HbfDec.new_wf _ _ _ (by simp) (by simp)
example : (HbfDec.new intOps 5 [1]).Adm [1, 2, 3, 4, 5, 6, 7, 8] := ⟨by decide, by decide⟩
/-- the analogue of the pinned unit test (`[1.0; 8] ↦ [0.75, 1, 1, 1]` with tap 0.5), scaled by 2 with tap 1 -/
example : ((HbfDec.new intOps 5 [1]).process intOps [2, 2, 2, 2, 2, 2, 2, 2]).2 = [2, 3, 3, 3] := by decide
/-- a concrete instance (test, not a proof) of partition invariance including an empty block -/
example :
    ((HbfDec.new intOps 9 [3, -5]).run intOps [[1, 2], [], [3, 4, 5, 6, 7, 8], [9, 10]]).2.flatten =
    ((HbfDec.new intOps 9 [3, -5]).run intOps [[1, 2, 3, 4, 5, 6, 7, 8, 9, 10]]).2.flatten := by decide
example : (HbfInt.new intOps 9 [3, -5]).WF := HbfInt.new_wf _ _ _ (by simp) (by simp)
example :
    ((HbfInt.new intOps 9 [3, -5]).run intOps [[1, 2], [], [3, 4, 5], [6]]).2.flatten =
    ((HbfInt.new intOps 9 [3, -5]).run intOps [[1, 2, 3, 4, 5, 6]]).2.flatten := by decide

/-- cascades of the Rust shape (`M = 23, 9, 5, 4`, `N = 2M-1+64·2^j`): well-formed for every depth `≤ 4`, and
    `block_size() = (2^depth, 64·2^depth)` blocks are admissible -/
example (depth : Nat) (h : depth ≤ 4) : (rustShapeDec depth).WF := rustShapeDec_wf depth h
example (depth : Nat) (h : depth ≤ 4) : (rustShapeInt depth).WF := rustShapeInt_wf depth h
/-- the hypotheses of `hbfdec_cascade_adm_of_block_size` hold for the Rust shape at depth 4 -/
example (x : List Int) (hg : 2 ^ 4 ∣ x.length) (hm : x.length ≤ 1024) : (rustShapeDec 4).Adm x := by
  apply hbfdec_cascade_adm_of_block_size (rustShapeDec 4) (rustShapeDec_wf 4 (by omega)) _ x hg
  · intro _
    simpa [rustShapeDec, HbfDec.blockMax, HbfDec.new, SymFir.new, -List.reduceReplicate] using hm
  · intro j hj
    have hj' : j + 1 < 4 := hj
    match j, hj' with
    | 0, _ => simp [rustShapeDec, HbfDec.blockMax, HbfDec.new, SymFir.new, -List.reduceReplicate]
    | 1, _ => simp [rustShapeDec, HbfDec.blockMax, HbfDec.new, SymFir.new, -List.reduceReplicate]
    | 2, _ => simp [rustShapeDec, HbfDec.blockMax, HbfDec.new, SymFir.new, -List.reduceReplicate]
example (x : List Int) : (rustShapeDec 0).Adm x := by
  simp [HbfDecCascade.Adm, HbfDecCascade.active, rustShapeDec, decAdmL]
/-- the hypotheses of `hbfint_cascade_adm_of_block_size` hold for the Rust shape at depth 4 -/
example (x : List Int) (hm : x.length * 2 ^ 4 ≤ 1024) : (rustShapeInt 4).Adm x := by
  apply hbfint_cascade_adm_of_block_size (rustShapeInt 4) (rustShapeInt_wf 4 (by omega)) _ x
  · intro _
    simpa [rustShapeInt, HbfInt.blockMax, HbfInt.new, SymFir.new, -List.reduceReplicate] using hm
  · intro j hj
    have hj' : j + 1 < 4 := hj
    match j, hj' with
    | 0, _ => simp [rustShapeInt, HbfInt.blockMax, HbfInt.new, SymFir.new, -List.reduceReplicate]
    | 1, _ => simp [rustShapeInt, HbfInt.blockMax, HbfInt.new, SymFir.new, -List.reduceReplicate]
    | 2, _ => simp [rustShapeInt, HbfInt.blockMax, HbfInt.new, SymFir.new, -List.reduceReplicate]

end Idsp
