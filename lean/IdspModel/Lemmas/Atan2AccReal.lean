import Mathlib.Analysis.SpecialFunctions.Trigonometric.Arctan
import Mathlib.Analysis.SpecialFunctions.Trigonometric.ArctanDeriv
import Mathlib.Analysis.Calculus.Deriv.MeanValue
import Mathlib.Tactic.NormNum
import Mathlib.Tactic.Ring
import Mathlib.Tactic.Linarith
import Mathlib.Tactic.Positivity
import Mathlib.Tactic.FieldSimp
/-!
Accuracy of `atan2` against the real angle, part 1 (pure real analysis, no model): elementary facts about
`Real.arctan`: `v - v³/3 ≤ arctan v ≤ v` for `v ≥ 0`, the subtraction formula, and the resulting bound
`arctan b - arctan a ≤ M` whenever `0 ≤ a ≤ b`, `b - a ≤ ρ·a + h` and `ρ² ≤ 4·M·(M - h)`
(the maximum over `a` of `(ρ·a + h)/(1 + a²)` is `(h + √(h² + ρ²))/2`).
-/
namespace Idsp
open Real

theorem atan2Acc_arctan_le {v : ℝ} (hv : 0 ≤ v) : arctan v ≤ v := by
  have hd : ∀ x : ℝ, HasDerivAt (fun x => x - arctan x) (1 - 1 / (1 + x ^ 2)) x := fun x =>
    (hasDerivAt_id x).sub (hasDerivAt_arctan x)
  have hm : Monotone (fun x : ℝ => x - arctan x) := by
    apply monotone_of_deriv_nonneg (fun x => (hd x).differentiableAt)
    intro x
    rw [(hd x).deriv]
    have : 1 / (1 + x ^ 2) ≤ 1 := by
      rw [div_le_one (by positivity)]; nlinarith [sq_nonneg x]
    linarith
  have := hm hv
  simp only [arctan_zero, sub_zero] at this
  linarith

theorem atan2Acc_arctan_ge {v : ℝ} (hv : 0 ≤ v) : v - v ^ 3 / 3 ≤ arctan v := by
  have hd : ∀ x : ℝ, HasDerivAt (fun x => arctan x - x + x ^ 3 / 3) (1 / (1 + x ^ 2) - 1 + 3 * x ^ 2 / 3) x :=
    fun x => by
      have h3 : HasDerivAt (fun x : ℝ => x ^ 3 / 3) (3 * x ^ 2 / 3) x := by
        have := (hasDerivAt_pow 3 x).div_const 3
        simpa using this
      exact ((hasDerivAt_arctan x).sub (hasDerivAt_id x)).add h3
  have hm : Monotone (fun x : ℝ => arctan x - x + x ^ 3 / 3) := by
    apply monotone_of_deriv_nonneg (fun x => (hd x).differentiableAt)
    intro x
    rw [(hd x).deriv]
    have h1 : (0:ℝ) < 1 + x ^ 2 := by positivity
    have : 1 / (1 + x ^ 2) - 1 + 3 * x ^ 2 / 3 = x ^ 4 / (1 + x ^ 2) := by
      field_simp; ring
    rw [this]; positivity
  have := hm hv
  simp only [arctan_zero] at this
  norm_num at this
  linarith

theorem atan2Acc_arctan_sub {a b : ℝ} (ha : 0 ≤ a) (hb : 0 ≤ b) :
    arctan b - arctan a = arctan ((b - a) / (1 + a * b)) := by
  have h : b * (-a) < 1 := by nlinarith [mul_nonneg ha hb]
  have := arctan_add h
  rw [arctan_neg] at this
  rw [sub_eq_add_neg, this]
  congr 1
  ring

/-- for `0 ≤ a ≤ b`: `arctan b - arctan a ≤ (b - a)/(1 + a²)` -/
theorem atan2Acc_diff_le {a b : ℝ} (ha : 0 ≤ a) (hab : a ≤ b) :
    arctan b - arctan a ≤ (b - a) / (1 + a ^ 2) := by
  have hb : 0 ≤ b := le_trans ha hab
  rw [atan2Acc_arctan_sub ha hb]
  have h1 : (0:ℝ) < 1 + a * b := by nlinarith [mul_nonneg ha hb]
  have h2 : (0:ℝ) < 1 + a ^ 2 := by positivity
  have h3 : 0 ≤ (b - a) / (1 + a * b) := div_nonneg (by linarith) h1.le
  refine le_trans (atan2Acc_arctan_le h3) ?_
  apply div_le_div_of_nonneg_left (by linarith) h2
  nlinarith

/-- the quotient-error bound: if `b` exceeds `a ≥ 0` by at most `ρ·a + h` and `ρ² ≤ 4M(M - h)`, `M > 0`, then
    `arctan b - arctan a ≤ M` -/
theorem atan2Acc_diff_le_M {a b ρ h M : ℝ} (ha : 0 ≤ a) (hab : a ≤ b) (hd : b - a ≤ ρ * a + h)
    (hM : 0 < M) (hdisc : ρ ^ 2 ≤ 4 * M * (M - h)) : arctan b - arctan a ≤ M := by
  refine le_trans (atan2Acc_diff_le ha hab) ?_
  have h2 : (0:ℝ) < 1 + a ^ 2 := by positivity
  rw [div_le_iff₀ h2]
  have key : 0 ≤ 4 * M * (M * (1 + a ^ 2) - (ρ * a + h)) := by
    nlinarith [sq_nonneg (2 * M * a - ρ)]
  have : 0 ≤ M * (1 + a ^ 2) - (ρ * a + h) := by
    by_contra hneg
    rw [not_le] at hneg
    have : 4 * M * (M * (1 + a ^ 2) - (ρ * a + h)) < 0 := mul_neg_of_pos_of_neg (by linarith) hneg
    linarith
  linarith

end Idsp
