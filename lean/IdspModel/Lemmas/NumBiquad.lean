import IdspModel.Model.Biquad
import IdspModel.Lemmas.NumMul
namespace Idsp

theorem bind_eq_ok {α β : Type} {x : R α} {f : α → R β} {b : β} (h : (x >>= f) = .ok b) :
    ∃ a, x = .ok a ∧ f a = .ok b := by
  cases x with
  | error e => cases h
  | ok a => exact ⟨a, rfl, h⟩

/-- release profile: the accumulator expression is the exact sum reduced to `2w` bits, for all operands -/
theorem biquadAcc_release {w : Nat} (hw : 0 < w) (c : BiquadCfg) (x0 x1 x2 y1 y2 : Int) :
    biquadAcc .release w c x0 x1 x2 y1 y2 = .ok (wrapI (2 * w) (c.sum x0 x1 x2 y1 y2)) := by
  have h2 : 0 < 2 * w := by omega
  unfold biquadAcc BiquadCfg.sum
  simp only [arithI_release h2, ok_bind]
  simp only [wrapI_add_wrapI_left, wrapI_add_wrapI_right, wrapI_sub_wrapI_left, wrapI_sub_wrapI_right]

/-- "every partial sum of the accumulator expression fits": what the checked profile needs -/
def BiquadCfg.partialFit (w : Nat) (c : BiquadCfg) (x0 x1 x2 y1 y2 : Int) : Prop :=
  inI (2 * w) (c.b0 * x0 + c.b1 * x1) = true ∧
  inI (2 * w) (c.b0 * x0 + c.b1 * x1 + c.b2 * x2) = true ∧
  inI (2 * w) (c.b0 * x0 + c.b1 * x1 + c.b2 * x2 - c.a1 * y1) = true ∧
  inI (2 * w) (c.b0 * x0 + c.b1 * x1 + c.b2 * x2 - c.a1 * y1 - c.a2 * y2) = true

/-- the coefficients and the limits / offset of a configuration are `w`-bit values -/
def BiquadCfg.inRange (w : Nat) (c : BiquadCfg) : Prop :=
  inI w c.b0 = true ∧ inI w c.b1 = true ∧ inI w c.b2 = true ∧ inI w c.a1 = true ∧ inI w c.a2 = true ∧
  inI w c.u = true ∧ inI w c.mn = true ∧ inI w c.mx = true

/-- the limits are aligned to the guard bits (the two `debug_assert`s of `macc`) -/
def BiquadCfg.aligned (w q : Nat) (c : BiquadCfg) : Prop :=
  c.mn % 2 ^ (w - q) = 0 ∧ c.mx % 2 ^ (w - q) = 2 ^ (w - q) - 1

/-- either profile: if every partial sum fits, the accumulator expression is the exact sum -/
theorem biquadAcc_of_partialFit (m : Mode) {w : Nat} (hw : 0 < w) {c : BiquadCfg} {x0 x1 x2 y1 y2 : Int}
    (hc : c.inRange w) (hx0 : inI w x0 = true) (hx1 : inI w x1 = true) (hx2 : inI w x2 = true)
    (hy1 : inI w y1 = true) (hy2 : inI w y2 = true) (hp : c.partialFit w x0 x1 x2 y1 y2) :
    biquadAcc m w c x0 x1 x2 y1 y2 = .ok (c.sum x0 x1 x2 y1 y2) := by
  obtain ⟨hb0, hb1, hb2, ha1, ha2, -⟩ := hc
  obtain ⟨p1, p2, p3, p4⟩ := hp
  unfold biquadAcc BiquadCfg.sum
  simp only [arithI_ok_of_in (inI_mul hw hb0 hx0), arithI_ok_of_in (inI_mul hw hb1 hx1),
    arithI_ok_of_in (inI_mul hw hb2 hx2), arithI_ok_of_in (inI_mul hw ha1 hy1),
    arithI_ok_of_in (inI_mul hw ha2 hy2), arithI_ok_of_in p1, arithI_ok_of_in p2, arithI_ok_of_in p3,
    arithI_ok_of_in p4, ok_bind]

/-- whenever the accumulator expression returns, its value fits and is congruent to the exact sum -/
theorem biquadAcc_ok_inv {m : Mode} {w : Nat} (hw : 0 < w) {c : BiquadCfg} {x0 x1 x2 y1 y2 s : Int}
    (h : biquadAcc m w c x0 x1 x2 y1 y2 = .ok s) :
    inI (2 * w) s = true ∧ s = wrapI (2 * w) (c.sum x0 x1 x2 y1 y2) := by
  have h2 : 0 < 2 * w := by omega
  unfold biquadAcc at h
  obtain ⟨t0, e0, h⟩ := bind_eq_ok h
  obtain ⟨t1, e1, h⟩ := bind_eq_ok h
  obtain ⟨s1, f1, h⟩ := bind_eq_ok h
  obtain ⟨t2, e2, h⟩ := bind_eq_ok h
  obtain ⟨s2, f2, h⟩ := bind_eq_ok h
  obtain ⟨t3, e3, h⟩ := bind_eq_ok h
  obtain ⟨s3, f3, h⟩ := bind_eq_ok h
  obtain ⟨t4, e4, h⟩ := bind_eq_ok h
  have ⟨hin, hs, _⟩ := arithI_ok_inv h2 h
  refine ⟨hin, ?_⟩
  rw [hs, (arithI_ok_inv h2 f3).2.1, (arithI_ok_inv h2 f2).2.1, (arithI_ok_inv h2 f1).2.1,
    (arithI_ok_inv h2 e0).2.1, (arithI_ok_inv h2 e1).2.1, (arithI_ok_inv h2 e2).2.1,
    (arithI_ok_inv h2 e3).2.1, (arithI_ok_inv h2 e4).2.1]
  unfold BiquadCfg.sum
  simp only [wrapI_add_wrapI_left, wrapI_add_wrapI_right, wrapI_sub_wrapI_left, wrapI_sub_wrapI_right]

/-- the accumulated total as the hardware sees it: exact sum plus bit-level offset term, reduced to `2w` bits -/
def BiquadCfg.total (w q : Nat) (c : BiquadCfg) (x0 x1 x2 y1 y2 e1 : Int) : Int :=
  wrapI (2 * w) (c.sum x0 x1 x2 y1 y2 + maccOff w q c.u e1)

/-- whenever `macc` after the accumulator expression returns, the pair is `maccPost` of the wrapped total -/
theorem acc_macc_ok_inv {m : Mode} {w q : Nat} (hw : 0 < w) {c : BiquadCfg} {x0 x1 x2 y1 y2 e1 : Int}
    {r : Int × Int}
    (h : (biquadAcc m w c x0 x1 x2 y1 y2 >>= fun s => macc m w q c.u s c.mn c.mx e1) = .ok r) :
    r = maccPost w q (c.total w q x0 x1 x2 y1 y2 e1) c.mn c.mx := by
  obtain ⟨s, hs, h⟩ := bind_eq_ok h
  obtain ⟨T, _, hT, hr⟩ := macc_ok_inv hw h
  rw [hr, hT, (biquadAcc_ok_inv hw hs).2, wrapI_add_wrapI_left]; rfl

theorem biquadUpdate4_ok_inv {m : Mode} {w q : Nat} (hw : 0 < w) {c : BiquadCfg} {x0 x1 x2 y1 y2 : Int}
    {st : Int × Int × Int × Int} {y : Int}
    (h : biquadUpdate4 m w q c (x1, x2, y1, y2) x0 = .ok (st, y)) :
    y = (maccPost w q (c.total w q x0 x1 x2 y1 y2 0) c.mn c.mx).1 ∧ st = (x0, x1, y, y1) := by
  unfold biquadUpdate4 at h
  simp only at h
  rw [← bind_assoc] at h
  obtain ⟨r, hr, h⟩ := bind_eq_ok h
  have := acc_macc_ok_inv hw hr
  cases h
  exact ⟨by rw [this], rfl⟩

theorem biquadUpdate5_ok_inv {m : Mode} {w q : Nat} (hw : 0 < w) {c : BiquadCfg} {x0 x1 x2 y1 y2 e1 : Int}
    {st : Int × Int × Int × Int × Int} {y : Int}
    (h : biquadUpdate5 m w q c (x1, x2, y1, y2, e1) x0 = .ok (st, y)) :
    y = (maccPost w q (c.total w q x0 x1 x2 y1 y2 e1) c.mn c.mx).1 ∧
    st = (x0, x1, y, y1, c.total w q x0 x1 x2 y1 y2 e1 % 2 ^ q) := by
  unfold biquadUpdate5 at h
  simp only at h
  rw [← bind_assoc] at h
  obtain ⟨r, hr, h⟩ := bind_eq_ok h
  have := acc_macc_ok_inv hw hr
  cases h
  exact ⟨by rw [this], by rw [this]; rfl⟩

/-- the total is exact when it fits and the previous remainder is a remainder -/
theorem total_eq {w q : Nat} (hw : 0 < w) (hq : q ≤ w) {c : BiquadCfg} {x0 x1 x2 y1 y2 e1 : Int}
    (hu : inI w c.u = true) (he0 : 0 ≤ e1) (he1 : e1 < 2 ^ q)
    (hT : inI (2 * w) (c.sum x0 x1 x2 y1 y2 + c.u * 2 ^ q + e1) = true) :
    c.total w q x0 x1 x2 y1 y2 e1 = c.sum x0 x1 x2 y1 y2 + c.u * 2 ^ q + e1 := by
  unfold BiquadCfg.total
  rw [maccOff_eq hw hq hu he0 he1, ← Int.add_assoc, wrapI_of_in (by omega) hT]

theorem total_in {w : Nat} (hw : 0 < w) (q : Nat) (c : BiquadCfg) (x0 x1 x2 y1 y2 e1 : Int) :
    inI (2 * w) (c.total w q x0 x1 x2 y1 y2 e1) = true := wrapI_in (by omega) _

/-- release profile, N = 4/5 common part -/
theorem acc_macc_release {w q : Nat} (hw : 0 < w) (c : BiquadCfg) (x0 x1 x2 y1 y2 e1 : Int) :
    (biquadAcc .release w c x0 x1 x2 y1 y2 >>= fun s => macc .release w q c.u s c.mn c.mx e1) =
      .ok (maccPost w q (c.total w q x0 x1 x2 y1 y2 e1) c.mn c.mx) := by
  rw [biquadAcc_release hw, ok_bind, macc_release hw, wrapI_add_wrapI_left]; rfl

/-- either profile, every partial sum fits: N = 4/5 common part -/
theorem acc_macc_of_partialFit (m : Mode) {w q : Nat} (hw : 0 < w) (hq : q ≤ w) {c : BiquadCfg}
    {x0 x1 x2 y1 y2 e1 : Int}
    (hc : c.inRange w) (hal : c.aligned w q) (hx0 : inI w x0 = true) (hx1 : inI w x1 = true)
    (hx2 : inI w x2 = true) (hy1 : inI w y1 = true) (hy2 : inI w y2 = true)
    (hp : c.partialFit w x0 x1 x2 y1 y2) (he0 : 0 ≤ e1) (he1 : e1 < 2 ^ q)
    (hT : inI (2 * w) (c.sum x0 x1 x2 y1 y2 + c.u * 2 ^ q + e1) = true) :
    (biquadAcc m w c x0 x1 x2 y1 y2 >>= fun s => macc m w q c.u s c.mn c.mx e1) =
      .ok (clip ((c.sum x0 x1 x2 y1 y2 + c.u * 2 ^ q + e1) / 2 ^ q) c.mn c.mx,
           (c.sum x0 x1 x2 y1 y2 + c.u * 2 ^ q + e1) % 2 ^ q) := by
  rw [biquadAcc_of_partialFit m hw hc hx0 hx1 hx2 hy1 hy2 hp, ok_bind]
  obtain ⟨-, -, -, -, -, hu, hmn, hmx⟩ := hc
  exact macc_eq_of_fit m hw hq hu hmn hmx hal.1 hal.2 he0 he1 hT

theorem clip_bounds {x mn mx : Int} (h : mn ≤ mx) : mn ≤ clip x mn mx ∧ clip x mn mx ≤ mx := by
  unfold clip; split <;> [skip; split] <;> omega

theorem clip_of_mem {x mn mx : Int} (h1 : mn ≤ x) (h2 : x ≤ mx) : clip x mn mx = x := by
  unfold clip; rw [if_neg (by omega), if_neg (by omega)]

/-- folding a step function over an input list, collecting the outputs; stops at the first panic -/
def runR {σ : Type} (step : σ → Int → R (σ × Int)) : σ → List Int → R (σ × List Int)
  | st, [] => .ok (st, [])
  | st, x :: xs => do
    let (st', y) ← step st x
    let (stf, ys) ← runR step st' xs
    .ok (stf, y :: ys)

theorem runR_cons_ok {σ : Type} {step : σ → Int → R (σ × Int)} {st stf : σ} {x : Int} {xs zs : List Int}
    (h : runR step st (x :: xs) = .ok (stf, zs)) :
    ∃ st' y ys, step st x = .ok (st', y) ∧ runR step st' xs = .ok (stf, ys) ∧ zs = y :: ys := by
  unfold runR at h
  obtain ⟨⟨st', y⟩, h1, h⟩ := bind_eq_ok h
  obtain ⟨⟨stf', ys⟩, h2, h⟩ := bind_eq_ok h
  cases h
  exact ⟨st', y, ys, h1, h2, rfl⟩

theorem runR_length {σ : Type} {step : σ → Int → R (σ × Int)} {st stf : σ} {xs zs : List Int}
    (h : runR step st xs = .ok (stf, zs)) : zs.length = xs.length := by
  induction xs generalizing st zs with
  | nil => cases h; rfl
  | cons x xs ih =>
    obtain ⟨st', y, ys, _, h2, rfl⟩ := runR_cons_ok h
    simp [ih h2]

/-- every output of a run satisfies `P` if every returning step's output does -/
theorem runR_all {σ : Type} {step : σ → Int → R (σ × Int)} {P : Int → Prop}
    (hstep : ∀ st x st' y, step st x = .ok (st', y) → P y) {st stf : σ} {xs zs : List Int}
    (h : runR step st xs = .ok (stf, zs)) : ∀ y ∈ zs, P y := by
  induction xs generalizing st zs with
  | nil => cases h; simp
  | cons x xs ih =>
    obtain ⟨st', y, ys, h1, h2, rfl⟩ := runR_cons_ok h
    intro z hz
    rcases List.mem_cons.mp hz with rfl | hz
    · exact hstep _ _ _ _ h1
    · exact ih h2 z hz

/-- a run over `xs ++ zs` that returns splits into a run over `xs` and a run over `zs` from the state reached -/
theorem runR_append_ok {σ : Type} {step : σ → Int → R (σ × Int)} {st stf : σ} {xs zs out : List Int}
    (h : runR step st (xs ++ zs) = .ok (stf, out)) :
    ∃ st' ys ws, runR step st xs = .ok (st', ys) ∧ runR step st' zs = .ok (stf, ws) ∧ out = ys ++ ws := by
  induction xs generalizing st out with
  | nil => exact ⟨st, [], out, rfl, h, rfl⟩
  | cons x xs ih =>
    obtain ⟨st1, y, ys, h1, h2, rfl⟩ := runR_cons_ok h
    obtain ⟨st', ys', ws, h3, h4, rfl⟩ := ih h2
    refine ⟨st', y :: ys', ws, ?_, h4, rfl⟩
    unfold runR
    rw [h1, ok_bind]
    simp only [h3, ok_bind]

end Idsp
