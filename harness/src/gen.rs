//! Correspondence generators: every line is `<mode> <op> <args> => <result>` with the result
//! computed by the real crate (each call under `catch_unwind`).
use crate::rng::{wrap, Rng};
use crate::MODE;
use idsp::hbf::{Filter as HbfFilter, HbfDec, HbfDecCascade, HbfInt, HbfIntCascade, HBF_TAPS, HBF_TAPS_98};
use idsp::iir::Biquad;
use idsp::*;
use std::fmt::Display;
use std::io::Write;
use std::panic::{catch_unwind, AssertUnwindSafe};

pub struct Out {
    w: std::io::BufWriter<std::io::Stdout>,
    pub lines: usize,
}

impl Out {
    pub fn new() -> Self {
        Out {
            w: std::io::BufWriter::with_capacity(1 << 20, std::io::stdout()),
            lines: 0,
        }
    }
    pub fn emit(&mut self, lhs: &str, res: Option<String>) {
        self.lines += 1;
        match res {
            Some(r) => writeln!(self.w, "{} {} => {}", MODE, lhs, r).unwrap(),
            None => writeln!(self.w, "{} {} => PANIC", MODE, lhs).unwrap(),
        }
    }
    pub fn comment(&mut self, s: &str) {
        writeln!(self.w, "# {}", s).unwrap();
    }
}

pub fn guard<T>(f: impl FnOnce() -> T) -> Option<T> {
    catch_unwind(AssertUnwindSafe(f)).ok()
}

pub fn list<T: Display>(v: &[T]) -> String {
    let mut s = String::from("[");
    for (i, x) in v.iter().enumerate() {
        if i > 0 {
            s.push(',');
        }
        s.push_str(&x.to_string());
    }
    s.push(']');
    s
}

pub fn opt<T: Display>(v: Option<T>) -> String {
    match v {
        Some(x) => x.to_string(),
        None => "N".into(),
    }
}

pub fn run(fams: &[&str], seed: u64, n: usize) {
    let mut out = Out::new();
    for (i, f) in fams.iter().enumerate() {
        let mut rng = Rng::new(seed ^ ((i as u64 + 1) << 48) ^ fxhash(f));
        out.comment(&format!("family {} seed {} n {}", f, seed, n));
        match *f {
            "osub" => fam_osub(&mut rng, n, &mut out),
            "satscale" => fam_satscale(&mut rng, n, &mut out),
            "unwrap" => fam_unwrap(&mut rng, n, &mut out),
            "accu" => fam_accu(&mut rng, n, &mut out),
            "dsm" => fam_dsm(&mut rng, n, &mut out),
            "pll" => fam_pll(&mut rng, n, &mut out),
            "lowpass" => fam_lowpass(&mut rng, n, &mut out),
            "cic_dec" => fam_cic(&mut rng, n, &mut out, true),
            "cic_int" => fam_cic(&mut rng, n, &mut out, false),
            "num" => fam_num(&mut rng, n, &mut out),
            "biquad" => fam_biquad(&mut rng, n, &mut out),
            "cossin" => fam_cossin(&mut rng, n, &mut out),
            "atan2" => fam_atan2(&mut rng, n, &mut out),
            "complex" => fam_complex(&mut rng, n, &mut out),
            "lockin" => fam_lockin(&mut rng, n, &mut out),
            "rpll" => fam_rpll(&mut rng, n, &mut out),
            "sweep" => fam_sweep(&mut rng, n, &mut out),
            "hbf" => fam_hbf(&mut rng, n, &mut out),
            "fbiquad" => fam_fbiquad(&mut rng, n, &mut out),
            "coeff" => fam_coeff(&mut rng, n, &mut out),
            "pid" => fam_pid(&mut rng, n, &mut out),
            "glue" => fam_glue(&mut rng, n, &mut out),
            "repr" => fam_repr(&mut rng, n, &mut out),
            "cossin_all" => fam_cossin_all(&mut out),
            "osub_all" => fam_osub_all(&mut out),
            "num8_all" => fam_num8_all(&mut out),
            "atani_all" => fam_atani_all(&mut out),
            _ => panic!("unknown family {}", f),
        }
    }
}

fn fxhash(s: &str) -> u64 {
    s.bytes().fold(0xcbf29ce484222325u64, |h, b| (h ^ b as u64).wrapping_mul(0x100000001b3))
}

// ------------------------------------------------------------------ unwrap / accu
fn fam_osub(rng: &mut Rng, n: usize, out: &mut Out) {
    // i8: a complete sub-lattice near the wrap lines plus random; wider: lattice + random
    for _ in 0..n {
        match rng.below(5) {
            0 => {
                let (y, x) = (rng.i8(), rng.i8());
                let (d, w) = overflowing_sub(y, x);
                out.emit(&format!("osub 8 {} {}", y, x), Some(format!("{} {}", d, w)));
            }
            1 => {
                let (y, x) = (rng.i16(), rng.i16());
                let (d, w) = overflowing_sub(y, x);
                out.emit(&format!("osub 16 {} {}", y, x), Some(format!("{} {}", d, w)));
            }
            2 => {
                let (y, x) = (rng.i32(), rng.i32());
                let (d, w) = overflowing_sub(y, x);
                out.emit(&format!("osub 32 {} {}", y, x), Some(format!("{} {}", d, w)));
            }
            3 => {
                let (y, x) = (rng.i64(), rng.i64());
                let (d, w) = overflowing_sub(y, x);
                out.emit(&format!("osub 64 {} {}", y, x), Some(format!("{} {}", d, w)));
            }
            _ => {
                let (y, x) = (rng.int(128), rng.int(128));
                let (d, w) = overflowing_sub(y, x);
                out.emit(&format!("osub 128 {} {}", y, x), Some(format!("{} {}", d, w)));
            }
        }
    }
}

fn fam_satscale(rng: &mut Rng, n: usize, out: &mut Out) {
    for i in 0..n {
        let shift = if i % 8 == 7 { rng.below(41) as u32 } else { 1 + rng.below(32) as u32 };
        // hi near both clip boundaries, extremes, random
        let hi = if (1..=32).contains(&shift) && rng.chance(2, 3) {
            let b = 1i64 << (shift - 1);
            let d = rng.range(-3, 3);
            let v = if rng.chance(1, 2) { b + d } else { -b + d };
            v.clamp(i32::MIN as i64, i32::MAX as i64) as i32
        } else {
            rng.i32()
        };
        let lo = rng.i32();
        let r = guard(|| saturating_scale(lo, hi, shift));
        out.emit(&format!("satscale {} {} {}", lo, hi, shift), r.map(|v| v.to_string()));
    }
}

fn unwrap_more(rng: &mut Rng, out: &mut Out) {
    // other instantiations of Unwrapper<Q>::update::<P> and the phase::<P>() getter
    macro_rules! one {
        ($q:ty, $wq:expr, $p:ty, $wp:expr) => {{
            let y = rng.int($wq) as $q;
            let x = rng.int($wp) as $p;
            let mut u = Unwrapper::<$q>::verif_from_raw(y);
            let dx: $p = u.update(x);
            out.emit(&format!("unwrap {} {} {} {}", $wq, $wp, y, x), Some(format!("{} {}", u.y(), dx)));
            let ph: $p = u.phase();
            out.emit(&format!("unwrap_phase {} {}", $wp, u.y()), Some(ph.to_string()));
        }};
    }
    match rng.below(6) {
        0 => one!(i128, 128, i64, 64),
        1 => one!(i128, 128, i32, 32),
        2 => one!(i64, 64, i16, 16),
        3 => one!(i64, 64, i8, 8),
        4 => one!(i32, 32, i8, 8),
        _ => one!(i64, 64, i32, 32),
    }
}

/// `Unwrapper::<i64>::wraps::<P32, S>()` (the real method, through the phase-word newtype of pword.rs) for several `S`,
/// states at the rounding boundaries `k·2^S ± 2^(S-1) + {-1,0,1}`, the extremes of i64 and random states.
fn unwrap_wraps(rng: &mut Rng, out: &mut Out) {
    use crate::pword::P32;
    macro_rules! one {
        ($s:expr, $y:expr) => {{
            let y: i64 = $y;
            let r = catch_unwind(AssertUnwindSafe(|| Unwrapper::<i64>::verif_from_raw(y).wraps::<P32, $s>().0));
            out.emit(&format!("wraps 32 {} {}", $s, y), r.ok().map(|v| format!("{}", v)));
        }};
    }
    let y = match rng.below(5) {
        0 => rng.i64(),
        1 => [i64::MIN, i64::MAX, 0, -1, 1][rng.below(5) as usize].wrapping_add(rng.below(3) as i64 - 1),
        _ => {
            let s = [1u32, 2, 16, 31, 32][rng.below(5) as usize];
            let k = (rng.i32() >> rng.below(31)) as i64;
            (k << s).wrapping_add(if rng.chance(1, 2) { 1i64 << (s - 1) } else { 0 }).wrapping_add(rng.below(3) as i64 - 1)
        }
    };
    one!(1, y);
    one!(2, y);
    one!(16, y);
    one!(31, y);
    one!(32, y);
}

fn fam_unwrap(rng: &mut Rng, n: usize, out: &mut Out) {
    for _ in 0..(n / 10) {
        unwrap_more(rng, out);
    }
    for _ in 0..(n / 50 + 1) {
        unwrap_wraps(rng, out);
    }
    let mut y64 = 0i64;
    let mut y32 = 0i32;
    let mut x32 = 0i32;
    let mut x16 = 0i16;
    for i in 0..n {
        if rng.chance(1, 50) {
            y64 = rng.i64();
            y32 = rng.i32();
        }
        if i % 2 == 0 {
            // random walk with forced wraps, or lattice sample
            x32 = if rng.chance(3, 4) {
                x32.wrapping_add((rng.i32() >> rng.below(8)) as i32)
            } else {
                rng.i32()
            };
            let mut u = Unwrapper::<i64>::verif_from_raw(y64);
            let dx: i32 = u.update(x32);
            out.emit(&format!("unwrap 64 32 {} {}", y64, x32), Some(format!("{} {}", u.y(), dx)));
            y64 = u.y();
        } else {
            x16 = if rng.chance(3, 4) {
                x16.wrapping_add((rng.i16() >> rng.below(6)) as i16)
            } else {
                rng.i16()
            };
            let mut u = Unwrapper::<i32>::verif_from_raw(y32);
            let dx: i16 = u.update(x16);
            out.emit(&format!("unwrap 32 16 {} {}", y32, x16), Some(format!("{} {}", u.y(), dx)));
            y32 = u.y();
        }
    }
}

fn fam_accu(rng: &mut Rng, n: usize, out: &mut Out) {
    macro_rules! one {
        ($t:ty, $w:expr) => {{
            let (s, st) = (rng.int($w) as $t, rng.int($w) as $t);
            let mut a = Accu::new(s, st);
            let it = a.next().unwrap();
            let nx = a.next().unwrap();
            out.emit(&format!("accu {} {} {}", $w, s, st), Some(format!("{} {}", nx, it)));
        }};
    }
    for i in 0..n {
        match i % 4 {
            0 => one!(i8, 8),
            1 => one!(i16, 16),
            2 => one!(i32, 32),
            _ => one!(i64, 64),
        }
    }
}

// ------------------------------------------------------------------ dsm
fn dsm_step<const K: usize>(a: [u32; K], c: [i8; K], x: u32, out: &mut Out) -> Option<([u32; K], [i8; K])> {
    let mut d = Dsm::<K>::verif_from_raw(a, c);
    let r = guard(|| {
        let y = d.update(x);
        (d.verif_raw(), y)
    });
    out.emit(
        &format!("dsm {} {} {}", list(&a), list(&c), x),
        r.map(|((a2, c2), y)| format!("{} {} {}", list(&a2), list(&c2), y)),
    );
    r.map(|(s, _)| s)
}

fn dsm_hist<const K: usize>(rng: &mut Rng, len: usize, out: &mut Out) {
    let mut a = [0u32; K];
    let mut c = [0i8; K];
    let style = rng.below(5);
    if style == 4 {
        // injected arbitrary state
        for v in a.iter_mut() {
            *v = rng.u32();
        }
        for (i, v) in c.iter_mut().enumerate() {
            let b = 1i64 << (K - 1 - i).min(6);
            *v = if rng.chance(3, 4) { rng.range(1 - b, b) as i8 } else { rng.i8() };
        }
    }
    let x0 = rng.u32();
    for _ in 0..len {
        let x = match style {
            0 => x0,                                                       // constant
            1 => (rng.below(16) as u32) << 28,                              // 4-bit lattice
            2 => [0u32, 0x8000_0000, 0xffff_ffff, 0x7fff_ffff, 1][rng.below(5) as usize], // carry alignment
            _ => rng.u32(),
        };
        match dsm_step::<K>(a, c, x, out) {
            Some((a2, c2)) => {
                a = a2;
                c = c2;
            }
            None => return,
        }
    }
}

fn fam_dsm(rng: &mut Rng, n: usize, out: &mut Out) {
    {
        macro_rules! ctor { ($k:expr) => {{ let (a, c) = Dsm::<$k>::default().verif_raw(); out.emit(&format!("ctor_dsm {}", $k), Some(format!("{} {}", list(&a), list(&c)))); }}; }
        ctor!(0); ctor!(1); ctor!(3); ctor!(7); ctor!(8);
    }
    // the K = 8 overflow witness and the K = 0 case run first (corpus)
    {
        let xs = [
            0x00800000u32, 0xfb800000, 0x12800000, 0xd1800000, 0x51800000, 0x92800000, 0x7b800000, 0x80800000,
            0x80000000,
        ];
        let (mut a, mut c) = ([0u32; 8], [0i8; 8]);
        for x in xs {
            if let Some((a2, c2)) = dsm_step::<8>(a, c, x, out) {
                a = a2;
                c = c2;
            }
        }
        dsm_step::<0>([], [], 5, out);
    }
    let mut done = 0;
    while done < n {
        let len = 1 + rng.below(40) as usize;
        match rng.below(9) {
            0 => dsm_hist::<0>(rng, 2, out),
            1 => dsm_hist::<1>(rng, len, out),
            2 => dsm_hist::<2>(rng, len, out),
            3 => dsm_hist::<3>(rng, len, out),
            4 => dsm_hist::<4>(rng, len, out),
            5 => dsm_hist::<5>(rng, len, out),
            6 => dsm_hist::<6>(rng, len, out),
            7 => dsm_hist::<7>(rng, len, out),
            _ => dsm_hist::<8>(rng, len, out),
        }
        done += len;
    }
}

// ------------------------------------------------------------------ pll
fn fam_pll(rng: &mut Rng, n: usize, out: &mut Out) {
    {
        // the constructor the lock theorems start from
        let (x, y0, f0, f, y) = PLL::default().verif_raw();
        out.emit("ctor_pll", Some(format!("{} {} {} {} {}", x, y0, f0, f, y)));
    }
    let mut done = 0;
    while done < n {
        let mut p = if rng.chance(1, 2) {
            PLL::default()
        } else {
            PLL::verif_from_raw(rng.i32(), rng.i32(), rng.i32(), rng.i64(), rng.i64())
        };
        let len = 1 + rng.below(60) as usize;
        let f0 = rng.i32();
        let mut x = rng.i32();
        let kfix = pll_gain(rng);
        let scramble = rng.chance(1, 3);
        for _ in 0..len {
            let k = if rng.chance(1, 5) { rng.i32() } else { kfix };
            x = if scramble { rng.i32() } else { x.wrapping_add(f0) };
            let inp = if rng.chance(1, 6) { None } else { Some(x) };
            let (a, b, c, d, e) = p.verif_raw();
            p.update(inp, k);
            let (a2, b2, c2, d2, e2) = p.verif_raw();
            assert_eq!((p.phase(), p.frequency()), (b2, c2));
            out.emit(
                &format!("pll {} {} {} {} {} {} {}", a, b, c, d, e, opt(inp), k),
                Some(format!("{} {} {} {} {}", a2, b2, c2, d2, e2)),
            );
        }
        done += len;
    }
}

pub fn pll_gain(rng: &mut Rng) -> i32 {
    match rng.below(4) {
        0 => 1 << (8 + rng.below(23)),
        1 => ((1i64 << (8 + rng.below(23))) + rng.range(-1, 1)).clamp(256, i32::MAX as i64) as i32,
        _ => rng.range(256, i32::MAX as i64) as i32,
    }
}

// ------------------------------------------------------------------ lowpass
fn fam_lowpass(rng: &mut Rng, n: usize, out: &mut Out) {
    // Filter::set / Filter::get (set writes the position word only, for both orders)
    for i in 0..(n / 50 + 8) {
        let (s0, s1, x) = (if i % 3 == 0 { 0 } else { rng.i64() }, rng.i64(), rng.i32());
        let mut a = Lowpass::<1>::verif_from_raw([s0]);
        out.emit(&format!("lp_get {}", s0), Some(idsp::Filter::get(&a).to_string()));
        idsp::Filter::set(&mut a, x);
        out.emit(&format!("lp_set {} {}", s0, x), Some(a.verif_raw()[0].to_string()));
        let mut b = Lowpass::<2>::verif_from_raw([s0, s1]);
        assert!(idsp::Filter::get(&b) == idsp::Filter::get(&Lowpass::<1>::verif_from_raw([s0])));
        idsp::Filter::set(&mut b, x);
        assert!(b.verif_raw() == [a.verif_raw()[0], s1], "Lowpass<2>::set writes state[0] only");
    }
    let mut done = 0;
    while done < n {
        let len = 1 + rng.below(50) as usize;
        let style = rng.below(4);
        if rng.chance(1, 2) {
            let mut s = if rng.chance(1, 2) { 0 } else { rng.i64() };
            let k = match rng.below(3) {
                0 => rng.range(1, i32::MAX as i64) as i32,
                1 => 1 << rng.below(31),
                _ => rng.i32(),
            };
            let x0 = rng.i32();
            for j in 0..len {
                let x = match style {
                    0 => x0,
                    1 => if j % 2 == 0 { i32::MIN } else { i32::MAX },
                    _ => rng.i32(),
                };
                let mut lp = Lowpass::<1>::verif_from_raw([s]);
                let r = guard(|| {
                    let y = idsp::Filter::update(&mut lp, x, &[k]);
                    (lp.verif_raw()[0], y)
                });
                out.emit(&format!("lp1 {} {} {}", s, x, k), r.map(|(s2, y)| format!("{} {}", s2, y)));
                match r {
                    Some((s2, _)) => s = s2,
                    None => break,
                }
            }
        } else {
            let (mut s0, mut s1) = if rng.chance(2, 3) { (0, 0) } else { (rng.i64(), rng.i64()) };
            // Butterworth [k^2/2^32, -k*sqrt2] or arbitrary
            let (k0, k1) = if rng.chance(3, 4) {
                let k = rng.range(1 << 16, 1518500249) as f64;
                ((k * k / 4294967296.0) as i32, (-k * std::f64::consts::SQRT_2) as i32)
            } else {
                (rng.i32(), rng.i32())
            };
            let x0 = if rng.chance(1, 2) { rng.range(-(1 << 30), 1 << 30) as i32 } else { rng.i32() };
            for j in 0..len {
                let x = match style {
                    0 => x0,
                    1 => if j % 2 == 0 { i32::MIN } else { i32::MAX },
                    2 => if j < len / 2 { 0 } else { i32::MAX },
                    _ => rng.i32(),
                };
                let mut lp = Lowpass::<2>::verif_from_raw([s0, s1]);
                let r = guard(|| {
                    let y = idsp::Filter::update(&mut lp, x, &[k0, k1]);
                    (lp.verif_raw(), y)
                });
                out.emit(
                    &format!("lp2 {} {} {} {} {}", s0, s1, x, k0, k1),
                    r.map(|(s, y)| format!("{} {} {}", s[0], s[1], y)),
                );
                match r {
                    Some((s, _)) => {
                        s0 = s[0];
                        s1 = s[1];
                    }
                    None => break,
                }
            }
        }
        done += len;
    }
}

// ------------------------------------------------------------------ cic
macro_rules! cic_run {
    ($t:ty, $w:expr, $n:expr, $rng:expr, $len:expr, $dec:expr, $out:expr) => {{
        let rng: &mut Rng = $rng;
        let out: &mut Out = $out;
        let w: u32 = $w;
        const NN: usize = $n;
        let rate: u32 = match rng.below(10) {
            0 => 0,
            1 => rng.u32(),
            2 => 1 << rng.below(7),
            _ => rng.below(66) as u32,
        };
        let mut c = Cic::<$t, NN>::new(rate);
        if rng.chance(1, 4) {
            // injected state
            let mut combs = [0 as $t; NN];
            let mut ints = [0 as $t; NN];
            for v in combs.iter_mut() {
                *v = rng.int(w) as $t;
            }
            for v in ints.iter_mut() {
                *v = rng.int(w) as $t;
            }
            let idx = if rate == 0 { 0 } else { rng.below(rate as u64 + 1) as u32 };
            c = Cic::<$t, NN>::verif_from_raw(rate, idx, rng.int(w) as $t, combs, ints);
        }
        // gain / gain_log2 / response_length
        {
            let g = guard(|| c.gain());
            out.emit(&format!("cic_gain {} {} {}", w, rate, NN), g.map(|v| v.to_string()));
            out.emit(&format!("cic_glog2 {} {}", rate, NN), Some(c.gain_log2().to_string()));
            if (rate as u64) * (NN as u64) < (1u64 << 32) {
                out.emit(&format!("cic_rlen {} {}", rate, NN), Some(c.response_length().to_string()));
            }
        }
        let small = rng.chance(1, 2);
        if !$dec && rng.chance(1, 4) {
            let x = if small { rng.range(-100, 100) as i128 } else { rng.int(w) } as $t;
            let (r0, i0, z0, c0, n0) = c.verif_raw();
            let r = guard(|| {
                c.settle_interpolate(x);
                c.verif_raw()
            });
            out.emit(
                &format!("cic_settle {} {} {} {} {} {} {}", w, r0, i0, z0, list(&c0), list(&n0), x),
                r.map(|(_, i, z, cs, ns)| format!("{} {} {} {}", i, z, list(&cs), list(&ns))),
            );
            if r.is_none() {
                return;
            }
        }
        for _ in 0..$len {
            if rng.chance(1, 25) {
                // `clear()` in the middle of a stream: back to the state of `new(rate)`
                let (r0, i0, z0, c0, n0) = c.verif_raw();
                c.clear();
                let (_, i, z, cs, ns) = c.verif_raw();
                out.emit(&format!("cic_clear {} {} {} {} {}", r0, i0, z0, list(&c0), list(&n0)), Some(format!("{} {} {} {}", i, z, list(&cs), list(&ns))));
            }
            let (r0, i0, z0, c0, n0) = c.verif_raw();
            if $dec {
                let x = if small { rng.range(-8, 8) as i128 } else { rng.int(w) } as $t;
                let tick = c.tick();
                let o = c.decimate(x);
                assert_eq!(tick, o.is_some());
                let (_, i, z, cs, ns) = c.verif_raw();
                if let Some(v) = o {
                    assert!(v == c.get_decimate());
                }
                out.emit(
                    &format!("cic_dec {} {} {} {} {} {} {}", w, r0, i0, z0, list(&c0), list(&n0), x),
                    Some(format!("{} {} {} {} {}", i, z, list(&cs), list(&ns), opt(o))),
                );
            } else {
                // mostly obey the tick contract; sometimes violate it
                let obey = rng.chance(19, 20);
                let give = if obey { c.tick() } else { rng.chance(1, 2) };
                let x = if give {
                    Some(if small { rng.range(-8, 8) as i128 } else { rng.int(w) } as $t)
                } else {
                    None
                };
                let r = guard(|| {
                    let y = c.interpolate(x);
                    (c.verif_raw(), y, c.get_interpolate())
                });
                out.emit(
                    &format!("cic_int {} {} {} {} {} {} {}", w, r0, i0, z0, list(&c0), list(&n0), opt(x)),
                    r.map(|((_, i, z, cs, ns), y, _)| format!("{} {} {} {} {}", i, z, list(&cs), list(&ns), y)),
                );
                match r {
                    Some((_, y, g)) => assert!(y == g),
                    None => return,
                }
            }
        }
    }};
}

fn fam_cic(rng: &mut Rng, n: usize, out: &mut Out, dec: bool) {
    // tick(): true iff the next call is a sample-taking / emitting one (index == 0)
    for i in 0..40u32 {
        let (rate, idx) = (rng.below(64) as u32, if i % 3 == 0 { 0 } else { rng.below(70) as u32 });
        let c = Cic::<i32, 2>::verif_from_raw(rate, idx, 0, [0; 2], [0; 2]);
        out.emit(&format!("cic_tick {} {}", rate, idx), Some(c.tick().to_string()));
    }
    let mut done = 0;
    while done < n {
        let len = 1 + rng.below(80) as usize;
        let t = rng.below(5);
        let order = rng.below(7);
        macro_rules! byn {
            ($t:ty, $w:expr) => {
                match order {
                    0 => (|| cic_run!($t, $w, 0, rng, len, dec, out))(),
                    1 => (|| cic_run!($t, $w, 1, rng, len, dec, out))(),
                    2 => (|| cic_run!($t, $w, 2, rng, len, dec, out))(),
                    3 => (|| cic_run!($t, $w, 3, rng, len, dec, out))(),
                    4 => (|| cic_run!($t, $w, 4, rng, len, dec, out))(),
                    5 => (|| cic_run!($t, $w, 5, rng, len, dec, out))(),
                    _ => (|| cic_run!($t, $w, 6, rng, len, dec, out))(),
                }
            };
        }
        match t {
            0 => byn!(i8, 8),
            1 => byn!(i16, 16),
            2 => byn!(i32, 32),
            3 => byn!(i64, 64),
            _ => byn!(i128, 128),
        }
        done += len;
    }
}

// ------------------------------------------------------------------ num / biquad
macro_rules! num_one {
    ($t:ty, $a:ty, $w:expr, $q:expr, $rng:expr, $out:expr) => {{
        let rng: &mut Rng = $rng;
        let out: &mut Out = $out;
        let w: u32 = $w;
        let q: u32 = $q;
        let g = w - q;
        match rng.below(6) {
            0 | 1 | 2 => {
                let u = rng.int(w) as $t;
                let s = if rng.chance(1, 2) { rng.int(2 * w) } else { rng.int(w + q) } as $a;
                // aligned limits most of the time
                let mut mn = rng.int(w) as $t;
                let mut mx = rng.int(w) as $t;
                if rng.chance(9, 10) {
                    mn &= !(((1 as $t) << g) - 1);
                    mx |= ((1 as $t) << g) - 1;
                }
                if rng.chance(9, 10) && mn > mx {
                    core::mem::swap(&mut mn, &mut mx);
                    mn &= !(((1 as $t) << g) - 1);
                    mx |= ((1 as $t) << g) - 1;
                }
                if rng.chance(1, 3) {
                    mn = <$t>::MIN;
                    mx = <$t>::MAX;
                }
                let e1 = match rng.below(4) {
                    0 => 0,
                    1 | 2 => (rng.wide() & ((1u128 << q) - 1)) as $t,
                    _ => rng.int(w) as $t,
                };
                let r = guard(|| u.macc(s, mn, mx, e1));
                out.emit(
                    &format!("macc {} {} {} {} {} {} {}", w, q, u, s, mn, mx, e1),
                    r.map(|(y, e)| format!("{} {}", y, e)),
                );
            }
            3 => {
                let (a, b) = (rng.int(w) as $t, rng.int(w) as $t);
                let r = guard(|| a.mul_scaled(b));
                out.emit(&format!("mul_scaled {} {} {} {}", w, q, a, b), r.map(|v| v.to_string()));
            }
            4 => {
                let (a, b) = (rng.int(w) as $t, rng.int(w) as $t);
                let r = guard(|| a.div_scaled(b));
                out.emit(&format!("div_scaled {} {} {} {}", w, q, a, b), r.map(|v| v.to_string()));
            }
            _ => {
                let (a, mn, mx) = (rng.int(w) as $t, rng.int(w) as $t, rng.int(w) as $t);
                out.emit(&format!("clip {} {} {}", a, mn, mx), Some(a.clip(mn, mx).to_string()));
            }
        }
    }};
}

fn fam_num(rng: &mut Rng, n: usize, out: &mut Out) {
    macro_rules! consts {
        ($t:ty, $w:expr, $q:expr) => {
            out.emit(&format!("num_consts {} {}", $w, $q), Some(format!("{} {} {} {} {}", <$t as Coefficient>::ONE, <$t as Coefficient>::NEG_ONE, <$t as Coefficient>::ZERO, <$t as Coefficient>::MIN, <$t as Coefficient>::MAX)));
        };
    }
    consts!(i8, 8, 6);
    consts!(i16, 16, 14);
    consts!(i32, 32, 30);
    consts!(i64, 64, 62);
    // quantize(f64) for the four fixed-point types: exactly representable values, ties, the 2^52..2^53 binade
    for i in 0..(n / 4).max(64) {
        let v: f64 = match i % 5 {
            0 => ((1u64 << 52) + rng.below(1 << 52)) as f64 / 4611686018427387904.0 * if rng.chance(1, 2) { -1.0 } else { 1.0 },
            1 => (rng.range(-(1 << 20), 1 << 20) as f64 + 0.5) / 16384.0,
            2 => (rng.next() as i64 as f64) / 9.3e18 * 1.99,
            3 => rng.range(-32768, 32767) as f64 / 16384.0,
            _ => (rng.next() as i64 as f64) / 4611686018427387904.0,
        };
        let b = v.to_bits();
        match i % 4 {
            0 => out.emit(&format!("f_quantize 8 6 {}", b), Some(<i8 as Coefficient>::quantize(v).to_string())),
            1 => out.emit(&format!("f_quantize 16 14 {}", b), Some(<i16 as Coefficient>::quantize(v).to_string())),
            2 => out.emit(&format!("f_quantize 32 30 {}", b), Some(<i32 as Coefficient>::quantize(v).to_string())),
            _ => out.emit(&format!("f_quantize 64 62 {}", b), Some(<i64 as Coefficient>::quantize(v).to_string())),
        }
    }
    for i in 0..n {
        match i % 4 {
            0 => num_one!(i8, i16, 8, 6, rng, out),
            1 => num_one!(i16, i32, 16, 14, rng, out),
            2 => num_one!(i32, i64, 32, 30, rng, out),
            _ => num_one!(i64, i128, 64, 62, rng, out),
        }
    }
}

macro_rules! bq_hist {
    ($t:ty, $w:expr, $q:expr, $rng:expr, $len:expr, $out:expr) => {{
        let rng: &mut Rng = $rng;
        let out: &mut Out = $out;
        let w: u32 = $w;
        let q: u32 = $q;
        let g = w - q;
        let one: $t = 1 << q;
        // coefficient styles: arbitrary, moderate, integrator (a1=-ONE), double integrator (a1=-2ONE,a2=ONE)
        let style = rng.below(6);
        // style 5: everything at full scale, so that PARTIAL sums of the five products overflow the accumulator in a
        // checked build although single products never do (the accumulation order is then visible as PANIC lines)
        let full = style == 5;
        let fs = |rng: &mut Rng| -> $t { [<$t>::MIN, <$t>::MAX, <$t>::MIN + 1, <$t>::MAX - 1, <$t>::MIN / 2, <$t>::MAX / 2 + 1][rng.below(6) as usize] };
        let co = |rng: &mut Rng| -> $t {
            if full { fs(rng) } else if rng.chance(1, 2) { rng.int(w) as $t } else { rng.int(q + 1) as $t }
        };
        let mut ba: [$t; 5] = [co(rng), co(rng), co(rng), co(rng), co(rng)];
        match style {
            0 => { ba[3] = one.wrapping_neg(); ba[4] = 0; }
            1 => { ba[3] = one.wrapping_neg().wrapping_mul(2); ba[4] = one; }
            2 => { ba = [one, 0, 0, 0, 0]; }
            _ => {}
        }
        let mut bq = Biquad::<$t>::from(ba);
        let u = if rng.chance(1, 2) { 0 } else { rng.int(w) as $t };
        bq.set_u(u);
        let (mut mn, mut mx) = (<$t>::MIN, <$t>::MAX);
        if rng.chance(2, 3) {
            mn = rng.int(w) as $t;
            mx = rng.int(w) as $t;
            if mn > mx { core::mem::swap(&mut mn, &mut mx); }
            if rng.chance(19, 20) {
                mn &= !(((1 as $t) << g) - 1);
                mx |= ((1 as $t) << g) - 1;
            }
        }
        bq.set_min(mn);
        bq.set_max(mx);
        let cfg = format!("[{},{},{},{},{},{},{},{}]", ba[0], ba[1], ba[2], ba[3], ba[4], u, mn, mx);
        let small = rng.chance(1, 2);
        let sm = |rng: &mut Rng| -> $t {
            if full { fs(rng) } else if small { rng.int(w / 2) as $t } else { rng.int(w) as $t }
        };
        let form = rng.below(3);
        let xconst = sm(rng);
        let constant = rng.chance(1, 2);
        match form {
            0 => {
                let mut xy: [$t; 4] = [sm(rng), sm(rng), sm(rng), sm(rng)];
                for _ in 0..$len {
                    let x0 = if constant { xconst } else { sm(rng) };
                    let before = xy;
                    let r = guard(|| { let y = bq.update(&mut xy, x0); (xy, y) });
                    out.emit(&format!("bq4 {} {} {} {} {}", w, q, cfg, list(&before), x0),
                        r.map(|(s, y)| format!("{} {}", list(&s), y)));
                    match r { Some((s, _)) => xy = s, None => break }
                }
            }
            1 => {
                let e = if rng.chance(9, 10) { (rng.wide() & ((1u128 << q) - 1)) as $t } else { rng.int(w) as $t };
                let mut xy: [$t; 5] = [sm(rng), sm(rng), sm(rng), sm(rng), e];
                for _ in 0..$len {
                    let x0 = if constant { xconst } else { sm(rng) };
                    let before = xy;
                    let r = guard(|| { let y = bq.update(&mut xy, x0); (xy, y) });
                    out.emit(&format!("bq5 {} {} {} {} {}", w, q, cfg, list(&before), x0),
                        r.map(|(s, y)| format!("{} {}", list(&s), y)));
                    match r { Some((s, _)) => xy = s, None => break }
                }
            }
            _ => {
                let mut xy: [$t; 2] = [sm(rng), sm(rng)];
                for _ in 0..$len {
                    let x0 = if constant { xconst } else { sm(rng) };
                    let before = xy;
                    let r = guard(|| { let y = bq.update(&mut xy, x0); (xy, y) });
                    out.emit(&format!("bq2 {} {} {} {} {}", w, q, cfg, list(&before), x0),
                        r.map(|(s, y)| format!("{} {}", list(&s), y)));
                    match r { Some((s, _)) => xy = s, None => break }
                }
            }
        }
    }};
}

fn fam_biquad(rng: &mut Rng, n: usize, out: &mut Out) {
    macro_rules! special {
        ($t:ty, $w:expr, $q:expr) => {{
            let k = rng.int($w) as $t;
            let sh = |b: &Biquad<$t>| format!("{} {} {} {} {} {} {} {}", b.ba()[0], b.ba()[1], b.ba()[2], b.ba()[3], b.ba()[4], b.u(), b.min(), b.max());
            out.emit(&format!("bq_special {} {} {}", $w, $q, k), Some(format!("{} {} {}", sh(&Biquad::<$t>::IDENTITY), sh(&Biquad::<$t>::HOLD), sh(&Biquad::<$t>::proportional(k)))));
        }};
    }
    for _ in 0..4 { special!(i8, 8, 6); special!(i16, 16, 14); special!(i32, 32, 30); special!(i64, 64, 62); }
    let mut done = 0;
    while done < n {
        let len = 1 + rng.below(30) as usize;
        match rng.below(4) {
            0 => bq_hist!(i8, 8, 6, rng, len, out),
            1 => bq_hist!(i16, 16, 14, rng, len, out),
            2 => bq_hist!(i32, 32, 30, rng, len, out),
            _ => bq_hist!(i64, 64, 62, rng, len, out),
        }
        done += len;
    }
}

// ------------------------------------------------------------------ cossin / atan2 / complex
fn fam_cossin(rng: &mut Rng, n: usize, out: &mut Out) {
    for i in 0..128usize {
        out.emit(&format!("cossin_tab {}", i), Some(verif_cossin_table(i).to_string()));
    }
    for i in 0..n {
        let p = match i % 4 {
            0 => rng.i32(),
            1 => {
                // octant boundaries +- small
                ((rng.below(8) as i64) << 29).wrapping_add(rng.range(-300, 300)) as i32
            }
            2 => {
                // LUT cell boundaries: field multiples of 2^15 (phase multiples of 2^22) +- small
                ((rng.below(1024) as i64) << 22).wrapping_add(rng.range(-200, 200)) as i32
            }
            _ => rng.next() as i32,
        };
        let r = guard(|| cossin(p));
        out.emit(&format!("cossin {}", p), r.map(|(c, s)| format!("{} {}", c, s)));
    }
}

pub fn atan2_pair(rng: &mut Rng) -> (i32, i32) {
    match rng.below(8) {
        0 => (rng.i32(), rng.i32()),
        1 => (rng.range(-64, 64) as i32, rng.range(-64, 64) as i32),
        2 => {
            // near diagonal
            let x = rng.i32();
            let d = rng.range(-2, 2) as i32;
            let y = x.wrapping_add(d);
            if rng.chance(1, 2) { (y, x) } else { (y, x.wrapping_neg()) }
        }
        3 => {
            // near axis
            let x = rng.i32();
            let y = rng.range(-3, 3) as i32;
            if rng.chance(1, 2) { (y, x) } else { (x, y) }
        }
        4 => {
            // both just above a power of two
            let k = rng.below(31) as u32;
            let a = ((1i64 << k) + rng.range(0, 3)).min(i32::MAX as i64) as i32;
            let j = rng.below(31) as u32;
            let b = ((1i64 << j) + rng.range(0, 3)).min(i32::MAX as i64) as i32;
            let sa = if rng.chance(1, 2) { a } else { a.wrapping_neg() };
            let sb = if rng.chance(1, 2) { b } else { b.wrapping_neg() };
            (sa, sb)
        }
        5 => {
            // same magnitude class
            let k = 1 + rng.below(31) as u32;
            let m = (1i64 << k) - 1;
            let a = (rng.next() as i64 & m) as i32;
            let b = (rng.next() as i64 & m) as i32;
            let sa = if rng.chance(1, 2) { a } else { a.wrapping_neg() };
            let sb = if rng.chance(1, 2) { b } else { b.wrapping_neg() };
            (sa, sb)
        }
        _ => (rng.next() as i32, rng.next() as i32),
    }
}

fn fam_atan2(rng: &mut Rng, n: usize, out: &mut Out) {
    // corpus: the (3,3) class
    for (y, x) in [(3, 3), (-3, 3), (3, -3), (-3, -3), (0, 0), (i32::MIN, i32::MIN), (i32::MIN, 0), (0, i32::MIN)] {
        let r = guard(|| atan2(y, x));
        out.emit(&format!("atan2 {} {}", y, x), r.map(|v| v.to_string()));
    }
    for i in 0..n {
        match i % 4 {
            0 | 1 => {
                let (y, x) = atan2_pair(rng);
                let r = guard(|| atan2(y, x));
                out.emit(&format!("atan2 {} {}", y, x), r.map(|v| v.to_string()));
            }
            2 => {
                let (a, b) = atan2_pair(rng);
                let (a, b) = (a.saturating_abs() as u32, b.saturating_abs() as u32);
                let (y, x) = if rng.chance(19, 20) { (a.min(b), a.max(b)) } else { (a, b) };
                let r = guard(|| verif_divi(y, x));
                out.emit(&format!("divi {} {}", y, x), r.map(|v| v.to_string()));
            }
            _ => {
                // quotient-shaped arguments (q << 15) + (1 << 14) and arbitrary words
                let x = if rng.chance(3, 4) {
                    ((rng.below(65540) as u32) << 15).wrapping_add(1 << 14)
                } else {
                    rng.u32()
                };
                let r = guard(|| verif_atani(x));
                out.emit(&format!("atani {}", x), r.map(|v| v.to_string()));
            }
        }
    }
}

fn fam_complex(rng: &mut Rng, n: usize, out: &mut Out) {
    for i in 0..n {
        let (re, im) = (rng.i32(), rng.i32());
        let z = Complex::new(re, im);
        match i % 9 {
            0 => {
                let r = guard(|| z.abs_sqr());
                out.emit(&format!("abs_sqr {} {}", re, im), r.map(|v| v.to_string()));
            }
            1 => {
                let r = guard(|| z.log2());
                out.emit(&format!("log2 {} {}", re, im), r.map(|v| v.to_string()));
            }
            2 => {
                let r = guard(|| z.arg());
                out.emit(&format!("arg {} {}", re, im), r.map(|v| v.to_string()));
            }
            3 => {
                let (c, d) = (rng.i32(), rng.i32());
                let r = z.saturating_add(Complex::new(c, d));
                out.emit(&format!("csat_add {} {} {} {}", re, im, c, d), Some(format!("{} {}", r.re, r.im)));
            }
            4 => {
                let (c, d) = (rng.i32(), rng.i32());
                let r = z.saturating_sub(Complex::new(c, d));
                out.emit(&format!("csat_sub {} {} {} {}", re, im, c, d), Some(format!("{} {}", r.re, r.im)));
            }
            5 => {
                let (c, d) = (rng.i32(), rng.i32());
                let r = guard(|| z.mul_scaled(Complex::new(c, d)));
                out.emit(&format!("cmul_c {} {} {} {}", re, im, c, d), r.map(|v| format!("{} {}", v.re, v.im)));
            }
            6 => {
                let o = rng.i32();
                let r = guard(|| z.mul_scaled(o));
                out.emit(&format!("cmul_i32 {} {} {}", re, im, o), r.map(|v| format!("{} {}", v.re, v.im)));
            }
            7 => {
                let o = rng.i16();
                let r = guard(|| z.mul_scaled(o));
                out.emit(&format!("cmul_i16 {} {} {}", re, im, o), r.map(|v| format!("{} {}", v.re, v.im)));
            }
            _ => {
                // unit vectors: abs_sqr/log2/arg of from_angle
                let p = rng.next() as i32;
                let z = Complex::<i32>::from_angle(p);
                let r = guard(|| (z.abs_sqr(), z.log2(), z.arg()));
                if let Some((a, l, g)) = r {
                    out.emit(&format!("abs_sqr {} {}", z.re, z.im), Some(a.to_string()));
                    out.emit(&format!("log2 {} {}", z.re, z.im), Some(l.to_string()));
                    out.emit(&format!("arg {} {}", z.re, z.im), Some(g.to_string()));
                }
            }
        }
    }
}

fn fam_lockin(rng: &mut Rng, n: usize, out: &mut Out) {
    let mut done = 0;
    while done < n {
        let len = 1 + rng.below(40) as usize;
        let k = rng.range(1 << 20, 1 << 25) as f64;
        let (k0, k1) = if rng.chance(4, 5) {
            ((k * k / 4294967296.0) as i32, (-k * std::f64::consts::SQRT_2) as i32)
        } else {
            (rng.i32(), rng.i32())
        };
        let mut st: [[i64; 2]; 2] = if rng.chance(2, 3) { [[0; 2]; 2] } else { [[rng.i64(), rng.i64()], [rng.i64(), rng.i64()]] };
        let amp = rng.range(1 << 23, 1 << 30) as f64;
        let f = rng.i32();
        let mut ph = rng.i32();
        let th = rng.next() as f64;
        for _ in 0..len {
            ph = ph.wrapping_add(f);
            let sample = if rng.chance(1, 10) {
                rng.i32()
            } else {
                (amp * ((ph as f64) * std::f64::consts::PI / 2147483648.0 + th).cos()) as i32
            };
            let before = st;
            let use_iq = rng.chance(1, 3);
            let lo = if rng.chance(1, 2) { Complex::<i32>::from_angle(ph) } else { Complex::new(rng.i32(), rng.i32()) };
            let mut l = Lockin::<Lowpass<2>>::verif_from_raw([Lowpass::verif_from_raw(st[0]), Lowpass::verif_from_raw(st[1])]);
            let r = guard(|| {
                let y = if use_iq { l.update_iq(sample, lo, &[k0, k1]) } else { l.update(sample, ph, &[k0, k1]) };
                let s = l.verif_raw();
                ([s[0].verif_raw(), s[1].verif_raw()], y)
            });
            let flat = [before[0][0], before[0][1], before[1][0], before[1][1]];
            let lhs = if use_iq {
                format!("lockin_iq {} {} {} {} {} {}", list(&flat), sample, lo.re, lo.im, k0, k1)
            } else {
                format!("lockin {} {} {} {} {}", list(&flat), sample, ph, k0, k1)
            };
            out.emit(&lhs, r.map(|(s, y)| format!("{} {} {}", list(&[s[0][0], s[0][1], s[1][0], s[1][1]]), y.re, y.im)));
            match r {
                Some((s, _)) => st = s,
                None => break,
            }
        }
        done += len;
    }
}

// ------------------------------------------------------------------ rpll
fn fam_rpll(rng: &mut Rng, n: usize, out: &mut Out) {
    for dt2 in 0..=12u32 {
        let (d, x, ff, f, y) = RPLL::new(dt2).verif_raw();
        out.emit(&format!("ctor_rpll {}", dt2), Some(format!("{} {} {} {} {}", d, x, ff, f, y)));
    }
    let mut done = 0;
    while done < n {
        let len = 1 + rng.below(120) as usize;
        let dt2 = if rng.chance(9, 10) { 2 + rng.below(10) as u32 } else { rng.below(34) as u32 };
        let (sf, sp) = if rng.chance(9, 10) {
            let sf = (dt2 + 1 + rng.below(12) as u32).min(30);
            (sf, if rng.chance(1, 2) { sf } else { sf.saturating_sub(1) })
        } else {
            (rng.below(40) as u32, rng.below(40) as u32)
        };
        let period = rng.range((1i64 << dt2.min(20)) + 1, (1i64 << sf.min(30).max(dt2.min(20) + 1)).max((1i64 << dt2.min(20)) + 2)) as i32;
        let mut r = if rng.chance(2, 3) {
            RPLL::new(dt2)
        } else {
            RPLL::verif_from_raw(dt2, rng.i32(), rng.u32(), rng.u32(), rng.i32())
        };
        let mut time: i32 = if rng.chance(1, 2) { i32::MAX - rng.below(100000) as i32 } else { rng.i32() };
        time &= !((1i32 << dt2.min(30)) - 1);
        let mut next = time.wrapping_add(rng.below(period as u64) as i32);
        let arbitrary = rng.chance(1, 8);
        for _ in 0..len {
            let step = 1i32.checked_shl(dt2).unwrap_or(0);
            time = time.wrapping_add(step);
            let inp = if arbitrary {
                if rng.chance(1, 2) { Some(rng.i32()) } else { None }
            } else if time.wrapping_sub(next) >= 0 {
                let t = next;
                next = next.wrapping_add(period);
                Some(t)
            } else {
                None
            };
            let (a, b, c, d, e) = r.verif_raw();
            let res = guard(|| {
                let o = r.update(inp, sf, sp);
                (r.verif_raw(), o, (r.phase(), r.frequency()))
            });
            out.emit(
                &format!("rpll {} {} {} {} {} {} {} {}", a, b, c, d, e, opt(inp), sf, sp),
                res.map(|((_, x, ff, f, y), (py, pf), _)| format!("{} {} {} {} {} {}", x, ff, f, y, py, pf)),
            );
            match res {
                Some((_, o, g)) => assert_eq!(o, g),
                None => break,
            }
        }
        done += len;
    }
}

fn fam_sweep(rng: &mut Rng, n: usize, out: &mut Out) {
    for _ in 0..n {
        let (rate, state) = (rng.i32(), rng.i64());
        let mut s = Sweep::new(rate, state);
        let r = guard(|| {
            let it = s.next().unwrap();
            (s.state, it)
        });
        out.emit(&format!("sweep {} {}", rate, state), r.map(|(a, b)| format!("{} {}", a, b)));
    }
}

// ------------------------------------------------------------------ half-band filters
pub fn f32_stream(rng: &mut Rng, len: usize) -> Vec<f32> {
    let style = rng.below(4);
    (0..len)
        .map(|i| match style {
            0 => (rng.range(-1000, 1000) as f32) / 64.0,
            1 => f32::from_bits(0x3000_0000 + (rng.next() as u32 & 0x1fff_ffff)) * if rng.chance(1, 2) { -1.0 } else { 1.0 },
            2 => if i == 0 { 1.0 } else { 0.0 },
            _ => (rng.next() as i32 as f32) / 2147483648.0,
        })
        .collect()
}

/// cut `total` (a multiple of `gran`) into blocks that are multiples of `gran`, at most `max`, possibly empty
pub fn partition(rng: &mut Rng, total: usize, gran: usize, max: usize) -> Vec<usize> {
    let mut v = vec![];
    let mut left = total;
    while left > 0 {
        let cap = left.min(max) / gran;
        let b = match rng.below(6) {
            0 => 0,
            1 => 1,
            2 => cap,
            _ => rng.below(cap as u64 + 1) as usize,
        } * gran;
        v.push(b);
        left -= b;
    }
    if rng.chance(1, 2) {
        v.push(0);
    }
    v
}

macro_rules! hbf_stage {
    ($rng:expr, $out:expr, $id:expr, $taps:expr, $m:expr, $extra:expr) => {{
        let rng: &mut Rng = $rng;
        let out: &mut Out = $out;
        const M: usize = $m;
        const N: usize = 2 * M - 1 + $extra;
        let taps: &[f32; M] = $taps;
        let tb: Vec<u32> = taps.iter().map(|t| t.to_bits()).collect();
        let inplace = rng.chance(1, 2);
        match rng.below(4) {
            0 => {
                let mut h = HbfDec::<f32, M, N>::new(taps);
                out.emit(&format!("hbf_bmax 0 {} {}", N, M), Some(h.block_size().1.to_string()));
                out.emit(&format!("hbf_bmax 1 {} {}", N, M), Some(HbfInt::<f32, M, N>::new(taps).block_size().1.to_string()));
                out.emit(&format!("hbf_new {} 0 {} {}", $id, N, list(&tb)), Some("ok".into()));
                let (g, mx) = h.block_size();
                let total = g * rng.below(3 * mx as u64 / g as u64 + 1) as usize;
                let x = f32_stream(rng, total);
                let mut pos = 0;
                for b in partition(rng, total, g, mx) {
                    let xin: Vec<f32> = x[pos..pos + b].to_vec();
                    pos += b;
                    let r = guard(|| {
                        if inplace {
                            let mut y = xin.clone();
                            h.process_block(None, &mut y).to_vec()
                        } else {
                            let mut y = vec![0f32; b / 2];
                            h.process_block(Some(&xin), &mut y).to_vec()
                        }
                    });
                    let xb: Vec<u32> = xin.iter().map(|v| v.to_bits()).collect();
                    out.emit(&format!("hbf_proc {} {}", $id, list(&xb)),
                        r.map(|y| list(&y.iter().map(|v| v.to_bits()).collect::<Vec<_>>())));
                }
            }
            1 => {
                let mut h = HbfInt::<f32, M, N>::new(taps);
                assert!(h.buf_mut().len() == N - (2 * M - 1), "buf_mut() is the input part of the state");
                out.emit(&format!("hbf_new {} 1 {} {}", $id, N, list(&tb)), Some("ok".into()));
                let (g, mx) = h.block_size();
                let total = (g / 2) * rng.below(3 * mx as u64 / g as u64 + 1) as usize;
                let x = f32_stream(rng, total);
                let mut pos = 0;
                for b in partition(rng, total, g / 2, mx / 2) {
                    let xin: Vec<f32> = x[pos..pos + b].to_vec();
                    pos += b;
                    let r = guard(|| {
                        let mut y = vec![0f32; 2 * b];
                        if inplace {
                            y[..b].copy_from_slice(&xin);
                            h.process_block(None, &mut y).to_vec()
                        } else {
                            h.process_block(Some(&xin), &mut y).to_vec()
                        }
                    });
                    let xb: Vec<u32> = xin.iter().map(|v| v.to_bits()).collect();
                    out.emit(&format!("hbf_proc {} {}", $id, list(&xb)),
                        r.map(|y| list(&y.iter().map(|v| v.to_bits()).collect::<Vec<_>>())));
                }
            }
            2 => {
                let mut t64 = [0f64; M];
                for (a, b) in t64.iter_mut().zip(taps.iter()) { *a = *b as f64; }
                let mut h = HbfDec::<f64, M, N>::new(&t64);
                let tb: Vec<u64> = t64.iter().map(|t| t.to_bits()).collect();
                out.emit(&format!("hbf_new {} 2 {} {}", $id, N, list(&tb)), Some("ok".into()));
                let (g, mx) = h.block_size();
                let total = g * rng.below(3 * mx as u64 / g as u64 + 1) as usize;
                let x: Vec<f64> = f32_stream(rng, total).iter().map(|v| *v as f64 * 1.0000001).collect();
                let mut pos = 0;
                for b in partition(rng, total, g, mx) {
                    let xin: Vec<f64> = x[pos..pos + b].to_vec();
                    pos += b;
                    let r = guard(|| {
                        let mut y = xin.clone();
                        h.process_block(None, &mut y).to_vec()
                    });
                    let xb: Vec<u64> = xin.iter().map(|v| v.to_bits()).collect();
                    out.emit(&format!("hbf_proc {} {}", $id, list(&xb)),
                        r.map(|y| list(&y.iter().map(|v| v.to_bits()).collect::<Vec<_>>())));
                }
            }
            _ => {
                let mut t64 = [0f64; M];
                for (a, b) in t64.iter_mut().zip(taps.iter()) { *a = *b as f64; }
                let mut h = HbfInt::<f64, M, N>::new(&t64);
                let tb: Vec<u64> = t64.iter().map(|t| t.to_bits()).collect();
                out.emit(&format!("hbf_new {} 3 {} {}", $id, N, list(&tb)), Some("ok".into()));
                let (g, mx) = h.block_size();
                let total = (g / 2) * rng.below(3 * mx as u64 / g as u64 + 1) as usize;
                let x: Vec<f64> = f32_stream(rng, total).iter().map(|v| *v as f64 * 1.0000001).collect();
                let mut pos = 0;
                for b in partition(rng, total, g / 2, mx / 2) {
                    let xin: Vec<f64> = x[pos..pos + b].to_vec();
                    pos += b;
                    let r = guard(|| {
                        let mut y = vec![0f64; 2 * b];
                        y[..b].copy_from_slice(&xin);
                        h.process_block(None, &mut y).to_vec()
                    });
                    let xb: Vec<u64> = xin.iter().map(|v| v.to_bits()).collect();
                    out.emit(&format!("hbf_proc {} {}", $id, list(&xb)),
                        r.map(|y| list(&y.iter().map(|v| v.to_bits()).collect::<Vec<_>>())));
                }
            }
        }
    }};
}

fn fam_hbf(rng: &mut Rng, n: usize, out: &mut Out) {
    // register the cascade tap sets
    let sets: [&[f32]; 4] = [&HBF_TAPS.0, &HBF_TAPS.1, &HBF_TAPS.2, &HBF_TAPS.3];
    for (i, t) in sets.iter().enumerate() {
        let tb: Vec<u32> = t.iter().map(|t| t.to_bits()).collect();
        out.emit(&format!("hbf_taps {} {}", i, list(&tb)), Some("ok".into()));
    }
    let ms: Vec<usize> = sets.iter().map(|t| t.len()).collect();
    for depth in 0..=4usize {
        let mut d = HbfDecCascade::default();
        d.set_depth(depth);
        out.emit(&format!("hbf_rlen 0 {} {}", list(&ms), depth), Some(d.response_length().to_string()));
        let mut d = HbfIntCascade::default();
        d.set_depth(depth);
        out.emit(&format!("hbf_rlen 1 {} {}", list(&ms), depth), Some(d.response_length().to_string()));
    }
    let start = out.lines;
    let mut id = 0i64;
    while out.lines - start < n {
        id += 1;
        match rng.below(14) {
            0 => hbf_stage!(rng, out, id, &HBF_TAPS.0, 23, 16),
            1 => hbf_stage!(rng, out, id, &HBF_TAPS.1, 9, 16),
            2 => hbf_stage!(rng, out, id, &HBF_TAPS.2, 5, 16),
            3 => hbf_stage!(rng, out, id, &HBF_TAPS.3, 4, 16),
            4 => hbf_stage!(rng, out, id, &HBF_TAPS.4, 3, 7),
            5 => hbf_stage!(rng, out, id, &HBF_TAPS_98.0, 15, 16),
            6 => hbf_stage!(rng, out, id, &HBF_TAPS_98.1, 6, 3),
            7 => hbf_stage!(rng, out, id, &HBF_TAPS_98.2, 3, 16),
            8 => hbf_stage!(rng, out, id, &HBF_TAPS_98.4, 2, 1),
            9 => hbf_stage!(rng, out, id, &[0.5f32], 1, 4),
            10 => {
                // integer sample types (`impl Half for i32 / i64`): small taps and samples, nothing overflows
                macro_rules! int_stage {
                    ($t:ty, $m:expr, $extra:expr) => {{
                        const M: usize = $m;
                        const N: usize = 2 * M - 1 + $extra;
                        let mut taps = [0 as $t; M];
                        for t in taps.iter_mut() { *t = rng.range(-9, 9) as $t; }
                        let tl: Vec<i64> = taps.iter().map(|v| *v as i64).collect();
                        if rng.chance(1, 2) {
                            let mut h = HbfDec::<$t, M, N>::new(&taps);
                            out.emit(&format!("hbf_new {} 4 {} {}", id, N, list(&tl)), Some("ok".into()));
                            let (g, mx) = h.block_size();
                            let total = g * rng.below(3 * mx as u64 / g as u64 + 1) as usize;
                            for b in partition(rng, total, g, mx) {
                                let xin: Vec<$t> = (0..b).map(|_| rng.range(-100000, 100000) as $t).collect();
                                let r = guard(|| { let mut y = xin.clone(); h.process_block(None, &mut y).to_vec() });
                                out.emit(&format!("hbf_proc {} {}", id, list(&xin)), r.map(|y| list(&y)));
                            }
                        } else {
                            let mut h = HbfInt::<$t, M, N>::new(&taps);
                            out.emit(&format!("hbf_new {} 5 {} {}", id, N, list(&tl)), Some("ok".into()));
                            let (g, mx) = h.block_size();
                            let total = (g / 2) * rng.below(3 * mx as u64 / g as u64 + 1) as usize;
                            for b in partition(rng, total, g / 2, mx / 2) {
                                let xin: Vec<$t> = (0..b).map(|_| rng.range(-100000, 100000) as $t).collect();
                                let r = guard(|| { let mut y = vec![0 as $t; 2 * b]; y[..b].copy_from_slice(&xin); h.process_block(None, &mut y).to_vec() });
                                out.emit(&format!("hbf_proc {} {}", id, list(&xin)), r.map(|y| list(&y)));
                            }
                        }
                    }};
                }
                match rng.below(3) { 0 => int_stage!(i32, 4, 16), 1 => int_stage!(i64, 7, 9), _ => int_stage!(i32, 1, 4) }
            }
            _ => {
                // cascades, in place
                let depth = rng.below(5) as usize;
                if rng.chance(1, 2) {
                    let mut h = HbfDecCascade::default();
                    h.set_depth(depth);
                    out.emit(&format!("hbf_newc {} 0 {}", id, depth), Some("ok".into()));
                    let (g, mx) = h.block_size();
                    let mx = mx.min(1 << 11);
                    let total = g * rng.below(2 * mx as u64 / g as u64 + 1) as usize;
                    let x = f32_stream(rng, total);
                    let mut pos = 0;
                    for b in partition(rng, total, g, mx) {
                        let xin: Vec<f32> = x[pos..pos + b].to_vec();
                        pos += b;
                        let r = guard(|| {
                            let mut y = xin.clone();
                            h.process_block(None, &mut y).to_vec()
                        });
                        let xb: Vec<u32> = xin.iter().map(|v| v.to_bits()).collect();
                        out.emit(&format!("hbf_proc {} {}", id, list(&xb)),
                            r.map(|y| list(&y.iter().map(|v| v.to_bits()).collect::<Vec<_>>())));
                    }
                } else {
                    let mut h = HbfIntCascade::default();
                    h.set_depth(depth);
                    out.emit(&format!("hbf_newc {} 1 {}", id, depth), Some("ok".into()));
                    let (g, mx) = h.block_size();
                    let mx = mx.min(1 << 11);
                    let total = rng.below(2 * mx as u64 / g as u64 + 1) as usize;
                    let x = f32_stream(rng, total);
                    let mut pos = 0;
                    for b in partition(rng, total, 1, mx / g) {
                        let xin: Vec<f32> = x[pos..pos + b].to_vec();
                        pos += b;
                        let r = guard(|| {
                            let mut y = vec![0f32; b << depth];
                            y[..b].copy_from_slice(&xin);
                            h.process_block(None, &mut y).to_vec()
                        });
                        let xb: Vec<u32> = xin.iter().map(|v| v.to_bits()).collect();
                        out.emit(&format!("hbf_proc {} {}", id, list(&xb)),
                            r.map(|y| list(&y.iter().map(|v| v.to_bits()).collect::<Vec<_>>())));
                    }
                }
            }
        }
    }
}

#[allow(dead_code)]
fn unused(_: i128) -> i128 {
    wrap(0, 8)
}

// ------------------------------------------------------------------ float biquad / coefficient builders / PID
fn rfloat(rng: &mut Rng) -> f64 {
    match rng.below(6) {
        0 => 0.0,
        1 => rng.range(-8, 8) as f64,
        2 => rng.range(-1000, 1000) as f64 / 128.0,
        3 => (rng.next() as i64 as f64) / 9.3e18,
        4 => f64::from_bits(0x3f00_0000_0000_0000 + (rng.next() & 0x00ff_ffff_ffff_ffff)) * if rng.chance(1, 2) { -1.0 } else { 1.0 },
        _ => rng.range(-100000, 100000) as f64 / 7.0,
    }
}

macro_rules! fbq_hist {
    ($t:ty, $bits:expr, $rng:expr, $len:expr, $out:expr) => {{
        let rng: &mut Rng = $rng;
        let out: &mut Out = $out;
        let style = rng.below(4);
        let mut ba: [$t; 5] = [rfloat(rng) as $t, rfloat(rng) as $t, rfloat(rng) as $t, rfloat(rng) as $t / 4.0, rfloat(rng) as $t / 8.0];
        match style {
            0 => { ba[3] = -1.0; ba[4] = 0.0; }
            1 => { ba[3] = -2.0; ba[4] = 1.0; }
            _ => {}
        }
        let mut bq = Biquad::<$t>::from(ba);
        let u = if rng.chance(1, 2) { 0.0 } else { rfloat(rng) as $t };
        bq.set_u(u);
        let (mut mn, mut mx) = (<$t>::NEG_INFINITY, <$t>::INFINITY);
        if rng.chance(2, 3) {
            mn = rfloat(rng) as $t;
            mx = rfloat(rng) as $t;
            if mn > mx { core::mem::swap(&mut mn, &mut mx); }
        }
        bq.set_min(mn);
        bq.set_max(mx);
        let b = |v: $t| v.to_bits();
        let cfg = format!("[{},{},{},{},{},{},{},{}]", b(ba[0]), b(ba[1]), b(ba[2]), b(ba[3]), b(ba[4]), b(u), b(mn), b(mx));
        let constant = rng.chance(1, 2);
        let xc = rfloat(rng) as $t;
        match rng.below(3) {
            0 => {
                let mut xy: [$t; 4] = [rfloat(rng) as $t, rfloat(rng) as $t, rfloat(rng) as $t, rfloat(rng) as $t];
                for _ in 0..$len {
                    let mut x0 = if constant { xc } else { rfloat(rng) as $t };
                    // now and then an infinite or NaN sample (the clamp must still hold the output inside the limits)
                    let special = rng.chance(1, 40);
                    if special { x0 = [<$t>::INFINITY, <$t>::NEG_INFINITY, <$t>::NAN][rng.below(3) as usize]; }
                    let before = xy;
                    let y = bq.update(&mut xy, x0);
                    if !y.is_finite() && !special { break; }
                    out.emit(&format!("f_bq4 {} {} {} {}", $bits, cfg, list(&before.map(b)), b(x0)), Some(format!("{} {}", list(&xy.map(b)), b(y))));
                    if special { break; }
                }
            }
            1 => {
                let mut xy: [$t; 5] = [rfloat(rng) as $t, rfloat(rng) as $t, rfloat(rng) as $t, rfloat(rng) as $t, rfloat(rng) as $t];
                for _ in 0..$len {
                    let x0 = if constant { xc } else { rfloat(rng) as $t };
                    let before = xy;
                    let y = bq.update(&mut xy, x0);
                    if !y.is_finite() { break; }
                    out.emit(&format!("f_bq5 {} {} {} {}", $bits, cfg, list(&before.map(b)), b(x0)), Some(format!("{} {}", list(&xy.map(b)), b(y))));
                }
            }
            _ => {
                let mut xy: [$t; 2] = [rfloat(rng) as $t, rfloat(rng) as $t];
                for _ in 0..$len {
                    let x0 = if constant { xc } else { rfloat(rng) as $t };
                    let before = xy;
                    let y = bq.update(&mut xy, x0);
                    if !y.is_finite() || !xy[0].is_finite() || !xy[1].is_finite() { break; }
                    out.emit(&format!("f_bq2 {} {} {} {}", $bits, cfg, list(&before.map(b)), b(x0)), Some(format!("{} {}", list(&xy.map(b)), b(y))));
                }
            }
        }
    }};
}

fn fam_fbiquad(rng: &mut Rng, n: usize, out: &mut Out) {
    out.emit("f_consts 32", Some(list(&[<f32 as Coefficient>::ONE, <f32 as Coefficient>::NEG_ONE, <f32 as Coefficient>::ZERO, <f32 as Coefficient>::MIN, <f32 as Coefficient>::MAX].map(|v| v.to_bits()))));
    out.emit("f_consts 64", Some(list(&[<f64 as Coefficient>::ONE, <f64 as Coefficient>::NEG_ONE, <f64 as Coefficient>::ZERO, <f64 as Coefficient>::MIN, <f64 as Coefficient>::MAX].map(|v| v.to_bits()))));
    let start = out.lines;
    while out.lines - start < n {
        let len = 1 + rng.below(30) as usize;
        if rng.chance(1, 2) {
            fbq_hist!(f32, 32, rng, len, out);
        } else {
            fbq_hist!(f64, 64, rng, len, out);
        }
    }
}

pub fn coeff_params(rng: &mut Rng) -> (f64, idsp::iir::Shape<f64>, i64, f64, f64, f64) {
    // f0 over 1e-4..0.49 (log), shape 0.1..50 (log), gain +-1e-2..1e2, shelf 1e-2..1e2
    let lg = |rng: &mut Rng, lo: f64, hi: f64| -> f64 { (lo.ln() + (hi.ln() - lo.ln()) * (rng.below(1 << 20) as f64 / (1 << 20) as f64)).exp() };
    let f0 = lg(rng, 1e-4, 0.49);
    let sv = lg(rng, 0.1, 50.0);
    let sk = rng.below(3) as i64;
    let shape = match sk { 0 => idsp::iir::Shape::Q(sv), 1 => idsp::iir::Shape::Bandwidth(sv), _ => idsp::iir::Shape::Slope(sv) };
    let gain = lg(rng, 1e-2, 1e2) * if rng.chance(1, 3) { -1.0 } else { 1.0 };
    let shelf = lg(rng, 1e-2, 1e2);
    (f0, shape, sk, sv, gain, shelf)
}

/// apply the builder's setters in a random order (shape before or after frequency / shelf, frequency re-tuned):
/// the result must depend only on the final parameter values
pub fn coeff_setup(rng: &mut Rng, f: &mut idsp::iir::Filter<f64>, w0: f64, shape: idsp::iir::Shape<f64>, gain: f64, shelf: f64) {
    coeff_setup_f0(rng, f, None, w0, shape, gain, shelf)
}

/// as `coeff_setup`; when the relative frequency `f0` is given (`w0 == TAU * f0` bit for bit) the frequency is set
/// through one of the three spellings (`angular_critical_frequency`, `critical_frequency`, `frequency(cf, fs)` with a
/// power-of-two sample rate so that `cf / fs == f0` exactly), and `Q` possibly through `inverse_q`
pub fn coeff_setup_f0(rng: &mut Rng, f: &mut idsp::iir::Filter<f64>, f0: Option<f64>, w0: f64, shape: idsp::iir::Shape<f64>, gain: f64, shelf: f64) {
    let mut order: [u8; 4] = [0, 1, 2, 3];
    for i in (1..4).rev() {
        let j = rng.below(i as u64 + 1) as usize;
        order.swap(i, j);
    }
    if rng.chance(1, 3) {
        // a previous tuning that is overwritten below
        f.angular_critical_frequency(w0 * 0.37).shelf(shelf * 3.0).gain(-gain);
        f.set_shape(match shape {
            idsp::iir::Shape::Q(v) => idsp::iir::Shape::Bandwidth(v),
            idsp::iir::Shape::Bandwidth(v) => idsp::iir::Shape::Slope(v.min(0.9)),
            idsp::iir::Shape::Slope(v) => idsp::iir::Shape::Q(v),
        });
    }
    for o in order {
        match o {
            0 => {
                match (f0, rng.below(3)) {
                    (Some(f0), 1) => { f.critical_frequency(f0); }
                    (Some(f0), 2) => { let fs = (1u64 << rng.below(24)) as f64; f.frequency(f0 * fs, fs); }
                    _ => { f.angular_critical_frequency(w0); }
                }
            }
            1 => { f.gain(gain); }
            2 => { f.shelf(shelf); }
            _ => {
                match shape {
                    idsp::iir::Shape::Q(v) => {
                        // inverse_q(qi) is q(1/qi): only used when the reciprocal round-trips exactly
                        let qi = 1.0 / v;
                        match rng.below(3) { 0 => { f.q(v); } 1 if 1.0 / qi == v => { f.inverse_q(qi); } _ => { f.set_shape(shape); } }
                    }
                    idsp::iir::Shape::Bandwidth(v) => { if rng.chance(1, 2) { f.bandwidth(v); } else { f.set_shape(shape); } }
                    idsp::iir::Shape::Slope(v) => { if rng.chance(1, 2) { f.shelf_slope(v); } else { f.set_shape(shape); } }
                }
            }
        }
    }
}

pub fn coeff_build(f: &idsp::iir::Filter<f64>, typ: u64) -> [[f64; 3]; 2] {
    match typ {
        0 => f.lowpass(),
        1 => f.highpass(),
        2 => f.bandpass(),
        3 => f.allpass(),
        4 => f.notch(),
        5 => f.peaking(),
        6 => f.lowshelf(),
        7 => f.highshelf(),
        _ => f.iho(),
    }
}

fn fam_coeff(rng: &mut Rng, n: usize, out: &mut Out) {
    for i in 0..n {
        let (f0, shape, sk, sv, gain, shelf) = coeff_params(rng);
        let w0 = std::f64::consts::TAU * f0;
        let typ = rng.below(9);
        let mut f = idsp::iir::Filter::<f64>::default();
        coeff_setup_f0(rng, &mut f, Some(f0), w0, shape, gain, shelf);
        let ba = coeff_build(&f, typ);
        let flat = [ba[0][0], ba[0][1], ba[0][2], ba[1][0], ba[1][1], ba[1][2]];
        out.emit(
            &format!("f_coeff {} {} {} {} {} {}", typ, sk, sv.to_bits(), w0.to_bits(), gain.to_bits(), shelf.to_bits()),
            Some(list(&flat.map(|v| v.to_bits()))),
        );
        // slopes above 0.9 are left to the f64 stream: near the critical slope the radicand is a cancellation and the
        // binary32 result is ill-conditioned (no meaningful tolerance)
        if i % 3 == 0 && f0 >= 1e-2 && sv <= 10.0 && !(sk == 2 && sv > 0.9) {
            // the f32 instantiation of the builder (op f_coeff32, binary32 model arithmetic)
            let (w32, sv32, g32, sh32) = (w0 as f32, sv as f32, gain as f32, shelf as f32);
            let mut f = idsp::iir::Filter::<f32>::default();
            f.angular_critical_frequency(w32).gain(g32).shelf(sh32);
            match sk { 0 => { f.q(sv32); } 1 => { f.bandwidth(sv32); } _ => { f.shelf_slope(sv32); } }
            let ba = match typ { 0 => f.lowpass(), 1 => f.highpass(), 2 => f.bandpass(), 3 => f.allpass(), 4 => f.notch(), 5 => f.peaking(), 6 => f.lowshelf(), 7 => f.highshelf(), _ => f.iho() };
            let flat = [ba[0][0], ba[0][1], ba[0][2], ba[1][0], ba[1][1], ba[1][2]];
            // non-finite results (the slope-radicand finding class) are compared in the f64 stream only: with NaN in
            // a polynomial there is no meaningful scale for the binary32 tolerance
            if flat.iter().all(|v| v.is_finite()) {
                out.emit(
                    &format!("f_coeff32 {} {} {} {} {} {}", typ, sk, sv32.to_bits(), w32.to_bits(), g32.to_bits(), sh32.to_bits()),
                    Some(list(&flat.map(|v| v.to_bits()))),
                );
            }
        }
        if i % 2 == 0 && flat.iter().all(|v| v.is_finite()) {
            let fb = list(&flat.map(|v| v.to_bits()));
            match i % 6 {
                0 => {
                    let r = guard(|| *Biquad::<i16>::from(&ba).ba());
                    if let Some(c) = r { out.emit(&format!("f_from_ba 16 14 {}", fb), Some(list(&c))); }
                }
                2 => {
                    let r = guard(|| *Biquad::<i32>::from(&ba).ba());
                    if let Some(c) = r { out.emit(&format!("f_from_ba 32 30 {}", fb), Some(list(&c))); }
                }
                _ => {
                    let r = guard(|| *Biquad::<i64>::from(&ba).ba());
                    if let Some(c) = r { out.emit(&format!("f_from_ba 64 62 {}", fb), Some(list(&c))); }
                }
            }
        }
    }
}

/// apply the PidBuilder setters in a random order (limits before gains, period/order last, overwritten values):
/// the result must depend only on the final values
pub fn pid_setup(rng: &mut Rng, b: &mut idsp::iir::PidBuilder<f64>, period: f64, order: idsp::iir::Order, gains: &[f64; 5], limits: &[f64; 5]) {
    use idsp::iir::Action;
    let acts = [Action::I2, Action::I, Action::P, Action::D, Action::D2];
    let mut steps: Vec<u8> = (0..12).collect();
    for i in (1..steps.len()).rev() {
        let j = rng.below(i as u64 + 1) as usize;
        steps.swap(i, j);
    }
    if rng.chance(1, 4) {
        for a in acts.iter() {
            b.gain(*a, -3.0).limit(*a, 7.0);
        }
    }
    for s in steps {
        match s {
            0..=4 => { if gains[s as usize] != 0.0 || rng.chance(1, 2) { b.gain(acts[s as usize], gains[s as usize]); } }
            5..=9 => { b.limit(acts[s as usize - 5], limits[s as usize - 5]); }
            10 => { b.period(period); }
            _ => { b.order(order); }
        }
    }
    // a zero gain that was never set equals the default; make sure overwritten gains are reset
    for (j, a) in acts.iter().enumerate() {
        if gains[j] == 0.0 { b.gain(*a, 0.0); }
    }
}

fn fam_pid(rng: &mut Rng, n: usize, out: &mut Out) {
    use idsp::iir::{Action, Order, PidBuilder};
    let acts = [Action::I2, Action::I, Action::P, Action::D, Action::D2];
    for i in 0..n {
        let dec = |rng: &mut Rng| -> f64 { 10f64.powi(rng.range(-6, 3) as i32) * (1.0 + rng.below(900) as f64 / 100.0) };
        let period = 10f64.powi(rng.range(-4, 1) as i32) * (1.0 + rng.below(9) as f64);
        let order = [Order::P, Order::I, Order::I2][rng.below(3) as usize];
        let sign = if rng.chance(1, 4) { -1.0 } else { 1.0 };
        let mut b = PidBuilder::<f64>::default();
        let mut gains = [0f64; 5];
        let mut limits = [f64::INFINITY; 5];
        for j in 0..5 {
            if rng.chance(1, 2) { gains[j] = sign * dec(rng) * if i % 4 == 0 { 1e-3 } else { 1.0 }; }
            if rng.chance(1, 3) { limits[j] = sign * dec(rng); }
        }
        pid_setup(rng, &mut b, period, order, &gains, &limits);
        let lhs = |w: u32, q: u32| format!("f_pid {} {} {} {} {} {}", w, q, period.to_bits(), order as usize, list(&gains.map(|v| v.to_bits())), list(&limits.map(|v| v.to_bits())));
        // integer coefficient types only in the checked profile (an overflowing build must panic there; in release it wraps)
        match if crate::MODE == 'C' { i % 4 } else { 0 } {
            0 => {
                let c: [f64; 5] = b.build();
                if c.iter().all(|v| v.is_finite()) { out.emit(&lhs(0, 0), Some(list(&c.map(|v| v.to_bits())))); }
            }
            1 => { if let Some(c) = guard(|| b.build::<i32>()) { out.emit(&lhs(32, 30), Some(list(&c))); } }
            2 => { if let Some(c) = guard(|| b.build::<i64>()) { out.emit(&lhs(64, 62), Some(list(&c))); } }
            _ => { if let Some(c) = guard(|| b.build::<i16>()) { out.emit(&lhs(16, 14), Some(list(&c))); } }
        }
        // the f32 instantiation of the builder, with gains many decades apart (op f_pid32, compared per gain)
        if i % 2 == 0 {
            let dec = |rng: &mut Rng| -> f32 { 10f32.powi(rng.range(-9, 4) as i32) * (1.0 + rng.below(900) as f32 / 100.0) };
            let period = 10f32.powi(rng.range(-3, 1) as i32) * (1.0 + rng.below(9) as f32);
            let order = [Order::P, Order::I, Order::I2][rng.below(3) as usize];
            let sign: f32 = if rng.chance(1, 4) { -1.0 } else { 1.0 };
            let mut b = PidBuilder::<f32>::default();
            let mut gains = [0f32; 5];
            let mut limits = [f32::INFINITY; 5];
            for j in 0..5 {
                if rng.chance(2, 3) { gains[j] = sign * dec(rng); }
                if rng.chance(1, 4) { limits[j] = sign * dec(rng) * 1e3; }
            }
            b.period(period).order(order);
            for j in 0..5 { b.gain(acts[j], gains[j]).limit(acts[j], limits[j]); }
            let lhs = |w: u32, q: u32| format!("f_pid32 {} {} {} {} {} {}", w, q, period.to_bits(), order as usize, list(&gains.map(|v| v.to_bits())), list(&limits.map(|v| v.to_bits())));
            match if crate::MODE == 'C' { (i / 2) % 3 } else { 0 } {
                0 => {
                    let c: [f64; 5] = b.build();
                    if c.iter().all(|v| v.is_finite()) { out.emit(&lhs(0, 0), Some(list(&c.map(|v| v.to_bits())))); }
                }
                1 => { if let Some(c) = guard(|| b.build::<i32>()) { out.emit(&lhs(32, 30), Some(list(&c))); } }
                _ => { if let Some(c) = guard(|| b.build::<i64>()) { out.emit(&lhs(64, 62), Some(list(&c))); } }
            }
        }
    }
}

// ------------------------------------------------------------------ exhaustive streams (thorough tier)
/// every value of `phase >> 7` (the implementation ignores the low 7 bits: proved for the model, checked natively
/// for all 2^32 phases by the C01 oracle)
fn fam_cossin_all(out: &mut Out) {
    for i in 0..(1u32 << 25) {
        let p = (i << 7) as i32;
        let (c, s) = cossin(p);
        out.emit(&format!("cossin {}", p), Some(format!("{} {}", c, s)));
    }
}

fn fam_osub_all(out: &mut Out) {
    for y in i8::MIN..=i8::MAX {
        for x in i8::MIN..=i8::MAX {
            let (d, w) = overflowing_sub(y, x);
            out.emit(&format!("osub 8 {} {}", y, x), Some(format!("{} {}", d, w)));
        }
    }
}

fn fam_num8_all(out: &mut Out) {
    for a in i8::MIN..=i8::MAX {
        for b in i8::MIN..=i8::MAX {
            let r = guard(|| a.mul_scaled(b));
            out.emit(&format!("mul_scaled 8 6 {} {}", a, b), r.map(|v| v.to_string()));
            let r = guard(|| a.div_scaled(b));
            out.emit(&format!("div_scaled 8 6 {} {}", a, b), r.map(|v| v.to_string()));
        }
    }
    // macc: the complete (u, s) plane for two limit pairs and three remainders
    for u in i8::MIN..=i8::MAX {
        for s in i16::MIN..=i16::MAX {
            for (mn, mx, e1) in [(i8::MIN, i8::MAX, 0i8), (-64i8, 63i8, 37i8)] {
                let r = guard(|| u.macc(s, mn, mx, e1));
                out.emit(&format!("macc 8 6 {} {} {} {} {}", u, s, mn, mx, e1), r.map(|(y, e)| format!("{} {}", y, e)));
            }
        }
    }
}

fn fam_atani_all(out: &mut Out) {
    for q in 0..=(1u32 << 16) {
        let x = (q << 15).wrapping_add(1 << 14);
        let r = guard(|| verif_atani(x));
        out.emit(&format!("atani {}", x), r.map(|v| v.to_string()));
    }
}

// ------------------------------------------------------------------ filter.rs glue, Biquad helpers, AccuOsc
fn fam_glue(rng: &mut Rng, n: usize, out: &mut Out) {
    use idsp::{Cascade, Nyquist, Repeat};
    let mut ny = 0i32;
    let mut rp = [0i64; 3];
    for i in 0..n {
        match i % 8 {
            7 => {
                // small public surface that no property names but C20 includes: getters, set_rate, the state
                // variable filter (constructed through serde, its only constructor), integer half-band samples
                {
                    let (r1, r2) = (rng.below(40) as u32, rng.below(40) as u32);
                    let mut c = Cic::<i64, 3>::new(r1);
                    assert!(c.order() == 3 && c.rate() == r1);
                    for _ in 0..rng.below(12) { let _ = c.decimate(rng.int(20) as i64); }
                    let (_, index, zoh, combs, integ) = c.verif_raw();
                    c.set_rate(r2);
                    assert!(c.rate() == r2 && c.verif_raw() == (r2, index, zoh, combs, integ), "set_rate changes the rate only");
                }
                {
                    let mut h = idsp::hbf::HbfDecCascade::default();
                    let d = rng.below(5) as usize;
                    h.set_depth(d);
                    assert!(h.depth() == d);
                    let mut h = idsp::hbf::HbfIntCascade::default();
                    h.set_depth(d);
                    assert!(h.depth() == d);
                    let o = AccuOsc::new(Sweep::new(rng.i32(), rng.i64()));
                    assert!(o.size_hint() == (usize::MAX, None) || o.size_hint() == Sweep::new(0, 0).size_hint());
                }
                let f0 = rng.below(1 << 16) as f64 / (1 << 17) as f64;
                let q = 0.1 + rng.below(1000) as f64 / 50.0;
                let mut svf: idsp::svf::Svf<f64> = serde_json::from_str("{\"f\":0.0,\"q\":0.0}").expect("Svf deserialises");
                svf.set_frequency(f0);
                svf.set_q(q);
                let v = |rng: &mut Rng| rng.range(-100000, 100000) as f64 / 64.0;
                let mut st = idsp::svf::State { lp: v(rng), hp: v(rng), bp: v(rng) };
                let (lp, hp, bp, x) = (st.lp, st.hp, st.bp, v(rng));
                svf.update(&mut st, x);
                assert!(st.br() == st.hp + st.lp);
                out.emit(&format!("f_svf {} {} {} {}", f0.to_bits(), q.to_bits(), list(&[lp.to_bits(), hp.to_bits(), bp.to_bits()]), x.to_bits()), Some(list(&[st.lp.to_bits(), st.hp.to_bits(), st.bp.to_bits()])));
            }
            0 => {
                if rng.chance(1, 20) { ny = rng.i32(); }
                let x = rng.i32();
                let mut f = Nyquist::default();
                idsp::Filter::set(&mut f, ny);
                let y = idsp::Filter::update(&mut f, x, &());
                let st = idsp::Filter::get(&f);
                out.emit(&format!("nyquist {} {}", ny, x), Some(format!("{} {}", st, y)));
                ny = st;
            }
            1 => {
                // Repeat<3, Lowpass<1>>: states are only reachable through set() and updates
                let k = rng.range(1, i32::MAX as i64) as i32;
                let x = rng.i32();
                if rng.chance(1, 10) { let v = rng.i32(); rp = [(v as i64) << 32; 3]; }
                let mut stages = [Lowpass::<1>::verif_from_raw([rp[0]]), Lowpass::<1>::verif_from_raw([rp[1]]), Lowpass::<1>::verif_from_raw([rp[2]])];
                // Repeat has no constructor from stages: drive the three stages in series exactly as Repeat does
                // and cross-check against a real Repeat started from set(v) when all three states agree
                let r = guard(|| {
                    let mut v = x;
                    for s in stages.iter_mut() { v = idsp::Filter::update(s, v, &[k]); }
                    v
                });
                let after = [stages[0].verif_raw()[0], stages[1].verif_raw()[0], stages[2].verif_raw()[0]];
                if rp[0] == rp[1] && rp[1] == rp[2] && (rp[0] & 0xffff_ffff) == 0 {
                    let mut rep: Repeat<3, Lowpass<1>> = Default::default();
                    idsp::Filter::set(&mut rep, (rp[0] >> 32) as i32);
                    let y2 = guard(|| idsp::Filter::update(&mut rep, x, &[k]));
                    assert_eq!(y2, r);
                    if y2.is_some() { assert_eq!(idsp::Filter::get(&rep), idsp::Filter::get(&stages[2]), "Repeat::get is the last stage's"); }
                }
                out.emit(&format!("repeat_lp1 {} {} {}", list(&rp), x, k), r.map(|y| format!("{} {}", list(&after), y)));
                if r.is_some() { rp = after; }
            }
            2 => {
                let k = rng.range(1, i32::MAX as i64) as i32;
                let (v, x) = (rng.i32(), rng.i32());
                // Cascade<Lowpass<1>, Nyquist>: set() only reaches the second stage; start both from defaults
                let mut c: Cascade<Lowpass<1>, Nyquist> = Default::default();
                idsp::Filter::set(&mut c, v);
                let y = guard(|| idsp::Filter::update(&mut c, x, &([k], ())));
                // model: lowpass state 0, nyquist state v
                let mut lp = Lowpass::<1>::default();
                let yl = guard(|| idsp::Filter::update(&mut lp, x, &[k]));
                if let (Some(_), Some(yl)) = (y, yl) {
                    let mut n2 = Nyquist::default();
                    idsp::Filter::set(&mut n2, v);
                    let _ = idsp::Filter::update(&mut n2, yl, &());
                    assert_eq!(idsp::Filter::get(&c), idsp::Filter::get(&n2), "Cascade::get is the second stage's");
                }
                out.emit(&format!("cascade_lp1_nyq 0 {} {} {}", v, x, k), match (y, yl) {
                    (Some(y), Some(yl)) => Some(format!("{} {} {}", lp.verif_raw()[0], yl >> 1, y)),
                    _ => None,
                });
            }
            3 | 4 => {
                macro_rules! helpers {
                    ($t:ty, $w:expr, $q:expr) => {{
                        let co = |rng: &mut Rng| -> $t { if rng.chance(1, 2) { rng.int($w) as $t } else { rng.int($q) as $t } };
                        let ba: [$t; 5] = [co(rng), co(rng), co(rng), co(rng), co(rng)];
                        let mut bq = Biquad::<$t>::from(ba);
                        let u = rng.int($w) as $t;
                        bq.set_u(u);
                        let cfg = format!("[{},{},{},{},{},{},{},{}]", ba[0], ba[1], ba[2], ba[3], ba[4], u, <$t>::MIN, <$t>::MAX);
                        let r = guard(|| bq.forward_gain());
                        out.emit(&format!("bq_fgain {} {}", $w, cfg), r.map(|v| v.to_string()));
                        let r = guard(|| bq.input_offset());
                        out.emit(&format!("bq_inoff {} {} {}", $w, $q, cfg), r.map(|v| v.to_string()));
                        let off = rng.int($w) as $t;
                        let mut b2 = bq.clone();
                        let r = guard(|| { b2.set_input_offset(off); b2.u() });
                        out.emit(&format!("bq_setinoff {} {} {} {}", $w, $q, cfg, off), r.map(|v| v.to_string()));
                    }};
                }
                match rng.below(4) {
                    0 => helpers!(i8, 8, 6),
                    1 => helpers!(i16, 16, 14),
                    2 => helpers!(i32, 32, 30),
                    _ => helpers!(i64, 64, 62),
                }
            }
            _ => {
                let (rate, sw, ph) = (rng.i32(), rng.i64(), rng.i64());
                let mut o = AccuOsc::new(Sweep::new(rate, sw));
                o.state = ph;
                let r = guard(|| o.next().unwrap());
                // the sweep state after the call is not public through AccuOsc: recompute it with a second Sweep
                let mut s2 = Sweep::new(rate, sw);
                let _ = guard(|| s2.next());
                out.emit(&format!("accuosc {} {} {}", rate, sw, ph), r.map(|z| format!("{} {} {} {}", s2.state, o.state, z.re, z.im)));
            }
        }
    }
}

// ------------------------------------------------------------------ Pid::build / BiquadRepr::Ba glue (repr.rs, pid.rs)
/// set one leaf of a miniconf tree through its `TreeAny` interface (the fields of `FilterRepr` are private: this is
/// the route a settings front end takes)
pub fn set_leaf<T: miniconf::TreeAny, V: 'static>(tree: &mut T, path: &str, v: V) {
    use miniconf::IntoKeys;
    let any = tree.mut_any_by_key(miniconf::Path::<&str, '/'>(path).into_keys()).expect("leaf path");
    *any.downcast_mut::<V>().expect("leaf type") = v;
}

fn fam_repr(rng: &mut Rng, n: usize, out: &mut Out) {
    use idsp::iir::{Ba, BiquadRepr, Order, Pid};
    {
        // `BiquadRepr::default()` is `Ba(Ba::default())`: b = 0, a = [1, 0, 0], no offset, no limits
        let d: Biquad<f64> = BiquadRepr::<f64, f64>::default().build::<f64>(1.0, 1.0, 1.0);
        assert!(*d.ba() == [0.0; 5] && d.u() == 0.0 && d.min() == f64::NEG_INFINITY && d.max() == f64::INFINITY);
    }
    for i in 0..n {
        if i % 3 == 0 {
            // BiquadRepr::Filter: the serialisable cookbook representation (gains in dB, absolute frequency)
            use idsp::iir::{FilterRepr, Shape, Typ};
            let typs = [Typ::Lowpass, Typ::Highpass, Typ::Bandpass, Typ::Allpass, Typ::Notch, Typ::Peaking, Typ::Lowshelf, Typ::Highshelf, Typ::IHo];
            let ti = rng.below(9) as usize;
            let period = 10f64.powi(rng.range(-6, -1) as i32) * (1.0 + rng.below(9) as f64);
            let f0 = 1e-3 + 0.48 * (rng.below(1 << 16) as f64 / 65536.0);
            let freq = f0 / period;
            let gdb = rng.range(-400, 400) as f64 / 10.0;
            let sdb = rng.range(-300, 300) as f64 / 10.0;
            let sv = 0.2 + rng.below(500) as f64 / 50.0;
            let sk = rng.below(3) as i64;
            let shape = match sk { 0 => Shape::Q(sv), 1 => Shape::Bandwidth(sv.min(4.0)), _ => Shape::Slope((sv / 10.0).min(1.0)) };
            let svv = match shape { Shape::Q(v) | Shape::Bandwidth(v) | Shape::Slope(v) => v };
            let (off, mn, mx) = (rng.range(-100, 100) as f64 / 10.0, -(1.0 + rng.below(1000) as f64 / 10.0), 1.0 + rng.below(1000) as f64 / 10.0);
            let bs = if rng.chance(1, 2) { 1.0 } else { 0.25 + rng.below(4) as f64 * 0.25 };
            let ys = 1.0 + rng.below(1000) as f64;
            if i % 5 == 0 {
                // the all-binary32 representation `BiquadRepr<f32, C>` (what an f32 firmware holds), C = f32 or i32
                let (p32, f32_, g32, s32, v32) = (period as f32, freq as f32, gdb as f32, sdb as f32, svv as f32);
                let shape32 = match sk { 0 => Shape::Q(v32), 1 => Shape::Bandwidth(v32), _ => Shape::Slope(v32) };
                let (o32, mn32, mx32, bs32, ys32) = (off as f32, mn as f32, mx as f32, bs as f32, ys as f32);
                let mut fr = FilterRepr::<f32>::default();
                set_leaf(&mut fr, "/typ", typs[ti]);
                set_leaf(&mut fr, "/frequency", f32_);
                set_leaf(&mut fr, "/gain", g32);
                set_leaf(&mut fr, "/shelf", s32);
                set_leaf(&mut fr, "/shape", shape32);
                set_leaf(&mut fr, "/offset", o32);
                set_leaf(&mut fr, "/min", mn32);
                set_leaf(&mut fr, "/max", mx32);
                let args = format!("{} {} {} {} {} {} {} {} {} {} {} {}", ti, sk, v32.to_bits(), f32_.to_bits(), g32.to_bits(), s32.to_bits(), o32.to_bits(), mn32.to_bits(), mx32.to_bits(), p32.to_bits(), bs32.to_bits(), ys32.to_bits());
                if f0 >= 1e-2 {
                    if i % 2 == 0 {
                        let b: Biquad<f32> = BiquadRepr::<f32, f32>::Filter(fr).build::<f32>(p32, bs32, ys32);
                        if b.ba().iter().all(|v| v.is_finite()) {
                            out.emit(&format!("f_filterrepr32 0 0 {}", args), Some(format!("{} {} {} {}", list(&b.ba().map(|v| v.to_bits())), b.u().to_bits(), b.min().to_bits(), b.max().to_bits())));
                        }
                    } else if let Some(b) = guard(|| BiquadRepr::<f32, i32>::Filter(fr).build::<f32>(p32, bs32, ys32)) {
                        out.emit(&format!("f_filterrepr32 32 30 {}", args), Some(format!("{} {} {} {}", list(b.ba()), b.u(), b.min(), b.max())));
                    }
                }
                continue;
            }
            let mut fr = FilterRepr::<f64>::default();
            set_leaf(&mut fr, "/typ", typs[ti]);
            set_leaf(&mut fr, "/frequency", freq);
            set_leaf(&mut fr, "/gain", gdb);
            set_leaf(&mut fr, "/shelf", sdb);
            set_leaf(&mut fr, "/shape", shape);
            set_leaf(&mut fr, "/offset", off);
            set_leaf(&mut fr, "/min", mn);
            set_leaf(&mut fr, "/max", mx);
            let args = format!("{} {} {} {} {} {} {} {} {} {} {} {}", ti, sk, svv.to_bits(), freq.to_bits(), gdb.to_bits(), sdb.to_bits(), off.to_bits(), mn.to_bits(), mx.to_bits(), period.to_bits(), bs.to_bits(), ys.to_bits());
            if i % 2 == 0 {
                // the builder intermediate type I is only used by the Pid arm: build::<f32> must give the same filter
                let b: Biquad<f64> = if rng.chance(1, 2) { BiquadRepr::<f64, f64>::Filter(fr).build::<f32>(period, bs, ys) } else { BiquadRepr::<f64, f64>::Filter(fr).build::<f64>(period, bs, ys) };
                if b.ba().iter().all(|v| v.is_finite()) {
                    out.emit(&format!("f_filterrepr 0 0 {}", args), Some(format!("{} {} {} {}", list(&b.ba().map(|v| v.to_bits())), b.u().to_bits(), b.min().to_bits(), b.max().to_bits())));
                    // the way back: coefficients as an f64 array with a0 = 1; Raw returns the stored biquad
                    let back: [[f64; 3]; 2] = (&b).into();
                    let flat = [back[0][0], back[0][1], back[0][2], back[1][0], back[1][1], back[1][2]];
                    out.emit(&format!("f_to_ba 0 0 {}", list(&b.ba().map(|v| v.to_bits()))), Some(list(&flat.map(|v| v.to_bits()))));
                    let raw = BiquadRepr::<f64, f64>::Raw(miniconf::Leaf(b.clone())).build::<f64>(period, bs, ys);
                    assert!(raw == b, "BiquadRepr::Raw must return the stored biquad");
                }
            } else if let Some(b) = guard(|| if i % 4 == 1 { BiquadRepr::<f64, i32>::Filter(fr.clone()).build::<f32>(period, bs, ys) } else { BiquadRepr::<f64, i32>::Filter(fr.clone()).build::<f64>(period, bs, ys) }) {
                out.emit(&format!("f_filterrepr 32 30 {}", args), Some(format!("{} {} {} {}", list(b.ba()), b.u(), b.min(), b.max())));
                let back: [[f64; 3]; 2] = (&b).into();
                let flat = [back[0][0], back[0][1], back[0][2], back[1][0], back[1][1], back[1][2]];
                out.emit(&format!("f_to_ba 32 30 {}", list(b.ba())), Some(list(&flat.map(|v| v.to_bits()))));
                let mut m = b.clone();
                m.ba_mut()[0] = b.ba()[0];
                assert!(m == b, "ba_mut gives access to the same array");
            }
            let (a, d) = (rng.range(-1000, 1000) as f64 / 7.0, if rng.chance(1, 20) { 0.0 } else { rng.range(-1000, 1000) as f64 / 13.0 });
            out.emit(&format!("f_divscaled {} {}", a.to_bits(), d.to_bits()), Some(idsp::Coefficient::div_scaled(a, d).to_bits().to_string()));
            continue;
        }
        let dec = |rng: &mut Rng| -> f64 { 10f64.powi(rng.range(-5, 2) as i32) * (1.0 + rng.below(900) as f64 / 100.0) };
        let period = 10f64.powi(rng.range(-3, 1) as i32) * (1.0 + rng.below(9) as f64);
        let b_scale = dec(rng) * if rng.chance(1, 5) { -1.0 } else { 1.0 };
        let y_scale = dec(rng) * 100.0;
        if i % 2 == 0 {
            let mut pid = Pid::<f64>::default();
            let order = [Order::P, Order::I, Order::I2][rng.below(3) as usize];
            *pid.order = order;
            let mut gains = [0f64; 5];
            let mut limits = [f64::INFINITY; 5];
            for j in 0..5 {
                if rng.chance(1, 2) { gains[j] = dec(rng) * if rng.chance(1, 3) { -1.0 } else { 1.0 }; }
                if rng.chance(1, 3) { limits[j] = match rng.below(6) { 0 => f64::NAN, _ => dec(rng) * if rng.chance(1, 3) { -1.0 } else { 1.0 } }; }
                *pid.gain.value[j] = gains[j];
                *pid.limit.value[j] = limits[j];
            }
            let setpoint = rng.range(-1000, 1000) as f64 / 100.0;
            let (mn, mx) = if rng.chance(1, 2) { (f64::NEG_INFINITY, f64::INFINITY) } else { (-(dec(rng)), dec(rng)) };
            *pid.setpoint = setpoint;
            *pid.min = mn;
            *pid.max = mx;
            let args = format!("{} {} {} {} {} {} {} {} {}", period.to_bits(), order as usize, list(&gains.map(|v| v.to_bits())), list(&limits.map(|v| v.to_bits())),
                b_scale.to_bits(), y_scale.to_bits(), setpoint.to_bits(), mn.to_bits(), mx.to_bits());
            if i % 16 == 10 {
                // the all-binary32 representation `Pid<f32>` (op f_pidreprT32)
                let mut p32 = Pid::<f32>::default();
                *p32.order = order;
                for j in 0..5 { *p32.gain.value[j] = gains[j] as f32; *p32.limit.value[j] = limits[j] as f32; }
                *p32.setpoint = setpoint as f32;
                *p32.min = mn as f32;
                *p32.max = mx as f32;
                let a32 = format!("{} {} {} {} {} {} {} {} {}", (period as f32).to_bits(), order as usize, list(&gains.map(|v| (v as f32).to_bits())), list(&limits.map(|v| (v as f32).to_bits())),
                    (b_scale as f32).to_bits(), (y_scale as f32).to_bits(), (setpoint as f32).to_bits(), (mn as f32).to_bits(), (mx as f32).to_bits());
                if rng.chance(1, 2) || crate::MODE != 'C' {
                    let b: Biquad<f32> = p32.build::<f32, f32>(period as f32, b_scale as f32, y_scale as f32);
                    if b.ba().iter().all(|v| v.is_finite()) && b.u().is_finite() {
                        out.emit(&format!("f_pidreprT32 0 0 {}", a32), Some(format!("{} {} {} {}", list(&b.ba().map(|v| v.to_bits())), b.u().to_bits(), b.min().to_bits(), b.max().to_bits())));
                    }
                } else if let Some(b) = guard(|| BiquadRepr::<f32, i32>::Pid(p32.clone()).build::<f32>(period as f32, b_scale as f32, y_scale as f32)) {
                    out.emit(&format!("f_pidreprT32 32 30 {}", a32), Some(format!("{} {} {} {}", list(b.ba()), b.u(), b.min(), b.max())));
                }
            } else if i % 8 == 2 {
                // builder intermediate type I = f32 (op f_pidrepr32)
                if rng.chance(1, 2) || crate::MODE != 'C' {
                    let b: Biquad<f64> = if rng.chance(1, 2) { BiquadRepr::<f64, f64>::Pid(pid.clone()).build::<f32>(period, b_scale, y_scale) } else { pid.build::<f64, f32>(period, b_scale, y_scale) };
                    if b.ba().iter().all(|v| v.is_finite()) && b.u().is_finite() {
                        out.emit(&format!("f_pidrepr32 0 0 {}", args), Some(format!("{} {} {} {}", list(&b.ba().map(|v| v.to_bits())), b.u().to_bits(), b.min().to_bits(), b.max().to_bits())));
                    }
                } else if let Some(b) = guard(|| BiquadRepr::<f64, i32>::Pid(pid.clone()).build::<f32>(period, b_scale, y_scale)) {
                    out.emit(&format!("f_pidrepr32 32 30 {}", args), Some(format!("{} {} {} {}", list(b.ba()), b.u(), b.min(), b.max())));
                }
            } else if i % 4 == 0 || crate::MODE != 'C' {
                // half of the time through the enum the settings tree holds (`BiquadRepr::Pid`)
                let b: Biquad<f64> = if rng.chance(1, 2) { BiquadRepr::<f64, f64>::Pid(pid.clone()).build::<f64>(period, b_scale, y_scale) } else { pid.build::<f64, f64>(period, b_scale, y_scale) };
                if b.ba().iter().all(|v| v.is_finite()) && b.u().is_finite() {
                    out.emit(&format!("f_pidrepr 0 0 {}", args), Some(format!("{} {} {} {}", list(&b.ba().map(|v| v.to_bits())), b.u().to_bits(), b.min().to_bits(), b.max().to_bits())));
                }
            } else if let Some(b) = guard(|| if i % 8 == 6 { BiquadRepr::<f64, i32>::Pid(pid.clone()).build::<f64>(period, b_scale, y_scale) } else { pid.build::<i32, f64>(period, b_scale, y_scale) }) {
                out.emit(&format!("f_pidrepr 32 30 {}", args), Some(format!("{} {} {} {}", list(b.ba()), b.u(), b.min(), b.max())));
            }
        } else {
            let mut ba = Ba::<f64>::default();
            let c = |rng: &mut Rng| rng.range(-2000, 2000) as f64 / 1000.0;
            let a0 = 0.5 + rng.below(3000) as f64 / 1000.0;
            let coef = [[c(rng) * a0 / 8.0, c(rng) * a0 / 8.0, c(rng) * a0 / 8.0], [a0, c(rng) * a0 * 0.9, c(rng) * a0 * 0.45]];
            *ba.ba = coef;
            let (u, mn, mx) = (rng.range(-100, 100) as f64 / 10.0, -(dec(rng)), dec(rng));
            *ba.u = u;
            *ba.min = mn;
            *ba.max = mx;
            let bs = if rng.chance(1, 2) { 1.0 } else { 0.25 + rng.below(4) as f64 * 0.25 };
            let flat = [coef[0][0], coef[0][1], coef[0][2], coef[1][0], coef[1][1], coef[1][2]];
            let args = format!("{} {} {} {} {} {}", list(&flat.map(|v| v.to_bits())), bs.to_bits(), y_scale.to_bits(), u.to_bits(), mn.to_bits(), mx.to_bits());
            if i % 4 == 1 {
                let b: Biquad<f64> = if rng.chance(1, 2) { BiquadRepr::<f64, f64>::Ba(ba).build::<f32>(period, bs, y_scale) } else { BiquadRepr::<f64, f64>::Ba(ba).build::<f64>(period, bs, y_scale) };
                out.emit(&format!("f_ba 0 0 {}", args), Some(format!("{} {} {} {}", list(&b.ba().map(|v| v.to_bits())), b.u().to_bits(), b.min().to_bits(), b.max().to_bits())));
            } else if let Some(b) = guard(|| BiquadRepr::<f64, i32>::Ba(ba).build::<f64>(period, bs, y_scale)) {
                out.emit(&format!("f_ba 32 30 {}", args), Some(format!("{} {} {} {}", list(b.ba()), b.u(), b.min(), b.max())));
            }
        }
    }
}
