use idsp::*;
fn spec(lo: i32, hi: i32, shift: u32) -> i128 { (((hi as i128) << 32) + lo as i128) >> shift }
fn main() {
    // exactness inside range, saturation otherwise, monotonic across adjacent
    for shift in 1..=31u32 {
        let hr: i64 = 1 << (shift - 1);
        let mut his: Vec<i64> = vec![i32::MIN as i64, i32::MIN as i64 + 1, -hr - 1, -hr, -hr + 1, -hr+2, -1, 0, 1, hr - 2, hr - 1, hr, hr + 1, i32::MAX as i64 - 1, i32::MAX as i64];
        his.retain(|h| *h >= i32::MIN as i64 && *h <= i32::MAX as i64); his.sort(); his.dedup();
        let los = [i32::MIN, i32::MIN + 1, -1, 0, 1, i32::MAX - 1, i32::MAX];
        let mut prev: Option<(i64, i32, i32)> = None; let mut nonmono = 0; let mut inexact = 0; let mut satbad = 0; let mut first_nm=None;
        for &h in &his { for &l in &los {
            let r = saturating_scale(l, h as i32, shift);
            if h.abs() < hr { if r as i128 != spec(l, h as i32, shift) { inexact += 1; } }
            else { let c = saturating_scale(0, h as i32, shift); if r != c || (r < 0) != (h < 0) { satbad += 1; } }
            if let Some((ph, pl, pr)) = prev { if r < pr { nonmono += 1; if first_nm.is_none() { first_nm = Some(((pl, ph, pr), (l, h, r))); } } }
            prev = Some((h, l, r));
        }}
        println!("shift {:2}: inexact {} satbad {} nonmono {} {:?}", shift, inexact, satbad, nonmono, first_nm);
    }
}
