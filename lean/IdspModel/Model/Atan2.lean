import IdspModel.Rust
/-! Model of `src/atan2.rs`. -/
namespace Idsp

/-- `divi(y, x)` on `u32`. -/
def divi (m : Mode) (y x : Int) : R Int := do
  dbgAssert m "atan2.rs:2 debug_assert!(y <= x)" (decide (y ≤ x))
  let z : Int := min (clz 32 y) 15
  let y1 := wrapU 32 (y * 2 ^ z.toNat)
  let x1 ← arithU m 32 "atan2.rs:5 x += (1 << (15 - z)) - 1" (x + (2 ^ (15 - z).toNat - 1))
  let x2 := shr x1 (16 - z).toNat
  if x2 = 0 then .ok 0 else do
    -- `(y / x).min(1 << 16)` since the `fix:` commit (the truncated divisor could push the quotient above 1.0)
    let q := min (y1 / x2) (2 ^ 16)
    let a := wrapU 32 (q * 2 ^ 15)
    arithU m 32 "atan2.rs:10 ((y / x) << 15) + (1 << 14)" (a + 2 ^ 14)

def atanCoeffs : List Int :=
  [0x0517c2cd, -0x06c6496b, 0x0fbdb021, -0x25b32e0a, 0x43b34c81, -0x3bc823dd]

/-- Horner fold over the reversed coefficient list: `r ↦ ((r * x2) >> 32) as i32 + a` -/
def atanHorner (m : Mode) (x2 : Int) : List Int → Int → R Int
  | [], r => .ok r
  | a :: as, r => do
    let p ← arithI m 64 "atan2.rs:26 r as i64 * x2" (r * x2)
    let r' ← arithI m 32 "atan2.rs:26 (..) as i32 + a" (wrapI 32 (shr p 32) + a)
    atanHorner m x2 as r'

/-- `atani(x)` on `u32` -/
def atani (m : Mode) (x : Int) : R Int := do
  let xx ← arithI m 64 "atan2.rs:22 x * x" (x * x)
  let x2 := wrapI 32 (shr xx 32)
  let r ← atanHorner m x2 atanCoeffs.reverse 0
  let p ← arithI m 64 "atan2.rs:27 r as i64 * x" (r * x)
  .ok (wrapU 32 (shr p 28))

def xorU32 (a b : Int) : Int := Int.ofNat ((wrapU 32 a).toNat ^^^ (wrapU 32 b).toNat)

def atan2 (m : Mode) (y x : Int) : R Int := do
  let (y, k) := if y < 0 then (satI 32 (-y), xorU32 0 (2 ^ 32 - 1)) else (y, 0)
  let (x, k) := if x < 0 then (satI 32 (-x), xorU32 k (2 ^ 31 - 1)) else (x, k)
  let (y, x, k) := if y > x then (x, y, xorU32 k (2 ^ 30 - 1)) else (y, x, k)
  let d ← divi m y x
  let r ← atani m d
  .ok (wrapI 32 (xorU32 r k))

end Idsp
