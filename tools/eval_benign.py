#!/usr/bin/env python3
"""
eval_benign.py <patch.diff> <name> [<prop> ...]

False-alarm test: a behaviour-preserving refactor of quartiq/idsp (produced by an independent sub-agent that saw
nothing of /verif) must leave every check quiet.
  1. scratch worktree of /repo HEAD: the patch applies, the crate builds and the existing tests pass with it
  2. apply it to /repo, run ./check <prop> --tier quick for the properties anchored in the touched files (or the
     ones listed), undo (git checkout -- .)
  3. store patch.diff, notes.md, meta.json under /verif/benign/<name>/
Exit 0 if every check stayed quiet, 1 if one raised an alarm.
"""
import json, os, re, shutil, subprocess, sys, time

patch, name, props = sys.argv[1], sys.argv[2], sys.argv[3:]
env = dict(os.environ, CARGO_NET_OFFLINE="true")

def sh(cmd, cwd=None, timeout=7200):
    p = subprocess.run(cmd, cwd=cwd, shell=True, stdout=subprocess.PIPE, stderr=subprocess.STDOUT, text=True, env=env, timeout=timeout)
    return p.returncode, p.stdout

files = sorted(set(re.findall(r"^\+\+\+ b/(\S+)", open(patch).read(), re.M)))
if not props:
    anchored = {}
    for l in open("/verif/properties.jsonl"):
        d = json.loads(l)
        for f in d["anchors"]["files"]:
            anchored.setdefault(f, []).append(d["id"])
    s = set()
    for f in files:
        s.update(anchored.get(f, []))
    s.add("C20")
    props = sorted(s)

wt = f"/tmp/benignwt-{name}"
sh(f"git -C /repo worktree remove --force {wt}")
rc, out = sh(f"git -C /repo worktree add -q --detach {wt} HEAD")
assert rc == 0, out
res = {"name": name, "files": files, "props": props}
try:
    rc, out = sh(f"git apply --check {patch} && git apply {patch}", cwd=wt)
    res["patch_applies"] = rc == 0
    if rc == 0:
        rc, out = sh("cargo test --workspace --no-fail-fast --offline 2>&1 | grep -E '^test result|FAILED|panicked|^error' | head -20", cwd=wt)
        res["existing_tests_with_patch"] = out.strip().splitlines()
        res["existing_tests_pass"] = "FAILED" not in out and "error" not in out and "test result: ok" in out
    else:
        print("PATCH DOES NOT APPLY", out)
finally:
    sh(f"git -C /repo worktree remove --force {wt}")

valid = bool(res.get("patch_applies") and res.get("existing_tests_pass"))
res["valid"] = valid
res["checks"] = {}
alarm = False
if valid:
    rc, out = sh("git -C /repo status --porcelain")
    assert out.strip() == "", "/repo not clean: " + out
    try:
        rc, out = sh(f"git -C /repo apply {patch}")
        assert rc == 0, out
        for p in props:
            t0 = time.time()
            rc, out = sh(f"./check {p} --tier quick", cwd="/verif")
            lines = [l for l in out.splitlines() if l.startswith(("VIOLATION", "failing input", "no longer checks", "OK "))]
            res["checks"][p] = {"exit": rc, "quiet": rc == 0, "wall_s": round(time.time() - t0, 1), "lines": [l[:400] for l in lines[:6]]}
            alarm |= rc != 0
            print(f"[{name}] check {p}: exit {rc}  " + (lines[-1][:160] if lines else out[-300:]), flush=True)
    finally:
        sh("git -C /repo checkout -- .")
        rc, out = sh("git -C /repo status --porcelain")
        assert out.strip() == "", "/repo not restored: " + out
dst = f"/verif/benign/{name}"
os.makedirs(dst, exist_ok=True)
shutil.copy(patch, os.path.join(dst, "patch.diff"))
notes = patch[:-5] + ".md"
if os.path.exists(notes):
    shutil.copy(notes, os.path.join(dst, "notes.md"))
json.dump(res, open(os.path.join(dst, "meta.json"), "w"), indent=1)
print(f"[{name}] valid={valid} alarm={alarm}")
sys.exit(1 if alarm else 0)
