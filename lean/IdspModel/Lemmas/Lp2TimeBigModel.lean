import IdspModel.Lemmas.Lp2TimeBig
/-!
# Large steps on the model: hand-off to the sector-safe region within `7·(2^32/b) + 39` updates
-/
namespace Idsp
set_option linter.unusedVariables false

/-- the approach phase of a large step, on the model's raw states, with an explicit bound of the hand-off index -/
theorem lp2_big_model_time {k a b x xo sg : Int} (h : Lp2Butter k a b)
    (hsg : sg = 1 ∨ sg = -1)
    (hx0 : -1073741824 ≤ x) (hx1 : x ≤ 1073741824) (ho0 : -1073741824 ≤ xo) (ho1 : xo ≤ 1073741824)
    (hd0 : 805306368 < sg * (x - xo)) (hd1 : sg * (x - xo) ≤ 2147483648)
    (st : Int × Int) (hst : Lp2Start2 a b xo st) :
    ∃ n1 : Nat, (n1 : Int) ≤ 7 * (4294967296 / b) + 39 ∧ (∀ j, j ≤ n1 → Lp2BoxS (lp2SeqS x a (-b) j st)) ∧
      Lp2Inv2 a b x (bgVH a b) (bgRH a) (lp2SeqS x a (-b) n1 st) := by
  have ha := h.a_ge; have hbg := h.b_ge; have hbl := h.b_le; have hba := lp2_b_le_a h
  have ha0 : 0 < a := by omega
  have hb0 : 0 < b := by omega
  obtain ⟨⟨hsettled, hEo0, hEo1⟩, hso0, hso1⟩ := hst
  -- the centred sequences
  set e : Nat → Int := fun n => sg * lp2Eb a b x (lp2SeqS x a (-b) n st).1 with he
  set s : Nat → Int := fun n => sg * (2 * a * (lp2SeqS x a (-b) n st).2) with hs
  have hshift : lp2Eb a b x st.1 = lp2Eb a b xo st.1 + 2 * a * ((x - xo) * 4294967296) := by
    unfold lp2Eb; ring
  have he0eq : e 0 = sg * lp2Eb a b xo st.1 + 2 * a * (sg * (x - xo) * 4294967296) := by
    simp only [he, lp2SeqS]; rw [hshift]; ring
  have hsgE : -(a * 4294967296 * 1048576) ≤ sg * lp2Eb a b xo st.1 ∧ sg * lp2Eb a b xo st.1 ≤ a * 4294967296 * 1048576 := by
    rcases hsg with rfl | rfl <;> constructor <;> linarith
  have he0lo : 2 * a * 4294967296 * 804782080 ≤ e 0 := by
    rw [he0eq]
    have : 2 * a * (805306369 * 4294967296) ≤ 2 * a * (sg * (x - xo) * 4294967296) := by nlinarith
    nlinarith [hsgE.1]
  have he0hi : e 0 ≤ 2 * a * 4294967296 * 2148007936 := by
    rw [he0eq]
    have : 2 * a * (sg * (x - xo) * 4294967296) ≤ 2 * a * (2147483648 * 4294967296) := by nlinarith
    nlinarith [hsgE.2]
  have hs0b : -bgS0 a ≤ s 0 ∧ s 0 ≤ bgS0 a := by
    simp only [hs, lp2SeqS]
    rcases hsg with rfl | rfl <;> constructor <;> linarith
  obtain ⟨hSTRH, hST62, hST0, hEmaxle, hthr0, hthrRH⟩ := bg_ST_le h he0lo he0hi
  obtain ⟨hUC0, hthr, hS00, -, -, -, hS0T, -, -, -, -⟩ := bg_basic h he0lo
  have hEmaxD : bgEmax a b (e 0) ≤ 2 * a * 4294967296 * (sg * (x - xo) + 896134) := by
    have h1 := hEmaxle
    rw [he0eq] at h1 ⊢
    nlinarith [hsgE.2]
  have hdpos : 0 ≤ sg * (x - xo) := by omega
  -- raw bounds and the recursion while the signed error is in [0, Emax]
  have hraw : ∀ n, 0 ≤ e n → e n ≤ bgEmax a b (e 0) →
      -9223372036854775808 ≤ (lp2SeqS x a (-b) n st).1 ∧ (lp2SeqS x a (-b) n st).1 < 9223372036854775808 ∧
      -2148532224 ≤ x - (lp2SeqS x a (-b) n st).1 / 4294967296 ∧
      x - (lp2SeqS x a (-b) n st).1 / 4294967296 ≤ 2148532223 :=
    fun n hn0 hn1 => bg_phase_box ha0 (by omega) hba hsg hx0 hx1 ho0 ho1 hdpos hd1 rfl hn0 (le_trans hn1 hEmaxD)
  have hrel : ∀ n, bgUC a b ≤ a * e n → e n ≤ bgEmax a b (e 0) →
      Lp2Rel a b (bgUC a b) (e n) (s n) (e (n + 1)) (s (n + 1)) := by
    intro n hn0 hn1
    have hen0 : 0 ≤ e n := by
      by_contra hc
      have hc' : e n ≤ -1 := by omega
      have : a * e n ≤ a * (-1) := mul_le_mul_of_nonneg_left hc' (le_of_lt ha0)
      linarith
    obtain ⟨-, -, r0, r1⟩ := hraw n hen0 hn1
    obtain ⟨c0, c1⟩ := lp2_clip_le (x := x) (s0 := (lp2SeqS x a (-b) n st).1) (C := 1048576) (by norm_num)
      (by linarith [r0]) (by linarith [r1])
    have hR := lp2_centered_recS x a b 1048576 (lp2SeqS x a (-b) n st) ha0 hb0 (by norm_num) c0 c1
    have hU : lp2U a b + 2 * a ^ 2 * 1048576 * 4294967296 = bgUC a b := rfl
    rw [hU] at hR
    simp only [he, hs, lp2SeqS_succ]
    rcases hsg with rfl | rfl
    · simpa using hR
    · have := hR.neg
      simpa using this
  -- the approach phase with explicit hand-off index
  obtain ⟨n1, hn1T, hphase, hen1lo, hen1hi, hsl, hsu, hVn1⟩ :=
    lp2_big_abstract_time h e s he0lo he0hi hs0b.1 hs0b.2 hrel
  have hA := h.adm
  have hQsg : ∀ n, lp2V a b x (lp2SeqS x a (-b) n st) = lp2Q a b (e n) (s n) := by
    intro n
    simp only [he, hs, lp2V]
    rcases hsg with rfl | rfl
    · simp
    · rw [show (-1 : Int) * lp2Eb a b x (lp2SeqS x a (-b) n st).1 = -(lp2Eb a b x (lp2SeqS x a (-b) n st).1) by ring,
        show (-1 : Int) * (2 * a * (lp2SeqS x a (-b) n st).2) = -(2 * a * (lp2SeqS x a (-b) n st).2) by ring,
        lp2Q_neg]
  have hInv : Lp2Inv2 a b x (bgVH a b) (bgRH a) (lp2SeqS x a (-b) n1 st) := by
    refine ⟨by rw [hQsg]; exact hVn1, ?_, ?_⟩
    · simp only [he] at hen1lo hen1hi
      rcases hsg with rfl | rfl <;> linarith
    · simp only [he] at hen1lo hen1hi
      rcases hsg with rfl | rfl <;> linarith
  refine ⟨n1, hn1T, fun j hj => ?_, hInv⟩
  rcases Nat.lt_or_ge j n1 with hjlt | hjge
  · obtain ⟨hp0, hp1, hp2, hp3⟩ := hphase j hjlt
    obtain ⟨r0, r1, -, -⟩ := hraw j (by omega) hp1
    have hs62 : -(2 * a * 4611686018427387904) ≤ s j ∧ s j ≤ 2 * a * 4611686018427387904 := by
      constructor <;> linarith
    simp only [hs] at hs62
    have ha2 : (0 : Int) < 2 * a := by omega
    refine ⟨r0, r1, ?_, ?_⟩
    · rcases hsg with rfl | rfl
      · have : 2 * a * (-4611686018427387904) ≤ 2 * a * (lp2SeqS x a (-b) j st).2 := by linarith [hs62.1]
        exact le_of_mul_le_mul_left this ha2
      · have : 2 * a * (-4611686018427387904) ≤ 2 * a * (lp2SeqS x a (-b) j st).2 := by linarith [hs62.2]
        exact le_of_mul_le_mul_left this ha2
    · rcases hsg with rfl | rfl
      · have : 2 * a * (lp2SeqS x a (-b) j st).2 ≤ 2 * a * 4611686018427387904 := by linarith [hs62.2]
        exact le_of_mul_le_mul_left this ha2
      · have : 2 * a * (lp2SeqS x a (-b) j st).2 ≤ 2 * a * 4611686018427387904 := by linarith [hs62.1]
        exact le_of_mul_le_mul_left this ha2
  · have hjeq : j = n1 := by omega
    subst hjeq
    obtain ⟨SB, G, hR0, hSB0, hG, hxg0, hxg1, -, hSs, -, hEG, hSG, -⟩ := bg_safe2 h hx0 hx1
    obtain ⟨hbx, -, -⟩ := lp2_box_of_inv2 (lp2SeqS x a (-b) j st) (bgRH a) SB G (bgVH a b) ha0 hA.hD hb0 hSB0 hG
      hxg0 hxg1 hSs hEG hSG hInv
    exact ⟨hbx.1, hbx.2.1, hbx.2.2.2.2.1, hbx.2.2.2.2.2⟩

end Idsp
