import IdspModel.Props.C10
import Mathlib.Tactic.Ring
import Mathlib.Tactic.Linarith
import Mathlib.Tactic.LinearCombination
/-!
# Second-order lowpass: one update in plain integers

`lp2Next` / `lp2Mid` are the new raw state and the raw mid-point state (whose high word is the returned output)
of `Lowpass<2>::update` written as plain integer arithmetic (no saturation, no wrapping).  `lp2_step_box` says
that the model `lp2Update` (in BOTH build profiles) performs exactly this map whenever the current and the next
raw state lie in an explicit box (`Lp2Box`), and `lp2_err_rec` is the exact error recursion with the two floor
remainders as disturbances.
-/
namespace Idsp
set_option linter.unusedSimpArgs false
set_option linter.unusedVariables false

/-- the increment `d` of one update when nothing saturates -/
def lp2D (x k0 k1 s0 s1 : Int) : Int := (x - s0 / 4294967296) * k0 + s1 / 4294967296 * k1

/-- the raw state after one update when nothing saturates or wraps -/
def lp2Next (x k0 k1 : Int) (st : Int × Int) : Int × Int :=
  (st.1 + 2 * (st.2 + lp2D x k0 k1 st.1 st.2), st.2 + 2 * lp2D x k0 k1 st.1 st.2)

/-- the raw position state at the moment the output is read -/
def lp2Mid (x k0 k1 : Int) (st : Int × Int) : Int := st.1 + (st.2 + lp2D x k0 k1 st.1 st.2)

/-- the box in which one update is overflow- and saturation-free: position state in `i64`, input minus output in
    `i32`, velocity state within `±2^62`. -/
def Lp2Box (x : Int) (st : Int × Int) : Prop :=
  -9223372036854775808 ≤ st.1 ∧ st.1 < 9223372036854775808 ∧
  -2147483648 ≤ x - st.1 / 4294967296 ∧ x - st.1 / 4294967296 ≤ 2147483647 ∧
  -4611686018427387904 ≤ st.2 ∧ st.2 ≤ 4611686018427387904

theorem lp2_mul_box {p q P Q : Int} (hp0 : -P ≤ p) (hp1 : p ≤ P) (hq0 : -Q ≤ q) (hq1 : q ≤ Q) :
    -(P * Q) ≤ p * q ∧ p * q ≤ P * Q := by
  constructor
  · nlinarith [mul_nonneg (sub_nonneg.mpr hp1) (show 0 ≤ Q + q by linarith),
      mul_nonneg (show 0 ≤ P + p by linarith) (sub_nonneg.mpr hq1)]
  · nlinarith [mul_nonneg (sub_nonneg.mpr hp1) (sub_nonneg.mpr hq1),
      mul_nonneg (show 0 ≤ P + p by linarith) (show 0 ≤ Q + q by linarith)]

theorem lp2_satI_id {z : Int} (h0 : -2147483648 ≤ z) (h1 : z ≤ 2147483647) : satI 32 z = z := by
  unfold satI minI maxI
  simp only [show (32 : Nat) - 1 = 31 from rfl, Int.reducePow, Int.reduceNeg, Int.reduceSub]
  (repeat' split) <;> omega

theorem lp2_inI64 {z : Int} (h0 : -9223372036854775808 ≤ z) (h1 : z < 9223372036854775808) :
    inI 64 z = true := by
  rw [inI_iff]; simp only [show (64 : Nat) - 1 = 63 from rfl, Int.reducePow, Int.reduceNeg]; omega

/-- **one update = the plain integer map**, in both build profiles, for every pair of `i32` gains, whenever the
    current state and the state produced by the plain map lie in the box. -/
theorem lp2_step_box (m : Mode) (x k0 k1 : Int) (st : Int × Int)
    (hk0a : -2147483648 ≤ k0) (hk0b : k0 ≤ 2147483647) (hk1a : -2147483648 ≤ k1) (hk1b : k1 ≤ 2147483647)
    (hb : Lp2Box x st) (hn : Lp2Box x (lp2Next x k0 k1 st)) :
    lp2Update m st.1 st.2 x k0 k1
      = .ok ((lp2Next x k0 k1 st).1, (lp2Next x k0 k1 st).2, lp2Mid x k0 k1 st / 4294967296) := by
  obtain ⟨s0, s1⟩ := st
  obtain ⟨a0, a1, e0, e1, v0, v1⟩ := hb
  obtain ⟨n0, n1, -, -, w0, w1⟩ := hn
  simp only [lp2Next, lp2Mid] at *
  have hsat : satI 32 (x - s0 / 4294967296) = x - s0 / 4294967296 := lp2_satI_id e0 e1
  have hd : lp2D x k0 k1 s0 s1 = satI 32 (x - s0 / 4294967296) * k0 + s1 / 4294967296 * k1 := by
    rw [hsat]; rfl
  have hp1 := lp2_mul_box (p := x - s0 / 4294967296) (q := k0) (P := 2147483648) (Q := 2147483648)
    (by omega) (by omega) (by omega) (by omega)
  have hp2 := lp2_mul_box (p := s1 / 4294967296) (q := k1) (P := 1073741824) (Q := 2147483648)
    (by omega) (by omega) (by omega) (by omega)
  have key := lp2_step_linear m s0 s1 x k0 k1 (lp2_inI64 a0 a1) (lp2D x k0 k1 s0 s1) hd
  rw [hsat] at key hd
  generalize lp2D x k0 k1 s0 s1 = d at *
  generalize (x - s0 / 4294967296) * k0 = t1 at *
  generalize s1 / 4294967296 * k1 = t2 at *
  norm_num at hp1 hp2
  apply key <;> (apply lp2_inI64 <;> omega)

/-- **Part 1: the exact error recursion.**  With the raw error `E = x·2^32 − s0`, the velocity state `s1` and the two
    floor remainders `r0 = s0 mod 2^32`, `r1 = s1 mod 2^32` (so `δ₁ = r0/2^32`, `δ₂ = r1/2^32 ∈ [0,1)`), the plain map
    is the affine map
      `2^32·E'  = (2^32 − 2k0)·E − (2·2^32 + 2k1)·s1 − 2(k0·r0 − k1·r1)`
      `2^32·s1' = 2k0·E + (2^32 + 2k1)·s1 + 2(k0·r0 − k1·r1)`;
    the disturbance `k0·r0 − k1·r1` is `2^32·(k0·δ₁ − k1·δ₂)`. -/
theorem lp2_err_rec (x k0 k1 : Int) (st : Int × Int) :
    0 ≤ st.1 % 4294967296 ∧ st.1 % 4294967296 < 4294967296 ∧
    0 ≤ st.2 % 4294967296 ∧ st.2 % 4294967296 < 4294967296 ∧
    4294967296 * (x * 4294967296 - (lp2Next x k0 k1 st).1)
      = (4294967296 - 2 * k0) * (x * 4294967296 - st.1) - (2 * 4294967296 + 2 * k1) * st.2
        - 2 * (k0 * (st.1 % 4294967296) - k1 * (st.2 % 4294967296)) ∧
    4294967296 * (lp2Next x k0 k1 st).2
      = 2 * k0 * (x * 4294967296 - st.1) + (4294967296 + 2 * k1) * st.2
        + 2 * (k0 * (st.1 % 4294967296) - k1 * (st.2 % 4294967296)) ∧
    2 * (x * 4294967296 - lp2Mid x k0 k1 st)
      = (x * 4294967296 - st.1) + (x * 4294967296 - (lp2Next x k0 k1 st).1) := by
  obtain ⟨s0, s1⟩ := st
  simp only [lp2Next, lp2Mid, lp2D]
  have h0 := Int.mul_ediv_add_emod s0 4294967296
  have h1 := Int.mul_ediv_add_emod s1 4294967296
  refine ⟨by omega, by omega, by omega, by omega, ?_, ?_, by ring⟩
  · linear_combination (2 * k0) * h0 - (2 * k1) * h1
  · linear_combination (-2 * k0) * h0 + (2 * k1) * h1

end Idsp
