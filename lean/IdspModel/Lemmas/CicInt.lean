import IdspModel.Model.Cic
import IdspModel.Lemmas.CicSeq
import IdspModel.Lemmas.CicDec
/-!
# Refinement of the CIC interpolator model to the sequence algebra (C13)
-/
namespace Idsp

/-! ## exact (unbounded) chains -/

/-- integrator chain over ℤ -/
def integZ : List Int → Int → List Int × Int
  | [], x => ([], x)
  | i :: is, x => ((i + x) :: (integZ is (i + x)).1, (integZ is (i + x)).2)

/-- comb chain over ℤ -/
def combsZ : List Int → Int → List Int × Int
  | [], x => ([], x)
  | c :: cs, x => (x :: (combsZ cs (x - c)).1, (combsZ cs (x - c)).2)

theorem integZ_seqList (f g : Nat → Int) (h : ∀ j, g (j + 1) = f (j + 1) + g j) (n k : Nat) :
    integZ (seqList f (k + 1) n) (g k) = (seqList g (k + 1) n, g (k + n)) := by
  induction n generalizing k with
  | zero => rfl
  | succ n ih =>
    simp only [seqList, integZ, ← h, ih (k + 1)]
    have : k + 1 + n = k + (n + 1) := by omega
    rw [this]

theorem combsZ_seqList (f g : Nat → Int) (h : ∀ j, g (j + 1) = g j - f j) (n k : Nat) :
    combsZ (seqList f k n) (g k) = (seqList g k n, g (k + n)) := by
  induction n generalizing k with
  | zero => rfl
  | succ n ih =>
    simp only [seqList, combsZ, ← h, ih (k + 1)]
    have : k + 1 + n = k + (n + 1) := by omega
    rw [this]

/-! ## checked chains -/

theorem arithI_checked_cases (w : Nat) (site : String) (x : Int) :
    (inI w x = true ∧ arithI .checked w site x = .ok x) ∨
    (inI w x = false ∧ arithI .checked w site x = .error ⟨site⟩) := by
  unfold arithI
  by_cases h : inI w x = true
  · left; simp [h]
  · right; simp [h]

theorem arithI_error_site {m : Mode} {w : Nat} {site : String} {x : Int} {p : Panic}
    (h : arithI m w site x = .error p) : p.site = site := by
  unfold arithI at h
  split at h
  · cases h
  · cases m
    · cases h; rfl
    · cases h

theorem integChk_checked_ok {w : Nat} {l : List Int} {x : Int} {r : List Int × Int}
    (h : integChk .checked w l x = .ok r) : r = integZ l x := by
  induction l generalizing x r with
  | nil => cases h; rfl
  | cons i is ih =>
    unfold integChk at h
    rcases arithI_checked_cases w "cic.rs:141 *i += x" (i + x) with ⟨_, e⟩ | ⟨_, e⟩
    · rw [e] at h
      cases hr : integChk .checked w is (i + x) with
      | error p => simp [hr, bind, Except.bind] at h
      | ok r' =>
        have := ih hr
        simp only [hr, bind, Except.bind] at h
        cases h
        simp only [integZ, ← this]
    · rw [e] at h; cases h

theorem combsChk_checked_ok {w : Nat} {l : List Int} {x : Int} {r : List Int × Int}
    (h : combsChk .checked w l x = .ok r) : r = combsZ l x := by
  induction l generalizing x r with
  | nil => cases h; rfl
  | cons c cs ih =>
    unfold combsChk at h
    rcases arithI_checked_cases w "cic.rs:131 x - *c" (x - c) with ⟨_, e⟩ | ⟨_, e⟩
    · rw [e] at h
      cases hr : combsChk .checked w cs (x - c) with
      | error p => simp [hr, bind, Except.bind] at h
      | ok r' =>
        have := ih hr
        simp only [hr, bind, Except.bind] at h
        cases h
        simp only [combsZ, ← this]
    · rw [e] at h; cases h

theorem integChk_error_site {m : Mode} {w : Nat} {l : List Int} {x : Int} {p : Panic}
    (h : integChk m w l x = .error p) : p.site = "cic.rs:141 *i += x" := by
  induction l generalizing x with
  | nil => cases h
  | cons i is ih =>
    unfold integChk at h
    cases ha : arithI m w "cic.rs:141 *i += x" (i + x) with
    | error q =>
      rw [ha] at h
      cases h
      exact arithI_error_site ha
    | ok y =>
      rw [ha] at h
      cases hr : integChk m w is y with
      | error q =>
        simp only [hr, bind, Except.bind] at h
        cases h
        exact ih hr
      | ok r' => simp [hr, bind, Except.bind] at h

theorem combsChk_error_site {m : Mode} {w : Nat} {l : List Int} {x : Int} {p : Panic}
    (h : combsChk m w l x = .error p) : p.site = "cic.rs:131 x - *c" := by
  induction l generalizing x with
  | nil => cases h
  | cons c cs ih =>
    unfold combsChk at h
    cases ha : arithI m w "cic.rs:131 x - *c" (x - c) with
    | error q =>
      rw [ha] at h
      cases h
      exact arithI_error_site ha
    | ok y =>
      rw [ha] at h
      cases hr : combsChk m w cs y with
      | error q =>
        simp only [hr, bind, Except.bind] at h
        cases h
        exact ih hr
      | ok r' => simp [hr, bind, Except.bind] at h

/-- the value returned by the integrator chain is the last stored value (or the input for order 0) -/
theorem integChk_getLast {m : Mode} {w : Nat} {l : List Int} {x : Int} {l' : List Int} {y : Int}
    (h : integChk m w l x = .ok (l', y)) : l'.getLast?.getD x = y := by
  induction l generalizing x l' y with
  | nil => cases h; rfl
  | cons i is ih =>
    unfold integChk at h
    cases ha : arithI m w "cic.rs:141 *i += x" (i + x) with
    | error q => rw [ha] at h; cases h
    | ok v =>
      rw [ha] at h
      cases hr : integChk m w is v with
      | error q => simp [hr, bind, Except.bind] at h
      | ok r' =>
        obtain ⟨is', y'⟩ := r'
        simp only [hr, bind, Except.bind] at h
        cases h
        have := ih hr
        rw [List.getLast?_cons]
        simpa using this

/-! ## the two branches of `interpolate` -/

/-- `interpolate(Some(x))` when `index = 0` -/
theorem interpolate_some_eq (m : Mode) (w : Nat) (s : Cic) (x : Int) (h0 : s.index = 0) :
    s.interpolate m w (some x) =
      match combsChk m w s.combs x with
      | .error e => .error e
      | .ok (cs, z) =>
        match integChk m w s.integrators z with
        | .error e => .error e
        | .ok (ints, y) =>
          .ok ({ s with index := s.rate, combs := cs, zoh := z, integrators := ints }, y) := by
  unfold Cic.interpolate
  have hd : dbgAssert m "cic.rs:128 debug_assert_eq!(self.index, 0)" (decide (s.index = 0)) = .ok () := by
    cases m <;> simp [dbgAssert, h0]
  simp only [hd, bind, Except.bind, pure, Except.pure]
  cases hc : combsChk m w s.combs x with
  | error e => rfl
  | ok r =>
    obtain ⟨cs, z⟩ := r
    simp only
    cases hi : integChk m w s.integrators z with
    | error e => rfl
    | ok r2 => rfl

/-- `interpolate(None)` when `1 ≤ index` (a `u32`) -/
theorem interpolate_none_eq (m : Mode) (w : Nat) (s : Cic) (h1 : 1 ≤ s.index) (h2 : s.index ≤ 2 ^ 32) :
    s.interpolate m w none =
      match integChk m w s.integrators s.zoh with
      | .error e => .error e
      | .ok (ints, y) => .ok ({ s with index := s.index - 1, integrators := ints }, y) := by
  unfold Cic.interpolate
  have hd : arithU m 32 "cic.rs:137 self.index -= 1" (s.index - 1) = .ok (s.index - 1) :=
    arithU_ok_of_in (by rw [inU_iff]; omega)
  simp only [hd, bind, Except.bind, pure, Except.pure]
  cases hi : integChk m w s.integrators s.zoh with
  | error e => rfl
  | ok r2 => rfl

/-- contract violation 1: `Some` while `tick()` is false panics under debug assertions -/
theorem interpolate_some_checked_panics (w : Nat) (s : Cic) (x : Int) (h : s.index ≠ 0) :
    s.interpolate .checked w (some x) = .error ⟨"cic.rs:128 debug_assert_eq!(self.index, 0)"⟩ := by
  unfold Cic.interpolate
  simp [dbgAssert, h, bind, Except.bind]

/-- contract violation 2: `None` while `tick()` is true underflows `index` -/
theorem interpolate_none_checked_panics (w : Nat) (s : Cic) (h : s.index = 0) :
    s.interpolate .checked w none = .error ⟨"cic.rs:137 self.index -= 1"⟩ := by
  unfold Cic.interpolate
  simp [arithU, inU, h, bind, Except.bind]

/-- `get_interpolate()` after any successful call is the value just returned -/
theorem getInterpolate_after {m : Mode} {w : Nat} {s s' : Cic} {inp : Option Int} {y : Int}
    (h : s.interpolate m w inp = .ok (s', y)) : s'.getInterpolate = y := by
  unfold Cic.interpolate at h
  simp only [bind, Except.bind] at h
  split at h
  · cases h
  · rename_i s1 _
    cases hi : integChk m w s1.integrators s1.zoh with
    | error e => rw [hi] at h; cases h
    | ok r =>
      obtain ⟨ints, y'⟩ := r
      rw [hi] at h
      cases h
      exact integChk_getLast hi

/-! ## invariant -/

/-- the held comb output: what the integrators are fed with at the high rate -/
def intZoh (N R : Nat) (V : Int → Int) : Int → Int := seqHold R (opPow (seqD 1) N V)

/-- invariant of the interpolator after `m·R + r` calls, `1 ≤ r ≤ R` (`m = -1`, `r = R` initially);
    all values are exact integers -/
structure IntInv (N R : Nat) (V : Int → Int) (s : Cic) (m r : Int) : Prop where
  rate : s.rate = (R : Int) - 1
  index : s.index = R - r
  combs : s.combs = seqList (fun j => opPow (seqD 1) j V m) 0 N
  zoh : s.zoh = opPow (seqD 1) N V m
  ints : s.integrators = seqList (fun j => opPow seqS j (intZoh N R V) (m * R + r - 1)) 1 N

theorem causal_intZoh {N R : Nat} (hR : 0 < R) {V : Int → Int} (hV : Causal V) : Causal (intZoh N R V) :=
  causal_seqHold hR (causal_opPow_D 1 N hV)

theorem intInv_init {N R : Nat} (hR : 0 < R) {V : Int → Int} (hV : Causal V) :
    IntInv N R V (Cic.new N ((R : Int) - 1)) (-1) R where
  rate := rfl
  index := by simp [Cic.new]
  combs := by
    show List.replicate N 0 = _
    symm; apply seqList_const
    intro j
    exact causal_opPow_D 1 j hV _ (by omega)
  zoh := by
    show (0 : Int) = _
    rw [causal_opPow_D 1 N hV _ (by omega)]
  ints := by
    show List.replicate N 0 = _
    symm; apply seqList_const
    intro j
    exact causal_opPow_S j (causal_intZoh hR hV) _ (by omega)

/-- the integrator pass at time `t`, given that `zoh` already holds `intZoh t` -/
theorem intInv_integ {N R : Nat} (hR : 0 < R) {V : Int → Int} (hV : Causal V) (l : List Int) (z : Int) (t : Int)
    (hl : l = seqList (fun j => opPow seqS j (intZoh N R V) (t - 1)) 1 N) (hz : z = intZoh N R V t) :
    integZ l z = (seqList (fun j => opPow seqS j (intZoh N R V) t) 1 N, opPow seqS N (intZoh N R V) t) := by
  have key := integZ_seqList (fun j => opPow seqS j (intZoh N R V) (t - 1))
    (fun j => opPow seqS j (intZoh N R V) t)
    (by
      intro j
      show seqS (opPow seqS j _) _ = seqS (opPow seqS j _) _ + _
      exact seqS_rec_causal (causal_opPow_S j (causal_intZoh hR hV)) _) N 0
  simp only [Nat.zero_add] at key
  rw [hl, hz]; exact key

/-- the interpolator identity: the last integrator carries the `N`-fold boxcar of the held input -/
theorem intOut_eq_box {N R : Nat} (hR : 0 < R) {V : Int → Int} (hV : Causal V) :
    opPow seqS N (intZoh N R V) = opPow (seqB R) N (seqHold R V) := by
  unfold intZoh
  rw [seqHold_opPow_D_one hR, opPow_S_D R N (causal_seqHold hR hV)]

/-- a call with `None` (`r < R`), overflow checks on -/
theorem intInv_step_none {w N R : Nat} (hR : 0 < R) (hR32 : (R : Int) ≤ 2 ^ 32) {V : Int → Int} (hV : Causal V)
    {s : Cic} {m r : Int} (h : IntInv N R V s m r) (hr1 : 1 ≤ r) (hrR : r < R) :
    (∃ p, s.interpolate .checked w none = .error p ∧ p.site = "cic.rs:141 *i += x") ∨
    (∃ s', s.interpolate .checked w none = .ok (s', opPow seqS N (intZoh N R V) (m * R + r)) ∧
      IntInv N R V s' m (r + 1)) := by
  have hz : s.zoh = intZoh N R V (m * R + r) := by
    rw [h.zoh]; unfold intZoh seqHold
    have : (m * (R : Int) + r) / R = m := by
      rw [Int.add_comm, Int.add_mul_ediv_right _ _ (by omega), Int.ediv_eq_zero_of_lt (by omega) hrR]; omega
    rw [this]
  rw [interpolate_none_eq .checked w s (by rw [h.index]; omega) (by rw [h.index]; omega)]
  cases hi : integChk .checked w s.integrators s.zoh with
  | error e => left; exact ⟨e, rfl, integChk_error_site hi⟩
  | ok r2 =>
    right
    have e2 := integChk_checked_ok hi
    rw [intInv_integ hR hV s.integrators s.zoh (m * R + r) h.ints hz] at e2
    subst e2
    refine ⟨_, rfl, ⟨h.rate, ?_, h.combs, h.zoh, ?_⟩⟩
    · show s.index - 1 = _
      rw [h.index]; omega
    · show seqList _ 1 N = _
      have : m * (R : Int) + (r + 1) - 1 = m * R + r := by omega
      rw [this]

/-- a call with `Some (V (m+1))` at a tick (`r = R`), overflow checks on -/
theorem intInv_step_some {w N R : Nat} (hR : 0 < R) {V : Int → Int} (hV : Causal V)
    {s : Cic} {m : Int} (h : IntInv N R V s m R) :
    (∃ p, s.interpolate .checked w (some (V (m + 1))) = .error p ∧
      (p.site = "cic.rs:131 x - *c" ∨ p.site = "cic.rs:141 *i += x")) ∨
    (∃ s', s.interpolate .checked w (some (V (m + 1)))
        = .ok (s', opPow seqS N (intZoh N R V) ((m + 1) * R)) ∧
      IntInv N R V s' (m + 1) 1) := by
  rw [interpolate_some_eq .checked w s _ (by rw [h.index]; omega)]
  cases hc : combsChk .checked w s.combs (V (m + 1)) with
  | error e => left; exact ⟨e, rfl, Or.inl (combsChk_error_site hc)⟩
  | ok r1 =>
    have e1 := combsChk_checked_ok hc
    have hC := combsZ_seqList (fun j => opPow (seqD 1) j V m) (fun j => opPow (seqD 1) j V (m + 1))
      (by
        intro j
        show seqD 1 (opPow (seqD 1) j V) (m + 1) = _
        unfold seqD
        have : m + 1 - ((1 : Nat) : Int) = m := by push_cast; omega
        rw [this]) N 0
    simp only [Nat.zero_add] at hC
    rw [h.combs] at e1
    rw [show V (m + 1) = opPow (seqD 1) 0 V (m + 1) from rfl, hC] at e1
    subst e1
    simp only
    have hz : opPow (seqD 1) N V (m + 1) = intZoh N R V ((m + 1) * R) := by
      unfold intZoh seqHold
      rw [Int.mul_ediv_cancel _ (by omega)]
    have e : (m + 1) * (R : Int) - 1 = m * R + R - 1 := by ring
    cases hi : integChk .checked w s.integrators (opPow (seqD 1) N V (m + 1)) with
    | error e => left; exact ⟨e, rfl, Or.inr (integChk_error_site hi)⟩
    | ok r2 =>
      right
      have e2 := integChk_checked_ok hi
      rw [intInv_integ hR hV s.integrators _ ((m + 1) * R) (by rw [h.ints, e]) hz] at e2
      subst e2
      refine ⟨_, rfl, ⟨h.rate, ?_, rfl, rfl, ?_⟩⟩
      · exact h.rate
      · show seqList _ 1 N = _
        have : (m + 1) * (R : Int) + 1 - 1 = (m + 1) * R := by omega
        rw [this]

/-! ## tick-driven run -/

/-- `t` calls of `interpolate`; at every call the next low-rate sample `v k` is supplied iff `tick()` is true
    (the documented contract). Returns the state, the number of consumed low-rate samples and the outputs. -/
def Cic.interpAuto (m : Mode) (w : Nat) (s0 : Cic) (v : Nat → Int) : Nat → R (Cic × Nat × List Int)
  | 0 => .ok (s0, 0, [])
  | t + 1 =>
    match Cic.interpAuto m w s0 v t with
    | .error e => .error e
    | .ok (s, k, ys) =>
      match s.interpolate m w (if s.tick then some (v k) else none) with
      | .error e => .error e
      | .ok (s', y) => .ok (s', if s.tick then k + 1 else k, ys ++ [y])

/-- exact high-rate output sequence of the interpolator for the low-rate stream `v` -/
def intSpec (N R : Nat) (v : Nat → Int) (t : Int) : Int := opPow (seqB R) N (seqHold R (ext v)) t

/-- what a successful run of `t` calls from the zero state looks like -/
structure IntRunOk (N R : Nat) (v : Nat → Int) (t : Nat) (s : Cic) (k : Nat) (ys : List Int) : Prop where
  inv : ∃ m r : Int, (t : Int) = m * R + r ∧ 1 ≤ r ∧ r ≤ R ∧ (k : Int) = m + 1 ∧ IntInv N R (ext v) s m r
  outs : ys = (List.range t).map (fun i : Nat => intSpec N R v (i : Int))

theorem interpAuto_checked {w N R : Nat} (hR : 0 < R) (hR32 : (R : Int) ≤ 2 ^ 32) (v : Nat → Int) (t : Nat) :
    (∃ p, Cic.interpAuto .checked w (Cic.new N ((R : Int) - 1)) v t = .error p ∧
      (p.site = "cic.rs:131 x - *c" ∨ p.site = "cic.rs:141 *i += x")) ∨
    (∃ s k ys, Cic.interpAuto .checked w (Cic.new N ((R : Int) - 1)) v t = .ok (s, k, ys) ∧
      IntRunOk N R v t s k ys) := by
  induction t with
  | zero =>
    right
    exact ⟨_, _, _, rfl, ⟨-1, R, by push_cast; ring, by omega, by omega, by simp,
      intInv_init hR (causal_ext v)⟩, rfl⟩
  | succ t ih =>
    rcases ih with ⟨p, hp, hs⟩ | ⟨s, k, ys, hrun, ⟨m, r, ht, h1, h2, hk, inv⟩, houts⟩
    · left; exact ⟨p, by simp only [Cic.interpAuto, hp], hs⟩
    · have hV := causal_ext v
      have hspec : opPow seqS N (intZoh N R (ext v)) (t : Int) = intSpec N R v t := by
        rw [intOut_eq_box hR hV]; rfl
      simp only [Cic.interpAuto, hrun]
      by_cases hr : r = R
      · subst hr
        have htick : s.tick = true := by unfold Cic.tick; rw [inv.index]; simp
        have hvk : v k = ext v (m + 1) := by rw [← hk, ext_nat]
        have ht' : (m + 1) * (R : Int) = t := by rw [ht]; ring
        rcases intInv_step_some (w := w) hR hV inv with ⟨p, hp, hs⟩ | ⟨s', hs', inv'⟩
        · left; simp only [htick, ↓reduceIte, hvk, hp]; exact ⟨p, rfl, hs⟩
        · right
          simp only [htick, ↓reduceIte, hvk, hs']
          refine ⟨_, _, _, rfl, ⟨m + 1, 1, by push_cast; rw [ht]; ring, by omega, by omega,
            by push_cast; omega, inv'⟩, ?_⟩
          rw [List.range_succ, List.map_append, ← houts, ht', hspec]; rfl
      · have htick : s.tick = false := by
          unfold Cic.tick; rw [inv.index]; simp; omega
        rcases intInv_step_none (w := w) hR hR32 hV inv h1 (by omega) with ⟨p, hp, hs⟩ | ⟨s', hs', inv'⟩
        · left; simp only [htick, Bool.false_eq_true, if_false, hp]; exact ⟨p, rfl, Or.inr hs⟩
        · right
          simp only [htick, Bool.false_eq_true, if_false, hs']
          refine ⟨_, _, _, rfl, ⟨m, r + 1, by push_cast; rw [ht]; ring, by omega, by omega, hk, inv'⟩, ?_⟩
          rw [List.range_succ, List.map_append, ← houts, ← ht, hspec]; rfl

theorem interpAuto_checked_ok {w N R : Nat} (hR : 0 < R) (hR32 : (R : Int) ≤ 2 ^ 32) (v : Nat → Int) (t : Nat)
    {s : Cic} {k : Nat} {ys : List Int}
    (h : Cic.interpAuto .checked w (Cic.new N ((R : Int) - 1)) v t = .ok (s, k, ys)) : IntRunOk N R v t s k ys := by
  rcases interpAuto_checked (w := w) (N := N) hR hR32 v t with ⟨p, hp, _⟩ | ⟨s', k', ys', hrun, hok⟩
  · rw [hp] at h; cases h
  · rw [hrun] at h; cases h; exact hok

/-- the index / tick / sample counter after `t` successful calls -/
theorem intRunOk_control {N R : Nat} (hR : 0 < R) {v : Nat → Int} {t : Nat} {s : Cic} {k : Nat} {ys : List Int}
    (h : IntRunOk N R v t s k ys) :
    s.tick = decide (t % R = 0) ∧ (k : Int) = ((t : Int) + R - 1) / R ∧ s.rate = (R : Int) - 1 ∧
    s.combs.length = N ∧ s.integrators.length = N := by
  obtain ⟨m, r, ht, h1, h2, hk, inv⟩ := h.inv
  refine ⟨?_, ?_, inv.rate, by rw [inv.combs, seqList_length], by rw [inv.ints, seqList_length]⟩
  · unfold Cic.tick
    rw [inv.index]
    by_cases hr : r = R
    · subst hr
      have : t % R = 0 := nat_mod_eq_zero_of_int (q := m + 1) (by rw [ht]; ring)
      simp [this]
    · have : t % R ≠ 0 := nat_mod_ne_zero_of_int ht h1 (by omega)
      simp [this]; omega
  · have : (t : Int) + R - 1 = (r - 1) + (m + 1) * R := by rw [ht]; ring
    rw [this, Int.add_mul_ediv_right _ _ (by omega), Int.ediv_eq_zero_of_lt (by omega) (by omega), hk]
    omega

/-! ## sufficient (and exact) condition for a panic-free run -/

theorem mem_seqList {f : Nat → Int} {k n : Nat} {v : Int} (h : v ∈ seqList f k n) :
    ∃ j, k ≤ j ∧ j < k + n ∧ v = f j := by
  induction n generalizing k with
  | zero => simp [seqList] at h
  | succ n ih =>
    simp only [seqList, List.mem_cons] at h
    rcases h with rfl | h
    · exact ⟨k, by omega, by omega, rfl⟩
    · obtain ⟨j, h1, h2, h3⟩ := ih h
      exact ⟨j, by omega, by omega, h3⟩

theorem integChk_ok_of_fits {m : Mode} {w : Nat} (l : List Int) (x : Int)
    (h : ∀ v ∈ (integZ l x).1, inI w v = true) : integChk m w l x = .ok (integZ l x) := by
  induction l generalizing x with
  | nil => rfl
  | cons i is ih =>
    simp only [integZ, List.mem_cons, forall_eq_or_imp] at h
    unfold integChk
    rw [arithI_ok_of_in h.1]
    simp only [bind, Except.bind, ih (i + x) h.2]
    rfl

/-- all subtraction results of the comb chain fit -/
def combsFits (w : Nat) : List Int → Int → Prop
  | [], _ => True
  | c :: cs, x => inI w (x - c) = true ∧ combsFits w cs (x - c)

theorem combsChk_ok_of_fits {m : Mode} {w : Nat} (l : List Int) (x : Int)
    (h : combsFits w l x) : combsChk m w l x = .ok (combsZ l x) := by
  induction l generalizing x with
  | nil => rfl
  | cons c cs ih =>
    unfold combsChk
    rw [arithI_ok_of_in h.1]
    simp only [bind, Except.bind, ih (x - c) h.2]
    rfl

theorem combsFits_seqList {w : Nat} (f g : Nat → Int) (h : ∀ j, g (j + 1) = g j - f j) (n k : Nat)
    (hin : ∀ j, k + 1 ≤ j → j ≤ k + n → inI w (g j) = true) : combsFits w (seqList f k n) (g k) := by
  induction n generalizing k with
  | zero => trivial
  | succ n ih =>
    refine ⟨by rw [← h]; exact hin _ (by omega) (by omega), ?_⟩
    rw [← h]
    exact ih (k + 1) (fun j h1 h2 => hin j (by omega) (by omega))

/-- if all exact comb outputs and all exact integrator values fit the sample type, a tick-driven run from the
    zero state never panics -/
theorem interpAuto_ok_of_fits {w N R : Nat} (hR : 0 < R) (hR32 : (R : Int) ≤ 2 ^ 32) (v : Nat → Int)
    (hc : ∀ (m : Int) (j : Nat), 1 ≤ j → j ≤ N → inI w (opPow (seqD 1) j (ext v) m) = true)
    (hi : ∀ (i : Int) (j : Nat), 1 ≤ j → j ≤ N → inI w (opPow seqS j (intZoh N R (ext v)) i) = true)
    (t : Nat) :
    ∃ s k ys, Cic.interpAuto .checked w (Cic.new N ((R : Int) - 1)) v t = .ok (s, k, ys) := by
  induction t with
  | zero => exact ⟨_, _, _, rfl⟩
  | succ t ih =>
    obtain ⟨s, k, ys, hrun⟩ := ih
    obtain ⟨m, r, ht, h1, h2, hk, inv⟩ := (interpAuto_checked_ok hR hR32 v t hrun).inv
    have hV := causal_ext v
    have hfitI : ∀ (l : List Int) (z : Int) (τ : Int),
        l = seqList (fun j => opPow seqS j (intZoh N R (ext v)) (τ - 1)) 1 N → z = intZoh N R (ext v) τ →
        integChk .checked w l z = .ok (integZ l z) := by
      intro l z τ hl hz
      apply integChk_ok_of_fits
      rw [intInv_integ hR hV l z τ hl hz]
      intro u hu
      obtain ⟨j, j1, j2, rfl⟩ := mem_seqList hu
      exact hi τ j j1 (by omega)
    simp only [Cic.interpAuto, hrun]
    by_cases hr : r = R
    · subst hr
      have htick : s.tick = true := by unfold Cic.tick; rw [inv.index]; simp
      have hvk : v k = ext v (m + 1) := by rw [← hk, ext_nat]
      simp only [htick, ↓reduceIte, hvk]
      rw [interpolate_some_eq .checked w s _ (by rw [inv.index]; omega)]
      have hrec : ∀ j, opPow (seqD 1) (j + 1) (ext v) (m + 1)
          = opPow (seqD 1) j (ext v) (m + 1) - opPow (seqD 1) j (ext v) m := by
        intro j
        show seqD 1 (opPow (seqD 1) j (ext v)) (m + 1) = _
        unfold seqD
        have : m + 1 - ((1 : Nat) : Int) = m := by push_cast; omega
        rw [this]
      have hcz := combsZ_seqList (fun j => opPow (seqD 1) j (ext v) m)
        (fun j => opPow (seqD 1) j (ext v) (m + 1)) hrec N 0
      have hcf := combsFits_seqList (w := w) (fun j => opPow (seqD 1) j (ext v) m)
        (fun j => opPow (seqD 1) j (ext v) (m + 1)) hrec N 0
        (fun j j1 j2 => hc (m + 1) j (by omega) (by omega))
      simp only [Nat.zero_add] at hcz
      have hcomb := combsChk_ok_of_fits (m := .checked) _ _ hcf
      rw [← inv.combs] at hcomb hcz
      rw [show ext v (m + 1) = opPow (seqD 1) 0 (ext v) (m + 1) from rfl, hcomb, hcz]
      simp only
      have hz : opPow (seqD 1) N (ext v) (m + 1) = intZoh N R (ext v) ((m + 1) * R) := by
        unfold intZoh seqHold
        rw [Int.mul_ediv_cancel _ (by omega)]
      have e : (m + 1) * (R : Int) - 1 = m * R + R - 1 := by ring
      rw [hfitI s.integrators _ ((m + 1) * R) (by rw [inv.ints, e]) hz]
      exact ⟨_, _, _, rfl⟩
    · have htick : s.tick = false := by
        unfold Cic.tick; rw [inv.index]; simp; omega
      simp only [htick, Bool.false_eq_true, if_false]
      rw [interpolate_none_eq .checked w s (by rw [inv.index]; omega) (by rw [inv.index]; omega)]
      have hz : s.zoh = intZoh N R (ext v) (m * R + r) := by
        rw [inv.zoh]; unfold intZoh seqHold
        have : (m * (R : Int) + r) / R = m := by
          rw [Int.add_comm, Int.add_mul_ediv_right _ _ (by omega), Int.ediv_eq_zero_of_lt (by omega) (by omega)]
          omega
        rw [this]
      rw [hfitI s.integrators s.zoh (m * R + r) inv.ints hz]
      exact ⟨_, _, _, rfl⟩

end Idsp
