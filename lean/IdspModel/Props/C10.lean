import IdspModel.Model.Lowpass
import IdspModel.Lemmas.Basic
import IdspModel.Lemmas.Eval
/-!
# C10 — Lowpass: first order never overshoots, has unity DC gain; second order: overflow boundary

`lp1Update m s x k` models `Lowpass::<1>::update(x, &[k])` on the raw `i64` state `s`;
`lpGet s = s >> 32` is `get()`.  The first-order clauses are theorems for EVERY i64 state (not only
reachable ones), every `x : i32` and every `1 ≤ k ≤ 2^31-1`.  The second-order quantitative clauses
(settling, overshoot) are explored natively, not proved; the "never wraps for every step size" clause
is FALSE for the code (theorem `lp2_fullscale_overflow_witness`, known finding F-C10).
-/
namespace Idsp
set_option linter.unusedSimpArgs false

private theorem get_eq {s : Int} (h0 : -9223372036854775808 ≤ s) (h1 : s < 9223372036854775808) :
    lpGet s = s / 4294967296 := by
  unfold lpGet shr
  rw [wrapI32_id (by omega) (by omega)]; rfl

private theorem mul_bounds {a k : Int} (hk0 : 1 ≤ k) (hk1 : k ≤ 2147483647) :
    (0 ≤ a → a ≤ a * k ∧ a * k ≤ a * 2147483647) ∧ (a ≤ 0 → a * 2147483647 ≤ a * k ∧ a * k ≤ a) := by
  constructor
  · intro ha
    constructor
    · have := Int.mul_le_mul_of_nonneg_left hk0 ha; omega
    · exact Int.mul_le_mul_of_nonneg_left hk1 ha
  · intro ha
    constructor
    · exact Int.mul_le_mul_of_nonpos_left ha hk1
    · have := Int.mul_le_mul_of_nonpos_left ha hk0; omega

private theorem sat_spec (z : Int) :
    -2147483648 ≤ satI 32 z ∧ satI 32 z ≤ 2147483647 ∧ (0 ≤ z → 0 ≤ satI 32 z ∧ satI 32 z ≤ z) ∧
    (z ≤ 0 → satI 32 z ≤ 0 ∧ z ≤ satI 32 z) ∧ (0 < z → 1 ≤ satI 32 z) ∧ (z < 0 → satI 32 z ≤ -1) := by
  unfold satI minI maxI
  simp only [show (32 : Nat) - 1 = 31 from rfl, Int.reducePow, Int.reduceNeg, Int.reduceSub]
  (repeat' split) <;> omega

/-- the explicit one-step description of the first-order lowpass used by all clauses below -/
theorem lp1_step (m : Mode) (s x k : Int)
    (hs0 : -9223372036854775808 ≤ s) (hs1 : s < 9223372036854775808)
    (hx0 : -2147483648 ≤ x) (hx1 : x < 2147483648) (hk0 : 1 ≤ k) (hk1 : k ≤ 2147483647) :
    ∃ d : Int, lp1Update m s x k = .ok (s + 2 * d, (s + d) / 4294967296) ∧
      d = satI 32 (x - s / 4294967296) * k ∧
      -9223372036854775808 ≤ s + 2 * d ∧ s + 2 * d < 9223372036854775808 ∧
      (s / 4294967296 ≤ x → 0 ≤ d ∧ (s + 2 * d) / 4294967296 ≤ x) ∧
      (x ≤ s / 4294967296 → d ≤ 0 ∧ x ≤ (s + 2 * d) / 4294967296) ∧
      (s / 4294967296 < x → 1 ≤ d) ∧ (x < s / 4294967296 → d ≤ -1) := by
  have hg := get_eq hs0 hs1
  refine ⟨satI 32 (x - s / 4294967296) * k, ?_, rfl, ?_⟩
  · -- evaluation of the model
    have hb := mul_bounds (a := satI 32 (x - s / 4294967296)) hk0 hk1
    have hsat := sat_spec (x - s / 4294967296)
    unfold lp1Update
    rw [hg]
    generalize satI 32 (x - s / 4294967296) = a at hb hsat ⊢
    have h1 := hb.1; have h2 := hb.2
    have e1 : arithI m 64 "lowpass.rs:38 d = sat_sub * k" (a * k) = .ok (a * k) := by
      apply arithI64_ok <;> omega
    simp only [e1, bind_ok']
    have e2 : arithI m 64 "lowpass.rs:41 self.0[0] += d" (s + a * k) = .ok (s + a * k) := by
      apply arithI64_ok <;> omega
    simp only [e2, bind_ok']
    have e3 : arithI m 64 "lowpass.rs:43 self.0[0] += d" (s + a * k + a * k) = .ok (s + a * k + a * k) := by
      apply arithI64_ok <;> omega
    simp only [e3, bind_ok']
    rw [get_eq (by omega) (by omega)]
    congr 2; omega
  · have hb := mul_bounds (a := satI 32 (x - s / 4294967296)) hk0 hk1
    have hsat := sat_spec (x - s / 4294967296)
    generalize satI 32 (x - s / 4294967296) = a at hb hsat ⊢
    have h1 := hb.1; have h2 := hb.2
    refine ⟨by omega, by omega, ?_, ?_, ?_, ?_⟩ <;> intro h <;> omega

/-- **never overshoots, never overflows**: for every gain `1 ≤ k ≤ 2^31-1`, EVERY i64 state and every input,
    in both build profiles the update returns (no panic, no wrap) and both the returned output and `get()`
    afterwards lie between the previous output and the new input (inclusive). -/
theorem lp1_between (m : Mode) (s x k : Int)
    (hs : inI 64 s = true) (hx : inI 32 x = true) (hk0 : 1 ≤ k) (hk1 : k ≤ 2 ^ 31 - 1) :
    ∃ s' y, lp1Update m s x k = .ok (s', y) ∧ inI 64 s' = true ∧
      min (lpGet s) x ≤ y ∧ y ≤ max (lpGet s) x ∧
      min (lpGet s) x ≤ lpGet s' ∧ lpGet s' ≤ max (lpGet s) x := by
  have ⟨hs0, hs1⟩ := inI_iff.mp hs
  have ⟨hx0, hx1⟩ := inI_iff.mp hx
  simp only [show (64 : Nat) - 1 = 63 from rfl, show (32 : Nat) - 1 = 31 from rfl, Int.reducePow, Int.reduceNeg] at hs0 hs1 hx0 hx1
  obtain ⟨d, he, -, hr0, hr1, hup, hdn, -, -⟩ := lp1_step m s x k hs0 hs1 hx0 hx1 hk0 (by omega)
  refine ⟨_, _, he, ?_, ?_⟩
  · rw [inI_iff]; simp only [show (64 : Nat) - 1 = 63 from rfl, Int.reducePow, Int.reduceNeg]; omega
  · rw [get_eq hs0 hs1, get_eq hr0 hr1]
    simp only [Int.min_def, Int.max_def]
    by_cases hc : s / 4294967296 ≤ x
    · have := hup hc
      simp only [hc, if_true]
      refine ⟨by omega, ?_, by omega, ?_⟩ <;> (first | omega | (split <;> omega))
    · have := hdn (by omega)
      simp only [hc, if_false]
      refine ⟨by omega, ?_, by omega, ?_⟩ <;> (first | omega | (split <;> omega))

/-- **DC gain exactly 1, held**: once `get() = x`, feeding `x` leaves the state untouched and returns `x`. -/
theorem lp1_dc_fixed (m : Mode) (s x k : Int)
    (hs : inI 64 s = true) (hx : inI 32 x = true) (hk0 : 1 ≤ k) (hk1 : k ≤ 2 ^ 31 - 1) (hg : lpGet s = x) :
    lp1Update m s x k = .ok (s, x) := by
  have ⟨hs0, hs1⟩ := inI_iff.mp hs
  have ⟨hx0, hx1⟩ := inI_iff.mp hx
  simp only [show (64 : Nat) - 1 = 63 from rfl, show (32 : Nat) - 1 = 31 from rfl, Int.reducePow, Int.reduceNeg] at hs0 hs1 hx0 hx1
  obtain ⟨d, he, hd, -, -, hup, hdn, -, -⟩ := lp1_step m s x k hs0 hs1 hx0 hx1 hk0 (by omega)
  rw [get_eq hs0 hs1] at hg
  have : d = 0 := by
    rw [hd, hg]; simp [satI, minI, maxI]
  rw [he, this]; simp [hg]

/-- iterate the update with a constant input (model is total on the stated domain, so `Option` is only plumbing) -/
def lp1Iter (m : Mode) (x k : Int) : Nat → Int → Option Int
  | 0, s => some s
  | n + 1, s => match lp1Update m s x k with
    | .ok (s', _) => lp1Iter m x k n s'
    | .error _ => none

/-- **a constant input is reached exactly**: from EVERY i64 state, feeding a constant `x` reaches a state with
    `get() = x` after finitely many updates (then `lp1_dc_fixed` holds it for ever).  Proof: the raw state moves
    towards the band `[x·2^32, (x+1)·2^32)` by at least 2 per update and never jumps across it. -/
theorem lp1_dc_reaches (m : Mode) (x k : Int) (hx : inI 32 x = true) (hk0 : 1 ≤ k) (hk1 : k ≤ 2 ^ 31 - 1)
    (s : Int) (hs : inI 64 s = true) :
    ∃ n s', lp1Iter m x k n s = some s' ∧ inI 64 s' = true ∧ lpGet s' = x := by
  have ⟨hx0, hx1⟩ := inI_iff.mp hx
  simp only [show (32 : Nat) - 1 = 31 from rfl, Int.reducePow, Int.reduceNeg] at hx0 hx1
  -- measure: distance of the raw state from the target band
  suffices h : ∀ (μ : Nat) (s : Int), inI 64 s = true →
      (if s / 4294967296 < x then x * 4294967296 - s else if x < s / 4294967296 then s - x * 4294967296 else 0) ≤ (μ : Int) →
      ∃ n s', lp1Iter m x k n s = some s' ∧ inI 64 s' = true ∧ lpGet s' = x by
    have ⟨hs0, hs1⟩ := inI_iff.mp hs
    simp only [show (64 : Nat) - 1 = 63 from rfl, Int.reducePow, Int.reduceNeg] at hs0 hs1
    refine h ((if s / 4294967296 < x then x * 4294967296 - s else if x < s / 4294967296 then s - x * 4294967296 else 0).toNat) s hs ?_
    (repeat' split) <;> omega
  intro μ
  induction μ using Nat.strongRecOn with
  | _ μ ih =>
    intro s hs hμ
    have ⟨hs0, hs1⟩ := inI_iff.mp hs
    simp only [show (64 : Nat) - 1 = 63 from rfl, Int.reducePow, Int.reduceNeg] at hs0 hs1
    by_cases hg : s / 4294967296 = x
    · exact ⟨0, s, rfl, hs, by rw [get_eq hs0 hs1]; exact hg⟩
    · obtain ⟨d, he, -, hr0, hr1, hup, hdn, hpos, hneg⟩ := lp1_step m s x k hs0 hs1 hx0 hx1 hk0 (by omega)
      have hs' : inI 64 (s + 2 * d) = true := by
        rw [inI_iff]; simp only [show (64 : Nat) - 1 = 63 from rfl, Int.reducePow, Int.reduceNeg]; omega
      have hlt : (if (s + 2 * d) / 4294967296 < x then x * 4294967296 - (s + 2 * d)
            else if x < (s + 2 * d) / 4294967296 then (s + 2 * d) - x * 4294967296 else 0) < (μ : Int) := by
        by_cases hc : s / 4294967296 < x
        · have := hup (by omega); have := hpos hc
          rw [if_pos hc] at hμ
          (repeat' split) <;> omega
        · have hc' : x < s / 4294967296 := by omega
          have := hdn (by omega); have := hneg hc'
          rw [if_neg hc, if_pos hc'] at hμ
          (repeat' split) <;> omega
      have hμpos : 0 < μ := by
        have : (0 : Int) ≤ (if (s + 2 * d) / 4294967296 < x then x * 4294967296 - (s + 2 * d)
            else if x < (s + 2 * d) / 4294967296 then (s + 2 * d) - x * 4294967296 else 0) := by
          (repeat' split) <;> omega
        omega
      obtain ⟨n, s', hn, hin, hgs⟩ := ih (μ - 1) (by omega) (s + 2 * d) hs' (by omega)
      refine ⟨n + 1, s', ?_, hin, hgs⟩
      simp only [lp1Iter, he]; exact hn

/-- `set(x)` then `get()` returns `x` -/
theorem lp_set_get (x : Int) (hx : inI 32 x = true) : lpGet (lpSet x) = x := by
  have ⟨hx0, hx1⟩ := inI_iff.mp hx
  simp only [show (32 : Nat) - 1 = 31 from rfl, Int.reducePow, Int.reduceNeg] at hx0 hx1
  unfold lpSet
  rw [wrapI64_id (by omega) (by omega), get_eq (by omega) (by omega)]
  omega

/-- run the second-order lowpass `n` times on a constant input (plumbing for the witness below) -/
def lp2Iter (m : Mode) (x k0 k1 : Int) : Nat → Int × Int → R (Int × Int × Int)
  | 0, (s0, s1) => .ok (s0, s1, lpGet s0)
  | n + 1, (s0, s1) => do
    let (a, b, _) ← lp2Update m s0 s1 x k0 k1
    lp2Iter m x k0 k1 n (a, b)

/-- **second order, full-scale step: the "never wraps, saturates" clause is FALSE for the code** (F-C10).
    Butterworth `k = 459273616` (`[k²/2^32, -k·√2] = [49111492, -649510976]`), `set(0)`, constant `i32::MAX`:
    the 15th update overflows the i64 state in a checked build, and the release build returns a wrapped
    (negative) output although the input is `i32::MAX`. -/
theorem lp2_fullscale_overflow_witness :
    lp2Iter .checked (2 ^ 31 - 1) 49111492 (-649510976) 15 (0, 0)
      = .error ⟨"lowpass.rs:47 self.0[0] += self.0[1]"⟩ ∧
    lp2Iter .release (2 ^ 31 - 1) 49111492 (-649510976) 15 (0, 0)
      = .ok (-9105666520047197408, 81312857445431168, -2120078197) := by
  constructor <;> decide

/-- second order, one step: explicit no-overflow precondition and the linear-map form of the update -/
theorem lp2_step_linear (m : Mode) (s0 s1 x k0 k1 : Int)
    (hs0 : inI 64 s0 = true)
    (d : Int) (hd : d = satI 32 (x - s0 / 4294967296) * k0 + s1 / 4294967296 * k1)
    (h1 : inI 64 (satI 32 (x - s0 / 4294967296) * k0) = true) (h2 : inI 64 (s1 / 4294967296 * k1) = true)
    (h3 : inI 64 d = true) (h4 : inI 64 (s1 + d) = true) (h5 : inI 64 (s0 + (s1 + d)) = true)
    (h6 : inI 64 (s0 + 2 * (s1 + d)) = true) (h7 : inI 64 (s1 + 2 * d) = true) :
    lp2Update m s0 s1 x k0 k1 = .ok (s0 + 2 * (s1 + d), s1 + 2 * d, (s0 + (s1 + d)) / 4294967296) := by
  have ⟨a0, a1⟩ := inI_iff.mp hs0
  simp only [show (64 : Nat) - 1 = 63 from rfl, Int.reducePow, Int.reduceNeg] at a0 a1
  have ⟨b0, b1⟩ := inI_iff.mp h5
  simp only [show (64 : Nat) - 1 = 63 from rfl, Int.reducePow, Int.reduceNeg] at b0 b1
  unfold lp2Update
  rw [get_eq a0 a1]
  simp only [shr, arithI_ok_of_in h1, arithI_ok_of_in h2, bind_ok', Int.reducePow]
  rw [← hd]
  simp only [arithI_ok_of_in h3, arithI_ok_of_in h4, arithI_ok_of_in h5, bind_ok']
  rw [show s0 + (s1 + d) + (s1 + d) = s0 + 2 * (s1 + d) by omega, show s1 + d + d = s1 + 2 * d by omega]
  simp only [arithI_ok_of_in h6, arithI_ok_of_in h7, bind_ok']
  rw [get_eq b0 b1]

/-- **second order, DC gain exactly 1 at rest**: under a constant input `x`, a state is left unchanged by the update
    exactly when the velocity state is zero and `get() = x` (given the no-overflow side conditions and `k0 ≠ 0`);
    i.e. the only resting point of the filter has output exactly `x`. -/
theorem lp2_fixed_point_iff (m : Mode) (s0 s1 x k0 k1 : Int)
    (hs0 : inI 64 s0 = true) (hx : inI 32 x = true) (hk0 : k0 ≠ 0)
    (h1 : inI 64 (satI 32 (x - s0 / 4294967296) * k0) = true) (h2 : inI 64 (s1 / 4294967296 * k1) = true)
    (h3 : inI 64 (satI 32 (x - s0 / 4294967296) * k0 + s1 / 4294967296 * k1) = true)
    (h4 : inI 64 (s1 + (satI 32 (x - s0 / 4294967296) * k0 + s1 / 4294967296 * k1)) = true)
    (h5 : inI 64 (s0 + (s1 + (satI 32 (x - s0 / 4294967296) * k0 + s1 / 4294967296 * k1))) = true)
    (h6 : inI 64 (s0 + 2 * (s1 + (satI 32 (x - s0 / 4294967296) * k0 + s1 / 4294967296 * k1))) = true)
    (h7 : inI 64 (s1 + 2 * (satI 32 (x - s0 / 4294967296) * k0 + s1 / 4294967296 * k1)) = true) :
    (∃ y, lp2Update m s0 s1 x k0 k1 = .ok (s0, s1, y)) ↔ (s1 = 0 ∧ s0 / 4294967296 = x) := by
  have ⟨x0, x1⟩ := inI_iff.mp hx
  have ⟨a0, a1⟩ := inI_iff.mp hs0
  simp only [show (32 : Nat) - 1 = 31 from rfl, show (64 : Nat) - 1 = 63 from rfl, Int.reducePow, Int.reduceNeg] at x0 x1 a0 a1
  rw [lp2_step_linear m s0 s1 x k0 k1 hs0 _ rfl h1 h2 h3 h4 h5 h6 h7]
  generalize hd : satI 32 (x - s0 / 4294967296) * k0 + s1 / 4294967296 * k1 = d
  constructor
  · rintro ⟨y, hy⟩
    have hy' := Except.ok.inj hy
    have e1 : s0 + 2 * (s1 + d) = s0 := (Prod.mk.inj hy').1
    have e2 : s1 + 2 * d = s1 := (Prod.mk.inj (Prod.mk.inj hy').2).1
    have hd0 : d = 0 := by omega
    have hs1 : s1 = 0 := by omega
    refine ⟨hs1, ?_⟩
    subst hs1
    rw [hd0] at hd
    simp at hd
    have hsat : satI 32 (x - s0 / 4294967296) = 0 := by
      rcases Int.mul_eq_zero.mp hd with h | h
      · exact h
      · exact absurd h hk0
    unfold satI minI maxI at hsat
    simp only [show (32 : Nat) - 1 = 31 from rfl, Int.reducePow, Int.reduceNeg, Int.reduceSub] at hsat
    (repeat' split at hsat) <;> omega
  · rintro ⟨hs1, hg⟩
    subst hs1
    have hd0 : d = 0 := by
      rw [← hd, hg]; simp [satI, minI, maxI]
    rw [hd0]
    exact ⟨(s0 + (0 + 0)) / 4294967296, by simp⟩

-- non-vacuity: a concrete first-order step (k = 2^30, from rest, input 1000)
example : lp1Update .checked 0 1000 (2 ^ 30) = .ok (2147483648000, 250) := by decide

end Idsp
